From Coq Require Import Reals ZArith List String.
From OV Require Import Ops RInst XR Gen.RealRays Gen.Apertures Model.Trace Lemmas.L_Intensity Lemmas.L_Intensity2 Model.PlumbSteps Gen.Plumbing Model.Plumb Lemmas.L_Plumb.
Local Open Scope R_scope.
Import ListNotations.

Theorem C16_clip_zero_or_same :
  forall (cond : bool) (i : R), k_rr_clip ROps cond i = (if cond then 0%R else i).
Proof. exact clip_zero_or_same. Qed.
Print Assumptions C16_clip_zero_or_same.

Theorem C16_radial_clip_spec :
  forall x y rmax rmin i : T ROps,
       k_radial_clip ROps x y rmax rmin i =
       (if (Rltb (rmax * rmax) (x * x + y * y) || Rltb (x * x + y * y) (rmin * rmin))%bool
        then 0%R
        else i).
Proof. exact radial_clip_spec. Qed.
Print Assumptions C16_radial_clip_spec.

Theorem C16_absorb_factor :
  forall t x L y M z N k w i : T ROps,
       let
       '(_, _, _, i') := k_propagate ROps t x L y M z N k w i in
        i' = (i * exp (- (4 * PI * k / w) * t * 1000))%R.
Proof. exact absorb_factor. Qed.
Print Assumptions C16_absorb_factor.

Theorem C16_absorb_factor_bounds :
  forall t k w : R,
       (0 <= t)%R -> (0 <= k)%R -> (0 < w)%R -> (0 < exp (- (4 * PI * k / w) * t * 1000) <= 1)%R.
Proof. exact absorb_factor_bounds. Qed.
Print Assumptions C16_absorb_factor_bounds.

Theorem C16_coating_factor :
  forall i tr rf : T ROps,
       k_coat_transmit ROps i tr = (i * tr)%R /\ k_coat_reflect ROps i rf = (i * rf)%R.
Proof. exact coating_factor. Qed.
Print Assumptions C16_coating_factor.

Theorem C16_surface_intensity :
  forall (s : surf ROps) (r r' : ray ROps),
       trace_surface s r = Some r' ->
       exists (t : R) (clipped : bool),
         distance (s_shape s) (localize s r) = Some t /\
         ri r' =
         ((if clipped then 0 else ri r * exp (- (4 * PI * s_k1 s / rw r) * t * 1000)) *
          match s_coat s with
          | Some (tr, rf) => if s_refl s then rf else tr
          | None => 1
          end)%R.
Proof. exact surface_intensity. Qed.
Print Assumptions C16_surface_intensity.

Theorem C16_surface_intensity_monotone :
  forall (s : surf ROps) (r r' : ray ROps) (t : T ROps),
       trace_surface s r = Some r' ->
       surf_ok s ->
       distance (s_shape s) (localize s r) = Some t ->
       (0 <= t)%R -> (0 < rw r)%R -> (0 <= ri r <= 1)%R -> (0 <= ri r' <= ri r)%R.
Proof. exact surface_intensity_monotone. Qed.
Print Assumptions C16_surface_intensity_monotone.

Theorem C16_intensity_path_invariant :
  forall (ss : list (surf ROps)) (r : ray ROps) (l : list (ray ROps)),
       trace ss r = Some l ->
       Forall surf_ok ss ->
       dists_nonneg ss r -> (0 < rw r)%R -> (0 <= ri r <= 1)%R -> nonincreasing (ri r) (map ri l).
Proof. exact intensity_path_invariant. Qed.
Print Assumptions C16_intensity_path_invariant.

Theorem C16_clipped_stays_zero :
  forall (ss : list (surf ROps)) (r : ray ROps) (l : list (ray ROps)),
       trace ss r = Some l -> ri r = 0%R -> Forall (fun r' : ray ROps => ri r' = 0%R) l.
Proof. exact clipped_stays_zero. Qed.
Print Assumptions C16_clipped_stays_zero.


(** exact per-surface factor: which rays are clipped is determined by the landing point *)
Theorem C16_surface_intensity_exact :
  forall (s : surf ROps) (r r' : ray ROps),
       trace_surface s r = Some r' ->
       exists t : R, distance (s_shape s) (localize s r) = Some t /\ ri r' = (ri r * surf_factor s r t)%R.
Proof. exact surface_intensity_exact. Qed.
Print Assumptions C16_surface_intensity_exact.

Theorem C16_surf_factor_def :
  forall (s : surf ROps) (r : ray ROps) (t : R),
       surf_factor s r t =
       ((if match s_aper s with
            | Some (rmax, rmin) =>
                (Rltb (rmax * rmax) (hit_x s r t * hit_x s r t + hit_y s r t * hit_y s r t)
                 || Rltb (hit_x s r t * hit_x s r t + hit_y s r t * hit_y s r t) (rmin * rmin))%bool
            | None => false
            end
         then 0
         else exp (- (4 * PI * s_k1 s / rw r) * t * 1000)) *
        match s_coat s with
        | Some (tr, rf) => if s_refl s then rf else tr
        | None => 1
        end)%R.
Proof. intros s r t. unfold surf_factor, clipped_at, outside, coat_factor, absorb. destruct (s_aper s) as [[a b]|]; reflexivity. Qed.
Print Assumptions C16_surf_factor_def.

Theorem C16_lossless_surface_keeps_intensity :
  forall (s : surf ROps) (r r' : ray ROps),
       trace_surface s r = Some r' -> s_aper s = None -> s_coat s = None -> s_k1 s = 0%R -> ri r' = ri r.
Proof. exact lossless_surface_keeps_intensity. Qed.
Print Assumptions C16_lossless_surface_keeps_intensity.

Theorem C16_unclipped_transparent_surface :
  forall (s : surf ROps) (r r' : ray ROps) (t : R),
       trace_surface s r = Some r' ->
       distance (s_shape s) (localize s r) = Some t ->
       clipped_at s r t = false -> s_k1 s = 0%R -> ri r' = (ri r * coat_factor s)%R.
Proof. exact unclipped_transparent_surface. Qed.
Print Assumptions C16_unclipped_transparent_surface.

Theorem C16_outside_aperture_zero_onward :
  forall (s : surf ROps) (ss : list (surf ROps)) (r r' : ray ROps) (l : list (ray ROps)) (t rmax rmin : R),
       trace (s :: ss) r = Some (r' :: l) ->
       distance (s_shape s) (localize s r) = Some t ->
       s_aper s = Some (rmax, rmin) ->
       (rmax * rmax < hit_x s r t * hit_x s r t + hit_y s r t * hit_y s r t \/
        hit_x s r t * hit_x s r t + hit_y s r t * hit_y s r t < rmin * rmin)%R ->
       Forall (fun q : ray ROps => ri q = 0%R) (r' :: l).
Proof. exact outside_aperture_zero_onward. Qed.
Print Assumptions C16_outside_aperture_zero_onward.

Theorem C16_inside_aperture_not_clipped :
  forall (s : surf ROps) (r : ray ROps) (t rmax rmin : R),
       s_aper s = Some (rmax, rmin) ->
       (rmin * rmin <= hit_x s r t * hit_x s r t + hit_y s r t * hit_y s r t <= rmax * rmax)%R ->
       clipped_at s r t = false.
Proof. exact inside_aperture_not_clipped. Qed.
Print Assumptions C16_inside_aperture_not_clipped.

(** closed form for a path of ANY length: running products of the per-surface factors *)
Theorem C16_intensity_path_product :
  forall (ss : list (surf ROps)) (r : ray ROps) (l : list (ray ROps)),
       trace ss r = Some l -> map ri l = running (ri r) (factors ss r).
Proof. exact intensity_path_product. Qed.
Print Assumptions C16_intensity_path_product.

Theorem C16_final_intensity_is_product :
  forall (ss : list (surf ROps)) (r : ray ROps) (l : list (ray ROps)),
       trace ss r = Some l ->
       last (map ri l) (ri r) = (ri r * fold_right Rmult 1 (factors ss r))%R.
Proof. exact final_intensity_is_product. Qed.
Print Assumptions C16_final_intensity_is_product.

Theorem C16_factors_one_per_surface :
  forall (ss : list (surf ROps)) (r : ray ROps) (l : list (ray ROps)),
       trace ss r = Some l -> List.length (factors ss r) = List.length ss.
Proof. exact factors_length. Qed.
Print Assumptions C16_factors_one_per_surface.

Theorem C16_lossless_path_keeps_intensity :
  forall (ss : list (surf ROps)) (r : ray ROps) (l : list (ray ROps)),
       trace ss r = Some l ->
       Forall (fun s : surf ROps => s_aper s = None /\ s_coat s = None /\ s_k1 s = 0%R) ss ->
       Forall (fun q : ray ROps => ri q = ri r) l.
Proof. exact lossless_path_keeps_intensity. Qed.
Print Assumptions C16_lossless_path_keeps_intensity.

(** non-vacuity: a coated plane with an aperture of radius 2; a ray landing at r = 1 keeps 0.9, one at r = 3 gets 0 *)
Theorem C16_factor_examples : surf_factor s_ex r_in 1 = 0.9%R /\ surf_factor s_ex r_out 1 = 0%R.
Proof. exact (conj factor_example_unclipped factor_example_clipped). Qed.
Print Assumptions C16_factor_examples.

(** the hand-written composition of Model/Trace.v IS the plumbing regenerated from the source tree
    (Gen/Plumbing.v: the statements of Surface._trace_real / _interact / trace, CoordinateSystem.localize /
    globalize, BaseCoating.interact, SurfaceGroup.trace in source order), executed by Model/Plumb.v *)
Theorem C16_trace_surface_is_regenerated_plumbing :
  forall (s : surf ROps) (r : ray ROps),
       trace_real_run repo_lists s plumb_trace_real r None = of_opt (trace_surface s r).
Proof. exact (plumb_trace_real_is_model (O:=ROps)). Qed.
Print Assumptions C16_trace_surface_is_regenerated_plumbing.

Theorem C16_trace_is_regenerated_plumbing :
  forall (ss : list (surf ROps)) (r : ray ROps),
       group_trace_run repo_lists ss r = of_opt (trace ss r).
Proof. exact (plumb_group_trace_is_model (O:=ROps)). Qed.
Print Assumptions C16_trace_is_regenerated_plumbing.

Theorem C16_frame_change_is_regenerated_plumbing :
  forall (s : surf ROps) (r : ray ROps),
       cs_run s plumb_localize r = Ok (localize s r) /\ cs_run s plumb_globalize r = Ok (globalize s r).
Proof. intros s r; split; [exact (plumb_localize_is_model (O:=ROps) s r)|exact (plumb_globalize_is_model (O:=ROps) s r)]. Qed.
Print Assumptions C16_frame_change_is_regenerated_plumbing.

Theorem C16_repo_lists_def :
  repo_lists = mkLists plumb_trace_real plumb_interact plumb_surface_trace plumb_localize plumb_globalize
                       plumb_coat_interact plumb_group_trace plumb_geom_localize plumb_geom_globalize.
Proof. reflexivity. Qed.
Print Assumptions C16_repo_lists_def.

From Coq Require Import Reals ZArith List String.
From OV Require Import Ops RInst XR Gen.RealRays Gen.Apertures Model.Trace Lemmas.L_Intensity.
Local Open Scope R_scope.
Import ListNotations.

Theorem C16_clip_zero_or_same :
  forall (cond : bool) (i : R), k_rr_clip ROps cond i = (if cond then 0%R else i).
Proof. exact clip_zero_or_same. Qed.
Print Assumptions C16_clip_zero_or_same.

Theorem C16_radial_clip_spec :
  forall x y rmax rmin i : T ROps,
       k_radial_clip ROps x y rmax rmin i =
       (if (Rltb (rmax * rmax) (x * x + y * y) || Rltb (x * x + y * y) (rmin * rmin))%bool
        then 0%R
        else i).
Proof. exact radial_clip_spec. Qed.
Print Assumptions C16_radial_clip_spec.

Theorem C16_absorb_factor :
  forall t x L y M z N k w i : T ROps,
       let
       '(_, _, _, i') := k_propagate ROps t x L y M z N k w i in
        i' = (i * exp (- (4 * PI * k / w) * t * 1000))%R.
Proof. exact absorb_factor. Qed.
Print Assumptions C16_absorb_factor.

Theorem C16_absorb_factor_bounds :
  forall t k w : R,
       (0 <= t)%R -> (0 <= k)%R -> (0 < w)%R -> (0 < exp (- (4 * PI * k / w) * t * 1000) <= 1)%R.
Proof. exact absorb_factor_bounds. Qed.
Print Assumptions C16_absorb_factor_bounds.

Theorem C16_coating_factor :
  forall i tr rf : T ROps,
       k_coat_transmit ROps i tr = (i * tr)%R /\ k_coat_reflect ROps i rf = (i * rf)%R.
Proof. exact coating_factor. Qed.
Print Assumptions C16_coating_factor.

Theorem C16_surface_intensity :
  forall (s : surf ROps) (r r' : ray ROps),
       trace_surface s r = Some r' ->
       exists (t : R) (clipped : bool),
         distance (s_shape s) (localize s r) = Some t /\
         ri r' =
         ((if clipped then 0 else ri r * exp (- (4 * PI * s_k1 s / rw r) * t * 1000)) *
          match s_coat s with
          | Some (tr, rf) => if s_refl s then rf else tr
          | None => 1
          end)%R.
Proof. exact surface_intensity. Qed.
Print Assumptions C16_surface_intensity.

Theorem C16_surface_intensity_monotone :
  forall (s : surf ROps) (r r' : ray ROps) (t : T ROps),
       trace_surface s r = Some r' ->
       surf_ok s ->
       distance (s_shape s) (localize s r) = Some t ->
       (0 <= t)%R -> (0 < rw r)%R -> (0 <= ri r <= 1)%R -> (0 <= ri r' <= ri r)%R.
Proof. exact surface_intensity_monotone. Qed.
Print Assumptions C16_surface_intensity_monotone.

Theorem C16_intensity_path_invariant :
  forall (ss : list (surf ROps)) (r : ray ROps) (l : list (ray ROps)),
       trace ss r = Some l ->
       Forall surf_ok ss ->
       dists_nonneg ss r -> (0 < rw r)%R -> (0 <= ri r <= 1)%R -> nonincreasing (ri r) (map ri l).
Proof. exact intensity_path_invariant. Qed.
Print Assumptions C16_intensity_path_invariant.

Theorem C16_clipped_stays_zero :
  forall (ss : list (surf ROps)) (r : ray ROps) (l : list (ray ROps)),
       trace ss r = Some l -> ri r = 0%R -> Forall (fun r' : ray ROps => ri r' = 0%R) l.
Proof. exact clipped_stays_zero. Qed.
Print Assumptions C16_clipped_stays_zero.


From Coq Require Import Reals ZArith List String.
From OV Require Import Ops RInst XR Gen.Seidel Model.Seidel Spec.S_Seidel Lemmas.L_Seidel Lemmas.L_Seidel2.
Local Open Scope R_scope.
Import ListNotations.

Theorem C08_TSC_is_classical :
  forall n n' c y u u' yb ub ub' dn dn' H nl ul : R,
       n <> 0%R ->
       n' <> 0%R ->
       H <> 0%R ->
       (nl * ul)%R <> 0%R ->
       (n' * u')%R = (n * u - y * c * (n' - n))%R ->
       (2 * (nl * ul) *
        TSC_row (mkGlob (O:=ROps) H nl ul)
          (mkRow (O:=ROps) n n' c y u u' yb ub ub' dn dn'))%R = S_I n n' c y u u'.
Proof. exact TSC_is_classical. Qed.
Print Assumptions C08_TSC_is_classical.

Theorem C08_CC_is_classical :
  forall n n' c y u u' yb ub ub' dn dn' H nl ul : R,
       n <> 0%R ->
       n' <> 0%R ->
       H <> 0%R ->
       (nl * ul)%R <> 0%R ->
       (n' * u')%R = (n * u - y * c * (n' - n))%R ->
       (2 * (nl * ul) *
        CC_row (mkGlob (O:=ROps) H nl ul)
          (mkRow (O:=ROps) n n' c y u u' yb ub ub' dn dn'))%R = S_II n n' c y u u' yb ub.
Proof. exact CC_is_classical. Qed.
Print Assumptions C08_CC_is_classical.

Theorem C08_TAC_is_classical :
  forall n n' c y u u' yb ub ub' dn dn' H nl ul : R,
       n <> 0%R ->
       n' <> 0%R ->
       H <> 0%R ->
       (nl * ul)%R <> 0%R ->
       (n' * u')%R = (n * u - y * c * (n' - n))%R ->
       (2 * (nl * ul) *
        TAC_row (mkGlob (O:=ROps) H nl ul)
          (mkRow (O:=ROps) n n' c y u u' yb ub ub' dn dn'))%R = S_III n n' c y u u' yb ub.
Proof. exact TAC_is_classical. Qed.
Print Assumptions C08_TAC_is_classical.

Theorem C08_TPC_is_classical :
  forall n n' c y u u' yb ub ub' dn dn' H nl ul : R,
       n <> 0%R ->
       n' <> 0%R ->
       (nl * ul)%R <> 0%R ->
       (2 * (nl * ul) *
        TPC_row (mkGlob (O:=ROps) H nl ul)
          (mkRow (O:=ROps) n n' c y u u' yb ub ub' dn dn'))%R = S_IV n n' c H.
Proof. exact TPC_is_classical. Qed.
Print Assumptions C08_TPC_is_classical.

Theorem C08_DC_is_classical :
  forall n n' c y u u' yb ub ub' dn dn' H nl ul : R,
       n <> 0%R ->
       n' <> 0%R ->
       H <> 0%R ->
       (nl * ul)%R <> 0%R ->
       (n' * u')%R = (n * u - y * c * (n' - n))%R ->
       (n' * ub')%R = (n * ub - yb * c * (n' - n))%R ->
       H = (n * (yb * u - y * ub))%R ->
       (u + y * c)%R <> 0%R ->
       (2 * (nl * ul) *
        DC_row (mkGlob (O:=ROps) H nl ul)
          (mkRow (O:=ROps) n n' c y u u' yb ub ub' dn dn'))%R = S_V n n' c y u u' yb ub H.
Proof. exact DC_is_classical. Qed.
Print Assumptions C08_DC_is_classical.

Theorem C08_TAchC_is_classical :
  forall n n' c y u u' yb ub ub' dn dn' H nl ul : R,
       n <> 0%R ->
       n' <> 0%R ->
       (nl * ul)%R <> 0%R ->
       (nl * ul *
        TAchC_row (mkGlob (O:=ROps) H nl ul)
          (mkRow (O:=ROps) n n' c y u u' yb ub ub' dn dn'))%R = C_I n n' c y u dn dn'.
Proof. exact TAchC_is_classical. Qed.
Print Assumptions C08_TAchC_is_classical.

Theorem C08_TchC_is_classical :
  forall n n' c y u u' yb ub ub' dn dn' H nl ul : R,
       n <> 0%R ->
       n' <> 0%R ->
       (nl * ul)%R <> 0%R ->
       (nl * ul *
        TchC_row (mkGlob (O:=ROps) H nl ul)
          (mkRow (O:=ROps) n n' c y u u' yb ub ub' dn dn'))%R = C_II n n' c y yb ub dn dn'.
Proof. exact TchC_is_classical. Qed.
Print Assumptions C08_TchC_is_classical.

Theorem C08_TSC_stop_independent :
  forall n n' c y u u' yb ub ub' dn dn' H nl ul : R,
       n' <> 0%R ->
       H <> 0%R ->
       (nl * ul)%R <> 0%R ->
       TSC_row (mkGlob (O:=ROps) H nl ul)
         (mkRow (O:=ROps) n n' c y u u' yb ub ub' dn dn') =
       (n * (n' - n) * y * (u' + (c * y + u)) * ((c * y + u) * (c * y + u)) / (2 * n' * (nl * ul)))%R.
Proof. exact TSC_stop_independent. Qed.
Print Assumptions C08_TSC_stop_independent.

Theorem C08_TPC_depends_on_invariant_only :
  forall n n' c y u u' yb ub ub' dn dn' H nl ul : R,
       n <> 0%R ->
       n' <> 0%R ->
       (nl * ul)%R <> 0%R ->
       TPC_row (mkGlob (O:=ROps) H nl ul)
         (mkRow (O:=ROps) n n' c y u u' yb ub ub' dn dn') = ((n' - n) * c * (H * H) / (2 * n' * n * (nl * ul)))%R.
Proof. exact TPC_depends_on_invariant_only. Qed.
Print Assumptions C08_TPC_depends_on_invariant_only.

Theorem C08_seidel_sum_classical :
  forall (g : sglob ROps) (rows : list (srow ROps)) (f : sglob ROps -> srow ROps -> R)
         (h : srow ROps -> R),
       Forall (fun r : srow ROps => (2 * (g_nl g * g_ul g) * f g r)%R = h r) rows ->
       seidel_sum g (fam f g rows) = (- sum_list (O:=ROps) (map h rows))%R.
Proof. exact seidel_sum_classical. Qed.
Print Assumptions C08_seidel_sum_classical.

Theorem C08_third_order_identities :
  forall (g : sglob ROps) (rows : list (srow ROps)),
       let t := third_order g rows in
       nth 3 t nil = map (fun x : R => (x * 3)%R) (nth 2 t nil) /\
       nth 1 t nil = map (fun x : R => (- x / g_ul g)%R) (nth 0 t nil) /\
       nth 5 t nil = map (fun x : R => (- x / g_ul g)%R) (nth 4 t nil) /\
       nth 7 t nil = map (fun x : R => (- x / g_ul g)%R) (nth 6 t nil) /\
       nth 10 t nil = map (fun x : R => (- x / g_ul g)%R) (nth 9 t nil) /\
       nth 12 t nil =
       map (fun l : list (T ROps) => (- sum_list (O:=ROps) l * g_nl g * g_ul g * 2)%R)
         (nth 0 t nil :: nth 2 t nil :: nth 4 t nil :: nth 6 t nil :: nth 8 t nil :: nil) /\
       Forall (fun l : list (T ROps) => Datatypes.length l = Datatypes.length rows) (firstn 12 t).
Proof. exact third_order_identities. Qed.
Print Assumptions C08_third_order_identities.


(** orders of the terms: aperture scale s on the marginal ray, field scale h on the chief ray *)
Theorem C08_TSC_scaling :
  forall n n' c y u u' yb ub ub' dn dn' H nl ul s h : R,
       s <> 0%R -> h <> 0%R -> n <> 0%R -> n' <> 0%R -> H <> 0%R -> (nl * ul)%R <> 0%R ->
       TSC_row (mkGlob (O:=ROps) (s * h * H) nl (s * ul))
         (mkRow (O:=ROps) n n' c (s * y) (s * u) (s * u') (h * yb) (h * ub) (h * ub') dn dn') =
       (s * s * s * TSC_row (mkGlob (O:=ROps) H nl ul) (mkRow (O:=ROps) n n' c y u u' yb ub ub' dn dn'))%R.
Proof. intros; apply TSC_scaling; assumption. Qed.
Print Assumptions C08_TSC_scaling.

Theorem C08_CC_scaling :
  forall n n' c y u u' yb ub ub' dn dn' H nl ul s h : R,
       s <> 0%R -> h <> 0%R -> n <> 0%R -> n' <> 0%R -> H <> 0%R -> (nl * ul)%R <> 0%R ->
       CC_row (mkGlob (O:=ROps) (s * h * H) nl (s * ul))
         (mkRow (O:=ROps) n n' c (s * y) (s * u) (s * u') (h * yb) (h * ub) (h * ub') dn dn') =
       (s * s * h * CC_row (mkGlob (O:=ROps) H nl ul) (mkRow (O:=ROps) n n' c y u u' yb ub ub' dn dn'))%R.
Proof. intros; apply CC_scaling; assumption. Qed.
Print Assumptions C08_CC_scaling.

Theorem C08_TAC_scaling :
  forall n n' c y u u' yb ub ub' dn dn' H nl ul s h : R,
       s <> 0%R -> h <> 0%R -> n <> 0%R -> n' <> 0%R -> H <> 0%R -> (nl * ul)%R <> 0%R ->
       TAC_row (mkGlob (O:=ROps) (s * h * H) nl (s * ul))
         (mkRow (O:=ROps) n n' c (s * y) (s * u) (s * u') (h * yb) (h * ub) (h * ub') dn dn') =
       (s * h * h * TAC_row (mkGlob (O:=ROps) H nl ul) (mkRow (O:=ROps) n n' c y u u' yb ub ub' dn dn'))%R.
Proof. intros; apply TAC_scaling; assumption. Qed.
Print Assumptions C08_TAC_scaling.

Theorem C08_TPC_scaling :
  forall n n' c y u u' yb ub ub' dn dn' H nl ul s h : R,
       s <> 0%R -> h <> 0%R -> n <> 0%R -> n' <> 0%R -> H <> 0%R -> (nl * ul)%R <> 0%R ->
       TPC_row (mkGlob (O:=ROps) (s * h * H) nl (s * ul))
         (mkRow (O:=ROps) n n' c (s * y) (s * u) (s * u') (h * yb) (h * ub) (h * ub') dn dn') =
       (s * h * h * TPC_row (mkGlob (O:=ROps) H nl ul) (mkRow (O:=ROps) n n' c y u u' yb ub ub' dn dn'))%R.
Proof. intros; apply TPC_scaling; assumption. Qed.
Print Assumptions C08_TPC_scaling.

Theorem C08_DC_scaling :
  forall n n' c y u u' yb ub ub' dn dn' H nl ul s h : R,
       s <> 0%R -> h <> 0%R -> n <> 0%R -> n' <> 0%R -> H <> 0%R -> (nl * ul)%R <> 0%R ->
       DC_row (mkGlob (O:=ROps) (s * h * H) nl (s * ul))
         (mkRow (O:=ROps) n n' c (s * y) (s * u) (s * u') (h * yb) (h * ub) (h * ub') dn dn') =
       (h * h * h * DC_row (mkGlob (O:=ROps) H nl ul) (mkRow (O:=ROps) n n' c y u u' yb ub ub' dn dn'))%R.
Proof. intros; apply DC_scaling; assumption. Qed.
Print Assumptions C08_DC_scaling.

Theorem C08_TAchC_scaling :
  forall n n' c y u u' yb ub ub' dn dn' H nl ul s h : R,
       s <> 0%R -> h <> 0%R -> n <> 0%R -> n' <> 0%R -> H <> 0%R -> (nl * ul)%R <> 0%R ->
       TAchC_row (mkGlob (O:=ROps) (s * h * H) nl (s * ul))
         (mkRow (O:=ROps) n n' c (s * y) (s * u) (s * u') (h * yb) (h * ub) (h * ub') dn dn') =
       (s * TAchC_row (mkGlob (O:=ROps) H nl ul) (mkRow (O:=ROps) n n' c y u u' yb ub ub' dn dn'))%R.
Proof. intros; apply TAchC_scaling; assumption. Qed.
Print Assumptions C08_TAchC_scaling.

Theorem C08_TchC_scaling :
  forall n n' c y u u' yb ub ub' dn dn' H nl ul s h : R,
       s <> 0%R -> h <> 0%R -> n <> 0%R -> n' <> 0%R -> H <> 0%R -> (nl * ul)%R <> 0%R ->
       TchC_row (mkGlob (O:=ROps) (s * h * H) nl (s * ul))
         (mkRow (O:=ROps) n n' c (s * y) (s * u) (s * u') (h * yb) (h * ub) (h * ub') dn dn') =
       (h * TchC_row (mkGlob (O:=ROps) H nl ul) (mkRow (O:=ROps) n n' c y u u' yb ub ub' dn dn'))%R.
Proof. intros; apply TchC_scaling; assumption. Qed.
Print Assumptions C08_TchC_scaling.

Theorem C08_no_index_step_contributes_nothing :
  forall n c y u yb ub dn H nl ul : R,
       n <> 0%R -> (nl * ul)%R <> 0%R ->
       let g := mkGlob (O:=ROps) H nl ul in
       let r := mkRow (O:=ROps) n n c y u u yb ub ub dn dn in
       TSC_row g r = 0%R /\ CC_row g r = 0%R /\ TAC_row g r = 0%R /\ TPC_row g r = 0%R /\ DC_row g r = 0%R /\
       TAchC_row g r = 0%R /\ TchC_row g r = 0%R.
Proof. intros; apply no_index_step_contributes_nothing; assumption. Qed.
Print Assumptions C08_no_index_step_contributes_nothing.

Theorem C08_spherical_family_stop_independent :
  forall (H1 H2 nl ul : R) (rows1 rows2 : list (srow ROps)),
       H1 <> 0%R -> H2 <> 0%R -> (nl * ul)%R <> 0%R ->
       Forall2 same_marginal rows1 rows2 -> Forall (fun a : srow ROps => r_n1 a <> 0%R) rows1 ->
       fam TSC_row (mkGlob (O:=ROps) H1 nl ul) rows1 = fam TSC_row (mkGlob (O:=ROps) H2 nl ul) rows2.
Proof. exact spherical_family_stop_independent. Qed.
Print Assumptions C08_spherical_family_stop_independent.

Theorem C08_spherical_sum_stop_independent :
  forall (H1 H2 nl ul : R) (rows1 rows2 : list (srow ROps)),
       H1 <> 0%R -> H2 <> 0%R -> (nl * ul)%R <> 0%R ->
       Forall2 same_marginal rows1 rows2 -> Forall (fun a : srow ROps => r_n1 a <> 0%R) rows1 ->
       seidel_sum (mkGlob (O:=ROps) H1 nl ul) (fam TSC_row (mkGlob (O:=ROps) H1 nl ul) rows1) =
       seidel_sum (mkGlob (O:=ROps) H2 nl ul) (fam TSC_row (mkGlob (O:=ROps) H2 nl ul) rows2).
Proof. exact spherical_sum_stop_independent. Qed.
Print Assumptions C08_spherical_sum_stop_independent.

Theorem C08_same_marginal_def :
  forall a b : srow ROps,
       same_marginal a b <->
       (r_n0 a = r_n0 b /\ r_n1 a = r_n1 b /\ r_c a = r_c b /\ r_ya a = r_ya b /\ r_ua0 a = r_ua0 b /\ r_ua1 a = r_ua1 b).
Proof. intros a b; unfold same_marginal; tauto. Qed.
Print Assumptions C08_same_marginal_def.

Theorem C08_petzval_family_ray_independent :
  forall (H nl ul : R) (rows1 rows2 : list (srow ROps)),
       (nl * ul)%R <> 0%R ->
       Forall2 (fun a b : srow ROps => r_n0 a = r_n0 b /\ r_n1 a = r_n1 b /\ r_c a = r_c b) rows1 rows2 ->
       Forall (fun a : srow ROps => r_n0 a <> 0%R /\ r_n1 a <> 0%R) rows1 ->
       fam TPC_row (mkGlob (O:=ROps) H nl ul) rows1 = fam TPC_row (mkGlob (O:=ROps) H nl ul) rows2.
Proof. exact petzval_family_ray_independent. Qed.
Print Assumptions C08_petzval_family_ray_independent.

Theorem C08_plane_has_no_petzval :
  forall (g : sglob ROps) (a : srow ROps),
       r_c a = 0%R -> r_n0 a <> 0%R -> r_n1 a <> 0%R -> (g_nl g * g_ul g)%R <> 0%R -> TPC_row g a = 0%R.
Proof. exact plane_has_no_petzval. Qed.
Print Assumptions C08_plane_has_no_petzval.

From Coq Require Import Reals ZArith List String.
From OV Require Import Ops RInst XR Gen.Seidel Model.Seidel Spec.S_Seidel Lemmas.L_Seidel.
Local Open Scope R_scope.
Import ListNotations.

Theorem C08_TSC_is_classical :
  forall n n' c y u u' yb ub ub' dn dn' H nl ul : R,
       n <> 0%R ->
       n' <> 0%R ->
       H <> 0%R ->
       (nl * ul)%R <> 0%R ->
       (n' * u')%R = (n * u - y * c * (n' - n))%R ->
       (2 * (nl * ul) *
        TSC_row (mkGlob (O:=ROps) H nl ul)
          (mkRow (O:=ROps) n n' c y u u' yb ub ub' dn dn'))%R = S_I n n' c y u u'.
Proof. exact TSC_is_classical. Qed.
Print Assumptions C08_TSC_is_classical.

Theorem C08_CC_is_classical :
  forall n n' c y u u' yb ub ub' dn dn' H nl ul : R,
       n <> 0%R ->
       n' <> 0%R ->
       H <> 0%R ->
       (nl * ul)%R <> 0%R ->
       (n' * u')%R = (n * u - y * c * (n' - n))%R ->
       (2 * (nl * ul) *
        CC_row (mkGlob (O:=ROps) H nl ul)
          (mkRow (O:=ROps) n n' c y u u' yb ub ub' dn dn'))%R = S_II n n' c y u u' yb ub.
Proof. exact CC_is_classical. Qed.
Print Assumptions C08_CC_is_classical.

Theorem C08_TAC_is_classical :
  forall n n' c y u u' yb ub ub' dn dn' H nl ul : R,
       n <> 0%R ->
       n' <> 0%R ->
       H <> 0%R ->
       (nl * ul)%R <> 0%R ->
       (n' * u')%R = (n * u - y * c * (n' - n))%R ->
       (2 * (nl * ul) *
        TAC_row (mkGlob (O:=ROps) H nl ul)
          (mkRow (O:=ROps) n n' c y u u' yb ub ub' dn dn'))%R = S_III n n' c y u u' yb ub.
Proof. exact TAC_is_classical. Qed.
Print Assumptions C08_TAC_is_classical.

Theorem C08_TPC_is_classical :
  forall n n' c y u u' yb ub ub' dn dn' H nl ul : R,
       n <> 0%R ->
       n' <> 0%R ->
       (nl * ul)%R <> 0%R ->
       (2 * (nl * ul) *
        TPC_row (mkGlob (O:=ROps) H nl ul)
          (mkRow (O:=ROps) n n' c y u u' yb ub ub' dn dn'))%R = S_IV n n' c H.
Proof. exact TPC_is_classical. Qed.
Print Assumptions C08_TPC_is_classical.

Theorem C08_DC_is_classical :
  forall n n' c y u u' yb ub ub' dn dn' H nl ul : R,
       n <> 0%R ->
       n' <> 0%R ->
       H <> 0%R ->
       (nl * ul)%R <> 0%R ->
       (n' * u')%R = (n * u - y * c * (n' - n))%R ->
       (n' * ub')%R = (n * ub - yb * c * (n' - n))%R ->
       H = (n * (yb * u - y * ub))%R ->
       (u + y * c)%R <> 0%R ->
       (2 * (nl * ul) *
        DC_row (mkGlob (O:=ROps) H nl ul)
          (mkRow (O:=ROps) n n' c y u u' yb ub ub' dn dn'))%R = S_V n n' c y u u' yb ub H.
Proof. exact DC_is_classical. Qed.
Print Assumptions C08_DC_is_classical.

Theorem C08_TAchC_is_classical :
  forall n n' c y u u' yb ub ub' dn dn' H nl ul : R,
       n <> 0%R ->
       n' <> 0%R ->
       (nl * ul)%R <> 0%R ->
       (nl * ul *
        TAchC_row (mkGlob (O:=ROps) H nl ul)
          (mkRow (O:=ROps) n n' c y u u' yb ub ub' dn dn'))%R = C_I n n' c y u dn dn'.
Proof. exact TAchC_is_classical. Qed.
Print Assumptions C08_TAchC_is_classical.

Theorem C08_TchC_is_classical :
  forall n n' c y u u' yb ub ub' dn dn' H nl ul : R,
       n <> 0%R ->
       n' <> 0%R ->
       (nl * ul)%R <> 0%R ->
       (nl * ul *
        TchC_row (mkGlob (O:=ROps) H nl ul)
          (mkRow (O:=ROps) n n' c y u u' yb ub ub' dn dn'))%R = C_II n n' c y yb ub dn dn'.
Proof. exact TchC_is_classical. Qed.
Print Assumptions C08_TchC_is_classical.

Theorem C08_TSC_stop_independent :
  forall n n' c y u u' yb ub ub' dn dn' H nl ul : R,
       n' <> 0%R ->
       H <> 0%R ->
       (nl * ul)%R <> 0%R ->
       TSC_row (mkGlob (O:=ROps) H nl ul)
         (mkRow (O:=ROps) n n' c y u u' yb ub ub' dn dn') =
       (n * (n' - n) * y * (u' + (c * y + u)) * ((c * y + u) * (c * y + u)) / (2 * n' * (nl * ul)))%R.
Proof. exact TSC_stop_independent. Qed.
Print Assumptions C08_TSC_stop_independent.

Theorem C08_TPC_depends_on_invariant_only :
  forall n n' c y u u' yb ub ub' dn dn' H nl ul : R,
       n <> 0%R ->
       n' <> 0%R ->
       (nl * ul)%R <> 0%R ->
       TPC_row (mkGlob (O:=ROps) H nl ul)
         (mkRow (O:=ROps) n n' c y u u' yb ub ub' dn dn') = ((n' - n) * c * (H * H) / (2 * n' * n * (nl * ul)))%R.
Proof. exact TPC_depends_on_invariant_only. Qed.
Print Assumptions C08_TPC_depends_on_invariant_only.

Theorem C08_seidel_sum_classical :
  forall (g : sglob ROps) (rows : list (srow ROps)) (f : sglob ROps -> srow ROps -> R)
         (h : srow ROps -> R),
       Forall (fun r : srow ROps => (2 * (g_nl g * g_ul g) * f g r)%R = h r) rows ->
       seidel_sum g (fam f g rows) = (- sum_list (O:=ROps) (map h rows))%R.
Proof. exact seidel_sum_classical. Qed.
Print Assumptions C08_seidel_sum_classical.

Theorem C08_third_order_identities :
  forall (g : sglob ROps) (rows : list (srow ROps)),
       let t := third_order g rows in
       nth 3 t nil = map (fun x : R => (x * 3)%R) (nth 2 t nil) /\
       nth 1 t nil = map (fun x : R => (- x / g_ul g)%R) (nth 0 t nil) /\
       nth 5 t nil = map (fun x : R => (- x / g_ul g)%R) (nth 4 t nil) /\
       nth 7 t nil = map (fun x : R => (- x / g_ul g)%R) (nth 6 t nil) /\
       nth 10 t nil = map (fun x : R => (- x / g_ul g)%R) (nth 9 t nil) /\
       nth 12 t nil =
       map (fun l : list (T ROps) => (- sum_list (O:=ROps) l * g_nl g * g_ul g * 2)%R)
         (nth 0 t nil :: nth 2 t nil :: nth 4 t nil :: nth 6 t nil :: nth 8 t nil :: nil) /\
       Forall (fun l : list (T ROps) => Datatypes.length l = Datatypes.length rows) (firstn 12 t).
Proof. exact third_order_identities. Qed.
Print Assumptions C08_third_order_identities.


From Coq Require Import Reals ZArith List String.
From OV Require Import Ops RInst XR Num.OpsC09 Gen.Wavefront Model.Trace Model.M_C09 Spec.S_C09 Lemmas.L_C09_sphere Lemmas.L_C09_tilt Lemmas.L_C09_data Lemmas.L_C09_stats Lemmas.L_C09_xr Lemmas.L_C09_table.
Local Open Scope R_scope.
Import ListNotations.

Theorem C09_ref_sphere_through_pupil :
  forall (pupil_z : R) (xs ys zs : list R) (xc yc zc : R) (n : Z) (res : R * R * R * R),
       k_wf_ref_sphere ROps pupil_z (xs ++ xc :: nil) n (ys ++ yc :: nil) (zs ++ zc :: nil) =
       Some res ->
       n = 1%Z /\
       fst (fst (fst res)) = xc /\
       snd (fst (fst res)) = yc /\
       snd (fst res) = zc /\
       (0 <= snd res)%R /\
       (snd res * snd res)%R = ref_radius_sq (xc, yc, zc) pupil_z /\
       on_sphere (xc, yc, zc) (snd res * snd res) (0%R, 0%R, pupil_z).
Proof. exact ref_sphere_through_pupil. Qed.
Print Assumptions C09_ref_sphere_through_pupil.

Theorem C09_ref_sphere_needs_single_ray :
  forall (pupil_z : R) (xs ys zs : list R) (n : Z),
       n <> 1%Z -> k_wf_ref_sphere ROps pupil_z xs n ys zs = None.
Proof. exact ref_sphere_needs_single_ray. Qed.
Print Assumptions C09_ref_sphere_needs_single_ray.

Theorem C09_image_to_xp_on_sphere :
  forall (xc yc zc Rr xr yr zr L M N : R) (xs ys zs Ls Ms Ns : list R),
       (L * L + M * M + N * N)%R <> 0%R ->
       (0 <=
        - (2 * (L * (xr - xc) + M * (yr - yc) + N * (zr - zc))) *
        - (2 * (L * (xr - xc) + M * (yr - yc) + N * (zr - zc))) -
        4 * (L * L + M * M + N * N) *
        ((xr - xc) * (xr - xc) + (yr - yc) * (yr - yc) + (zr - zc) * (zr - zc) - Rr * Rr))%R ->
       on_sphere (xc, yc, zc) (Rr * Rr)
         (back (xr, yr, zr) (L, M, N) (t_xp xc yc zc Rr xr yr zr L M N xs ys zs Ls Ms Ns)).
Proof. exact image_to_xp_on_sphere. Qed.
Print Assumptions C09_image_to_xp_on_sphere.

Theorem C09_image_to_xp_branch :
  forall (xc yc zc Rr xr yr zr L M N : R) (xs ys zs Ls Ms Ns : list R),
       (0 < L * L + M * M + N * N)%R ->
       (0 <=
        - (2 * (L * (xr - xc) + M * (yr - yc) + N * (zr - zc))) *
        - (2 * (L * (xr - xc) + M * (yr - yc) + N * (zr - zc))) -
        4 * (L * L + M * M + N * N) *
        ((xr - xc) * (xr - xc) + (yr - yc) * (yr - yc) + (zr - zc) * (zr - zc) - Rr * Rr))%R ->
       ((0 <=
         (- - (2 * (L * (xr - xc) + M * (yr - yc) + N * (zr - zc))) +
          sqrt
            (- (2 * (L * (xr - xc) + M * (yr - yc) + N * (zr - zc))) *
             - (2 * (L * (xr - xc) + M * (yr - yc) + N * (zr - zc))) -
             4 * (L * L + M * M + N * N) *
             ((xr - xc) * (xr - xc) + (yr - yc) * (yr - yc) + (zr - zc) * (zr - zc) - Rr * Rr))) /
         (2 * (L * L + M * M + N * N)))%R ->
        (0 <= t_xp xc yc zc Rr xr yr zr L M N xs ys zs Ls Ms Ns)%R /\
        (forall t : R,
         (0 <= t)%R ->
         on_sphere (xc, yc, zc) (Rr * Rr) (back (xr, yr, zr) (L, M, N) t) ->
         (t_xp xc yc zc Rr xr yr zr L M N xs ys zs Ls Ms Ns <= t)%R)) /\
       (((- - (2 * (L * (xr - xc) + M * (yr - yc) + N * (zr - zc))) +
          sqrt
            (- (2 * (L * (xr - xc) + M * (yr - yc) + N * (zr - zc))) *
             - (2 * (L * (xr - xc) + M * (yr - yc) + N * (zr - zc))) -
             4 * (L * L + M * M + N * N) *
             ((xr - xc) * (xr - xc) + (yr - yc) * (yr - yc) + (zr - zc) * (zr - zc) - Rr * Rr))) /
         (2 * (L * L + M * M + N * N)) < 0)%R ->
        t_xp xc yc zc Rr xr yr zr L M N xs ys zs Ls Ms Ns =
        ((- - (2 * (L * (xr - xc) + M * (yr - yc) + N * (zr - zc))) +
          sqrt
            (- (2 * (L * (xr - xc) + M * (yr - yc) + N * (zr - zc))) *
             - (2 * (L * (xr - xc) + M * (yr - yc) + N * (zr - zc))) -
             4 * (L * L + M * M + N * N) *
             ((xr - xc) * (xr - xc) + (yr - yc) * (yr - yc) + (zr - zc) * (zr - zc) - Rr * Rr))) /
         (2 * (L * L + M * M + N * N)))%R).
Proof. exact image_to_xp_branch. Qed.
Print Assumptions C09_image_to_xp_branch.

Theorem C09_image_to_xp_inside :
  forall (xc yc zc Rr xr yr zr L M N : R) (xs ys zs Ls Ms Ns : list R),
       (0 < L * L + M * M + N * N)%R ->
       ((xr - xc) * (xr - xc) + (yr - yc) * (yr - yc) + (zr - zc) * (zr - zc) - Rr * Rr < 0)%R ->
       (0 < t_xp xc yc zc Rr xr yr zr L M N xs ys zs Ls Ms Ns)%R /\
       t_xp xc yc zc Rr xr yr zr L M N xs ys zs Ls Ms Ns =
       ((- - (2 * (L * (xr - xc) + M * (yr - yc) + N * (zr - zc))) +
         sqrt
           (- (2 * (L * (xr - xc) + M * (yr - yc) + N * (zr - zc))) *
            - (2 * (L * (xr - xc) + M * (yr - yc) + N * (zr - zc))) -
            4 * (L * L + M * M + N * N) *
            ((xr - xc) * (xr - xc) + (yr - yc) * (yr - yc) + (zr - zc) * (zr - zc) - Rr * Rr))) /
        (2 * (L * L + M * M + N * N)))%R.
Proof. exact image_to_xp_inside. Qed.
Print Assumptions C09_image_to_xp_inside.

Theorem C09_image_to_xp_chief :
  forall (xc yc zc Rr L M N : R) (xs ys zs Ls Ms Ns : list R),
       (L * L + M * M + N * N)%R = 1%R ->
       (0 <= Rr)%R -> t_xp xc yc zc Rr xc yc zc L M N xs ys zs Ls Ms Ns = Rr.
Proof. exact image_to_xp_chief. Qed.
Print Assumptions C09_image_to_xp_chief.

Theorem C09_path_length_is_path_to_sphere :
  forall (xc yc zc Rr opd n xr yr zr L M N : T ROps) (opds xs ys zs Ls Ms Ns : list (T ROps)),
       k_wf_get_path_length ROps xc yc zc Rr (opds ++ opd :: nil) n (xs ++ xr :: nil)
         (ys ++ yr :: nil) (zs ++ zr :: nil) (Ls ++ L :: nil) (Ms ++ M :: nil) 
         (Ns ++ N :: nil) =
       path_to_sphere 0 opd (Rabs n) (t_xp xc yc zc Rr xr yr zr L M N xs ys zs Ls Ms Ns).
Proof. exact path_length_is_path_to_sphere. Qed.
Print Assumptions C09_path_length_is_path_to_sphere.

Theorem C09_tilt_dist_is_tilt_xy :
  forall (ft : string) (opd f0 f1 maxf vx vy dx dy E nobj : T ROps),
       k_wf_tilt_dist ROps opd ft f0 f1 maxf vx vy dx dy E nobj =
       k_wf_tilt_xy ROps opd (dx * ((1 - vx) * (1 - vx)))%R (dy * ((1 - vy) * (1 - vy)))%R ft f0 f1
         maxf vx vy E nobj.
Proof. exact tilt_dist_is_tilt_xy. Qed.
Print Assumptions C09_tilt_dist_is_tilt_xy.

Theorem C09_tilt_difference_angle :
  forall p q f0 f1 maxf vx vy dx dy E nobj : T ROps,
       (k_wf_tilt_xy ROps p 0 0 "angle" f0 f1 maxf vx vy E nobj -
        k_wf_tilt_dist ROps q "angle" f0 f1 maxf vx vy dx dy E nobj)%R =
       (p - q -
        (dx * ((1 - vx) * (1 - vx)) * sin (rad (maxf * f0)) * E / 2 +
         dy * ((1 - vy) * (1 - vy)) * sin (rad (maxf * f1)) * E / 2) * 
        Rabs nobj)%R.
Proof. exact tilt_difference_angle. Qed.
Print Assumptions C09_tilt_difference_angle.

Theorem C09_launch_parallel :
  forall c : launchcfg ROps,
       lc_infinite c = true ->
       lc_angle c = true ->
       forall (w Hx Hy Px Py vx vy Px' Py' vx' vy' : T ROps) (r r' : ray ROps),
       launch c w Hx Hy Px Py vx vy = Some r ->
       launch c w Hx Hy Px' Py' vx' vy' = Some r' -> rL r = rL r' /\ rM r = rM r' /\ rN r = rN r'.
Proof. exact launch_parallel. Qed.
Print Assumptions C09_launch_parallel.

Theorem C09_launch_offset :
  forall c : launchcfg ROps,
       lc_infinite c = true ->
       lc_angle c = true ->
       forall (w Hx Hy Px Py vx vy : T ROps) (r r0 : ray ROps),
       launch c w Hx Hy Px Py vx vy = Some r ->
       launch c w Hx Hy 0%R 0%R vx vy = Some r0 ->
       plane_wave_path 1 (rL r, rM r, rN r) (rx r0, ry r0, rz r0) (rx r, ry r, rz r) =
       (rL r * (Px * lc_EPD c / 2 * (1 - vx)) + rM r * (Py * lc_EPD c / 2 * (1 - vy)))%R.
Proof. exact launch_offset. Qed.
Print Assumptions C09_launch_offset.

Theorem C09_launch_dir_y :
  forall c : launchcfg ROps,
       lc_infinite c = true ->
       lc_angle c = true ->
       forall (w : T ROps) (Hy : R) (Px Py vx vy : T ROps) (r : ray ROps),
       lc_pos1 c = 0%R ->
       (0 < lc_offset c + lc_EPL c)%R ->
       (0 < cos (rad (lc_maxfield c * Hy)))%R ->
       launch c w 0%R Hy Px Py vx vy = Some r ->
       rL r = 0%R /\ rM r = sin (rad (lc_maxfield c * Hy)) /\ rN r = cos (rad (lc_maxfield c * Hy)).
Proof. exact launch_dir_y. Qed.
Print Assumptions C09_launch_dir_y.

Theorem C09_tilt_matches_launch :
  forall (c : launchcfg ROps) (w Hy dx dy vx vy p q nobj : R) (r r0 : ray ROps),
       lc_infinite c = true ->
       lc_angle c = true ->
       lc_pos1 c = 0%R ->
       (0 < lc_offset c + lc_EPL c)%R ->
       (0 < cos (rad (lc_maxfield c * Hy)))%R ->
       launch c w 0%R Hy (scaled (O:=ROps) dx vx) (scaled (O:=ROps) dy vy) vx vy = Some r ->
       launch c w 0%R Hy (scaled (O:=ROps) 0%R vx) (scaled (O:=ROps) 0%R vy) vx vy = Some r0 ->
       (k_wf_tilt_xy ROps p 0 0 "angle" 0 Hy (lc_maxfield c) vx vy (lc_EPD c) nobj -
        k_wf_tilt_dist ROps q "angle" 0 Hy (lc_maxfield c) vx vy dx dy (lc_EPD c) nobj)%R =
       (p - q -
        plane_wave_path (Rabs nobj) (rL r, rM r, rN r) (rx r0, ry r0, rz r0) (rx r, ry r, rz r))%R.
Proof. exact tilt_matches_launch. Qed.
Print Assumptions C09_tilt_matches_launch.

Theorem C09_finite_object_common_point :
  forall (c : launchcfg ROps) (w Hx Hy Px Py vx vy Px' Py' vx' vy' : R) (r r' : ray ROps),
       lc_infinite c = false ->
       launch c w Hx Hy Px Py vx vy = Some r ->
       launch c w Hx Hy Px' Py' vx' vy' = Some r' -> rx r = rx r' /\ ry r = ry r' /\ rz r = rz r'.
Proof. exact finite_object_common_point. Qed.
Print Assumptions C09_finite_object_common_point.

Theorem C09_height_fields_no_correction :
  forall opd f0 f1 maxf vx vy dx dy E nobj : T ROps,
       k_wf_tilt_dist ROps opd "object_height" f0 f1 maxf vx vy dx dy E nobj = opd /\
       k_wf_tilt_xy ROps opd 0%R 0%R "object_height" f0 f1 maxf vx vy E nobj = opd.
Proof. exact height_fields_no_correction. Qed.
Print Assumptions C09_height_fields_no_correction.

Theorem C09_chief_sample_zero :
  forall (ss : list (surf ROps)) (pz : T ROps) (c : wfcfg ROps) (w Hx Hy vx vy : T ROps)
         (l0 : ray ROps) (ref : T ROps * T ROps * T ROps * T ROps * T ROps) 
         (v i : T ROps),
       chief_ref ss pz c Hx Hy vx vy l0 = Some ref ->
       sample ss c w Hx Hy vx vy ref l0 0%R 0%R = Some (v, i) -> v = 0%R.
Proof. exact chief_sample_zero. Qed.
Print Assumptions C09_chief_sample_zero.

Theorem C09_field_data_from_samples :
  forall (ss : list (surf ROps)) (pz : T ROps) (c : wfcfg ROps) (w Hx Hy vx vy : T ROps)
         (chief : ray ROps) (batch : list (ray ROps * (T ROps * T ROps)))
         (opds ints : list (T ROps)),
       field_data_from ss pz c w Hx Hy vx vy chief batch = Some (opds, ints) ->
       exists ref : T ROps * T ROps * T ROps * T ROps * T ROps,
         chief_ref ss pz c Hx Hy vx vy chief = Some ref /\
         length opds = length batch /\
         length ints = length batch /\
         (forall (k : nat) (l0 : ray ROps) (dx dy : T ROps),
          nth_error batch k = Some (l0, (dx, dy)) ->
          exists v i : T ROps,
            sample ss c w Hx Hy vx vy ref l0 dx dy = Some (v, i) /\
            nth_error opds k = Some v /\ nth_error ints k = Some i).
Proof. exact field_data_from_samples. Qed.
Print Assumptions C09_field_data_from_samples.

Theorem C09_field_data_chief_zero :
  forall (ss : list (surf ROps)) (pz : T ROps) (c : wfcfg ROps) (lc : launchcfg ROps)
         (w Hx Hy vx vy : T ROps) (dist : list (T ROps * T ROps)) (opds ints : list (T ROps))
         (k : nat),
       field_data ss pz c lc w Hx Hy vx vy dist = Some (opds, ints) ->
       nth_error dist k = Some (0%R, 0%R) -> nth_error opds k = Some 0%R.
Proof. exact field_data_chief_zero. Qed.
Print Assumptions C09_field_data_chief_zero.

Theorem C09_opd_definition_infinite :
  forall (ss : list (surf ROps)) (pz : T ROps) (wc : wfcfg ROps) (lc : launchcfg ROps)
         (w : T ROps) (Hy : R) (vx vy dx dy : T ROps) (l0c l0 : ray ROps)
         (recs_c recs : list (ray ROps)) (ref : T ROps * T ROps * T ROps * T ROps * T ROps)
         (v i : T ROps),
       lc_infinite lc = true ->
       lc_angle lc = true ->
       lc_pos1 lc = 0%R ->
       (0 < lc_offset lc + lc_EPL lc)%R ->
       (0 < cos (rad (lc_maxfield lc * Hy)))%R ->
       w_ftype wc = "angle"%string ->
       w_maxfield wc = lc_maxfield lc ->
       w_EPD wc = lc_EPD lc ->
       launch lc w 0%R Hy (scaled (O:=ROps) 0%R vx) (scaled (O:=ROps) 0%R vy) vx vy = Some l0c ->
       launch lc w 0%R Hy (scaled (O:=ROps) dx vx) (scaled (O:=ROps) dy vy) vx vy = Some l0 ->
       trace ss l0c = Some recs_c ->
       trace ss l0 = Some recs ->
       chief_ref ss pz wc 0%R Hy vx vy l0c = Some ref ->
       sample ss wc w 0%R Hy vx vy ref l0 dx dy = Some (v, i) ->
       let ec := image_rec l0c recs_c in
       let e := image_rec l0 recs in
       let Rr := sqrt (ref_radius_sq (rx ec, ry ec, rz ec) pz) in
       let n_obj := Rabs (n_object ss) in
       let n_img := Rabs (n_image ss) in
       v =
       opd_waves (path_to_sphere 0 (ropd ec) n_img (dist_back (rx ec) (ry ec) (rz ec) Rr ec))
         (path_to_sphere
            (plane_wave_path n_obj (rL l0, rM l0, rN l0) (rx l0c, ry l0c, rz l0c)
               (rx l0, ry l0, rz l0)) (ropd e) n_img (dist_back (rx ec) (ry ec) (rz ec) Rr e)) w.
Proof. exact opd_definition_infinite. Qed.
Print Assumptions C09_opd_definition_infinite.

Theorem C09_opd_definition_finite :
  forall (ss : list (surf ROps)) (pz : T ROps) (wc : wfcfg ROps)
         (w Hx Hy vx vy dx dy : T ROps) (l0c l0 : ray ROps) (recs_c recs : list (ray ROps))
         (ref : T ROps * T ROps * T ROps * T ROps * T ROps) (v i : T ROps),
       w_ftype wc = "object_height"%string ->
       trace ss l0c = Some recs_c ->
       trace ss l0 = Some recs ->
       chief_ref ss pz wc Hx Hy vx vy l0c = Some ref ->
       sample ss wc w Hx Hy vx vy ref l0 dx dy = Some (v, i) ->
       let ec := image_rec l0c recs_c in
       let e := image_rec l0 recs in
       let Rr := sqrt (ref_radius_sq (rx ec, ry ec, rz ec) pz) in
       let n_img := Rabs (n_image ss) in
       v =
       opd_waves (path_to_sphere 0 (ropd ec) n_img (dist_back (rx ec) (ry ec) (rz ec) Rr ec))
         (path_to_sphere 0 (ropd e) n_img (dist_back (rx ec) (ry ec) (rz ec) Rr e)) w.
Proof. exact opd_definition_finite. Qed.
Print Assumptions C09_opd_definition_finite.

Theorem C09_sample_points_on_reference_sphere :
  forall (pz : R) (ec e : ray ROps),
       let cen := (rx ec, ry ec, rz ec) in
       let R2 := ref_radius_sq cen pz in
       let Rr := sqrt R2 in
       (rL e * rL e + rM e * rM e + rN e * rN e)%R <> 0%R ->
       (0 <=
        - (2 * (rL e * (rx e - rx ec) + rM e * (ry e - ry ec) + rN e * (rz e - rz ec))) *
        - (2 * (rL e * (rx e - rx ec) + rM e * (ry e - ry ec) + rN e * (rz e - rz ec))) -
        4 * (rL e * rL e + rM e * rM e + rN e * rN e) *
        ((rx e - rx ec) * (rx e - rx ec) + (ry e - ry ec) * (ry e - ry ec) +
         (rz e - rz ec) * (rz e - rz ec) - Rr * Rr))%R ->
       on_sphere cen R2
         (back (rx e, ry e, rz e) (rL e, rM e, rN e) (dist_back (rx ec) (ry ec) (rz ec) Rr e)) /\
       on_sphere cen R2 (0%R, 0%R, pz).
Proof. exact sample_points_on_reference_sphere. Qed.
Print Assumptions C09_sample_points_on_reference_sphere.

Theorem C09_rms_is_rms :
  forall (opd inten : list R) (rest : list (list R * list R))
         (rows : list (list (list R * list R))),
       k_wf_opd_rms ROps (((opd, inten) :: rest) :: rows) = rmsR opd.
Proof. exact rms_is_rms. Qed.
Print Assumptions C09_rms_is_rms.

Theorem C09_rms_nonneg :
  forall l : list R, (0 <= rmsR l)%R.
Proof. exact rms_nonneg. Qed.
Print Assumptions C09_rms_nonneg.

Theorem C09_rms_zero_iff :
  forall l : list R, l <> nil -> rmsR l = 0%R <-> (forall x : R, In x l -> x = 0%R).
Proof. exact rms_zero_iff. Qed.
Print Assumptions C09_rms_zero_iff.

Theorem C09_fan_is_slice :
  forall (n : nat) (opd : list R) (k : nat),
       (k < n)%nat ->
       let lin := linspace (O:=ROps) (- (1))%R 1%R n in
       nth_error (fan_y (O:=ROps) n opd) k = nth_error opd k /\
       nth_error (fan_x (O:=ROps) n opd) k = nth_error opd (n + k)%nat /\
       nth_error (cross (O:=ROps) n) k = Some (0%R, nth k lin 0%R) /\
       nth_error (cross (O:=ROps) n) (n + k)%nat = Some (nth k lin 0%R, 0%R).
Proof. exact fan_is_slice. Qed.
Print Assumptions C09_fan_is_slice.

Theorem C09_opd_difference_is_mean_abs_dev :
  forall opd weights : list R, opd_difference (O:=ROps) opd weights = mean_abs_dev opd weights.
Proof. exact opd_difference_is_mean_abs_dev. Qed.
Print Assumptions C09_opd_difference_is_mean_abs_dev.

Theorem C09_opd_difference_nonneg :
  forall opd weights : list R, (0 <= mean_abs_dev opd weights)%R.
Proof. exact opd_difference_nonneg. Qed.
Print Assumptions C09_opd_difference_nonneg.

Theorem C09_opd_difference_constant :
  forall (c : R) (n : nat) (weights : list R), mean_abs_dev (repeat c (S n)) weights = 0%R.
Proof. exact opd_difference_constant. Qed.
Print Assumptions C09_opd_difference_constant.

Theorem C09_image_to_xp_miss :
  forall (xc yc zc Rr xr yr zr L M N : R) (xs ys zs Ls Ms Ns : list R),
       (- (2 * (L * (xr - xc) + M * (yr - yc) + N * (zr - zc))) *
        - (2 * (L * (xr - xc) + M * (yr - yc) + N * (zr - zc))) -
        4 * (L * L + M * M + N * N) *
        ((xr - xc) * (xr - xc) + (yr - yc) * (yr - yc) + (zr - zc) * (zr - zc) - Rr * Rr) < 0)%R ->
       t_xp_x xc yc zc Rr xr yr zr L M N xs ys zs Ls Ms Ns = NaN.
Proof. exact image_to_xp_miss. Qed.
Print Assumptions C09_image_to_xp_miss.

Theorem C09_image_to_xp_finite_sound :
  forall (xc yc zc Rr xr yr zr L M N : R) (xs ys zs Ls Ms Ns : list R) (t : R),
       t_xp_x xc yc zc Rr xr yr zr L M N xs ys zs Ls Ms Ns = Fin t ->
       (L * L + M * M + N * N)%R <> 0%R /\
       (0 <=
        - (2 * (L * (xr - xc) + M * (yr - yc) + N * (zr - zc))) *
        - (2 * (L * (xr - xc) + M * (yr - yc) + N * (zr - zc))) -
        4 * (L * L + M * M + N * N) *
        ((xr - xc) * (xr - xc) + (yr - yc) * (yr - yc) + (zr - zc) * (zr - zc) - Rr * Rr))%R /\
       on_sphere (xc, yc, zc) (Rr * Rr) (back (xr, yr, zr) (L, M, N) t).
Proof. exact image_to_xp_finite_sound. Qed.
Print Assumptions C09_image_to_xp_finite_sound.

Theorem C09_generate_data_entry :
  forall (lens : R -> list (surf ROps)) (ps : list (Paraxial.psurf ROps)) 
         (c : wfcfg ROps) (lc : launchcfg ROps) (fields : list (fieldspec ROps))
         (wls : list (T ROps)) (dist : list (T ROps * T ROps)) (d : wfdata (O:=ROps)),
       generate_data (O:=ROps) lens ps c lc fields wls dist = Some d ->
       List.length d = List.length fields /\
       (forall (i j : nat) (f : fieldspec ROps) (w : T ROps),
        nth_error fields i = Some f ->
        nth_error wls j = Some w ->
        field_data (lens w) (pupil_z_of ps) c lc w (f_Hx f) (f_Hy f) (f_vx f) (f_vy f) dist =
        Some (wf_cell (wf_row d (Z.of_nat i)) (Z.of_nat j))).
Proof. exact generate_data_entry. Qed.
Print Assumptions C09_generate_data_entry.

Theorem C09_rms_vs_field_table :
  forall (n : nat) (wls : list R) (data : wfdata (O:=ROps)) (i j : nat),
       (i < n)%nat ->
       (j < List.length wls)%nat ->
       get2Z (O:=ROps) (k_wf_rms_vs_field ROps (Z.of_nat n) wls data) (Z.of_nat i) (Z.of_nat j) =
       rmsR (fst (wf_cell (wf_row data (Z.of_nat i)) (Z.of_nat j))).
Proof. exact rms_vs_field_table. Qed.
Print Assumptions C09_rms_vs_field_table.

Theorem C09_rms_vs_field_shape :
  forall (n : nat) (wls : list R) (data : wfdata (O:=ROps)),
       shape (k_wf_rms_vs_field ROps (Z.of_nat n) wls data) n (List.length wls).
Proof. exact rms_vs_field_shape. Qed.
Print Assumptions C09_rms_vs_field_shape.


Theorem C09_launch_distance_positive :
  forall c : launchcfg ROps, (0 < lc_EPD c)%R -> (0 < lc_offset c + lc_EPL c)%R.
Proof. exact launch_distance_positive. Qed.
Print Assumptions C09_launch_distance_positive.

From Coq Require Import Reals ZArith List String Bool.
From OV Require Import Ops RInst XR Gen.TolC15 Model.M_C15 Spec.S_C15 Lemmas.L_C15.
Local Open Scope R_scope.
Import ListNotations.

Theorem C15_reset_restores :
  forall (O : Ops),
  forall (L X : Type) (vget : L -> X -> T O) (vset : L -> X -> T O -> L) 
         (upd : L -> L) (ok : X -> Prop),
       store_laws vget vset ok ->
       forall (l0 : L) (hp hc : list X),
       NoDup (hp ++ hc) ->
       Forall ok (hp ++ hc) ->
       forall eqv : L -> L -> Prop,
       update_laws vset upd (hp ++ hc) l0 eqv ->
       forall l : L,
       reach vset upd (hp ++ hc) l0 l ->
       treset vset upd (map (mkvar vget l0) hp) (map (mkvar vget l0) hc) l = l0.
Proof. intro O. exact (reset_restores (O:=O)). Qed.
Print Assumptions C15_reset_restores.

Theorem C15_row_is_fresh_evaluation :
  forall (O : Ops),
  forall (L X : Type) (vget : L -> X -> T O) (vset : L -> X -> T O -> L) 
         (upd : L -> L) (ev : L -> list (T O)) (G D : Type) (draw : G -> D -> option (T O * G))
         (ok : X -> Prop),
       store_laws vget vset ok ->
       forall (l0 : L) (hp hc : list X),
       NoDup (hp ++ hc) ->
       Forall ok (hp ++ hc) ->
       forall eqv : L -> L -> Prop,
       update_laws vset upd (hp ++ hc) l0 eqv ->
       forall (plan : list (list nat * list (list (T O)))) (s s' : st L G D) (rows : list row),
       reach vset upd (hp ++ hc) l0 (lens s) ->
       run vget vset upd ev draw (map (mkvar vget l0) hp) (map (mkvar vget l0) hc) plan s =
       Some (s', rows) ->
       Forall2 (row_spec vset upd ev (map (mkvar vget l0) hp) (map (mkvar vget l0) hc) l0) rows
         plan /\ reach vset upd (hp ++ hc) l0 (lens s').
Proof. intro O. exact (row_is_fresh_evaluation (O:=O)). Qed.
Print Assumptions C15_row_is_fresh_evaluation.

Theorem C15_sensitivity_ends_nominal :
  forall (O : Ops),
  forall (L X : Type) (vget : L -> X -> T O) (vset : L -> X -> T O -> L) 
         (upd : L -> L) (ev : L -> list (T O)) (G D : Type) (draw : G -> D -> option (T O * G))
         (ok : X -> Prop),
       store_laws vget vset ok ->
       forall (l0 : L) (hp hc : list X),
       NoDup (hp ++ hc) ->
       Forall ok (hp ++ hc) ->
       forall eqv : L -> L -> Prop,
       update_laws vset upd (hp ++ hc) l0 eqv ->
       forall (traces : list (list (list (T O)))) (s s' : st L G D) (rows : list row),
       reach vset upd (hp ++ hc) l0 (lens s) ->
       sens_run vget vset upd ev draw (map (mkvar vget l0) hp) (map (mkvar vget l0) hc) traces s =
       Some (s', rows) ->
       lens s' = l0 /\
       Forall2 (row_spec vset upd ev (map (mkvar vget l0) hp) (map (mkvar vget l0) hc) l0) rows
         (combine (sens_which (sams s)) traces).
Proof. intro O. exact (sensitivity_ends_nominal (O:=O)). Qed.
Print Assumptions C15_sensitivity_ends_nominal.

Theorem C15_montecarlo_rows_and_reset :
  forall (O : Ops),
  forall (L X : Type) (vget : L -> X -> T O) (vset : L -> X -> T O -> L) 
         (upd : L -> L) (ev : L -> list (T O)) (G D : Type) (draw : G -> D -> option (T O * G))
         (ok : X -> Prop),
       store_laws vget vset ok ->
       forall (l0 : L) (hp hc : list X),
       NoDup (hp ++ hc) ->
       Forall ok (hp ++ hc) ->
       forall eqv : L -> L -> Prop,
       update_laws vset upd (hp ++ hc) l0 eqv ->
       forall (traces : list (list (list (T O)))) (s s' : st L G D) (rows : list row),
       reach vset upd (hp ++ hc) l0 (lens s) ->
       mc_run vget vset upd ev draw (map (mkvar vget l0) hp) (map (mkvar vget l0) hc) traces s =
       Some (s', rows) ->
       Forall2 (row_spec vset upd ev (map (mkvar vget l0) hp) (map (mkvar vget l0) hc) l0) rows
         (map
            (fun tr : list (list (T O)) => (seq 0 (Datatypes.length (map (mkvar vget l0) hp)), tr))
            traces) /\
       treset vset upd (map (mkvar vget l0) hp) (map (mkvar vget l0) hc) (lens s') = l0.
Proof. intro O. exact (montecarlo_rows_and_reset (O:=O)). Qed.
Print Assumptions C15_montecarlo_rows_and_reset.

Theorem C15_montecarlo_fixed_ends_nominal :
  forall (O : Ops),
  forall (L X : Type) (vget : L -> X -> T O) (vset : L -> X -> T O -> L) 
         (upd : L -> L) (ev : L -> list (T O)) (G D : Type) (draw : G -> D -> option (T O * G))
         (ok : X -> Prop),
       store_laws vget vset ok ->
       forall (l0 : L) (hp hc : list X),
       NoDup (hp ++ hc) ->
       Forall ok (hp ++ hc) ->
       forall eqv : L -> L -> Prop,
       update_laws vset upd (hp ++ hc) l0 eqv ->
       forall (traces : list (list (list (T O)))) (s s' : st L G D) (rows : list row),
       reach vset upd (hp ++ hc) l0 (lens s) ->
       mc_run_fixed vget vset upd ev draw (map (mkvar vget l0) hp) (map (mkvar vget l0) hc) traces
         s = Some (s', rows) -> lens s' = l0.
Proof. intro O. exact (montecarlo_fixed_ends_nominal (O:=O)). Qed.
Print Assumptions C15_montecarlo_fixed_ends_nominal.

Theorem C15_nominal_perturbation_nominal_operands :
  forall (O : Ops),
  forall (L X : Type) (vget : L -> X -> T O) (vset : L -> X -> T O -> L) 
         (upd : L -> L) (ev : L -> list (T O)) (ok : X -> Prop),
       store_laws vget vset ok ->
       forall (l0 : L) (hp hc : list X),
       Forall ok (hp ++ hc) ->
       forall (rw : row) (which : list nat) (tr : list (list (T O))),
       hc = nil ->
       row_spec vset upd ev (map (mkvar vget l0) hp) (map (mkvar vget l0) hc) l0 rw (which, tr) ->
       nominal_values vget (map (mkvar vget l0) hp) l0 which (r_pert rw) -> r_ops rw = ev l0.
Proof. intro O. exact (nominal_perturbation_nominal_operands (O:=O)). Qed.
Print Assumptions C15_nominal_perturbation_nominal_operands.

Theorem C15_seeded_reproducible :
  forall (O : Ops),
  forall (G D : Type) (seed_state : Z -> G) (L X : Type) (vget : L -> X -> T O)
         (vset : L -> X -> T O -> L) (upd : L -> L) (ev : L -> list (T O))
         (draw : G -> D -> option (T O * G)) (pv cv : list (var X)) (specs : list (sspec D))
         (plan : list (list nat * list (list (T O)))) (l : L) (g1 g2 : G),
       existsb (seeded (D:=D)) specs = true ->
       (let
        '(ss, g) := build seed_state g1 specs in
         run vget vset upd ev draw pv cv plan {| lens := l; sams := ss; rng := g |}) =
       (let
        '(ss, g) := build seed_state g2 specs in
         run vget vset upd ev draw pv cv plan {| lens := l; sams := ss; rng := g |}).
Proof. intro O. exact (seeded_reproducible (O:=O)). Qed.
Print Assumptions C15_seeded_reproducible.

Theorem C15_range_sample_step :
  forall (O : Ops),
  forall (vals : list (T O)) (idx : Z),
       vals <> nil ->
       (0 <= idx <= Z.of_nat (Datatypes.length vals))%Z ->
       range_step_spec vals idx (k_c15_range_sample O idx vals).
Proof. intro O. exact (range_sample_step (O:=O)). Qed.
Print Assumptions C15_range_sample_step.

Theorem C15_radius_scale_roundtrip :
  forall v : R,
       k_c15_radius_inverse_scale ROps (k_c15_radius_scale ROps v) = v /\
       k_c15_radius_scale ROps (k_c15_radius_inverse_scale ROps v) = v.
Proof. exact radius_scale_roundtrip. Qed.
Print Assumptions C15_radius_scale_roundtrip.

Theorem C15_thickness_scale_roundtrip :
  forall v : R,
       k_c15_thickness_inverse_scale ROps (k_c15_thickness_scale ROps v) = v /\
       k_c15_thickness_scale ROps (k_c15_thickness_inverse_scale ROps v) = v.
Proof. exact thickness_scale_roundtrip. Qed.
Print Assumptions C15_thickness_scale_roundtrip.

Theorem C15_index_scale_roundtrip :
  forall v : R,
       k_c15_index_inverse_scale ROps (k_c15_index_scale ROps v) = v /\
       k_c15_index_scale ROps (k_c15_index_inverse_scale ROps v) = v.
Proof. exact index_scale_roundtrip. Qed.
Print Assumptions C15_index_scale_roundtrip.

Theorem C15_asphere_scale_roundtrip :
  forall (v : R) (j : Z),
       (0 <= j)%Z ->
       k_c15_asphere_inverse_scale ROps (k_c15_asphere_scale ROps v j) j = v /\
       k_c15_asphere_scale ROps (k_c15_asphere_inverse_scale ROps v j) j = v.
Proof. exact asphere_scale_roundtrip. Qed.
Print Assumptions C15_asphere_scale_roundtrip.

Theorem C15_scaled_roundtrip :
  forall (k : hk) (j : Z) (v : R),
       (0 <= j)%Z ->
       scale_of (O:=ROps) k j (inverse_scale_of (O:=ROps) k j v) = v /\
       inverse_scale_of (O:=ROps) k j (scale_of (O:=ROps) k j v) = v.
Proof. exact scaled_roundtrip. Qed.
Print Assumptions C15_scaled_roundtrip.


Theorem C15_reset_order_sensitive :
  let l0 : L2 := (60, -60) in
  let cv := map (mkvar (O:=ROps) get2 l0) [true] in
  let l := upd2 (set2 l0 true 65) in
  reach (O:=ROps) set2 upd2 [true] l0 l /\
  treset (O:=ROps) set2 upd2 [] cv l = l0 /\
  treset_update_early (O:=ROps) set2 upd2 [] cv l <> l0.
Proof. exact reset_order_sensitive. Qed.
Print Assumptions C15_reset_order_sensitive.

Theorem C15_recorded_value_is_applied_value :
  forall (O : Ops),
  forall (L X : Type) (vget : L -> X -> T O) (vset : L -> X -> T O -> L) 
         (upd : L -> L) (ev : L -> list (T O)) (G D : Type) (draw : G -> D -> option (T O * G))
         (pv cv : list (var X)) (which : list nat) (tr : list (list (T O))) 
         (s s' : st L G D) (rw : row),
       trial vget vset upd ev draw pv cv which tr s = Some (s', rw) ->
       r_which rw = which /\
       lens s' =
       compensate vset upd cv tr
         (set_which vset pv which (r_pert rw) (treset vset upd pv cv (lens s))) /\
       r_ops rw = ev (lens s').
Proof. intro O. exact (recorded_value_is_applied_value (O:=O)). Qed.
Print Assumptions C15_recorded_value_is_applied_value.

Theorem C15_run_records_applied_values :
  forall (O : Ops),
  forall (L X : Type) (vget : L -> X -> T O) (vset : L -> X -> T O -> L) 
         (upd : L -> L) (ev : L -> list (T O)) (G D : Type) (draw : G -> D -> option (T O * G))
         (pv cv : list (var X)) (plan : list (list nat * list (list (T O)))) 
         (s s' : st L G D) (rows : list row),
       run vget vset upd ev draw pv cv plan s = Some (s', rows) ->
       Forall2
         (fun (rw : row) (p : list nat * list (list (T O))) =>
          r_which rw = fst p /\
          (exists l : L,
             r_ops rw =
             ev
               (compensate vset upd cv (snd p)
                  (set_which vset pv (fst p) (r_pert rw) (treset vset upd pv cv l))))) rows plan.
Proof. intro O. exact (run_records_applied_values (O:=O)). Qed.
Print Assumptions C15_run_records_applied_values.


Theorem C15_cget2_cset2 :
  forall (O : Ops) (c : list (list (T O))) (i j : nat) (v : T O) (a b : nat),
    cget2 (cset2 c i j v) a b = (if (Nat.eqb a i && Nat.eqb b j)%bool then v else cget2 c a b).
Proof. intro O. exact (cget2_cset2 (O:=O)). Qed.
Print Assumptions C15_cget2_cset2.

Theorem C15_cset2_same_value :
  forall (O : Ops) (c : list (list (T O))) (i j a b : nat),
    cget2 (cset2 c i j (cget2 c i j)) a b = cget2 c a b.
Proof. intro O. exact (cset2_same_value (O:=O)). Qed.
Print Assumptions C15_cset2_same_value.

Theorem C15_update_order_sensitive :
  let l0 : L3 := (60, -60, 120) in
  let pv := map (mkvar (O:=ROps) get3 l0) [tt] in
  let l := upd3_code (set3 l0 tt 65) in
  upd3_code l0 = l0 /\ upd3_swapped l0 = l0 /\
  treset (O:=ROps) set3 upd3_code pv [] l = l0 /\
  treset (O:=ROps) set3 upd3_swapped pv [] l <> l0.
Proof. exact update_order_sensitive. Qed.
Print Assumptions C15_update_order_sensitive.

From Coq Require Import Reals ZArith List String Bool.
From OV Require Import Ops RInst XR Gen.Paraxial Model.Paraxial Spec.S_ABCD Lemmas.L_Paraxial Lemmas.L_Paraxial2 Lemmas.L_Paraxial3 Gen.ParaxLaunch Lemmas.L_ParaxLaunch.
Local Open Scope R_scope.
Import ListNotations.

Theorem C04_pstep_matrix :
  forall (ps : psurf XOps) (s : asurf) (y u z x0 : R),
       wf_surf ps s ->
       exists x1 : R,
         pstep ps (Fin y, Fin u, Fin z, Fin x0) =
         (let '(y', u', z') := astep s (y, u, z) in (Fin y', Fin u', Fin z', Fin x1)).
Proof. exact pstep_matrix. Qed.
Print Assumptions C04_pstep_matrix.

Theorem C04_ptrace_is_atrace :
  forall (pss : list (psurf XOps)) (ass : list asurf),
       Forall2 wf_surf pss ass ->
       forall y u z x0 : R,
       ptrace pss (Fin y, Fin u, Fin z, Fin x0) = map finyu (atrace ass (y, u, z)).
Proof. exact ptrace_is_atrace. Qed.
Print Assumptions C04_ptrace_is_atrace.

Theorem C04_atrace_abcd :
  forall (ss : list asurf) (y u z : R),
       atrace ss (y, u, z) = map (fun m : mat => mapply m (y, u)) (sysmats ss z mid).
Proof. exact atrace_abcd. Qed.
Print Assumptions C04_atrace_abcd.

Theorem C04_atrace_linear :
  forall (ss : list asurf) (a b y1 u1 y2 u2 z : R),
       atrace ss ((a * y1 + b * y2)%R, (a * u1 + b * u2)%R, z) =
       lin2 a b (atrace ss (y1, u1, z)) (atrace ss (y2, u2, z)).
Proof. exact atrace_linear. Qed.
Print Assumptions C04_atrace_linear.

Theorem C04_lagrange_records :
  forall (ss : list asurf) (y1 u1 y2 u2 z : R),
       Forall2
         (fun (r12 : R * R * (R * R)) (m : mat) =>
          W (fst r12) (snd r12) = (mdet m * W (y1, u1) (y2, u2))%R)
         (combine (atrace ss (y1, u1, z)) (atrace ss (y2, u2, z))) (sysmats ss z mid).
Proof. exact lagrange_records. Qed.
Print Assumptions C04_lagrange_records.

Theorem C04_mdet_sysmat :
  forall (ss : list asurf) (n z : R),
       chained n ss ->
       n <> 0%R -> (mdet (sysmat ss z) * last_index n ss)%R = (mirror_sign ss * n)%R.
Proof. exact mdet_sysmat. Qed.
Print Assumptions C04_mdet_sysmat.

Theorem C04_lagrange_invariant :
  forall (ss : list asurf) (n z y1 u1 y2 u2 : R),
       chained n ss ->
       n <> 0%R ->
       (last_index n ss * W (mapply (sysmat ss z) (y1, u1)) (mapply (sysmat ss z) (y2, u2)))%R =
       (mirror_sign ss * n * W (y1, u1) (y2, u2))%R.
Proof. exact lagrange_invariant. Qed.
Print Assumptions C04_lagrange_invariant.

Theorem C04_sysmats_last :
  forall (ss : list asurf) (z : R) (acc : mat),
       last (sysmats ss z acc) acc = mmul (sysmat ss z) acc.
Proof. exact sysmats_last. Qed.
Print Assumptions C04_sysmats_last.

Theorem C04_mapply_mmul :
  forall (p q : mat) (v : R * R), mapply (mmul p q) v = mapply p (mapply q v).
Proof. exact mapply_mmul. Qed.
Print Assumptions C04_mapply_mmul.

Theorem C04_mdet_surf :
  forall (s : asurf) (z : R),
       mdet (surf_matrix s z) =
       (if a_obj s then 1%R else if a_refl s then (-1)%R else (a_n1 s / a_n2 s)%R).
Proof. exact mdet_surf. Qed.
Print Assumptions C04_mdet_surf.

Theorem C04_focal_from_matrix :
  forall (pobj : psurf XOps) (psrest : list (psurf XOps)) (aobj : asurf) 
         (asrest : list asurf) (z1 : R),
       Forall2 wf_surf (pobj :: psrest) (aobj :: asrest) ->
       a_obj aobj = true ->
       asrest <> nil ->
       pos (O:=XOps) (pobj :: psrest) 1 = Fin z1 ->
       let m := sysmat (aobj :: asrest) (z1 - 1) in
       mc m <> 0%R ->
       f2_signed (pobj :: psrest) = Fin (-1 / mc m) /\ F2 (pobj :: psrest) = Fin (- ma m / mc m).
Proof. exact focal_from_matrix. Qed.
Print Assumptions C04_focal_from_matrix.


Theorem C04_tg_forward_matrix :
  forall (pss : list (psurf XOps)) (ass : list asurf) (k : nat) (y u z : R),
       Forall2 wf_surf pss ass ->
       tg (O:=XOps) pss (Fin y) (Fin u) (Fin z) false k =
       map finyu (map (fun m : mat => mapply m (y, u)) (sysmats (skipn k ass) z mid)).
Proof. exact tg_forward_matrix. Qed.
Print Assumptions C04_tg_forward_matrix.

Theorem C04_XPL_from_matrix :
  forall (pss : list (psurf XOps)) (ass : list asurf) (si : nat) (zs : R),
       Forall2 wf_surf pss ass ->
       stop_index pss = Some si ->
       Nat.eqb si (List.length pss - 2) = false ->
       skipn (S si) ass <> nil ->
       pos (O:=XOps) pss si = Fin zs ->
       let m := sysmat (skipn (S si) ass) zs in
       md m <> 0%R -> XPL pss = Fin (- mb m / md m).
Proof. exact XPL_from_matrix. Qed.
Print Assumptions C04_XPL_from_matrix.

Theorem C04_marginal_ray_matrix_infinite :
  forall (pobj : psurf XOps) (psrest : list (psurf XOps)) (ass : list asurf) (e z1 : R),
       Forall2 wf_surf (pobj :: psrest) ass ->
       p_z pobj = NInf ->
       pos (O:=XOps) (pobj :: psrest) 1 = Fin z1 ->
       marginal_ray (pobj :: psrest) EPDt (Fin e) =
       map finyu (map (fun m : mat => mapply m ((e / 2)%R, 0%R)) (sysmats ass (z1 - 10) mid)).
Proof. exact marginal_ray_matrix_infinite. Qed.
Print Assumptions C04_marginal_ray_matrix_infinite.

Theorem C04_marginal_ray_matrix_finite :
  forall (pobj : psurf XOps) (psrest : list (psurf XOps)) (ass : list asurf) (e zo epl : R),
       Forall2 wf_surf (pobj :: psrest) ass ->
       p_z pobj = Fin zo ->
       EPL (pobj :: psrest) = Fin epl ->
       (epl - zo)%R <> 0%R ->
       marginal_ray (pobj :: psrest) EPDt (Fin e) =
       map finyu (map (fun m : mat => mapply m (0%R, (e / (2 * (epl - zo)))%R)) (sysmats ass zo mid)).
Proof. exact marginal_ray_matrix_finite. Qed.
Print Assumptions C04_marginal_ray_matrix_finite.

Theorem C04_magnification_matrix :
  forall (pobj : psurf XOps) (psrest : list (psurf XOps)) (aobj : asurf) (asrest : list asurf)
         (e zo epl n0 nl : R),
       Forall2 wf_surf (pobj :: psrest) (aobj :: asrest) ->
       a_obj aobj = true ->
       asrest <> nil ->
       p_z pobj = Fin zo ->
       p_npost pobj = Fin n0 ->
       p_npost (last psrest pobj) = Fin nl ->
       EPL (pobj :: psrest) = Fin epl ->
       (epl - zo)%R <> 0%R -> e <> 0%R -> nl <> 0%R ->
       let m := sysmat (aobj :: asrest) zo in
       md m <> 0%R ->
       magnification (pobj :: psrest) EPDt (Fin e) = Fin (n0 / (nl * md m)).
Proof. exact magnification_matrix. Qed.
Print Assumptions C04_magnification_matrix.

Theorem C04_magnification_is_A :
  forall A B C D n0 nl : R,
       B = 0%R -> (A * D - B * C)%R = (n0 / nl)%R -> nl <> 0%R -> D <> 0%R -> n0 <> 0%R ->
       (n0 / (nl * D))%R = A.
Proof. exact magnification_is_A. Qed.
Print Assumptions C04_magnification_is_A.

Theorem C04_wf_inverted :
  forall (pss : list (psurf XOps)) (ass : list asurf) (zl : R),
       Forall2 wf_surf pss ass ->
       Forall (fun s : asurf => a_obj s = false -> a_n1 s <> 0%R) ass ->
       match rev pss with s :: _ => p_z s | nil => Fin 0 end = Fin zl ->
       Forall2 wf_surf (inverted pss) (arev zl ass).
Proof. exact wf_inverted. Qed.
Print Assumptions C04_wf_inverted.

Theorem C04_tg_reverse_matrix :
  forall (pss : list (psurf XOps)) (ass : list asurf) (zl : R) (k : nat) (y u z : R),
       Forall2 wf_surf (inverted pss) (arev zl ass) ->
       tg (O:=XOps) pss (Fin y) (Fin u) (Fin z) true k =
       map finyu (map (fun m : mat => mapply m (y, u)) (sysmats (skipn k (arev zl ass)) z mid)).
Proof. exact tg_reverse_matrix. Qed.
Print Assumptions C04_tg_reverse_matrix.

Theorem C04_EPL_from_matrix :
  forall (pss : list (psurf XOps)) (ass : list asurf) (zl : R) (k si : nat) (zs : R),
       Forall2 wf_surf (inverted pss) (arev zl ass) ->
       stop_index pss = Some (S k) ->
       stop_index (inverted pss) = Some si ->
       skipn (S si) (arev zl ass) <> nil ->
       pos (O:=XOps) (inverted pss) si = Fin zs ->
       let m := sysmat (skipn (S si) (arev zl ass)) zs in
       md m <> 0%R -> EPL pss = Fin (mb m / md m).
Proof. exact EPL_from_matrix. Qed.
Print Assumptions C04_EPL_from_matrix.

Theorem C04_reversed_system_matrix :
  forall (zl w0 : R) (ss : list asurf) (z0 : R),
       Forall nonobj ss ->
       mmul (sysmat ss z0) (mmul Jm (mmul (transfer (dfirst zl w0 ss z0)) (sysmat (arev zl ss) w0))) =
       mmul Jm (transfer (zl - lastz ss z0 - w0)).
Proof. exact reversed_system_matrix. Qed.
Print Assumptions C04_reversed_system_matrix.

Theorem C04_reversed_entries :
  forall (M M' : mat) (d e : R),
       mmul M (mmul Jm (mmul (transfer d) M')) = mmul Jm (transfer e) ->
       mdet M <> 0%R ->
       mc M' = (mc M / mdet M)%R /\
       md M' = ((mc M * e + ma M) / mdet M)%R /\
       ma M' = ((md M - d * mc M) / mdet M)%R.
Proof. exact reversed_entries. Qed.
Print Assumptions C04_reversed_entries.

Theorem C04_f1_F1_from_forward_matrix :
  forall (pobj ps1 : psurf XOps) (psr : list (psurf XOps)) (aobj s1 : asurf) (asr : list asurf) (zl : R),
       Forall2 wf_surf (pobj :: ps1 :: psr) (aobj :: s1 :: asr) ->
       a_obj aobj = true ->
       Forall finite_media (s1 :: asr) ->
       p_z (last (ps1 :: psr) pobj) = Fin zl ->
       let M := sysmat (s1 :: asr) (a_z s1 - 1) in
       mdet M <> 0%R -> mc M <> 0%R ->
       f1 (pobj :: ps1 :: psr) = Fin (mdet M / mc M) /\
       F1 (pobj :: ps1 :: psr) = Fin ((md M - mc M) / mc M).
Proof. exact f1_F1_from_forward_matrix. Qed.
Print Assumptions C04_f1_F1_from_forward_matrix.

Theorem C04_EPL_classical :
  forall (pss : list (psurf XOps)) (aobj : asurf) (pre : list asurf) (stop : asurf) (post : list asurf)
         (zl : R) (k : nat) (z0 : R),
       let ass := aobj :: pre ++ stop :: post in
       Forall2 wf_surf (inverted pss) (arev zl ass) ->
       a_obj aobj = true ->
       Forall nonobj pre -> pre <> nil ->
       stop_index pss = Some (S k) ->
       stop_index (inverted pss) = Some (List.length post) ->
       pos (O:=XOps) (inverted pss) (List.length post) = Fin (zl - a_z stop) ->
       let M := sysmat pre z0 in
       let e := (a_z stop - endz pre z0)%R in
       let d := dfirst zl (zl - a_z stop) pre z0 in
       mdet M <> 0%R -> (mc M * e + ma M)%R <> 0%R ->
       EPL pss = Fin ((md M * e + mb M) / (mc M * e + ma M) - d).
Proof. exact EPL_classical. Qed.
Print Assumptions C04_EPL_classical.

(** the launch of the marginal ray is the one REGENERATED from Paraxial.marginal_ray (Gen/ParaxLaunch.v) *)
Theorem C04_marginal_ray_launch_regenerated :
  forall (obj s1 : psurf ROps) (rest : list (psurf ROps)) (ap : aptype) (v w : R),
       let ss := obj :: s1 :: rest in
       marginal_ray ss ap v =
       (let '(ya, ua, z0, _) :=
            k_px_marginal_launch ROps (EPD ss ap v) (map (p_z (O:=ROps)) ss) (isinf_ (p_z obj)) (p_z obj) (EPL ss) w in
        tg ss ya ua z0 false 0).
Proof. exact (marginal_ray_launch_regenerated (O:=ROps)). Qed.
Print Assumptions C04_marginal_ray_launch_regenerated.

From Coq Require Import Reals ZArith List String Bool.
From OV Require Import Ops RInst XR Gen.Paraxial Model.Paraxial Spec.S_ABCD Lemmas.L_Paraxial.
Local Open Scope R_scope.
Import ListNotations.

Theorem C04_pstep_matrix :
  forall (ps : psurf XOps) (s : asurf) (y u z x0 : R),
       wf_surf ps s ->
       exists x1 : R,
         pstep ps (Fin y, Fin u, Fin z, Fin x0) =
         (let '(y', u', z') := astep s (y, u, z) in (Fin y', Fin u', Fin z', Fin x1)).
Proof. exact pstep_matrix. Qed.
Print Assumptions C04_pstep_matrix.

Theorem C04_ptrace_is_atrace :
  forall (pss : list (psurf XOps)) (ass : list asurf),
       Forall2 wf_surf pss ass ->
       forall y u z x0 : R,
       ptrace pss (Fin y, Fin u, Fin z, Fin x0) = map finyu (atrace ass (y, u, z)).
Proof. exact ptrace_is_atrace. Qed.
Print Assumptions C04_ptrace_is_atrace.

Theorem C04_atrace_abcd :
  forall (ss : list asurf) (y u z : R),
       atrace ss (y, u, z) = map (fun m : mat => mapply m (y, u)) (sysmats ss z mid).
Proof. exact atrace_abcd. Qed.
Print Assumptions C04_atrace_abcd.

Theorem C04_atrace_linear :
  forall (ss : list asurf) (a b y1 u1 y2 u2 z : R),
       atrace ss ((a * y1 + b * y2)%R, (a * u1 + b * u2)%R, z) =
       lin2 a b (atrace ss (y1, u1, z)) (atrace ss (y2, u2, z)).
Proof. exact atrace_linear. Qed.
Print Assumptions C04_atrace_linear.

Theorem C04_lagrange_records :
  forall (ss : list asurf) (y1 u1 y2 u2 z : R),
       Forall2
         (fun (r12 : R * R * (R * R)) (m : mat) =>
          W (fst r12) (snd r12) = (mdet m * W (y1, u1) (y2, u2))%R)
         (combine (atrace ss (y1, u1, z)) (atrace ss (y2, u2, z))) (sysmats ss z mid).
Proof. exact lagrange_records. Qed.
Print Assumptions C04_lagrange_records.

Theorem C04_mdet_sysmat :
  forall (ss : list asurf) (n z : R),
       chained n ss ->
       n <> 0%R -> (mdet (sysmat ss z) * last_index n ss)%R = (mirror_sign ss * n)%R.
Proof. exact mdet_sysmat. Qed.
Print Assumptions C04_mdet_sysmat.

Theorem C04_lagrange_invariant :
  forall (ss : list asurf) (n z y1 u1 y2 u2 : R),
       chained n ss ->
       n <> 0%R ->
       (last_index n ss * W (mapply (sysmat ss z) (y1, u1)) (mapply (sysmat ss z) (y2, u2)))%R =
       (mirror_sign ss * n * W (y1, u1) (y2, u2))%R.
Proof. exact lagrange_invariant. Qed.
Print Assumptions C04_lagrange_invariant.

Theorem C04_sysmats_last :
  forall (ss : list asurf) (z : R) (acc : mat),
       last (sysmats ss z acc) acc = mmul (sysmat ss z) acc.
Proof. exact sysmats_last. Qed.
Print Assumptions C04_sysmats_last.

Theorem C04_mapply_mmul :
  forall (p q : mat) (v : R * R), mapply (mmul p q) v = mapply p (mapply q v).
Proof. exact mapply_mmul. Qed.
Print Assumptions C04_mapply_mmul.

Theorem C04_mdet_surf :
  forall (s : asurf) (z : R),
       mdet (surf_matrix s z) =
       (if a_obj s then 1%R else if a_refl s then (-1)%R else (a_n1 s / a_n2 s)%R).
Proof. exact mdet_surf. Qed.
Print Assumptions C04_mdet_surf.

Theorem C04_focal_from_matrix :
  forall (pobj : psurf XOps) (psrest : list (psurf XOps)) (aobj : asurf) 
         (asrest : list asurf) (z1 : R),
       Forall2 wf_surf (pobj :: psrest) (aobj :: asrest) ->
       a_obj aobj = true ->
       asrest <> nil ->
       pos (O:=XOps) (pobj :: psrest) 1 = Fin z1 ->
       let m := sysmat (aobj :: asrest) (z1 - 1) in
       mc m <> 0%R ->
       f2_signed (pobj :: psrest) = Fin (-1 / mc m) /\ F2 (pobj :: psrest) = Fin (- ma m / mc m).
Proof. exact focal_from_matrix. Qed.
Print Assumptions C04_focal_from_matrix.


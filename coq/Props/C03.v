(** Property C03 - rays start at the requested field point and aim at the requested pupil point.
    Statements only; proofs are in Lemmas/L_C03_{table,launch,dist,vig,all}.v.
    k_rg_generate / k_rg_origins / k_rg_z_offset / k_dist_...: kernels regenerated from optiland/rays/ray_generator.py and
    optiland/distribution.py on every run.  Arguments of k_rg_generate: Hx Hy Px Py wavelength vig_x vig_y max_field
    object_is_infinite field_type telecentric EPL EPD positions object_radius object_conic object_z aperture_type
    object_space_index aperture_value polarization uses_polarization.  r_x .. r_w project the returned ray (x y z L M N intensity wavelength);
    offset EPL EPD pos = k_rg_z_offset ROps pos EPD EPL (launch plane distance), zmin pos = min of positions[1:-1]; tanx Hx mf = tan(deg(mf*Hx)), tany Hy mf likewise. *)
From Coq Require Import Reals ZArith List String.
From OV Require Import Ops RInst XR OpsC03 OpsC18 Gen.Standard Gen.RayGen Gen.Distrib Spec.S_C03 Model.M_C03 Gen.Fields Lemmas.L_C03_fields Lemmas.L_C03_table Lemmas.L_C03_launch Lemmas.L_C03_dist Lemmas.L_C03_vig Lemmas.L_C03_all.
Local Open Scope R_scope.
Import ListNotations.

Theorem C03_rejection_table :
  forall (O : Ops) (Hx Hy Px Py w v0 v1 mf EPL EPD objR objk objz n0 apv : T O)
         (pos : list (T O)) (inf tele upol : bool) (ft ap pol : string),
       In ft field_types ->
       In ap aperture_types ->
       is_none
         (k_rg_generate O Hx Hy Px Py w v0 v1 mf inf ft tele EPL EPD pos objR objk objz ap n0 apv
            pol upol) = (rejected inf ft tele ap || pol_rejected pol upol)%bool.
Proof. exact rejection_table. Qed.
Print Assumptions C03_rejection_table.

Theorem C03_unknown_field_type_rejected :
  forall (O : Ops) (Hx Hy Px Py w v0 v1 mf EPL EPD objR objk objz n0 apv : T O)
         (pos : list (T O)) (inf tele upol : bool) (ft ap pol : string),
       (ft =? "angle")%string = false ->
       (ft =? "object_height")%string = false ->
       k_rg_generate O Hx Hy Px Py w v0 v1 mf inf ft tele EPL EPD pos objR objk objz ap n0 apv pol
         upol = None \/ inf = true /\ tele = false.
Proof. exact unknown_field_type_rejected. Qed.
Print Assumptions C03_unknown_field_type_rejected.

Theorem C03_cell_count :
  Datatypes.length cells = 24%nat /\
       Datatypes.length
         (filter
            (fun c : bool * string * bool * string =>
             let (y, ap) := c in
             let (y0, tele) := y in let (inf, ft) := y0 in negb (rejected inf ft tele ap)) cells) =
       9%nat.
Proof. exact cell_count. Qed.
Print Assumptions C03_cell_count.

Theorem C03_launch_aim_point :
  forall (Hx Hy Px Py w v0 v1 mf EPL EPD objR objk objz n0 apv : R) 
         (pos : list R) (ap pol : string) (upol inf : bool) (ft : string)
         (r : T ROps * T ROps * T ROps * T ROps * T ROps * T ROps * T ROps * T ROps),
       k_rg_generate ROps Hx Hy Px Py w v0 v1 mf inf ft false EPL EPD pos objR objk objz ap n0 apv
         pol upol = Some r ->
       let ax := (Px * (1 - v0) * EPD / 2)%R in
       let ay := (Py * (1 - v1) * EPD / 2)%R in
       ((ax - r_x r) * (ax - r_x r) + (ay - r_y r) * (ay - r_y r) + (EPL - r_z r) * (EPL - r_z r))%R <>
       0%R ->
       exists t : R,
         (0 < t)%R /\
         (r_x r + t * r_L r)%R = ax /\
         (r_y r + t * r_M r)%R = ay /\
         (r_z r + t * r_N r)%R = EPL /\
         (r_L r * r_L r + r_M r * r_M r + r_N r * r_N r)%R = 1%R /\ r_i r = 1%R /\ r_w r = w.
Proof. exact launch_aim_point. Qed.
Print Assumptions C03_launch_aim_point.

Theorem C03_launch_finite_height :
  forall (Hx Hy Px Py w v0 v1 mf EPL EPD objR objk objz n0 apv : R) 
         (pos : list R) (ap pol : string) (upol : bool)
         (r : T ROps * T ROps * T ROps * T ROps * T ROps * T ROps * T ROps * T ROps),
       k_rg_generate ROps Hx Hy Px Py w v0 v1 mf false "object_height" false EPL EPD pos objR objk
         objz ap n0 apv pol upol = Some r ->
       r_x r = (mf * Hx)%R /\
       r_y r = (mf * Hy)%R /\ r_z r = (k_std_sag ROps (mf * Hx) (mf * Hy) objR objk + objz)%R.
Proof. exact launch_finite_height. Qed.
Print Assumptions C03_launch_finite_height.

Theorem C03_launch_infinite_angle :
  forall (Hx Hy Px Py w v0 v1 mf EPL EPD objR objk objz n0 apv : R) 
         (pos : list R) (ap pol : string) (upol : bool)
         (r : T ROps * T ROps * T ROps * T ROps * T ROps * T ROps * T ROps * T ROps),
       k_rg_generate ROps Hx Hy Px Py w v0 v1 mf true "angle" false EPL EPD pos objR objk objz ap
         n0 apv pol upol = Some r ->
       getZ (O := ROps) pos 1%Z = 0%R ->
       (0 < EPD)%R ->
       r_M r = (r_N r * tany Hy mf)%R /\
       r_L r = (- (r_N r * tanx Hx mf))%R /\
       (0 < r_N r)%R /\
       r_z r = (- offset EPL EPD pos)%R /\ (r_z r + EPD <= EPL)%R /\ (r_z r + EPD <= zmin pos)%R.
Proof. exact launch_infinite_angle. Qed.
Print Assumptions C03_launch_infinite_angle.

Theorem C03_launch_infinite_parallel :
  forall (Hx Hy w mf EPL EPD objR objk objz n0 apv : T ROps) (pos : list (T ROps))
         (ap pol : string) (upol : bool) (Px Py v0 v1 Px' Py' v0' v1' : T ROps)
         (r r' : T ROps * T ROps * T ROps * T ROps * T ROps * T ROps * T ROps * T ROps),
       k_rg_generate ROps Hx Hy Px Py w v0 v1 mf true "angle" false EPL EPD pos objR objk objz ap
         n0 apv pol upol = Some r ->
       k_rg_generate ROps Hx Hy Px' Py' w v0' v1' mf true "angle" false EPL EPD pos objR objk objz
         ap n0 apv pol upol = Some r' ->
       getZ (O := ROps) pos 1%Z = 0%R -> (0 < EPD)%R -> r_L r = r_L r' /\ r_M r = r_M r' /\ r_N r = r_N r'.
Proof. exact launch_infinite_parallel. Qed.
Print Assumptions C03_launch_infinite_parallel.

Theorem C03_launch_finite_angle :
  forall (Hx Hy Px Py w v0 v1 mf EPL EPD objR objk objz n0 apv : R) 
         (pos : list R) (ap pol : string) (upol : bool)
         (r : T ROps * T ROps * T ROps * T ROps * T ROps * T ROps * T ROps * T ROps),
       k_rg_generate ROps Hx Hy Px Py w v0 v1 mf false "angle" false EPL EPD pos objR objk objz ap
         n0 apv pol upol = Some r ->
       let z0 := getZ (O := ROps) pos 0%Z in
       r_z r = z0 /\
       r_y r = (- tany Hy mf * (EPL - z0))%R /\
       r_x r = (tanx Hx mf * (EPL - z0))%R /\
       (Px = 0%R ->
        Py = 0%R ->
        (EPL - z0)%R <> 0%R ->
        r_M r = (r_N r * tany Hy mf)%R /\
        r_L r = (- (r_N r * tanx Hx mf))%R /\ ((0 < EPL - z0)%R -> (0 < r_N r)%R)).
Proof. exact launch_finite_angle. Qed.
Print Assumptions C03_launch_finite_angle.

Theorem C03_launch_telecentric :
  forall (Hx Hy Px Py w v0 v1 mf EPL EPD objR objk objz n0 apv : R) 
         (pos : list R) (pol : string) (upol : bool)
         (r : T ROps * T ROps * T ROps * T ROps * T ROps * T ROps * T ROps * T ROps),
       k_rg_generate ROps Hx Hy Px Py w v0 v1 mf false "object_height" true EPL EPD pos objR objk
         objz "objectNA" n0 apv pol upol = Some r ->
       (0 < apv / n0 < 1)%R ->
       r_x r = (mf * Hx)%R /\
       r_y r = (mf * Hy)%R /\
       r_z r = (k_std_sag ROps (mf * Hx) (mf * Hy) objR objk + objz)%R /\
       (r_L r * r_L r + r_M r * r_M r + r_N r * r_N r)%R = 1%R /\
       (0 < r_N r)%R /\
       r_i r = 1%R /\
       r_w r = w /\
       (Px = 0%R -> Py = 0%R -> r_L r = 0%R /\ r_M r = 0%R /\ r_N r = 1%R) /\
       (Px = 0%R -> Py = 1%R -> v1 = 0%R -> r_L r = 0%R /\ (n0 * r_M r)%R = apv) /\
       r_L r = (r_N r * (Px * (1 - v0)) * (apv / n0 / sqrt (1 - apv / n0 * (apv / n0))))%R /\
       r_M r = (r_N r * (Py * (1 - v1)) * (apv / n0 / sqrt (1 - apv / n0 * (apv / n0))))%R.
Proof. exact launch_telecentric. Qed.
Print Assumptions C03_launch_telecentric.


Theorem C03_samplings_counts :
  forall (O : Ops) (n : Z) (vx vy : T O),
       (forall po : bool,
        Datatypes.length (fst (k_dist_line_x O n vx po)) = Z.to_nat n /\
        Datatypes.length (snd (k_dist_line_x O n vx po)) = Z.to_nat n) /\
       (forall po : bool,
        Datatypes.length (fst (k_dist_line_y O n vy po)) = Z.to_nat n /\
        Datatypes.length (snd (k_dist_line_y O n vy po)) = Z.to_nat n) /\
       (Datatypes.length (fst (k_dist_ring O n vx vy)) = Z.to_nat n /\
        Datatypes.length (snd (k_dist_ring O n vx vy)) = Z.to_nat n) /\
       ((0 <= n)%Z ->
        Z.of_nat (Datatypes.length (fst (k_dist_cross O n vx vy))) = cross_count n /\
        Z.of_nat (Datatypes.length (snd (k_dist_cross O n vx vy))) = cross_count n) /\
       (forall r th : list (T O),
        Datatypes.length r = Datatypes.length th ->
        Datatypes.length (fst (k_dist_random O vx vy r th)) = Datatypes.length r /\
        Datatypes.length (snd (k_dist_random O vx vy r th)) = Datatypes.length r).
Proof. exact samplings_counts. Qed.
Print Assumptions C03_samplings_counts.

Theorem C03_hexapolar_count_thm :
  forall (O : Ops) (n : Z) (vx vy : T O),
       (0 <= n)%Z ->
       Z.of_nat (Datatypes.length (fst (k_dist_hexapolar O n vx vy))) = hexapolar_count n /\
       Z.of_nat (Datatypes.length (snd (k_dist_hexapolar O n vx vy))) = hexapolar_count n.
Proof. exact (@hexapolar_count_thm). Qed.
Print Assumptions C03_hexapolar_count_thm.

Theorem C03_gq_count_thm :
  forall (O : Ops) (n : Z) (vx vy : T O) (sym : bool),
       is_none (k_dist_gq O n vx vy sym) = negb (gq_rings_ok n) /\
       (forall xs ys : list (T O),
        k_dist_gq O n vx vy sym = Some (xs, ys) ->
        Z.of_nat (Datatypes.length xs) = gq_count sym n /\
        Z.of_nat (Datatypes.length ys) = gq_count sym n).
Proof. exact (@gq_count_thm). Qed.
Print Assumptions C03_gq_count_thm.

Theorem C03_uniform_count :
  forall (O : Ops) (n : Z) (vx vy : T O),
       let xs := linspace_ (O := O) (ofZ (-1)) (ofZ 1) n in
       Datatypes.length (fst (k_dist_uniform O n vx vy)) =
       Datatypes.length (filter (inside (O := O)) (grid xs xs)) /\
       Datatypes.length (snd (k_dist_uniform O n vx vy)) =
       Datatypes.length (filter (inside (O := O)) (grid xs xs)) /\
       (Datatypes.length (filter (inside (O := O)) (grid xs xs)) <= Z.to_nat n * Z.to_nat n)%nat.
Proof. exact (@uniform_count). Qed.
Print Assumptions C03_uniform_count.

Theorem C03_uniform_points :
  forall (O : Ops) (n : Z) (vx vy : T O),
       let xs := linspace_ (O := O) (ofZ (-1)) (ofZ 1) n in
       combine (fst (k_dist_uniform O n vx vy)) (snd (k_dist_uniform O n vx vy)) =
       map (fun p : T O * T O => (mul (fst p) (sub (ofZ 1) vx), mul (snd p) (sub (ofZ 1) vy)))
         (filter (inside (O := O)) (grid xs xs)).
Proof. exact (@uniform_points). Qed.
Print Assumptions C03_uniform_points.

Theorem C03_samplings_in_unit_disk :
  forall (n : Z) (vx vy : R),
       unit_interval vx ->
       unit_interval vy ->
       (forall po : bool, Forall in_unit_disk (pts (k_dist_line_x ROps n vx po))) /\
       (forall po : bool, Forall in_unit_disk (pts (k_dist_line_y ROps n vy po))) /\
       Forall in_unit_disk (pts (k_dist_cross ROps n vx vy)) /\
       Forall in_unit_disk (pts (k_dist_ring ROps n vx vy)) /\
       Forall in_unit_disk (pts (k_dist_hexapolar ROps n vx vy)) /\
       Forall in_unit_disk (pts (k_dist_uniform ROps n vx vy)) /\
       (forall (sym : bool) (xs ys : list (T ROps)),
        k_dist_gq ROps n vx vy sym = Some (xs, ys) -> Forall in_unit_disk (combine xs ys)) /\
       (forall (r : list R) (th : list (T ROps)),
        Forall unit_interval r -> Forall in_unit_disk (pts (k_dist_random ROps vx vy r th))).
Proof. exact samplings_in_unit_disk. Qed.
Print Assumptions C03_samplings_in_unit_disk.

Theorem C03_samplings_vignetting_shrinks :
  forall (n : Z) (vx vy : R),
       unit_interval vx ->
       unit_interval vy ->
       (forall po : bool,
        shrinks (fst (k_dist_line_x ROps n vx po)) (fst (k_dist_line_x ROps n 0%R po)) /\
        shrinks (snd (k_dist_line_x ROps n vx po)) (snd (k_dist_line_x ROps n 0%R po))) /\
       (forall po : bool,
        shrinks (fst (k_dist_line_y ROps n vy po)) (fst (k_dist_line_y ROps n 0%R po)) /\
        shrinks (snd (k_dist_line_y ROps n vy po)) (snd (k_dist_line_y ROps n 0%R po))) /\
       (shrinks (fst (k_dist_cross ROps n vx vy)) (fst (k_dist_cross ROps n 0%R 0%R)) /\
        shrinks (snd (k_dist_cross ROps n vx vy)) (snd (k_dist_cross ROps n 0%R 0%R))) /\
       (shrinks (fst (k_dist_ring ROps n vx vy)) (fst (k_dist_ring ROps n 0%R 0%R)) /\
        shrinks (snd (k_dist_ring ROps n vx vy)) (snd (k_dist_ring ROps n 0%R 0%R))) /\
       (shrinks (fst (k_dist_hexapolar ROps n vx vy)) (fst (k_dist_hexapolar ROps n 0%R 0%R)) /\
        shrinks (snd (k_dist_hexapolar ROps n vx vy)) (snd (k_dist_hexapolar ROps n 0%R 0%R))) /\
       (shrinks (fst (k_dist_uniform ROps n vx vy)) (fst (k_dist_uniform ROps n 0%R 0%R)) /\
        shrinks (snd (k_dist_uniform ROps n vx vy)) (snd (k_dist_uniform ROps n 0%R 0%R))) /\
       (forall (sym : bool) (xs ys xs0 ys0 : list (T ROps)),
        k_dist_gq ROps n vx vy sym = Some (xs, ys) ->
        k_dist_gq ROps n 0%R 0%R sym = Some (xs0, ys0) -> shrinks xs xs0 /\ shrinks ys ys0) /\
       (forall r th : list (T ROps),
        shrinks (fst (k_dist_random ROps vx vy r th)) (fst (k_dist_random ROps 0%R 0%R r th)) /\
        shrinks (snd (k_dist_random ROps vx vy r th)) (snd (k_dist_random ROps 0%R 0%R r th))).
Proof. exact samplings_vignetting_shrinks. Qed.
Print Assumptions C03_samplings_vignetting_shrinks.

Theorem C03_vig_factor_range :
  forall (fs : list (field ROps)) (Hx Hy a b : T ROps),
       Forall field_ok fs ->
       vig_factor fs Hx Hy = Some (a, b) -> unit_interval a /\ unit_interval b.
Proof. exact vig_factor_range. Qed.
Print Assumptions C03_vig_factor_range.

Theorem C03_trace_path_shrinks :
  forall p v : R, unit_interval v -> (Rabs (p * (1 - v) * (1 - v) * (1 - v)) <= Rabs p)%R.
Proof. exact trace_path_shrinks. Qed.
Print Assumptions C03_trace_path_shrinks.

Theorem C03_aim_shrinks :
  forall P EPD v : R,
       unit_interval v -> (Rabs (P * (1 - v) * EPD / 2) <= Rabs (P * EPD / 2))%R.
Proof. exact aim_shrinks. Qed.
Print Assumptions C03_aim_shrinks.

Theorem C03_max_field_is_largest_magnitude :
  forall xs ys : list R,
       combine xs ys <> nil ->
       let m := k_fld_max_field ROps xs ys in
       (forall p : R * R, In p (combine xs ys) -> (magnitude p <= m)%R) /\
       (exists p : R * R, In p (combine xs ys) /\ m = magnitude p) /\
       (forall p : R * R, In p (combine xs ys) -> (Rabs (fst p) <= m)%R /\ (Rabs (snd p) <= m)%R).
Proof. exact max_field_is_largest_magnitude. Qed.
Print Assumptions C03_max_field_is_largest_magnitude.


From Coq Require Import Reals ZArith List String.
From OV Require Import Ops RInst Cx Gen.Jones Spec.S_C17 Model.M_C17 Lemmas.L_C17_Fresnel Lemmas.L_C17_Jones Lemmas.L_C17_Trace.
Local Open Scope R_scope.
Import ListNotations.
Local Open Scope string_scope.
(* every generic operation below is taken at the exact-real instance ROps *)
Local Notation cofR := (@Cx.cofR ROps).
Local Notation c0 := (@Cx.c0 ROps).
Local Notation c1 := (@Cx.c1 ROps).
Local Notation cI := (@Cx.cI ROps).
Local Notation cmul := (@Cx.cmul ROps).
Local Notation cadd := (@Cx.cadd ROps).
Local Notation cneg := (@Cx.cneg ROps).
Local Notation cabs2 := (@Cx.cabs2 ROps).
Local Notation m3_flat := (@Cx.m3_flat ROps).
Local Notation m3_apply := (@Cx.m3_apply ROps).
Local Notation m3_mul := (@Cx.m3_mul ROps).
Local Notation m3_id := (@Cx.m3_id ROps).
Local Notation cv_abs2 := (@Cx.cv_abs2 ROps).
Local Notation cv_dotr := (@Cx.cv_dotr ROps).
Local Notation cross := (@Cx.cross ROps).
Local Notation dot3 := (@Cx.dot3 ROps).
Local Notation norm3 := (@Cx.norm3 ROps).
Local Notation s_vector := (@M_C17.s_vector ROps).
Local Notation surface_matrix := (@M_C17.surface_matrix ROps).
Local Notation trace_P := (@M_C17.trace_P ROps).
Local Notation last_dir := (@M_C17.last_dir ROps).
Local Notation pol_update := (@M_C17.pol_update ROps).
Local Notation intensity_pol := (@M_C17.intensity_pol ROps).
Local Notation intensity_unpol := (@M_C17.intensity_unpol ROps).
Local Notation jones_vec := (@M_C17.jones_vec ROps).
Local Notation field3d := (@M_C17.field3d ROps).
Local Notation polstate_init := (@M_C17.polstate_init ROps).
Local Notation xhat := (@M_C17.xhat ROps).
Local Notation trace_PP := (@M_C17.trace_PP ROps).
Local Notation chain_calls := (@M_C17.chain_calls ROps).

Theorem C17_fresnel_transmit_kernel :
  forall n1 n2 th : R,
       (0 < n1)%R ->
       (0 < n2)%R ->
       (0 <= th)%R ->
       (th < PI / 2)%R ->
       no_TIR n1 n2 th ->
       forall w x : R,
       k_jones_fresnel ROps false th w n1 n2 x =
       m3_flat (diag3 (cofR (t_s n1 n2 th)) (cofR (t_p n1 n2 th)) c1).
Proof. exact fresnel_transmit_kernel. Qed.
Print Assumptions C17_fresnel_transmit_kernel.

Theorem C17_fresnel_reflect_kernel :
  forall n1 n2 th : R,
       (0 < n1)%R ->
       (0 < n2)%R ->
       (0 <= th)%R ->
       (th < PI / 2)%R ->
       no_TIR n1 n2 th ->
       forall w x : R,
       k_jones_fresnel ROps true th w n1 n2 x =
       m3_flat (diag3 (cofR (r_s n1 n2 th)) (cofR (- r_p n1 n2 th)%R) (cofR (-1)%R)).
Proof. exact fresnel_reflect_kernel. Qed.
Print Assumptions C17_fresnel_reflect_kernel.

Theorem C17_fresnel_energy_s :
  forall n1 n2 th : R,
       (0 < n1)%R ->
       (0 < n2)%R ->
       (0 <= th)%R ->
       (th < PI / 2)%R ->
       no_TIR n1 n2 th -> (Refl (r_s n1 n2 th) + Trans n1 n2 th (t_s n1 n2 th))%R = 1%R.
Proof. exact fresnel_energy_s. Qed.
Print Assumptions C17_fresnel_energy_s.

Theorem C17_fresnel_energy_p :
  forall n1 n2 th : R,
       (0 < n1)%R ->
       (0 < n2)%R ->
       (0 <= th)%R ->
       (th < PI / 2)%R ->
       no_TIR n1 n2 th -> (Refl (r_p n1 n2 th) + Trans n1 n2 th (t_p n1 n2 th))%R = 1%R.
Proof. exact fresnel_energy_p. Qed.
Print Assumptions C17_fresnel_energy_p.

Theorem C17_fresnel_reflectance_bounds :
  forall n1 n2 th : R,
       (0 < n1)%R ->
       (0 < n2)%R ->
       (0 <= th)%R ->
       (th < PI / 2)%R ->
       no_TIR n1 n2 th -> (0 <= Refl (r_s n1 n2 th) <= 1)%R /\ (0 <= Refl (r_p n1 n2 th) <= 1)%R.
Proof. exact fresnel_reflectance_bounds. Qed.
Print Assumptions C17_fresnel_reflectance_bounds.

Theorem C17_brewster :
  forall n1 n2 th : R,
       (0 < n1)%R ->
       (0 < n2)%R ->
       (0 <= th)%R ->
       (th < PI / 2)%R -> no_TIR n1 n2 th -> tan th = (n2 / n1)%R -> r_p n1 n2 th = 0%R.
Proof. exact brewster. Qed.
Print Assumptions C17_brewster.

Theorem C17_brewster_converse :
  forall n1 n2 th : R,
       (0 < n1)%R ->
       (0 < n2)%R ->
       (0 <= th)%R ->
       (th < PI / 2)%R -> no_TIR n1 n2 th -> n1 <> n2 -> r_p n1 n2 th = 0%R -> tan th = (n2 / n1)%R.
Proof. exact brewster_converse. Qed.
Print Assumptions C17_brewster_converse.

Theorem C17_fresnel_normal_incidence :
  forall n1 n2 : R,
       (0 < n1)%R ->
       (0 < n2)%R ->
       Refl (r_s n1 n2 0) = ((n1 - n2) / (n1 + n2) * ((n1 - n2) / (n1 + n2)))%R /\
       Refl (r_p n1 n2 0) = ((n1 - n2) / (n1 + n2) * ((n1 - n2) / (n1 + n2)))%R.
Proof. exact fresnel_normal_incidence. Qed.
Print Assumptions C17_fresnel_normal_incidence.

Theorem C17_retarder_kernel :
  forall d theta x : R, k_jones_retarder ROps d theta x = m3_flat (retarder_spec d theta).
Proof. exact retarder_kernel. Qed.
Print Assumptions C17_retarder_kernel.

Theorem C17_retarder_unitary :
  forall d theta : R, is_unitary (retarder_spec d theta).
Proof. exact retarder_unitary. Qed.
Print Assumptions C17_retarder_unitary.

Theorem C17_retarder_retardance :
  forall d theta : R,
       m3_apply (retarder_spec d theta) (cofR (cos theta), cofR (sin theta), c0) =
       (cmul (Ccis (- (d / 2))) (cofR (cos theta)), cmul (Ccis (- (d / 2))) (cofR (sin theta)), c0) /\
       m3_apply (retarder_spec d theta) (cofR (- sin theta)%R, cofR (cos theta), c0) =
       (cmul (Ccis (d / 2)) (cofR (- sin theta)%R), cmul (Ccis (d / 2)) (cofR (cos theta)), c0).
Proof. exact retarder_retardance. Qed.
Print Assumptions C17_retarder_retardance.

Theorem C17_retarder_rotation_covariant :
  forall d theta x : R,
       k_jones_retarder ROps d theta x =
       m3_flat
         (m3_mul (rot3 theta)
            (m3_mul (diag3 (Ccis (- (d / 2))) (Ccis (d / 2)) c1) (rot3 (- theta)))) /\
       k_jones_retarder ROps d 0%R x = m3_flat (diag3 (Ccis (- (d / 2))) (Ccis (d / 2)) c1).
Proof. exact retarder_rotation_covariant. Qed.
Print Assumptions C17_retarder_rotation_covariant.

Theorem C17_polarizer_H_kernel :
  forall x : T ROps,
       exists e : C * C, state_vec "H" = Some e /\ is_projector_onto (k_jones_pol_h ROps x) e.
Proof. exact polarizer_H_kernel. Qed.
Print Assumptions C17_polarizer_H_kernel.

Theorem C17_polarizer_V_kernel :
  forall x : T ROps,
       exists e : C * C, state_vec "V" = Some e /\ is_projector_onto (k_jones_pol_v ROps x) e.
Proof. exact polarizer_V_kernel. Qed.
Print Assumptions C17_polarizer_V_kernel.

Theorem C17_polarizer_L45_kernel :
  forall x : T ROps,
       exists e : C * C, state_vec "L+45" = Some e /\ is_projector_onto (k_jones_pol_l45 ROps x) e.
Proof. exact polarizer_L45_kernel. Qed.
Print Assumptions C17_polarizer_L45_kernel.

Theorem C17_polarizer_L135_kernel :
  forall x : T ROps,
       exists e : C * C, state_vec "L-45" = Some e /\ is_projector_onto (k_jones_pol_l135 ROps x) e.
Proof. exact polarizer_L135_kernel. Qed.
Print Assumptions C17_polarizer_L135_kernel.

Theorem C17_polarizer_RCP_kernel :
  forall x : T ROps,
       exists e : C * C, state_vec "RCP" = Some e /\ is_projector_onto (k_jones_pol_rcp ROps x) e.
Proof. exact polarizer_RCP_kernel. Qed.
Print Assumptions C17_polarizer_RCP_kernel.

Theorem C17_polarizer_LCP_kernel :
  forall x : T ROps,
       exists e : C * C, state_vec "LCP" = Some e /\ is_projector_onto (k_jones_pol_lcp ROps x) e.
Proof. exact polarizer_LCP_kernel. Qed.
Print Assumptions C17_polarizer_LCP_kernel.

Theorem C17_projector_onto_props :
  forall (k : list R) (e : C * C),
       is_projector_onto k e ->
       exists P : Mat,
         k = m3_flat P /\
         is_idempotent P /\
         is_hermitian P /\
         m3_apply P (jvec3 e) = jvec3 e /\
         (forall f : C * C, herm2 e f = c0 -> m3_apply P (jvec3 f) = (c0, c0, c0)).
Proof. exact projector_onto_props. Qed.
Print Assumptions C17_projector_onto_props.

Theorem C17_diattenuator_diagonal_partial :
  forall t_min t_max theta x : R,
       let k := k_jones_diattenuator ROps t_max theta t_min x in
       let m := m3_flat (diattenuator_spec t_min t_max theta) in
       nthR k 0 = nthR m 0 /\
       nthR k 1 = nthR m 1 /\
       nthR k 8 = nthR m 8 /\ nthR k 9 = nthR m 9 /\ nthR k 16 = nthR m 16 /\ nthR k 17 = nthR m 17.
Proof. exact diattenuator_diagonal_partial. Qed.
Print Assumptions C17_diattenuator_diagonal_partial.

Theorem C17_frames_orthonormal :
  forall k0 k1 : V3 ROps,
       unit3 k0 ->
       unit3 k1 ->
       nondegenerate k0 k1 ->
       let s := s_vector k0 k1 in orthonormal3 s (cross k0 s) k0 /\ orthonormal3 s (cross k1 s) k1.
Proof. exact frames_orthonormal. Qed.
Print Assumptions C17_frames_orthonormal.

Theorem C17_uncoated_surface_isometry :
  forall k0 k1 : V3 ROps,
       unit3 k0 ->
       unit3 k1 ->
       nondegenerate k0 k1 ->
       forall e : CV3 ROps, cv_abs2 (m3_apply (surface_matrix k0 k1 None) e) = cv_abs2 e.
Proof. exact uncoated_surface_isometry. Qed.
Print Assumptions C17_uncoated_surface_isometry.

Theorem C17_uncoated_surface_transverse :
  forall k0 k1 : V3 ROps,
       unit3 k0 ->
       unit3 k1 ->
       nondegenerate k0 k1 ->
       forall e : CV3 ROps, cv_dotr (m3_apply (surface_matrix k0 k1 None) e) k1 = cv_dotr e k0.
Proof. exact uncoated_surface_transverse. Qed.
Print Assumptions C17_uncoated_surface_transverse.

Theorem C17_uncoated_trace_isometry :
  forall (surfs : list (V3 ROps * option Mat)) (k : V3 ROps) (P : Mat) (e : CV3 ROps),
       unit3 k ->
       chain_ok k surfs ->
       cv_abs2 (m3_apply (trace_P k surfs P) e) = cv_abs2 (m3_apply P e) /\
       cv_dotr (m3_apply (trace_P k surfs P) e) (last_dir k surfs) = cv_dotr (m3_apply P e) k.
Proof. exact uncoated_trace_isometry. Qed.
Print Assumptions C17_uncoated_trace_isometry.

Theorem C17_polstate_init_normalised :
  forall (ex ey : R) (px py : T ROps),
       (ex * ex + ey * ey)%R <> 0%R -> normalised (polstate_init (ex, ey, px, py)).
Proof. exact polstate_init_normalised. Qed.
Print Assumptions C17_polstate_init_normalised.

Theorem C17_launch_field_unit_transverse :
  forall (k : V3 ROps) (st : R * R * R * R),
       launch_ok k -> normalised st -> cv_abs2 (field3d k st) = 1%R /\ transverse (field3d k st) k.
Proof. exact launch_field_unit_transverse. Qed.
Print Assumptions C17_launch_field_unit_transverse.

Theorem C17_uncoated_trace_preserves_intensity :
  forall (k : V3 ROps) (surfs : list (V3 ROps * option Mat)) (st : R * R * R * R),
       launch_ok k ->
       chain_ok k surfs ->
       normalised st ->
       intensity_pol (trace_P k surfs m3_id) k st = 1%R /\
       transverse (m3_apply (trace_P k surfs m3_id) (field3d k st)) (last_dir k surfs).
Proof. exact uncoated_trace_preserves_intensity. Qed.
Print Assumptions C17_uncoated_trace_preserves_intensity.

Theorem C17_unpolarized_is_mean :
  forall (P : Mat) (k : V3 ROps) (i0 : R) (st1 st2 : R * R * R * R),
       launch_ok k ->
       normalised st1 ->
       normalised st2 ->
       herm2 (jones_vec st1) (jones_vec st2) = c0 ->
       intensity_unpol P k i0 = (i0 * ((intensity_pol P k st1 + intensity_pol P k st2) / 2))%R.
Proof. exact unpolarized_is_mean. Qed.
Print Assumptions C17_unpolarized_is_mean.

Theorem C17_trace_PP_chain :
  forall (surfs : list (V3 ROps * option Mat)) (k : V3 ROps) (P : Mat),
    trace_PP (chain_calls k surfs) P = trace_P k surfs P.
Proof. exact trace_PP_chain. Qed.
Print Assumptions C17_trace_PP_chain.
Theorem C17_near_parallel_surface_bound :
  forall (k0 k1 : V3 ROps) (e : CV3 ROps),
       unit3 k0 ->
       unit3 k1 ->
       (norm3 (cross k0 k1) < par_tolR)%R ->
       norm3 (cross k0 xhat) <> 0%R ->
       (Rabs (cv_abs2 (m3_apply (surface_matrix k0 k1 None) e) - cv_abs2 e) <=
        norm3 (cross k0 k1) * cv_abs2 e)%R.
Proof. exact near_parallel_surface_bound. Qed.
Print Assumptions C17_near_parallel_surface_bound.

Theorem C17_uncoated_trace_intensity_bounds :
  forall (surfs : list (V3 ROps * option Mat)) (k : V3 ROps) (P : Mat) (e : CV3 ROps),
       unit3 k ->
       chain_ok2 k surfs ->
       ((1 - par_tolR) ^ Datatypes.length surfs * cv_abs2 (m3_apply P e) <=
        cv_abs2 (m3_apply (trace_P k surfs P) e) <=
        (1 + par_tolR) ^ Datatypes.length surfs * cv_abs2 (m3_apply P e))%R.
Proof. exact uncoated_trace_intensity_bounds. Qed.
Print Assumptions C17_uncoated_trace_intensity_bounds.

Theorem C17_uncoated_trace_intensity_within :
  forall (k : V3 ROps) (surfs : list (V3 ROps * option Mat)) (st : R * R * R * R),
       launch_ok k ->
       chain_ok2 k surfs ->
       normalised st ->
       ((1 - par_tolR) ^ Datatypes.length surfs <= intensity_pol (trace_P k surfs m3_id) k st <=
        (1 + par_tolR) ^ Datatypes.length surfs)%R.
Proof. exact uncoated_trace_intensity_within. Qed.
Print Assumptions C17_uncoated_trace_intensity_within.


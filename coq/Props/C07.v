From Coq Require Import Reals ZArith List String.
From OV Require Import Ops RInst XR Gen.RealRays Gen.Standard Gen.C07K Model.Trace Model.M_C07 Lemmas.L_C07_kernel Lemmas.L_C07_redesc Lemmas.L_C07_mirror Lemmas.L_C07_scale Lemmas.L_C07_system Lemmas.L_Standard Spec.S_C07 Lemmas.L_C07_spec Num.OpsC03 Gen.C07L Lemmas.L_C07_launch.
Local Open Scope R_scope.
Import ListNotations.

Theorem C07_trace_mirror_x_R :
  forall (ss : list (surf ROps)) (r : ray ROps),
       Forall sym_x ss ->
       trace ss (mirror_ray true false r) = option_map (map (mirror_ray true false)) (trace ss r).
Proof. exact trace_mirror_x_R. Qed.
Print Assumptions C07_trace_mirror_x_R.

Theorem C07_trace_mirror_y_R :
  forall (ss : list (surf ROps)) (r : ray ROps),
       Forall sym_y ss ->
       trace ss (mirror_ray false true r) = option_map (map (mirror_ray false true)) (trace ss r).
Proof. exact trace_mirror_y_R. Qed.
Print Assumptions C07_trace_mirror_y_R.

Theorem C07_trace_mirror_xy_R :
  forall (ss : list (surf ROps)) (r : ray ROps),
       Forall sym_x ss ->
       Forall sym_y ss ->
       trace ss (mirror_ray true true r) = option_map (map (mirror_ray true true)) (trace ss r).
Proof. exact trace_mirror_xy_R. Qed.
Print Assumptions C07_trace_mirror_xy_R.

Theorem C07_trace_mirror_x_X :
  forall (ss : list (surf XOps)) (r : ray XOps),
       Forall sym_x ss ->
       trace ss (mirror_ray true false r) = option_map (map (mirror_ray true false)) (trace ss r).
Proof. exact trace_mirror_x_X. Qed.
Print Assumptions C07_trace_mirror_x_X.

Theorem C07_trace_mirror_y_X :
  forall (ss : list (surf XOps)) (r : ray XOps),
       Forall sym_y ss ->
       trace ss (mirror_ray false true r) = option_map (map (mirror_ray false true)) (trace ss r).
Proof. exact trace_mirror_y_X. Qed.
Print Assumptions C07_trace_mirror_y_X.

Theorem C07_trace_mirror_xy_X :
  forall (ss : list (surf XOps)) (r : ray XOps),
       Forall sym_x ss ->
       Forall sym_y ss ->
       trace ss (mirror_ray true true r) = option_map (map (mirror_ray true true)) (trace ss r).
Proof. exact trace_mirror_xy_X. Qed.
Print Assumptions C07_trace_mirror_xy_X.

Theorem C07_trace_scale_R :
  forall (s : R) (ss : list (surf ROps)) (r : ray ROps),
       (0 < s)%R ->
       Forall scalable ss ->
       trace (map (scale_surf (O:=ROps) s) ss) (scale_ray (O:=ROps) s r) = option_map (map (scale_ray (O:=ROps) s)) (trace ss r).
Proof. exact trace_scale_R. Qed.
Print Assumptions C07_trace_scale_R.

Theorem C07_std_distance_scale_R :
  forall s k N L M z x y R0 : R,
       (0 < s)%R ->
       k_std_distance ROps k N L M (s * z)%R (s * x)%R (s * y)%R (s * R0)%R =
       (s * k_std_distance ROps k N L M z x y R0)%R.
Proof. exact std_distance_scale_R. Qed.
Print Assumptions C07_std_distance_scale_R.

Theorem C07_std_sag_scale_R :
  forall s x y R0 k : R,
       (0 < s)%R ->
       k_std_sag ROps (s * x)%R (s * y)%R (s * R0)%R k = (s * k_std_sag ROps x y R0 k)%R.
Proof. exact std_sag_scale_R. Qed.
Print Assumptions C07_std_sag_scale_R.

Theorem C07_std_normal_scale_R :
  forall s x y R0 k : R,
       (0 < s)%R -> k_std_normal ROps (s * x)%R (s * y)%R (s * R0)%R k = k_std_normal ROps x y R0 k.
Proof. exact std_normal_scale_R. Qed.
Print Assumptions C07_std_normal_scale_R.

Theorem C07_localize_is_kernel :
  forall (O : Ops) (u : surf O) (r : ray O),
       ray6 (localize u r) =
       k_c07_cs_localize O (s_x u) (s_y u) (s_z u) (rx r) (ry r) (rz r) 
         (s_rx u) (rM r) (rN r) (s_ry u) (rL r) (s_rz u) /\
       ri (localize u r) = ri r /\ rw (localize u r) = rw r /\ ropd (localize u r) = ropd r.
Proof. exact (@localize_is_kernel). Qed.
Print Assumptions C07_localize_is_kernel.

Theorem C07_globalize_is_kernel :
  forall (O : Ops) (u : surf O) (r : ray O),
       ray6 (globalize u r) =
       k_c07_cs_globalize O (s_rz u) (rx r) (ry r) (rL r) (rM r) (s_ry u) 
         (rz r) (rN r) (s_rx u) (s_x u) (s_y u) (s_z u) /\
       ri (globalize u r) = ri r /\ rw (globalize u r) = rw r /\ ropd (globalize u r) = ropd r.
Proof. exact (@globalize_is_kernel). Qed.
Print Assumptions C07_globalize_is_kernel.

Theorem C07_ideal_material_dispersion_free :
  forall (O : Ops) (index absorp : T O),
       k_c07_ideal_n O index = index /\ k_c07_ideal_k O absorp = absorp.
Proof. exact (@ideal_material_dispersion_free). Qed.
Print Assumptions C07_ideal_material_dispersion_free.

Theorem C07_refract_equal_media :
  forall (nx ny nz : T ROps) (n : R) (L M N : T ROps),
       n <> 0%R -> k_refract ROps nx ny nz n n L M N = (L, M, N).
Proof. exact refract_equal_media. Qed.
Print Assumptions C07_refract_equal_media.

Theorem C07_propagate_additive :
  forall t1 t2 x L y M z N w i : T ROps,
       let
       '(x1, y1, z1, i1) := k_propagate ROps t1 x L y M z N 0%R w i in
        k_propagate ROps t2 x1 L y1 M z1 N 0%R w i1 =
        k_propagate ROps (t1 + t2)%R x L y M z N 0%R w i.
Proof. exact propagate_additive. Qed.
Print Assumptions C07_propagate_additive.

Theorem C07_opd_additive :
  forall t1 t2 n : R,
       (0 <= t1)%R -> (0 <= t2)%R -> (Rabs (t1 * n) + Rabs (t2 * n))%R = Rabs ((t1 + t2) * n).
Proof. exact opd_additive. Qed.
Print Assumptions C07_opd_additive.

Theorem C07_dummy_surface_advances :
  forall (zd n : R) (r : ray ROps),
       n <> 0%R ->
       rN r <> 0%R ->
       (0 <= (zd - rz r) / rN r)%R ->
       trace_surface (dummy_surf (O:=ROps) zd n) r = Some (advance (O:=ROps) ((zd - rz r) / rN r)%R n r).
Proof. exact dummy_surface_advances. Qed.
Print Assumptions C07_dummy_surface_advances.

Theorem C07_plane_after_dummy :
  forall z N t1 : R,
       N <> 0%R ->
       k_plane_distance ROps (z + t1 * N)%R N =
       (if Rltb (- z / N - t1) 0 then 0%R else (- z / N - t1)%R).
Proof. exact plane_after_dummy. Qed.
Print Assumptions C07_plane_after_dummy.

Theorem C07_conic_roots_shift :
  forall k N L M z x y Rc t1 t : R,
       L_Standard.quadric k Rc (x + t1 * L + t * L) (y + t1 * M + t * M) (z + t1 * N + t * N) =
       L_Standard.quadric k Rc (x + (t1 + t) * L) (y + (t1 + t) * M) (z + (t1 + t) * N).
Proof. exact conic_roots_shift. Qed.
Print Assumptions C07_conic_roots_shift.

Theorem C07_trace_wavelength_independent :
  forall (ss : list (surf ROps)) (w' : T ROps) (r : ray ROps),
       Forall nonabsorbing ss -> trace ss (set_w w' r) = option_map (map (set_w w')) (trace ss r).
Proof. exact trace_wavelength_independent. Qed.
Print Assumptions C07_trace_wavelength_independent.

Theorem C07_sphere_tilt_x_same_points :
  forall X Y Z vx vy vz Rc a : R,
       let
       '(x0, y0, z0) := k_translate ROps (- vx)%R (- vy)%R (- vz)%R X Y Z in
        let
        '(x1, y1, z1) :=
         k_translate ROps (- vx)%R (- (vy + Rc * sin a))%R (- (vz + Rc * (1 - cos a)))%R X Y Z in
         let
         '(y2, z2, _, _) := k_rotate_x ROps (- a)%R y1 z1 0%R 0%R in
          L_Standard.quadric 0 Rc x1 y2 z2 = L_Standard.quadric 0 Rc x0 y0 z0.
Proof. exact sphere_tilt_x_same_points. Qed.
Print Assumptions C07_sphere_tilt_x_same_points.

Theorem C07_sphere_tilt_y_same_points :
  forall X Y Z vx vy vz Rc a : R,
       let
       '(x0, y0, z0) := k_translate ROps (- vx)%R (- vy)%R (- vz)%R X Y Z in
        let
        '(x1, y1, z1) :=
         k_translate ROps (- (vx - Rc * sin a))%R (- vy)%R (- (vz + Rc * (1 - cos a)))%R X Y Z in
         let
         '(x2, z2, _, _) := k_rotate_y ROps (- a)%R x1 z1 0%R 0%R in
          L_Standard.quadric 0 Rc x2 y1 z2 = L_Standard.quadric 0 Rc x0 y0 z0.
Proof. exact sphere_tilt_y_same_points. Qed.
Print Assumptions C07_sphere_tilt_y_same_points.

Theorem C07_set_thickness_sets_gap :
  forall (pos : list R) (v : R) (k : nat),
       (S k < Datatypes.length pos)%nat ->
       (nth (S k) (set_thickness (O:=ROps) pos v k) 0%R - nth k (set_thickness (O:=ROps) pos v k) 0%R)%R = v.
Proof. exact set_thickness_sets_gap. Qed.
Print Assumptions C07_set_thickness_sets_gap.

Theorem C07_set_thickness_keeps_gaps :
  forall (pos : list R) (v : R) (k : nat),
       (S k < Datatypes.length pos)%nat ->
       forall j : nat,
       j <> k ->
       (S j < Datatypes.length pos)%nat ->
       (nth (S j) (set_thickness (O:=ROps) pos v k) 0%R - nth j (set_thickness (O:=ROps) pos v k) 0%R)%R =
       (nth (S j) pos 0%R - nth j pos 0%R)%R.
Proof. exact set_thickness_keeps_gaps. Qed.
Print Assumptions C07_set_thickness_keeps_gaps.

Theorem C07_set_thickness_rebases :
  forall (pos : list R) (v : R) (k : nat),
       (S k < Datatypes.length pos)%nat -> nth 1 (set_thickness (O:=ROps) pos v k) 0%R = 0%R.
Proof. exact set_thickness_rebases. Qed.
Print Assumptions C07_set_thickness_rebases.

Theorem C07_scale_system_is_scaling :
  forall (s : R) (p : @presc ROps),
       (2 <= Datatypes.length (pc_pos p))%nat ->
       nth 1 (pc_pos p) 0%R = 0%R -> scale_system (O:=ROps) s p = scaled_presc (O:=ROps) s p.
Proof. exact scale_system_is_scaling. Qed.
Print Assumptions C07_scale_system_is_scaling.

Theorem C07_scale_pos_is_scaling :
  forall (z : list R) (s : R),
       (2 <= Datatypes.length z)%nat ->
       nth 1 z 0%R = 0%R ->
       scale_pos (O:=ROps) s (Datatypes.length z) (thicknesses (O:=ROps) z) 0 z = map (Rmult s) z.
Proof. exact scale_pos_is_scaling. Qed.
Print Assumptions C07_scale_pos_is_scaling.

Theorem C07_scale_pos_infinite_object :
  forall (z : list R) (s : R) (j : nat),
       (2 <= Datatypes.length z)%nat ->
       nth 1 z 0%R = 0%R ->
       (1 <= j < Datatypes.length z)%nat ->
       nth j (scale_pos (O:=ROps) s (Datatypes.length z) (tl (thicknesses (O:=ROps) z)) 1 z) 0%R = (s * nth j z 0%R)%R /\
       nth 0 (scale_pos (O:=ROps) s (Datatypes.length z) (tl (thicknesses (O:=ROps) z)) 1 z) 0%R = nth 0 z 0%R.
Proof. exact scale_pos_infinite_object. Qed.
Print Assumptions C07_scale_pos_infinite_object.

Theorem C07_untilted_quadric_is_sphere :
  forall X Y Z vx vy vz Rc : R,
       let
       '(x0, y0, z0) := k_translate ROps (- vx)%R (- vy)%R (- vz)%R X Y Z in
        quadric 0 Rc x0 y0 z0 = 0%R <-> on_sphere (centre_of (vx, vy, vz) Rc) Rc (X, Y, Z).
Proof. exact untilted_quadric_is_sphere. Qed.
Print Assumptions C07_untilted_quadric_is_sphere.

Theorem C07_tilted_x_quadric_is_same_sphere :
  forall X Y Z vx vy vz Rc a : R,
       let
       '(tx, ty, tz) := tilted_vertex_x (vx, vy, vz) Rc a in
        let
        '(x1, y1, z1) := k_translate ROps (- tx)%R (- ty)%R (- tz)%R X Y Z in
         let
         '(y2, z2, _, _) := k_rotate_x ROps (- a)%R y1 z1 0%R 0%R in
          quadric 0 Rc x1 y2 z2 = 0%R <-> on_sphere (centre_of (vx, vy, vz) Rc) Rc (X, Y, Z).
Proof. exact tilted_x_quadric_is_same_sphere. Qed.
Print Assumptions C07_tilted_x_quadric_is_same_sphere.

Theorem C07_tilted_y_quadric_is_same_sphere :
  forall X Y Z vx vy vz Rc a : R,
       let
       '(tx, ty, tz) := tilted_vertex_y (vx, vy, vz) Rc a in
        let
        '(x1, y1, z1) := k_translate ROps (- tx)%R (- ty)%R (- tz)%R X Y Z in
         let
         '(x2, z2, _, _) := k_rotate_y ROps (- a)%R x1 z1 0%R 0%R in
          quadric 0 Rc x2 y1 z2 = 0%R <-> on_sphere (centre_of (vx, vy, vz) Rc) Rc (X, Y, Z).
Proof. exact tilted_y_quadric_is_same_sphere. Qed.
Print Assumptions C07_tilted_y_quadric_is_same_sphere.

Theorem C07_z_offset_homogeneous :
  forall s : R,
       (0 < s)%R ->
       forall (pos : list R) (EPD EPL : R),
       k_c07_z_offset ROps (map (Rmult s) pos) (s * EPD)%R (s * EPL)%R =
       (s * k_c07_z_offset ROps pos EPD EPL)%R.
Proof. exact z_offset_homogeneous. Qed.
Print Assumptions C07_z_offset_homogeneous.

Theorem C07_origins_homogeneous :
  forall s : R,
       (0 < s)%R ->
       forall (Hx Hy Px Py vx vy mf : R) (inf : bool) (ft : string) (tele : bool) 
         (EPL EPD : R) (pos : list R) (Robj kobj zobj : R),
       k_c07_origins ROps Hx Hy Px Py vx vy
         (if String.eqb ft "object_height"%string then (s * mf)%R else mf) inf ft tele 
         (s * EPL)%R (s * EPD)%R (map (Rmult s) pos) (s * Robj)%R kobj 
         (s * zobj)%R =
       option_map (scale3 s)
         (k_c07_origins ROps Hx Hy Px Py vx vy mf inf ft tele EPL EPD pos Robj kobj zobj).
Proof. exact origins_homogeneous. Qed.
Print Assumptions C07_origins_homogeneous.


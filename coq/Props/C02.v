From Coq Require Import Reals ZArith List String.
From Coquelicot Require Import Coquelicot.
From OV Require Import Ops RInst XR Gen.RealRays Gen.Standard Gen.Geometries Model.Trace Lemmas.L_RealRays Lemmas.L_Standard Lemmas.L_Trace Lemmas.L_Gradient Lemmas.L_RealRaysX Lemmas.L_Frame Model.PlumbSteps Gen.Plumbing Model.Plumb Lemmas.L_Plumb.
Local Open Scope R_scope.
Import ListNotations.

Theorem C02_refract_unit :
  forall nx ny nz n1 n2 L M N : R,
       (L * L + M * M + N * N)%R = 1%R ->
       (nx * nx + ny * ny + nz * nz)%R = 1%R ->
       (L * nx + M * ny + N * nz)%R <> 0%R ->
       (0 <=
        1 - n1 / n2 * (n1 / n2) * (1 - (L * nx + M * ny + N * nz) * (L * nx + M * ny + N * nz)))%R ->
       (fst (fst (RealRays.k_refract ROps nx ny nz n1 n2 L M N)) *
        fst (fst (RealRays.k_refract ROps nx ny nz n1 n2 L M N)) +
        snd (fst (RealRays.k_refract ROps nx ny nz n1 n2 L M N)) *
        snd (fst (RealRays.k_refract ROps nx ny nz n1 n2 L M N)) +
        snd (RealRays.k_refract ROps nx ny nz n1 n2 L M N) *
        snd (RealRays.k_refract ROps nx ny nz n1 n2 L M N))%R = 1%R.
Proof. exact refract_unit. Qed.
Print Assumptions C02_refract_unit.

Theorem C02_refract_snell :
  forall nx ny nz n1 n2 L M N : R,
       n2 <> 0%R ->
       (n2 *
        (snd (fst (RealRays.k_refract ROps nx ny nz n1 n2 L M N)) * nz -
         snd (RealRays.k_refract ROps nx ny nz n1 n2 L M N) * ny))%R = 
       (n1 * (M * nz - N * ny))%R /\
       (n2 *
        (snd (RealRays.k_refract ROps nx ny nz n1 n2 L M N) * nx -
         fst (fst (RealRays.k_refract ROps nx ny nz n1 n2 L M N)) * nz))%R =
       (n1 * (N * nx - L * nz))%R /\
       (n2 *
        (fst (fst (RealRays.k_refract ROps nx ny nz n1 n2 L M N)) * ny -
         snd (fst (RealRays.k_refract ROps nx ny nz n1 n2 L M N)) * nx))%R =
       (n1 * (L * ny - M * nx))%R.
Proof. exact refract_snell. Qed.
Print Assumptions C02_refract_snell.

Theorem C02_refract_halfspace :
  forall nx ny nz n1 n2 L M N : R,
       (nx * nx + ny * ny + nz * nz)%R = 1%R ->
       (L * nx + M * ny + N * nz)%R <> 0%R ->
       (0 <=
        1 - n1 / n2 * (n1 / n2) * (1 - (L * nx + M * ny + N * nz) * (L * nx + M * ny + N * nz)))%R ->
       (0 <=
        (fst (fst (RealRays.k_refract ROps nx ny nz n1 n2 L M N)) * nx +
         snd (fst (RealRays.k_refract ROps nx ny nz n1 n2 L M N)) * ny +
         snd (RealRays.k_refract ROps nx ny nz n1 n2 L M N) * nz) * (L * nx + M * ny + N * nz))%R.
Proof. exact refract_halfspace. Qed.
Print Assumptions C02_refract_halfspace.

Theorem C02_reflect_unit :
  forall nx ny nz L M N : R,
       (L * L + M * M + N * N)%R = 1%R ->
       (nx * nx + ny * ny + nz * nz)%R = 1%R ->
       (fst (fst (RealRays.k_reflect ROps nx ny nz L M N)) *
        fst (fst (RealRays.k_reflect ROps nx ny nz L M N)) +
        snd (fst (RealRays.k_reflect ROps nx ny nz L M N)) *
        snd (fst (RealRays.k_reflect ROps nx ny nz L M N)) +
        snd (RealRays.k_reflect ROps nx ny nz L M N) * snd (RealRays.k_reflect ROps nx ny nz L M N))%R =
       1%R.
Proof. exact reflect_unit. Qed.
Print Assumptions C02_reflect_unit.

Theorem C02_reflect_law :
  forall nx ny nz L M N : R,
       (nx * nx + ny * ny + nz * nz)%R = 1%R ->
       ((snd (fst (RealRays.k_reflect ROps nx ny nz L M N)) * nz -
         snd (RealRays.k_reflect ROps nx ny nz L M N) * ny)%R = (M * nz - N * ny)%R /\
        (snd (RealRays.k_reflect ROps nx ny nz L M N) * nx -
         fst (fst (RealRays.k_reflect ROps nx ny nz L M N)) * nz)%R = (N * nx - L * nz)%R /\
        (fst (fst (RealRays.k_reflect ROps nx ny nz L M N)) * ny -
         snd (fst (RealRays.k_reflect ROps nx ny nz L M N)) * nx)%R = (L * ny - M * nx)%R) /\
       (fst (fst (RealRays.k_reflect ROps nx ny nz L M N)) * nx +
        snd (fst (RealRays.k_reflect ROps nx ny nz L M N)) * ny +
        snd (RealRays.k_reflect ROps nx ny nz L M N) * nz)%R = (- (L * nx + M * ny + N * nz))%R.
Proof. exact reflect_law. Qed.
Print Assumptions C02_reflect_law.

Theorem C02_rotate_x_orthogonal :
  forall rx y z M N : T ROps,
       let
       '(y', z', M', N') := RealRays.k_rotate_x ROps rx y z M N in
        (y' * y' + z' * z')%R = (y * y + z * z)%R /\ (M' * M' + N' * N')%R = (M * M + N * N)%R.
Proof. exact rotate_x_orthogonal. Qed.
Print Assumptions C02_rotate_x_orthogonal.

Theorem C02_rotate_y_orthogonal :
  forall ry x z L N : T ROps,
       let
       '(x', z', L', N') := RealRays.k_rotate_y ROps ry x z L N in
        (x' * x' + z' * z')%R = (x * x + z * z)%R /\ (L' * L' + N' * N')%R = (L * L + N * N)%R.
Proof. exact rotate_y_orthogonal. Qed.
Print Assumptions C02_rotate_y_orthogonal.

Theorem C02_rotate_z_orthogonal :
  forall rz x y L M : T ROps,
       let
       '(x', y', L', M') := RealRays.k_rotate_z ROps rz x y L M in
        (x' * x' + y' * y')%R = (x * x + y * y)%R /\ (L' * L' + M' * M')%R = (L * L + M * M)%R.
Proof. exact rotate_z_orthogonal. Qed.
Print Assumptions C02_rotate_z_orthogonal.

Theorem C02_rotate_x_inverse :
  forall rx y z M N : T ROps,
       let
       '(y', z', M', N') := RealRays.k_rotate_x ROps rx y z M N in
        RealRays.k_rotate_x ROps (- rx)%R y' z' M' N' = (y, z, M, N).
Proof. exact rotate_x_inverse. Qed.
Print Assumptions C02_rotate_x_inverse.

Theorem C02_rotate_y_inverse :
  forall ry x z L N : T ROps,
       let
       '(x', z', L', N') := RealRays.k_rotate_y ROps ry x z L N in
        RealRays.k_rotate_y ROps (- ry)%R x' z' L' N' = (x, z, L, N).
Proof. exact rotate_y_inverse. Qed.
Print Assumptions C02_rotate_y_inverse.

Theorem C02_rotate_z_inverse :
  forall rz x y L M : T ROps,
       let
       '(x', y', L', M') := RealRays.k_rotate_z ROps rz x y L M in
        RealRays.k_rotate_z ROps (- rz)%R x' y' L' M' = (x, y, L, M).
Proof. exact rotate_z_inverse. Qed.
Print Assumptions C02_rotate_z_inverse.

Theorem C02_plane_distance_sound :
  forall z N t : R,
       Standard.k_plane_distance XOps (Fin z) (Fin N) = Fin t -> (0 <= t)%R /\ (z + t * N)%R = 0%R.
Proof. exact plane_distance_sound. Qed.
Print Assumptions C02_plane_distance_sound.

Theorem C02_plane_distance_miss :
  forall z N : R,
       N <> 0%R -> (- z / N < 0)%R -> Standard.k_plane_distance XOps (Fin z) (Fin N) = NaN.
Proof. exact plane_distance_miss. Qed.
Print Assumptions C02_plane_distance_miss.

Theorem C02_conic_distance_sound :
  forall k N L M z x y Rc t : R,
       Standard.k_std_distance XOps (Fin k) (Fin N) (Fin L) (Fin M) (Fin z) 
         (Fin x) (Fin y) (Fin Rc) = Fin t ->
       quadric k Rc (x + t * L) (y + t * M) (z + t * N) = 0%R /\
       ((k * (N * N) + L * L + M * M + N * N)%R <> 0%R -> (0 <= t)%R).
Proof. exact conic_distance_sound. Qed.
Print Assumptions C02_conic_distance_sound.

Theorem C02_conic_distance_miss :
  forall k N L M z x y Rc : R,
       (k * (N * N) + L * L + M * M + N * N)%R <> 0%R ->
       ((2 * k * N * z + 2 * L * x + 2 * M * y - 2 * N * Rc + 2 * N * z) *
        (2 * k * N * z + 2 * L * x + 2 * M * y - 2 * N * Rc + 2 * N * z) -
        4 * (k * (N * N) + L * L + M * M + N * N) *
        (k * (z * z) - 2 * Rc * z + x * x + y * y + z * z) < 0)%R ->
       Standard.k_std_distance XOps (Fin k) (Fin N) (Fin L) (Fin M) (Fin z) 
         (Fin x) (Fin y) (Fin Rc) = NaN.
Proof. exact conic_distance_miss. Qed.
Print Assumptions C02_conic_distance_miss.

Theorem C02_std_normal_unit :
  forall x y Rc k : R,
       (fst (fst (Standard.k_std_normal ROps x y Rc k)) *
        fst (fst (Standard.k_std_normal ROps x y Rc k)) +
        snd (fst (Standard.k_std_normal ROps x y Rc k)) *
        snd (fst (Standard.k_std_normal ROps x y Rc k)) +
        snd (Standard.k_std_normal ROps x y Rc k) * snd (Standard.k_std_normal ROps x y Rc k))%R =
       1%R.
Proof. exact std_normal_unit. Qed.
Print Assumptions C02_std_normal_unit.

Theorem C02_std_normal_parallel_gradient :
  forall x y Rc k : R,
       Rc <> 0%R ->
       (0 < 1 - (1 + k) * (x * x + y * y) / (Rc * Rc))%R ->
       forall z : R,
       (Rc - (1 + k) * z)%R = (Rc * sqrt (1 - (1 + k) * (x * x + y * y) / (Rc * Rc)))%R ->
       let gx := x in
       let gy := y in
       let gz := ((1 + k) * z - Rc)%R in
       (snd (fst (Standard.k_std_normal ROps x y Rc k)) * gz -
        snd (Standard.k_std_normal ROps x y Rc k) * gy)%R = 0%R /\
       (snd (Standard.k_std_normal ROps x y Rc k) * gx -
        fst (fst (Standard.k_std_normal ROps x y Rc k)) * gz)%R = 0%R /\
       (fst (fst (Standard.k_std_normal ROps x y Rc k)) * gy -
        snd (fst (Standard.k_std_normal ROps x y Rc k)) * gx)%R = 0%R.
Proof. exact std_normal_parallel_gradient. Qed.
Print Assumptions C02_std_normal_parallel_gradient.

Theorem C02_std_sag_on_quadric :
  forall x y Rc k : R,
       Rc <> 0%R ->
       (0 <= 1 - (1 + k) * (x * x + y * y) / (Rc * Rc))%R ->
       quadric k Rc x y (Standard.k_std_sag ROps x y Rc k) = 0%R.
Proof. exact std_sag_on_quadric. Qed.
Print Assumptions C02_std_sag_on_quadric.

Theorem C02_surface_opd :
  forall (s : surf ROps) (r r' : ray ROps),
       trace_surface s r = Some r' ->
       exists t : R,
         distance (s_shape s) (localize s r) = Some t /\ ropd r' = (ropd r + Rabs (t * s_n1 s))%R.
Proof. exact surface_opd. Qed.
Print Assumptions C02_surface_opd.

Theorem C02_opl_is_sum :
  forall (ss : list (surf ROps)) (r : ray ROps) (l : list (ray ROps)),
       trace ss r = Some l -> map ropd l = running (ropd r) (path_terms ss r).
Proof. exact opl_is_sum. Qed.
Print Assumptions C02_opl_is_sum.

Theorem C02_opl_increment_n_times_t :
  forall (s : surf ROps) (r r' : ray ROps) (t : T ROps),
       trace_surface s r = Some r' ->
       distance (s_shape s) (localize s r) = Some t ->
       (0 <= t)%R -> (0 <= s_n1 s)%R -> (ropd r' - ropd r)%R = (s_n1 s * t)%R.
Proof. exact opl_increment_n_times_t. Qed.
Print Assumptions C02_opl_increment_n_times_t.

Theorem C02_propagate_is_translation :
  forall t x L y M z N k w i : T ROps,
       let
       '(x', y', z', _) := k_propagate ROps t x L y M z N k w i in
        x' = (x + t * L)%R /\ y' = (y + t * M)%R /\ z' = (z + t * N)%R.
Proof. exact propagate_is_translation. Qed.
Print Assumptions C02_propagate_is_translation.

Theorem C02_propagate_length :
  forall (t : R) (x : T ROps) (L : R) (y : T ROps) (M : R) (z : T ROps) 
         (N : R) (k w i : T ROps),
       (L * L + M * M + N * N)%R = 1%R ->
       (0 <= t)%R ->
       let
       '(x', y', z', _) := k_propagate ROps t x L y M z N k w i in
        sqrt ((x' - x) * (x' - x) + (y' - y) * (y' - y) + (z' - z) * (z' - z)) = t.
Proof. exact propagate_length. Qed.
Print Assumptions C02_propagate_length.

Theorem C02_std_sag_dx :
  forall Rc k : R,
       Rc <> 0%R ->
       forall x y : R,
       (0 < rad Rc k x y)%R ->
       Derive.is_derive
         (fun x0 : Hierarchy.AbsRing.sort Hierarchy.R_AbsRing => k_std_sag ROps x0 y Rc k) x
         (x / (Rc * sqrt (rad Rc k x y)))%R.
Proof. exact std_sag_dx. Qed.
Print Assumptions C02_std_sag_dx.

Theorem C02_std_sag_dy :
  forall Rc k : R,
       Rc <> 0%R ->
       forall x y : R,
       (0 < rad Rc k x y)%R ->
       Derive.is_derive
         (fun y0 : Hierarchy.AbsRing.sort Hierarchy.R_AbsRing => k_std_sag ROps x y0 Rc k) y
         (y / (Rc * sqrt (rad Rc k x y)))%R.
Proof. exact std_sag_dy. Qed.
Print Assumptions C02_std_sag_dy.

Theorem C02_std_normal_is_gradient :
  forall Rc k : R,
       Rc <> 0%R ->
       forall x y : R,
       (0 < rad Rc k x y)%R ->
       exists gx gy : R,
         Derive.is_derive
           (fun x0 : Hierarchy.AbsRing.sort Hierarchy.R_AbsRing => k_std_sag ROps x0 y Rc k) x gx /\
         Derive.is_derive
           (fun y0 : Hierarchy.AbsRing.sort Hierarchy.R_AbsRing => k_std_sag ROps x y0 Rc k) y gy /\
         k_std_normal ROps x y Rc k =
         ((gx / sqrt (gx * gx + gy * gy + 1))%R, (gy / sqrt (gx * gx + gy * gy + 1))%R,
          (-1 / sqrt (gx * gx + gy * gy + 1))%R).
Proof. exact std_normal_is_gradient. Qed.
Print Assumptions C02_std_normal_is_gradient.

Theorem C02_ea_sag_is_conic_plus_poly :
  forall (x y Rc k : T ROps) (c : list (T ROps)),
       k_ea_sag ROps x y Rc k c = (k_std_sag ROps x y Rc k + ea_poly 0 c (x * x + y * y))%R.
Proof. exact ea_sag_is_conic_plus_poly. Qed.
Print Assumptions C02_ea_sag_is_conic_plus_poly.

Theorem C02_ea_sag_dx :
  forall (x y Rc k : R) (c : list (T ROps)),
       Rc <> 0%R ->
       (0 < rad Rc k x y)%R ->
       Derive.is_derive
         (fun x0 : Hierarchy.AbsRing.sort Hierarchy.R_AbsRing => k_ea_sag ROps x0 y Rc k c) x
         (x / (Rc * sqrt (rad Rc k x y)) + 2 * x * ea_dpoly 0 c (x * x + y * y))%R.
Proof. exact ea_sag_dx. Qed.
Print Assumptions C02_ea_sag_dx.

Theorem C02_ea_normal_is_gradient :
  forall (x y Rc k : R) (c : list (T ROps)),
       Rc <> 0%R ->
       (0 < rad Rc k x y)%R ->
       exists gx gy : R,
         Derive.is_derive
           (fun x0 : Hierarchy.AbsRing.sort Hierarchy.R_AbsRing => k_ea_sag ROps x0 y Rc k c) x gx /\
         k_ea_normal ROps x y Rc k c =
         ((gx / sqrt (gx * gx + gy * gy + 1))%R, (gy / sqrt (gx * gx + gy * gy + 1))%R,
          (-1 / sqrt (gx * gx + gy * gy + 1))%R) /\
         gy = (y / (Rc * sqrt (rad Rc k x y)) + 2 * y * ea_dpoly 0 c (x * x + y * y))%R.
Proof. exact ea_normal_is_gradient. Qed.
Print Assumptions C02_ea_normal_is_gradient.

Theorem C02_refract_tir_nonfinite :
  forall nx ny nz n1 n2 L M N : R,
       n2 <> 0%R ->
       let dot := (L * nx + M * ny + N * nz)%R in
       let u := (n1 / n2)%R in
       (1 - u * u * (1 - Rabs dot * Rabs dot) < 0)%R ->
       k_refract XOps (Fin nx) (Fin ny) (Fin nz) (Fin n1) (Fin n2) (Fin L) (Fin M) (Fin N) =
       (NaN, NaN, NaN).
Proof. exact refract_tir_nonfinite. Qed.
Print Assumptions C02_refract_tir_nonfinite.

Theorem C02_refract_lift :
  forall nx ny nz n1 n2 L M N : R,
       n2 <> 0%R ->
       let dot := (L * nx + M * ny + N * nz)%R in
       let u := (n1 / n2)%R in
       (0 <= 1 - u * u * (1 - Rabs dot * Rabs dot))%R ->
       k_refract XOps (Fin nx) (Fin ny) (Fin nz) (Fin n1) (Fin n2) (Fin L) (Fin M) (Fin N) =
       (let '(a, b, c) := k_refract ROps nx ny nz n1 n2 L M N in (Fin a, Fin b, Fin c)).
Proof. exact refract_lift. Qed.
Print Assumptions C02_refract_lift.

Theorem C02_reflect_lift :
  forall nx ny nz L M N : R,
       k_reflect XOps (Fin nx) (Fin ny) (Fin nz) (Fin L) (Fin M) (Fin N) =
       (let '(a, b, c) := k_reflect ROps nx ny nz L M N in (Fin a, Fin b, Fin c)).
Proof. exact reflect_lift. Qed.
Print Assumptions C02_reflect_lift.

Theorem C02_globalize_localize :
  forall (s : surf ROps) (r : ray ROps), globalize s (localize s r) = r.
Proof. exact globalize_localize. Qed.
Print Assumptions C02_globalize_localize.

Theorem C02_localize_globalize :
  forall (s : surf ROps) (r : ray ROps), localize s (globalize s r) = r.
Proof. exact localize_globalize. Qed.
Print Assumptions C02_localize_globalize.

Theorem C02_recorded_point_in_surface_frame :
  forall (s : surf ROps) (r r' : ray ROps),
       trace_surface s r = Some r' ->
       exists t : R,
         distance (s_shape s) (localize s r) = Some t /\
         (let l := localize s r in
          let l' := localize s r' in
          rx l' = (rx l + t * rL l)%R /\ ry l' = (ry l + t * rM l)%R /\ rz l' = (rz l + t * rN l)%R).
Proof. exact recorded_point_in_surface_frame. Qed.
Print Assumptions C02_recorded_point_in_surface_frame.


Theorem C02_conic_distance_sound_sheet :
  forall k N L M z x y Rc t : R,
       Standard.k_std_distance XOps (Fin k) (Fin N) (Fin L) (Fin M) (Fin z)
         (Fin x) (Fin y) (Fin Rc) = Fin t ->
       quadric k Rc (x + t * L) (y + t * M) (z + t * N) = 0%R /\
       ((k * (N * N) + L * L + M * M + N * N)%R <> 0%R ->
        (0 <= t)%R /\ (0 <= (Rc - (1 + k) * (z + t * N)) * Rc)%R).
Proof. exact conic_distance_sound_sheet. Qed.
Print Assumptions C02_conic_distance_sound_sheet.

Theorem C02_sheet_is_sag_sheet :
  forall px py pz Rc k : R,
       Rc <> 0%R ->
       quadric k Rc px py pz = 0%R ->
       (0 <= (Rc - (1 + k) * pz) * Rc)%R ->
       (0 <= 1 - (1 + k) * (px * px + py * py) / (Rc * Rc))%R /\
       (Rc - (1 + k) * pz)%R = (Rc * sqrt (1 - (1 + k) * (px * px + py * py) / (Rc * Rc)))%R.
Proof. exact sheet_is_sag_sheet. Qed.
Print Assumptions C02_sheet_is_sag_sheet.

Theorem C02_conic_distance_nonneg :
  forall k N L M z x y Rc t : R,
       Standard.k_std_distance XOps (Fin k) (Fin N) (Fin L) (Fin M) (Fin z)
         (Fin x) (Fin y) (Fin Rc) = Fin t -> (0 <= t)%R.
Proof. exact conic_distance_nonneg. Qed.
Print Assumptions C02_conic_distance_nonneg.

(** the hand-written composition of Model/Trace.v IS the plumbing regenerated from the source tree
    (Gen/Plumbing.v: the statements of Surface._trace_real / _interact / trace, CoordinateSystem.localize /
    globalize, BaseCoating.interact, SurfaceGroup.trace in source order), executed by Model/Plumb.v *)
Theorem C02_trace_surface_is_regenerated_plumbing :
  forall (s : surf ROps) (r : ray ROps),
       trace_real_run repo_lists s plumb_trace_real r None = of_opt (trace_surface s r).
Proof. exact (plumb_trace_real_is_model (O:=ROps)). Qed.
Print Assumptions C02_trace_surface_is_regenerated_plumbing.

Theorem C02_trace_is_regenerated_plumbing :
  forall (ss : list (surf ROps)) (r : ray ROps),
       group_trace_run repo_lists ss r = of_opt (trace ss r).
Proof. exact (plumb_group_trace_is_model (O:=ROps)). Qed.
Print Assumptions C02_trace_is_regenerated_plumbing.

Theorem C02_frame_change_is_regenerated_plumbing :
  forall (s : surf ROps) (r : ray ROps),
       cs_run s plumb_localize r = Ok (localize s r) /\ cs_run s plumb_globalize r = Ok (globalize s r).
Proof. intros s r; split; [exact (plumb_localize_is_model (O:=ROps) s r)|exact (plumb_globalize_is_model (O:=ROps) s r)]. Qed.
Print Assumptions C02_frame_change_is_regenerated_plumbing.

Theorem C02_repo_lists_def :
  repo_lists = mkLists plumb_trace_real plumb_interact plumb_surface_trace plumb_localize plumb_globalize
                       plumb_coat_interact plumb_group_trace plumb_geom_localize plumb_geom_globalize.
Proof. reflexivity. Qed.
Print Assumptions C02_repo_lists_def.

From Coq Require Import Reals ZArith List String.
From OV Require Import Ops RInst XR Gen.LensEdit Model.Paraxial Model.M_C01 Spec.S_ABCD Spec.S_C01 Lemmas.L_Paraxial Lemmas.L_C01_inv Lemmas.L_C01_build Lemmas.L_C01_thickness Lemmas.L_C01_edit Lemmas.L_C01_pickup Lemmas.L_C01_solve.
Import ListNotations.

Theorem C01_at_most_one_stop :
  forall O : Ops, forall (ops : list (op O)) (l l' : lens O),
       run l ops = Some l' -> (count_true (stops l) <= 1)%nat -> (count_true (stops l') <= 1)%nat.
Proof. exact (@at_most_one_stop). Qed.
Print Assumptions C01_at_most_one_stop.

Theorem C01_at_most_one_stop_from_empty :
  forall O : Ops, forall (a : aptype * T O) (ops : list (op O)) (l' : lens O),
       run (empty_lens a) ops = Some l' -> (count_true (stops l') <= 1)%nat.
Proof. exact (@at_most_one_stop_from_empty). Qed.
Print Assumptions C01_at_most_one_stop_from_empty.

Theorem C01_exactly_one_primary :
  forall O : Ops, forall (ops : list (op O)) (a : aptype * T O) (l' : lens O),
       run (empty_lens a) ops = Some l' -> prims l' <> nil -> count_true (prims l') = 1%nat.
Proof. exact (@exactly_one_primary). Qed.
Print Assumptions C01_exactly_one_primary.

Theorem C01_add_wavelength_appends :
  forall O : Ops, forall (l : lens O) (v : T O) (prim : bool),
       waves_ok l -> waves (add_wavelength l v prim) = waves l ++ v :: nil.
Proof. exact (@add_wavelength_appends). Qed.
Print Assumptions C01_add_wavelength_appends.

Theorem C01_build_in_order :
  forall (ap0 : aptype * R) (ob : aspec) (specs : list aspec),
       a_m ob <> MMirror ->
       exists l : lensR, run (empty_lens (O:=ROps) ap0) (build_ops ob specs) = Some l /\ built ob specs l.
Proof. exact (@build_in_order). Qed.
Print Assumptions C01_build_in_order.

Theorem C01_build_thicknesses :
  forall (ap0 : aptype * T ROps) (ob a : aspec) (specs : list aspec) (l : lensR),
       run (empty_lens (O:=ROps) ap0) (build_ops ob (a :: specs)) = Some l ->
       built ob (a :: specs) l -> thk (positions l) = a_t ob :: removelast (map a_t (a :: specs)).
Proof. exact (@build_thicknesses). Qed.
Print Assumptions C01_build_thicknesses.

Theorem C01_set_thickness_refines :
  forall (v : R) (k : Z) (zs : list R),
       (0 <= k)%Z ->
       (k + 1 < Z.of_nat (Datatypes.length zs))%Z ->
       forall j : Z,
       (0 <= j)%Z ->
       (j + 1 < Z.of_nat (Datatypes.length zs))%Z ->
       k_c01_get_thickness ROps j
         (k_c01_set_thickness ROps v k zs (Z.of_nat (Datatypes.length zs))) =
       (if (j =? k)%Z then v else k_c01_get_thickness ROps j zs).
Proof. exact (@set_thickness_refines). Qed.
Print Assumptions C01_set_thickness_refines.

Theorem C01_set_thickness_first_zero :
  forall (v : R) (k : Z) (zs : list R),
       (0 <= k)%Z ->
       (k + 1 < Z.of_nat (Datatypes.length zs))%Z ->
       getZ (k_c01_set_thickness ROps v k zs (Z.of_nat (Datatypes.length zs))) 1 = 0%R.
Proof. exact (@set_thickness_first_zero). Qed.
Print Assumptions C01_set_thickness_first_zero.

Theorem C01_set_thickness_thk :
  forall (v : R) (k : Z) (zs : list R),
       (0 <= k)%Z ->
       (k + 1 < Z.of_nat (Datatypes.length zs))%Z ->
       thk (k_c01_set_thickness ROps v k zs (Z.of_nat (Datatypes.length zs))) =
       upd (Z.to_nat k) v (thk zs).
Proof. exact (@set_thickness_thk). Qed.
Print Assumptions C01_set_thickness_thk.

Theorem C01_set_thickness_infinite_object :
  forall (v z1 : R) (rest : list R),
       k_c01_set_thickness XOps (Fin v) 0 (NInf :: Fin z1 :: map Fin rest)
         (Z.of_nat (Datatypes.length (NInf :: Fin z1 :: map Fin rest))) =
       Fin (z1 + - v + - z1) :: Fin (z1 + - z1) :: map (fun z : R => Fin (z + - z1)) rest.
Proof. exact (@set_thickness_infinite_object). Qed.
Print Assumptions C01_set_thickness_infinite_object.

Theorem C01_set_thickness_lens :
  forall (l : lensR) (v : T ROps) (k : Z) (l' : lensR),
       set_thickness l v k = Some l' ->
       thk (positions l') = upd (Z.to_nat k) v (thk (positions l)) /\ getZ (positions l') 1 = 0%R.
Proof. exact (@set_thickness_lens). Qed.
Print Assumptions C01_set_thickness_lens.

Theorem C01_set_thickness_frame :
  forall O : Ops, forall (l : lens O) (v : T O) (k : Z) (l' : lens O),
       set_thickness l v k = Some l' ->
       same_rest l l' /\
       (forall j : nat,
        nth_error (surfs l') j =
        match nth_error (surfs l) j with
        | Some s =>
            Some
              (with_z s (getZ (k_c01_set_thickness O v k (positions l) (nsurf l)) (Z.of_nat j)))
        | None => None
        end).
Proof. exact (@set_thickness_frame). Qed.
Print Assumptions C01_set_thickness_frame.

Theorem C01_thickness_last_write_wins :
  forall (es : list (nat * R)) (zs : list R) (j : nat),
       (forall e : nat * R, In e es -> S (fst e) < Datatypes.length zs) ->
       S j < Datatypes.length zs ->
       nth j (thk (run_thk es zs)) 0%R = last_write Nat.eqb es j (nth j (thk zs) 0%R).
Proof. exact (@thickness_last_write_wins). Qed.
Print Assumptions C01_thickness_last_write_wins.

Theorem C01_set_radius_exact :
  forall O : Ops, forall (l : lens O) (v : T O) (k : Z) (l' : lens O),
       set_radius l v k = Some l' ->
       edits_only l l' k (set_radius_fun v) /\
       (forall s : surf O,
        nth_error (surfs l) (Z.to_nat k) = Some s ->
        isinf_ v = false ->
        exists s' : surf O,
          nth_error (surfs l') (Z.to_nat k) = Some s' /\
          s_R s' = v /\ s_c s' = s_c s /\ conic_read s' = conic_read s).
Proof. exact (@set_radius_exact). Qed.
Print Assumptions C01_set_radius_exact.

Theorem C01_set_radius_frame :
  forall O : Ops, forall (l : lens O) (v : T O) (k : Z) (l' : lens O),
       set_radius l v k = Some l' ->
       positions l' = positions l /\
       n_post l' = n_post l /\
       n_pre l' = n_pre l /\
       map s_stop (surfs l') = map s_stop (surfs l) /\
       map s_x (surfs l') = map s_x (surfs l) /\
       map s_y (surfs l') = map s_y (surfs l) /\
       map s_rx (surfs l') = map s_rx (surfs l) /\ map s_ry (surfs l') = map s_ry (surfs l).
Proof. exact (@set_radius_frame). Qed.
Print Assumptions C01_set_radius_frame.

Theorem C01_set_radius_keeps_conic :
  forall O : Ops, forall (l : lens O) (v : T O) (k : Z) (l' : lens O),
       isinf_ v = false ->
       set_radius l v k = Some l' ->
       map conic_read (surfs l') = map conic_read (surfs l) /\
       map s_c (surfs l') = map s_c (surfs l).
Proof. exact (@set_radius_keeps_conic). Qed.
Print Assumptions C01_set_radius_keeps_conic.

Theorem C01_set_conic_exact :
  forall O : Ops, forall (l : lens O) (v : T O) (k : Z) (l' : lens O),
       set_conic l v k = Some l' ->
       edits_only l l' k (fun s : surf O => with_geom s (s_kind s) (s_R s) (Some v) (s_c s)).
Proof. exact (@set_conic_exact). Qed.
Print Assumptions C01_set_conic_exact.

Theorem C01_set_asphere_coeff_exact :
  forall O : Ops, forall (l : lens O) (v : T O) (k j : Z) (l' : lens O),
       set_asphere_coeff l v k j = Some l' ->
       edits_only l l' k
         (fun s : surf O => with_geom s (s_kind s) (s_R s) (s_k s) (setZ (s_c s) j v)).
Proof. exact (@set_asphere_coeff_exact). Qed.
Print Assumptions C01_set_asphere_coeff_exact.

Theorem C01_setZ_getZ :
  forall O : Ops, forall (c : list (T O)) (j : Z) (v : T O) (i : Z),
       (0 <= j < Z.of_nat (Datatypes.length c))%Z ->
       (0 <= i < Z.of_nat (Datatypes.length c))%Z ->
       getZ (setZ c j v) i = (if (i =? j)%Z then v else getZ c i).
Proof. exact (@setZ_getZ). Qed.
Print Assumptions C01_setZ_getZ.

Theorem C01_set_index_media :
  forall O : Ops, forall (l : lens O) (v : T O) (k : Z) (l' : lens O),
       set_index l v k = Some l' -> media_chained (refsO l) -> media_chained (refsO l').
Proof. exact (@set_index_media). Qed.
Print Assumptions C01_set_index_media.

Theorem C01_set_index_readback :
  forall O : Ops, forall (l : lens O) (v : T O) (k : Z) (l' : lens O) (s' : surf O),
       set_index l v k = Some l' ->
       nth_error (surfs l') (Z.to_nat k) = Some s' -> index_of l' (s_mpost s') = v.
Proof. exact (@set_index_readback). Qed.
Print Assumptions C01_set_index_readback.

Theorem C01_set_index_frame :
  forall O : Ops, forall (l : lens O) (v : T O) (k : Z) (l' : lens O) (j : nat),
       set_index l v k = Some l' ->
       Z.of_nat j <> k -> Z.of_nat j <> (k + 1)%Z -> nth_error (surfs l') j = nth_error (surfs l) j.
Proof. exact (@set_index_frame). Qed.
Print Assumptions C01_set_index_frame.

Theorem C01_pickup_radius_satisfied :
  forall (l : lensR) (p : pickupR) (l' : lensR),
       pk_attr p = ARadius ->
       pk_src p <> pk_tgt p ->
       (0 <= pk_tgt p)%Z ->
       pickup_apply l p = Some l' ->
       exists r : R,
         radius_at l (pk_src p) = Some r /\
         radius_at l' (pk_src p) = Some r /\
         radius_at l' (pk_tgt p) = Some (pk_scale p * r + pk_offset p)%R.
Proof. exact (@pickup_radius_satisfied). Qed.
Print Assumptions C01_pickup_radius_satisfied.

Theorem C01_pickup_conic_satisfied :
  forall (l : lensR) (p : pickupR) (l' : lensR),
       pk_attr p = AConic ->
       pk_src p <> pk_tgt p ->
       (0 <= pk_tgt p)%Z ->
       pickup_apply l p = Some l' ->
       exists c : R,
         cread l (pk_src p) = Some c /\
         cread l' (pk_src p) = Some c /\
         cread l' (pk_tgt p) = Some (pk_scale p * c + pk_offset p)%R.
Proof. exact (@pickup_conic_satisfied). Qed.
Print Assumptions C01_pickup_conic_satisfied.

Theorem C01_conic_pickup_succeeds :
  forall (l : lensR) (p : pickupR) (s t : surfR),
       pk_attr p = AConic ->
       nthS l (pk_src p) = Some s ->
       nthS l (pk_tgt p) = Some t -> exists l' : lensR, pickup_apply l p = Some l'.
Proof. exact (@conic_pickup_succeeds). Qed.
Print Assumptions C01_conic_pickup_succeeds.

Theorem C01_pickup_thickness_satisfied :
  forall (l : lensR) (p : pickupR) (l' : lensR),
       pk_attr p = AThickness ->
       pk_src p <> pk_tgt p ->
       pickup_apply l p = Some l' ->
       thickness l' (pk_src p) = thickness l (pk_src p) /\
       thickness l' (pk_tgt p) = (pk_scale p * thickness l (pk_src p) + pk_offset p)%R.
Proof. exact (@pickup_thickness_satisfied). Qed.
Print Assumptions C01_pickup_thickness_satisfied.

Theorem C01_pickups_satisfied_partial :
  forall (ps : list pickupR) (l l' : lensR),
       (forall p : pickupR,
        In p ps ->
        pk_attr p = ARadius /\ pk_src p <> pk_tgt p /\ (0 <= pk_src p)%Z /\ (0 <= pk_tgt p)%Z) ->
       ordered ps ->
       fold_opt pickup_apply ps l = Some l' -> forall p : pickupR, In p ps -> rsat l' p.
Proof. exact (@pickups_satisfied_partial). Qed.
Print Assumptions C01_pickups_satisfied_partial.

Theorem C01_shift_moves_height :
  forall (pre : list asurf) (s : asurf) (post : list asurf) (st : R * R * R) (d : R),
       a_obj s = false ->
       let
       '(_, up, _) := afinal pre st in
        fst (nth (Datatypes.length pre) (atrace (pre ++ shift_from d (s :: post)) st) (0%R, 0%R)) =
        (fst (nth (Datatypes.length pre) (atrace (pre ++ s :: post) st) (0, 0)) + d * up)%R.
Proof. exact (@shift_moves_height). Qed.
Print Assumptions C01_shift_moves_height.

Theorem C01_mrh_solve_correct :
  forall (pre : list asurf) (s : asurf) (post : list asurf) (st : R * R * R) (h : R),
       a_obj s = false ->
       let
       '(_, up, _) := afinal pre st in
        up <> 0%R ->
        let y := fst (nth (Datatypes.length pre) (atrace (pre ++ s :: post) st) (0%R, 0%R)) in
        fst
          (nth (Datatypes.length pre) (atrace (pre ++ shift_from ((h - y) / up) (s :: post)) st)
             (0%R, 0%R)) = h.
Proof. exact (@mrh_solve_correct). Qed.
Print Assumptions C01_mrh_solve_correct.

Theorem C01_mrh_kernel_is_shift :
  forall (ya ua : list R) (h : R) (idx : Z) (ss : list asurf),
       (0 <= idx)%Z ->
       k_c01_mrh_apply ROps ya ua idx h (map a_z ss) (Z.of_nat (Datatypes.length ss)) =
       map a_z
         (firstn (Z.to_nat idx) ss ++
          shift_from
            ((h - getZ (O:=ROps) ya idx) / (if (idx >? 0)%Z then getZ (O:=ROps) ua (idx - 1) else getZ (O:=ROps) ua idx))
            (skipn (Z.to_nat idx) ss)).
Proof. exact (@mrh_kernel_is_shift). Qed.
Print Assumptions C01_mrh_kernel_is_shift.

Theorem C01_mrh_solve_places :
  forall (pre : list asurf) (s : asurf) (post : list asurf) (st : R * R * R) (h : T ROps),
       pre <> nil ->
       a_obj s = false ->
       let ss := pre ++ s :: post in
       let rec := atrace ss st in
       let idx := Z.of_nat (Datatypes.length pre) in
       let
       '(_, up, _) := afinal pre st in
        up <> 0%R ->
        let zs' :=
          k_c01_mrh_apply ROps (map fst rec) (map snd rec) idx h (map a_z ss)
            (Z.of_nat (Datatypes.length ss)) in
        fst (nth (Datatypes.length pre) (atrace (with_zs ss zs') st) (0%R, 0%R)) = h.
Proof. exact (@mrh_solve_places). Qed.
Print Assumptions C01_mrh_solve_places.

Theorem C01_image_solve_focus :
  forall (pre : list asurf) (img : asurf) (st : R * R * R),
       a_obj img = false ->
       let
       '(_, up, _) := afinal pre st in
        up <> 0%R ->
        let y := fst (nth (Datatypes.length pre) (atrace (pre ++ img :: nil) st) (0%R, 0%R)) in
        fst
          (nth (Datatypes.length pre) (atrace (pre ++ shift_from (- (y / up)) (img :: nil)) st)
             (0%R, 0%R)) = 0%R.
Proof. exact (@image_solve_focus). Qed.
Print Assumptions C01_image_solve_focus.

Theorem C01_image_solve_kernel :
  forall (ya ua zs : list R) (y u_in u_out z : R),
       k_c01_image_solve ROps (ya ++ y :: nil) (ua ++ u_in :: u_out :: nil) (zs ++ z :: nil) =
       zs ++ (z - y / u_in)%R :: nil.
Proof. exact (@image_solve_kernel). Qed.
Print Assumptions C01_image_solve_kernel.

Theorem C01_image_solve_places :
  forall (pre : list asurf) (img : asurf) (st : R * R * R),
       pre <> nil ->
       a_obj img = false ->
       let ss := pre ++ img :: nil in
       let rec := atrace ss st in
       let
       '(_, up, _) := afinal pre st in
        up <> 0%R ->
        let zs' := k_c01_image_solve ROps (map fst rec) (map snd rec) (map a_z ss) in
        fst (nth (Datatypes.length pre) (atrace (with_zs ss zs') st) (0%R, 0%R)) = 0%R.
Proof. exact (@image_solve_places). Qed.
Print Assumptions C01_image_solve_places.

Theorem C01_ready_made_then_keyword :
  forall (l : lensR) (kind : gkind) (R0 k : T ROps) (c : list (T ROps)) 
         (z t : T ROps) (m : matspec (T ROps)) (stop refl : bool) (a : aspec) 
         (l1 : lensR),
       (1 <= Datatypes.length (surfs l))%nat ->
       step l (AddReady (O:=ROps) (Z.of_nat (Datatypes.length (surfs l))) kind R0 k c z t m stop refl) =
       Some l1 ->
       positions l1 = positions l ++ z :: nil /\
       last_t l1 = t /\
       (exists l2 : lensR,
          step l1 (add_op (Datatypes.length (surfs l1)) a) = Some l2 /\
          positions l2 = positions l ++ z :: (z + t)%R :: nil).
Proof. exact (@ready_made_then_keyword). Qed.
Print Assumptions C01_ready_made_then_keyword.

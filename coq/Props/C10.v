(** C10 - Zernike families are correctly indexed, normalised, and recovered by fitting.
    FROZEN statements: each theorem is proved by [exact] of a lemma of coq/Lemmas/L_C10_*.v. *)
From Coq Require Import Reals ZArith List String QArith.
From Coquelicot Require Import Coquelicot.
From OV Require Import Ops RInst Spec.S_C10 Model.M_C10 Gen.Zernike Lemmas.L_C10_index Lemmas.L_C10_radial Lemmas.L_C10_azimuthal Lemmas.L_C10_fit.
Import ListNotations.

Theorem C10_std_indices_rule :
  Datatypes.length std_indices = 120%nat /\
       List.Forall zvalidp std_indices /\
       map (pairf osa_j) std_indices = rangeZ 0 120 /\
       NoDup std_indices /\
       (forall j : nat, (j < 120)%nat -> pairf osa_j (nth j std_indices (0%Z, 0%Z)) = Z.of_nat j) /\
       (forall n m : Z, zvalid n m -> (osa_j n m < 120)%Z -> In (n, m) std_indices).
Proof. exact std_indices_rule. Qed.
Print Assumptions C10_std_indices_rule.

Theorem C10_noll_indices_rule :
  Datatypes.length noll_indices = 120%nat /\
       List.Forall zvalidp noll_indices /\
       map (pairf noll_j) noll_indices = rangeZ 1 121 /\
       NoDup noll_indices /\
       (forall j : nat, (j < 120)%nat -> pairf noll_j (nth j noll_indices (0%Z, 0%Z)) = (Z.of_nat j + 1)%Z) /\
       (forall n m : Z, zvalid n m -> (noll_j n m <= 120)%Z -> In (n, m) noll_indices).
Proof. exact noll_indices_rule. Qed.
Print Assumptions C10_noll_indices_rule.

Theorem C10_fringe_indices_rule :
  Datatypes.length fringe_indices = 120%nat /\
       List.Forall zvalidp fringe_indices /\
       map (pairf fringe_j) fringe_indices = rangeZ 1 121 /\
       NoDup fringe_indices /\
       (forall j : nat,
        (j < 120)%nat -> pairf fringe_j (nth j fringe_indices (0%Z, 0%Z)) = (Z.of_nat j + 1)%Z) /\
       (forall n m : Z, zvalid n m -> (fringe_j n m <= 120)%Z -> In (n, m) fringe_indices).
Proof. exact fringe_indices_rule. Qed.
Print Assumptions C10_fringe_indices_rule.

Theorem C10_noll_indices_N_exact :
  forall N n m : Z, In (n, m) (noll_indices_N N) <-> (0 <= n < N)%Z /\ zvalid n m.
Proof. exact noll_indices_N_exact. Qed.
Print Assumptions C10_noll_indices_N_exact.

Theorem C10_fringe_sorted_N_exact :
  forall N n m : Z, In (n, m) (fringe_sorted_N N) <-> (0 <= n < N)%Z /\ zvalid n m.
Proof. exact fringe_sorted_N_exact. Qed.
Print Assumptions C10_fringe_sorted_N_exact.

Theorem C10_noll_c_total :
  forall n m : Z,
       let md := (n mod 4)%Z in
       (m >? 0)%Z && (md <=? 1)%Z || (m <? 0)%Z && (md >=? 2)%Z || (m >=? 0)%Z && (md >=? 2)%Z
       || (m <=? 0)%Z && (md <=? 1)%Z = true.
Proof. exact noll_c_total. Qed.
Print Assumptions C10_noll_c_total.

Theorem C10_code_numbers_are_published :
  List.Forall (fun p : Z * Z => noll_number p = pairf noll_j p) (valid_pairs 15) /\
       List.Forall (fun p : Z * Z => fringe_number p = pairf fringe_j p) (valid_pairs 20).
Proof. exact code_numbers_are_published. Qed.
Print Assumptions C10_code_numbers_are_published.

Theorem C10_fringe_120_needs_n_le_19 :
  forall n m : Z, zvalid n m -> (fringe_j n m <= 120)%Z -> (n <= 19)%Z.
Proof. exact fringe_120_needs_n_le_19. Qed.
Print Assumptions C10_fringe_120_needs_n_le_19.

Theorem C10_noll_parity :
  forall n m : Z, ((0 < m)%Z -> Z.even (noll_j n m) = true) /\ ((m < 0)%Z -> Z.odd (noll_j n m) = true).
Proof. exact noll_parity. Qed.
Print Assumptions C10_noll_parity.

Theorem C10_noll_monotone :
  forall n m n' m' : Z,
       zvalid n m ->
       zvalid n' m' ->
       ((n < n')%Z -> (noll_j n m < noll_j n' m')%Z) /\
       (n = n' -> (Z.abs m < Z.abs m')%Z -> (noll_j n m < noll_j n' m')%Z).
Proof. exact noll_monotone. Qed.
Print Assumptions C10_noll_monotone.

Theorem C10_osa_j_injective :
  forall n m n' m' : Z, zvalid n m -> zvalid n' m' -> osa_j n m = osa_j n' m' -> (n, m) = (n', m').
Proof. exact osa_j_injective. Qed.
Print Assumptions C10_osa_j_injective.

Theorem C10_noll_j_injective :
  forall n m n' m' : Z, zvalid n m -> zvalid n' m' -> noll_j n m = noll_j n' m' -> (n, m) = (n', m').
Proof. exact noll_j_injective. Qed.
Print Assumptions C10_noll_j_injective.

Theorem C10_fringe_j_injective :
  forall n m n' m' : Z, zvalid n m -> zvalid n' m' -> fringe_j n m = fringe_j n' m' -> (n, m) = (n', m').
Proof. exact fringe_j_injective. Qed.
Print Assumptions C10_fringe_j_injective.

Theorem C10_radial_kernel_is_poly :
  forall (n m : Z) (r : R), k_zk_radial ROps n m r = eval_R (radial_coefs n m) r.
Proof. exact radial_kernel_is_poly. Qed.
Print Assumptions C10_radial_kernel_is_poly.

Theorem C10_radial_edge_one :
  forall n m : Z, In (n, m) supported -> k_zk_radial ROps n m 1 = 1.
Proof. exact radial_edge_one. Qed.
Print Assumptions C10_radial_edge_one.

Theorem C10_radial_orthogonal :
  forall l : list (Z * Z),
       l = std_indices \/ l = noll_indices \/ l = fringe_indices ->
       forall n m n' m' : Z,
       In (n, m) l ->
       In (n', m') l ->
       Z.abs m = Z.abs m' -> inner_Q (radial_coefs n m) (radial_coefs n' m') == radial_expected n n'.
Proof. exact radial_orthogonal. Qed.
Print Assumptions C10_radial_orthogonal.

Theorem C10_azimuthal_orthogonal :
  forall m m' : Z, is_RInt (fun phi : R => az m phi * az m' phi) 0 (2 * PI) (az_expected m m').
Proof. exact azimuthal_orthogonal. Qed.
Print Assumptions C10_azimuthal_orthogonal.

Theorem C10_std_noll_orthonormal :
  (forall p q : Z * Z, In p std_indices -> In q std_indices -> gram norm2_std p q == delta p q) /\
       (forall p q : Z * Z, In p noll_indices -> In q noll_indices -> gram norm2_noll p q == delta p q).
Proof. exact std_noll_orthonormal. Qed.
Print Assumptions C10_std_noll_orthonormal.

Theorem C10_norm_kernels_squared :
  forall n m : Z,
       (0 <= n)%Z ->
       k_zk_norm_std ROps n m * k_zk_norm_std ROps n m = Q2R (norm2_std n m) /\
       k_zk_norm_noll ROps n m * k_zk_norm_noll ROps n m = Q2R (norm2_noll n m).
Proof. exact norm_kernels_squared. Qed.
Print Assumptions C10_norm_kernels_squared.

Theorem C10_zernike_poly_linear :
  forall (fam : nat) (a b : R) (c1 c2 : list R) (r phi : R),
       Datatypes.length c1 = Datatypes.length c2 ->
       rpoly fam (lincomb a b c1 c2) r phi = a * rpoly fam c1 r phi + b * rpoly fam c2 r phi.
Proof. exact zernike_poly_linear. Qed.
Print Assumptions C10_zernike_poly_linear.

Theorem C10_zernike_fit_recovers :
  forall (fam : nat) (pts : list (R * R)) (N : nat) (c0 chat z : list R),
       injective_design (family_term fam) (family_indices fam) pts N ->
       Datatypes.length c0 = N ->
       z = design (family_term fam) (family_indices fam) pts c0 ->
       lstsq_min (family_term fam) (family_indices fam) pts N chat z -> chat = c0.
Proof. exact zernike_fit_recovers. Qed.
Print Assumptions C10_zernike_fit_recovers.

Theorem C10_zernike_fit_linear :
  forall (fam : nat) (pts : list (R * R)) (N : nat) (a b : R) (z1 z2 c1 c2 chat : list R),
       injective_design (family_term fam) (family_indices fam) pts N ->
       Datatypes.length z1 = Datatypes.length pts ->
       Datatypes.length z2 = Datatypes.length pts ->
       lstsq_min (family_term fam) (family_indices fam) pts N c1 z1 ->
       lstsq_min (family_term fam) (family_indices fam) pts N c2 z2 ->
       lstsq_min (family_term fam) (family_indices fam) pts N chat (lincomb a b z1 z2) ->
       chat = lincomb a b c1 c2.
Proof. exact zernike_fit_linear. Qed.
Print Assumptions C10_zernike_fit_linear.

Theorem C10_zernike_fit_residual :
  forall (fam : nat) (pts : list (R * R)) (N : nat) (chat z c d : list R),
       Datatypes.length z = Datatypes.length pts ->
       lstsq_min (family_term fam) (family_indices fam) pts N chat z ->
       Datatypes.length c = N ->
       Datatypes.length d = N ->
       ss (resid (family_term fam) (family_indices fam) pts chat z) <=
       ss (resid (family_term fam) (family_indices fam) pts c z) /\
       dot (resid (family_term fam) (family_indices fam) pts chat z)
         (design (family_term fam) (family_indices fam) pts d) = 0.
Proof. exact zernike_fit_residual. Qed.
Print Assumptions C10_zernike_fit_residual.

Theorem C10_zernike_fit_recovers_pts :
  forall (fam : nat) (pts : list (R * R)) (N : nat) (c0 chat z : list R),
       (N <= Datatypes.length pts)%nat ->
       injective_design (family_term fam) (family_indices fam) pts N ->
       Datatypes.length c0 = N ->
       z = design (family_term fam) (family_indices fam) pts c0 ->
       lstsq_min (family_term fam) (family_indices fam) pts N chat z ->
       Datatypes.length chat = N /\ chat = c0.
Proof. exact zernike_fit_recovers_pts. Qed.
Print Assumptions C10_zernike_fit_recovers_pts.

From Coq Require Import Reals ZArith List String.
From OV Require Import Ops RInst XR Spec.S_C19 Model.M_C19 Model.Trace Gen.C19Arith Lemmas.L_C19 Lemmas.L_C19_Trace.
Local Open Scope R_scope.
Import ListNotations.

Theorem C19_dict_roundtrip_partial :
  forall (A : Type) (c_inf c_zero c_one c_tol c_m1 : A) (lower : string -> string)
         (catalog_file : string -> option string -> bool -> string) (I : impl)
         (apply_pickups : lens A -> lens A),
       dict_roundtrip (to_dict A c_inf c_zero c_one c_m1 catalog_file I)
         (from_dict A c_zero c_one c_tol lower I apply_pickups)
         (reloadable A lower I apply_pickups).
Proof. exact dict_roundtrip_partial. Qed.
Print Assumptions C19_dict_roundtrip_partial.

Theorem C19_file_roundtrip_partial :
  forall (A : Type) (c_inf c_zero c_one c_tol c_m1 : A) (lower : string -> string)
         (catalog_file : string -> option string -> bool -> string) (I : impl)
         (apply_pickups : lens A -> lens A),
       file_roundtrip (to_dict A c_inf c_zero c_one c_m1 catalog_file I)
         (from_dict A c_zero c_one c_tol lower I apply_pickups)
         (fun l : lens A => reloadable A lower I apply_pickups l /\ live_free I l = true).
Proof. exact file_roundtrip_partial. Qed.
Print Assumptions C19_file_roundtrip_partial.

Theorem C19_to_dict_json_safe_iff :
  forall (A : Type) (c_inf c_zero c_one c_m1 : A)
         (catalog_file : string -> option string -> bool -> string) (I : impl) 
         (l : lens A),
       json_safe (to_dict A c_inf c_zero c_one c_m1 catalog_file I l) = live_free I l.
Proof. exact to_dict_json_safe_iff. Qed.
Print Assumptions C19_to_dict_json_safe_iff.

Theorem C19_dict_fixpoint_partial :
  forall (A : Type) (c_inf c_zero c_one c_tol c_m1 : A) (lower : string -> string)
         (catalog_file : string -> option string -> bool -> string) (I : impl)
         (apply_pickups : lens A -> lens A),
       dict_fixpoint (to_dict A c_inf c_zero c_one c_m1 catalog_file I)
         (from_dict A c_zero c_one c_tol lower I apply_pickups)
         (reloadable A lower I apply_pickups).
Proof. exact dict_fixpoint_partial. Qed.
Print Assumptions C19_dict_fixpoint_partial.

Theorem C19_same_behaviour_partial :
  forall (A : Type) (c_inf c_zero c_one c_tol c_m1 : A) (lower : string -> string)
         (catalog_file : string -> option string -> bool -> string) (I : impl)
         (apply_pickups : lens A -> lens A),
       same_behaviour (to_dict A c_inf c_zero c_one c_m1 catalog_file I)
         (from_dict A c_zero c_one c_tol lower I apply_pickups)
         (reloadable A lower I apply_pickups).
Proof. exact same_behaviour_partial. Qed.
Print Assumptions C19_same_behaviour_partial.

Theorem C19_reload_traces_identically_partial :
  forall (O : Ops) (nk : material (T O) -> T O -> T O * T O) (c_inf c_zero c_one c_tol c_m1 : T O)
         (lower : string -> string) (catalog_file : string -> option string -> bool -> string)
         (I : impl) (apply_pickups : lens (T O) -> lens (T O)) (l l' : lens (T O))
         (w : T O) (r : ray O),
       reloadable (T O) lower I apply_pickups l ->
       from_dict (T O) c_zero c_one c_tol lower I apply_pickups
         (to_dict (T O) c_inf c_zero c_one c_m1 catalog_file I l) = Some l' ->
       trace (surfs_of nk w l') r = trace (surfs_of nk w l) r.
Proof. exact (@reload_traces_identically_partial). Qed.
Print Assumptions C19_reload_traces_identically_partial.

Theorem C19_to_dict_injective_partial :
  forall (A : Type) (c_inf c_zero c_one : A),
       A ->
       forall (c_m1 : A) (lower : string -> string)
         (catalog_file : string -> option string -> bool -> string) (I : impl)
         (apply_pickups : lens A -> lens A) (x y : lens A),
       reloadable A lower I apply_pickups x ->
       reloadable A lower I apply_pickups y ->
       to_dict A c_inf c_zero c_one c_m1 catalog_file I x =
       to_dict A c_inf c_zero c_one c_m1 catalog_file I y -> x = y.
Proof. exact to_dict_injective_partial. Qed.
Print Assumptions C19_to_dict_injective_partial.

Theorem C19_serialisable_after_edits :
  forall (A : Type) (c_inf c_zero c_one c_m1 : A)
         (catalog_file : string -> option string -> bool -> string) (I : impl) 
         (es : list (edit A)) (l : lens A),
       json_safe
         (to_dict A c_inf c_zero c_one c_m1 catalog_file I (fold_left (apply_edit A c_zero) es l)) =
       json_safe (to_dict A c_inf c_zero c_one c_m1 catalog_file I l).
Proof. exact serialisable_after_edits. Qed.
Print Assumptions C19_serialisable_after_edits.

Theorem C19_reloadable_after_edits_partial :
  forall (A : Type) (c_inf c_zero c_one c_tol c_m1 : A) (lower : string -> string)
         (catalog_file : string -> option string -> bool -> string) (I : impl) 
         (es : list (edit A)) (l : lens A),
       wf A lower l ->
       loadable I l = true ->
       plane_conic I = true \/ forallb (edit_plain A) es = true ->
       decode A c_zero c_one c_tol lower I
         (to_dict A c_inf c_zero c_one c_m1 catalog_file I (fold_left (apply_edit A c_zero) es l)) =
       Some (fold_left (apply_edit A c_zero) es l).
Proof. exact reloadable_after_edits. Qed.
Print Assumptions C19_reloadable_after_edits_partial.

Theorem C19_fixed_serialisable :
  forall (A : Type) (c_inf c_zero c_one c_m1 : A)
         (catalog_file : string -> option string -> bool -> string) (l : lens A),
       json_safe (to_dict A c_inf c_zero c_one c_m1 catalog_file impl_fixed l) = true.
Proof. exact fixed_serialisable. Qed.
Print Assumptions C19_fixed_serialisable.

Theorem C19_fixed_file_roundtrip :
  forall (A : Type) (c_inf c_zero c_one c_tol c_m1 : A) (lower : string -> string)
         (catalog_file : string -> option string -> bool -> string) (ap : lens A -> lens A)
         (l : lens A),
       wf A lower l ->
       match json_file_roundtrip (to_dict A c_inf c_zero c_one c_m1 catalog_file impl_fixed l) with
       | Some j => from_dict A c_zero c_one c_tol lower impl_fixed ap j
       | None => None
       end = Some l.
Proof. exact fixed_file_roundtrip. Qed.
Print Assumptions C19_fixed_file_roundtrip.

Theorem C19_decode_to_dict :
  forall (A : Type) (c_inf c_zero c_one c_tol c_m1 : A) (lower : string -> string)
         (catalog_file : string -> option string -> bool -> string) (I : impl) 
         (l : lens A),
       wf A lower l ->
       loadable I l = true ->
       decode A c_zero c_one c_tol lower I (to_dict A c_inf c_zero c_one c_m1 catalog_file I l) =
       Some l.
Proof. exact decode_to_dict. Qed.
Print Assumptions C19_decode_to_dict.

Theorem C19_replay_waves_id :
  forall (A : Type) (lower : string -> string) (ws : list (wavelength A)),
       waves_wf A lower ws -> replay_waves A lower (map (w_args A) ws) = ws.
Proof. exact replay_waves_id. Qed.
Print Assumptions C19_replay_waves_id.

Theorem C19_d_cs_e_cs :
  forall (A : Type) (c_zero : A) (c : cs A), d_cs A c_zero (e_cs A c) = Some c.
Proof. exact d_cs_e_cs. Qed.
Print Assumptions C19_d_cs_e_cs.

Theorem C19_coat_init_energy :
  forall t r : R,
       let '(t', r', a) := k_c19_coat_init ROps t r in t' = t /\ r' = r /\ (t' + r' + a)%R = 1%R.
Proof. exact coat_init_energy. Qed.
Print Assumptions C19_coat_init_energy.

Theorem C19_ap_scale_compose :
  forall s1 s2 a b : R,
       (let '(a1, b1) := k_c19_ap_scale ROps s1 a b in k_c19_ap_scale ROps s2 a1 b1) =
       k_c19_ap_scale ROps (s1 * s2)%R a b.
Proof. exact ap_scale_compose. Qed.
Print Assumptions C19_ap_scale_compose.

Theorem C19_ap_scale_inverse :
  forall s a b : R,
       s <> 0%R ->
       (let '(a1, b1) := k_c19_ap_scale ROps s a b in k_c19_ap_scale ROps (/ s)%R a1 b1) = (a, b).
Proof. exact ap_scale_inverse. Qed.
Print Assumptions C19_ap_scale_inverse.


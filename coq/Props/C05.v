From Coq Require Import Reals ZArith List String.
From OV Require Import Ops RInst XR Gen.RealRays Gen.Standard Spec.S_ABCD Spec.S_C05 Model.M_C05 Lemmas.L_C05_E2 Lemmas.L_C05_Link Lemmas.L_C05_Step Lemmas.L_C05_Chain Lemmas.L_C05_Cor.
From OV Require Model.Paraxial Lemmas.L_Paraxial.
Local Open Scope R_scope.
Import ListNotations.

Theorem C05_real_trace_converges :
  forall (N0 z0 : R) (mss : list (msurf XOps)) (rss : list rsurf) (ass : list asurf),
       wf_sys N0 z0 mss rss ass ->
       forall (F : R -> R * R * R * R) (h w : R),
       N0 = 1%R \/ N0 = (-1)%R ->
       fam_ok F h w N0 z0 ->
       exists C d : R,
         (0 <= C)%R /\
         (0 < d)%R /\
         (forall e : R,
          (Rabs e < d)%R ->
          e <> 0%R ->
          exists recs : list (R * R * R * R),
            mtrace mss (fin4 (F e)) = Some (map fin4 recs) /\
            Forall2 (rec_close C e) recs (par_trace ass (h, w, z0))).
Proof. exact real_trace_converges. Qed.
Print Assumptions C05_real_trace_converges.

Theorem C05_real_trace_converges_kernel :
  forall (N0 z0 : R) (mss : list (msurf XOps)) (rss : list rsurf) (ass : list asurf)
         (pss : list (Model.Paraxial.psurf XOps)),
       wf_sys N0 z0 mss rss ass ->
       Forall2 L_Paraxial.wf_surf pss ass ->
       forall (F : R -> R * R * R * R) (h w x0 : R),
       N0 = 1%R \/ N0 = (-1)%R ->
       fam_ok F h w N0 z0 ->
       Model.Paraxial.ptrace pss (Fin h, Fin w, Fin z0, Fin x0) =
         map L_Paraxial.finyu (par_trace ass (h, w, z0)) /\
       exists C d : R,
         (0 <= C)%R /\
         (0 < d)%R /\
         (forall e : R,
          (Rabs e < d)%R ->
          e <> 0%R ->
          exists recs : list (R * R * R * R),
            mtrace mss (fin4 (F e)) = Some (map fin4 recs) /\
            Forall2 (rec_close C e) recs (par_trace ass (h, w, z0))).
Proof. exact real_trace_converges_kernel. Qed.
Print Assumptions C05_real_trace_converges_kernel.

Theorem C05_rstep_conv :
  forall (N0 z0 : R) (ms : msurf XOps) (rs : rsurf) (a : asurf) (F : R -> R * R * R * R)
         (h w h1 w1 z1 : R),
       wf_surf N0 z0 ms rs a ->
       N0 = 1%R \/ N0 = (-1)%R ->
       fam_ok F h w N0 z0 ->
       par_step a (h, w, z0) = (h1, w1, z1) ->
       fam_ok (fun e : R => rstep rs (F e)) h1 w1 (next_N0 rs N0) z1 /\ z1 = r_z rs.
Proof. exact rstep_conv. Qed.
Print Assumptions C05_rstep_conv.

Theorem C05_mstep_fin :
  forall (N0 z0 : R) (ms : msurf XOps) (rs : rsurf) (a : asurf) (st : R * R * R * R),
       wf_surf N0 z0 ms rs a -> step_ok rs st -> mstep ms (fin4 st) = Some (fin4 (rstep rs st)).
Proof. exact mstep_fin. Qed.
Print Assumptions C05_mstep_fin.

Theorem C05_step_ok_ev :
  forall (N0 z0 : R) (ms : msurf XOps) (rs : rsurf) (a : asurf) (F : R -> R * R * R * R)
         (h w : R),
       wf_surf N0 z0 ms rs a ->
       N0 = 1%R \/ N0 = (-1)%R -> fam_ok F h w N0 z0 -> Ev (fun e : R => step_ok rs (F e)).
Proof. exact step_ok_ev. Qed.
Print Assumptions C05_step_ok_ev.

Theorem C05_select_root :
  forall k N M zl y Rc : R,
       (k * (N * N) + 0 * 0 + M * M + N * N)%R <> 0%R ->
       (0 <
        (2 * k * N * zl + 2 * 0 * 0 + 2 * M * y - 2 * N * Rc + 2 * N * zl) *
        (2 * k * N * zl + 2 * 0 * 0 + 2 * M * y - 2 * N * Rc + 2 * N * zl) -
        4 * (k * (N * N) + 0 * 0 + M * M + N * N) *
        (k * (zl * zl) - 2 * Rc * zl + 0 * 0 + y * y + zl * zl))%R ->
       N <> 0%R ->
       forall sg : R,
       sg = 1%R \/ sg = (-1)%R ->
       let tv :=
         ((- (2 * k * N * zl + 2 * 0 * 0 + 2 * M * y - 2 * N * Rc + 2 * N * zl) -
           sg *
           sqrt
             ((2 * k * N * zl + 2 * 0 * 0 + 2 * M * y - 2 * N * Rc + 2 * N * zl) *
              (2 * k * N * zl + 2 * 0 * 0 + 2 * M * y - 2 * N * Rc + 2 * N * zl) -
              4 * (k * (N * N) + 0 * 0 + M * M + N * N) *
              (k * (zl * zl) - 2 * Rc * zl + 0 * 0 + y * y + zl * zl))) /
          (2 * (k * (N * N) + 0 * 0 + M * M + N * N)))%R in
       let to :=
         ((- (2 * k * N * zl + 2 * 0 * 0 + 2 * M * y - 2 * N * Rc + 2 * N * zl) +
           sg *
           sqrt
             ((2 * k * N * zl + 2 * 0 * 0 + 2 * M * y - 2 * N * Rc + 2 * N * zl) *
              (2 * k * N * zl + 2 * 0 * 0 + 2 * M * y - 2 * N * Rc + 2 * N * zl) -
              4 * (k * (N * N) + 0 * 0 + M * M + N * N) *
              (k * (zl * zl) - 2 * Rc * zl + 0 * 0 + y * y + zl * zl))) /
          (2 * (k * (N * N) + 0 * 0 + M * M + N * N)))%R in
       (0 <= tv)%R ->
       (0 <= (Rc - (1 + k) * (zl + tv * N)) * Rc)%R ->
       (Rabs (zl + tv * N) < Rabs (zl + to * N))%R ->
       k_std_distance XOps (Fin k) (Fin N) (Fin 0) (Fin M) (Fin zl) (Fin 0) (Fin y) (Fin Rc) =
       Fin tv.
Proof. exact select_root. Qed.
Print Assumptions C05_select_root.

Theorem C05_aiming_limit :
  forall ya yb z0 z1 : R,
       (z0 < z1)%R ->
       fam_ok (fun e : R => rlaunch (e * ya) z0 (e * yb) z1) ya ((yb - ya) / (z1 - z0)) 1 z0.
Proof. exact aiming_limit. Qed.
Print Assumptions C05_aiming_limit.

Theorem C05_fam_collimated :
  forall h z0 : R, fam_ok (fun e : R => ((e * h)%R, z0, 0%R, 1%R)) h 0 1 z0.
Proof. exact fam_collimated. Qed.
Print Assumptions C05_fam_collimated.

Theorem C05_mlaunch_fin :
  forall y0 z0 y1 z1 : R,
       z0 <> z1 -> mlaunch (O:=XOps) (Fin y0) (Fin z0) (Fin y1) (Fin z1) = fin4 (rlaunch y0 z0 y1 z1).
Proof. exact mlaunch_fin. Qed.
Print Assumptions C05_mlaunch_fin.

Theorem C05_focus_converges :
  forall (Y U : R -> R) (h w : R),
       Od Y h ->
       Od U w ->
       w <> 0%R ->
       exists C d : R,
         (0 <= C)%R /\
         (0 < d)%R /\
         (forall e : R,
          (Rabs e < d)%R -> e <> 0%R -> (Rabs (- Y e / U e - - h / w) <= C * (e * e))%R).
Proof. exact focus_converges. Qed.
Print Assumptions C05_focus_converges.

Theorem C05_Od_scaled :
  forall (f : R -> R) (p : R),
       Od f p ->
       exists C d : R,
         (0 <= C)%R /\
         (0 < d)%R /\
         (forall e : R, e <> 0%R -> (Rabs e < d)%R -> (Rabs (f e / e - p) <= C * (e * e))%R).
Proof. exact Od_scaled. Qed.
Print Assumptions C05_Od_scaled.

Theorem C05_std_distance_odd :
  forall k N L M z x y Rc : R,
       k_std_distance XOps (Fin k) (Fin N) (Fin (- L)) (Fin (- M)) (Fin z) 
         (Fin (- x)) (Fin (- y)) (Fin Rc) =
       k_std_distance XOps (Fin k) (Fin N) (Fin L) (Fin M) (Fin z) (Fin x) (Fin y) (Fin Rc).
Proof. exact std_distance_odd. Qed.
Print Assumptions C05_std_distance_odd.

Theorem C05_std_normal_odd :
  forall (x y : R) (Rc k : T ROps),
       k_std_normal ROps (- x)%R (- y)%R Rc k =
       (let '(nx, ny, nz) := k_std_normal ROps x y Rc k in ((- nx)%R, (- ny)%R, nz)).
Proof. exact std_normal_odd. Qed.
Print Assumptions C05_std_normal_odd.

Theorem C05_refract_odd :
  forall (nx ny : R) (nz n1 n2 : T ROps) (L M : R) (N : T ROps),
       k_refract ROps (- nx)%R (- ny)%R nz n1 n2 (- L)%R (- M)%R N =
       (let '(a, b, c) := k_refract ROps nx ny nz n1 n2 L M N in ((- a)%R, (- b)%R, c)).
Proof. exact refract_odd. Qed.
Print Assumptions C05_refract_odd.

Theorem C05_reflect_odd :
  forall (nx ny : R) (nz : T ROps) (L M : R) (N : T ROps),
       k_reflect ROps (- nx)%R (- ny)%R nz (- L)%R (- M)%R N =
       (let '(a, b, c) := k_reflect ROps nx ny nz L M N in ((- a)%R, (- b)%R, c)).
Proof. exact reflect_odd. Qed.
Print Assumptions C05_reflect_odd.

Theorem C05_par_trace_is_atrace :
  forall (ss : list asurf) (st : R * R * R), par_trace ss st = L_Paraxial.atrace ss st.
Proof. exact par_trace_is_atrace. Qed.
Print Assumptions C05_par_trace_is_atrace.

Theorem C05_singlet_converges :
  exists C d, 0 <= C /\ 0 < d /\
    forall e, Rabs e < d -> e <> 0 ->
      exists recs,
        mtrace [mkMS (O:=XOps) (Fin 0) (MStd (O:=XOps) (Fin 50) (Fin 0)) (Fin 1) (Fin (3/2)) false;
                mkMS (O:=XOps) (Fin 4) (MStd (O:=XOps) (Fin (-50)) (Fin 0)) (Fin (3/2)) (Fin 1) false;
                mkMS (O:=XOps) (Fin 60) (MPlane (O:=XOps)) (Fin 1) (Fin 1) false]
               (fin4 (e * 5, -10, 0, 1)) = Some (map fin4 recs) /\
        Forall2 (rec_close C e) recs
          (par_trace [mkAS 0 (/ 50) 1 (3/2) false false; mkAS 4 (/ (-50)) (3/2) 1 false false;
                      mkAS 60 0 1 1 false false] (5, 0, -10)).
Proof. exact singlet_converges. Qed.
Print Assumptions C05_singlet_converges.

From Coq Require Import Reals ZArith List String.
From OV Require Import Ops RInst XR OpsC18 Spec.S_C18 Gen.Materials Model.M_C18 Lemmas.L_C18_formulas Lemmas.L_C18_interp Lemmas.L_C18_model Lemmas.L_C18_lookup.
Local Open Scope R_scope.
Import ListNotations.

Theorem C18_formula_1_spec :
  forall (O : Ops) (c : list (T O)) (w : T O), k_formula_1 O w c = spec_formula_1 c w.
Proof. exact formula_1_spec. Qed.
Print Assumptions C18_formula_1_spec.

Theorem C18_formula_2_spec :
  forall (O : Ops) (c : list (T O)) (w : T O), k_formula_2 O w c = spec_formula_2 c w.
Proof. exact formula_2_spec. Qed.
Print Assumptions C18_formula_2_spec.

Theorem C18_formula_3_spec :
  forall (O : Ops) (c : list (T O)) (w : T O), k_formula_3 O w c = spec_formula_3 c w.
Proof. exact formula_3_spec. Qed.
Print Assumptions C18_formula_3_spec.

Theorem C18_formula_4_spec :
  forall (O : Ops) (c : list (T O)) (w : T O), k_formula_4 O w c = spec_formula_4 c w.
Proof. exact formula_4_spec. Qed.
Print Assumptions C18_formula_4_spec.

Theorem C18_formula_5_spec :
  forall (O : Ops) (c : list (T O)) (w : T O), k_formula_5 O w c = spec_formula_5 c w.
Proof. exact formula_5_spec. Qed.
Print Assumptions C18_formula_5_spec.

Theorem C18_formula_6_spec :
  forall (c : list R) (w : R), k_formula_6 ROps w c = spec_formula_6 (O := ROps) c w.
Proof. exact formula_6_spec. Qed.
Print Assumptions C18_formula_6_spec.

Theorem C18_formula_7_spec :
  forall (O : Ops) (c : list (T O)) (w : T O), k_formula_7 O w c = spec_formula_7 c w.
Proof. exact formula_7_spec. Qed.
Print Assumptions C18_formula_7_spec.

Theorem C18_formula_8_spec :
  forall (O : Ops) (c : list (T O)) (w : T O), k_formula_8 O w c = spec_formula_8 c w.
Proof. exact formula_8_spec. Qed.
Print Assumptions C18_formula_8_spec.

Theorem C18_formula_9_spec :
  forall (O : Ops) (c : list (T O)) (w : T O), k_formula_9 O w c = spec_formula_9 c w.
Proof. exact formula_9_spec. Qed.
Print Assumptions C18_formula_9_spec.

Theorem C18_formula_1_sellmeier :
  forall (c1 : R) (ps : list (R * R)) (w n : T ROps),
       k_formula_1 ROps w (c1 :: flat ps) = Some n ->
       (0 <= 1 + c1 + Rsum (map (fun p : R * R => fst p * (w * w) / (w * w - snd p * snd p)) ps))%R ->
       (0 <= n)%R /\
       (n * n - 1)%R =
       (c1 + Rsum (map (fun p : R * R => fst p * (w * w) / (w * w - snd p * snd p)) ps))%R.
Proof. exact formula_1_sellmeier. Qed.
Print Assumptions C18_formula_1_sellmeier.

Theorem C18_formula_2_sellmeier :
  forall (c1 : R) (ps : list (R * R)) (w n : T ROps),
       k_formula_2 ROps w (c1 :: flat ps) = Some n ->
       (0 <= 1 + c1 + Rsum (map (fun p : R * R => fst p * (w * w) / (w * w - snd p)) ps))%R ->
       (0 <= n)%R /\
       (n * n - 1)%R = (c1 + Rsum (map (fun p : R * R => fst p * (w * w) / (w * w - snd p)) ps))%R.
Proof. exact formula_2_sellmeier. Qed.
Print Assumptions C18_formula_2_sellmeier.

Theorem C18_formula_8_lorentz :
  forall c1 c2 c3 c4 w n : T ROps,
       k_formula_8 ROps w (c1 :: c2 :: c3 :: c4 :: nil) = Some n ->
       let b := (c1 + c2 * (w * w) / (w * w - c3) + c4 * (w * w))%R in
       b <> 1%R -> (0 <= (1 + 2 * b) / (1 - b))%R -> ((n * n - 1) / (n * n + 2))%R = b.
Proof. exact formula_8_lorentz. Qed.
Print Assumptions C18_formula_8_lorentz.

Theorem C18_tabulated_n_spec :
  forall (tbl : list (R * R)) (w : R),
       tbl <> nil ->
       increasing tbl -> k_tabulated_n ROps w (map fst tbl) (map snd tbl) = lin_interp (O := ROps) tbl w.
Proof. exact tabulated_n_spec. Qed.
Print Assumptions C18_tabulated_n_spec.

Theorem C18_extinction_k_spec :
  forall (tbl : list (R * R)) (w : R),
       tbl <> nil ->
       increasing tbl -> k_mat_k ROps w (map fst tbl) (map snd tbl) = lin_interp (O := ROps) tbl w.
Proof. exact extinction_k_spec. Qed.
Print Assumptions C18_extinction_k_spec.

Theorem C18_interp_is_linear :
  forall (tbl : list (R * R)) (x : R),
       tbl <> nil -> increasing tbl -> Some (interp_pairs (O := ROps) x tbl) = lin_interp (O := ROps) tbl x.
Proof. exact interp_is_linear. Qed.
Print Assumptions C18_interp_is_linear.

Theorem C18_lin_interp_segment :
  forall (pre : list (R * R)) (xa fa xb fb : R) (post : list (R * R)) (x : R),
       increasing (pre ++ (xa, fa) :: (xb, fb) :: post) ->
       (xa <= x < xb)%R ->
       lin_interp (O := ROps) (pre ++ (xa, fa) :: (xb, fb) :: post) x =
       Some (fa + (fb - fa) / (xb - xa) * (x - xa))%R.
Proof. exact lin_interp_segment. Qed.
Print Assumptions C18_lin_interp_segment.

Theorem C18_lin_interp_knot :
  forall (pre : list (R * R)) (xa fa xb fb : R) (post : list (R * R)),
       increasing (pre ++ (xa, fa) :: (xb, fb) :: post) ->
       lin_interp (O := ROps) (pre ++ (xa, fa) :: (xb, fb) :: post) xa = Some fa.
Proof. exact lin_interp_knot. Qed.
Print Assumptions C18_lin_interp_knot.

Theorem C18_lin_interp_clamp_low :
  forall (x0 : R) (f0 : T ROps) (rest : list (R * T ROps)) (x : R),
       (x <= x0)%R -> lin_interp (O := ROps) ((x0, f0) :: rest) x = Some f0.
Proof. exact lin_interp_clamp_low. Qed.
Print Assumptions C18_lin_interp_clamp_low.

Theorem C18_lin_interp_clamp_high :
  forall (x0 f0 : R) (rest : list (R * R)) (x xl fl : R),
       increasing ((x0, f0) :: rest) ->
       last ((x0, f0) :: rest) (x0, f0) = (xl, fl) ->
       (xl <= x)%R -> lin_interp (O := ROps) ((x0, f0) :: rest) x = Some fl.
Proof. exact lin_interp_clamp_high. Qed.
Print Assumptions C18_lin_interp_clamp_high.

Theorem C18_file_index_correct :
  forall (secs : list Rsection) (s : Rsection) (w : R),
       filter (defines_n (O := ROps)) secs = s :: nil ->
       table_ok s -> file_n (O := ROps) secs w = file_index (O := ROps) secs w /\ file_index (O := ROps) secs w = section_n (O := ROps) s w.
Proof. exact file_index_correct. Qed.
Print Assumptions C18_file_index_correct.

Theorem C18_abbe_definition :
  forall (O : Ops) (n : T O -> T O),
       k_abbe O n = spec_abbe (n (line_d O)) (n (line_F O)) (n (line_C O)).
Proof. exact abbe_definition. Qed.
Print Assumptions C18_abbe_definition.

Theorem C18_abbe_number :
  forall n : R -> R, k_abbe ROps n = ((n 0.5875618 - 1) / (n 0.4861327 - n 0.6562725))%R.
Proof. exact abbe_number. Qed.
Print Assumptions C18_abbe_number.

Theorem C18_model_glass_polynomial :
  forall (p : list R) (w : R), k_abbe_n ROps w p = spec_poly (O := ROps) p w.
Proof. exact model_glass_polynomial. Qed.
Print Assumptions C18_model_glass_polynomial.

Theorem C18_lev_is_levS :
  forall s t : str, lev s t = levS (rev s) (rev t).
Proof. exact lev_is_levS. Qed.
Print Assumptions C18_lev_is_levS.

Theorem C18_levenshtein_zero_iff_eq :
  forall s t : str, lev s t = 0%Z <-> s = t.
Proof. exact levenshtein_zero_iff_eq. Qed.
Print Assumptions C18_levenshtein_zero_iff_eq.

Theorem C18_exact_lookup_partial :
  forall (rows : list row) (q : str) (oref : option str) (r : row),
       In r rows ->
       r_cat r = q \/ r_name r = q ->
       ref_hit oref r = true ->
       exists r' : row,
         lookup q oref rows = Some r' /\
         In r' rows /\
         ref_hit oref r' = true /\ score q r' = 0%Z /\ (r_cat r' = q \/ r_name r' = q).
Proof. exact exact_lookup_partial. Qed.
Print Assumptions C18_exact_lookup_partial.

Theorem C18_exact_lookup_any_sort_partial :
  forall (rows sorted : list row) (q : str) (oref : option str) (r : row),
       In r rows ->
       r_cat r = q \/ r_name r = q ->
       ref_hit oref r = true ->
       Permutation.Permutation sorted (candidates q oref rows) ->
       Sorted.StronglySorted (fun a b : row => (score q a <= score q b)%Z) sorted ->
       exists r' : row,
         hd_error sorted = Some r' /\
         In r' rows /\ score q r' = 0%Z /\ (r_cat r' = q \/ r_name r' = q).
Proof. exact exact_lookup_any_sort_partial. Qed.
Print Assumptions C18_exact_lookup_any_sort_partial.


From Coq Require Import Reals ZArith List String.
From OV Require Import Ops RInst XR Spec.S_C11_DFT Model.M_C11 Gen.PsfMtf Lemmas.L_C11_Complex Lemmas.L_C11 Lemmas.L_C11_Kernels.
Import ListNotations.

Theorem C11_psf_is_sqmod_dft :
  forall (M : nat) (Pp : list (list RC)) (norm : R) (i j : nat),
       psf_at (O:=ROps) M Pp norm i j = psf_spec (wN M) M (get2 (O:=ROps) Pp) norm (unshift M i) (unshift M j).
Proof. exact psf_is_sqmod_dft. Qed.
Print Assumptions C11_psf_is_sqmod_dft.

Theorem C11_psf_nonneg :
  forall (M : nat) (Pp : list (list RC)) (norm : R) (i j : nat),
       (0 < norm)%R -> (0 <= psf_at (O:=ROps) M Pp norm i j)%R.
Proof. exact psf_nonneg. Qed.
Print Assumptions C11_psf_nonneg.

Theorem C11_peak_bound :
  forall (M : nat) (P : nat -> nat -> RC) (k l : nat),
       1 <= M -> (Cn2 (S_C11_DFT.dft2 (wN M) M P k l) <= norm_spec M P)%R.
Proof. exact peak_bound. Qed.
Print Assumptions C11_peak_bound.

Theorem C11_unaberrated_peak_100 :
  forall (M : nat) (a : nat -> nat -> R),
       1 <= M ->
       (forall m n : nat, (0 <= a m n)%R) ->
       (0 < norm_spec M (fun m n : nat => RtoC (a m n)))%R ->
       psf_spec (wN M) M (fun m n : nat => RtoC (a m n))
         (norm_spec M (fun m n : nat => RtoC (a m n))) (unshift M (M / 2)) 
         (unshift M (M / 2)) = 100%R.
Proof. exact unaberrated_peak_100. Qed.
Print Assumptions C11_unaberrated_peak_100.

Theorem C11_psf_le_100 :
  forall (M : nat) (P : nat -> nat -> RC) (k l : nat),
       1 <= M -> (0 < norm_spec M P)%R -> (psf_spec (wN M) M P (norm_spec M P) k l <= 100)%R.
Proof. exact psf_le_100. Qed.
Print Assumptions C11_psf_le_100.

Theorem C11_strehl_le_one_partial :
  forall (M : nat) (Pp : list (list RC)) (norm : R),
       1 <= M ->
       (0 < norm)%R ->
       norm = norm_spec M (get2 (O:=ROps) Pp) -> forall i j : nat, (psf_at (O:=ROps) M Pp norm i j / 100 <= 1)%R.
Proof. exact strehl_le_one_partial. Qed.
Print Assumptions C11_strehl_le_one_partial.

Theorem C11_amp_sum :
  forall (I : nat -> R) (K : nat),
       1 <= K -> Rsum I K <> 0%R -> Rsum (fun j : nat => (I j / (Rsum I K / INR K))%R) K = INR K.
Proof. exact amp_sum. Qed.
Print Assumptions C11_amp_sum.

Theorem C11_parseval :
  forall (M : nat) (P : nat -> nat -> RC),
       1 <= M ->
       energy2 M (fun k l : nat => Cn2 (S_C11_DFT.dft2 (wN M) M P k l)) =
       (INR M * INR M * energy2 M (fun m n : nat => Cn2 (P m n)))%R.
Proof. exact parseval. Qed.
Print Assumptions C11_parseval.

Theorem C11_psf_energy_aberration_independent :
  forall (M : nat) (a opd1 opd2 : nat -> nat -> R) (norm : R),
       1 <= M ->
       energy2 M (psf_spec (wN M) M (fun m n : nat => pupil_sample (a m n) (opd1 m n)) norm) =
       energy2 M (psf_spec (wN M) M (fun m n : nat => pupil_sample (a m n) (opd2 m n)) norm).
Proof. exact psf_energy_aberration_independent. Qed.
Print Assumptions C11_psf_energy_aberration_independent.

Theorem C11_mtf_bounds :
  forall (M : nat) (psf : nat -> nat -> R) (k l : nat),
       1 <= M ->
       (forall m n : nat, (0 <= psf m n)%R) ->
       (0 < Cmod (S_C11_DFT.dft2 (wN M) M (fun m n : nat => RtoC (psf m n)) 0 0))%R ->
       mtf_spec (wN M) M psf 0 0 = 1%R /\ (0 <= mtf_spec (wN M) M psf k l <= 1)%R.
Proof. exact mtf_bounds. Qed.
Print Assumptions C11_mtf_bounds.

Theorem C11_mtf_tan_bounds :
  forall (g : nat) (psf : list (list R)),
       let M := Datatypes.length psf in
       1 <= M ->
       g / 2 = M / 2 ->
       (forall m n : nat, (0 <= rget2 (O:=ROps) psf m n)%R) ->
       (0 < Cmod (S_C11_DFT.dft2 (wN M) M (fun m n : nat => RtoC (rget2 (O:=ROps) psf m n)) 0 0))%R ->
       nth 0 (mtf_tan (O:=ROps) g psf) 0%R = 1%R /\
       (forall v : T ROps, In v (mtf_tan (O:=ROps) g psf) -> (0 <= v <= 1)%R).
Proof. exact mtf_tan_bounds. Qed.
Print Assumptions C11_mtf_tan_bounds.

Theorem C11_autocorr_1d_wN :
  forall (N : nat) (x : nat -> RC) (s : nat),
       1 <= N ->
       dft (wN N) N (fun k : nat => RtoC (Cn2 (dft (wN N) N x k))) s =
       Cmul (RtoC (INR N)) (Csum (fun n : nat => Cmul (x n) (Cconj (x ((n + s) mod N)))) N).
Proof. exact autocorr_1d_wN. Qed.
Print Assumptions C11_autocorr_1d_wN.

Theorem C11_mtf_le_diffraction_limit_1d :
  forall (N : nat) (a opd : nat -> R) (s : nat),
       1 <= N ->
       (forall n : nat, (0 <= a n)%R) ->
       let otf :=
         fun (x : nat -> RC) (s0 : nat) =>
         dft (wN N) N (fun k : nat => RtoC (Cn2 (dft (wN N) N x k))) s0 in
       (Cmod (otf (fun n : nat => pupil_sample (a n) (opd n)) s) <=
        Cmod (otf (fun n : nat => RtoC (a n)) s))%R /\
       otf (fun n : nat => pupil_sample (a n) (opd n)) 0 = otf (fun n : nat => RtoC (a n)) 0.
Proof. exact mtf_le_diffraction_limit_1d. Qed.
Print Assumptions C11_mtf_le_diffraction_limit_1d.

Theorem C11_difflim_spec :
  forall nu : R, (-1 <= nu <= 1)%R -> difflim (O:=ROps) nu = diff_limit nu.
Proof. exact difflim_spec. Qed.
Print Assumptions C11_difflim_spec.

Theorem C11_diff_limit_0 :
  diff_limit 0 = 1%R.
Proof. exact diff_limit_0. Qed.
Print Assumptions C11_diff_limit_0.

Theorem C11_diff_limit_1 :
  diff_limit 1 = 0%R.
Proof. exact diff_limit_1. Qed.
Print Assumptions C11_diff_limit_1.

Theorem C11_diff_limit_bounds :
  forall nu : R, (0 <= nu <= 1)%R -> (0 <= diff_limit nu <= 1)%R.
Proof. exact diff_limit_bounds. Qed.
Print Assumptions C11_diff_limit_bounds.

Theorem C11_freq_axis_cutoff :
  forall grid num_rays wavelength fno : R,
       grid <> 0%R ->
       num_rays <> 0%R ->
       wavelength <> 0%R ->
       fno <> 0%R ->
       (num_rays * freq_step_model (O:=ROps) grid num_rays wavelength fno)%R = cutoff_mm wavelength fno /\
       freq_step_model (O:=ROps) grid num_rays wavelength fno =
       freq_step_mm grid (wavelength * fno / (grid / num_rays)).
Proof. exact freq_axis_cutoff. Qed.
Print Assumptions C11_freq_axis_cutoff.

Theorem C11_psf_units_cutoff :
  forall (fno xpd epd m lam : R) (inf : bool) (g n sx sy : Z),
       let wf := k_mtf_fno ROps fno inf xpd epd m in
       let xy := k_psf_units ROps fno inf xpd epd m g n (lam :: nil) (sy :: sx :: nil) in
       IZR g <> 0%R ->
       IZR n <> 0%R ->
       lam <> 0%R ->
       wf <> 0%R ->
       IZR sx <> 0%R ->
       IZR sy <> 0%R ->
       (fst xy / IZR sx)%R = (lam * wf / (IZR g / IZR n))%R /\
       (snd xy / IZR sy)%R = (lam * wf / (IZR g / IZR n))%R /\
       (IZR n * freq_step_mm (IZR g) (fst xy / IZR sx))%R = cutoff_mm lam wf.
Proof. exact psf_units_cutoff. Qed.
Print Assumptions C11_psf_units_cutoff.

Theorem C11_working_fno :
  forall (fno xpd epd m : R) (inf : bool),
       k_mtf_fno ROps fno inf xpd epd m =
       (if inf then fno else (fno * (1 + Rabs m / (xpd / epd)))%R).
Proof. exact working_fno. Qed.
Print Assumptions C11_working_fno.

Theorem C11_strehl_kernel :
  forall (psf : list (list R)) (g : Z),
       (k_strehl ROps psf g * 100)%R = get2Z (O:=ROps) psf (g / 2) (g / 2).
Proof. exact strehl_kernel. Qed.
Print Assumptions C11_strehl_kernel.

Theorem C11_geo_mtf_is_ft_of_lsf :
  forall (A x : nat -> R) (nb : nat) (dx v scale : R),
       dx <> 0%R ->
       (0 < Rsum A nb)%R -> geo_mtf_xs (O:=ROps) A x nb dx v scale = (geo_mtf_spec A x nb v * scale)%R.
Proof. exact geo_mtf_is_ft_of_lsf. Qed.
Print Assumptions C11_geo_mtf_is_ft_of_lsf.

Theorem C11_geo_mtf_bounds :
  forall (A x : nat -> R) (nb : nat) (v : R),
       (forall b : nat, (0 <= A b)%R) ->
       (0 < Rsum A nb)%R -> (0 <= geo_mtf_spec A x nb v <= 1)%R /\ geo_mtf_spec A x nb 0 = 1%R.
Proof. exact geo_mtf_bounds. Qed.
Print Assumptions C11_geo_mtf_bounds.

Theorem C11_pad_size_even :
  forall grid n : Z,
       (0 < n <= grid)%Z ->
       ((grid - n) mod 2)%Z = 0%Z -> centred_pad_ok grid n (padded_size grid n).
Proof. exact pad_size_even. Qed.
Print Assumptions C11_pad_size_even.

Theorem C11_pad_size_odd :
  forall grid n : Z,
       (0 < n <= grid)%Z -> ((grid - n) mod 2)%Z = 1%Z -> padded_size grid n = (grid - 1)%Z.
Proof. exact pad_size_odd. Qed.
Print Assumptions C11_pad_size_odd.

Theorem C11_wN_prim_root :
  forall N : nat, 1 <= N -> prim_root (wN N) N.
Proof. exact wN_prim_root. Qed.
Print Assumptions C11_wN_prim_root.


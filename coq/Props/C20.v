From Coq Require Import Reals ZArith List String Bool.
From OV Require Import Ops RInst XR Gen.Zemax Model.M_C20 Spec.S_C20 Lemmas.L_C20 Lemmas.L_C20_xr Lemmas.L_C20_kernels.
Import ListNotations.
Local Open Scope string_scope.
Local Open Scope list_scope.

(** Loading the text [emit p] of ANY well-formed prescription [p] (any number of STANDARD / EVENASPH surfaces,
    finite or INFINITY thicknesses, zero or non-zero curvatures, ENPD / FNUM / OBNA, angle or height fields,
    any number of wavelengths, unused XFLN/YFLN/WAVM entries) yields exactly the lens [lens_of p]: surface
    count, shapes (CURV 0 -> plane, else radius 1/c; conic; PARM n -> coefficient n), vertex positions (running
    sum of the thicknesses), stop, media, aperture, field type and field points, wavelengths, primary index.
    _partial: [wf] asks that the last SURF block is a plain image plane (finding D22) and that the catalogue
    lookup finds exactly the catalogue names (finding D21). *)
Theorem C20_import_roundtrip_partial :
  forall (O : Ops) (show : T O -> string) (showZ : Z -> string)
         (resolve : string -> option string -> bool) (p : @presc O),
    @wf O show resolve p ->
    @load O resolve (@emit O show showZ p) = Some (@lens_of O p).
Proof. exact @import_roundtrip. Qed.
Print Assumptions C20_import_roundtrip_partial.

Theorem C20_import_roundtrip_xr_partial :
  forall (show : xR -> string) (showZ : Z -> string)
         (resolve : string -> option string -> bool) (p : @presc XOps),
    (forall x, (show x =? "INFINITY") = false) ->
    p_fields p <> [] ->
    (1 <= p_prim p <= Z.of_nat (List.length (p_waves p)))%Z ->
    p_stop (p_obj p) = false ->
    one_stop (p_obj p :: p_mids p) ->
    Forall all_finite (p_obj p :: p_mids p) ->
    Forall (glass_ok resolve (p_gcat p)) (p_obj p :: p_mids p) ->
    plain_image (p_img p) ->
    @load XOps resolve (@emit XOps show showZ p) = Some (@lens_of XOps p).
Proof. exact import_roundtrip_xr. Qed.
Print Assumptions C20_import_roundtrip_xr_partial.

Theorem C20_import_paraxial_partial :
  forall (O : Ops) (show : T O -> string) (showZ : Z -> string)
         (resolve : string -> option string -> bool) (p : @presc O) (n : @lmedium O -> T O) (l : @lens O),
    @wf O show resolve p -> @load O resolve (@emit O show showZ p) = Some l ->
    @paraxial_ray O n l = @paraxial_ray O n (@lens_of O p).
Proof. exact @import_paraxial. Qed.
Print Assumptions C20_import_paraxial_partial.

Theorem C20_nonsequential_rejected :
  forall (O : Ops) (resolve : string -> option string -> bool) (pre post : list (list (@tok O)))
         (m w : @tok O) (more : list (@tok O)),
    txt m = "MODE" -> (txt w =? "SEQ") = false ->
    @load O resolve (pre ++ (m :: w :: more) :: post) = None.
Proof. exact @nonsequential_rejected. Qed.
Print Assumptions C20_nonsequential_rejected.

Theorem C20_unknown_operand_ignored :
  forall (O : Ops) (resolve : string -> option string -> bool) (pre post : list (list (@tok O)))
         (d : list (@tok O)) (st : @rstate O),
    match d with [] => True | t :: _ => existsb (String.eqb (txt t)) operands = false end ->
    @read_lines O resolve (pre ++ d :: post) st = @read_lines O resolve (pre ++ post) st.
Proof. exact @unknown_operand_ignored. Qed.
Print Assumptions C20_unknown_operand_ignored.

Theorem C20_glass_resolution :
  forall (O : Ops) (resolve : string -> option string -> bool) (name : string) (gcat : option (list string))
         (nd vd : T O),
    (resolve name None = true -> @resolve_glass O resolve name gcat nd vd = MCat name None) /\
    (resolve name None = false ->
     match gcat with Some cs => Forall (fun m => resolve name (Some m) = false) cs | None => True end ->
     @resolve_glass O resolve name gcat nd vd = MAbbe nd vd).
Proof. exact @glass_resolution. Qed.
Print Assumptions C20_glass_resolution.

Theorem C20_radius_finite :
  forall c : R, c <> 0%R -> @radius_of_curv XOps (Fin c) = Fin (1 / c)%R.
Proof. exact xr_radius_finite. Qed.
Print Assumptions C20_radius_finite.

Theorem C20_radius_zero : @radius_of_curv XOps (Fin 0) = PInf.
Proof. exact xr_radius_zero. Qed.
Print Assumptions C20_radius_zero.

(** the regenerated handler kernels are what the model's handlers compute *)
Theorem C20_kernel_radius :
  forall (O : Ops) (op c : T O) (rest : list (T O)), k_zmx_radius O (op :: c :: rest) = @radius_of_curv O c.
Proof. exact @kernel_radius. Qed.
Print Assumptions C20_kernel_radius.

Theorem C20_kernel_conic :
  forall (O : Ops) (op c : T O) (rest : list (T O)), k_zmx_conic O (op :: c :: rest) = c.
Proof. exact @kernel_conic. Qed.
Print Assumptions C20_kernel_conic.

Theorem C20_kernel_config :
  forall (O : Ops) (z0 z1 z2 z3 z4 z5 z6 z7 : Z) (rest : list Z),
    k_zmx_config O (z0 :: z1 :: z2 :: z3 :: z4 :: z5 :: z6 :: z7 :: rest)
    = (z3, ftype_name z1, z4, (z2 =? 1)%Z, (z7 =? 1)%Z).
Proof. exact @kernel_config. Qed.
Print Assumptions C20_kernel_config.

Theorem C20_kernel_primary :
  forall (O : Ops) (op p : Z) (rest : list Z), k_zmx_primary O (op :: p :: rest) = (p - 1)%Z.
Proof. exact @kernel_primary. Qed.
Print Assumptions C20_kernel_primary.

Theorem C20_kernel_wavelength :
  forall (O : Ops) (a b w : T O) (rest : list (T O)) (nw : Z) (wd : list (T O)),
    k_zmx_wavelength O (a :: b :: w :: rest) nw wd
    = if (Z.of_nat (List.length wd) <? nw)%Z then wd ++ [w] else wd.
Proof. exact @kernel_wavelength. Qed.
Print Assumptions C20_kernel_wavelength.

Theorem C20_kernel_fields :
  forall (O : Ops) (d : list (T O)) (nf : Z),
    k_zmx_xfields O d nf = sliceZ d 1 (Some (nf + 1)%Z) /\ k_zmx_yfields O d nf = sliceZ d 1 (Some (nf + 1)%Z).
Proof. exact @kernel_fields. Qed.
Print Assumptions C20_kernel_fields.

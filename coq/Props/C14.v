From Coq Require Import Reals ZArith List String.
From OV Require Import Ops RInst XR Gen.OptVars Model.M_C14 Spec.S_C14 Lemmas.L_C14.
Local Open Scope R_scope.
Import ListNotations.
Notation trace := (@trace ROps).
Notation operand := (@operand ROps).
Notation cmd := (@cmd ROps).
Notation pickup := (@pickup ROps).

Theorem C14_scale_roundtrips :
  (forall x : T ROps,
        k_radius_inverse_scale ROps (k_radius_scale ROps x) = x /\
        k_radius_scale ROps (k_radius_inverse_scale ROps x) = x) /\
       (forall x : T ROps,
        k_thickness_inverse_scale ROps (k_thickness_scale ROps x) = x /\
        k_thickness_scale ROps (k_thickness_inverse_scale ROps x) = x) /\
       (forall x : T ROps,
        k_index_inverse_scale ROps (k_index_scale ROps x) = x /\
        k_index_scale ROps (k_index_inverse_scale ROps x) = x) /\
       (forall (k : Z) (x : T ROps),
        (0 <= k)%Z ->
        k_asphere_inverse_scale ROps (k_asphere_scale ROps x k) k = x /\
        k_asphere_scale ROps (k_asphere_inverse_scale ROps x k) k = x) /\
       (forall x : T ROps,
        k_conic_inverse_scale ROps (k_conic_scale ROps x) = x /\
        k_tilt_inverse_scale ROps (k_tilt_scale ROps x) = x /\
        k_decenter_inverse_scale ROps (k_decenter_scale ROps x) = x /\
        k_poly_inverse_scale ROps (k_poly_scale ROps x) = x /\
        k_base_inverse_scale ROps (k_base_scale ROps x) = x).
Proof. exact scale_roundtrips. Qed.
Print Assumptions C14_scale_roundtrips.

Theorem C14_scale_units :
  (forall r : T ROps, k_radius_scale ROps r = radius_units r) /\
       (forall t : T ROps, k_thickness_scale ROps t = thickness_units t) /\
       (forall n : T ROps, k_index_scale ROps n = index_units n) /\
       (forall (k : Z) (c : T ROps), k_asphere_scale ROps c k = asphere_units k c).
Proof. exact scale_units. Qed.
Print Assumptions C14_scale_units.

Theorem C14_scale_mono :
  forall (v : var) (x y : R), var_ok v -> (x <= y)%R <-> (scale_of v x <= scale_of v y)%R.
Proof. exact scale_mono. Qed.
Print Assumptions C14_scale_mono.

Theorem C14_faithful_handle :
  (forall (v : var) (x : R) (s : store), var_ok v -> var_get (var_set v x s) v = x) /\
       (forall (v w : var) (x : R) (s : store),
        vcoord w <> vcoord v -> var_get (var_set v x s) w = var_get s w) /\
       (forall (v : var) (x : R),
        var_ok v -> inverse_of v (scale_of v x) = x /\ scale_of v (inverse_of v x) = x).
Proof. exact faithful_handle. Qed.
Print Assumptions C14_faithful_handle.

Theorem C14_bounds_in_value_units :
  (forall (v : var) (s : store),
        var_ok v -> within (bounds_spec v) (var_get s v) <-> raw_within v (s (vcoord v))) /\
       (forall v : var, vscaled v = true -> bounds_impl v = bounds_spec v) /\
       (forall v : var,
        match vkind_ v with
        | KRadius | KThickness | KIndex | KAsphere => False
        | _ => True
        end -> bounds_impl v = bounds_spec v).
Proof. exact bounds_in_value_units. Qed.
Print Assumptions C14_bounds_in_value_units.

Theorem C14_merit_function :
  (forall l : list (R * R * R), @sum_squared ROps l = merit_spec l) /\
       (forall l : list (R * R * R), @fun_guard ROps (@sum_squared ROps l) = merit_spec l).
Proof. exact merit_function. Qed.
Print Assumptions C14_merit_function.

Theorem C14_fixed_state_is_returned_solution :
  forall (upd : store -> store) (tgt : coord -> bool),
       (forall (s : store) (c : coord), tgt c = false -> upd s c = s c) ->
       forall vars : list var,
       Forall var_ok vars ->
       NoDup (map vcoord vars) ->
       (forall v : var, In v vars -> tgt (vcoord v) = false) ->
       forall (tr : trace) (xstar : list (T ROps)) (s : store),
       Datatypes.length xstar = Datatypes.length vars ->
       getv vars (optimize_fixed upd vars tr xstar s) = xstar.
Proof. exact fixed_state_is_returned_solution. Qed.
Print Assumptions C14_fixed_state_is_returned_solution.

Theorem C14_fixed_merit_is_returned_objective :
  forall (upd : store -> store) (tgt : coord -> bool),
       (forall (s : store) (c : coord), tgt c = false -> upd s c = s c) ->
       (forall s s' : store, (forall c : coord, tgt c = false -> s c = s' c) -> upd s = upd s') ->
       forall (vars : list var) (ops : list operand) (tr : trace) (xstar : list (T ROps))
         (fstar : T ROps) (s s' : store),
       Datatypes.length xstar = Datatypes.length vars ->
       frame_eq tgt vars s s' ->
       fstar = @fun_guard ROps (merit ops (eval_point upd vars xstar s')) ->
       @fun_guard ROps (merit ops (optimize_fixed upd vars tr xstar s)) = fstar.
Proof. exact fixed_merit_is_returned_objective. Qed.
Print Assumptions C14_fixed_merit_is_returned_objective.

Theorem C14_fixed_not_worse :
  forall (upd : store -> store) (tgt : coord -> bool),
       (forall (s : store) (c : coord), tgt c = false -> upd s c = s c) ->
       (forall s s' : store, (forall c : coord, tgt c = false -> s c = s' c) -> upd s = upd s') ->
       forall vars : list var,
       Forall var_ok vars ->
       forall (ops : list operand) (tr : trace) (xstar : list (T ROps)) 
         (fstar f0 : T ROps) (s s' s'' : store),
       Datatypes.length xstar = Datatypes.length vars ->
       sat upd s ->
       frame_eq tgt vars s s' ->
       frame_eq tgt vars s s'' ->
       fstar = merit ops (eval_point upd vars xstar s') ->
       f0 = merit ops (eval_point upd vars (getv vars s) s'') ->
       (fstar <= f0)%R -> (merit ops (optimize_fixed upd vars tr xstar s) <= merit ops s)%R.
Proof. exact fixed_not_worse. Qed.
Print Assumptions C14_fixed_not_worse.

Theorem C14_fixed_within_bounds :
  forall (upd : store -> store) (tgt : coord -> bool),
       (forall (s : store) (c : coord), tgt c = false -> upd s c = s c) ->
       forall vars : list var,
       Forall var_ok vars ->
       NoDup (map vcoord vars) ->
       (forall v : var, In v vars -> tgt (vcoord v) = false) ->
       forall (tr : trace) (xstar : list R) (s : store),
       Datatypes.length xstar = Datatypes.length vars ->
       Forall2 (fun (v : var) (x : R) => within (bounds_spec v) x) vars xstar ->
       Forall (fun v : var => raw_within v (optimize_fixed upd vars tr xstar s (vcoord v))) vars.
Proof. exact fixed_within_bounds. Qed.
Print Assumptions C14_fixed_within_bounds.

Theorem C14_fixed_pickups_solves_satisfied :
  forall (upd : store -> store) (tgt : coord -> bool),
       (forall (s : store) (c : coord), tgt c = false -> upd s c = s c) ->
       (forall s s' : store, (forall c : coord, tgt c = false -> s c = s' c) -> upd s = upd s') ->
       forall (vars : list var) (tr : trace) (xstar : list (T ROps)) (s : store),
       sat upd (optimize_fixed upd vars tr xstar s).
Proof. exact fixed_pickups_solves_satisfied. Qed.
Print Assumptions C14_fixed_pickups_solves_satisfied.

Theorem C14_impl_state :
  forall (upd : store -> store) (tgt : coord -> bool),
       (forall (s : store) (c : coord), tgt c = false -> upd s c = s c) ->
       forall vars : list var,
       Forall var_ok vars ->
       NoDup (map vcoord vars) ->
       (forall v : var, In v vars -> tgt (vcoord v) = false) ->
       forall (tr tr' : list (bool * list R)) (x : list R) (xstar : list (T ROps)) (s : store),
       (Datatypes.length x = Datatypes.length vars ->
        Forall (fun e : bool * list R => fst e = false) tr' ->
        getv vars (optimize_impl upd vars (tr ++ (true, x) :: tr') xstar s) = x) /\
       (Forall (fun e : bool * list R => fst e = false) tr -> optimize_impl upd vars tr xstar s = s).
Proof. exact impl_state. Qed.
Print Assumptions C14_impl_state.

Theorem C14_undo_restores :
  forall (upd : store -> store) (tgt : coord -> bool),
       (forall (s : store) (c : coord), tgt c = false -> upd s c = s c) ->
       (forall s s' : store, (forall c : coord, tgt c = false -> s c = s' c) -> upd s = upd s') ->
       forall vars : list var,
       Forall var_ok vars ->
       forall (cs : list cmd) (fe : frontend) (tr : trace) (xstar : list (T ROps)) (s0 : store),
       Forall (wf_cmd vars) cs ->
       sat upd s0 ->
       Datatypes.length xstar = Datatypes.length vars ->
       exec_fixed upd vars (cs ++ Optimize fe tr xstar :: Undo :: nil) (s0, nil) =
       exec_fixed upd vars cs (s0, nil).
Proof. exact undo_restores. Qed.
Print Assumptions C14_undo_restores.

Theorem C14_undo_restores_impl_partial :
  forall (upd : store -> store) (tgt : coord -> bool),
       (forall (s : store) (c : coord), tgt c = false -> upd s c = s c) ->
       forall vars : list var,
       Forall var_ok vars ->
       forall (fe : frontend) (tr : trace) (xstar : list (T ROps)) (s : store)
         (stk : list (list (T ROps))) (c : coord),
       tgt c = false ->
       fst (exec_impl upd vars (Optimize fe tr xstar :: Undo :: nil) (s, stk)) c = s c /\
       snd (exec_impl upd vars (Optimize fe tr xstar :: Undo :: nil) (s, stk)) = stk.
Proof. exact undo_restores_impl_partial. Qed.
Print Assumptions C14_undo_restores_impl_partial.

Theorem C14_upd_pickups_hypotheses :
  forall pks : list pickup,
       (forall (s : store) (c : coord), pk_target pks c = false -> upd_pickups pks s c = s c) /\
       (flat pks ->
        forall s s' : store,
        (forall c : coord, pk_target pks c = false -> s c = s' c) ->
        upd_pickups pks s = upd_pickups pks s').
Proof. exact upd_pickups_hypotheses. Qed.
Print Assumptions C14_upd_pickups_hypotheses.


Theorem C14_update_optics_each_owner_once :
  forall (owners : list Z) (o : Z),
       (In o owners -> count_occ Z.eq_dec (dedup owners) o = 1%nat) /\
       (~ In o owners -> count_occ Z.eq_dec (dedup owners) o = 0%nat).
Proof. exact update_optics_each_owner_once. Qed.
Print Assumptions C14_update_optics_each_owner_once.

Theorem C14_update_optics_satisfies_every_owner :
  forall (u : Z -> store -> store) (own : Z -> coord -> bool),
       (forall (o : Z) (s : store) (c : coord), own o c = false -> u o s c = s c) ->
       (forall (o : Z) (s s' : store),
        (forall c : coord, own o c = true -> s c = s' c) ->
        forall c : coord, own o c = true -> u o s c = u o s' c) ->
       (forall (o : Z) (s : store), u o (u o s) = u o s) ->
       (forall (o o' : Z) (c : coord), o <> o' -> own o c = true -> own o' c = false) ->
       forall (owners : list Z) (o : Z) (s : store),
       In o owners -> u o (update_optics u owners s) = update_optics u owners s.
Proof. exact update_optics_satisfies_every_owner. Qed.
Print Assumptions C14_update_optics_satisfies_every_owner.

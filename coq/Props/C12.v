From Coq Require Import String Reals ZArith List.
From OV Require Import Ops RInst XR Num.OpsC12 Gen.Analysis Model.M_C12 Spec.S_C12 Lemmas.L_C12_lists Lemmas.L_C12_spot Lemmas.L_C12_misc Lemmas.L_C12_all.
Import ListNotations.

Theorem C12_centroid_is_zero_first_moment :
  (forall l : list R, l <> nil -> first_moment l (mean_ (O := ROps) l) = 0%R) /\
       (forall (l : list R) (c : R), l <> nil -> first_moment l c = 0%R -> c = mean_ (O := ROps) l).
Proof. exact centroid_is_zero_first_moment. Qed.
Print Assumptions C12_centroid_is_zero_first_moment.

Theorem C12_nan_reductions_skip :
  forall O : Ops,
       (forall (a b : list (T O)) (x : T O),
        isnan_ x = true -> nanmean_ (a ++ x :: b) = nanmean_ (a ++ b)) /\
       (forall (a b : list (T O)) (x : T O),
        isnan_ x = true -> nanmax_list (a ++ x :: b) = nanmax_list (a ++ b)).
Proof. exact nan_reductions_skip. Qed.
Print Assumptions C12_nan_reductions_skip.

Theorem C12_nanmean_clean :
  forall (O : Ops) (l : list (T O)),
       (forall v : T O, In v l -> isnan_ v = false) ->
       nanmean_ l = mean_ l /\ nanmax_list l = max_list l.
Proof. exact nanmean_clean. Qed.
Print Assumptions C12_nanmean_clean.

Theorem C12_centroid1_is_centroid :
  forall (pidx : Z) (fd : list (spot ROps)) (c : T ROps * T ROps),
       centroid1 (O := ROps) pidx fd = Some c ->
       exists s : (spot ROps),
         nthZ fd pidx = Some s /\
         c = (mean_ (O := ROps) (sx s), mean_ (O := ROps) (sy s)) /\
         (sx s <> nil -> sy s <> nil -> is_centroid (sx s) (sy s) c).
Proof. exact centroid1_is_centroid. Qed.
Print Assumptions C12_centroid1_is_centroid.

Theorem C12_reference_index_rule :
  (forall (ws : list R) (wp : R), In wp ws -> nth_error ws (reference_index (O := ROps) ws wp) = Some wp) /\
       (forall (ws : list R) (wp : R), ~ In wp ws -> reference_index (O := ROps) ws wp = 0).
Proof. exact reference_index_rule. Qed.
Print Assumptions C12_reference_index_rule.

Theorem C12_centroid_reference_rule :
  (forall (ws : list R) (trace : R -> (spot ROps)) (wp : R),
        In wp ws ->
        centroid1 (O := ROps) (Z.of_nat (reference_index (O := ROps) ws wp)) (map trace ws) =
        Some (mean_ (O := ROps) (sx (trace wp)), mean_ (O := ROps) (sy (trace wp)))) /\
       (forall (ws : list R) (trace : R -> (spot ROps)) (wp w0 : R) (rest : list R),
        ws = w0 :: rest ->
        ~ In wp ws ->
        centroid1 (O := ROps) (Z.of_nat (reference_index (O := ROps) ws wp)) (map trace ws) =
        Some (mean_ (O := ROps) (sx (trace w0)), mean_ (O := ROps) (sy (trace w0)))) /\
       (forall (ws : list R) (trace : R -> (spot ROps)) (wp : R),
        ws <> nil -> centroid1 (O := ROps) (Z.of_nat (reference_index (O := ROps) ws wp)) (map trace ws) <> None).
Proof. exact centroid_reference_rule. Qed.
Print Assumptions C12_centroid_reference_rule.

Theorem C12_centroid_ignores_failed_ray :
  forall (O : Ops) (xa xb ya yb ia : list (T O)) (nx ny : T O),
       Z ->
       isnan_ nx = true ->
       isnan_ ny = true ->
       centroid1 0 ({| sx := xa ++ nx :: xb; sy := ya ++ ny :: yb; si := ia |} :: nil) =
       centroid1 0 ({| sx := xa ++ xb; sy := ya ++ yb; si := ia |} :: nil).
Proof. exact centroid_ignores_failed_ray. Qed.
Print Assumptions C12_centroid_ignores_failed_ray.

Theorem C12_rms_radius_spec :
  forall (c : R * R) (s : (spot ROps)), is_rms_radius (sx s) (sy s) c (rms1 (O := ROps) (center1 (O := ROps) c s)).
Proof. exact rms_radius_spec. Qed.
Print Assumptions C12_rms_radius_spec.

Theorem C12_geo_radius_spec :
  forall (c : R * R) (s : (spot ROps)),
       dist2 (sx s) (sy s) c <> nil -> is_geo_radius (sx s) (sy s) c (geo1 (O := ROps) (center1 (O := ROps) c s)).
Proof. exact geo_radius_spec. Qed.
Print Assumptions C12_geo_radius_spec.

Theorem C12_geo_radius_bounds :
  forall (c : R * R) (s : (spot ROps)) (q : T ROps),
       In q (radii (O := ROps) (center1 (O := ROps) c s)) -> (q <= geo1 (O := ROps) (center1 (O := ROps) c s))%R.
Proof. exact geo_radius_bounds. Qed.
Print Assumptions C12_geo_radius_bounds.

Theorem C12_center_spots_spec :
  forall (pidx : Z) (data out : list (list (spot ROps))),
       center_spots (O := ROps) pidx data = Some out ->
       exists cs : list (T ROps * T ROps),
         centroid (O := ROps) pidx data = Some cs /\
         out =
         map (fun p : T ROps * T ROps * list (spot ROps) => map (center1 (O := ROps) (fst p)) (snd p))
           (combine cs data).
Proof. exact center_spots_spec. Qed.
Print Assumptions C12_center_spots_spec.

Theorem C12_ee_properties :
  (forall (s : (spot ROps)) (r1 r2 : R),
        (forall e : T ROps, In e (si s) -> (0 <= e)%R) ->
        (r1 <= r2)%R -> (ee_at (O := ROps) s r1 <= ee_at (O := ROps) s r2)%R) /\
       (forall (s : (spot ROps)) (r : T ROps),
        (forall e : T ROps, In e (si s) -> (0 <= e)%R) ->
        (ee_at (O := ROps) s r <= total_energy (radii (O := ROps) s) (si s))%R) /\
       (forall (s : (spot ROps)) (r : R),
        (forall q : T ROps, In q (radii (O := ROps) s) -> (q <= r)%R) ->
        ee_at (O := ROps) s r = total_energy (radii (O := ROps) s) (si s)).
Proof. exact ee_properties. Qed.
Print Assumptions C12_ee_properties.

Theorem C12_ee_curve_reaches_total :
  forall (s : (spot ROps)) (axis_lim buffer : R) (npts : nat),
       2 <= npts ->
       (1 <= buffer)%R ->
       radii (O := ROps) s <> nil ->
       (geo1 (O := ROps) s <= axis_lim)%R ->
       last (snd (ee_curve (O := ROps) s axis_lim buffer npts)) 0%R = total_energy (radii (O := ROps) s) (si s).
Proof. exact ee_curve_reaches_total. Qed.
Print Assumptions C12_ee_curve_reaches_total.

Theorem C12_op_rms_spot_is_rms_about_centroid :
  (forall xs ys : list R, is_rms_radius xs ys (mean_ (O := ROps) xs, mean_ (O := ROps) ys) (k_op_rms_spot ROps xs ys)) /\
       (forall xs ys : list R, xs <> nil -> ys <> nil -> is_centroid xs ys (mean_ (O := ROps) xs, mean_ (O := ROps) ys)).
Proof. exact op_rms_spot_is_rms_about_centroid. Qed.
Print Assumptions C12_op_rms_spot_is_rms_about_centroid.

Theorem C12_fan_samples_odd :
  (forall n : Z, Z.odd (k_rayfan_init ROps n) = true /\ (n <= k_rayfan_init ROps n <= n + 1)%Z) /\
       (forall n : Z,
        Z.odd (k_pupilab_init ROps n) = true /\ (n <= k_pupilab_init ROps n <= n + 1)%Z).
Proof. exact fan_samples_odd. Qed.
Print Assumptions C12_fan_samples_odd.

Theorem C12_linspace_mid_zero :
  forall m : nat, 1 <= m -> nth m (linspace (O := ROps) (-1)%R 1%R (S (2 * m))) 7%R = 0%R.
Proof. exact linspace_mid_zero. Qed.
Print Assumptions C12_linspace_mid_zero.

Theorem C12_rayfan_reference_rule :
  (forall (ws : list R) (wp : R), In wp ws -> rayfan_ref (O := ROps) ws wp = wp) /\
       (forall (ws : list R) (wp : R), ws <> nil -> In (rayfan_ref (O := ROps) ws wp) ws) /\
       (forall (ws : list R) (wp : R) (n : Z) (fans : list (fan ROps)),
        ws <> nil ->
        Datatypes.length fans = Datatypes.length ws ->
        rayfan_field (O := ROps) ws (rayfan_ref (O := ROps) ws wp) n fans <> None).
Proof. exact rayfan_reference_rule. Qed.
Print Assumptions C12_rayfan_reference_rule.

Theorem C12_rayfan_field_spec :
  forall (ws : list R) (wref : T ROps) (n : Z) (fans out : list (fan ROps)),
       rayfan_field (O := ROps) ws wref n fans = Some out ->
       exists (k : nat) (ref : (fan ROps)),
         nth_error ws k = Some wref /\
         nth_error fans k = Some ref /\
         out =
         map
           (fun f : (fan ROps) =>
            {|
              fx := lmap (O := ROps) (fun v : T ROps => (v - getZ (O := ROps) (fx ref) (n / 2))%R) (fx f);
              fix_ := fix_ f;
              fy := lmap (O := ROps) (fun v : T ROps => (v - getZ (O := ROps) (fy ref) (n / 2))%R) (fy f);
              fiy := fiy f
            |}) fans /\
         ((0 <= n / 2 < Z.of_nat (Datatypes.length (fx ref)))%Z ->
          forall r' : (fan ROps), nth_error out k = Some r' -> getZ (O := ROps) (fx r') (n / 2) = 0%R) /\
         ((0 <= n / 2 < Z.of_nat (Datatypes.length (fy ref)))%Z ->
          forall r' : (fan ROps), nth_error out k = Some r' -> getZ (O := ROps) (fy r') (n / 2) = 0%R).
Proof. exact rayfan_field_spec. Qed.
Print Assumptions C12_rayfan_field_spec.

Theorem C12_pupil_err_spec :
  forall (d : R) (parax real inten : list R) (i : nat),
       i < Datatypes.length parax ->
       i < Datatypes.length real ->
       i < Datatypes.length inten ->
       nth i inten 0%R <> 0%R ->
       nth i (pupil_err (O := ROps) d parax real inten) 0%R =
       pupil_aberration (nth i parax 0%R) (nth i real 0%R) d.
Proof. exact pupil_err_spec. Qed.
Print Assumptions C12_pupil_err_spec.

Theorem C12_distortion_ftan_value :
  forall (Hy yr : list R) (maxf w : R),
       exists D : list (T ROps),
         k_distortion_ftan ROps Hy (w :: nil) yr maxf = Some (D :: nil) /\
         (forall i : nat,
          i < Datatypes.length Hy ->
          i < Datatypes.length yr ->
          nth i D 0%R =
          rel_departure (nth i yr 0%R)
            (nth 0 yr 0%R / tan (Rlit 1 (-10) * (maxf * PI / 180)) *
             tan (nth i Hy 0%R * (maxf * PI / 180)))).
Proof. exact distortion_ftan_value. Qed.
Print Assumptions C12_distortion_ftan_value.

Theorem C12_distortion_ftan_ideal :
  forall (Hy yr : list R) (maxf w k : R),
       nth 0 Hy 0%R = Rlit 1 (-10) ->
       tan (Rlit 1 (-10) * (maxf * PI / 180)) <> 0%R ->
       k <> 0%R ->
       (forall i : nat,
        i < Datatypes.length Hy -> nth i yr 0%R = (k * tan (nth i Hy 0 * (maxf * PI / 180)))%R) ->
       0 < Datatypes.length Hy ->
       Datatypes.length yr = Datatypes.length Hy ->
       exists D : list (T ROps),
         k_distortion_ftan ROps Hy (w :: nil) yr maxf = Some (D :: nil) /\
         (forall i : nat,
          i < Datatypes.length Hy ->
          tan (nth i Hy 0%R * (maxf * PI / 180)) <> 0%R -> nth i D 0%R = 0%R).
Proof. exact distortion_ftan_ideal. Qed.
Print Assumptions C12_distortion_ftan_ideal.

Theorem C12_distortion_ftheta_value :
  forall (Hy yr : list R) (maxf w : R),
       exists D : list (T ROps),
         k_distortion_ftheta ROps Hy (w :: nil) yr maxf = Some (D :: nil) /\
         (forall i : nat,
          i < Datatypes.length Hy ->
          i < Datatypes.length yr ->
          nth i D 0%R =
          rel_departure (nth i yr 0%R)
            (nth 0 yr 0%R / tan (Rlit 1 (-10) * (maxf * PI / 180)) * nth i Hy 0%R *
             (maxf * PI / 180))).
Proof. exact distortion_ftheta_value. Qed.
Print Assumptions C12_distortion_ftheta_value.

Theorem C12_distortion_height_value :
  forall (Hy yr : list R) (w : R),
       exists D : list (T ROps),
         k_distortion_height ROps Hy (w :: nil) yr = Some (D :: nil) /\
         (forall i : nat,
          i < Datatypes.length Hy ->
          i < Datatypes.length yr ->
          nth i D 0%R = rel_departure (nth i yr 0%R) (nth 0 yr 0%R / Rlit 1 (-10) * nth i Hy 0%R)).
Proof. exact distortion_height_value. Qed.
Print Assumptions C12_distortion_height_value.

Theorem C12_distortion_height_ideal :
  forall (Hy yr : list R) (w m : R),
       nth 0 Hy 0%R = Rlit 1 (-10) ->
       m <> 0%R ->
       (forall i : nat, i < Datatypes.length Hy -> nth i yr 0%R = (m * nth i Hy 0)%R) ->
       0 < Datatypes.length Hy ->
       Datatypes.length yr = Datatypes.length Hy ->
       exists D : list (T ROps),
         k_distortion_height ROps Hy (w :: nil) yr = Some (D :: nil) /\
         (forall i : nat, i < Datatypes.length Hy -> nth i Hy 0%R <> 0%R -> nth i D 0%R = 0%R).
Proof. exact distortion_height_ideal. Qed.
Print Assumptions C12_distortion_height_ideal.

Theorem C12_invalid_type_raises :
  (forall (height : bool) (ty : string) (maxf : T ROps) (Hy : list (T ROps)) 
          (yr : list R) (yrs : list (list R)),
        (ty =? "f-tan")%string = false ->
        (ty =? "f-theta")%string = false -> distortion (O := ROps) height ty maxf Hy (yr :: yrs) = None) /\
       (forall (ty fty : string) (x_ref y_ref maxf : T ROps) (Hx Hy xr yr : list R),
        (ty =? "f-tan")%string = false ->
        (ty =? "f-theta")%string = false ->
        k_grid_distortion ROps y_ref x_ref ty fty Hx Hy maxf xr yr = None).
Proof. exact invalid_type_raises. Qed.
Print Assumptions C12_invalid_type_raises.

Theorem C12_grid_tail_spec :
  forall xp yp xr yr : list R,
       Datatypes.length yp = Datatypes.length xp ->
       Datatypes.length xr = Datatypes.length xp ->
       Datatypes.length yr = Datatypes.length xp ->
       exists (rel : list R) (rp : list (T ROps)) (off : list bool),
         Datatypes.length rel = Datatypes.length xp /\
         Datatypes.length rp = Datatypes.length xp /\
         off = map (fun r : R => Rltb (Rlit 1 (-9) * max_list (O := ROps) rp) r) rp /\
         (forall i : nat,
          i < Datatypes.length xp ->
          nth i rp 0%R = sqrt (nth i xp 0%R * nth i xp 0%R + nth i yp 0%R * nth i yp 0%R) /\
          nth i rel 0%R =
          (100 *
           sqrt
             ((nth i xp 0 - nth i xr 0) * (nth i xp 0 - nth i xr 0) +
              (nth i yp 0 - nth i yr 0) * (nth i yp 0 - nth i yr 0)) / 
           nth i rp 0)%R) /\
         (existsb (fun b : bool => b) off = true -> is_max (lmask (O := ROps) rel off) (grid_tail xp yp xr yr)).
Proof. exact grid_tail_spec. Qed.
Print Assumptions C12_grid_tail_spec.

Theorem C12_grid_distortion_height_spec :
  forall (ty : string) (x_ref y_ref : R) (maxf : T ROps) (Hx Hy xr yr : list R),
       ((ty =? "f-tan")%string || (ty =? "f-theta")%string)%bool = true ->
       let tiny := Rlit 1 (-10) in
       let xp := map (fun h : R => (x_ref / tiny * h)%R) Hx in
       let yp := map (fun h : R => (y_ref / tiny * h)%R) Hy in
       k_grid_distortion ROps y_ref x_ref ty "object_height" Hx Hy maxf xr yr =
       Some (xr, yr, xp, yp, grid_tail xp yp xr yr).
Proof. exact grid_distortion_height_spec. Qed.
Print Assumptions C12_grid_distortion_height_spec.

Theorem C12_grid_distortion_angle_spec :
  (forall (fty : string) (x_ref y_ref maxf : R) (Hx Hy xr yr : list R),
        (fty =? "object_height")%string = false ->
        let theta := (maxf * PI / 180)%R in
        let xp := map (fun h : R => (x_ref / (Rlit 1 (-10) * theta) * h * theta)%R) Hx in
        let yp := map (fun h : R => (y_ref / (Rlit 1 (-10) * theta) * h * theta)%R) Hy in
        k_grid_distortion ROps y_ref x_ref "f-theta" fty Hx Hy maxf xr yr =
        Some (xr, yr, xp, yp, grid_tail xp yp xr yr)) /\
       (forall (fty : string) (x_ref y_ref maxf : R) (Hx Hy xr yr : list R),
        (fty =? "object_height")%string = false ->
        let theta := (maxf * PI / 180)%R in
        let xp := map (fun h : R => (x_ref / tan (Rlit 1 (-10) * theta) * tan (h * theta))%R) Hx in
        let yp := map (fun h : R => (y_ref / tan (Rlit 1 (-10) * theta) * tan (h * theta))%R) Hy in
        k_grid_distortion ROps y_ref x_ref "f-tan" fty Hx Hy maxf xr yr =
        Some (xr, yr, xp, yp, grid_tail xp yp xr yr)).
Proof. exact grid_distortion_angle_spec. Qed.
Print Assumptions C12_grid_distortion_angle_spec.

Theorem C12_parabasal_crossing :
  forall p1 z1 d1 n1 p2 z2 d2 n2 : R,
       (d1 * n2 - d2 * n1)%R <> 0%R ->
       let t1 := ((d2 * z1 - d2 * z2 - n2 * p1 + n2 * p2) / (d1 * n2 - d2 * n1))%R in
       is_crossing_z p1 z1 d1 n1 p2 z2 d2 n2 (z1 + t1 * n1).
Proof. exact parabasal_crossing. Qed.
Print Assumptions C12_parabasal_crossing.

Theorem C12_fc_crossing :
  (forall (M1 N1 M2 N2 y01 z01 y02 z02 : list R) (i : nat),
        i < Datatypes.length M1 ->
        i < Datatypes.length N1 ->
        i < Datatypes.length M2 ->
        i < Datatypes.length N2 ->
        i < Datatypes.length y01 ->
        i < Datatypes.length z01 ->
        i < Datatypes.length y02 ->
        i < Datatypes.length z02 ->
        (nth i M1 0 * nth i N2 0 - nth i M2 0 * nth i N1 0)%R <> 0%R ->
        is_crossing_z (nth i y01 0%R) (nth i z01 0%R) (nth i M1 0%R) (nth i N1 0%R) 
          (nth i y02 0%R) (nth i z02 0%R) (nth i M2 0%R) (nth i N2 0%R)
          (nth i z01 0%R + nth i (k_fc_tangential ROps M1 N1 M2 N2 y01 z01 y02 z02) 0%R)) /\
       (forall (L1 N1 L2 N2 x01 z01 x02 z02 : list R) (i : nat),
        i < Datatypes.length L1 ->
        i < Datatypes.length N1 ->
        i < Datatypes.length L2 ->
        i < Datatypes.length N2 ->
        i < Datatypes.length x01 ->
        i < Datatypes.length z01 ->
        i < Datatypes.length x02 ->
        i < Datatypes.length z02 ->
        (nth i L1 0 * nth i N2 0 - nth i L2 0 * nth i N1 0)%R <> 0%R ->
        is_crossing_z (nth i x01 0%R) (nth i z01 0%R) (nth i L1 0%R) (nth i N1 0%R) 
          (nth i x02 0%R) (nth i z02 0%R) (nth i L2 0%R) (nth i N2 0%R)
          (nth i z01 0%R + nth i (k_fc_sagittal ROps L1 N1 L2 N2 x01 z01 x02 z02) 0%R)).
Proof. exact fc_crossing. Qed.
Print Assumptions C12_fc_crossing.

Theorem C12_evens_odds_interleave :
  forall a b : list R,
       Datatypes.length a = Datatypes.length b ->
       let l := flat_map (fun p : R * R => fst p :: snd p :: nil) (combine a b) in
       evens (O := ROps) l = a /\ odds (O := ROps) l = b.
Proof. exact evens_odds_interleave. Qed.
Print Assumptions C12_evens_odds_interleave.


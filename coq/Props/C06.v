From Coq Require Import Reals ZArith List String.
From OV Require Import Ops RInst XR Gen.RealRays Gen.Standard Gen.WavefrontC06 Model.M_C06 Spec.S_C11_DFT Spec.S_C06 Lemmas.L_C06_kernels Lemmas.L_C06_stigmatic Lemmas.L_C06_wavefront.
Local Open Scope R_scope.
Import ListNotations.

Theorem C06_paraboloid_stigmatic :
  forall Rc sg x y z0 : R,
       Rc <> 0%R ->
       sg = 1%R \/ sg = (-1)%R ->
       ((0 <= sg * ((x * x + y * y) / (2 * Rc) - z0))%R ->
        k_std_distance XOps (Fin (-1)) (Fin sg) (Fin 0) (Fin 0) (Fin z0) (Fin x) (Fin y) (Fin Rc) =
        Fin (sg * ((x * x + y * y) / (2 * Rc) - z0))) /\
       on_vertex_sheet Rc (-1) x y ((x * x + y * y) / (2 * Rc)) /\
       (let
        '(nx, ny, nz) := k_std_normal ROps x y Rc (-1)%R in
         let
         '(L', M', N') := k_reflect ROps nx ny nz 0%R 0%R sg in
          unit3 L' M' N' /\
          through_axis_point x y ((x * x + y * y) / (2 * Rc)) L' M' N'
            (- sg * (x * x + y * y + Rc * Rc) / (2 * Rc)) (Rc / 2)) /\
       (sg * ((x * x + y * y) / (2 * Rc) - z0) + - sg * (x * x + y * y + Rc * Rc) / (2 * Rc))%R =
       (- sg * (z0 + Rc / 2))%R /\
       ((sg * Rc < 0)%R -> (0 < - sg * (x * x + y * y + Rc * Rc) / (2 * Rc))%R).
Proof. exact paraboloid_stigmatic. Qed.
Print Assumptions C06_paraboloid_stigmatic.

Theorem C06_conic_mirror_stigmatic :
  forall Rc e x y z tau : R,
       (1 + e)%R <> 0%R ->
       (1 - e)%R <> 0%R ->
       on_vertex_sheet Rc (- (e * e)) x y z ->
       tau = 1%R \/ tau = (-1)%R ->
       (e * z + focus Rc e)%R <> 0%R ->
       (focus Rc (- e) - e * z)%R <> 0%R ->
       unit3 (tau * x / (e * z + focus Rc e)) (tau * y / (e * z + focus Rc e))
         (tau * (z - focus Rc e) / (e * z + focus Rc e)) /\
       (0 + tau * (e * z + focus Rc e) * (tau * x / (e * z + focus Rc e)))%R = x /\
       (0 + tau * (e * z + focus Rc e) * (tau * y / (e * z + focus Rc e)))%R = y /\
       (focus Rc e + tau * (e * z + focus Rc e) * (tau * (z - focus Rc e) / (e * z + focus Rc e)))%R =
       z /\
       (let
        '(nx, ny, nz) := k_std_normal ROps x y Rc (- (e * e))%R in
         let
         '(L', M', N') :=
          k_reflect ROps nx ny nz (tau * x / (e * z + focus Rc e))%R
            (tau * y / (e * z + focus Rc e))%R (tau * (z - focus Rc e) / (e * z + focus Rc e))%R in
          unit3 L' M' N' /\
          through_axis_point x y z L' M' N' (tau * (focus Rc (- e) - e * z)) (focus Rc (- e))) /\
       ((1 - e * e) * (tau * (e * z + focus Rc e) + tau * (focus Rc (- e) - e * z)))%R =
       (tau * (2 * Rc))%R.
Proof. exact conic_mirror_stigmatic. Qed.
Print Assumptions C06_conic_mirror_stigmatic.

Theorem C06_conic_refract_stigmatic :
  forall Rc n1 n2 x y z sg z0 : R,
       Rc <> 0%R ->
       n2 <> 0%R ->
       (1 - n1 / n2)%R <> 0%R ->
       on_vertex_sheet Rc (- (n1 / n2 * (n1 / n2))) x y z ->
       sg = 1%R \/ sg = (-1)%R ->
       (focus Rc (- (n1 / n2)) - n1 / n2 * z)%R <> 0%R ->
       (let
        '(nx, ny, nz) := k_std_normal ROps x y Rc (- (n1 / n2 * (n1 / n2)))%R in
         let
         '(L', M', N') := k_refract ROps nx ny nz n1 n2 0%R 0%R sg in
          (L', M', N') =
          ((sg * - x / (focus Rc (- (n1 / n2)) - n1 / n2 * z))%R,
           (sg * - y / (focus Rc (- (n1 / n2)) - n1 / n2 * z))%R,
           (sg * (focus Rc (- (n1 / n2)) - z) / (focus Rc (- (n1 / n2)) - n1 / n2 * z))%R) /\
          unit3 L' M' N' /\
          through_axis_point x y z L' M' N' (sg * (focus Rc (- (n1 / n2)) - n1 / n2 * z))
            (focus Rc (- (n1 / n2)))) /\
       (n1 * (sg * (z - z0)) + n2 * (sg * (focus Rc (- (n1 / n2)) - n1 / n2 * z)))%R =
       (sg * (n2 * focus Rc (- (n1 / n2)) - n1 * z0))%R.
Proof. exact conic_refract_stigmatic. Qed.
Print Assumptions C06_conic_refract_stigmatic.

Theorem C06_aplanatic_stigmatic :
  forall Rc n1 n2 x y z tau : R,
       Rc <> 0%R ->
       (0 < n1)%R ->
       (0 < n2)%R ->
       on_vertex_sheet Rc 0 x y z ->
       tau = 1%R \/ tau = (-1)%R ->
       (0 < x * x + y * y + (z - aplanatic_image Rc n1 n2) * (z - aplanatic_image Rc n1 n2))%R ->
       (0 < (z - aplanatic_object Rc n1 n2) * (z - aplanatic_image Rc n1 n2))%R ->
       sqrt (x * x + y * y + (z - aplanatic_object Rc n1 n2) * (z - aplanatic_object Rc n1 n2)) =
       (n2 / n1 *
        sqrt (x * x + y * y + (z - aplanatic_image Rc n1 n2) * (z - aplanatic_image Rc n1 n2)))%R /\
       (n2 * sqrt (x * x + y * y + (z - aplanatic_image Rc n1 n2) * (z - aplanatic_image Rc n1 n2)) -
        n1 *
        sqrt (x * x + y * y + (z - aplanatic_object Rc n1 n2) * (z - aplanatic_object Rc n1 n2)))%R =
       0%R /\
       unit3
         (tau * (0 - x) /
          sqrt (x * x + y * y + (z - aplanatic_object Rc n1 n2) * (z - aplanatic_object Rc n1 n2)))
         (tau * (0 - y) /
          sqrt (x * x + y * y + (z - aplanatic_object Rc n1 n2) * (z - aplanatic_object Rc n1 n2)))
         (tau * (aplanatic_object Rc n1 n2 - z) /
          sqrt (x * x + y * y + (z - aplanatic_object Rc n1 n2) * (z - aplanatic_object Rc n1 n2))) /\
       (let
        '(nx, ny, nz) := k_std_normal ROps x y Rc 0%R in
         let
         '(L', M', N') :=
          k_refract ROps nx ny nz n1 n2
            (tau * (0 - x) /
             sqrt
               (x * x + y * y + (z - aplanatic_object Rc n1 n2) * (z - aplanatic_object Rc n1 n2)))%R
            (tau * (0 - y) /
             sqrt
               (x * x + y * y + (z - aplanatic_object Rc n1 n2) * (z - aplanatic_object Rc n1 n2)))%R
            (tau * (aplanatic_object Rc n1 n2 - z) /
             sqrt
               (x * x + y * y + (z - aplanatic_object Rc n1 n2) * (z - aplanatic_object Rc n1 n2)))%R
          in
          (L', M', N') =
          ((tau * (0 - x) /
            sqrt (x * x + y * y + (z - aplanatic_image Rc n1 n2) * (z - aplanatic_image Rc n1 n2)))%R,
           (tau * (0 - y) /
            sqrt (x * x + y * y + (z - aplanatic_image Rc n1 n2) * (z - aplanatic_image Rc n1 n2)))%R,
           (tau * (aplanatic_image Rc n1 n2 - z) /
            sqrt (x * x + y * y + (z - aplanatic_image Rc n1 n2) * (z - aplanatic_image Rc n1 n2)))%R) /\
          unit3 L' M' N' /\
          through_axis_point x y z L' M' N'
            (tau *
             sqrt (x * x + y * y + (z - aplanatic_image Rc n1 n2) * (z - aplanatic_image Rc n1 n2)))
            (aplanatic_image Rc n1 n2)).
Proof. exact aplanatic_stigmatic. Qed.
Print Assumptions C06_aplanatic_stigmatic.

Theorem C06_sphere_centre_mirror :
  forall Rc L M N w : R,
       Rc <> 0%R ->
       (L * L + M * M + N * N)%R = 1%R ->
       (w * w)%R = (Rc * Rc)%R ->
       (w * N * Rc < 0)%R ->
       on_vertex_sheet Rc 0 (0 + w * L) (0 + w * M) (Rc + w * N) /\
       (let
        '(nx, ny, nz) := k_std_normal ROps (0 + w * L)%R (0 + w * M)%R Rc 0%R in
         k_reflect ROps nx ny nz L M N = ((- L)%R, (- M)%R, (- N)%R)) /\
       through_axis_point (0 + w * L) (0 + w * M) (Rc + w * N) (- L) (- M) (- N) w Rc.
Proof. exact sphere_centre_mirror. Qed.
Print Assumptions C06_sphere_centre_mirror.

Theorem C06_sphere_centre_refract :
  forall Rc L M N w : R,
       Rc <> 0%R ->
       (L * L + M * M + N * N)%R = 1%R ->
       (w * w)%R = (Rc * Rc)%R ->
       (w * N * Rc < 0)%R ->
       forall (n1 : T ROps) (n2 : R),
       n2 <> 0%R ->
       let
       '(nx, ny, nz) := k_std_normal ROps (0 + w * L)%R (0 + w * M)%R Rc 0%R in
        k_refract ROps nx ny nz n1 n2 L M N = (L, M, N).
Proof. exact sphere_centre_refract. Qed.
Print Assumptions C06_sphere_centre_refract.

Theorem C06_sphere_centre_mirror_trace :
  forall Rc L M N : R,
       Rc <> 0%R ->
       (L * L + M * M + N * N)%R = 1%R ->
       (N * Rc < 0)%R ->
       k_std_distance XOps (Fin 0) (Fin N) (Fin L) (Fin M) (Fin Rc) (Fin 0) (Fin 0) (Fin Rc) =
       Fin (Rabs Rc) /\
       (let px := (0 + Rabs Rc * L)%R in
        let py := (0 + Rabs Rc * M)%R in
        let pz := (Rc + Rabs Rc * N)%R in
        on_vertex_sheet Rc 0 px py pz /\
        (let
         '(nx, ny, nz) := k_std_normal ROps px py Rc 0%R in
          k_reflect ROps nx ny nz L M N = ((- L)%R, (- M)%R, (- N)%R)) /\
        through_axis_point px py pz (- L) (- M) (- N) (Rabs Rc) Rc /\
        (Rabs Rc + Rabs Rc)%R = (2 * Rabs Rc)%R).
Proof. exact sphere_centre_mirror_trace. Qed.
Print Assumptions C06_sphere_centre_mirror_trace.

Theorem C06_std_distance_paraboloid_axial :
  forall Rc sg x y z0 : R,
       Rc <> 0%R ->
       sg = 1%R \/ sg = (-1)%R ->
       (0 <= sg * ((x * x + y * y) / (2 * Rc) - z0))%R ->
       k_std_distance XOps (Fin (-1)) (Fin sg) (Fin 0) (Fin 0) (Fin z0) (Fin x) (Fin y) (Fin Rc) =
       Fin (sg * ((x * x + y * y) / (2 * Rc) - z0)).
Proof. exact std_distance_paraboloid_axial. Qed.
Print Assumptions C06_std_distance_paraboloid_axial.

Theorem C06_std_distance_from_centre :
  forall Rc L M N : R,
       Rc <> 0%R ->
       (L * L + M * M + N * N)%R = 1%R ->
       (N * Rc < 0)%R ->
       k_std_distance XOps (Fin 0) (Fin N) (Fin L) (Fin M) (Fin Rc) (Fin 0) (Fin 0) (Fin Rc) =
       Fin (Rabs Rc).
Proof. exact std_distance_from_centre. Qed.
Print Assumptions C06_std_distance_from_centre.

Theorem C06_plane_distance_exact :
  forall z N : R,
       N <> 0%R -> (0 <= - z / N)%R -> k_plane_distance XOps (Fin z) (Fin N) = Fin (- z / N).
Proof. exact plane_distance_exact. Qed.
Print Assumptions C06_plane_distance_exact.

Theorem C06_refract_char :
  forall nx ny nz n1 n2 L M N tx ty tz c : R,
       (L * L + M * M + N * N)%R = 1%R ->
       (nx * nx + ny * ny + nz * nz)%R = 1%R ->
       (tx * tx + ty * ty + tz * tz)%R = 1%R ->
       tx = (n1 / n2 * L + c * nx)%R ->
       ty = (n1 / n2 * M + c * ny)%R ->
       tz = (n1 / n2 * N + c * nz)%R ->
       (0 < (tx * nx + ty * ny + tz * nz) * (L * nx + M * ny + N * nz))%R ->
       k_refract ROps nx ny nz n1 n2 L M N = (tx, ty, tz).
Proof. exact refract_char. Qed.
Print Assumptions C06_refract_char.

Theorem C06_opd_image_to_xp_at_centre :
  forall (xc yc zc : T ROps) (R0 L M N : R),
       (L * L + M * M + N * N)%R = 1%R ->
       (0 < R0)%R -> k_c06_opd_image_to_xp ROps xc yc zc R0 xc yc zc L M N = R0.
Proof. exact opd_image_to_xp_at_centre. Qed.
Print Assumptions C06_opd_image_to_xp_at_centre.

Theorem C06_equal_paths_zero_opd :
  forall (e : wf_env ROps) (chief : rec ROps) (rays : list (R * R * rec ROps))
         (xi yi zi opl : R),
       w_Hx e = 0%R ->
       w_Hy e = 0%R ->
       w_wavelength e <> 0%R ->
       at_image xi yi zi opl chief ->
       (forall (px py : R) (r : rec ROps), In (px, py, r) rays -> at_image xi yi zi opl r) ->
       xi <> 0%R \/ yi <> 0%R \/ zi <> w_pupil_z e ->
       wavefront_data e chief rays = Some (map (fun '(_, _, r) => (0%R, c_i r)) rays).
Proof. exact equal_paths_zero_opd. Qed.
Print Assumptions C06_equal_paths_zero_opd.

Theorem C06_zero_opd_strehl_one :
  forall (data : list (R * R)) (c : R),
       (forall w i : R, In (w, i) data -> w = c) ->
       (forall w i : R, In (w, i) data -> (0 <= i)%R) ->
       (0 < mean_ (O:=ROps) (map snd data))%R ->
       rsum (map (fun '(_, i) => (i / mean_ (O:=ROps) (map snd data))%R) data) <> 0%R -> strehl_dc (O:=ROps) data = 1%R.
Proof. exact zero_opd_strehl_one. Qed.
Print Assumptions C06_zero_opd_strehl_one.

Theorem C06_strehl_spec_const_phase :
  forall (a : nat -> R) (c : R) (n : nat),
       Rsum a n <> 0%R -> strehl_spec a (fun _ : nat => c) n = 1%R.
Proof. exact strehl_spec_const_phase. Qed.
Print Assumptions C06_strehl_spec_const_phase.


Theorem C06_std_distance_far_focus_regression :
  k_std_distance XOps (Fin (-9 / 4)) (Fin (4 / 5)) (Fin 0) (Fin (3 / 5)) 
         (Fin (-22)) (Fin 0) (Fin 0) (Fin 11) = Fin 55.
Proof. exact std_distance_far_focus_regression. Qed.
Print Assumptions C06_std_distance_far_focus_regression.

Theorem C06_conic_mirror_from_focus :
  forall Rc e L M N t : R,
       Rc <> 0%R ->
       (1 + e)%R <> 0%R ->
       (1 - e)%R <> 0%R ->
       (L * L + M * M + N * N)%R = 1%R ->
       (- (e * e) * (N * N) + L * L + M * M + N * N)%R <> 0%R ->
       k_std_distance XOps (Fin (- (e * e))) (Fin N) (Fin L) (Fin M) (Fin (focus Rc e)) 
         (Fin 0) (Fin 0) (Fin Rc) = Fin t ->
       (1 - (1 + - (e * e)) * ((0 + t * L) * (0 + t * L) + (0 + t * M) * (0 + t * M)) / (Rc * Rc))%R <>
       0%R ->
       (e * (focus Rc e + t * N) + focus Rc e)%R <> 0%R ->
       (focus Rc (- e) - e * (focus Rc e + t * N))%R <> 0%R ->
       on_vertex_sheet Rc (- (e * e)) (0 + t * L) (0 + t * M) (focus Rc e + t * N) /\
       (0 <= t)%R /\
       (exists tau : R,
          (tau = 1%R \/ tau = (-1)%R) /\
          t = (tau * (e * (focus Rc e + t * N) + focus Rc e))%R /\
          (let
           '(nx, ny, nz) := k_std_normal ROps (0 + t * L)%R (0 + t * M)%R Rc (- (e * e))%R in
            let
            '(L', M', N') := k_reflect ROps nx ny nz L M N in
             unit3 L' M' N' /\
             through_axis_point (0 + t * L) (0 + t * M) (focus Rc e + t * N) L' M' N'
               (tau * (focus Rc (- e) - e * (focus Rc e + t * N))) (focus Rc (- e))) /\
          ((1 - e * e) * (t + tau * (focus Rc (- e) - e * (focus Rc e + t * N))))%R =
          (tau * (2 * Rc))%R).
Proof. exact conic_mirror_from_focus. Qed.
Print Assumptions C06_conic_mirror_from_focus.


From Coq Require Import Reals ZArith List String Bool.
From OV Require Import Ops RInst XR Gen.C13Kern Model.M_C13 Spec.S_C13 Lemmas.L_C13 Lemmas.L_C13_wavefront.
Local Open Scope R_scope.
Import ListNotations.

Theorem C13_queries_preserve_prescription :
  forall (V Sf G : Type), forall (Ph : phys V Sf G) (h : list (call Ph)) (l : lens), presc (run h l) = presc l.
Proof. exact (@queries_preserve_prescription). Qed.
Print Assumptions C13_queries_preserve_prescription.

Theorem C13_output_depends_only_on_prescription :
  forall (V Sf G : Type), forall (Ph : phys V Sf G) (A : Type) (p : prog Ph A),
       wf false p -> forall l1 l2 : lens, presc l1 = presc l2 -> fst (exec p l1) = fst (exec p l2).
Proof. exact (@output_depends_only_on_prescription). Qed.
Print Assumptions C13_output_depends_only_on_prescription.

Theorem C13_history_independent_output :
  forall (V Sf G : Type), forall (Ph : phys V Sf G) (A : Type) (p : prog Ph A),
       wf false p ->
       forall (h : list (call Ph)) (l : lens), fst (exec p (run h l)) = fst (exec p l).
Proof. exact (@history_independent_output). Qed.
Print Assumptions C13_history_independent_output.

Theorem C13_repeatable_output :
  forall (V Sf G : Type), forall (Ph : phys V Sf G) (A : Type) (p : prog Ph A),
       wf false p -> forall l : lens, fst (exec p (snd (exec p l))) = fst (exec p l).
Proof. exact (@repeatable_output). Qed.
Print Assumptions C13_repeatable_output.

Theorem C13_records_after_forward_trace :
  forall (V Sf G : Type), forall (Ph : phys V Sf G) (skip : nat) (x : pst Ph) (l1 l2 : lens),
       presc l1 = presc l2 ->
       surfs (snd (exec (ParFwd skip x (Ret tt)) l1)) =
       surfs (snd (exec (ParFwd skip x (Ret tt)) l2)).
Proof. exact (@records_after_forward_trace). Qed.
Print Assumptions C13_records_after_forward_trace.

Theorem C13_records_after_real_trace :
  forall (V Sf G : Type), forall (Ph : phys V Sf G) (x : rst Ph) (l1 l2 : lens),
       presc l1 = presc l2 ->
       surfs (snd (exec (RealFwd x (Ret tt)) l1)) = surfs (snd (exec (RealFwd x (Ret tt)) l2)).
Proof. exact (@records_after_real_trace). Qed.
Print Assumptions C13_records_after_real_trace.

Theorem C13_reverse_trace_leaves_lens :
  forall (V Sf G : Type), forall (Ph : phys V Sf G) (skip : nat) (x : pst Ph) (l : lens),
       snd (exec (ParRev skip x (fun _ : list (arr V) * list (arr V) => Ret tt)) l) = l.
Proof. exact (@reverse_trace_leaves_lens). Qed.
Print Assumptions C13_reverse_trace_leaves_lens.

Theorem C13_built_wf :
  forall (V Sf G : Type), forall (Ph : phys V Sf G) (m : M Ph), built m -> forall o : list obs, wf false (m o).
Proof. exact (@built_wf). Qed.
Print Assumptions C13_built_wf.

Theorem C13_query_history_independent :
  forall (V Sf G : Type), forall (Ph : phys V Sf G) (m : M Ph),
       built m ->
       forall (h : list (call Ph)) (l : lens), fst (exec (m nil) (run h l)) = fst (exec (m nil) l).
Proof. exact (@query_history_independent). Qed.
Print Assumptions C13_query_history_independent.

Theorem C13_every_modelled_query_built :
  forall (V Sf G : Type), forall (Ph : phys V Sf G) (c : opcode), built (op_query Ph c).
Proof. exact (@every_modelled_query_built). Qed.
Print Assumptions C13_every_modelled_query_built.

Theorem C13_interleavings_preserve_prescription :
  forall (V Sf G : Type), forall (Ph : phys V Sf G) (h : list opcode) (l : lens),
       presc (run (map (op_call Ph) h) l) = presc l.
Proof. exact (@interleavings_preserve_prescription). Qed.
Print Assumptions C13_interleavings_preserve_prescription.

Theorem C13_interleavings_history_independent :
  forall (V Sf G : Type), forall (Ph : phys V Sf G) (h : list opcode) (c : opcode) (l : lens),
       fst (exec (op_query Ph c nil) (run (map (op_call Ph) h) l)) =
       fst (exec (op_query Ph c nil) l).
Proof. exact (@interleavings_history_independent). Qed.
Print Assumptions C13_interleavings_history_independent.

Theorem C13_interleavings_repeatable :
  forall (V Sf G : Type), forall (Ph : phys V Sf G) (c : opcode) (l : lens),
       fst (exec (op_query Ph c nil) (snd (exec (op_query Ph c nil) l))) =
       fst (exec (op_query Ph c nil) l).
Proof. exact (@interleavings_repeatable). Qed.
Print Assumptions C13_interleavings_repeatable.

Theorem C13_model_meets_spec :
  forall (V Sf G : Type), forall Ph : phys V Sf G,
       preserves_prescription lens (list Sf * G) opcode presc
         (fun (c : opcode) (l : lens) => run_call (op_call Ph c) l) /\
       history_independent lens opcode opcode (list obs)
         (fun (c : opcode) (l : lens) => run_call (op_call Ph c) l)
         (fun (c : opcode) (l : lens) => exec (op_query Ph c nil) l) (fun _ : opcode => True) /\
       repeatable lens opcode (list obs)
         (fun (c : opcode) (l : lens) => exec (op_query Ph c nil) l) (fun _ : opcode => True) /\
       determined_by_prescription lens (list Sf * G) opcode (list obs) presc
         (fun (c : opcode) (l : lens) => exec (op_query Ph c nil) l) (fun _ : opcode => True).
Proof. exact (@model_meets_spec). Qed.
Print Assumptions C13_model_meets_spec.

Theorem C13_reading_before_tracing_is_history_dependent :
  exists (h : list (call SizePh)) (l : lens), fst (exec peek (run h l)) <> fst (exec peek l).
Proof. exact reading_before_tracing_is_history_dependent. Qed.
Print Assumptions C13_reading_before_tracing_is_history_dependent.

Theorem C13_caller_arrays_unchanged :
  forall (O : Ops), forall (P : list (T O)) (v : T O), snd (tg_scale false P v) = P.
Proof. exact (@caller_arrays_unchanged). Qed.
Print Assumptions C13_caller_arrays_unchanged.

Theorem C13_rays_do_not_depend_on_aliasing :
  forall (O : Ops), forall (b : bool) (P : list (T O)) (v : T O),
       fst (tg_scale b P v) = map (fun p : T O => mul p (sub (ofZ 1) v)) P.
Proof. exact (@rays_do_not_depend_on_aliasing). Qed.
Print Assumptions C13_rays_do_not_depend_on_aliasing.

Theorem C13_trace_generic_args_safe :
  forall (O : Ops), forall v : T O,
       caller_safe (fun P : list (T O) => tg_scale false P v) /\
       caller_repeatable (fun P : list (T O) => tg_scale false P v).
Proof. exact (@trace_generic_args_safe). Qed.
Print Assumptions C13_trace_generic_args_safe.

Theorem C13_tg_scale_twice_same :
  forall (O : Ops), forall (P : list (T O)) (v : T O),
       fst (tg_scale_twice false P v) = snd (tg_scale_twice false P v).
Proof. exact (@tg_scale_twice_same). Qed.
Print Assumptions C13_tg_scale_twice_same.

Theorem C13_inplace_unchanged_iff :
  forall (P : list R) (v : R),
       snd (tg_scale (O := ROps) true P v) = P <-> (forall p : R, In p P -> p = 0%R \/ v = 0%R).
Proof. exact inplace_unchanged_iff. Qed.
Print Assumptions C13_inplace_unchanged_iff.

Theorem C13_newton_batch_iter :
  forall (O : Ops), forall (sag : T O -> T O -> T O) (tol : T O) (fuel : nat) (rs : list nray),
       newton_batch sag tol fuel rs = map (iter_step sag (batch_count sag tol fuel rs)) rs.
Proof. exact (@newton_batch_iter). Qed.
Print Assumptions C13_newton_batch_iter.

Theorem C13_batch_count_ge_single :
  forall (O : Ops), forall (sag : T O -> T O -> T O) (tol : T O) (fuel : nat) (rs : list nray) (r : nray),
       In r rs -> (batch_count sag tol fuel (r :: nil) <= batch_count sag tol fuel rs)%nat.
Proof. exact (@batch_count_ge_single). Qed.
Print Assumptions C13_batch_count_ge_single.

Theorem C13_newton_batch_member :
  forall (O : Ops), forall (sag : T O -> T O -> T O) (tol : T O) (fuel : nat) (rs : list nray) (r : nray),
       In r rs ->
       iter_step sag (batch_count sag tol fuel rs) r =
       iter_step sag (batch_count sag tol fuel rs - batch_count sag tol fuel (r :: nil))%nat
         (newton_single sag tol fuel r).
Proof. exact (@newton_batch_member). Qed.
Print Assumptions C13_newton_batch_member.

Theorem C13_newton_companions_only_prolong :
  forall (O : Ops), forall (sag : T O -> T O -> T O) (tol : T O) (fuel : nat),
       companions_only_prolong (n_step sag) (newton_single sag tol fuel)
         (newton_batch sag tol fuel).
Proof. exact (@newton_companions_only_prolong). Qed.
Print Assumptions C13_newton_companions_only_prolong.

Theorem C13_newton_batch_exit_residual :
  forall (O : Ops), forall (sag : T O -> T O -> T O) (tol : T O) (fuel : nat) (rs : list nray),
       converged sag tol fuel rs = true ->
       forall r : nray,
       In r rs ->
       (1 <= batch_count sag tol fuel rs)%nat /\
       ltb_ (abs_ (n_dz sag (iter_step sag (batch_count sag tol fuel rs - 1)%nat r))) tol = true /\
       iter_step sag (batch_count sag tol fuel rs) r =
       n_step sag (iter_step sag (batch_count sag tol fuel rs - 1)%nat r).
Proof. exact (@newton_batch_exit_residual). Qed.
Print Assumptions C13_newton_batch_exit_residual.

Theorem C13_newton_iterates_on_ray :
  forall (sag : R -> R -> R) (n : nat) (L M N x y z : R),
       exists t : R,
         iter_step (O := ROps) sag n (L, M, N, (x, y, z)) =
         (L, M, N, ((x + t * L)%R, (y + t * M)%R, (z + t * N)%R)).
Proof. exact newton_iterates_on_ray. Qed.
Print Assumptions C13_newton_iterates_on_ray.

Theorem C13_newton_batch_tolerance_partial :
  forall (h : R -> R) (m tol : R),
       (0 < m)%R ->
       (forall t1 t2 : R, (m * Rabs (t1 - t2) <= Rabs (h t1 - h t2))%R) ->
       within_intersection_tolerance h m tol /\
       (forall N ta tb : R,
        N <> 0%R ->
        (Rabs (h ta) < tol)%R ->
        (Rabs (h tb) < tol)%R ->
        (Rabs (ta - h ta / N - (tb - h tb / N)) < 2 * tol / m + 2 * tol / Rabs N)%R).
Proof. exact newton_batch_tolerance_partial. Qed.
Print Assumptions C13_newton_batch_tolerance_partial.


Theorem C13_wf_opd_image_to_xp_on_sphere :
  forall (xc yc zc R x y z L M N : R),
    let a := L * L + M * M + N * N in
    let b := 2 * - L * (x - xc) + 2 * - M * (y - yc) + 2 * - N * (z - zc) in
    let c := (x - xc) * (x - xc) + (y - yc) * (y - yc) + (z - zc) * (z - zc) - R * R in
    a <> 0 -> 0 <= b * b - 4 * a * c ->
    let t := k_wf_opd_image_to_xp ROps xc yc zc R x y z L M N in
    (x - t * L - xc) * (x - t * L - xc) + (y - t * M - yc) * (y - t * M - yc) +
    (z - t * N - zc) * (z - t * N - zc) = R * R.
Proof. exact wf_opd_image_to_xp_on_sphere. Qed.
Print Assumptions C13_wf_opd_image_to_xp_on_sphere.

Theorem C13_wf_path_length_reads_only_the_ray :
  forall (xc yc zc r opd n x y z L M N : R),
    k_wf_path_length ROps xc yc zc r opd n x y z L M N =
    opd - Rabs n * k_wf_opd_image_to_xp ROps xc yc zc r x y z L M N.
Proof. exact wf_path_length_reads_only_the_ray. Qed.
Print Assumptions C13_wf_path_length_reads_only_the_ray.

Theorem C13_wf_path_length_vac_reads_only_the_ray :
  forall (xc yc zc r opd x y z L M N : R),
    k_wf_path_length_vac ROps xc yc zc r opd x y z L M N = opd - k_wf_opd_image_to_xp ROps xc yc zc r x y z L M N.
Proof. exact wf_path_length_vac_reads_only_the_ray. Qed.
Print Assumptions C13_wf_path_length_vac_reads_only_the_ray.

(** * F_C01: clauses of C01 that the faithful model of the implementation REFUTES, with replayable
    witnesses (exact reals / extended reals).  Compiled separately; never gates. *)
From Coq Require Import Reals ZArith List Bool String Lia Lra.
From OV Require Import Ops RInst XR Gen.LensEdit Spec.S_ABCD Spec.S_C01 Model.Paraxial Model.M_C01
     Lemmas.L_Paraxial Lemmas.L_C01_solve.
Import ListNotations.
Local Open Scope R_scope.

Ltac normR := cbv -[ROps R R0 R1 Rplus Rminus Rmult Rdiv Ropp IZR Rinv not Rlt Rle Rgt Rge]; rops.

(** D03  MarginalRayHeightSolve.apply divides by the slope BEHIND the surface (ua[idx]).
    Witness: one refracting surface at z = 10, curvature 1/20, n 1 -> 2; ray y = 0, u = 1/10 from z = 0;
    requested height 2.  Before: y = 1, slope behind 1/40.  The kernel moves the vertex to 50; the ray then
    arrives at height 5.  (The correct offset, (2 - 1)/(1/10) = 10, is [L_C01_solve.mrh_ex].) *)
Definition s1 := mkAS 10 (/ 20) 1 2 false false.
Theorem mrh_solve_places_ray_refuted :
  let st := (0, 1 / 10, 0) in
  let rec := atrace [s1] st in
  let zs' := k_c01_mrh_apply ROps (map fst rec) (map snd rec) 2 0 [a_z s1] 1 in
  fst (nth 0 (atrace [mkAS (getZ (O:=ROps) zs' 0) (a_c s1) (a_n1 s1) (a_n2 s1) false false] st) (0, 0)) <> 2.
Proof.
  normR. intros H.
  match type of H with context [?a / ?b] => match b with context [Rplus] => replace b with (1 / 40) in H by lra end end.
  lra.
Qed.

(** image_solve divides by the slope behind the image surface; when the image surface separates two
    media (glass in image space, image surface created with its default 'air') that slope differs from the
    slope arriving and the marginal ray does not end on the axis.
    Witness: image plane at z = 10 between n = 2 and n = 1; ray y = 0, u = 1/10 from z = 0: y = 1, slope
    behind 1/5; the kernel moves the plane to 5 where the ray is at height 1/2. *)
Definition img := mkAS 10 0 2 1 false false.
Theorem image_solve_focus_refuted :
  let st := (0, 1 / 10, 0) in
  let rec := atrace [img] st in
  let zs' := k_c01_image_solve ROps (map fst rec) (map snd rec) [a_z img] in
  fst (nth 0 (atrace [mkAS (getZ (O:=ROps) zs' 0) 0 2 1 false false] st) (0, 0)) <> 0.
Proof.
  normR. intros H.
  match type of H with context [?a / ?b] => match b with context [Rplus] => replace b with (1 / 5) in H by lra end end.
  lra.
Qed.

(** D20  update() applies the pickups once, in declaration order: a chain declared target-first is left
    unsatisfied.  Witness: R2 = -R1 declared before R1 = -R0, after R0 was changed to 77. *)
Definition sf (R : R) : surf ROps := mkS (O:=ROps) 0 0 0 0 0 GStd R (Some 0) [] 0%nat 0%nat false false false.
Definition lchain : lens ROps :=
  mkL (O:=ROps) [sf 77; sf 50; sf (-50)] [1] 0 [] []
      [mkP (O:=ROps) 1 ARadius 2 (-1) 0; mkP (O:=ROps) 0 ARadius 1 (-1) 0] [] (EPDt, 1).
Theorem pickups_satisfied_after_update_refuted :
  match update lchain with
  | Some l' => exists p, In p (pickups l') /\
       match nth_error (surfs l') (Z.to_nat (pk_tgt p)), nth_error (surfs l') (Z.to_nat (pk_src p)) with
       | Some t, Some s => s_R t <> pk_scale p * s_R s + pk_offset p
       | _, _ => False
       end
  | None => False
  end.
Proof.
  normR. exists (mkP (O:=ROps) 1 ARadius 2 (-1) 0). split; [left; reflexivity|]. normR. intros H. lra.
Qed.

(** set_radius on a flat surface rebuilds it as StandardGeometry(radius, conic = 0): a conic constant set
    earlier (set_conic stores it on the Plane object and SurfaceGroup.conic reads it back) is lost, so
    the edit changes a second quantity. *)
Definition splane : surf ROps := mkS (O:=ROps) 0 0 0 0 0 GPlane 0 (Some (-1)) [] 0%nat 0%nat false false false.
Definition lplane : lens ROps := mkL (O:=ROps) [splane] [1] 0 [] [] [] [] (EPDt, 1).
Theorem set_radius_changes_only_radius_refuted :
  match set_radius lplane 50 0 with
  | Some l' => map conic_read (surfs l') <> map conic_read (surfs lplane)
  | None => False
  end.
Proof. normR. intros H. inversion H. lra. Qed.

(** set_thickness(v, 0) with the object at infinity: delta = v - 0 + (-inf) = -inf is added to every
    later vertex and then "positions -= positions[1]" computes (-inf) - (-inf): every vertex is NaN. *)
Theorem set_thickness_infinite_object_refuted :
  k_c01_set_thickness XOps (Fin 100) 0 [NInf; Fin 0; Fin 5; Fin 45] 4 = [NaN; NaN; NaN; NaN].
Proof. reflexivity. Qed.

(** a conic pickup whose source is a flat surface raises AttributeError (the model's [None]) although the
    conic of that surface reads 0 *)
Definition sflat : surf ROps := mkS (O:=ROps) 0 0 0 0 0 GPlane 0 None [] 0%nat 0%nat false false false.
Theorem conic_pickup_from_plane_raises :
  conic_read sflat = 0 /\
  pickup_apply (mkL (O:=ROps) [sflat; sf 50] [1] 0 [] [] [] [] (EPDt, 1)) (mkP (O:=ROps) 0 AConic 1 1 0) = None.
Proof. split; reflexivity. Qed.

(** * F_C01: clauses of C01 that the faithful model of the implementation REFUTES, with replayable
    witnesses (exact reals).  Compiled separately; never gates.
    The refutations of the solve height (D03), the image-solve focus, set_radius on a flat surface,
    set_thickness(v, 0) with an infinite object and the conic pickup from a flat surface were removed when
    /repo was repaired (fix: 0fb8939 a10a20f 301291d 6294181 0d43e86): those statements are now THEOREMS
    (Props/C01.v: C01_mrh_solve_places, C01_image_solve_places, C01_set_radius_keeps_conic,
    C01_set_thickness_infinite_object, C01_conic_pickup_succeeds). *)
From Coq Require Import Reals ZArith List Bool String Lia Lra.
From OV Require Import Ops RInst XR Gen.LensEdit Spec.S_ABCD Spec.S_C01 Model.Paraxial Model.M_C01
     Lemmas.L_Paraxial Lemmas.L_C01_solve.
Import ListNotations.
Local Open Scope R_scope.

Ltac normR := cbv -[ROps R R0 R1 Rplus Rminus Rmult Rdiv Ropp IZR Rinv not Rlt Rle Rgt Rge]; rops.

(** D20  update() applies the pickups once, in declaration order: a chain declared target-first is left
    unsatisfied.  Witness: R2 = -R1 declared before R1 = -R0, after R0 was changed to 77. *)
Definition sf (R : R) : surf ROps := mkS (O:=ROps) 0 0 0 0 0 GStd R (Some 0) [] 0%nat 0%nat false false false.
Definition lchain : lens ROps :=
  mkL (O:=ROps) [sf 77; sf 50; sf (-50)] [1] 0 [] []
      [mkP (O:=ROps) 1 ARadius 2 (-1) 0; mkP (O:=ROps) 0 ARadius 1 (-1) 0] [] (EPDt, 1).
Theorem pickups_satisfied_after_update_refuted :
  match update lchain with
  | Some l' => exists p, In p (pickups l') /\
       match nth_error (surfs l') (Z.to_nat (pk_tgt p)), nth_error (surfs l') (Z.to_nat (pk_src p)) with
       | Some t, Some s => s_R t <> pk_scale p * s_R s + pk_offset p
       | _, _ => False
       end
  | None => False
  end.
Proof.
  normR. exists (mkP (O:=ROps) 1 ARadius 2 (-1) 0). split; [left; reflexivity|]. normR. intros H. lra.
Qed.

(** set_index next to a mirror: only the two references on either side of the gap are replaced; the mirror's
    other side keeps the old medium, so a reflecting surface ends up between two different media. *)
Definition smir : surf ROps := mkS (O:=ROps) 0 0 5 0 0 GStd (-100) (Some 0) [] 0%nat 0%nat false true false.
Definition lmir : lens ROps := mkL (O:=ROps) [sf 50; smir; sf 80] [1.5] 0 [] [] [] [] (EPDt, 1).
Theorem set_index_keeps_mirror_media_refuted :
  match set_index lmir 1.41 0 with
  | Some l' => exists s, In s (surfs l') /\ s_refl s = true /\ s_mpre s <> s_mpost s
  | None => False
  end.
Proof.
  normR. eexists. split; [right; left; reflexivity|]. split; [reflexivity|]. cbn. discriminate.
Qed.

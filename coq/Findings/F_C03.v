(** Findings for C03 (compiled separately; never gates a verdict).

    The three refutations recorded here on 2026-09-30 were repaired in /repo and are no longer provable
    (the regenerated kernels changed), so the _refuted theorems are gone; the positive statements are now
    theorems of Props/C03.v and the former witnesses are Examples of Lemmas/L_C03_examples.v:

    - launch_forward_refuted (infinite object launched backwards when the entrance pupil lies left of the launch
      plane): fixed by 45f857e; now C03_launch_infinite_angle proves 0 < N for every EPD > 0, and
      ex_pupil_left_of_lens replays the old witness (EPL = -100, surfaces at 0, 5, 100).
    - telecentric_na_refuted (sin(theta) = NA whatever the object-space index): fixed by 105641c; now
      C03_launch_telecentric proves n0 sin(theta) = NA, ex_telecentric replays n0 = 4/3, NA = 1/10.
    - objectNA_infinite_not_rejected: fixed by 70bd414; the cell is the sixth rule of Spec.S_C03.rejected and part
      of C03_rejection_table.
    tools/props/C03.py::REGRESSION_CASES replays the three prescriptions on the implementation on every run. *)
From Coq Require Import Reals Bool String.
From OV Require Import Spec.S_C03 Lemmas.L_C03_examples.
Local Open Scope string_scope.

Theorem former_cell_now_rejected : rejected true "angle" false "objectNA" = true.
Proof. reflexivity. Qed.
Print Assumptions former_cell_now_rejected.

(** Findings for C03 (compiled separately; never gates a verdict).

    [launch_forward_refuted]: for an object at infinity the rays are launched from the plane
    z = positions[1] - (EPD - min z); when the paraxial entrance pupil lies to the LEFT of that plane
    (offset + EPL < 0) the direction handed to the trace points backwards (N < 0), so the ray does not travel
    at the field angle towards the lens and the trace returns NaN.  Witness: surfaces at z = 0, 5, stop at
    z = 100 imaged to EPL = -100 by an f = 50 lens, EPD = 10, field 5 deg.  Replay on /repo:
    tools/props/C03.py::BACKWARDS_REPLAY (singlet R = +-50, stop 95 behind it): generate_rays(0, 1, 0, 0.5) has N < 0.

    [telecentric_na_refuted]: in telecentric object space the marginal ray is launched with sin(theta) = NA,
    whatever the object-space index n0; the stated numerical aperture is n0 sin(theta) (the convention of
    Paraxial.EPD), so for n0 <> 1 the launched cone has NA n0 times too large.  Replay: TELE_NA_REPLAY.

    [objectNA_infinite_not_rejected]: the cell (infinite object, angle fields, objectNA) returns rays although
    an object-space NA has no meaning for an object at infinity (Paraxial.EPD is infinite there and the
    implementation's rays are NaN). *)
From Coq Require Import Reals Lra ZArith List Bool String.
From OV Require Import Ops OpsC03 RInst Gen.Standard Gen.RayGen Spec.S_C03 Lemmas.L_C03_launch.
Import ListNotations.
Local Open Scope string_scope.
Local Open Scope R_scope.

Definition f_pos : list R := [0; 0; 5; 100; 120].

Lemma f_offset : offset 10 f_pos = 10.
Proof.
  unfold offset, k_rg_z_offset, f_pos, min_list, sliceZ. cbn. rops.
  change (Pos.to_nat 3) with 3%nat. change (Pos.to_nat 1) with 1%nat. cbn [firstn skipn fold_left].
  assert (E : Rltb 5 0 = false) by (apply Rltb_false; lra).
  assert (E2 : Rltb 100 0 = false) by (apply Rltb_false; lra). rewrite E, E2. ring.
Qed.

Theorem launch_forward_refuted :
  exists Hy Px Py w mf EPL EPD pos r,
    k_rg_generate ROps 0 Hy Px Py w 0 0 mf true "angle" false EPL EPD pos 0 0 0 "EPD" EPD "ignore" false = Some r /\
    getZ (O := ROps) pos 1 = 0 /\ r_N r < 0.
Proof.
  exists 1, 0, (1/2), (55/100), 5, (-100), 10, f_pos. eexists. split; [reflexivity|]. split; [reflexivity|].
  match goal with |- r_N ?r < 0 =>
    pose proof (launch_infinite_angle 0 1 0 (1/2) (55/100) 0 0 5 (-100) 10 0 0 0 10 f_pos "EPD" "ignore" false r eq_refl eq_refl) as H end.
  rewrite f_offset in H. destruct (H ltac:(lra)) as (_ & _ & _ & _ & _ & Hneg). apply Hneg. lra.
Qed.
Print Assumptions launch_forward_refuted.

(** sin(theta) of the launched marginal ray equals the NA value for every object-space index: with n0 = 4/3 and
    NA = 1/10 the cone that should have sin(theta) = NA / n0 = 3/40 has sin(theta) = 1/10 *)
Theorem telecentric_na_refuted :
  exists (n0 NA : R) r,
    k_rg_generate ROps 0 0 0 1 (55/100) 0 0 4 false "object_height" true 0 0 [-100; 0; 50] 0 0 (-100) "objectNA" NA "ignore" false = Some r /\
    1 < n0 /\ r_M r = NA /\ r_M r <> NA / n0.
Proof.
  exists (4/3), (1/10). eexists. split; [reflexivity|]. split; [lra|].
  match goal with |- r_M ?r = _ /\ _ =>
    pose proof (launch_telecentric 0 0 0 1 (55/100) 0 0 4 0 0 0 0 (-100) (1/10) [-100; 0; 50] "ignore" false r eq_refl ltac:(lra)) as H end.
  destruct H as (_ & _ & _ & _ & _ & _ & _ & _ & Hm & _). destruct (Hm eq_refl eq_refl eq_refl) as [_ HM].
  rewrite HM. split; [reflexivity|lra].
Qed.
Print Assumptions telecentric_na_refuted.

(** the cell (infinite, angle, not telecentric, objectNA) is not rejected by the generator, for any inputs *)
Theorem objectNA_infinite_not_rejected :
  rejected true "angle" false "objectNA" = false.
Proof. reflexivity. Qed.
Print Assumptions objectNA_infinite_not_rejected.

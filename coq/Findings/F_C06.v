(** C06 finding image-surface-refracts, at model level (compiled separately, never gates).

    The full-strength clause "equal optical paths to a common image point give zero reported wavefront
    error" is REFUTED for the faithful model when the image lies inside glass and the image surface is an
    ordinary refracting surface with air behind it (what surface_factory builds): beyond the critical angle
    the refraction kernel returns NaN directions, and the path-to-reference-sphere kernel of
    optiland/wavefront.py, fed with those directions, returns NaN even though the ray sits exactly on the
    centre of the reference sphere.  Witness: n1 = 3 -> n2 = 1 at the plane z = const, ray direction
    (0, 3/5, 4/5)  (sin U' = 0.6 > 1/3).  Replayed on /repo by tools/props/C06.py::replay_finding. *)
From Coq Require Import Reals Lra.
From OV Require Import Ops RInst XR Gen.RealRays Gen.WavefrontC06.
Local Open Scope R_scope.

Lemma refract_tir_nan :
  k_refract XOps (Fin 0) (Fin 0) (Fin 1) (Fin 3) (Fin 1) (Fin 0) (Fin (3/5)) (Fin (4/5)) = (NaN, NaN, NaN).
Proof.
  unfold k_refract, k_align. xops.
  cbn [xdiv]. destruct (Req_EM_T 1 0) as [E|_]; [lra|].
  cbn [xadd xsub xmul xneg xabs xsign].
  set (rad := 1 + - (3 / 1 * (3 / 1) * (1 + - (Rabs (0 * 0 + 3 / 5 * 0 + 4 / 5 * 1) * Rabs (0 * 0 + 3 / 5 * 0 + 4 / 5 * 1))))).
  assert (Hr : rad < 0).
  { unfold rad. replace (0 * 0 + 3 / 5 * 0 + 4 / 5 * 1) with (4/5) by field.
    rewrite (Rabs_right (4/5)) by lra. lra. }
  cbn [xsqrt]. destruct (Rlt_dec rad 0) as [_|H]; [|contradiction].
  cbn. reflexivity.
Qed.

Lemma path_to_sphere_nan_direction xc yc zc R :
  k_c06_opd_image_to_xp XOps (Fin xc) (Fin yc) (Fin zc) (Fin R) (Fin xc) (Fin yc) (Fin zc) NaN NaN NaN = NaN.
Proof. unfold k_c06_opd_image_to_xp. xops. cbn. reflexivity. Qed.

Theorem C06_zero_wavefront_error_immersed_refuted :
  exists n1 n2 L M N : R,
    L*L + M*M + N*N = 1 /\ 1 < n1 /\ n2 = 1 /\
    (* the image-plane interface n1 | n2 turns the arriving direction into NaN ... *)
    k_refract XOps (Fin 0) (Fin 0) (Fin 1) (Fin n1) (Fin n2) (Fin L) (Fin M) (Fin N) = (NaN, NaN, NaN) /\
    (* ... and the wavefront kernel then reports NaN for a ray that is AT the image point *)
    forall xc yc zc R opl,
      k_c06_path_length XOps (Fin xc) (Fin yc) (Fin zc) (Fin R) (Fin opl) (Fin xc) (Fin yc) (Fin zc) NaN NaN NaN = NaN.
Proof.
  exists 3, 1, 0, (3/5), (4/5).
  split; [lra|]. split; [lra|]. split; [reflexivity|]. split; [exact refract_tir_nan|].
  intros. unfold k_c06_path_length. rewrite path_to_sphere_nan_direction. xops. reflexivity.
Qed.
Print Assumptions C06_zero_wavefront_error_immersed_refuted.

(** * C19 - findings: with the defect-site flags as they are on the unrepaired sources
    ([impl_broken]; the harness confirms each witness on /repo) the full-strength clauses fail.
    Compiled separately; never gates a verdict.  Witnesses over A := Z. *)
From Coq Require Import ZArith List String Bool.
From OV Require Import Spec.S_C19 Model.M_C19 Lemmas.L_C19 Lemmas.L_C19_Ex.
Import ListNotations.
Local Open Scope string_scope.
Local Open Scope Z_scope.

Definition impl_broken : impl := mkImpl false false false false true false.
Notation TD := (to_dict Z 0 0 1 (-1) cat impl_broken).
Notation FD := (from_dict Z 0 1 0 idl impl_broken).

Definition with_surfaces (l : lens Z) ss :=
  mkLens (l_ap l) (l_ftype l) ss (l_fields l) (l_fg_tele l) (l_waves l) (l_pol l) (l_pickups l) (l_solves l) (l_tele l).

(** D26: a Fresnel coating stores its two material objects in the dictionary: json.dump raises *)
Definition fresnel_lens : lens Z :=
  with_surfaces ex_lens
    [SObject Z (GPlane Z (cs0 (-100)) None) air;
     SStandard Z (GStd Z (cs0 0) 50 0) air (MIdeal Z 2 0) true None (Some (CFresnel Z air (MIdeal Z 2 0))) None false;
     SStandard Z (GPlane Z (cs0 90) None) (MIdeal Z 2 0) (MIdeal Z 2 0) false None None None false].

Theorem fresnel_coating_json_refuted :
  exists l, wf Z idl l /\ loadable impl_broken l = true /\ json_file_roundtrip (TD l) = None.
Proof. exists fresnel_lens. split; [exact ex_wf|]. split; reflexivity. Qed.

(** ... although the in-memory dictionary round trip works (the objects are passed through) *)
Example fresnel_dict_roundtrip_ok : FD (fun l => l) (TD fresnel_lens) = Some fresnel_lens.
Proof. vm_compute. reflexivity. Qed.

(** D27: a PolarizationState is stored as an object *)
Definition pol_lens : lens Z :=
  mkLens (l_ap ex_lens) (l_ftype ex_lens) (l_surfs ex_lens) (l_fields ex_lens) false (l_waves ex_lens)
         (PState Z true (Some 1) (Some 0) (Some 0) (Some 0)) [] [] false.

Theorem polarization_json_refuted :
  exists l, wf Z idl l /\ loadable impl_broken l = true /\ json_file_roundtrip (TD l) = None.
Proof. exists pol_lens. split; [exact ex_wf|]. split; reflexivity. Qed.

(** a lens whose last surface is an ImageSurface instance saves but cannot be loaded (TypeError) *)
Definition image_lens : lens Z :=
  with_surfaces ex_lens [SObject Z (GPlane Z (cs0 (-100)) None) air; SImage Z (GPlane Z (cs0 0) None) air None].

Theorem image_surface_reload_refuted :
  exists l, wf Z idl l /\ json_safe (TD l) = true /\ forall ap, FD ap (TD l) = None.
Proof. exists image_lens. split; [exact ex_wf|]. split; [reflexivity|]. intros ap. reflexivity. Qed.

(** a lens without a system aperture saves ('aperture': None) but cannot be loaded (TypeError) *)
Definition no_ap_lens : lens Z :=
  mkLens None (l_ftype ex_lens) (l_surfs ex_lens) (l_fields ex_lens) false (l_waves ex_lens) (PIgnore Z) [] [] false.

Theorem no_aperture_reload_refuted :
  exists l, wf Z idl l /\ json_safe (TD l) = true /\ forall ap, FD ap (TD l) = None.
Proof. exists no_ap_lens. split; [exact ex_wf|]. split; [reflexivity|]. intros ap. reflexivity. Qed.

(** pickups are re-applied while loading: a lens saved between an edit of a pickup source and the next
    update() comes back different (here: [apply] is the pickup "radius of 2 := -1 * radius of 1" and the
    saved lens has radius 50 on surface 1 but -70 on surface 2) *)
Definition stale_lens : lens Z := apply_edit Z 0 ex_lens (ESetRadius Z 2 (-70)).
Definition apply_radius_pickup (l : lens Z) : lens Z := apply_edit Z 0 l (ESetRadius Z 2 (-50)).

Theorem stale_pickup_reload_refuted :
  exists l apply l', wf Z idl l /\ FD apply (TD l) = Some l' /\ l' <> l.
Proof.
  exists stale_lens, apply_radius_pickup, (apply_radius_pickup stale_lens).
  split; [exact ex_wf|]. split; [vm_compute; reflexivity|]. vm_compute. intros H. discriminate H.
Qed.

(** a conic constant kept on a flat surface (set_conic on a plane / set_radius(inf) on a conic) is not written:
    the lens comes back without it *)
Definition plane_conic_lens : lens Z :=
  with_surfaces ex_lens
    [SObject Z (GPlane Z (cs0 (-100)) None) air;
     SStandard Z (GPlane Z (cs0 0) (Some (-1))) air air true None None None false;
     SStandard Z (GPlane Z (cs0 90) None) air air false None None None false].

Theorem plane_conic_reload_refuted :
  exists l l', wf Z idl l /\ json_safe (TD l) = true /\ FD (fun l => l) (TD l) = Some l' /\ l' <> l.
Proof.
  exists plane_conic_lens. eexists. split; [exact ex_wf|]. split; [reflexivity|]. split; [vm_compute; reflexivity|].
  intros H. discriminate H.
Qed.

(** * F_C13: HISTORY.  The code as it was before fix 4ab4abd (D12) violated C13; the refutations below are about the
    in-place form [tg_scale true] and are kept as the record of the defect.  The repaired out-of-place form
    [tg_scale false] is the one the gating theorems (Props/C13.v: caller_arrays_unchanged, trace_generic_args_safe,
    tg_scale_twice_same) are about, and tools/props/C13.py selects the form from the CURRENT source on every run
    (c13lib.inplace_params) and replays the original input, so a regression alarms.
    Compiled separately; never gates the check. *)
From Coq Require Import Reals Lra List.
From OV Require Import Ops RInst Model.M_C13 Spec.S_C13 Lemmas.L_C13.
Import ListNotations.
Local Open Scope R_scope.

(** D12 (trace-generic-mutates-caller-arrays): Optic.trace_generic does `Px *= (1 - vx)`.  For an ndarray
    argument the augmented assignment writes through to the caller's array: Px = [1], vx = 1/2 comes back
    as [1/2]. *)
Theorem trace_generic_mutates_refuted :
  exists (P : list R) (v : R), snd (tg_scale (O := ROps) true P v) <> P.
Proof.
  exists [1], (1 / 2). unfold tg_scale; simpl. rops. intros H. injection H as H. lra.
Qed.

Theorem trace_generic_not_caller_safe_refuted :
  ~ (forall v : R, caller_safe (fun P => tg_scale (O := ROps) true P v)).
Proof.
  intros H. specialize (H (1 / 2) [1]). unfold tg_scale in H; simpl in H. rops. injection H as H. lra.
Qed.

(** consequence: the same call repeated with the same (caller-owned) array traces different rays:
    first call uses Px (1 - vx), the second Px (1 - vx)^2 *)
Theorem trace_generic_not_repeatable_refuted :
  exists (P : list R) (v : R),
    fst (tg_scale_twice (O := ROps) true P v) <> snd (tg_scale_twice (O := ROps) true P v).
Proof.
  exists [1], (1 / 2). unfold tg_scale_twice, tg_scale; simpl. rops. intros H. injection H as H. lra.
Qed.

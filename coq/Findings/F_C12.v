(** * F_C12: the code AS WRITTEN violates C12 (witnesses replayed on /repo by tools/props/C12.py).
    Compiled separately; never gates the check. *)
From Coq Require Import String Reals Lra Lia ZArith List Bool PrimFloat.
From OV Require Import Ops RInst FloatInst Num.OpsC12 Gen.Analysis Model.M_C12 Spec.S_C12
  Lemmas.L_C12_lists Lemmas.L_C12_spot Lemmas.L_C12_misc.
Import ListNotations.
Local Open Scope R_scope.
Local Open Scope list_scope.

(** D18 (explicit-wavelengths-reference), SpotDiagram / RmsSpotSizeVsField: the reference spot is looked up with the
    lens's OWN primary index in the list the diagram was built for.
    (a) the explicit list is shorter than that index: IndexError although every spot was traced; *)
Theorem spot_reference_index_error_refuted :
  exists (ws : list R) (trace : R -> spot ROps) (pidx : nat),
    ws <> [] /\ M_C12.centroid (O := ROps) (Z.of_nat pidx) [map trace ws] = None.
Proof.
  exists [1/2], (fun w => mkSpot (O := ROps) [w] [w] [1]), 1%nat.
  split; [discriminate|]. reflexivity.
Qed.

(** (b) the explicit list holds the primary wavelength, but at another position: the reference is the centroid of a
    different wavelength's spot (lens wavelengths 0.48 and 0.55 with 0.55 primary; explicit list 0.55, 0.48) *)
Theorem spot_reference_wrong_refuted :
  exists (ws : list R) (trace : R -> spot ROps) (wp : R) (pidx : nat) c,
    In wp ws /\ M_C12.centroid1 (O := ROps) (Z.of_nat pidx) (map trace ws) = Some c /\
    c <> (mean_ (O := ROps) (sx (trace wp)), mean_ (O := ROps) (sy (trace wp))).
Proof.
  exists [55/100; 48/100], (fun w => mkSpot (O := ROps) [w] [w] [1]), (55/100), 1%nat, (48/100, 48/100).
  split; [left; reflexivity|]. split.
  - unfold M_C12.centroid1, mean_, sum_list. cbn. change (Pos.to_nat 1) with 1%nat. cbn. f_equal. f_equal; lra.
  - unfold mean_, sum_list. cbn. intros H. injection H as H _. lra.
Qed.

(** D18, RayFan: the reference is fetched under the key of the lens's primary wavelength: KeyError when the explicit
    list does not contain it *)
Theorem rayfan_key_error_refuted :
  exists (ws : list R) (wref : R) (n : Z) (fans : list (fan ROps)),
    ws <> [] /\ List.length fans = List.length ws /\ rayfan_field (O := ROps) ws wref n fans = None.
Proof.
  exists [1/2], (55/100), 5%Z, [mkFan (O := ROps) [0] [1] [0] [1]].
  split; [discriminate|]. split; [reflexivity|].
  apply rayfan_key_error. intros [H|[]]. lra.
Qed.

(** ** binary64 witnesses (the regenerated kernels executed on PrimFloat) *)
Local Open Scope float_scope.

(** grid-distortion-centre-sample: an odd number of grid points puts a sample on the axis, where the predicted radius
    is 0: 0/0 = NaN, and np.max propagates it.  3 x 3 grid of a distortion-free f-theta lens. *)
Definition grid3_H : list float := [-1; 0; 1].
Definition grid3_Hx : list float := grid3_H ++ grid3_H ++ grid3_H.
Definition grid3_Hy : list float := [-1; -1; -1; 0; 0; 0; 1; 1; 1].
Definition grid3_check : bool :=
  match k_grid_distortion FOps "f-theta" 1e-10 (180 / F_pi) grid3_Hx grid3_Hy
          (map (fun h => - h) grid3_Hx) grid3_Hy with
  | Some (_, _, _, _, m) => F_isnan m
  | None => false
  end.
Example grid_centre_sample_nan : grid3_check = true.
Proof. vm_compute. reflexivity. Qed.

(** the same lens on a 2 x 2 grid (no sample on the axis) reports (almost) no distortion *)
Definition grid2_check : bool :=
  match k_grid_distortion FOps "f-theta" 1e-10 (180 / F_pi) [-1; 1; -1; 1] [-1; -1; 1; 1]
          [1; -1; 1; -1] [-1; -1; 1; 1] with
  | Some (_, _, _, _, m) => (m <? 1e-9) && (0 <=? m)
  | None => false
  end.
Example grid_even_ok : grid2_check = true.
Proof. vm_compute. reflexivity. Qed.

(** D16 (distortion-object-height-tan): for object-HEIGHT fields the reference is still c tan(H radians(h_max)).
    A perfectly linear finite-conjugate lens (image height = -2 x object height, h_max = 20 mm) is reported with
    about -4 % distortion at the edge of the field. *)
Definition d16_Hy : list float := [1e-10; 0.5; 1].
Definition d16_check : bool :=
  match k_distortion_ftan FOps d16_Hy [0.55] (map (fun h => -2 * (20 * h)) d16_Hy) 20 with
  | Some [d] => nth 2 d 0 <? -3
  | _ => false
  end.
Example distortion_object_height_nonzero : d16_check = true.
Proof. vm_compute. reflexivity. Qed.

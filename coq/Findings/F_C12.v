(** * F_C12: behaviours of the analyses BEFORE the repairs committed in /repo (2484c60, a9fc355, 01b2de4, 482c56a),
    kept as refutations of the pre-fix lookups (indexing the explicit list with the lens's own primary index, keying the
    fan by the lens's primary wavelength).  The repaired rule is proved in Lemmas/L_C12_spot.v / L_C12_misc.v
    (centroid_reference_*, rayfan_field_total); binary64 regression examples are in Lemmas/L_C12_float.v.
    Compiled separately; never gates the check. *)
From Coq Require Import String Reals Lra Lia ZArith List Bool.
From OV Require Import Ops RInst Num.OpsC12 Gen.Analysis Model.M_C12 Spec.S_C12
  Lemmas.L_C12_lists Lemmas.L_C12_spot Lemmas.L_C12_misc.
Import ListNotations.
Local Open Scope R_scope.
Local Open Scope list_scope.

(** D18 (explicit-wavelengths-reference), SpotDiagram / RmsSpotSizeVsField: the reference spot is looked up with the
    lens's OWN primary index in the list the diagram was built for.
    (a) the explicit list is shorter than that index: IndexError although every spot was traced; *)
Theorem spot_reference_index_error_refuted :
  exists (ws : list R) (trace : R -> spot ROps) (pidx : nat),
    ws <> [] /\ M_C12.centroid (O := ROps) (Z.of_nat pidx) [map trace ws] = None.
Proof.
  exists [1/2], (fun w => mkSpot (O := ROps) [w] [w] [1]), 1%nat.
  split; [discriminate|]. reflexivity.
Qed.

(** (b) the explicit list holds the primary wavelength, but at another position: the reference is the centroid of a
    different wavelength's spot (lens wavelengths 0.48 and 0.55 with 0.55 primary; explicit list 0.55, 0.48) *)
Theorem spot_reference_wrong_refuted :
  exists (ws : list R) (trace : R -> spot ROps) (wp : R) (pidx : nat) c,
    In wp ws /\ M_C12.centroid1 (O := ROps) (Z.of_nat pidx) (map trace ws) = Some c /\
    c <> (mean_ (O := ROps) (sx (trace wp)), mean_ (O := ROps) (sy (trace wp))).
Proof.
  exists [55/100; 48/100], (fun w => mkSpot (O := ROps) [w] [w] [1]), (55/100), 1%nat, (48/100, 48/100).
  split; [left; reflexivity|]. split.
  - unfold M_C12.centroid1, mean_, sum_list. cbn. change (Pos.to_nat 1) with 1%nat. cbn. f_equal. f_equal; lra.
  - unfold mean_, sum_list. cbn. intros H. injection H as H _. lra.
Qed.

(** D18, RayFan: the reference is fetched under the key of the lens's primary wavelength: KeyError when the explicit
    list does not contain it *)
Theorem rayfan_key_error_refuted :
  exists (ws : list R) (wref : R) (n : Z) (fans : list (fan ROps)),
    ws <> [] /\ List.length fans = List.length ws /\ rayfan_field (O := ROps) ws wref n fans = None.
Proof.
  exists [1/2], (55/100), 5%Z, [mkFan (O := ROps) [0] [1] [0] [1]].
  split; [discriminate|]. split; [reflexivity|].
  apply rayfan_key_error. intros [H|[]]. lra.
Qed.


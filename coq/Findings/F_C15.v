(** * F_C15: refuted clauses of C15 on the faithful concrete model (exact reals), with replayable witnesses.
    Compiled separately; never gates. *)
From Coq Require Import ZArith List Bool Reals Lra.
From OV Require Import Ops RInst Gen.TolC15 Model.M_C15.
Import ListNotations.
Local Open Scope R_scope.

Definition gnR (id : nat) (w : R) : R := 1.5 + w / 10.       (* any dispersive glass: n depends on w *)
Definition S (k : gk) (r z : R) (m : medium (O:=ROps)) : surf (O:=ROps) := mkS (O:=ROps) k r 0 z 0 0 0 0 [] m [].
Definition air : medium (O:=ROps) := MIdeal (O:=ROps) 1 0.
Definition vg := cget (O:=ROps) gnR.
Definition vs := cset (O:=ROps).
Definition up := cupd (O:=ROps) gnR.
Ltac norm H := cbv -[ROps R R0 R1 Rplus Rminus Rmult Rdiv Ropp IZR Rinv] in H.
Definition draw0 (g : unit) (_ : unit) : option (R * unit) := Some (0, g).

(** D15 (repaired in /repo 20368e1; [mc_run] is the model of the ORIGINAL code, the repaired code is [mc_run_fixed]):
    MonteCarlo.run leaves the lens at the last trial (no final reset).
    Witness: singlet, radius of surface 1 perturbed by ScalarSampler(65), one trial. *)
Definition lA : clens (O:=ROps) := mkL (O:=ROps) [S GPlane 0 (-100) air; S GStd 60 0 (MIdeal (O:=ROps) 1.5 0); S GStd (-60) 5 air; S GPlane 0 95 air] [].
Definition hA : handle (O:=ROps) := mkH (O:=ROps) HRadius 1 0 0 false 0.
Theorem montecarlo_ends_nominal_refuted :
  match mc_run (O:=ROps) vg vs up (fun _ => []) draw0
               (map (mkvar vg lA) [hA]) [] [[]] (mkSt lA [SScalar (O:=ROps) unit 65] tt) with
  | Some (s', rows) => length rows = 1%nat /\ lens s' <> lA
  | None => False end.
Proof.
  cbv -[ROps R R0 R1 Rplus Rminus Rmult Rdiv Ropp IZR Rinv not]. split; [reflexivity|].
  intro Heq. inversion Heq. rops. lra.
Qed.

(** plane-radius-reset was repaired in /repo (Optic.set_radius keeps / restores the Plane for an infinite radius); the
    model's [set_rad] follows.  Over the reals [isinf_] is constantly false, so the clause is exercised by the execution
    check (scenario t-plane of tools/props/C15.py) only. *)
Definition lB : clens (O:=ROps) := mkL (O:=ROps) [S GPlane 0 (-100) air; S GPlane 0 0 (MIdeal (O:=ROps) 1.5 0); S GStd (-60) 5 air; S GPlane 0 95 air] [].

(** D23: an index perturbation on a catalogue glass is reset to a dispersion-free IdealMaterial. *)
Definition lC : clens (O:=ROps) := mkL (O:=ROps) [S GPlane 0 (-100) air; S GStd 60 0 (MGlass (O:=ROps) 0); S GStd (-60) 5 air; S GPlane 0 95 air] [].
Definition hC : handle (O:=ROps) := mkH (O:=ROps) HIndex 1 0 (55 / 100) false 0.
Theorem reset_index_material_refuted :
  let l' := treset vs up (map (mkvar vg lC) [hC]) [] lC in
  l' <> lC /\ vg l' (mkH (O:=ROps) HIndex 1 0 (45 / 100) false 0) <> vg lC (mkH (O:=ROps) HIndex 1 0 (45 / 100) false 0).
Proof.
  split.
  - intro Heq. norm Heq. discriminate Heq.
  - intro Heq. norm Heq. rops. lra.
Qed.

(** reset-skips-update was repaired in /repo (40156c7: Tolerancing.reset ends with Optic.update()); the model's
    [treset] follows.  The former witness (radius(2) := -1 * radius(1); radius(1) perturbed to 65; one evaluation of the
    compensator) now ends at the nominal lens: *)
Definition lD : clens (O:=ROps) := mkL (O:=ROps) (surfs lA) [mkP (O:=ROps) 1 PRadius 2 (-1) 0].
Definition hD : handle (O:=ROps) := mkH (O:=ROps) HConic 2 0 0 true 0.
Example sensitivity_ends_nominal_pickup_witness_now_nominal :
  match sens_run (O:=ROps) vg vs up (fun _ => []) draw0
                 (map (mkvar vg lD) [hA]) (map (mkvar vg lD) [hD]) [[[0]]]
                 (mkSt lD [SRange (O:=ROps) unit [65] 0] tt) with
  | Some (s', rows) => length rows = 1%nat /\ lens s' = lD
  | None => False end.
Proof.
  cbv -[ROps R R0 R1 Rplus Rminus Rmult Rdiv Ropp IZR Rinv not]. split; [reflexivity|].
  rops. repeat (f_equal; try lra).
Qed.

(** Property C09: no refuted statement remains.  The four refutations that stood here before the repairs
    (vignetting factors ignored by the tilt term, image-space index, object-space index, signed maximum y field)
    became false when proposed_fixes/C09-*.diff were applied: the corresponding full-strength theorems are
    tilt_matches_launch, path_length_is_path_to_sphere and opd_definition_infinite / _finite (coq/Props/C09.v). *)

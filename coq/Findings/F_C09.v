(** Refuted full-strength statements of property C09 with their witnesses (each witness is replayed on
    /repo by tools/props/C09.py and listed in known_findings.d/C09.json).  Compiled separately; never gates. *)
From Coq Require Import Reals Lra Lia ZArith List String Psatz.
From OV Require Import Ops RInst Num.OpsC09 Gen.Wavefront Model.Trace Model.M_C09 Spec.S_C09
     Lemmas.L_C09_sphere Lemmas.L_C09_tilt.
Import ListNotations.
Local Open Scope R_scope.

Lemma rad30 : rad (30 * 1) = PI / 6.
Proof. unfold rad. field. Qed.
Lemma cos_PI6_pos : 0 < cos (PI / 6).
Proof. rewrite cos_PI6. apply Rdiv_lt_0_compat; [apply sqrt_lt_R0|]; lra. Qed.

(** D17: a vignetting factor at the field (vy = 1/2).  The ray is launched from the pupil point scaled by
    (1 - vy)^2 but the tilt term is taken at the unscaled distribution point: the reported difference is
    NOT the path difference from a common wavefront.
    Witness: EPD 10, field 30 deg (Hy = 1), pupil point (0, 1): error 10/2 * (1/2 - 1/4 * 1/2) = 15/8 mm. *)
Theorem tilt_with_vignetting_refuted :
  exists (c : launchcfg ROps) (w Hy dx dy vx vy p q maxx : R) (r r0 : ray ROps),
    lc_infinite c = true /\ lc_angle c = true /\ lc_pos1 c = 0 /\
    0 < lc_EPD c - lc_minpos c + lc_EPL c /\ 0 < cos (rad (lc_maxfield c * Hy)) /\
    launch c w 0 Hy (scaled (O:=ROps) dx vx) (scaled (O:=ROps) dy vy) vx vy = Some r /\
    launch c w 0 Hy (scaled (O:=ROps) 0 vx) (scaled (O:=ROps) 0 vy) vx vy = Some r0 /\
    k_wf_tilt_xy ROps p 0 0 "angle" 0 Hy maxx (lc_maxfield c) (lc_EPD c)
    - k_wf_tilt_dist ROps q "angle" 0 Hy maxx (lc_maxfield c) dx dy (lc_EPD c)
    <> (p - q) - plane_wave_path 1 (rL r, rM r, rN r) (rx r0, ry r0, rz r0) (rx r, ry r, rz r).
Proof.
  pose proof (launch_inf_unfold lc_example eq_refl eq_refl (55/100) 0 1 (scaled (O:=ROps) 0 0) (scaled (O:=ROps) 1 (1/2)) 0 (1/2)) as Hr.
  pose proof (launch_inf_unfold lc_example eq_refl eq_refl (55/100) 0 1 (scaled (O:=ROps) 0 0) (scaled (O:=ROps) 0 (1/2)) 0 (1/2)) as Hr0.
  eexists lc_example, (55/100), 1, 0, 1, 0, (1/2), 0, 0, 0, _, _.
  assert (Hc : 0 < cos (rad (lc_maxfield lc_example * 1))) by (cbn [lc_maxfield lc_example]; rewrite rad30; exact cos_PI6_pos).
  assert (HD : 0 < lc_EPD lc_example - lc_minpos lc_example + lc_EPL lc_example) by (cbn; lra).
  split; [reflexivity|]. split; [reflexivity|]. split; [reflexivity|]. split; [exact HD|]. split; [exact Hc|].
  split; [exact Hr|]. split; [exact Hr0|].
  rewrite (tilt_vs_launch lc_example (55/100) 1 0 1 0 (1/2) 0 0 0 (lc_maxfield lc_example) _ _ eq_refl eq_refl eq_refl HD Hc Hr Hr0).
  cbn [lc_maxfield lc_EPD lc_example]. rewrite rad30, sin_PI6. lra.
Qed.

(** fields.max_y_field is the SIGNED maximum of the y fields while the launch uses the radial maximum:
    with fields {0, -30 deg} max_y_field = 0 and the field Hy = -1 gets no tilt term at all. *)
Theorem tilt_signed_max_field_refuted :
  exists (c : launchcfg ROps) (w Hy dx dy p q maxx maxy : R) (r r0 : ray ROps),
    lc_infinite c = true /\ lc_angle c = true /\ lc_pos1 c = 0 /\
    0 < lc_EPD c - lc_minpos c + lc_EPL c /\ 0 < cos (rad (lc_maxfield c * Hy)) /\
    launch c w 0 Hy (scaled (O:=ROps) dx 0) (scaled (O:=ROps) dy 0) 0 0 = Some r /\
    launch c w 0 Hy (scaled (O:=ROps) 0 0) (scaled (O:=ROps) 0 0) 0 0 = Some r0 /\
    maxy = 0 /\ lc_maxfield c = 30 /\
    k_wf_tilt_xy ROps p 0 0 "angle" 0 Hy maxx maxy (lc_EPD c)
    - k_wf_tilt_dist ROps q "angle" 0 Hy maxx maxy dx dy (lc_EPD c)
    <> (p - q) - plane_wave_path 1 (rL r, rM r, rN r) (rx r0, ry r0, rz r0) (rx r, ry r, rz r).
Proof.
  pose proof (launch_inf_unfold lc_example eq_refl eq_refl (55/100) 0 (-1) (scaled (O:=ROps) 0 0) (scaled (O:=ROps) 1 0) 0 0) as Hr.
  pose proof (launch_inf_unfold lc_example eq_refl eq_refl (55/100) 0 (-1) (scaled (O:=ROps) 0 0) (scaled (O:=ROps) 0 0) 0 0) as Hr0.
  assert (Hrad : rad (lc_maxfield lc_example * -1) = - (PI / 6)) by (cbn [lc_maxfield lc_example]; unfold rad; field).
  eexists lc_example, (55/100), (-1), 0, 1, 0, 0, 0, 0, _, _.
  assert (Hc : 0 < cos (rad (lc_maxfield lc_example * -1))) by (rewrite Hrad, cos_neg; exact cos_PI6_pos).
  assert (HD : 0 < lc_EPD lc_example - lc_minpos lc_example + lc_EPL lc_example) by (cbn; lra).
  split; [reflexivity|]. split; [reflexivity|]. split; [reflexivity|]. split; [exact HD|]. split; [exact Hc|].
  split; [exact Hr|]. split; [exact Hr0|]. split; [reflexivity|]. split; [reflexivity|].
  rewrite (tilt_vs_launch lc_example (55/100) (-1) 0 1 0 0 0 0 0 0 _ _ eq_refl eq_refl eq_refl HD Hc Hr Hr0).
  rewrite Hrad, sin_neg, sin_PI6. cbn [lc_EPD lc_example].
  replace (rad (0 * -1)) with 0 by (unfold rad; field). rewrite sin_0. lra.
Qed.

(** _get_path_length subtracts the geometric distance image -> sphere: in an image space of index 2 that is
    not the optical path (witness: chief ray, unit direction, R = 5, recorded path 10: 5 instead of 0) *)
Theorem path_length_ignores_image_index_refuted :
  exists (n_img opd xc yc zc Rr L M N : R),
    L * L + M * M + N * N = 1 /\ 0 <= Rr /\
    k_wf_get_path_length ROps xc yc zc Rr [opd] [xc] [yc] [zc] [L] [M] [N]
    <> path_to_sphere 0 opd n_img (t_xp xc yc zc Rr xc yc zc L M N [] [] [] [] [] []).
Proof.
  exists 2, 10, 0, 0, 0, 5, 0, 0, 1.
  split; [ring|]. split; [lra|].
  pose proof (path_length_unfold 0 0 0 5 10 0 0 0 0 0 1 [] [] [] [] [] [] []) as Hp. cbn [app] in Hp. rops. rewrite Hp.
  rewrite (image_to_xp_chief 0 0 0 5 0 0 1 [] [] [] [] [] []) by (try ring; lra).
  unfold path_to_sphere. lra.
Qed.

(** the tilt term has no object-space index: in an object space of index 2 the subtracted offset is half the
    optical path from the common wavefront (same witness as the example of L_C09_tilt, no vignetting) *)
Theorem tilt_ignores_object_index_refuted :
  exists (n_obj : R) (c : launchcfg ROps) (w Hy dx dy p q maxx : R) (r r0 : ray ROps),
    lc_infinite c = true /\ lc_angle c = true /\ lc_pos1 c = 0 /\
    0 < lc_EPD c - lc_minpos c + lc_EPL c /\ 0 < cos (rad (lc_maxfield c * Hy)) /\
    launch c w 0 Hy (scaled (O:=ROps) dx 0) (scaled (O:=ROps) dy 0) 0 0 = Some r /\
    launch c w 0 Hy (scaled (O:=ROps) 0 0) (scaled (O:=ROps) 0 0) 0 0 = Some r0 /\
    k_wf_tilt_xy ROps p 0 0 "angle" 0 Hy maxx (lc_maxfield c) (lc_EPD c)
    - k_wf_tilt_dist ROps q "angle" 0 Hy maxx (lc_maxfield c) dx dy (lc_EPD c)
    <> (p - q) - plane_wave_path n_obj (rL r, rM r, rN r) (rx r0, ry r0, rz r0) (rx r, ry r, rz r).
Proof.
  pose proof (launch_inf_unfold lc_example eq_refl eq_refl (55/100) 0 1 (scaled (O:=ROps) 0 0) (scaled (O:=ROps) 1 0) 0 0) as Hr.
  pose proof (launch_inf_unfold lc_example eq_refl eq_refl (55/100) 0 1 (scaled (O:=ROps) 0 0) (scaled (O:=ROps) 0 0) 0 0) as Hr0.
  eexists 2, lc_example, (55/100), 1, 0, 1, 0, 0, 0, _, _.
  assert (Hc : 0 < cos (rad (lc_maxfield lc_example * 1))) by (cbn [lc_maxfield lc_example]; rewrite rad30; exact cos_PI6_pos).
  assert (HD : 0 < lc_EPD lc_example - lc_minpos lc_example + lc_EPL lc_example) by (cbn; lra).
  split; [reflexivity|]. split; [reflexivity|]. split; [reflexivity|]. split; [exact HD|]. split; [exact Hc|].
  split; [exact Hr|]. split; [exact Hr0|].
  rewrite (tilt_matches_launch_partial lc_example (55/100) 1 0 1 0 0 0 _ _ eq_refl eq_refl eq_refl HD Hc Hr Hr0).
  destruct (launch_dir_y lc_example eq_refl eq_refl (55/100) 1 _ _ 0 0 _ eq_refl HD Hc Hr) as [HL [HM _]].
  cbn [rL rM rN] in HL, HM.
  unfold plane_wave_path, dot3, sub3, px, py, pz. cbn [fst snd rx ry rz rL rM rN]. rops.
  rewrite HL, HM. cbn [lc_maxfield lc_EPD lc_example]. rewrite rad30, sin_PI6. unfold scaled. rops. lra.
Qed.

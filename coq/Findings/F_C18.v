(** Findings for C18 (compiled separately; never gates a verdict).

    [multi_formula_refuted]: a data file that defines a dispersion relation twice (a formula AND a
    tabulated n,k table -- organic/(C6H9NO)n - polyvinylpyrrolidone/Konig.yml, two catalogue rows)
    cannot be loaded: `_set_formula_type` raises "Multiple refractive index formulas found", so no
    index is returned although the entry defines one.  Replay on /repo:
      MaterialFile('<repo>/database/data-nk/organic/(C6H9NO)n - polyvinylpyrrolidone/Konig.yml') *)
From Coq Require Import Reals ZArith List.
From OV Require Import Ops RInst Spec.S_C18 Model.M_C18.
Import ListNotations.
Local Open Scope R_scope.

Theorem multi_formula_refuted :
  exists secs : list (section (O := ROps)),
    (exists s w n, In s secs /\ section_n s w = Some n) /\ forall w, file_n secs w = None.
Proof.
  exists [SFormula (O := ROps) 5 [3/2; 0; 0]; STabNK (O := ROps) [(1, 3/2, 0)]].
  split.
  - exists (SFormula (O := ROps) 5 [3/2; 0; 0]), 1, (3/2 + 0 * Rpow 1 0). split; [left; reflexivity | reflexivity].
  - intros w. reflexivity.
Qed.
Print Assumptions multi_formula_refuted.

(** C10 findings (compiled separately, never gates a verdict).

    fit-abs-gtol: on exact data of tiny magnitude ZernikeFit returns the all-zero coefficient vector
    (scipy least_squares stops at the initial guess on its absolute gradient tolerance).  Formally: the
    all-zero output is NOT a least-squares minimiser for non-zero exact data, i.e. on such inputs the
    implementation's solver does not satisfy the hypothesis [lstsq_min] under which
    [C10_zernike_fit_recovers] / [C10_zernike_fit_linear] hold.
    Replay on /repo:  ZernikeFit(x, y, 1e-11 * ZernikeFringe(c).poly(r, phi), 'fringe', 5).coeffs == [0,0,0,0,0]
    (tools/props/C10.py, replay_finding). *)
From Coq Require Import Reals Lra List ZArith.
From OV Require Import Ops RInst Model.M_C10 Gen.Zernike Lemmas.L_C10_fit.
Import ListNotations.
Local Open Scope R_scope.

Theorem fit_zero_output_refuted :
  exists (pts : list (R * R)) (N : nat) (c0 : list R),
    length c0 = N /\ c0 <> [0] /\
    injective_design (family_term 2) (family_indices 2) pts N /\
    ~ lstsq_min (family_term 2) (family_indices 2) pts N [0]
        (design (family_term 2) (family_indices 2) pts c0).
Proof.
  exists [(0, 0)], 1%nat, [/ 100000000000]. destruct fit_example as [Inj _].
  split; [reflexivity|]. split; [intros H; injection H as H; lra|]. split; [exact Inj|].
  intros M. pose proof (zernike_fit_recovers 2 [(0, 0)] 1 [/ 100000000000] [0] _ Inj eq_refl eq_refl M) as E.
  injection E as E. lra.
Qed.
Print Assumptions fit_zero_output_refuted.

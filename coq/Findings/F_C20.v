(** * C20 - refutations (listed findings; compiled separately, never gate a verdict)

    D22: the last SURF block of the file is never stored by the reader; the converter appends a default
         plane instead, so a curved (or aspheric / glass / stop) image surface is imported as a plane.
    D21: the glass lookup is a substring search over every catalogue column, so a name that is in no glass
         catalogue still resolves to whatever entry contains it, and the n_d / V_d written on the GLAS line
         are ignored. *)
From Coq Require Import ZArith List String Bool PrimFloat.
From OV Require Import Ops FloatInst Model.M_C20 Model.M_C20_exec Spec.S_C20.
Import ListNotations.
Local Open Scope string_scope.
Local Open Scope list_scope.

Definition f_show (x : float) : string := "1.0".
Definition f_showZ (z : Z) : string := "0".
Definition no_catalogue (n : string) (r : option string) : bool := false.

(** object at infinity, one curved surface (the stop), and an image surface with curvature 0.5 (radius 2) *)
Definition d22_presc : @presc FOps :=
  @mkPresc FOps (@AEnpd FOps 10%float) false [(0%float, 0%float)] [] [0.55%float] [] 1 None
    (@mkP FOps false (@PStandard FOps) 0%float (@TInf FOps) (@GAir FOps) None)
    [@mkP FOps true (@PStandard FOps) 0.25%float (@TFin FOps 50%float) (@GAir FOps) None]
    (@mkP FOps false (@PStandard FOps) 0.5%float (@TFin FOps 0%float) (@GAir FOps) None).

Definition last_shape (l : @lens FOps) : option (@lshape FOps) :=
  match rev (l_surfs l) with s :: _ => Some (l_shape s) | [] => None end.
Definition oshape_same (a b : option (@lshape FOps)) : bool :=
  match a, b with Some x, Some y => shape_same x y | None, None => true | _, _ => false end.
(** the file loads, the lens has as many surfaces as the file has SURF blocks, its last surface is a plane,
    while the prescription's last surface is a sphere of radius 2 (evaluated in binary64 by the kernel's VM) *)
Definition d22_check (p : @presc FOps) : bool :=
  match load (O:=FOps) no_catalogue (emit (O:=FOps) f_show f_showZ p) with
  | Some l => Nat.eqb (List.length (l_surfs l)) (List.length (l_surfs (lens_of p)))
              && oshape_same (last_shape l) (Some fPlane)
              && oshape_same (last_shape (lens_of p)) (Some (fStd 2%float 0%float))
              && negb (lens_same l (lens_of p))
  | None => false
  end.

Theorem image_surface_refuted : exists p : @presc FOps, d22_check p = true.
Proof. exists d22_presc. vm_compute. reflexivity. Qed.

(** the catalogue as the lookup sees it: (group, category_name, name) rows; the search keeps a row when the
    requested name occurs inside category_name or name (Material._find_material_matches) *)
Definition contains (s sub : string) : bool := match index 0 sub s with Some _ => true | None => false end.
Definition substring_lookup (cat : list (string * string * string)) (n : string) (r : option string) : bool :=
  existsb (fun '(_, cn, nm) => contains cn n || contains nm n) cat.
Definition is_glass_name (cat : list (string * string * string)) (n : string) : bool :=
  existsb (fun '(g, _, nm) => (g =? "glass") && (nm =? n)) cat.
Definition d21_catalogue : list (string * string * string) :=
  [("main", "K", "Ives and Briggs 1936"); ("glass", "SCHOTT-BK", "N-BK7"); ("main", "SF6", "Vukovic et al. 1996")].

Definition medium_is_abbe (m : @medium FOps) (nd vd : float) : bool :=
  match m with MAbbe n v => same n nd && same v vd | _ => false end.
(** "K" names no glass of the catalogue, yet the GLAS line's model glass (1.6, 50) is not what the lens gets *)
Definition d21_check (cat : list (string * string * string)) (name : string) (nd vd : float) : bool :=
  negb (is_glass_name cat name)
  && negb (medium_is_abbe (resolve_glass (O:=FOps) (substring_lookup cat) name None nd vd) nd vd).

Theorem unknown_substring_refuted :
  exists (cat : list (string * string * string)) (name : string) (nd vd : float), d21_check cat name nd vd = true.
Proof. exists d21_catalogue, "K", 0x1.999999999999ap+0%float, 50%float. vm_compute. reflexivity. Qed.
Print Assumptions image_surface_refuted.
Print Assumptions unknown_substring_refuted.

(** * C07 finding (scale-system-decentre): the model of Optic.scale_system is NOT the scaling of the
    prescription when a surface is decentred.  Witness (replayed on /repo by tools/props/C07.py::replay_finding):
    a singlet whose first surface has dx = 1/5, scaled by s = 2: the decentre column of the result is still
    1/5 where the scaled prescription has 2/5. *)
From Coq Require Import Reals Lra ZArith List Bool.
From OV Require Import Ops RInst Gen.C07K Model.Trace Model.M_C07.
Import ListNotations.
Local Open Scope R_scope.

Definition witness : @presc ROps :=
  mkPresc (O:=ROps) [0; 50; -50; 0] [-100; 0; 4; 49] [0; 1/5; 0; 0] [0; -1/10; 0; 0]
          [None; None; None; None] true 6.

Theorem scale_system_is_scaling_refuted :
  exists (s : R) (p : @presc ROps), 0 < s /\ pc_dx (scale_system (O:=ROps) s p) <> pc_dx (scaled_presc (O:=ROps) s p).
Proof.
  exists 2, witness. split; [lra|].
  cbn [scale_system scaled_presc pc_dx witness map]. rops.
  intros H. injection H as _ H _. lra.
Qed.
Print Assumptions scale_system_is_scaling_refuted.

(** Findings for property C17 (never gates the verdict; compiled separately). *)
From Coq Require Import Reals Lra ZArith List.
From OV Require Import Ops RInst Cx Gen.Jones Spec.S_C17.
Import ListNotations.
Local Open Scope R_scope.

(** D25: JonesLinearDiattenuator.calculate_matrix computes the off-diagonal entry as
      j0x = t_max - t_min * cos(theta) * sin(theta)
    instead of (t_max - t_min) * cos(theta) * sin(theta).  Hence the element at angle theta is NOT
    the rotation R(theta) diag(t_max, t_min) R(-theta) of the element at 0 -- already at theta = 0
    (an ideal horizontal polariser t_max = 1, t_min = 0 gets off-diagonal entries 1).
    Witness: t_min = 0, t_max = 1, theta = 0: entry (0,1) is 1, the specification says 0. *)
Theorem diattenuator_rotation_refuted :
  exists t_min t_max theta x : R,
    k_jones_diattenuator ROps t_max theta t_min x <> m3_flat (O:=ROps) (diattenuator_spec t_min t_max theta).
Proof.
  exists 0, 1, 0, 0. intros H.
  assert (E : nth 2 (k_jones_diattenuator ROps 1 0 0 0) 0 = nth 2 (m3_flat (O:=ROps) (diattenuator_spec 0 1 0)) 0)
    by (rewrite H; reflexivity).
  cbv beta iota zeta delta [k_jones_diattenuator diattenuator_spec rotated_element rot3 diag3 m3_ofR Cx.m3_mul
    m3_set m3_zero Cx.m3_flat m3_list cx_flat Z.mul Z.add Pos.mul Pos.add Pos.succ Pos.add_carry flat_map app fst snd nth
    Cx.cmul Cx.cadd Cx.c0 Cx.c1 Cx.cofR
    T add sub mul div neg ofZ cos_ sin_ ROps] in E.
  rewrite Ropp_0, cos_0, sin_0 in E. lra.
Qed.
Print Assumptions diattenuator_rotation_refuted.

(** the same slip makes the "polariser" limit non-idempotent: J(1,0,0)^2 <> J(1,0,0) *)
Theorem diattenuator_not_projector :
  let J := (1, 1, 1, 0) in   (* upper-left 2x2 block of the implementation at t_max=1, t_min=0, theta=0 *)
  let '(a, b, c, d) := J in (a * a + b * c, a * b + b * d, c * a + d * c, c * b + d * d) <> J.
Proof. cbv zeta. intros H. injection H. intros. lra. Qed.

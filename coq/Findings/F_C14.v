(** * F_C14: the code AS WRITTEN violates C14 (witnesses replayed on /repo by tools/props/C14.py).
    Compiled separately; never gates the check. *)
From Coq Require Import Reals Lra ZArith List Bool FunctionalExtensionality.
From OV Require Import Ops RInst Gen.OptVars Model.M_C14 Spec.S_C14 Lemmas.L_C14.
Import ListNotations.
Local Open Scope R_scope.


(** D13 (optimize-leaves-last-eval): the lens is left at the last evaluated point, not at the returned solution.
    One unscaled conic variable, no pickups; SciPy evaluates 1 then 2 and returns x* = 1. *)
Theorem last_eval_refuted :
  exists (vars : list var) (tr : @trace ROps) (xstar : list R) (s : store),
    In (true, xstar) tr /\ length xstar = length vars /\
    getv vars (optimize_impl (fun s => s) vars tr xstar s) <> xstar.
Proof.
  exists [@mkVar ROps KConic 1 0 0 false None None], [(true, [1]); (true, [2])], [1], (fun _ => 0).
  split; [left; reflexivity|]. split; [reflexivity|].
  cbv [optimize_impl run_trace fold_left fst snd eval_point setv combine var_set vscaled getv map var_get].
  rewrite put_same. intros H. inversion H. lra.
Qed.

(** D07 (bounds-scaled-when-unscaled): radius -50, apply_scaling = False, min_val -300, max_val -20:
    the value lies inside the user's limits but outside Variable.bounds = (-4, -1.2). *)
Theorem bounds_unscaled_refuted :
  exists (v : var) (s : store),
    var_ok v /\ raw_within v (s (vcoord v)) /\ ~ within (bounds_impl v) (var_get s v).
Proof.
  exists (@mkVar ROps KRadius 2 0 0 false (Some (-300)) (Some (-20))), (fun _ => -50).
  split; [unfold var_ok; cbn; discriminate|]. split.
  - unfold raw_within, within; cbn; lra.
  - unfold within, bounds_impl, var_get, scale_of. cbn [vscaled vkind_ vmin vmax option_map fst snd].
    rewrite !radius_scale_units. unfold radius_units. lra.
Qed.

(** undo-ignores-pickups: second radius picks up minus the first; optimise moves r1 from 50 to 80
    (pickup follows to -80); undo() as written sets r1 back to 50 and leaves r2 at -80. *)
Theorem undo_pickup_refuted :
  exists (pks : list (@pickup ROps)) (vars : list var) (tr : @trace ROps) (xstar : list R) (s : store) (c : coord),
    flat pks /\ sat (upd_pickups pks) s /\ (forall v, In v vars -> pk_target pks (vcoord v) = false) /\
    fst (exec_impl (upd_pickups pks) vars [Optimize FGeneric tr xstar; Undo] (s, [])) c <> s c.
Proof.
  set (c1 := (0, 1, 0, 0)%Z : coord). set (c2 := (0, 2, 0, 0)%Z : coord).
  set (s0 := (fun c => if coord_eqb c c1 then 50 else if coord_eqb c c2 then -50 else 0) : store).
  exists [(c1, c2, -1, 0)], [@mkVar ROps KRadius 1 0 0 false None None], [(true, [80])], [80], s0, c2.
  split; [|split; [|split]].
  - intros p [<-|[]]. cbn. intros [H|[]]. discriminate.
  - unfold sat. apply functional_extensionality. intros c. unfold upd_pickups. cbn [fold_left apply_pickup].
    unfold put. destruct (coord_eqb c2 c) eqn:E; auto. apply coord_eqb_eq in E. subst c.
    unfold s0. cbn. rops. lra.
  - intros v [<-|[]]. reflexivity.
  - cbv [exec_impl fold_left step_impl step_gen needs_bounds andb fst snd undo_impl optimize_impl run_trace
         eval_point setv combine var_set vscaled getv map var_get upd_pickups apply_pickup vcoord vkind_ vsurf va vb kind_id].
    fold c1. fold c2. unfold put, s0.
    replace (coord_eqb c1 c2) with false by reflexivity.
    replace (coord_eqb c2 c2) with true by reflexivity.
    replace (coord_eqb c2 c1) with false by reflexivity.
    replace (coord_eqb c1 c1) with true by reflexivity.
    rops. lra.
Qed.

Print Assumptions last_eval_refuted.
Print Assumptions bounds_unscaled_refuted.
Print Assumptions undo_pickup_refuted.

(** C05 findings (compiled separately, never gates a verdict).

    even-asphere-r2-ignored.  The paraxial surface step regenerated from Surface._trace_paraxial
    reads ONLY [geometry.radius].  For an even asphere the vertex curvature of the prescribed sag is
    1/R + 2 c0 (c0 = coefficient of r^2), which is what the real rays see in the limit
    ([L_C05_Chain.real_trace_converges] has the curvature of the real surface as [a_c]).  Formally:
    (1) the regenerated sag kernel has vertex curvature 1/R + 2 c0 (here on the parabolic base k=-1,
        where 2 sag / y^2 is exactly that number for every y <> 0);
    (2) the regenerated paraxial kernel, applied to that surface, returns the slope of a surface of
        curvature 1/R, which differs.
    Witness R = 60, c0 = 1/2000, n = 1 -> 3/2, ray (y, u) = (1, 0) at the vertex plane:
    kernel slope -1/180, limit of the real rays -53/9000.
    Replay on /repo: tools/props/C05.py ASPH_REPLAY (replay_finding): real marginal ray / eps stays
    ~1e-2 away from Paraxial.marginal_ray() for every eps.

    object-height-sign.  The launch heights of the two ray generators differ in sign: for a finite
    object with object_height fields RayGenerator._get_ray_origins starts at y = +field_y and
    Paraxial._get_object_position at y = -field_y; a family that is Od with limit h cannot be Od with
    limit -h unless h = 0. *)
From Coq Require Import Reals Lra List ZArith.
From OV Require Import Ops RInst XR Gen.RealRays Gen.Geometries Gen.Paraxial Spec.S_C05 Lemmas.L_C05_E2.
Import ListNotations.
Local Open Scope R_scope.

Theorem paraxial_uses_vertex_curvature_refuted :
  exists (Rc c0 y : R), y <> 0 /\
    (* vertex curvature of the prescribed (regenerated) sag *)
    2 * k_ea_sag ROps 0 y Rc (-1) [c0] / (y * y) = / Rc + 2 * c0 /\
    (* slope after the regenerated paraxial step for (y,u) = (1,0), n: 1 -> 3/2 *)
    (let '(_, u', _, _) := k_surf_trace_paraxial ROps 0 0 0 0 1 0 0 0 0 0 false Rc 1 (3/2) in
     u' = - (3/2 - 1) * (/ Rc) / (3/2) /\ u' <> - (3/2 - 1) * (/ Rc + 2 * c0) / (3/2)).
Proof.
  exists 60, (/ 2000), 1. split; [lra|]. split.
  - unfold k_ea_sag. rops. cbn [enumZ seqZ length combine fold_left powZ Z.ltb Z.add Z.to_nat Pos.to_nat
      Pos.iter_op Nat.add pow_nat Z.compare].
    replace (1 - (1 + -1) * (0 * 0 + 1 * 1) / (60 * 60)) with 1 by lra.
    rewrite sqrt_1. change (Pos.to_nat 1) with 1%nat. cbn [pow_nat]. rops. field.
  - unfold k_surf_trace_paraxial, k_geom_localize_px, k_geom_globalize_px, k_cs_localize_px,
      k_cs_globalize_px, k_translate, k_px_propagate. rops. split; [field|].
    intros H. field_simplify in H. lra.
Qed.
Print Assumptions paraxial_uses_vertex_curvature_refuted.

Theorem opposite_launch_heights_refuted h :
  h <> 0 -> ~ (Od (fun e => e * h) h /\ Od (fun e => e * h) (- h)).
Proof.
  intros Hh [(g1 & E1 & C1 & d1 & HC1 & Hd1 & B1) (g2 & E2' & C2 & d2 & HC2 & Hd2 & B2)].
  (* both scaled families equal h away from e = 0: h = -h up to O(e^2) *)
  set (e := Rmin (Rmin d1 d2) (Rmin 1 (Rabs h / (C2 + 1))) / 2).
  assert (Hha : 0 < Rabs h) by (apply Rabs_pos_lt; exact Hh).
  assert (Hm : 0 < Rmin (Rmin d1 d2) (Rmin 1 (Rabs h / (C2 + 1)))).
  { repeat apply Rmin_glb_lt; try lra. apply Rdiv_lt_0_compat; lra. }
  assert (He0 : 0 < e) by (unfold e; lra).
  assert (Hed2 : e < d2).
  { unfold e. generalize (Rmin_l (Rmin d1 d2) (Rmin 1 (Rabs h / (C2 + 1)))) (Rmin_r d1 d2). lra. }
  assert (He1 : e < 1).
  { unfold e. generalize (Rmin_r (Rmin d1 d2) (Rmin 1 (Rabs h / (C2 + 1)))) (Rmin_l 1 (Rabs h / (C2 + 1))). lra. }
  assert (Heh : e < Rabs h / (C2 + 1)).
  { unfold e. generalize (Rmin_r (Rmin d1 d2) (Rmin 1 (Rabs h / (C2 + 1)))) (Rmin_r 1 (Rabs h / (C2 + 1))). lra. }
  assert (Hg2 : g2 e = h).
  { specialize (E2' e). apply Rmult_eq_reg_l with e; lra. }
  specialize (B2 e). rewrite Rabs_right in B2 by lra. specialize (B2 Hed2). rewrite Hg2 in B2.
  replace (h - - h) with (2 * h) in B2 by ring. rewrite Rabs_mult, (Rabs_right 2) in B2 by lra.
  assert (K : (C2 + 1) * e < Rabs h).
  { apply Rmult_lt_reg_r with (/ (C2 + 1)); [apply Rinv_0_lt_compat; lra|].
    replace ((C2 + 1) * e * / (C2 + 1)) with e by (field; lra). exact Heh. }
  assert (e * e <= e) by nra.
  assert (C2 * (e * e) <= C2 * e) by (apply Rmult_le_compat_l; lra).
  nra.
Qed.
Print Assumptions opposite_launch_heights_refuted.

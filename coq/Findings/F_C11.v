(** * F_C11: the code AS WRITTEN violates C11 (witnesses replayed on /repo by tools/props/C11.py).
    Compiled separately; never gates the check. *)
From Coq Require Import Reals Lra Lia ZArith List Bool.
From OV Require Import Ops RInst Spec.S_C11_DFT Model.M_C11 Gen.PsfMtf Lemmas.L_C11_Complex Lemmas.L_C11.
Import ListNotations.
Local Open Scope R_scope.

(** D08 (pad-parity): with grid_size - num_rays odd the padded pupil, hence the PSF image, has
    grid_size - 1 samples per side; for even grid_size its centre is not [grid_size/2, grid_size/2],
    the pixel strehl_ratio reads.  Witness: num_rays = 33, grid_size = 64 (observed Strehl 0.24 for a
    perfect paraboloid). *)
Theorem pad_parity_refuted :
  exists grid n : Z, (0 < n <= grid)%Z /\ ~ centred_pad_ok grid n (padded_size grid n) /\
                     (padded_size grid n / 2 <> grid / 2)%Z.
Proof.
  exists 64%Z, 33%Z. split; [lia|]. unfold centred_pad_ok, padded_size, pad_of.
  split; [intros [H _]; vm_compute in H; discriminate | vm_compute; discriminate].
Qed.

(** D09 (clipped-pupil-norm): the normaliser counts the non-zero samples (nnz^2) while the amplitudes are
    divided by the mean over ALL samples.  Two samples, one clipped: amplitudes (2, 0), one non-zero
    sample, unaberrated: centre pixel 400, Strehl 4. *)
Theorem nnz_norm_refuted :
  exists (w : RC) (M : nat) (P : nat -> nat -> RC) (nnz : R),
    nnz = 1 /\ (forall m n, P m n = pupil_sample (if (Nat.eqb m 0 && Nat.eqb n 0)%bool then 2 else 0) 0) /\
    psf_spec w M P (nnz * nnz) 0 0 / 100 > 1.
Proof.
  exists (1, 0), 2%nat, (fun m n => pupil_sample (if (Nat.eqb m 0 && Nat.eqb n 0)%bool then 2 else 0) 0), 1.
  split; [reflexivity|]. split; [intros; reflexivity|].
  unfold psf_spec. rewrite dft2_dc. simpl. unfold pupil_sample, Cn2, Cadd, Cmul, RtoC, cis, C0; simpl.
  replace (2 * PI * 0) with 0 by ring. rewrite cos_0, sin_0. lra.
Qed.

(** D10 (mtf-freq-axis): FFTMTF._get_mtf_units returns (grid/num_rays)/(lambda_um * FNO): the cut-off index
    num_rays is mapped to grid_size/(lambda FNO) instead of 1000/(lambda FNO). *)
Theorem freq_axis_refuted :
  exists (g n : Z) (lam fno : R),
    IZR n * k_mtf_units ROps g n lam fno <> cutoff_mm lam fno.
Proof.
  exists 512%Z, 128%Z, 1, 1. unfold k_mtf_units, cutoff_mm; rops. lra.
Qed.

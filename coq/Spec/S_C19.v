(** * C19 - specification side: dictionaries, JSON-safety, what "round trip" means.

    Independent of the codec model.  [json A L] is the value space of Python's [to_dict] results:
    numbers of an arbitrary type [A], ints, bools, strings, None, lists, dictionaries (ordered
    association lists, as Python dicts are) and - because the implementation can put them there -
    live Python objects [JLive o] that [json.dump] cannot write. *)
From Coq Require Import ZArith List String Bool.
Import ListNotations.
Local Open Scope string_scope.

Section Json.
  Variable A : Type.   (* numbers *)
  Variable L : Type.   (* live objects (not representable in a JSON file) *)

  Inductive json :=
  | JNum (x : A)
  | JInt (z : Z)
  | JBool (b : bool)
  | JStr (s : string)
  | JNull
  | JList (l : list json)
  | JDict (d : list (string * json))
  | JLive (o : L).

  (** what json.dump accepts *)
  Fixpoint json_safe (j : json) : bool :=
    match j with
    | JLive _ => false
    | JList l => (fix all (l : list json) := match l with [] => true | x :: r => json_safe x && all r end) l
    | JDict d => (fix all (d : list (string * json)) :=
                    match d with [] => true | (_, x) :: r => json_safe x && all r end) d
    | _ => true
    end.

  Definition all_safe (l : list json) : bool := forallb json_safe l.
  Definition all_safe_d (d : list (string * json)) : bool := forallb (fun kv => json_safe (snd kv)) d.

  Lemma json_safe_list : forall l, json_safe (JList l) = all_safe l.
  Proof. induction l as [|x r IH]; simpl in *; [reflexivity|]. now rewrite <- IH. Qed.

  Lemma json_safe_dict : forall d, json_safe (JDict d) = all_safe_d d.
  Proof. induction d as [|[k x] r IH]; simpl in *; [reflexivity|]. now rewrite <- IH. Qed.

  (** dictionary access: d[k] / k in d *)
  Fixpoint get (k : string) (d : list (string * json)) : option json :=
    match d with
    | [] => None
    | (k', v) :: r => if String.eqb k k' then Some v else get k r
    end.

  (** Saving to a file and loading it again.  [json.dump] raises TypeError on a live object; on
      everything else [json.load (json.dump j)] is [j] itself (binary64 numbers are printed with
      repr, which round-trips; inf/nan are written as Infinity/NaN and read back; key order is
      kept).  That second half is an assumption about Python's json module; the harness validates
      it on every generated dictionary. *)
  Definition json_file_roundtrip (j : json) : option json :=
    if json_safe j then Some j else None.

  (** ** The clauses of the property, as predicates on an arbitrary codec
      [enc : X -> json] (to_dict), [dec : json -> option X] (from_dict; None = raises). *)
  Section Clauses.
    Variable X : Type.
    Variable enc : X -> json.
    Variable dec : json -> option X.
    Variable ok : X -> Prop.       (* the lenses the clause is claimed for *)

    (** dictionary form and back gives the same lens *)
    Definition dict_roundtrip : Prop := forall x, ok x -> dec (enc x) = Some x.

    (** saving to a JSON file and loading gives the same lens *)
    Definition file_roundtrip : Prop :=
      forall x, ok x -> match json_file_roundtrip (enc x) with Some j => dec j | None => None end = Some x.

    (** the lens can be written to a file *)
    Definition serialisable : Prop := forall x, ok x -> json_safe (enc x) = true.

    (** the dictionary of a reloaded lens equals the one it was loaded from *)
    Definition dict_fixpoint : Prop :=
      forall x d x', ok x -> enc x = d -> dec d = Some x' -> enc x' = d.

    (** every observable of the reloaded lens (rays, paraxial data: functions of the state) is unchanged *)
    Definition same_behaviour : Prop :=
      forall (B : Type) (obs : X -> B) x x', ok x -> dec (enc x) = Some x' -> obs x' = obs x.

    Lemma roundtrip_gives_fixpoint : dict_roundtrip -> dict_fixpoint.
    Proof.
      intros H x d x' Hok He Hd. subst d. rewrite (H x Hok) in Hd. now inversion Hd.
    Qed.

    Lemma roundtrip_gives_same_behaviour : dict_roundtrip -> same_behaviour.
    Proof.
      intros H B obs x x' Hok Hd. rewrite (H x Hok) in Hd. now inversion Hd.
    Qed.

    Lemma roundtrip_serialisable_gives_file : dict_roundtrip -> serialisable -> file_roundtrip.
    Proof.
      intros H S x Hok. unfold json_file_roundtrip. rewrite (S x Hok). now apply H.
    Qed.

    (** to_dict is injective on the lenses that round-trip: nothing the state holds is lost *)
    Lemma roundtrip_gives_injective :
      dict_roundtrip -> forall x y, ok x -> ok y -> enc x = enc y -> x = y.
    Proof.
      intros H x y Hx Hy E. pose proof (H x Hx) as A1. rewrite E, (H y Hy) in A1. now inversion A1.
    Qed.
  End Clauses.
End Json.

Arguments JNum {A L}. Arguments JInt {A L}. Arguments JBool {A L}. Arguments JStr {A L}.
Arguments JNull {A L}. Arguments JList {A L}. Arguments JDict {A L}. Arguments JLive {A L}.
Arguments json_safe {A L}. Arguments get {A L}. Arguments json_file_roundtrip {A L}.
Arguments all_safe {A L}. Arguments all_safe_d {A L}.
Arguments dict_roundtrip {A L X}. Arguments file_roundtrip {A L X}. Arguments serialisable {A L X}.
Arguments dict_fixpoint {A L X}. Arguments same_behaviour {A L X}.

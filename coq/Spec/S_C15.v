(** * S_C15: specifications for C15, written independently of the model's control flow.

    - [store_laws]: what "a Variable reads and writes one coordinate of the lens" means (very-well-behaved lens laws)
      for the handles that satisfy [ok];
    - [reach]: the lens states a run can produce from the nominal lens (writes through the registered handles);
    - [row_spec]: a recorded row is the evaluation of the nominal lens with the recorded values applied and the
      same compensation (no dependence on earlier trials);
    - [range_step_spec]: RangeSampler walks through its values and wraps around;
    - [thickness_of]: thickness k is the difference of consecutive vertex positions;
    - [sspec]/[build]: construction of the samplers (a seeded DistributionSampler re-seeds the global stream). *)
From Coq Require Import ZArith List Bool.
From OV Require Import Ops Model.M_C15.
Import ListNotations.
Set Implicit Arguments.

Section Spec.
  Context {O : Ops}.
  Notation T := (T O).
  Variables (L X : Type) (vget : L -> X -> T) (vset : L -> X -> T -> L).
  Variable ok : X -> Prop.

  Record store_laws : Prop := {
    set_set : forall l x a b, ok x -> vset (vset l x a) x b = vset l x b;
    set_comm : forall l x y a b, ok x -> ok y -> x <> y -> vset (vset l x a) y b = vset (vset l y b) x a;
    set_get : forall l x, ok x -> vset l x (vget l x) = l }.

  (** states reachable from [l0] by writes through handles of [H] ... *)
  Inductive reach0 (H : list X) (l0 : L) : L -> Prop :=
  | reach0_nominal : reach0 H l0 l0
  | reach0_set : forall l x a, reach0 H l0 l -> In x H -> reach0 H l0 (vset l x a).
  (** ... and by Optic.update() (pickups / solves) *)
  Inductive reach (upd : L -> L) (H : list X) (l0 : L) : L -> Prop :=
  | reach_nominal : reach upd H l0 l0
  | reach_set : forall l x a, reach upd H l0 l -> In x H -> reach upd H l0 (vset l x a)
  | reach_upd : forall l, reach upd H l0 l -> reach upd H l0 (upd l).

  (** what Optic.update() is assumed to be: it rewrites "derived" coordinates (pickup targets, solved thicknesses) as a
      function of the others.  [eqv] = equal up to derived coordinates. *)
  Record update_laws (upd : L -> L) (H : list X) (l0 : L) (eqv : L -> L -> Prop) : Prop := {
    eqv_refl : forall l, eqv l l;
    eqv_sym : forall l l', eqv l l' -> eqv l' l;
    eqv_trans : forall a b c, eqv a b -> eqv b c -> eqv a c;
    upd_eqv : forall l, eqv (upd l) l;                              (* update only touches derived coordinates *)
    upd_cong : forall l l', eqv l l' -> upd l = upd l';             (* and recomputes them from the others *)
    set_cong : forall l l' x a, In x H -> eqv l l' -> eqv (vset l x a) (vset l' x a);
    upd_nominal : upd l0 = l0 }.                                    (* the nominal lens is up to date *)

  (** the row recorded for a trial that applies perturbations [which] with compensation trace [tr] *)
  Definition row_spec (upd : L -> L) (ev : L -> list T) (pv cv : list (var (O:=O) X)) (l0 : L)
             (rw : row (O:=O)) (p : list nat * list (list T)) : Prop :=
    r_which rw = fst p /\
    r_ops rw = ev (fresh_lens vset upd pv cv l0 (fst p) (r_pert rw) (snd p)).

  (** recorded values equal to the nominal values of the perturbed handles *)
  Fixpoint nominal_values (pv : list (var (O:=O) X)) (l0 : L) (which : list nat) (xs : list T) : Prop :=
    match which, xs with
    | j :: w', x :: xs' => match nth_error pv j with
                           | Some v => x = vget l0 (vx v) /\ nominal_values pv l0 w' xs'
                           | None => True end
    | _, _ => True
    end.
End Spec.

Section SamplerSpec.
  Context {O : Ops}.
  Notation T := (T O).
  (** one step of a RangeSampler over [vals] (n = length vals > 0) at index 0 <= idx <= n *)
  Definition range_step_spec (vals : list T) (idx : Z) (out : T * Z) : Prop :=
    let n := Z.of_nat (length vals) in
    let i := if (idx >=? n)%Z then 0%Z else idx in
    nthZ vals i = Some (fst out) /\ snd out = (i + 1)%Z /\ (1 <= snd out <= n)%Z.

  Variables (G D : Type) (seed_state : Z -> G).
  Inductive sspec := PScalar (v : T) | PRange (vals : list T) | PDist (seed : option Z) (d : D).
  (** constructing the samplers in order, threading the global stream state *)
  Fixpoint build (g : G) (specs : list sspec) : list (sampler (O:=O) D) * G :=
    match specs with
    | [] => ([], g)
    | PScalar v :: r => let '(ss, g') := build g r in (SScalar D v :: ss, g')
    | PRange vals :: r => let '(ss, g') := build g r in (SRange D vals 0 :: ss, g')
    | PDist sd d :: r => let '(s, g1) := mk_dist seed_state g sd d in
                         let '(ss, g') := build g1 r in (s :: ss, g')
    end.
  Definition seeded (p : sspec) : bool := match p with PDist (Some _) _ => true | _ => false end.
End SamplerSpec.

(** thickness k of a list of vertex positions *)
Definition thickness_of {O : Ops} (pos : list (T O)) (k : Z) : T O := sub (getZ pos (k + 1)) (getZ pos k).

(** * Independent specifications for property C17 (Fresnel coefficients, Jones calculus).
    Written from the textbook definitions (Hecht, Optics, ch. 4 and 8; Chipman, Polarized Light
    and Optical Systems, ch. 5), not from the implementation. *)
From Coq Require Import Reals ZArith List.
From OV Require Import Ops RInst Cx.
Local Open Scope R_scope.

(** ** Fresnel amplitude coefficients between real indices n1 -> n2 at incidence angle th *)
Section Fresnel.
  Variables n1 n2 th : R.
  (** Snell: n1 sin th = n2 sin th_t;  cos th_t below the critical angle *)
  Definition sin_t : R := n1 * sin th / n2.
  Definition cos_t : R := sqrt (1 - sin_t * sin_t).
  Definition no_TIR : Prop := n1 * sin th < n2.
  Definition r_s : R := (n1 * cos th - n2 * cos_t) / (n1 * cos th + n2 * cos_t).
  Definition t_s : R := 2 * n1 * cos th / (n1 * cos th + n2 * cos_t).
  Definition r_p : R := (n2 * cos th - n1 * cos_t) / (n2 * cos th + n1 * cos_t).
  Definition t_p : R := 2 * n1 * cos th / (n2 * cos th + n1 * cos_t).
  (** power coefficients: reflectance |r|^2, transmittance (n2 cos th_t)/(n1 cos th) |t|^2 *)
  Definition Refl (r : R) : R := r * r.
  Definition Trans (t : R) : R := (n2 * cos_t) / (n1 * cos th) * (t * t).
End Fresnel.

(** ** Jones calculus on 3x3 matrices whose upper-left 2x2 block acts on the transverse field
       (the implementation pads every Jones matrix with a 1 in the (2,2) entry) *)
Notation C := (Cx ROps).
Notation Mat := (M3 ROps).

Definition Ccis (phi : R) : C := (cos phi, sin phi).
Definition m3_adj (m : Mat) : Mat :=
  let '(a, b, c, d, e, f, g, h, k) := m in
  (cconj a, cconj d, cconj g, cconj b, cconj e, cconj h, cconj c, cconj f, cconj k).
Definition diag3 (a b c : C) : Mat := (a, c0, c0, c0, b, c0, c0, c0, c).
(** rotation of the transverse plane by theta (about the propagation axis) *)
Definition rot3 (theta : R) : Mat :=
  m3_ofR (O:=ROps) (cos theta, - sin theta, 0, sin theta, cos theta, 0, 0, 0, 1).
(** orthogonal projector e e^dagger onto a Jones vector e = (e1, e2) (unit), padded *)
Definition projector3 (e : C * C) : Mat :=
  let '(e1, e2) := e in
  (cmul e1 (cconj e1), cmul e1 (cconj e2), c0,
   cmul e2 (cconj e1), cmul e2 (cconj e2), c0,
   c0, c0, c1).
Definition jvec3 (e : C * C) : CV3 ROps := (fst e, snd e, c0).
Definition unit2 (e : C * C) : Prop := cabs2 (O:=ROps) (fst e) + cabs2 (O:=ROps) (snd e) = 1.
(** Hermitian inner product <e, f> = conj(e1) f1 + conj(e2) f2 *)
Definition herm2 (e f : C * C) : C :=
  cadd (O:=ROps) (cmul (cconj (fst e)) (fst f)) (cmul (cconj (snd e)) (snd f)).

(** an element with eigen-values (a, b) along / across its axis, axis at angle theta *)
Definition rotated_element (a b : C) (theta : R) : Mat :=
  m3_mul (rot3 theta) (m3_mul (diag3 a b c1) (rot3 (- theta))).
(** linear retarder of retardance d, fast axis at theta: phases -d/2 (fast) and +d/2 (slow) *)
Definition retarder_spec (d theta : R) : Mat := rotated_element (Ccis (- (d / 2))) (Ccis (d / 2)) theta.
(** linear diattenuator: amplitude transmissions t_max along the axis, t_min across *)
Definition diattenuator_spec (t_min t_max theta : R) : Mat :=
  rotated_element (cofR (O:=ROps) t_max) (cofR (O:=ROps) t_min) theta.

Definition is_unitary (m : Mat) : Prop := m3_mul (m3_adj m) m = m3_id (O:=ROps).
Definition is_hermitian (m : Mat) : Prop := m3_adj m = m.
Definition is_idempotent (m : Mat) : Prop := m3_mul m m = m.

(** ** Vectors *)
Definition unit3 (v : V3 ROps) : Prop := dot3 (O:=ROps) v v = 1.
Definition orthonormal3 (a b c : V3 ROps) : Prop :=
  unit3 a /\ unit3 b /\ unit3 c /\
  dot3 (O:=ROps) a b = 0 /\ dot3 (O:=ROps) a c = 0 /\ dot3 (O:=ROps) b c = 0.
(** a complex field is transverse to the real direction k *)
Definition transverse (e : CV3 ROps) (k : V3 ROps) : Prop := cv_dotr (O:=ROps) e k = c0 (O:=ROps).

(** * C05 specification: quadratic convergence of scaled real-ray data to the paraxial trace.

    A family of rays is indexed by the aperture/field scale factor [e].
    - [E2 f p]  : the quantity [f e] tends to [p] as [e -> 0] with an error bounded by
                  [C * e^2] on a neighbourhood of 0 (quantities that are even in the scale
                  factor: direction cosine N, axial positions);
    - [Od f p]  : [f e = e * g e] with [E2 g p], i.e. [f e / e] tends to [p] with an
                  O(e^2) error (quantities that are odd in the scale factor: heights,
                  direction cosine M, tangents M/N);
    - [Ev P]    : [P e] holds for every [e] in a neighbourhood of 0.
    The paraxial prediction itself is the matrix optics of Spec/S_ABCD.v
    ([surf_matrix], [next_z]) - the same object C04 proves equal to Paraxial._trace_generic. *)
From Coq Require Import Reals Lra List.
From OV Require Import Spec.S_ABCD.
Import ListNotations.
Local Open Scope R_scope.

Definition E2 (f : R -> R) (p : R) : Prop :=
  exists C d, 0 <= C /\ 0 < d /\ forall e, Rabs e < d -> Rabs (f e - p) <= C * (e * e).

Definition Od (f : R -> R) (p : R) : Prop :=
  exists g, (forall e, f e = e * g e) /\ E2 g p.

Definition Ev (P : R -> Prop) : Prop :=
  exists d, 0 < d /\ forall e, Rabs e < d -> P e.

(** what [Od] says in the words of the property: the scaled quantity converges quadratically *)
Lemma Od_scaled f p : Od f p ->
  exists C d, 0 <= C /\ 0 < d /\ forall e, e <> 0 -> Rabs e < d -> Rabs (f e / e - p) <= C * (e * e).
Proof.
  intros (g & Hg & C & d & HC & Hd & H). exists C, d. repeat split; auto.
  intros e He Hlt. rewrite Hg. replace (e * g e / e) with (g e) by (field; exact He). auto.
Qed.

(** paraxial state after one abstract surface: height, slope, axial position of the vertex *)
Definition par_step (s : asurf) (st : R * R * R) : R * R * R :=
  let '(y, u, z) := st in
  let '(y', u') := mapply (surf_matrix s z) (y, u) in (y', u', next_z s z).

Fixpoint par_trace (ss : list asurf) (st : R * R * R) : list (R * R) :=
  match ss with
  | [] => []
  | s :: ss' => let st' := par_step s st in let '(y, u, _) := st' in (y, u) :: par_trace ss' st'
  end.

(** * C20 - specification: what a well-formed sequential .zmx text is, and which lens it describes.

    [presc] is a prescription (the numbers somebody wants to write down), [emit] the token lines of the
    .zmx text that states it (operand spelling and token positions of the Zemax text format), and
    [lens_of] the lens those numbers describe.  Nothing here mentions the importer.

    Numbers are printed by an arbitrary [show]; a printed number is read back by Python's float() as the
    same number (the token carries it: "text decoding is numeric", trusted), int() of a decimal-number token
    raises, integer tokens are read by both. *)
From Coq Require Import ZArith List String Bool.
From OV Require Import Ops Model.M_C20.
Import ListNotations.
Local Open Scope string_scope.

Section Spec.
  Context {O : Ops}.
  Notation T := (T O).
  Variable show : T -> string.
  Variable showZ : Z -> string.

  Definition ntok (x : T) : @tok O := mkTok (show x) (Some x) None.
  Definition itok (z : Z) : @tok O := mkTok (showZ z) (Some (ofZ z)) (Some z).
  Definition wtok (s : string) : @tok O := mkTok s None None.

  Inductive pthick := TFin (t : T) | TInf.
  Inductive pglass := GAir | GCatalog (name : string) (nd vd : T) | GModel (name : string) (nd vd : T).
  Inductive ptype := PStandard | PEven (c1 c2 c3 c4 c5 c6 c7 c8 : T).
  Record psurf := mkP {
    p_stop : bool; p_type : ptype; p_curv : T; p_thick : pthick; p_glass : pglass;
    p_conic : option T                      (* None: no CONI line is written (conic 0) *) }.
  Inductive paperture := AEnpd (v : T) | AFnum (v : T) | AObna (v : T).
  Record presc := mkPresc {
    p_ap : paperture;
    p_height : bool;                        (* false: field angles, true: object heights *)
    p_fields : list (T * T);                (* (x, y) *)
    p_pad : list (@tok O);                  (* unused trailing entries of the XFLN / YFLN lines *)
    p_waves : list T;
    p_wextra : list T;                      (* WAVM lines beyond the number of wavelengths in use *)
    p_prim : Z;                             (* 1-based number of the primary wavelength *)
    p_gcat : option (list string);
    p_obj : psurf; p_mids : list psurf; p_img : psurf }.

  (** ** the text *)
  Definition type_name (t : ptype) : string := match t with PStandard => "STANDARD" | PEven _ _ _ _ _ _ _ _ => "EVENASPH" end.
  Definition parm_lines (t : ptype) : list (list (@tok O)) :=
    match t with
    | PStandard => []
    | PEven c1 c2 c3 c4 c5 c6 c7 c8 =>
      [[wtok "PARM"; itok 1; ntok c1]; [wtok "PARM"; itok 2; ntok c2]; [wtok "PARM"; itok 3; ntok c3];
       [wtok "PARM"; itok 4; ntok c4]; [wtok "PARM"; itok 5; ntok c5]; [wtok "PARM"; itok 6; ntok c6];
       [wtok "PARM"; itok 7; ntok c7]; [wtok "PARM"; itok 8; ntok c8]]
    end.
  Definition thick_tok (t : pthick) : @tok O := match t with TFin x => ntok x | TInf => wtok "INFINITY" end.
  Definition glass_lines (g : pglass) : list (list (@tok O)) :=
    match g with
    | GAir => []
    | GCatalog name nd vd | GModel name nd vd => [[wtok "GLAS"; wtok name; itok 0; itok 0; ntok nd; ntok vd]]
    end.
  Definition emit_surf (k : Z) (s : psurf) : list (list (@tok O)) :=
    [[wtok "SURF"; itok k]] ++ (if p_stop s then [[wtok "STOP"]] else [])
    ++ [[wtok "TYPE"; wtok (type_name (p_type s))]; [wtok "CURV"; ntok (p_curv s); itok 0; itok 0; itok 0; itok 0; wtok """"""]]
    ++ parm_lines (p_type s) ++ [[wtok "DISZ"; thick_tok (p_thick s)]] ++ glass_lines (p_glass s)
    ++ match p_conic s with Some k => [[wtok "CONI"; ntok k]] | None => [] end.
  Fixpoint emit_surfs (k : Z) (l : list psurf) : list (list (@tok O)) :=
    match l with [] => [] | s :: r => emit_surf k s ++ emit_surfs (k + 1) r end.

  Definition ap_line (a : paperture) : list (@tok O) :=
    match a with
    | AEnpd v => [wtok "ENPD"; ntok v]
    | AFnum v => [wtok "FNUM"; ntok v; itok 0]
    | AObna v => [wtok "OBNA"; ntok v; itok 0]
    end.
  Fixpoint wavm_lines (k : Z) (ws : list T) : list (list (@tok O)) :=
    match ws with
    | [] => []
    | w :: r => [wtok "WAVM"; itok (k + 1); ntok w; itok 1] :: wavm_lines (k + 1) r
    end.
  Definition emit_head (p : presc) : list (list (@tok O)) :=
    [[wtok "VERS"; itok 181105; itok 1000; itok 52000]; [wtok "MODE"; wtok "SEQ"]; ap_line (p_ap p)]
    ++ match p_gcat p with Some cs => [wtok "GCAT" :: map wtok cs] | None => [] end
    ++ [[wtok "FTYP"; itok (if p_height p then 1 else 0); itok 0; itok (Z.of_nat (List.length (p_fields p)));
         itok (Z.of_nat (List.length (p_waves p))); itok 0; itok 0; itok 0];
        wtok "XFLN" :: map ntok (map fst (p_fields p)) ++ p_pad p;
        wtok "YFLN" :: map ntok (map snd (p_fields p)) ++ p_pad p]
    ++ wavm_lines 0 (p_waves p) ++ wavm_lines (Z.of_nat (List.length (p_waves p))) (p_wextra p)
    ++ [[wtok "PWAV"; itok (p_prim p)]].
  Definition all_surfs (p : presc) : list psurf := p_obj p :: p_mids p ++ [p_img p].
  Definition emit (p : presc) : list (list (@tok O)) := emit_head p ++ emit_surfs 0 (all_surfs p).

  (** ** the lens the prescription describes *)
  Definition conic_of (s : psurf) : T := match p_conic s with Some k => k | None => ofZ 0 end.
  Definition shape_of (s : psurf) : @lshape O :=
    match p_type s with
    | PStandard => if eqb_ (p_curv s) (ofZ 0) then LPlane else LStd (div (ofZ 1) (p_curv s)) (conic_of s)
    | PEven c1 c2 c3 c4 c5 c6 c7 c8 =>
      LEven (if eqb_ (p_curv s) (ofZ 0) then inf_ else div (ofZ 1) (p_curv s)) (conic_of s) [c1; c2; c3; c4; c5; c6; c7; c8]
    end.
  Definition thick_of (s : psurf) : T := match p_thick s with TFin t => t | TInf => inf_ end.
  Definition medium_of (s : psurf) : @lmedium O :=
    match p_glass s with
    | GAir => LAir
    | GCatalog name _ _ => LCat name None
    | GModel _ nd vd => LAbbe nd vd
    end.
  (** vertex positions: object at -t0, first surface at 0, then the running sum of the thicknesses *)
  Fixpoint place (l : list psurf) (k : nat) (zprev tprev : T) : list (@lsurf O) :=
    match l with
    | [] => []
    | s :: r =>
      let z := match k with 0%nat => neg (thick_of s) | 1%nat => ofZ 0 | _ => add zprev tprev end in
      mkL (shape_of s) z (p_stop s) (medium_of s) :: place r (S k) z (thick_of s)
    end.
  Definition lens_of (p : presc) : @lens O :=
    mkLens (place (all_surfs p) 0 (ofZ 0) (ofZ 0))
           (match p_ap p with AEnpd _ => "EPD" | AFnum _ => "imageFNO" | AObna _ => "objectNA" end)
           (match p_ap p with AEnpd v | AFnum v | AObna v => v end)
           (if p_height p then "object_height" else "angle")
           (canon_fields (map fst (p_fields p)) (map snd (p_fields p)))   (* set of field points, by increasing y *)
           (p_waves p) (p_prim p - 1).

  (** ** well-formedness *)
  Definition no_stop (s : psurf) : Prop := p_stop s = false.
  Fixpoint one_stop (l : list psurf) : Prop :=
    match l with [] => True | s :: r => if p_stop s then Forall no_stop r else one_stop r end.
  (** a STANDARD surface whose curvature is not zero has a finite radius (1/c does not overflow) *)
  Definition curv_ok (s : psurf) : Prop :=
    match p_type s with
    | PStandard => eqb_ (p_curv s) (ofZ 0) = false -> isinf_ (div (ofZ 1) (p_curv s)) = false
    | _ => True
    end.
  (** the catalogue lookup is exact: it finds the catalogue names and nothing else *)
  Definition glass_ok (resolve : string -> option string -> bool) (gcat : option (list string)) (s : psurf) : Prop :=
    match p_glass s with
    | GAir => True
    | GCatalog name _ _ => resolve name None = true
    | GModel name _ _ => resolve name None = false /\
                         match gcat with Some cs => Forall (fun m => resolve name (Some m) = false) cs | None => True end
    end.
  (** the last SURF block is an ordinary image plane *)
  Definition plain_image (s : psurf) : Prop :=
    p_stop s = false /\ p_type s = PStandard /\ eqb_ (p_curv s) (ofZ 0) = true /\ p_glass s = GAir.

  Record wf (resolve : string -> option string -> bool) (p : presc) : Prop := mkWf {
    wf_show : forall x, (show x =? "INFINITY") = false;
    wf_inf : isinf_ (inf_ : T) = true;
    wf_fields : p_fields p <> [];
    wf_prim : (1 <= p_prim p <= Z.of_nat (List.length (p_waves p)))%Z;
    wf_objstop : p_stop (p_obj p) = false;
    wf_onestop : one_stop (p_obj p :: p_mids p);
    wf_curv : Forall curv_ok (p_obj p :: p_mids p);
    wf_glass : Forall (glass_ok resolve (p_gcat p)) (p_obj p :: p_mids p);
    wf_image : plain_image (p_img p) }.

  (** the field list of a file that lists distinct field points by strictly increasing y is kept as it is *)
  Definition fields_canonical (l : list (T * T)) : Prop :=
    ForallOrdPairs (fun p q => ltb_ (snd q) (snd p) = false /\ pair_eqb q p = false) l.

  (** paraxial marginal ray (y, u) through the lens (y-nu trace over vertex positions, radii and media);
      [n] gives the refractive index of a medium at the wavelength of interest *)
  Definition surface_power (nbefore nafter : T) (sh : @lshape O) : T :=
    match sh with
    | LPlane => ofZ 0
    | LStd R _ | LEven R _ _ => div (sub nafter nbefore) R
    end.
  Fixpoint ytrace (n : @lmedium O -> T) (ss : list (@lsurf O)) (zprev nprev y u : T) : T * T :=
    match ss with
    | [] => (y, u)
    | s :: r =>
      let y' := add y (mul u (sub (l_z s) zprev)) in
      let n' := n (l_med s) in
      let u' := div (sub (mul nprev u) (mul y' (surface_power nprev n' (l_shape s)))) n' in
      ytrace n r (l_z s) n' y' u'
    end.
  (** ray parallel to the axis at height 1 entering the first surface after the object *)
  Definition paraxial_ray (n : @lmedium O -> T) (l : @lens O) : T * T :=
    match l_surfs l with
    | o :: r => ytrace n r (ofZ 0) (n (l_med o)) (ofZ 1) (ofZ 0)
    | [] => (ofZ 1, ofZ 0)
    end.
End Spec.

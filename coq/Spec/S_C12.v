(** * Independent specifications for property C12: the quantities a geometric analysis reports,
    defined directly on lists of traced rays (exact reals), without reference to the code. *)
From Coq Require Import Reals List Lra.
Import ListNotations.
Local Open Scope R_scope.

(** plain sum and count *)
Fixpoint Rsum (l : list R) : R := match l with [] => 0 | x :: r => x + Rsum r end.
Definition Rcount (l : list R) : R := INR (length l).

(** ** Centroid: the point about which the first moment of the ray positions vanishes *)
Definition first_moment (xs : list R) (c : R) : R := Rsum (map (fun x => x - c) xs).
Definition is_centroid (xs ys : list R) (c : R * R) : Prop :=
  first_moment xs (fst c) = 0 /\ first_moment ys (snd c) = 0.

(** ** Radii about a reference point *)
Fixpoint dist2 (xs ys : list R) (c : R * R) : list R :=
  match xs, ys with
  | x :: xs', y :: ys' => ((x - fst c) * (x - fst c) + (y - snd c) * (y - snd c)) :: dist2 xs' ys' c
  | _, _ => []
  end.

(** RMS radius r:  r >= 0 and  n r^2 = sum of squared distances *)
Definition is_rms_radius (xs ys : list R) (c : R * R) (r : R) : Prop :=
  0 <= r /\ Rcount (dist2 xs ys c) * (r * r) = Rsum (dist2 xs ys c).

(** geometric radius g: no ray is farther than g from the reference point and one ray is at g *)
Definition is_max (l : list R) (m : R) : Prop := In m l /\ forall v, In v l -> v <= m.
Definition is_geo_radius (xs ys : list R) (c : R * R) (g : R) : Prop :=
  is_max (map sqrt (dist2 xs ys c)) g.

(** ** Encircled energy: energy of the rays within r of the reference point *)
Fixpoint encircled (rad en : list R) (r : R) : R :=
  match rad, en with
  | q :: rad', e :: en' => (if Rle_dec q r then e else 0) + encircled rad' en' r
  | _, _ => 0
  end.
Fixpoint total_energy (rad en : list R) : R :=
  match rad, en with
  | _ :: rad', e :: en' => e + total_energy rad' en'
  | _, _ => 0
  end.

(** ** Parabasal intersection (field curvature): two rays in a meridional plane,
    (p1, z1) + t (d1, n1)  and  (p2, z2) + s (d2, n2);  [zc] is the z of their common point *)
Definition is_crossing_z (p1 z1 d1 n1 p2 z2 d2 n2 zc : R) : Prop :=
  exists t s, p1 + t * d1 = p2 + s * d2 /\ z1 + t * n1 = z2 + s * n2 /\ zc = z1 + t * n1.

(** ** Distortion: relative departure (in percent) of the real chief-ray height from a reference height *)
Definition rel_departure (y yref : R) : R := 100 * (y - yref) / yref.

(** ** Pupil aberration: (paraxial - real) as a percentage of the paraxial stop radius *)
Definition pupil_aberration (par real d : R) : R := (par - real) / d * 100.

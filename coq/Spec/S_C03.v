(** * Independent specification of property C03 (launch of real rays, pupil samplings).
    Nothing here mentions the regenerated kernels. *)
From Coq Require Import Reals ZArith List Bool String.
Import ListNotations.
Local Open Scope string_scope.

(** ** Configuration cells and the five rejection rules of the property text *)
Definition field_types : list string := ["angle"; "object_height"].
Definition aperture_types : list string := ["EPD"; "imageFNO"; "objectNA"].

(** "height fields or telecentricity with an infinite object; [angle fields,] EPD or image F-number with
    telecentric object space"; sixth rule (since fix 70bd414): an object-space NA with the object at infinity
    defines no entrance pupil diameter *)
Definition rejected (infinite_object : bool) (field_type : string) (telecentric : bool) (aperture_type : string) : bool :=
  (infinite_object && String.eqb field_type "object_height")
  || (infinite_object && telecentric)
  || (telecentric && String.eqb field_type "angle")
  || (telecentric && String.eqb aperture_type "EPD")
  || (telecentric && String.eqb aperture_type "imageFNO")
  || (infinite_object && String.eqb aperture_type "objectNA").

(** polarization-dependent coatings need a polarization state *)
Definition pol_rejected (polarization : string) (uses_polarization : bool) : bool :=
  String.eqb polarization "ignore" && uses_polarization.

Definition is_none {A} (o : option A) : bool := match o with None => true | Some _ => false end.

(** ** Pupil samplings *)
Local Open Scope R_scope.
Definition in_unit_disk (p : R * R) : Prop := fst p * fst p + snd p * snd p <= 1.
Definition unit_interval (v : R) : Prop := 0 <= v <= 1.

(** documented number of points *)
Definition hexapolar_count (rings : Z) : Z := (1 + 3 * rings * (rings + 1))%Z.
Definition cross_count (n : Z) : Z := (2 * n)%Z.
Definition gq_count (symmetric : bool) (rings : Z) : Z := if symmetric then rings else (3 * rings)%Z.
Definition gq_rings_ok (rings : Z) : bool := (1 <=? rings)%Z && (rings <=? 6)%Z.

(** degrees to radians *)
Definition deg (a : R) : R := a * PI / 180.

(** * S_C10: published index rules of the three Zernike families (independent of the code).

    - OSA/ANSI (Thibos et al. 2002):        j = (n(n+2) + m) / 2,           j = 0, 1, 2, ...
    - Noll (1976):  j = n(n+1)/2 + |m| + c, j = 1, 2, ...; within a radial order n the terms are
      ordered by |m|, and of the pair +-m the cosine term (m > 0) gets the even j;
    - Fringe / University of Arizona:       j = (1 + (n+|m|)/2)^2 - 2|m| + [m < 0],  j = 1, 2, ...
    A pair (n, m) is a Zernike index iff 0 <= |m| <= n and n - m is even. *)
From Coq Require Import ZArith List Bool Lia.
Import ListNotations.
Local Open Scope Z_scope.

Definition zvalid (n m : Z) : Prop := Z.abs m <= n /\ exists k, n - m = 2 * k.
Definition zvalidb (n m : Z) : bool := (Z.abs m <=? n) && Z.even (n - m).
Definition zvalidp (p : Z * Z) : Prop := zvalid (fst p) (snd p).

Definition osa_j (n m : Z) : Z := (n * (n + 2) + m) / 2.

(** Noll: row n occupies the numbers T(n)+1 .. T(n)+n+1 (T(n) = n(n+1)/2) ordered by |m|; m = 0 takes
    T(n)+1; the pair +-m (|m| > 0) takes the two slots T(n)+|m| and T(n)+|m|+1, the cosine term
    (m > 0) the even one and the sine term (m < 0) the odd one. *)
Definition noll_j (n m : Z) : Z :=
  let b := n * (n + 1) / 2 + Z.abs m in
  if m =? 0 then b + 1
  else if 0 <? m then (if Z.even b then b else b + 1)
  else (if Z.odd b then b else b + 1).

Definition fringe_j (n m : Z) : Z :=
  (1 + (n + Z.abs m) / 2) ^ 2 - 2 * Z.abs m + (if m <? 0 then 1 else 0).

Definition pairf (f : Z -> Z -> Z) (p : Z * Z) : Z := f (fst p) (snd p).

Lemma zvalidb_spec n m : zvalidb n m = true <-> zvalid n m.
Proof.
  unfold zvalidb, zvalid. rewrite andb_true_iff, Z.leb_le, Z.even_spec. unfold Z.Even. tauto.
Qed.

(** * S_C14: independent statements used by the C14 theorems (exact reals).
    Nothing here mentions the translated code or the hand model. *)
From Coq Require Import Reals ZArith List.
Import ListNotations.
Local Open Scope R_scope.

(** merit function: sum over operands (weight, target, value) of (weight * (value - target))^2 *)
Fixpoint merit_spec (l : list (R * R * R)) : R :=
  match l with
  | [] => 0
  | (w, t, v) :: l' => (w * (v - t)) ^ 2 + merit_spec l'
  end.

(** documented optimiser units of each variable class *)
Definition radius_units (r : R) : R := r / 100 - 1.
Definition thickness_units (t : R) : R := t / 10 - 1.
Definition index_units (n : R) : R := n - 15 / 10.
Definition asphere_units (k : Z) (c : R) : R := c * IZR (10 ^ (4 + 2 * k)).

(** x lies inside optional bounds (None = unbounded on that side) *)
Definition within (b : option R * option R) (x : R) : Prop :=
  match fst b with Some lo => lo <= x | None => True end /\
  match snd b with Some hi => x <= hi | None => True end.

(** two lens states are the same lens *)
Definition same_lens {C : Type} (s s' : C -> R) : Prop := forall c, s c = s' c.

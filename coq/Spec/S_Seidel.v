(** * Classical third-order (Seidel) surface contributions and first-order colour, Welford's form.
      A = n i,  Abar = n ibar,  i = u + y c,  H = n (ybar u - y ubar)
      S_I   = - A^2    y D(u/n)        S_II = - A Abar y D(u/n)      S_III = - Abar^2 y D(u/n)
      S_IV  = - H^2 c D(1/n)           S_V  = (Abar/A) (S_III + S_IV)
      C_I   = A y D(dn/n)              C_II = Abar y D(dn/n)
    where D(x) = x' - x across the surface.  The transverse aberrations of the library follow
    W. Smith (Modern Optical Engineering): X_transverse = S / (2 n'_k u'_k). *)
From Coq Require Import Reals.
Local Open Scope R_scope.

Section Welford.
  Variables n n' c y u u' yb ub ub' dn dn' H : R.
  Definition Ai := n * (u + y * c).
  Definition Abar := n * (ub + yb * c).
  Definition Dun := u' / n' - u / n.
  Definition S_I := - Ai * Ai * y * Dun.
  Definition S_II := - Ai * Abar * y * Dun.
  Definition S_III := - Abar * Abar * y * Dun.
  Definition S_IV := - H * H * c * (1 / n' - 1 / n).
  Definition S_V := Abar / Ai * (S_III + S_IV).
  Definition C_I := Ai * y * (dn' / n' - dn / n).
  Definition C_II := Abar * y * (dn' / n' - dn / n).
End Welford.

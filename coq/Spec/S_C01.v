(** * C01 specification: what "the prescription stays consistent" means, independent of the code.
    Everything is over plain lists of reals / booleans / naturals. *)
From Coq Require Import Reals List ZArith Bool Lia.
Import ListNotations.
Local Open Scope R_scope.

(** ** vertex positions of a lens appended in index order
    surface 1 sits at z = 0, surface k+1 at z_k + t_k; the object (surface 0) at -t_0 *)
Fixpoint psums (z : R) (ts : list R) : list R :=
  match ts with [] => [] | t :: ts' => z :: psums (z + t) ts' end.
Definition vertex_spec (t0 : R) (ts : list R) : list R := (- t0) :: psums 0 ts.

(** thicknesses read back from vertex positions *)
Fixpoint thk (zs : list R) : list R :=
  match zs with
  | a :: ((b :: _) as r) => (b - a) :: thk r
  | _ => []
  end.

(** replace entry k *)
Fixpoint upd {A} (k : nat) (v : A) (l : list A) : list A :=
  match l, k with
  | [], _ => []
  | _ :: l', O => v :: l'
  | x :: l', S k' => x :: upd k' v l'
  end.

Fixpoint count_true (bs : list bool) : nat :=
  match bs with [] => 0 | b :: bs' => (if b then 1 else 0) + count_true bs' end%nat.

(** the medium behind each surface is (the same object as) the medium in front of the next:
    a surface is the pair (reference in front, reference behind) *)
Fixpoint media_chained (ss : list (nat * nat)) : Prop :=
  match ss with
  | (_, q) :: (((p, _) :: _) as r) => q = p /\ media_chained r
  | _ => True
  end.

(** ** an edit history on one quantity family: the value finally read is the last one written *)
Fixpoint last_write {K} (eqb : K -> K -> bool) (edits : list (K * R)) (k : K) (init : R) : R :=
  match edits with
  | [] => init
  | (k', v) :: es => last_write eqb es k (if eqb k' k then v else init)
  end.

(** ** sanity of the definitions *)
Example psums_ex : psums 0 [5; 40; 3] = [0; 5; 45].
Proof. simpl. repeat f_equal; ring. Qed.
Example thk_ex : thk [-100; 0; 5; 45] = [100; 5; 40].
Proof. simpl. repeat f_equal; ring. Qed.

Lemma psums_length z ts : length (psums z ts) = length ts.
Proof. revert z; induction ts; intros; simpl; auto. Qed.

Lemma psums_app z ts t : psums z (ts ++ [t]) = psums z ts ++ [z + fold_right Rplus 0 ts].
Proof.
  revert z; induction ts as [|a ts IH]; intros z; simpl.
  - f_equal; ring.
  - f_equal. rewrite IH. f_equal. f_equal. ring.
Qed.

(** vertex positions really are the running sums: the thicknesses read back are the ones given *)
Lemma thk_psums z t ts : thk (psums z (t :: ts)) = removelast (t :: ts).
Proof.
  revert z t; induction ts as [|b ts IH]; intros z t; [reflexivity|].
  specialize (IH (z + t) b).
  change (psums z (t :: b :: ts)) with (z :: psums (z + t) (b :: ts)).
  change (removelast (t :: b :: ts)) with (t :: removelast (b :: ts)).
  rewrite <- IH.
  change (psums (z + t) (b :: ts)) with ((z + t) :: psums (z + t + b) ts).
  cbn [thk]. f_equal. ring.
Qed.

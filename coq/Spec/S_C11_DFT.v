(** * S_C11_DFT: independent specification of the quantities property C11 talks about.

    Complex numbers are pairs of reals; a discrete Fourier transform is the finite sum
    [X_k = Σ_n x_n ω^(k n)] for a primitive N-th root of unity [ω] of modulus one
    (for NumPy, [ω = exp(-2πi/N)], which [wN] below instantiates for every N >= 1).
    Nothing in this file mentions the implementation or the executable model. *)
From Coq Require Import Reals Lra Lia List Arith ZArith.
Local Open Scope R_scope.

Definition RC := (R * R)%type.
Definition C0 : RC := (0, 0).
Definition C1 : RC := (1, 0).
Definition Cadd (a b : RC) : RC := (fst a + fst b, snd a + snd b).
Definition Copp (a : RC) : RC := (- fst a, - snd a).
Definition Csub (a b : RC) : RC := (fst a - fst b, snd a - snd b).
Definition Cmul (a b : RC) : RC := (fst a * fst b - snd a * snd b, fst a * snd b + snd a * fst b).
Definition Cconj (a : RC) : RC := (fst a, - snd a).
Definition Cn2 (a : RC) : R := fst a * fst a + snd a * snd a.
Definition Cmod (a : RC) : R := sqrt (Cn2 a).
Definition RtoC (x : R) : RC := (x, 0).
Definition cis (t : R) : RC := (cos t, sin t).

Fixpoint Cpow (a : RC) (n : nat) : RC :=
  match n with O => C1 | S n' => Cmul a (Cpow a n') end.
Fixpoint Csum (f : nat -> RC) (n : nat) : RC :=
  match n with O => C0 | S n' => Cadd (Csum f n') (f n') end.
Fixpoint Rsum (f : nat -> R) (n : nat) : R :=
  match n with O => 0 | S n' => Rsum f n' + f n' end.

(** ** primitive N-th root of unity on the unit circle *)
Definition prim_root (w : RC) (N : nat) : Prop :=
  Cn2 w = 1 /\ Cpow w N = C1 /\ forall d, (0 < d < N)%nat -> Cpow w d <> C1.

(** NumPy's forward kernel  exp(-2 pi i / N) *)
Definition wN (N : nat) : RC := (cos (2 * PI / INR N), - sin (2 * PI / INR N)).

(** ** discrete Fourier transforms *)
Definition dft (w : RC) (N : nat) (x : nat -> RC) (k : nat) : RC :=
  Csum (fun n => Cmul (x n) (Cpow w (k * n))) N.
Definition dft2 (w : RC) (N : nat) (x : nat -> nat -> RC) (k l : nat) : RC :=
  Csum (fun m => Csum (fun n => Cmul (x m n) (Cmul (Cpow w (k * m)) (Cpow w (l * n)))) N) N.

(** ** the point-spread function of a sampled pupil [P] (already padded to N x N):
    squared modulus of its DFT, scaled by [100 / norm] *)
Definition psf_spec (w : RC) (N : nat) (P : nat -> nat -> RC) (norm : R) (k l : nat) : R :=
  Cn2 (dft2 w N P k l) / norm * 100.
(** a pupil sample of amplitude [a] and wavefront error [opd] waves *)
Definition pupil_sample (a opd : R) : RC := Cmul (RtoC a) (cis (2 * PI * opd)).
(** the normaliser under which the unaberrated pupil peaks at 100: (Σ |P|)^2 *)
Definition norm_spec (N : nat) (P : nat -> nat -> RC) : R :=
  Rsum (fun m => Rsum (fun n => Cmod (P m n)) N) N * Rsum (fun m => Rsum (fun n => Cmod (P m n)) N) N.
Definition energy2 (N : nat) (f : nat -> nat -> R) : R := Rsum (fun k => Rsum (fun l => f k l) N) N.

(** ** modulation transfer: modulus of the transform of a (real) PSF over its zero-frequency value *)
Definition mtf_spec (w : RC) (N : nat) (psf : nat -> nat -> R) (k l : nat) : R :=
  Cmod (dft2 w N (fun m n => RtoC (psf m n)) k l) / Cmod (dft2 w N (fun m n => RtoC (psf m n)) 0 0).

(** ** diffraction-limited MTF of a circular pupil at normalised frequency nu = f / f_cutoff *)
Definition diff_limit (nu : R) : R := 2 / PI * (acos nu - nu * sqrt (1 - nu * nu)).

(** ** frequency axis: an N-point transform of samples spaced [dx_um] micrometres apart has
    frequency step 1/(N dx) cycles/um = 1000/(N dx) cycles/mm; the pupil autocorrelation
    (hence the MTF) vanishes from index [num_rays] on, so that index is the cut-off. *)
Definition freq_step_mm (N : R) (dx_um : R) : R := 1000 / (N * dx_um).
Definition cutoff_mm (wavelength_um fno : R) : R := 1 / (wavelength_um * / 1000 * fno).

(** ** geometric MTF: modulus of the Fourier transform of the line-spread histogram *)
Definition lsf_ft (A x : nat -> R) (nb : nat) (v : R) : RC :=
  Csum (fun b => Cmul (RtoC (A b)) (cis (2 * PI * v * x b))) nb.
Definition geo_mtf_spec (A x : nat -> R) (nb : nat) (v : R) : R :=
  Cmod (lsf_ft A x nb v) / Rsum A nb.

(** ** zero padding to the FFT grid (integer arithmetic) *)
Definition centred_pad_ok (grid n padded : Z) : Prop :=
  (padded = grid /\ padded / 2 = grid / 2)%Z.

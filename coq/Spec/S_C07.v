(** * C07 - independent specifications (no reference to the implementation's formulas).

    - a sphere as a point set: centre and radius;
    - mirror images and scaled copies of points / directions;
    - a vertex list described by its gaps, and what "all lengths multiplied by s" means for it. *)
From Coq Require Import Reals List.
Import ListNotations.
Local Open Scope R_scope.

Definition pt := (R * R * R)%type.
Definition on_sphere (C : pt) (Rc : R) (P : pt) : Prop :=
  let '(cx, cy, cz) := C in let '(x, y, z) := P in
  (x - cx) * (x - cx) + (y - cy) * (y - cy) + (z - cz) * (z - cz) = Rc * Rc.

(** centre of curvature of a sphere of radius Rc whose vertex is v and whose axis is the z axis *)
Definition centre_of (v : pt) (Rc : R) : pt := let '(vx, vy, vz) := v in (vx, vy, vz + Rc).

(** vertex of the same sphere after its axis was tilted by [a] about the x axis through the centre *)
Definition tilted_vertex_x (v : pt) (Rc a : R) : pt :=
  let '(vx, vy, vz) := v in (vx, vy + Rc * sin a, vz + Rc * (1 - cos a)).
Definition tilted_vertex_y (v : pt) (Rc a : R) : pt :=
  let '(vx, vy, vz) := v in (vx - Rc * sin a, vy, vz + Rc * (1 - cos a)).

Definition mirror_pt (mx my : bool) (P : pt) : pt :=
  let '(x, y, z) := P in ((if mx then - x else x), (if my then - y else y), z).
Definition scale_pt (s : R) (P : pt) : pt := let '(x, y, z) := P in (s * x, s * y, s * z).

(** gaps of a vertex list *)
Fixpoint gaps (l : list R) : list R :=
  match l with a :: ((b :: _) as t) => (b - a) :: gaps t | _ => [] end.
Definition scaled_positions (s : R) (l : list R) : list R := map (Rmult s) l.

Lemma gaps_scaled s l : gaps (scaled_positions s l) = map (Rmult s) (gaps l).
Proof.
  induction l as [|a [|b t] IH]; try reflexivity.
  change (gaps (scaled_positions s (a :: b :: t))) with ((s * b - s * a) :: gaps (scaled_positions s (b :: t))).
  rewrite IH. cbn [gaps map]. f_equal. ring.
Qed.

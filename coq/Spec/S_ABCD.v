(** * Paraxial matrix optics (independent specification)
    Ray vector (y, u); transfer over distance t: [[1 t][0 1]];
    refraction at curvature c from index n to n':  [[1 0][-(n'-n) c / n'   n/n']];
    mirror (index sign reversal, n' = -n, reduced back to positive slope convention used by
    the library: u' = -u - 2 c y):  [[1 0][-2c  -1]]. *)
From Coq Require Import Reals Lra List.
Import ListNotations.
Local Open Scope R_scope.

Record mat := mkMat { ma : R; mb : R; mc : R; md : R }.
Definition mapply (m : mat) (v : R * R) : R * R :=
  (ma m * fst v + mb m * snd v, mc m * fst v + md m * snd v).
Definition mmul (p q : mat) : mat :=   (* p after q *)
  mkMat (ma p * ma q + mb p * mc q) (ma p * mb q + mb p * md q)
        (mc p * ma q + md p * mc q) (mc p * mb q + md p * md q).
Definition mid := mkMat 1 0 0 1.
Definition mdet (m : mat) := ma m * md m - mb m * mc m.
Definition transfer (t : R) := mkMat 1 t 0 1.
Definition refraction (c n n' : R) := mkMat 1 0 (- (n' - n) * c / n') (n / n').
Definition mirror (c : R) := mkMat 1 0 (- 2 * c) (-1).

Lemma mapply_mmul p q v : mapply (mmul p q) v = mapply p (mapply q v).
Proof. destruct v; unfold mapply, mmul; simpl; f_equal; ring. Qed.
Lemma mapply_mid v : mapply mid v = v.
Proof. destruct v; unfold mapply, mid; simpl; f_equal; ring. Qed.
Lemma mapply_linear m a b v w :
  mapply m (a * fst v + b * fst w, a * snd v + b * snd w) =
  (a * fst (mapply m v) + b * fst (mapply m w), a * snd (mapply m v) + b * snd (mapply m w)).
Proof. unfold mapply; simpl; f_equal; ring. Qed.
Lemma mdet_mmul p q : mdet (mmul p q) = mdet p * mdet q.
Proof. unfold mdet, mmul; simpl; ring. Qed.

(** abstract paraxial surface: vertex position, curvature (0 = plane), indices, kind *)
Record asurf := mkAS { a_z : R; a_c : R; a_n1 : R; a_n2 : R; a_refl : bool; a_obj : bool }.

Definition surf_matrix (s : asurf) (z : R) : mat :=
  if a_obj s then mid else
  mmul (if a_refl s then mirror (a_c s) else refraction (a_c s) (a_n1 s) (a_n2 s)) (transfer (a_z s - z)).
Definition next_z (s : asurf) (z : R) : R := if a_obj s then z else a_z s.

(** system matrix of a surface list for a ray currently at axial position z *)
Fixpoint sysmat (ss : list asurf) (z : R) : mat :=
  match ss with
  | [] => mid
  | s :: ss' => mmul (sysmat ss' (next_z s z)) (surf_matrix s z)
  end.

(** matrices after each surface (what a trace records) *)
Fixpoint sysmats (ss : list asurf) (z : R) (acc : mat) : list mat :=
  match ss with
  | [] => []
  | s :: ss' => let m := mmul (surf_matrix s z) acc in m :: sysmats ss' (next_z s z) m
  end.

(** * C13 - what "repeatable and free of side effects" means, independently of any model of optiland.

    A system has states [St]; [pres] projects the part of a state that only editing operations may change
    (prescription, fields, wavelengths, aperture); [act h s] is the state after the history [h] of calls;
    [ask q s] is the answer of query [q] in state [s] together with the state it leaves behind. *)
From Coq Require Import List Reals.
Import ListNotations.

Section Spec.
  Variables (St Pres H Q Out : Type).
  Variable pres : St -> Pres.
  Variable act1 : H -> St -> St.
  Variable ask : Q -> St -> Out * St.
  Definition act (h : list H) (s : St) : St := fold_left (fun s c => act1 c s) h s.

  (** no call of a history changes the prescription / fields / wavelengths / aperture *)
  Definition preserves_prescription : Prop := forall (h : list H) (s : St), pres (act h s) = pres s.
  (** the answer of a query does not depend on what was asked before *)
  Definition history_independent (good : Q -> Prop) : Prop :=
    forall q, good q -> forall (h : list H) (s : St), fst (ask q (act h s)) = fst (ask q s).
  (** the same query twice in a row gives the same answer *)
  Definition repeatable (good : Q -> Prop) : Prop :=
    forall q, good q -> forall s, fst (ask q (snd (ask q s))) = fst (ask q s).
  (** the answer is a function of the prescription alone (so it survives any edit that restores it) *)
  Definition determined_by_prescription (good : Q -> Prop) : Prop :=
    forall q, good q -> forall s1 s2, pres s1 = pres s2 -> fst (ask q s1) = fst (ask q s2).
End Spec.

(** a call that receives a caller-owned array and returns (result, content of that array afterwards) *)
Definition caller_safe {A R : Type} (f : A -> R * A) : Prop := forall a, snd (f a) = a.
(** ... and calling it again with the array as the caller now holds it gives the same result *)
Definition caller_repeatable {A R : Type} (f : A -> R * A) : Prop :=
  forall a, fst (f (snd (f a))) = fst (f a).

(** one ray in company: the companions may only change HOW LONG the ray's own iteration runs *)
Definition companions_only_prolong {X : Type} (step : X -> X) (alone : X -> X) (batch : list X -> list X) : Prop :=
  forall rs, exists n, batch rs = map (fun r => Nat.iter n step r) rs /\
                       forall r, In r rs -> exists k, Nat.iter n step r = Nat.iter k step (alone r).

(** two parameters along one ray, both accepted by the residual test |h t| < tol, lie within the
    intersection tolerance of each other when the residual is m-expansive along the ray *)
Local Open Scope R_scope.
Definition within_intersection_tolerance (h : R -> R) (m tol : R) : Prop :=
  forall ta tb, Rabs (h ta) < tol -> Rabs (h tb) < tol -> Rabs (ta - tb) < 2 * tol / m.

(** * Independent specification for property C06 (analytically stigmatic systems)

    Nothing here mentions the implementation: conics as point sets, geometric foci, "the ray passes
    through an axial point", equal optical paths, wavefront error in waves and the Strehl ratio of a
    sampled pupil. *)
From Coq Require Import Reals Lra List.
From OV Require Import Spec.S_C11_DFT.
Local Open Scope R_scope.

(** the quadric of a "standard" prescription: vertex at the origin, vertex radius [Rc], conic constant [k] *)
Definition on_conic (Rc k x y z : R) : Prop := x*x + y*y + (1+k)*(z*z) - 2*Rc*z = 0.

(** the sheet of that quadric through the vertex (the part a sag table describes, [r < r_max]) *)
Definition on_vertex_sheet (Rc k x y z : R) : Prop :=
  on_conic Rc k x y z /\ 0 < 1 - (1+k)*(x*x+y*y)/(Rc*Rc) /\
  Rc - (1+k)*z = Rc * sqrt (1 - (1+k)*(x*x+y*y)/(Rc*Rc)).

Definition unit3 (L M N : R) : Prop := L*L + M*M + N*N = 1.

(** the line  p + s d  passes through the axial point (0,0,zf) at the signed parameter [s]
    ([0 < s]: a real crossing ahead of the ray; [s < 0]: a virtual one behind it) *)
Definition through_axis_point (x y z L M N s zf : R) : Prop :=
  x + s*L = 0 /\ y + s*M = 0 /\ z + s*N = zf.

(** geometric foci of the conic of eccentricity [e] ([k = - e^2]) measured from the vertex:
    [focus Rc e] and [focus Rc (-e)];  e = 0: both are the centre of curvature;  e = 1: R/2 and infinity *)
Definition focus (Rc e : R) : R := Rc / (1 + e).

(** aplanatic conjugates of a spherical surface between media n1 | n2 (measured from the vertex) *)
Definition aplanatic_object (Rc n1 n2 : R) : R := Rc * (n1 + n2) / n1.
Definition aplanatic_image (Rc n1 n2 : R) : R := Rc * (n1 + n2) / n2.

(** law of reflection / vector Snell law against a (not necessarily unit) surface normal g *)
Definition reflects (gx gy gz L M N L' M' N' : R) : Prop :=
  let gg := gx*gx + gy*gy + gz*gz in let dg := L*gx + M*gy + N*gz in
  L' = L - 2*dg*gx/gg /\ M' = M - 2*dg*gy/gg /\ N' = N - 2*dg*gz/gg.
Definition refracts (n1 n2 gx gy gz L M N L' M' N' : R) : Prop :=
  unit3 L' M' N' /\
  (* tangential components scale by n1/n2 : n2 (t x g) = n1 (d x g) *)
  n2*(M'*gz - N'*gy) = n1*(M*gz - N*gy) /\ n2*(N'*gx - L'*gz) = n1*(N*gx - L*gz) /\
  n2*(L'*gy - M'*gx) = n1*(L*gy - M*gx) /\
  (* transmitted: stays on the side of the surface it was heading to *)
  0 < (L'*gx + M'*gy + N'*gz) * (L*gx + M*gy + N*gz).

(** ** perfect (stigmatic) imaging of a pencil of rays indexed by [I] *)
Record ray_end := mkEnd { e_x : R; e_y : R; e_z : R; e_opl : R }.
Definition stigmatic {I : Type} (pencil : I -> ray_end) (xi yi zi : R) : Prop :=
  (forall i, e_x (pencil i) = xi /\ e_y (pencil i) = yi /\ e_z (pencil i) = zi) /\
  (forall i j, e_opl (pencil i) = e_opl (pencil j)).

(** ** wavefront error (in waves) of a ray against the chief ray, both measured to the reference sphere *)
Definition wave_error (opl_ref opl wavelength_um : R) : R := (opl_ref - opl) / (wavelength_um * / 1000).

(** ** Strehl ratio of a sampled pupil: peak of the aberrated PSF over the peak of the unaberrated one
    with the same amplitudes, both taken on axis:  |sum a_j e^{2 pi i w_j}|^2 / (sum a_j)^2 *)
Definition strehl_spec (a w : nat -> R) (n : nat) : R :=
  Cn2 (Csum (fun j => pupil_sample (a j) (w j)) n) / (Rsum a n * Rsum a n).

(** * Independent specification for property C18 (catalogue materials).

    The nine dispersion formulas of the refractiveindex.info database
    (https://refractiveindex.info/database/doc/Dispersion%20formulas.pdf), written
    by structural recursion over the coefficient list `C1 C2 C3 ...` -- no indices,
    no loops over ranges.  Everything is generic over [Ops] so that the very same
    term is (a) reasoned about over the reals and (b) executed in binary64 against
    the implementation on the whole catalogue.

    [None] = "the data file is malformed for this formula" (the implementation raises). *)
From Coq Require Import ZArith List Bool.
From Coq Require Import PrimFloat.
From OV Require Import Ops.
Import ListNotations.

Section Formulas.
  Context {O : Ops}.
  Notation T := (T O).

  (** acc + term(C_i, C_{i+1}) over consecutive coefficient pairs, left to right;
      a dangling last coefficient is an error *)
  Fixpoint sum_pairs (term : T -> T -> T) (cs : list T) (acc : T) : option T :=
    match cs with
    | [] => Some acc
    | [_] => None
    | a :: b :: rest => sum_pairs term rest (add acc (term a b))
    end.

  Definition sq (x : T) : T := mul x x.
  Definition one : T := ofZ 1.

  (** 1 Sellmeier:   n^2 - 1 = C1 + sum C_i w^2 / (w^2 - C_{i+1}^2) *)
  Definition spec_formula_1 (c : list T) (w : T) : option T :=
    match c with
    | [] => None
    | c1 :: rest =>
        option_map sqrt_ (sum_pairs (fun a b => div (mul a (sq w)) (sub (sq w) (sq b))) rest (add one c1))
    end.
  (** 2 Sellmeier-2: n^2 - 1 = C1 + sum C_i w^2 / (w^2 - C_{i+1}) *)
  Definition spec_formula_2 (c : list T) (w : T) : option T :=
    match c with
    | [] => None
    | c1 :: rest =>
        option_map sqrt_ (sum_pairs (fun a b => div (mul a (sq w)) (sub (sq w) b)) rest (add one c1))
    end.
  (** 3 Polynomial:  n^2 = C1 + sum C_i w^C_{i+1} *)
  Definition spec_formula_3 (c : list T) (w : T) : option T :=
    match c with
    | [] => None
    | c1 :: rest => option_map sqrt_ (sum_pairs (fun a b => mul a (pow_ w b)) rest c1)
    end.
  (** 4 RefractiveIndex.INFO:
      n^2 = C1 + C2 w^C3/(w^2 - C4^C5) + C6 w^C7/(w^2 - C8^C9) + sum C_i w^C_{i+1}  (nine leading coefficients required) *)
  Definition spec_formula_4 (c : list T) (w : T) : option T :=
    match c with
    | c1 :: c2 :: c3 :: c4 :: c5 :: c6 :: c7 :: c8 :: c9 :: rest =>
        option_map sqrt_
          (sum_pairs (fun a b => mul a (pow_ w b)) rest
             (add (add c1 (div (mul c2 (pow_ w c3)) (sub (sq w) (pow_ c4 c5))))
                  (div (mul c6 (pow_ w c7)) (sub (sq w) (pow_ c8 c9)))))
    | _ => None
    end.
  (** 5 Cauchy:      n = C1 + sum C_i w^C_{i+1} *)
  Definition spec_formula_5 (c : list T) (w : T) : option T :=
    match c with
    | [] => None
    | c1 :: rest => sum_pairs (fun a b => mul a (pow_ w b)) rest c1
    end.
  (** 6 Gases:       n - 1 = C1 + sum C_i / (C_{i+1} - w^-2) *)
  Definition spec_formula_6 (c : list T) (w : T) : option T :=
    match c with
    | [] => None
    | c1 :: rest =>
        sum_pairs (fun a b => div a (sub b (div one (sq w)))) rest (add one c1)
    end.
  (** 7 Herzberger:  n = C1 + C2/(w^2-0.028) + C3 (1/(w^2-0.028))^2 + C4 w^2 + C5 w^4 + C6 w^6 (+ ...) *)
  Fixpoint herz_tail (w : T) (cs : list T) (j : nat) (acc : T) : T :=
    match cs with
    | [] => acc
    | a :: rest => herz_tail w rest (S j) (add acc (mul a (pow_nat w (2 * j))))
    end.
  Definition c0028 : T := lit 28 (-3) 0x1.cac083126e979p-6%float.
  Definition spec_formula_7 (c : list T) (w : T) : option T :=
    match c with
    | c1 :: c2 :: c3 :: rest =>
        let L := div one (sub (sq w) c0028) in
        Some (herz_tail w rest 1 (add (add c1 (div c2 (sub (sq w) c0028))) (mul c3 (mul L L))))
    | _ => None
    end.
  (** 8 Retro:       (n^2-1)/(n^2+2) = C1 + C2 w^2/(w^2 - C3) + C4 w^2, solved for n *)
  Definition retro_b (c1 c2 c3 c4 w : T) : T :=
    add (add c1 (div (mul c2 (sq w)) (sub (sq w) c3))) (mul c4 (sq w)).
  Definition spec_formula_8 (c : list T) (w : T) : option T :=
    match c with
    | [c1; c2; c3; c4] =>
        let b := retro_b c1 c2 c3 c4 w in
        Some (sqrt_ (div (add one (mul (ofZ 2) b)) (sub one b)))
    | _ => None
    end.
  (** 9 Exotic:      n^2 = C1 + C2/(w^2 - C3) + C4 (w - C5)/((w - C5)^2 + C6) *)
  Definition spec_formula_9 (c : list T) (w : T) : option T :=
    match c with
    | [c1; c2; c3; c4; c5; c6] =>
        Some (sqrt_ (add (add c1 (div c2 (sub (sq w) c3)))
                         (div (mul c4 (sub w c5)) (add (sq (sub w c5)) c6))))
    | _ => None
    end.

  Definition spec_formula (k : Z) (c : list T) (w : T) : option T :=
    match k with
    | 1 => spec_formula_1 c w | 2 => spec_formula_2 c w | 3 => spec_formula_3 c w
    | 4 => spec_formula_4 c w | 5 => spec_formula_5 c w | 6 => spec_formula_6 c w
    | 7 => spec_formula_7 c w | 8 => spec_formula_8 c w | 9 => spec_formula_9 c w
    | _ => None
    end%Z.

  (** ** Linear interpolation of a table [(x0,f0); (x1,f1); ...] with increasing abscissae:
      the chord through the two neighbouring rows; the end values outside. *)
  Definition chord (x0 f0 x1 f1 x : T) : T :=
    add f0 (mul (div (sub f1 f0) (sub x1 x0)) (sub x x0)).
  Fixpoint lin_interp_from (x0 f0 : T) (rest : list (T * T)) (x : T) : T :=
    match rest with
    | [] => f0
    | (x1, f1) :: rest' =>
        if leb_ x1 x then lin_interp_from x1 f1 rest' x
        else chord x0 f0 x1 f1 x
    end.
  Definition lin_interp (tbl : list (T * T)) (x : T) : option T :=
    match tbl with
    | [] => None
    | (x0, f0) :: rest => Some (if leb_ x x0 then f0 else lin_interp_from x0 f0 rest x)
    end.

  (** ** What a data file says: its DATA sections *)
  Inductive section :=
  | SFormula (k : Z) (coeffs : list T)
  | STabN (tbl : list (T * T))
  | STabK (tbl : list (T * T))
  | STabNK (tbl : list (T * T * T))
  | SOther.
  Definition defines_n (s : section) : bool :=
    match s with SFormula _ _ | STabN _ | STabNK _ => true | _ => false end.
  Definition section_n (s : section) (w : T) : option T :=
    match s with
    | SFormula k c => spec_formula k c w
    | STabN t => lin_interp t w
    | STabNK t => lin_interp (map (fun r => (fst (fst r), snd (fst r))) t) w
    | _ => None
    end.
  Definition section_k (s : section) (w : T) : option T :=
    match s with
    | STabK t => lin_interp t w
    | STabNK t => lin_interp (map (fun r => (fst (fst r), snd r)) t) w
    | _ => None
    end.
  (** the index the file defines: that of its (unique) dispersion section *)
  Definition file_index (secs : list section) (w : T) : option T :=
    match filter defines_n secs with
    | [s] => section_n s w
    | _ => None
    end.
  Definition defines_k (s : section) : bool :=
    match s with STabK _ | STabNK _ => true | _ => false end.
  (** the extinction coefficient: the last k table of the file *)
  Definition file_k (secs : list section) (w : T) : option T :=
    match rev (filter defines_k secs) with
    | s :: _ => section_k s w
    | [] => None
    end.

  (** ** Abbe number and polynomial evaluation *)
  Definition spec_abbe (nd nF nC : T) : T := div (sub nd one) (sub nF nC).
  (** p0 x^(n-1) + ... + p_{n-1} *)
  Fixpoint spec_poly (p : list T) (x : T) : T :=
    match p with
    | [] => ofZ 0
    | a :: rest => add (mul a (pow_nat x (length rest))) (spec_poly rest x)
    end.
End Formulas.

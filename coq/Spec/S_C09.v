(** * Independent specification for property C09 (reported OPD = path difference to the chief-ray
    reference sphere).  Nothing here mentions optiland's code: points, spheres, plane waves, optical
    paths and statistics over exact reals. *)
From Coq Require Import Reals List.
Import ListNotations.
Local Open Scope R_scope.

Definition P3 := (R * R * R)%type.
Definition px (p : P3) := fst (fst p).
Definition py (p : P3) := snd (fst p).
Definition pz (p : P3) := snd p.
Definition dot3 (a b : P3) : R := px a * px b + py a * py b + pz a * pz b.
Definition sub3 (a b : P3) : P3 := (px a - px b, py a - py b, pz a - pz b).
Definition sqdist (p c : P3) : R := dot3 (sub3 p c) (sub3 p c).
Definition unit3 (d : P3) : Prop := dot3 d d = 1.

(** the sphere of centre [c] and squared radius [R2] *)
Definition on_sphere (c : P3) (R2 : R) (p : P3) : Prop := sqdist p c = R2.
(** the reference sphere of the property: centred on the chief ray's image point [c], its radius
    reaches the axial point (0, 0, pupil_z) of the paraxial exit pupil *)
Definition ref_radius_sq (c : P3) (pupil_z : R) : R := sqdist (0, 0, pupil_z) c.
(** the point a distance [t] back along the direction [d] from [p] *)
Definition back (p d : P3) (t : R) : P3 := (px p - t * px d, py p - t * py d, pz p - t * pz d).

(** a plane wave of unit direction [d]: optical path (index [n]) from the wavefront through [p0] to [p] *)
Definition plane_wave_path (n : R) (d p0 p : P3) : R := n * dot3 d (sub3 p p0).

(** optical path from the common object-space wavefront to the reference sphere: wavefront -> launch
    point, launch point -> image point (sum of n * length, [opl]), minus the segment sphere -> image
    point of geometric length [t] in the image-space index [n_img] *)
Definition path_to_sphere (offset opl n_img t : R) : R := offset + opl - n_img * t.
(** the reported quantity: waves at wavelength [lambda] (micrometres; lengths are millimetres) *)
Definition opd_waves (path_chief path_ray lambda : R) : R := (path_chief - path_ray) / (lambda * / 1000).

(** statistics *)
Fixpoint sumR (l : list R) : R := match l with [] => 0 | x :: l' => x + sumR l' end.
Definition meanR (l : list R) : R := sumR l / INR (length l).
Definition rmsR (l : list R) : R := sqrt (meanR (map (fun x => x * x) l)).
(** mean absolute weighted deviation from the mean (the OPD-difference operand) *)
Definition mean_abs_dev (l w : list R) : R :=
  meanR (map (fun dw => Rabs ((fst dw - meanR l) * snd dw)) (combine l w)).

(** * C20 - executable comparison helpers (PrimFloat instance) used by the correspondence check:
    the model's lens and the lens observed on the real importer are compared INSIDE Coq. *)
From Coq Require Import ZArith List String Bool PrimFloat.
From OV Require Import Ops FloatInst Model.M_C20.
Import ListNotations.
Local Open Scope string_scope.

Definition tk (s : string) (f : option float) (i : option Z) : @tok FOps := mkTok (O:=FOps) s f i.

Definition ostr_eqb (a b : option string) : bool :=
  match a, b with Some x, Some y => String.eqb x y | None, None => true | _, _ => false end.
(** table of the (name, reference) pairs for which Material(name, reference) found a catalogue entry *)
Definition rtab (t : list (string * option string)) (n : string) (r : option string) : bool :=
  existsb (fun e => String.eqb (fst e) n && ostr_eqb (snd e) r) t.

Fixpoint all2 {A} (f : A -> A -> bool) (a b : list A) : bool :=
  match a, b with
  | [], [] => true
  | x :: a', y :: b' => f x y && all2 f a' b'
  | _, _ => false
  end.
Definition med_same (a b : @lmedium FOps) : bool :=
  match a, b with
  | LAir, LAir => true
  | LCat s r, LCat s' r' => String.eqb s s' && ostr_eqb r r'
  | LAbbe n v, LAbbe n' v' => same n n' && same v v'
  | _, _ => false
  end.
Definition shape_same (a b : @lshape FOps) : bool :=
  match a, b with
  | LPlane, LPlane => true
  | LStd R k, LStd R' k' => same R R' && same k k'
  | LEven R k c, LEven R' k' c' => same R R' && same k k' && all2 same c c'
  | _, _ => false
  end.
Definition surf_same (a b : @lsurf FOps) : bool :=
  shape_same (l_shape a) (l_shape b) && same (l_z a) (l_z b) && Bool.eqb (l_stop a) (l_stop b)
  && med_same (l_med a) (l_med b).
Definition pair_same (p q : float * float) : bool := same (fst p) (fst q) && same (snd p) (snd q).
Fixpoint remove1 (p : float * float) (l : list (float * float)) : option (list (float * float)) :=
  match l with
  | [] => None
  | q :: r => if pair_same p q then Some r else match remove1 p r with Some r' => Some (q :: r') | None => None end
  end.
Fixpoint multiset_same (a b : list (float * float)) : bool :=
  match a with
  | [] => match b with [] => true | _ => false end
  | p :: a' => match remove1 p b with Some b' => multiset_same a' b' | None => false end
  end.
Fixpoint y_sorted (l : list (float * float)) : bool :=
  match l with
  | p :: ((q :: _) as r) => negb (PrimFloat.ltb (snd q) (snd p)) && y_sorted r
  | _ => true
  end.
(** fields: same multiset, both sorted by y (the order inside a group of equal y is Python's set order) *)
Definition fields_same (m o : list (float * float)) : bool := multiset_same m o && y_sorted o && y_sorted m.
Definition lens_same (m o : @lens FOps) : bool :=
  all2 surf_same (l_surfs m) (l_surfs o) && String.eqb (l_apt m) (l_apt o) && same (l_apv m) (l_apv o)
  && String.eqb (l_ftype m) (l_ftype o) && fields_same (l_fields m) (l_fields o)
  && all2 same (l_waves m) (l_waves o) && (l_prim m =? l_prim o)%Z.
(** clause-wise verdicts, for the report *)
Definition lens_diff (m o : @lens FOps) : list bool :=
  [all2 surf_same (l_surfs m) (l_surfs o); String.eqb (l_apt m) (l_apt o) && same (l_apv m) (l_apv o);
   String.eqb (l_ftype m) (l_ftype o); fields_same (l_fields m) (l_fields o);
   all2 same (l_waves m) (l_waves o); (l_prim m =? l_prim o)%Z].
Definition agrees (m : option (@lens FOps)) (o : option (@lens FOps)) : bool :=
  match m, o with
  | Some a, Some b => lens_same a b
  | None, None => true
  | _, _ => false
  end.

(** constructors at the PrimFloat instance (the harness prints observed lenses with these) *)
Definition fPlane : @lshape FOps := LPlane.
Definition fStd (R k : float) : @lshape FOps := LStd (O:=FOps) R k.
Definition fEven (R k : float) (c : list float) : @lshape FOps := LEven (O:=FOps) R k c.
Definition fAir : @lmedium FOps := LAir.
Definition fCat (s : string) (r : option string) : @lmedium FOps := LCat s r.
Definition fAbbe (n v : float) : @lmedium FOps := LAbbe (O:=FOps) n v.
Definition fL (sh : @lshape FOps) (z : float) (st : bool) (m : @lmedium FOps) : @lsurf FOps := mkL sh z st m.
Definition fLens (ss : list (@lsurf FOps)) (a : string) (v : float) (ft : string) (fs : list (float * float))
  (ws : list float) (p : Z) : @lens FOps := mkLens (O:=FOps) ss a v ft fs ws p.
Definition fload (res : string -> option string -> bool) (ls : list (list (@tok FOps))) : option (@lens FOps) :=
  load (O:=FOps) res ls.

(** * Hand model of the polarization ray trace (optiland/rays/polarized_rays.py,
      optiland/rays/polarization_state.py).

    The NumPy glue (np.cross / np.stack / einsum / matmul over (N,3,3) arrays) is outside the
    translator's subset; it is modelled here per ray, generic over [Ops], and tied to the
    implementation by the correspondence checks of tools/props/C17.py
    (pol_update, field3d, intensities, PolarizationState, create_polarization). *)
From Coq Require Import ZArith List String.
From Coq Require Import PrimFloat.
From OV Require Import Ops Cx.
Import ListNotations.
Local Open Scope string_scope.

Section Model.
  Context {O : Ops}.
  Notation T := (T O).

  (** ** polarization_state.py *)
  (** [create_polarization]: (Ex, Ey, phase_x, phase_y) handed to [PolarizationState];
      [None] = unpolarized or ValueError (told apart by [named_is_unpolarized]) *)
  Definition sqrt2_2 : T := div (sqrt_ (ofZ 2)) (ofZ 2).
  Definition pio2 : T := div pi_ (ofZ 2).
  Definition named_state (name : string) : option (T * T * T * T) :=
    if String.eqb name "H" then Some (ofZ 1, ofZ 0, ofZ 0, ofZ 0)
    else if String.eqb name "V" then Some (ofZ 0, ofZ 1, ofZ 0, ofZ 0)
    else if String.eqb name "L+45" then Some (ofZ 1, ofZ 1, ofZ 0, ofZ 0)
    else if String.eqb name "L-45" then Some (ofZ 1, ofZ (-1), ofZ 0, ofZ 0)
    else if String.eqb name "RCP" then Some (sqrt2_2, sqrt2_2, ofZ 0, neg pio2)
    else if String.eqb name "LCP" then Some (sqrt2_2, sqrt2_2, ofZ 0, pio2)
    else None.
  (** [PolarizationState.__init__] for a polarized state: amplitudes normalised *)
  Definition polstate_init (st : T * T * T * T) : T * T * T * T :=
    let '(ex, ey, px, py) := st in
    let mag := sqrt_ (add (mul ex ex) (mul ey ey)) in
    (div ex mag, div ey mag, px, py).

  (** [np.exp(1j * phi)] *)
  Definition cis (phi : T) : Cx O := cexp (cmul cI (cofR phi)).
  (** Jones vector (Ex e^{i px}, Ey e^{i py}) of a state, as used by [_get_3d_electric_field] *)
  Definition jones_vec (st : T * T * T * T) : Cx O * Cx O :=
    let '(ex, ey, px, py) := st in (cscale ex (cis px), cscale ey (cis py)).

  (** ** polarized_rays.py *)
  Definition xhat : V3 O := (ofZ 1, ofZ 0, ofZ 0).
  (** local transverse basis of [_get_3d_electric_field]: p = k x xhat / |.|, s = p x k *)
  Definition field_basis (k : V3 O) : V3 O * V3 O :=
    let p0 := cross k xhat in
    let p := vdiv p0 (norm3 p0) in
    (cross p k, p).
  Definition field_raises (k : V3 O) : bool := eqb_ (norm3 (cross k xhat)) (ofZ 0).
  Definition cv_lin (a : Cx O) (s : V3 O) (b : Cx O) (p : V3 O) : CV3 O :=
    let '(sx, sy, sz) := s in let '(px, py, pz) := p in
    (cadd (cscale sx a) (cscale px b), cadd (cscale sy a) (cscale py b), cadd (cscale sz a) (cscale pz b)).
  (** [_get_3d_electric_field(state)] for the launch direction k *)
  Definition field3d (k : V3 O) (st : T * T * T * T) : CV3 O :=
    let '(s, p) := field_basis k in
    let '(a, b) := jones_vec st in cv_lin a s b p.

  (** s-vector of [update]: k0 x k1 normalised; when |k0 x k1| < 1e-8 (k0, k1 (anti)parallel up to
      rounding, e.g. an index-matched surface) k0 x xhat is used instead.  NaN compares false. *)
  Definition par_tol : T := lit 1 (-8) 0x1.5798ee2308c3ap-27%float.
  Definition s_vector (k0 k1 : V3 O) : V3 O :=
    let s0 := cross k0 k1 in
    let mag0 := norm3 s0 in
    let par := ltb_ mag0 par_tol in
    let s1 := if par then cross k0 xhat else s0 in
    let mag := if par then norm3 s1 else mag0 in
    vdiv s1 mag.
  Definition rows3 (a b c : V3 O) : M3 O :=
    let '(ax, ay, az) := a in let '(bx, by_, bz) := b in let '(cx, cy, cz) := c in
    m3_ofR (ax, ay, az, bx, by_, bz, cx, cy, cz).
  Definition cols3 (a b c : V3 O) : M3 O :=
    let '(ax, ay, az) := a in let '(bx, by_, bz) := b in let '(cx, cy, cz) := c in
    m3_ofR (ax, bx, cx, ay, by_, cy, az, bz, cz).
  Definition o_in (k0 k1 : V3 O) : M3 O :=
    let s := s_vector k0 k1 in rows3 s (cross k0 s) k0.
  Definition o_out (k0 k1 : V3 O) : M3 O :=
    let s := s_vector k0 k1 in cols3 s (cross k1 s) k1.
  (** polarization matrix of one surface: O_out J O_in (J = None: no coating) *)
  Definition surface_matrix (k0 k1 : V3 O) (J : option (M3 O)) : M3 O :=
    match J with
    | None => m3_mul (o_out k0 k1) (o_in k0 k1)
    | Some j => m3_mul (o_out k0 k1) (m3_mul j (o_in k0 k1))
    end.
  (** [PolarizedRays.update]: self.p <- p_surface . self.p *)
  Definition pol_update (k0 k1 : V3 O) (J : option (M3 O)) (P : M3 O) : M3 O :=
    m3_mul (surface_matrix k0 k1 J) P.

  (** a whole trace: directions after each surface, optional Jones matrix per surface *)
  Fixpoint trace_P (k : V3 O) (surfs : list (V3 O * option (M3 O))) (P : M3 O) : M3 O :=
    match surfs with
    | [] => P
    | (k', J) :: rest => trace_P k' rest (pol_update k k' J P)
    end.
  (** exactly what the code does: each [update] call sees its own (k0, k1) -- the direction cosines in the
      local frame of that surface -- and multiplies onto the accumulated matrix *)
  Fixpoint trace_PP (calls : list (V3 O * V3 O * option (M3 O))) (P : M3 O) : M3 O :=
    match calls with
    | [] => P
    | (k0, k1, J) :: rest => trace_PP rest (pol_update k0 k1 J P)
    end.
  (** the calls form a chain when every surface starts from the direction the previous one produced *)
  Fixpoint chain_calls (k : V3 O) (surfs : list (V3 O * option (M3 O))) : list (V3 O * V3 O * option (M3 O)) :=
    match surfs with
    | [] => []
    | (k', J) :: rest => (k, k', J) :: chain_calls k' rest
    end.
  Fixpoint last_dir (k : V3 O) (surfs : list (V3 O * option (M3 O))) : V3 O :=
    match surfs with [] => k | (k', _) :: rest => last_dir k' rest end.

  (** [update_intensity]: polarized and unpolarized branch (k = launch direction, i0 = launch intensity) *)
  Definition intensity_pol (P : M3 O) (k : V3 O) (st : T * T * T * T) : T :=
    cv_abs2 (m3_apply P (field3d k st)).
  Definition state_x : T * T * T * T := polstate_init (ofZ 1, ofZ 0, ofZ 0, ofZ 0).
  Definition state_y : T * T * T * T := polstate_init (ofZ 0, ofZ 1, ofZ 0, ofZ 0).
  Definition intensity_unpol (P : M3 O) (k : V3 O) (i0 : T) : T :=
    div (mul (add (intensity_pol P k state_x) (intensity_pol P k state_y)) i0) (ofZ 2).
End Model.

(** * Hand model of the glue around the regenerated launch kernels (property C03).

    Translated (Gen/RayGen.v, Gen/Distrib.v): RayGenerator.generate_rays / _get_ray_origins /
    _get_starting_z_offset and every *Distribution.generate_points.
    Written by hand here and tied to /repo by the correspondence check of tools/props/C03.py:
    - FieldGroup.get_vig_factor (NumPy argsort + interp over the field list; max_field / max_y_field are regenerated, Gen/Fields.v),
    - the wiring of the generator to Paraxial.EPL / EPD (Model/Paraxial.v) and to the prescription,
    - create_distribution (name -> sampling) and the pupil scaling lines of Optic.trace / trace_generic. *)
From Coq Require Import PrimFloat.
From Coq Require Import ZArith List Bool String.
From OV Require Import Ops OpsC03 OpsC18 Gen.RealRays Gen.Standard Gen.Paraxial Gen.Fields Gen.RayGen Gen.Distrib Model.Paraxial.
Import ListNotations.
Local Open Scope string_scope.
Local Open Scope list_scope.

Section Launch.
  Context {O : Ops}.
  Notation T := (T O).

  (** one field: x, y, vx, vy *)
  Record field := mkField { f_x : T; f_y : T; f_vx : T; f_vy : T }.

  (** FieldGroup.max_field / max_y_field: the regenerated properties on the field list *)
  Definition max_field (fs : list field) : T := k_fld_max_field O (map f_x fs) (map f_y fs).
  Definition max_y_field (fs : list field) : T := k_fld_max_y_field O (map f_y fs).

  (** np.argsort(y_fields) followed by fancy indexing = the fields sorted by y (insertion sort) *)
  Fixpoint insert_y (f : field) (l : list field) : list field :=
    match l with
    | [] => [f]
    | g :: l' => if ltb_ (f_y f) (f_y g) then f :: g :: l' else g :: insert_y f l'
    end.
  Definition sort_y (fs : list field) : list field := fold_left (fun acc f => insert_y f acc) fs [].

  (** FieldGroup.get_vig_factor; None = NotImplementedError (some field has x <> 0) *)
  Definition vig_factor (fs : list field) (Hx Hy : T) : option (T * T) :=
    if forallb (fun f => eqb_ (f_x f) (ofZ 0)) fs then
      let s := sort_y fs in
      let my := max_y_field fs in
      let hs := if eqb_ my (ofZ 0) then map (fun _ => ofZ 0) s else map (fun f => div (f_y f) my) s in
      let h := sqrt_ (add (mul Hx Hx) (mul Hy Hy)) in
      Some (interp_ h hs (map f_vx s), interp_ h hs (map f_vy s))
    else None.

  (** the optic as the generator reads it *)
  Record optic := mkOptic {
    o_surfs : list (psurf O);      (* prescription, index 0 = object surface *)
    o_objR : T; o_objk : T;        (* object surface geometry (plane: R = inf) *)
    o_ftype : string;              (* 'angle' | 'object_height' *)
    o_tele : bool;
    o_aptype : string;             (* 'EPD' | 'imageFNO' | 'objectNA' *)
    o_apval : T;
    o_fields : list field;
    o_pol : string;                (* 'ignore' or anything else for a PolarizationState *)
    o_uses_pol : bool
  }.

  Definition aptype_of (s : string) : aptype :=
    if String.eqb s "EPD" then EPDt else if String.eqb s "imageFNO" then FNOt else NAt.

  Definition o_positions (o : optic) : list T := map (fun s => p_z s) (o_surfs o).
  Definition o_objz (o : optic) : T := match o_surfs o with s :: _ => p_z s | [] => nan_ end.
  (** index of the object-space medium at the primary wavelength (object_surface.material_post.n) *)
  Definition o_n0 (o : optic) : T := match o_surfs o with s :: _ => p_npost s | [] => nan_ end.
  Definition o_EPL (o : optic) : T := EPL (o_surfs o).
  Definition o_EPD (o : optic) : T := EPD (o_surfs o) (aptype_of (o_aptype o)) (o_apval o).

  (** RayGenerator.generate_rays on one ray: Some (x, y, z, L, M, N, intensity, wavelength) or None = raises *)
  Definition launch (o : optic) (Hx Hy Px Py w : T) : option (T * T * T * T * T * T * T * T) :=
    match vig_factor (o_fields o) Hx Hy with
    | None => None
    | Some (v0, v1) =>
        k_rg_generate O Hx Hy Px Py w v0 v1 (max_field (o_fields o)) (isinf_ (o_objz o)) (o_ftype o) (o_tele o)
          (o_EPL o) (o_EPD o) (o_positions o) (o_objR o) (o_objk o) (o_objz o)
          (o_aptype o) (o_n0 o) (o_apval o) (o_pol o) (o_uses_pol o)
    end.

  (** RayGenerator._get_ray_origins called directly (vx, vy are the generator's 1 - v factors): defined for every
      field list, also with x fields (where get_vig_factor refuses) *)
  Definition origins (o : optic) (Hx Hy Px Py vx vy : T) : option (T * T * T) :=
    k_rg_origins O Hx Hy Px Py vx vy (max_field (o_fields o)) (isinf_ (o_objz o)) (o_ftype o) (o_tele o)
      (o_EPL o) (o_EPD o) (o_positions o) (o_objR o) (o_objk o) (o_objz o).

  (** Optic.trace_generic: the pupil coordinates are scaled by (1 - v) before the generator scales them again *)
  Definition launch_generic (o : optic) (Hx Hy Px Py w : T) :=
    match vig_factor (o_fields o) Hx Hy with
    | None => None
    | Some (v0, v1) => launch o Hx Hy (mul Px (sub (ofZ 1) v0)) (mul Py (sub (ofZ 1) v1)) w
    end.

  (** create_distribution(name).generate_points(n, vx, vy): None = ValueError (unknown name);
      'random' needs the generator state and is modelled by k_dist_random on explicit draws *)
  Definition dist_points (name : string) (n : Z) (vx vy : T) : option (list T * list T) :=
    if String.eqb name "line_x" then Some (k_dist_line_x O n vx false)
    else if String.eqb name "line_y" then Some (k_dist_line_y O n vy false)
    else if String.eqb name "positive_line_x" then Some (k_dist_line_x O n vx true)
    else if String.eqb name "positive_line_y" then Some (k_dist_line_y O n vy true)
    else if String.eqb name "uniform" then Some (k_dist_uniform O n vx vy)
    else if String.eqb name "hexapolar" then Some (k_dist_hexapolar O n vx vy)
    else if String.eqb name "cross" then Some (k_dist_cross O n vx vy)
    else if String.eqb name "ring" then Some (k_dist_ring O n vx vy)
    else None.

  Fixpoint all_some {A} (l : list (option A)) : option (list A) :=
    match l with
    | [] => Some []
    | None :: _ => None
    | Some a :: r => match all_some r with None => None | Some r' => Some (a :: r') end
    end.

  (** Optic.trace(Hx, Hy, w, n, name): launch of every ray of the named sampling *)
  Definition launch_trace (o : optic) (Hx Hy w : T) (n : Z) (name : string) :=
    match vig_factor (o_fields o) Hx Hy with
    | None => None
    | Some (v0, v1) =>
        match dist_points name n v0 v1 with
        | None => None
        | Some (xs, ys) =>
            all_some (map (fun p => launch o Hx Hy (mul (fst p) (sub (ofZ 1) v0)) (mul (snd p) (sub (ofZ 1) v1)) w)
                          (combine xs ys))
        end
    end.
End Launch.

Arguments field : clear implicits.
Arguments optic : clear implicits.

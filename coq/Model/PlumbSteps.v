(** * Step vocabulary of the real-ray trace plumbing.
    One constructor per statement form that tools/py2coq_plumb.py recognises in
    Surface._trace_real / _interact / trace, CoordinateSystem.localize / globalize, BaseGeometry.localize /
    globalize, BaseCoating.interact and SurfaceGroup.trace.  The lists of steps are REGENERATED from /repo on
    every run (coq/Gen/Plumbing.v); Model/Plumb.v gives the steps their meaning. *)
Inductive pstep : Set :=
| PClipIfAperture
| PCoatReflectOrTransmit
| PCoatingOrUpdate
| PCsGlobalize
| PCsLocalize
| PDispatchRealOrParaxial
| PDistance
| PForEachSurfaceFromSkip
| PGlobalize
| PInteract
| PLocalize
| PNormal
| POpd
| PPropagate
| PRecord
| PRefGlobalize
| PRefLocalize
| PReflectOrRefract
| PReset
| PReturn
| PRotXNeg
| PRotXPos
| PRotYNeg
| PRotYPos
| PRotZNeg
| PRotZPos
| PScatterIfBsdf
| PTranslateNeg
| PTranslatePos.

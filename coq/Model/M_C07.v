(** * C07 - symmetries and re-descriptions: executable transformations and the hand model of
    Optic.scale_system / Optic.set_thickness.

    - transformations of the ray record and of the prescription of Model/Trace.v (mirror image,
      scaled copy, wavelength change, dummy surface, tilt of a sphere about its centre of curvature);
      they are DEFINITIONS of what "the transformed lens / the transformed result" means, used by the
      theorems of Lemmas/L_C07_*.v and evaluated (FOps) by the correspondence check;
    - hand model of the built-in scaling operation (optiland/optic.py :: Optic.scale_system, which
      calls set_radius, set_thickness, SurfaceGroup.get_thickness (regenerated kernel
      k_c07_get_thickness) and RadialAperture.scale (regenerated kernel k_c07_ap_scale)). *)
From Coq Require Import ZArith List Bool.
From OV Require Import Ops Gen.RealRays Gen.Standard Gen.Geometries Gen.Apertures Gen.C07K Model.Trace.
Import ListNotations.

(** list surgery used to state re-descriptions of a lens *)
Definition insert_at {A} (n : nat) (x : A) (l : list A) : list A := firstn n l ++ x :: skipn n l.
Definition replace_at {A} (n : nat) (x : A) (l : list A) : list A := firstn n l ++ x :: skipn (S n) l.

Section C07.
  Context {O : Ops}.
  Notation T := (T O).

  (** ** ray transformations *)
  Definition sg (b : bool) (a : T) : T := if b then neg a else a.
  (** mirror about the meridional plane x = 0 (mx) and/or y = 0 (my) *)
  Definition mirror_ray (mx my : bool) (r : ray O) : ray O :=
    mkRay (sg mx (rx r)) (sg my (ry r)) (rz r) (sg mx (rL r)) (sg my (rM r)) (rN r) (ri r) (rw r) (ropd r).
  (** every length multiplied by s: position and accumulated path; direction cosines, intensity,
      wavelength untouched *)
  Definition scale_ray (s : T) (r : ray O) : ray O :=
    mkRay (mul s (rx r)) (mul s (ry r)) (mul s (rz r)) (rL r) (rM r) (rN r) (ri r) (rw r) (mul s (ropd r)).
  Definition set_w (w : T) (r : ray O) : ray O :=
    mkRay (rx r) (ry r) (rz r) (rL r) (rM r) (rN r) (ri r) w (ropd r).
  (** the ray moved a distance t along itself through a medium of index n (no absorption) *)
  Definition advance (t n : T) (r : ray O) : ray O :=
    mkRay (add (rx r) (mul t (rL r))) (add (ry r) (mul t (rM r))) (add (rz r) (mul t (rN r)))
          (rL r) (rM r) (rN r) (ri r) (rw r) (add (ropd r) (abs_ (mul t n))).

  (** ** prescription transformations *)
  Definition scale_shape (s : T) (sh : shape O) : shape O :=
    match sh with
    | SPlane => SPlane
    | SStd R k => SStd (mul s R) k
    | other => other           (* aspheric coefficients are not lengths: outside the scaled family *)
    end.
  Definition scale_aper (s : T) (a : option (T * T)) : option (T * T) :=
    match a with Some (rmax, rmin) => Some (mul s rmax, mul s rmin) | None => None end.
  Definition scale_surf (s : T) (u : surf O) : surf O :=
    mkSurf (mul s (s_x u)) (mul s (s_y u)) (mul s (s_z u)) (s_rx u) (s_ry u) (s_rz u)
           (scale_shape s (s_shape u)) (s_n1 u) (s_n2 u) (s_k1 u) (s_refl u)
           (scale_aper s (s_aper u)) (s_coat u).

  (** a plane at axial position z between two equal, non-absorbing media of index n *)
  Definition dummy_surf (z n : T) : surf O :=
    mkSurf (ofZ 0) (ofZ 0) z (ofZ 0) (ofZ 0) (ofZ 0) SPlane n n (ofZ 0) false None None.

  (** the sphere of radius R with vertex (0,0,z) re-described after a tilt [a] about the x axis
      through its own centre of curvature C = (0,0,z+R): vertex at C - R (0,-sin a,cos a) *)
  Definition tilt_x_surf (u : surf O) (R a : T) : surf O :=
    mkSurf (s_x u) (add (s_y u) (mul R (sin_ a))) (add (s_z u) (mul R (sub (ofZ 1) (cos_ a))))
           a (s_ry u) (s_rz u) (SStd R (ofZ 0)) (s_n1 u) (s_n2 u) (s_k1 u) (s_refl u) (s_aper u) (s_coat u).
  (** ... and about the y axis: vertex at C - R (sin a,0,cos a) *)
  Definition tilt_y_surf (u : surf O) (R a : T) : surf O :=
    mkSurf (sub (s_x u) (mul R (sin_ a))) (s_y u) (add (s_z u) (mul R (sub (ofZ 1) (cos_ a))))
           (s_rx u) a (s_rz u) (SStd R (ofZ 0)) (s_n1 u) (s_n2 u) (s_k1 u) (s_refl u) (s_aper u) (s_coat u).

  (** symmetric prescriptions (what "rotationally symmetric lens" means for the two mirrors) *)
  Definition sym_shape (sh : shape O) : bool :=
    match sh with SPlane | SStd _ _ => true | _ => false end.

  (** ** Optic.set_thickness / Optic.scale_system on the prescription columns *)
  Definition nthT (l : list T) (i : nat) : T := nth i l nan_.

  (** positions[k+1:] += delta *)
  Fixpoint add_from (k : nat) (d : T) (l : list T) : list T :=
    match l with
    | [] => []
    | p :: l' => match k with
                 | 0%nat => add p d :: add_from 0 d l'
                 | S k' => p :: add_from k' d l'
                 end
    end.

  (** Optic.set_thickness(value, k) acting on SurfaceGroup.positions (= every cs.z): the object gap (k = 0)
      only moves the object, every other gap shifts all later vertices; then surface 1 is re-based to z = 0 *)
  Definition set_thickness (pos : list T) (value : T) (k : nat) : list T :=
    let pos1 := match k with
                | 0%nat => set_nth pos 0 (sub (nthT pos 1) value)
                | S _ => let delta := add (sub value (nthT pos (S k))) (nthT pos k) in
                         add_from (S k) delta pos
                end in
    let p1 := nthT pos1 1 in
    map (fun p => sub p p1) pos1.

  Record presc := mkPresc {
    pc_R : list T;                 (* SurfaceGroup.radii *)
    pc_pos : list T;               (* SurfaceGroup.positions (vertex z) *)
    pc_dx : list T; pc_dy : list T;(* decentres cs.x cs.y *)
    pc_ap : list (option (T * T)); (* radial apertures (r_max, r_min) *)
    pc_epd : bool;                 (* aperture.ap_type == 'EPD' *)
    pc_apval : T                   (* aperture.value *)
  }.

  (** thicknesses = [get_thickness(i) for i in range(num_surfaces - 1)], through the regenerated kernel *)
  Definition thicknesses (pos : list T) : list T :=
    map (fun i => k_c07_get_thickness O (Z.of_nat i) pos) (seq 0 (length pos - 1)).

  (** the loop of scale_system over the surfaces: positions after handling surfaces i, i+1, ... *)
  Fixpoint scale_pos (s : T) (n : nat) (ths : list T) (i : nat) (pos : list T) : list T :=
    match ths with
    | [] => pos
    | t :: ths' =>
        let pos' := if andb (negb (Nat.eqb i (n - 1))) (negb (isinf_ t))
                    then set_thickness pos (mul t s) i else pos in
        scale_pos s n ths' (S i) pos'
    end.

  Definition scale_system (s : T) (p : presc) : presc :=
    let n := length (pc_pos p) in
    mkPresc (map (fun R => if isinf_ R then R else mul R s) (pc_R p))
            (scale_pos s n (thicknesses (pc_pos p)) 0 (pc_pos p))
            (map (fun v => mul v s) (pc_dx p)) (map (fun v => mul v s) (pc_dy p))
            (map (fun a => match a with
                           | Some (rmax, rmin) => Some (k_c07_ap_scale O s rmax rmin)
                           | None => None end) (pc_ap p))
            (pc_epd p)
            (if pc_epd p then mul (pc_apval p) s else pc_apval p).

  (** the independent statement of "the scaled lens": every length of the prescription times s *)
  Definition scaled_presc (s : T) (p : presc) : presc :=
    mkPresc (map (mul s) (pc_R p)) (map (mul s) (pc_pos p)) (map (mul s) (pc_dx p)) (map (mul s) (pc_dy p))
            (map (scale_aper s) (pc_ap p)) (pc_epd p)
            (if pc_epd p then mul s (pc_apval p) else pc_apval p).

  Definition presc_flat (p : presc) : list T :=
    pc_R p ++ pc_pos p ++ pc_dx p ++ pc_dy p ++
    flat_map (fun a => match a with Some (a1, a2) => [a1; a2] | None => [] end) (pc_ap p) ++ [pc_apval p].
End C07.

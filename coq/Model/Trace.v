(** * Hand model of the sequential real-ray trace
    (Surface._trace_real, CoordinateSystem.localize/globalize, NewtonRaphsonGeometry.distance,
    SurfaceGroup.trace).  All arithmetic is done by the kernels REGENERATED from /repo
    (the Gen modules); only the plumbing (which kernel runs when, the Newton loop, the fold over the
    surface list) is written by hand and tied to the implementation by the correspondence check. *)
From Coq Require Import ZArith List Bool.
From OV Require Import Ops Gen.RealRays Gen.Standard Gen.Geometries Gen.Apertures.
Import ListNotations.

Section Trace.
  Context {O : Ops}.
  Notation T := (T O).

  Record ray := mkRay { rx : T; ry : T; rz : T; rL : T; rM : T; rN : T; ri : T; rw : T; ropd : T }.

  Inductive shape :=
  | SPlane
  | SStd (R k : T)
  | SEven (R k : T) (c : list T) (tol : T) (maxit : nat)
  | SPoly (R k : T) (c : list (list T)) (tol : T) (maxit : nat)
  | SCheb (R k : T) (c : list (list T)) (tol : T) (maxit : nat) (normx normy : T).

  Record surf := mkSurf {
    s_x : T; s_y : T; s_z : T; s_rx : T; s_ry : T; s_rz : T;   (* decentre, vertex z, tilts *)
    s_shape : shape;
    s_n1 : T; s_n2 : T;         (* indices before / after, at the ray's wavelength *)
    s_k1 : T;                   (* extinction coefficient of the medium before *)
    s_refl : bool;
    s_aper : option (T * T);    (* radial aperture r_max, r_min *)
    s_coat : option (T * T)     (* simple coating: transmittance, reflectance *)
  }.

  Definition nonzero (a : T) : bool := negb (eqb_ a (ofZ 0)).

  (** CoordinateSystem.localize (no reference frame) *)
  Definition localize (s : surf) (r : ray) : ray :=
    let '(x, y, z) := k_translate O (neg (s_x s)) (neg (s_y s)) (neg (s_z s)) (rx r) (ry r) (rz r) in
    let r := mkRay x y z (rL r) (rM r) (rN r) (ri r) (rw r) (ropd r) in
    let r := if nonzero (s_rx s) then
               let '(y, z, M, N) := k_rotate_x O (neg (s_rx s)) (ry r) (rz r) (rM r) (rN r) in
               mkRay (rx r) y z (rL r) M N (ri r) (rw r) (ropd r) else r in
    let r := if nonzero (s_ry s) then
               let '(x, z, L, N) := k_rotate_y O (neg (s_ry s)) (rx r) (rz r) (rL r) (rN r) in
               mkRay x (ry r) z L (rM r) N (ri r) (rw r) (ropd r) else r in
    let r := if nonzero (s_rz s) then
               let '(x, y, L, M) := k_rotate_z O (neg (s_rz s)) (rx r) (ry r) (rL r) (rM r) in
               mkRay x y (rz r) L M (rN r) (ri r) (rw r) (ropd r) else r in
    r.

  Definition globalize (s : surf) (r : ray) : ray :=
    let r := if nonzero (s_rz s) then
               let '(x, y, L, M) := k_rotate_z O (s_rz s) (rx r) (ry r) (rL r) (rM r) in
               mkRay x y (rz r) L M (rN r) (ri r) (rw r) (ropd r) else r in
    let r := if nonzero (s_ry s) then
               let '(x, z, L, N) := k_rotate_y O (s_ry s) (rx r) (rz r) (rL r) (rN r) in
               mkRay x (ry r) z L (rM r) N (ri r) (rw r) (ropd r) else r in
    let r := if nonzero (s_rx s) then
               let '(y, z, M, N) := k_rotate_x O (s_rx s) (ry r) (rz r) (rM r) (rN r) in
               mkRay (rx r) y z (rL r) M N (ri r) (rw r) (ropd r) else r in
    let '(x, y, z) := k_translate O (s_x s) (s_y s) (s_z s) (rx r) (ry r) (rz r) in
    mkRay x y z (rL r) (rM r) (rN r) (ri r) (rw r) (ropd r).

  (** sag of the iteratively intersected shapes; None = the implementation raises *)
  Definition sag_of (sh : shape) (x y : T) : option T :=
    match sh with
    | SPlane => Some (ofZ 0)
    | SStd R k => Some (k_std_sag O x y R k)
    | SEven R k c _ _ => Some (k_ea_sag O x y R k c)
    | SPoly R k c _ _ => Some (k_pg_sag O x y R k c)
    | SCheb R k c _ _ nx ny => k_cheb_sag O x y nx ny R k c
    end.

  (** NewtonRaphsonGeometry.distance for ONE ray (the batch-wide stopping test reduces to the
      ray's own |dz| < tol); returns the refined intersection point *)
  Fixpoint newton (sh : shape) (tol : T) (L M N : T) (fuel : nat) (p : T * T * T) : option (T * T * T) :=
    match fuel with
    | 0%nat => Some p
    | S f =>
        let '(x, y, z) := p in
        match sag_of sh x y with
        | None => None
        | Some zs =>
            let dz := sub z zs in
            let dist := div dz N in
            let p' := (sub x (mul dist L), sub y (mul dist M), sub z (mul dist N)) in
            if ltb_ (abs_ dz) tol then Some p' else newton sh tol L M N f p'
        end
    end.

  Definition norm3 (a b c : T) : T := sqrt_ (add (add (mul a a) (mul b b)) (mul c c)).

  Definition newton_distance (sh : shape) (R tol : T) (maxit : nat) (r : ray) : option T :=
    let p0 := k_nr_sphere O (rL r) (rM r) (rN r) (rx r) (ry r) R (rz r) in
    match newton sh tol (rL r) (rM r) (rN r) maxit p0 with
    | None => None
    | Some (x, y, z) =>
        let dx := sub x (rx r) in let dy := sub y (ry r) in let dz := sub z (rz r) in
        let t := norm3 dx dy dz in
        (* an intersection behind the ray is not a hit *)
        let along := add (add (mul dx (rL r)) (mul dy (rM r))) (mul dz (rN r)) in
        Some (if ltb_ along (ofZ 0) then nan_ else t)
    end.

  Definition distance (sh : shape) (r : ray) : option T :=
    match sh with
    | SPlane => Some (k_plane_distance O (rz r) (rN r))
    | SStd R k => Some (k_std_distance O k (rN r) (rL r) (rM r) (rz r) (rx r) (ry r) R)
    | SEven R _ _ tol mi | SPoly R _ _ tol mi | SCheb R _ _ tol mi _ _ => newton_distance sh R tol mi r
    end.

  Definition normal (sh : shape) (r : ray) : option (T * T * T) :=
    match sh with
    | SPlane => Some (ofZ 0, ofZ 0, ofZ 1)
    | SStd R k => Some (k_std_normal O (rx r) (ry r) R k)
    | SEven R k c _ _ => Some (k_ea_normal O (rx r) (ry r) R k c)
    | SPoly R k c _ _ => Some (k_pg_normal O (rx r) (ry r) R k c)
    | SCheb R k c _ _ nx ny => k_cheb_normal O (rx r) (ry r) nx ny R k c
    end.

  (** Surface._trace_real *)
  Definition trace_surface (s : surf) (r0 : ray) : option ray :=
    let r := localize s r0 in
    match distance (s_shape s) r with
    | None => None
    | Some t =>
        let '(x, y, z, i) := k_propagate O t (rx r) (rL r) (ry r) (rM r) (rz r) (rN r) (s_k1 s) (rw r) (ri r) in
        let opd := add (ropd r) (abs_ (mul t (s_n1 s))) in
        let r := mkRay x y z (rL r) (rM r) (rN r) i (rw r) opd in
        let r := match s_aper s with
                 | Some (rmax, rmin) =>
                     mkRay (rx r) (ry r) (rz r) (rL r) (rM r) (rN r)
                           (k_radial_clip O (rx r) (ry r) rmax rmin (ri r)) (rw r) (ropd r)
                 | None => r end in
        match normal (s_shape s) r with
        | None => None
        | Some (nx, ny, nz) =>
            let '(L, M, N) := if s_refl s then k_reflect O nx ny nz (rL r) (rM r) (rN r)
                              else k_refract O nx ny nz (s_n1 s) (s_n2 s) (rL r) (rM r) (rN r) in
            let i := match s_coat s with
                     | Some (tr, rf) => if s_refl s then k_coat_reflect O (ri r) rf else k_coat_transmit O (ri r) tr
                     | None => ri r end in
            Some (globalize s (mkRay (rx r) (ry r) (rz r) L M N i (rw r) (ropd r)))
        end
    end.

  (** SurfaceGroup.trace: records after every surface (the object surface records the launch) *)
  Fixpoint trace (ss : list surf) (r : ray) : option (list ray) :=
    match ss with
    | [] => Some []
    | s :: ss' =>
        match trace_surface s r with
        | None => None
        | Some r' => match trace ss' r' with None => None | Some l => Some (r' :: l) end
        end
    end.

  Definition ray_fields (r : ray) : list T := [rx r; ry r; rz r; rL r; rM r; rN r; ri r; ropd r].
End Trace.

Arguments ray : clear implicits.
Arguments surf : clear implicits.
Arguments shape : clear implicits.

(** * Meaning of the regenerated plumbing lists (coq/Gen/Plumbing.v) over the regenerated kernels.

    [Bad] = the list is not a plumbing this interpreter understands (a step in a method where it does not
    belong, a value used before it was computed, a method that falls off its end without `return`);
    [Raise] = the implementation raises (a Chebyshev point outside the normalisation square);
    [Ok x] = normal result.  Lemmas/L_Plumb.v proves that the lists regenerated from /repo are never [Bad] and
    compute exactly [trace_surface] / [trace] of Model/Trace.v. *)
From Coq Require Import ZArith List Bool.
From OV Require Import Ops Gen.RealRays Gen.Standard Gen.Geometries Gen.Apertures Model.Trace Model.PlumbSteps.
Import ListNotations.

Inductive res (A : Type) : Type := Ok (a : A) | Raise | Bad.
Arguments Ok {A} a.
Arguments Raise {A}.
Arguments Bad {A}.

Definition of_opt {A : Type} (o : option A) : res A := match o with Some a => Ok a | None => Raise end.

Section Plumb.
  Context {O : Ops}.
  Notation T := (T O).
  Notation ray := (ray O).
  Notation surf := (surf O).

  (** ** CoordinateSystem.localize / globalize: each step acts on the ray alone *)
  Definition cs_step (s : surf) (st : pstep) (r : ray) : res ray :=
    match st with
    | PRefLocalize | PRefGlobalize => Ok r      (* reference_cs is None in every modelled lens *)
    | PTranslateNeg =>
        let '(x, y, z) := k_translate O (neg (s_x s)) (neg (s_y s)) (neg (s_z s)) (rx r) (ry r) (rz r) in
        Ok (mkRay x y z (rL r) (rM r) (rN r) (ri r) (rw r) (ropd r))
    | PTranslatePos =>
        let '(x, y, z) := k_translate O (s_x s) (s_y s) (s_z s) (rx r) (ry r) (rz r) in
        Ok (mkRay x y z (rL r) (rM r) (rN r) (ri r) (rw r) (ropd r))
    | PRotXNeg => Ok (if nonzero (s_rx s) then
                        let '(y, z, M, N) := k_rotate_x O (neg (s_rx s)) (ry r) (rz r) (rM r) (rN r) in
                        mkRay (rx r) y z (rL r) M N (ri r) (rw r) (ropd r) else r)
    | PRotYNeg => Ok (if nonzero (s_ry s) then
                        let '(x, z, L, N) := k_rotate_y O (neg (s_ry s)) (rx r) (rz r) (rL r) (rN r) in
                        mkRay x (ry r) z L (rM r) N (ri r) (rw r) (ropd r) else r)
    | PRotZNeg => Ok (if nonzero (s_rz s) then
                        let '(x, y, L, M) := k_rotate_z O (neg (s_rz s)) (rx r) (ry r) (rL r) (rM r) in
                        mkRay x y (rz r) L M (rN r) (ri r) (rw r) (ropd r) else r)
    | PRotXPos => Ok (if nonzero (s_rx s) then
                        let '(y, z, M, N) := k_rotate_x O (s_rx s) (ry r) (rz r) (rM r) (rN r) in
                        mkRay (rx r) y z (rL r) M N (ri r) (rw r) (ropd r) else r)
    | PRotYPos => Ok (if nonzero (s_ry s) then
                        let '(x, z, L, N) := k_rotate_y O (s_ry s) (rx r) (rz r) (rL r) (rN r) in
                        mkRay x (ry r) z L (rM r) N (ri r) (rw r) (ropd r) else r)
    | PRotZPos => Ok (if nonzero (s_rz s) then
                        let '(x, y, L, M) := k_rotate_z O (s_rz s) (rx r) (ry r) (rL r) (rM r) in
                        mkRay x y (rz r) L M (rN r) (ri r) (rw r) (ropd r) else r)
    | _ => Bad
    end.

  (** a coordinate-system method returns None: its effect is the mutated ray at the end of the list *)
  Fixpoint cs_run (s : surf) (l : list pstep) (r : ray) : res ray :=
    match l with
    | [] => Ok r
    | st :: l' => match cs_step s st r with Ok r' => cs_run s l' r' | Raise => Raise | Bad => Bad end
    end.

  (** BaseGeometry.localize / globalize delegate to the coordinate system *)
  Definition geom_run (lgeom lcs : list pstep) (want : pstep) (s : surf) (r : ray) : res ray :=
    match lgeom with
    | [st] => if match st, want with PCsLocalize, PCsLocalize | PCsGlobalize, PCsGlobalize => true | _, _ => false end
              then cs_run s lcs r else Bad
    | _ => Bad
    end.

  (** BaseCoating.interact for a SimpleCoating *)
  Definition coat_run (lcoat : list pstep) (s : surf) (tr rf : T) (r : ray) : res ray :=
    match lcoat with
    | [PCoatReflectOrTransmit] =>
        Ok (mkRay (rx r) (ry r) (rz r) (rL r) (rM r) (rN r)
                  (if s_refl s then k_coat_reflect O (ri r) rf else k_coat_transmit O (ri r) tr) (rw r) (ropd r))
    | _ => Bad
    end.

  (** Surface._interact: state = ray + the normals once computed; `return rays` ends the method *)
  Fixpoint interact_run (lcoat : list pstep) (s : surf) (l : list pstep) (r : ray) (n : option (T * T * T)) : res ray :=
    match l with
    | [] => Bad                                   (* falls off the end: returns None *)
    | PReturn :: _ => Ok r
    | PNormal :: l' =>
        match normal (s_shape s) r with
        | None => Raise
        | Some nrm => interact_run lcoat s l' r (Some nrm)
        end
    | PReflectOrRefract :: l' =>
        match n with
        | None => Bad
        | Some (nx, ny, nz) =>
            let '(L, M, N) := if s_refl s then k_reflect O nx ny nz (rL r) (rM r) (rN r)
                              else k_refract O nx ny nz (s_n1 s) (s_n2 s) (rL r) (rM r) (rN r) in
            interact_run lcoat s l' (mkRay (rx r) (ry r) (rz r) L M N (ri r) (rw r) (ropd r)) n
        end
    | PScatterIfBsdf :: l' => match n with None => Bad | Some _ => interact_run lcoat s l' r n end  (* bsdf is None *)
    | PCoatingOrUpdate :: l' =>
        match n with
        | None => Bad
        | Some _ =>
            match s_coat s with
            | Some (tr, rf) => match coat_run lcoat s tr rf r with
                               | Ok r' => interact_run lcoat s l' r' n | Raise => Raise | Bad => Bad end
            | None => interact_run lcoat s l' r n            (* RealRays.update() does nothing *)
            end
        end
    | _ => Bad
    end.

  (** Surface._trace_real: state = ray + the distance once computed *)
  Record lists := mkLists { l_tr : list pstep; l_int : list pstep; l_strace : list pstep; l_loc : list pstep;
                            l_glob : list pstep; l_coat : list pstep; l_group : list pstep;
                            l_gloc : list pstep; l_gglob : list pstep }.

  Fixpoint trace_real_run (P : lists) (s : surf) (l : list pstep) (r : ray) (t : option T) : res ray :=
    match l with
    | [] => Bad
    | PReturn :: _ => Ok r
    | PReset :: l' | PRecord :: l' => trace_real_run P s l' r t
    | PLocalize :: l' =>
        match geom_run (l_gloc P) (l_loc P) PCsLocalize s r with
        | Ok r' => trace_real_run P s l' r' t | Raise => Raise | Bad => Bad end
    | PGlobalize :: l' =>
        match geom_run (l_gglob P) (l_glob P) PCsGlobalize s r with
        | Ok r' => trace_real_run P s l' r' t | Raise => Raise | Bad => Bad end
    | PDistance :: l' =>
        match distance (s_shape s) r with
        | None => Raise
        | Some d => trace_real_run P s l' r (Some d)
        end
    | PPropagate :: l' =>
        match t with
        | None => Bad
        | Some d =>
            let '(x, y, z, i) := k_propagate O d (rx r) (rL r) (ry r) (rM r) (rz r) (rN r) (s_k1 s) (rw r) (ri r) in
            trace_real_run P s l' (mkRay x y z (rL r) (rM r) (rN r) i (rw r) (ropd r)) t
        end
    | POpd :: l' =>
        match t with
        | None => Bad
        | Some d => trace_real_run P s l' (mkRay (rx r) (ry r) (rz r) (rL r) (rM r) (rN r) (ri r) (rw r)
                                                 (add (ropd r) (abs_ (mul d (s_n1 s))))) t
        end
    | PClipIfAperture :: l' =>
        trace_real_run P s l'
          (match s_aper s with
           | Some (rmax, rmin) => mkRay (rx r) (ry r) (rz r) (rL r) (rM r) (rN r)
                                        (k_radial_clip O (rx r) (ry r) rmax rmin (ri r)) (rw r) (ropd r)
           | None => r end) t
    | PInteract :: l' =>
        match interact_run (l_coat P) s (l_int P) r None with
        | Ok r' => trace_real_run P s l' r' t | Raise => Raise | Bad => Bad end
    | _ => Bad
    end.

  (** Surface.trace dispatches real rays to _trace_real *)
  Definition surface_trace_run (P : lists) (s : surf) (r : ray) : res ray :=
    match l_strace P with
    | [PDispatchRealOrParaxial] => trace_real_run P s (l_tr P) r None
    | _ => Bad
    end.

  (** SurfaceGroup.trace(rays, skip=0): the per-surface records, in order *)
  Fixpoint each_surface (P : lists) (ss : list surf) (r : ray) : res (list ray) :=
    match ss with
    | [] => Ok []
    | s :: ss' =>
        match surface_trace_run P s r with
        | Ok r' => match each_surface P ss' r' with Ok l => Ok (r' :: l) | Raise => Raise | Bad => Bad end
        | Raise => Raise
        | Bad => Bad
        end
    end.

  Definition group_trace_run (P : lists) (ss : list surf) (r : ray) : res (list ray) :=
    match l_group P with
    | [PReset; PForEachSurfaceFromSkip; PReturn] => each_surface P ss r
    | _ => Bad
    end.
End Plumb.

(** * Hand model of optiland/aberrations.py (Aberrations._precalculations, third_order, seidels and
    the stand-alone accessors).  The seven per-surface term formulas are the REGENERATED kernels
    k_TSC_term ... k_TchC_term, evaluated on the window of list entries they index (k-1, k, -1);
    the loop over surfaces, the pre-computed i, i', B, B' and the sums are written by hand and tied
    to the implementation by correspondence. *)
From Coq Require Import PrimFloat.
From Coq Require Import ZArith List Bool.
From OV Require Import Ops Gen.Seidel.
Import ListNotations.

Section Seidel.
  Context {O : Ops}.
  Notation T := (T O).

  (** data of surface k that the formulas read: index/slope/dispersion before (0) and after (1) *)
  Record srow := mkRow { r_n0 : T; r_n1 : T; r_c : T; r_ya : T; r_ua0 : T; r_ua1 : T;
                         r_yb : T; r_ub0 : T; r_ub1 : T; r_dn0 : T; r_dn1 : T }.
  (** system-wide values: Lagrange invariant, last index and last marginal slope *)
  Record sglob := mkGlob { g_inv : T; g_nl : T; g_ul : T }.

  Definition two : T := ofZ 2.
  Definition i_of (r : srow) : T := add (mul (r_c r) (r_ya r)) (r_ua0 r).
  Definition ip_of (r : srow) : T := add (mul (r_c r) (r_yb r)) (r_ub0 r).
  Definition hp_of (g : sglob) : T := div (g_inv g) (mul (g_nl g) (g_ul g)).
  Definition B_of (g : sglob) (r : srow) : T :=
    let denom := mul (mul two (r_n1 r)) (g_inv g) in
    if eqb_ denom (ofZ 0) then ofZ 0
    else div (mul (mul (mul (r_n0 r) (sub (r_n1 r) (r_n0 r))) (r_ya r)) (add (r_ua1 r) (i_of r))) denom.
  Definition Bp_of (g : sglob) (r : srow) : T :=
    let denom := mul (mul two (r_n1 r)) (g_inv g) in
    if eqb_ denom (ofZ 0) then ofZ 0
    else div (mul (mul (mul (r_n0 r) (sub (r_n1 r) (r_n0 r))) (r_yb r)) (add (r_ub1 r) (ip_of r))) denom.

  (** the regenerated kernels on the window lists (k = 1: index 0 = before, 1 = after, -1 = last) *)
  Definition nwin g r := [r_n0 r; r_n1 r; g_nl g].
  Definition uawin g r := [r_ua0 r; r_ua1 r; g_ul g].
  Definition TSC_row g r := k_TSC_term O 1 [B_of g r] [i_of r] (hp_of g).
  Definition CC_row g r := k_CC_term O 1 [B_of g r] [i_of r] [ip_of r] (hp_of g).
  Definition TAC_row g r := k_TAC_term O 1 [B_of g r] [ip_of r] (hp_of g).
  Definition TPC_row g r := k_TPC_term O 1 (nwin g r) [ofZ 0; r_c r] (hp_of g) (g_inv g).
  Definition DC_row g r := k_DC_term O 1 (hp_of g) [Bp_of g r] [i_of r] [ip_of r] [r_ub0 r; r_ub1 r].
  Definition TAchC_row g r := k_TAchC_term O 1 [ofZ 0; r_ya r] [i_of r] (nwin g r) (uawin g r) [r_dn0 r; r_dn1 r].
  Definition TchC_row g r := k_TchC_term O 1 [ofZ 0; r_ya r] [ip_of r] (nwin g r) (uawin g r) [r_dn0 r; r_dn1 r].

  Definition long (g : sglob) (t : T) : T := div (neg t) (g_ul g).    (* -X / ua[-1] *)

  (** Aberrations.third_order: 12 families + 5 Seidel sums *)
  Definition fam (f : sglob -> srow -> T) g rows := map (f g) rows.
  Definition seidel_sum g (l : list T) : T := mul (mul (mul (neg (sum_list l)) (g_nl g)) (g_ul g)) two.
  Definition third_order (g : sglob) (rows : list srow) : list (list T) :=
    let TSC := fam TSC_row g rows in let CC := fam CC_row g rows in let TAC := fam TAC_row g rows in
    let TPC := fam TPC_row g rows in let DC := fam DC_row g rows in
    let TA := fam TAchC_row g rows in let TC := fam TchC_row g rows in
    [TSC; map (long g) TSC; CC; map (fun x => mul x (ofZ 3)) CC; TAC; map (long g) TAC;
     TPC; map (long g) TPC; DC; TA; map (long g) TA; TC;
     [seidel_sum g TSC; seidel_sum g CC; seidel_sum g TAC; seidel_sum g TPC; seidel_sum g DC]].
End Seidel.
Arguments srow : clear implicits.
Arguments sglob : clear implicits.

(** * C19 - hand model of the serialisation code (to_dict / from_dict of every anchored class).

    The lens state is a typed tree holding exactly the *primary* attributes of the Python objects
    (everything else - absorptance, _value_in_um, jones, the parsed material file, trace records -
    is a function of them, recomputed by the constructors).  [to_dict] / [decode] mirror the Python
    methods key by key, defaults included.  The behaviour at the known defect sites is selected by
    the record [impl]; [impl_now] is read off the current sources (Gen/C19Codec.v, regenerated on every
    run), so the model follows the implementation across a repair.

    Numbers are an arbitrary type [A]; no arithmetic happens in the codec.  Constants that the code
    writes literally (np.inf, 0.0, 1e-10, 1, 1.0, -1.0) are parameters.

    Ties to the code: (1) Lemmas/L_C19_Pins.v pins the regenerated codec tables, (2) the harness
    (tools/props/C19.py) evaluates [to_dict] / [decode] with A := PrimFloat on generated lenses, reading the
    state from the *attributes* of the real objects, and compares with the real dictionaries. *)
From Coq Require Import ZArith List String Bool.
From OV Require Import Spec.S_C19.
Import ListNotations.
Local Open Scope string_scope.

Record impl := mkImpl {
  fresnel_nested : bool;          (* FresnelCoating.to_dict encodes its two materials (else: stores the objects) *)
  pol_codec : bool;               (* Optic.to_dict encodes a PolarizationState (else: stores the object) *)
  image_from_dict : bool;         (* ImageSurface has its own _from_dict (else: TypeError on reload) *)
  aperture_none_ok : bool;        (* Optic.from_dict accepts 'aperture': None (else: TypeError) *)
  pickups_applied_on_load : bool; (* PickupManager.from_dict re-applies the pickups to the reloaded lens *)
  plane_conic : bool              (* Plane.to_dict / from_dict carry the conic constant kept on a flat surface *)
}.

Definition impl_fixed : impl := mkImpl true true true true false true.

Section Model.
  Variable A : Type.
  (* literal constants of the code *)
  Variable c_inf c_zero c_one c_tol c_m1 : A.      (* np.inf, 0 / 0.0, 1 / 1.0, 1e-10, -1.0 *)
  (* external functions *)
  Variable lower : string -> string.                                  (* str.lower *)
  Variable catalog_file : string -> option string -> bool -> string.   (* Material._retrieve_file (C18) *)

  (** ** state *)
  Inductive cs := CS (x y z rx ry rz : A) (ref : option cs).

  Inductive geom :=
  | GPlane (c : cs) (conic : option A)   (* a non-zero conic given to the flat surface (attribute k), if any *)
  | GStd (c : cs) (R k : A)
  | GEven (c : cs) (R k tol : A) (maxit : Z) (coef : list A)
  | GPoly (c : cs) (R k tol : A) (maxit : Z) (coef : list (list A))
  | GCheb (c : cs) (R k tol : A) (maxit : Z) (coef : list (list A)) (nx ny : A).

  Inductive material :=
  | MIdeal (n k : A)
  | MMirror
  | MAbbe (n v : A)
  | MCatalog (name : string) (reference : option string) (robust : bool) (minw maxw : option A)
  | MFile (filename : string).

  Inductive coating := CSimple (t r : A) | CFresnel (pre post : material).
  Inductive bsdf := BLambert | BGauss (sigma : A).
  Inductive paperture := PRadial (rmax rmin : A).

  Inductive surface :=
  | SObject (g : geom) (post : material)
  | SStandard (g : geom) (pre post : material) (is_stop : bool) (ap : option paperture)
              (coat : option coating) (bs : option bsdf) (refl : bool)
  | SImage (g : geom) (pre : material) (ap : option paperture).

  Inductive field := Field (ftype : option string) (x y vx vy : A).
  Inductive wavelength := WL (value : A) (is_primary : bool) (unit : string).
  Inductive sysap := SysAp (ty : string) (value : A) (telecentric : bool).
  Inductive pickup := Pickup (src : Z) (attr : string) (tgt : Z) (scale offset : A).
  Inductive solve := MRHSolve (idx : Z) (height : A).
  Inductive polarization := PIgnore | PState (is_pol : bool) (ex ey px py : option A).

  Record lens := mkLens {
    l_ap : option sysap;
    l_ftype : option string;
    l_surfs : list surface;
    l_fields : list field;
    l_fg_tele : bool;             (* FieldGroup.telecentric *)
    l_waves : list wavelength;
    l_pol : polarization;
    l_pickups : list pickup;
    l_solves : list solve;
    l_tele : bool                 (* Optic.obj_space_telecentric *)
  }.

  Inductive live := LMat (m : material) | LPol (p : polarization).
  Notation J := (json A live).

  (** ** to_dict *)
  Definition e_opt {X} (f : X -> J) (o : option X) : J := match o with Some x => f x | None => JNull end.
  Definition e_ostr (o : option string) : J := e_opt JStr o.
  Definition e_onum (o : option A) : J := e_opt JNum o.
  Definition e_nums (l : list A) : J := JList (map JNum l).
  Definition e_nums2 (l : list (list A)) : J := JList (map e_nums l).

  Fixpoint e_cs (c : cs) : J :=
    match c with
    | CS x y z rx ry rz r =>
        JDict [("x", JNum x); ("y", JNum y); ("z", JNum z); ("rx", JNum rx); ("ry", JNum ry); ("rz", JNum rz);
               ("reference_cs", match r with Some c' => e_cs c' | None => JNull end)]
    end.

  (** [pc]: the plane_conic flag of the implementation.  Without it the conic of a flat surface is dropped. *)
  Definition e_geom (pc : bool) (g : geom) : J :=
    match g with
    | GPlane c ko =>
        JDict (match ko with
               | Some k => if pc then [("type", JStr "Plane"); ("cs", e_cs c); ("radius", JNum c_inf); ("conic", JNum k)]
                           else [("type", JStr "Plane"); ("cs", e_cs c); ("radius", JNum c_inf)]
               | None => [("type", JStr "Plane"); ("cs", e_cs c); ("radius", JNum c_inf)]
               end)
    | GStd c R k => JDict [("type", JStr "StandardGeometry"); ("cs", e_cs c); ("radius", JNum R); ("conic", JNum k)]
    | GEven c R k tol mi cf =>
        JDict [("type", JStr "EvenAsphere"); ("cs", e_cs c); ("radius", JNum R); ("conic", JNum k);
               ("tol", JNum tol); ("max_iter", JInt mi); ("coefficients", e_nums cf)]
    | GPoly c R k tol mi cf =>
        JDict [("type", JStr "PolynomialGeometry"); ("cs", e_cs c); ("radius", JNum R); ("conic", JNum k);
               ("tol", JNum tol); ("max_iter", JInt mi); ("coefficients", e_nums2 cf)]
    | GCheb c R k tol mi cf nx ny =>
        JDict [("type", JStr "ChebyshevPolynomialGeometry"); ("cs", e_cs c); ("radius", JNum R); ("conic", JNum k);
               ("tol", JNum tol); ("max_iter", JInt mi); ("coefficients", e_nums2 cf);
               ("norm_x", JNum nx); ("norm_y", JNum ny)]
    end.

  Definition e_material (m : material) : J :=
    match m with
    | MIdeal n k => JDict [("type", JStr "IdealMaterial"); ("index", JNum n); ("absorp", JNum k)]
    | MMirror => JDict [("type", JStr "Mirror"); ("index", JNum c_m1); ("absorp", JNum c_zero)]
    | MAbbe n v => JDict [("type", JStr "AbbeMaterial"); ("index", JNum n); ("abbe", JNum v)]
    | MCatalog name ref rob mn mx =>
        JDict [("type", JStr "Material"); ("filename", JStr (catalog_file name ref rob)); ("name", JStr name);
               ("reference", e_ostr ref); ("robust_search", JBool rob);
               ("min_wavelength", e_onum mn); ("max_wavelength", e_onum mx)]
    | MFile f => JDict [("type", JStr "MaterialFile"); ("filename", JStr f)]
    end.

  Section WithImpl.
  Variable I : impl.

  Definition e_coating (c : coating) : J :=
    match c with
    | CSimple t r => JDict [("type", JStr "SimpleCoating"); ("transmittance", JNum t); ("reflectance", JNum r)]
    | CFresnel pre post =>
        if fresnel_nested I
        then JDict [("type", JStr "FresnelCoating"); ("material_pre", e_material pre); ("material_post", e_material post)]
        else JDict [("type", JStr "FresnelCoating"); ("material_pre", JLive (LMat pre)); ("material_post", JLive (LMat post))]
    end.

  Definition e_bsdf (b : bsdf) : J :=
    match b with
    | BLambert => JDict [("type", JStr "LambertianBSDF")]
    | BGauss s => JDict [("type", JStr "GaussianBSDF"); ("sigma", JNum s)]
    end.

  Definition e_pap (p : paperture) : J :=
    match p with PRadial a b => JDict [("type", JStr "RadialAperture"); ("r_max", JNum a); ("r_min", JNum b)] end.

  Definition e_surface (s : surface) : J :=
    match s with
    | SObject g post => JDict [("type", JStr "ObjectSurface"); ("geometry", e_geom (plane_conic I) g); ("material_post", e_material post)]
    | SStandard g pre post st ap co bs rf =>
        JDict [("type", JStr "Surface"); ("geometry", e_geom (plane_conic I) g); ("material_pre", e_material pre);
               ("material_post", e_material post); ("is_stop", JBool st); ("aperture", e_opt e_pap ap);
               ("coating", e_opt e_coating co); ("bsdf", e_opt e_bsdf bs); ("is_reflective", JBool rf)]
    | SImage g pre ap =>     (* ImageSurface inherits Surface.to_dict; __init__ fixed post:=pre, no stop/coating/bsdf *)
        JDict [("type", JStr "ImageSurface"); ("geometry", e_geom (plane_conic I) g); ("material_pre", e_material pre);
               ("material_post", e_material pre); ("is_stop", JBool false); ("aperture", e_opt e_pap ap);
               ("coating", JNull); ("bsdf", JNull); ("is_reflective", JBool false)]
    end.

  Definition e_field (f : field) : J :=
    match f with Field t x y vx vy =>
      JDict [("field_type", e_ostr t); ("x", JNum x); ("y", JNum y); ("vx", JNum vx); ("vy", JNum vy)] end.

  Definition e_wave (w : wavelength) : J :=
    match w with WL v p u => JDict [("value", JNum v); ("is_primary", JBool p); ("unit", JStr u)] end.

  Definition e_sysap (a : sysap) : J :=
    match a with SysAp t v tc => JDict [("type", JStr t); ("value", JNum v); ("object_space_telecentric", JBool tc)] end.

  Definition e_pickup (p : pickup) : J :=
    match p with Pickup s a t sc off =>
      JDict [("source_surface_idx", JInt s); ("attr_type", JStr a); ("target_surface_idx", JInt t);
             ("scale", JNum sc); ("offset", JNum off)] end.

  Definition e_solve (s : solve) : J :=
    match s with MRHSolve i h => JDict [("type", JStr "MarginalRayHeightSolve"); ("surface_idx", JInt i); ("height", JNum h)] end.

  Definition e_pol (p : polarization) : J :=
    match p with
    | PIgnore => JStr "ignore"
    | PState ip ex ey px py =>
        if pol_codec I
        then JDict [("is_polarized", JBool ip); ("Ex", e_onum ex); ("Ey", e_onum ey);
                    ("phase_x", e_onum px); ("phase_y", e_onum py)]
        else JLive (LPol p)
    end.

  (** Optic.to_dict *)
  Definition to_dict (l : lens) : J :=
    JDict [("version", JNum c_one);
           ("aperture", e_opt e_sysap (l_ap l));
           ("surface_group", JDict [("surfaces", JList (map e_surface (l_surfs l)))]);
           ("fields", JDict [("fields", JList (map e_field (l_fields l))); ("telecentric", JBool (l_fg_tele l));
                             ("field_type", e_ostr (l_ftype l)); ("object_space_telecentric", JBool (l_tele l))]);
           ("wavelengths", JDict [("wavelengths", JList (map e_wave (l_waves l))); ("polarization", e_pol (l_pol l))]);
           ("pickups", JList (map e_pickup (l_pickups l)));
           ("solves", JDict [("solves", JList (map e_solve (l_solves l)))])].

  (** ** from_dict.  [None] = the Python code raises (or the value does not have the JSON type the
      code expects: the model is only claimed on well-typed dictionaries). *)
  Definition bind {X Y} (o : option X) (f : X -> option Y) : option Y := match o with Some x => f x | None => None end.
  Notation "x <- e ;; k" := (bind e (fun x => k)) (at level 61, e at next level, right associativity).

  Definition d_num (j : J) : option A := match j with JNum x => Some x | _ => None end.
  Definition d_int (j : J) : option Z := match j with JInt z => Some z | _ => None end.
  Definition d_bool (j : J) : option bool := match j with JBool b => Some b | _ => None end.
  Definition d_str (j : J) : option string := match j with JStr s => Some s | _ => None end.
  Definition d_dict (j : J) : option (list (string * J)) := match j with JDict d => Some d | _ => None end.
  Definition d_list (j : J) : option (list J) := match j with JList l => Some l | _ => None end.
  Definition d_ostr (j : J) : option (option string) :=
    match j with JNull => Some None | JStr s => Some (Some s) | _ => None end.
  Definition d_onum (j : J) : option (option A) :=
    match j with JNull => Some None | JNum x => Some (Some x) | _ => None end.

  (** d[k] (KeyError -> None) and d.get(k, default) *)
  Definition req {X} (f : J -> option X) (k : string) (d : list (string * J)) : option X := j <- get k d ;; f j.
  Definition dflt {X} (f : J -> option X) (k : string) (d : list (string * J)) (v : X) : option X :=
    match get k d with Some j => f j | None => Some v end.

  Fixpoint traverse {X} (f : J -> option X) (l : list J) : option (list X) :=
    match l with
    | [] => Some []
    | j :: r => x <- f j ;; xs <- traverse f r ;; Some (x :: xs)
    end.

  Definition d_nums (j : J) : option (list A) := l <- d_list j ;; traverse d_num l.
  Definition d_nums2 (j : J) : option (list (list A)) := l <- d_list j ;; traverse d_nums l.

  (** data[k] truthy ? sub.from_dict(data[k]) : None *)
  Definition d_optobj {X} (f : J -> option X) (j : J) : option (option X) :=
    match j with JNull => Some None | _ => x <- f j ;; Some (Some x) end.

  (** CoordinateSystem.from_dict (recursive through 'reference_cs'; every key but that one has a default) *)
  Definition find_with {X} (f : J -> X) : string -> list (string * J) -> option X :=
    fix find (k : string) (d : list (string * J)) : option X :=
      match d with
      | [] => None
      | (k', v) :: r => if String.eqb k k' then Some (f v) else find k r
      end.

  Fixpoint d_cs (j : J) : option cs :=
    match j with
    | JDict d =>
        r <- match find_with (fun v => match v with JNull => Some None
                                               | _ => c <- d_cs v ;; Some (Some c) end) "reference_cs" d with
             | Some r => r | None => None end ;;
        x <- dflt d_num "x" d c_zero ;; y <- dflt d_num "y" d c_zero ;; z <- dflt d_num "z" d c_zero ;;
        rx <- dflt d_num "rx" d c_zero ;; ry <- dflt d_num "ry" d c_zero ;; rz <- dflt d_num "rz" d c_zero ;;
        Some (CS x y z rx ry rz r)
    | _ => None
    end.

  (** BaseGeometry.from_dict: dispatch on 'type' through the registry *)
  Definition d_geom (pc : bool) (j : J) : option geom :=
    d <- d_dict j ;;
    ty <- match get "type" d with Some (JStr s) => Some s | _ => None end ;;
    if String.eqb ty "Plane" then
      c <- req d_cs "cs" d ;;
      ko <- (if pc then match get "conic" d with Some j => k <- d_num j ;; Some (Some k) | None => Some None end
             else Some None) ;;
      Some (GPlane c ko)
    else if String.eqb ty "StandardGeometry" then
      c <- req d_cs "cs" d ;; R <- req d_num "radius" d ;; k <- dflt d_num "conic" d c_zero ;; Some (GStd c R k)
    else if String.eqb ty "EvenAsphere" then
      c <- req d_cs "cs" d ;; R <- req d_num "radius" d ;; k <- dflt d_num "conic" d c_zero ;;
      tol <- dflt d_num "tol" d c_tol ;; mi <- dflt d_int "max_iter" d 100%Z ;;
      cf <- dflt d_nums "coefficients" d [] ;; Some (GEven c R k tol mi cf)
    else if String.eqb ty "PolynomialGeometry" then
      c <- req d_cs "cs" d ;; R <- req d_num "radius" d ;; k <- dflt d_num "conic" d c_zero ;;
      tol <- dflt d_num "tol" d c_tol ;; mi <- dflt d_int "max_iter" d 100%Z ;;
      cf <- dflt d_nums2 "coefficients" d [[]] ;; Some (GPoly c R k tol mi cf)
    else if String.eqb ty "ChebyshevPolynomialGeometry" then
      c <- req d_cs "cs" d ;; R <- req d_num "radius" d ;; k <- dflt d_num "conic" d c_zero ;;
      tol <- dflt d_num "tol" d c_tol ;; mi <- dflt d_int "max_iter" d 100%Z ;;
      cf <- dflt d_nums2 "coefficients" d [[]] ;;
      nx <- dflt d_num "norm_x" d c_one ;; ny <- dflt d_num "norm_y" d c_one ;; Some (GCheb c R k tol mi cf nx ny)
    else None.

  (** BaseMaterial.from_dict.  Mirror ignores its data; Material ignores 'filename' and looks the file up again. *)
  Definition d_material (j : J) : option material :=
    match j with
    | JLive (LMat m) => Some m          (* only reachable from FresnelCoating.from_dict on an unsaved dictionary *)
    | _ =>
      d <- d_dict j ;;
      ty <- match get "type" d with Some (JStr s) => Some s | _ => None end ;;
      if String.eqb ty "IdealMaterial" then
        n <- req d_num "index" d ;; k <- dflt d_num "absorp" d c_zero ;; Some (MIdeal n k)
      else if String.eqb ty "Mirror" then Some MMirror
      else if String.eqb ty "AbbeMaterial" then
        n <- req d_num "index" d ;; v <- req d_num "abbe" d ;; Some (MAbbe n v)
      else if String.eqb ty "Material" then
        nm <- req d_str "name" d ;; rf <- dflt d_ostr "reference" d None ;; rb <- dflt d_bool "robust_search" d true ;;
        mn <- dflt d_onum "min_wavelength" d None ;; mx <- dflt d_onum "max_wavelength" d None ;;
        Some (MCatalog nm rf rb mn mx)
      else if String.eqb ty "MaterialFile" then
        f <- req d_str "filename" d ;; Some (MFile f)
      else None
    end.

  Definition d_coating (j : J) : option coating :=
    d <- d_dict j ;;
    ty <- req d_str "type" d ;;
    if String.eqb ty "SimpleCoating" then
      t <- req d_num "transmittance" d ;; r <- req d_num "reflectance" d ;; Some (CSimple t r)
    else if String.eqb ty "FresnelCoating" then
      (* repaired: BaseMaterial.from_dict(data[..]); current: the stored value is used as the material itself *)
      let dm := if fresnel_nested I then d_material
                else (fun j => match j with JLive (LMat m) => Some m | _ => None end) in
      a <- req dm "material_pre" d ;; b <- req dm "material_post" d ;; Some (CFresnel a b)
    else None.

  Definition d_bsdf (j : J) : option bsdf :=
    d <- d_dict j ;;
    ty <- req d_str "type" d ;;
    if String.eqb ty "LambertianBSDF" then Some BLambert
    else if String.eqb ty "GaussianBSDF" then s <- req d_num "sigma" d ;; Some (BGauss s)
    else None.

  Definition d_pap (j : J) : option paperture :=
    d <- d_dict j ;;
    ty <- req d_str "type" d ;;
    if String.eqb ty "RadialAperture" then a <- req d_num "r_max" d ;; b <- req d_num "r_min" d ;; Some (PRadial a b)
    else None.

  (** Surface.from_dict: 'type' must be present; the registry maps ObjectSurface / ImageSurface to their
      classes and anything else to Surface *)
  Definition d_surface (j : J) : option surface :=
    d <- d_dict j ;;
    ty <- req d_str "type" d ;;
    if String.eqb ty "ObjectSurface" then
      g <- req (d_geom (plane_conic I)) "geometry" d ;; m <- req d_material "material_post" d ;; Some (SObject g m)
    else if String.eqb ty "ImageSurface" then
      if image_from_dict I then
        g <- req (d_geom (plane_conic I)) "geometry" d ;; m <- req d_material "material_pre" d ;;
        ap <- req (d_optobj d_pap) "aperture" d ;; Some (SImage g m ap)
      else None       (* Surface._from_dict calls ImageSurface(...) with 8 positional arguments: TypeError *)
    else
      g <- req (d_geom (plane_conic I)) "geometry" d ;; m1 <- req d_material "material_pre" d ;; m2 <- req d_material "material_post" d ;;
      ap <- req (d_optobj d_pap) "aperture" d ;; co <- req (d_optobj d_coating) "coating" d ;;
      bs <- req (d_optobj d_bsdf) "bsdf" d ;; st <- req d_bool "is_stop" d ;; rf <- req d_bool "is_reflective" d ;;
      Some (SStandard g m1 m2 st ap co bs rf).

  Definition d_field (j : J) : option field :=
    d <- d_dict j ;;
    t <- req d_ostr "field_type" d ;;
    x <- dflt d_num "x" d c_zero ;; y <- dflt d_num "y" d c_zero ;;
    vx <- dflt d_num "vx" d c_zero ;; vy <- dflt d_num "vy" d c_zero ;; Some (Field t x y vx vy).

  (** WavelengthGroup.add_wavelength(value, is_primary=True, unit='um') *)
  Definition w_prim (w : wavelength) : bool := match w with WL _ p _ => p end.
  Definition w_unset (w : wavelength) : wavelength := match w with WL v _ u => WL v false u end.
  Definition add_wavelength (ws : list wavelength) (v : A) (p : bool) (u : string) : list wavelength :=
    let ws' := if p then map w_unset ws else ws in
    let p' := match ws with [] => true | _ => p end in
    ws' ++ [WL v p' (lower u)].

  Definition d_wave_args (j : J) : option (A * bool * string) :=
    d <- d_dict j ;;
    v <- req d_num "value" d ;; p <- dflt d_bool "is_primary" d true ;; u <- dflt d_str "unit" d "um" ;;
    Some (v, p, u).

  Definition replay_waves (l : list (A * bool * string)) : list wavelength :=
    fold_left (fun ws a => match a with (v, p, u) => add_wavelength ws v p u end) l [].

  Definition d_sysap (j : J) : option sysap :=
    d <- d_dict j ;;
    t <- req d_str "type" d ;; v <- req d_num "value" d ;;
    tc <- dflt d_bool "object_space_telecentric" d false ;; Some (SysAp t v tc).

  Definition d_pickup (j : J) : option pickup :=
    d <- d_dict j ;;
    s <- req d_int "source_surface_idx" d ;; a <- req d_str "attr_type" d ;; t <- req d_int "target_surface_idx" d ;;
    sc <- dflt d_num "scale" d c_one ;; off <- dflt d_num "offset" d c_zero ;; Some (Pickup s a t sc off).

  Definition d_solve (j : J) : option solve :=
    d <- d_dict j ;;
    ty <- req d_str "type" d ;;
    if String.eqb ty "MarginalRayHeightSolve" then
      i <- req d_int "surface_idx" d ;; h <- req d_num "height" d ;; Some (MRHSolve i h)
    else None.

  Definition d_pol (j : J) : option polarization :=
    match j with
    | JStr s => if String.eqb s "ignore" then Some PIgnore else None
    | JLive (LPol p) => Some p
    | JDict d =>
        if pol_codec I then
          ip <- req d_bool "is_polarized" d ;; ex <- req d_onum "Ex" d ;; ey <- req d_onum "Ey" d ;;
          px <- req d_onum "phase_x" d ;; py <- req d_onum "phase_y" d ;; Some (PState ip ex ey px py)
        else None
    | _ => None
    end.

  (** Optic.from_dict, up to the application of the pickups *)
  Definition decode (j : J) : option lens :=
    d <- d_dict j ;;
    ap <- match get "aperture" d with
          | Some JNull => if aperture_none_ok I then Some None else None
          | Some a => x <- d_sysap a ;; Some (Some x)
          | None => None end ;;
    sg <- req d_dict "surface_group" d ;;
    surfs <- req (fun j => l <- d_list j ;; traverse d_surface l) "surfaces" sg ;;
    fg <- req d_dict "fields" d ;;
    fields <- req (fun j => l <- d_list j ;; traverse d_field l) "fields" fg ;;
    fgt <- req d_bool "telecentric" fg ;;
    wg <- req d_dict "wavelengths" d ;;
    wargs <- req (fun j => l <- d_list j ;; traverse d_wave_args l) "wavelengths" wg ;;
    pks <- req (fun j => l <- d_list j ;; traverse d_pickup l) "pickups" d ;;
    sm <- req d_dict "solves" d ;;
    sols <- req (fun j => l <- d_list j ;; traverse d_solve l) "solves" sm ;;
    pol <- req d_pol "polarization" wg ;;
    ft <- req d_ostr "field_type" fg ;;
    tele <- req d_bool "object_space_telecentric" fg ;;
    Some (mkLens ap ft surfs fields fgt (replay_waves wargs) pol pks sols tele).

  (** Optic.from_dict.  [apply_pickups] is PickupManager.add's `pickup.apply()` for each pickup in turn
      (arithmetic on radii / conics / vertex positions, not modelled here): an arbitrary function. *)
  Definition from_dict (apply_pickups : lens -> lens) (j : J) : option lens :=
    l <- decode j ;;
    Some (if pickups_applied_on_load I then apply_pickups l else l).

  (** ** where the state can hold something the file format cannot *)
  Definition coating_fresnel (c : option coating) : bool := match c with Some (CFresnel _ _) => true | _ => false end.
  Definition surf_fresnel (s : surface) : bool := match s with SStandard _ _ _ _ _ co _ _ => coating_fresnel co | _ => false end.
  Definition surf_image (s : surface) : bool := match s with SImage _ _ _ => true | _ => false end.
  Definition has_fresnel (l : lens) : bool := existsb surf_fresnel (l_surfs l).
  Definition has_image_class (l : lens) : bool := existsb surf_image (l_surfs l).
  Definition geom_plane_conic (g : geom) : bool := match g with GPlane _ (Some _) => true | _ => false end.
  Definition surf_geom (s : surface) : geom :=
    match s with SObject g _ | SStandard g _ _ _ _ _ _ _ | SImage g _ _ => g end.
  Definition surf_plane_conic (s : surface) : bool := geom_plane_conic (surf_geom s).
  Definition has_plane_conic (l : lens) : bool := existsb surf_plane_conic (l_surfs l).
  Definition has_polstate (l : lens) : bool := match l_pol l with PIgnore => false | _ => true end.
  Definition no_aperture (l : lens) : bool := match l_ap l with None => true | _ => false end.

  (** nothing live ends up in the dictionary *)
  Definition live_free (l : lens) : bool :=
    (negb (has_fresnel l) || fresnel_nested I) && (negb (has_polstate l) || pol_codec I).

  (** the reload code path exists for everything in the lens *)
  Definition loadable (l : lens) : bool :=
    (negb (has_image_class l) || image_from_dict I) && (negb (no_aperture l) || aperture_none_ok I)
    && (negb (has_plane_conic l) || plane_conic I).

  End WithImpl.

  (** ** wavelength-list invariant kept by WavelengthGroup.add_wavelength: at most one primary, exactly
      one when the list is not empty, and units are stored lower-cased *)
  Definition noprim (ws : list wavelength) : Prop := forall w, In w ws -> w_prim w = false.
  Definition w_unit (w : wavelength) : string := match w with WL _ _ u => u end.
  Definition units_lower (ws : list wavelength) : Prop := forall w, In w ws -> lower (w_unit w) = w_unit w.
  Definition waves_wf (ws : list wavelength) : Prop :=
    units_lower ws /\
    (ws = [] \/ exists a v u b, ws = (a ++ WL v true u :: b)%list /\ noprim a /\ noprim b).

  Definition wf (l : lens) : Prop := waves_wf (l_waves l).

End Model.

Arguments traverse {A X}. Arguments e_nums {A}. Arguments e_nums2 {A}. Arguments d_nums {A}. Arguments d_nums2 {A}.
Arguments e_opt {A X}. Arguments bind {X Y}. Arguments req {A X}. Arguments dflt {A X}. Arguments d_optobj {A X}.
Arguments find_with {A X}.
Arguments coating_fresnel {A}. Arguments surf_fresnel {A}. Arguments surf_image {A}. Arguments has_fresnel {A}.
Arguments has_image_class {A}. Arguments has_polstate {A}. Arguments no_aperture {A}. Arguments live_free {A}.
Arguments loadable {A}. Arguments geom_plane_conic {A}. Arguments surf_geom {A}. Arguments surf_plane_conic {A}. Arguments has_plane_conic {A}. Arguments e_bsdf {A}. Arguments e_pap {A}. Arguments d_bsdf {A}. Arguments d_pap {A}.
Arguments e_field {A}. Arguments e_wave {A}. Arguments e_sysap {A}. Arguments e_pickup {A}. Arguments e_solve {A}.
Arguments d_solve {A}. Arguments d_wave_args {A}. Arguments w_prim {A}. Arguments w_unset {A}. Arguments w_unit {A}.
Arguments noprim {A}. Arguments e_ostr {A}. Arguments e_onum {A}. Arguments d_ostr {A}. Arguments d_onum {A}.
Arguments d_num {A}. Arguments d_int {A}. Arguments d_bool {A}. Arguments d_str {A}. Arguments d_dict {A}. Arguments d_list {A}.
Arguments mkLens {A}. Arguments l_ap {A}. Arguments l_ftype {A}. Arguments l_surfs {A}. Arguments l_fields {A}.
Arguments l_fg_tele {A}. Arguments l_waves {A}. Arguments l_pol {A}. Arguments l_pickups {A}. Arguments l_solves {A}.
Arguments l_tele {A}.

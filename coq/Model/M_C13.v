(** * C13 - hand model of the record state of a lens and of the calls that only query it.

    What is modelled (optiland/surfaces/standard_surface.py, surface_group.py, paraxial.py, optic.py,
    rays/ray_generator.py, wavefront.py, analysis/*.py; object plumbing that py2coq cannot translate):

    - [srec]: the ten per-surface record arrays of [Surface] (y u x z L M N intensity aoi opd);
      [s_reset] = Surface.reset, [record_par]/[record_real] = Surface._record;
    - a lens is the list of (surface prescription, its records) plus the system data (fields, wavelengths,
      aperture, field type ...): the records live INSIDE the surface objects, as in the implementation;
    - [sg_trace_par]/[sg_trace_real] = SurfaceGroup.trace (reset of EVERY surface, then
      Surface.trace on surfaces[skip:], each of which resets and records);
    - [getter] = the SurfaceGroup properties x y z L M N opd u intensity (empty records are filtered out);
    - [inverted] = SurfaceGroup.inverted (a deep copy: the copy carries the records, the lens is untouched);
    - [prog]: the calls a query may make: read the prescription, trace forward on the lens (writes
      records), trace on an inverted copy (returns the copy's getters), read the record table;
    - the call graph of every Paraxial query, of RayGenerator.generate_rays, Optic.trace/trace_generic,
      Aberrations._precalculations and of the analysis classes, written with the combinators
      [tgF tgR ptrace rtrace withP seqM foreach];
    - [tg_scale]: the argument handling of Optic.trace_generic in store-passing style (the caller's array is
      part of the result), with the in-place flag extracted from the source by tools/c13lib.py;
    - [newton_batch]: NewtonRaphsonGeometry.distance for a whole batch (one stopping test for all rays).

    The physics (what a surface does to a ray bundle) is a parameter: the theorems hold for every choice;
    the correspondence check instantiates it with ray counts (sizes of every record array after every call
    of a random history, compared with the real objects) and, for Newton, with the regenerated sag kernels. *)
From Coq Require Import ZArith List Bool Lia.
From OV Require Import Ops.
Import ListNotations.
Set Implicit Arguments.

(* ------------------------------------------------------------------------------------------------ *)
Section Records.
  Variable V : Type.
  Definition arr := list V.
  Record srec := mkRec { r_y : arr; r_u : arr; r_x : arr; r_z : arr; r_L : arr; r_M : arr; r_N : arr;
                         r_int : arr; r_aoi : arr; r_opd : arr }.
  Definition empty_rec : srec := mkRec [] [] [] [] [] [] [] [] [] [].
  (** Surface.reset *)
  Definition s_reset (r : srec) : srec := empty_rec.
  (** Surface._record for ParaxialRays: only y and u are written *)
  Definition record_par (r : srec) (y u : arr) : srec :=
    mkRec y u (r_x r) (r_z r) (r_L r) (r_M r) (r_N r) (r_int r) (r_aoi r) (r_opd r).
  (** Surface._record for RealRays: x y z L M N intensity opd are written (u and aoi are not) *)
  Definition record_real (r : srec) (x y z L M N i opd : arr) : srec :=
    mkRec y (r_u r) x z L M N i (r_aoi r) opd.
  Definition nonempty (a : arr) : bool := match a with [] => false | _ :: _ => true end.
  (** SurfaceGroup.x / .y / ... : np.array([surf.f for surf in surfaces if surf.f.size > 0]) *)
  Definition getter (f : srec -> arr) (rs : list srec) : list arr := filter nonempty (map f rs).
  Definition sizes (r : srec) : list Z :=
    map (fun a => Z.of_nat (length a))
        [r_y r; r_u r; r_x r; r_z r; r_L r; r_M r; r_N r; r_int r; r_aoi r; r_opd r].
End Records.
Arguments empty_rec {V}.

(* ------------------------------------------------------------------------------------------------ *)
(** the physics and the few prescription predicates the call graph branches on: parameters of the model *)
Record phys (V Sf G : Type) := mkPhys {
  pst : Type; rst : Type;                              (* paraxial / real ray bundles *)
  pstep : Sf -> pst -> pst;                            (* Surface._trace_paraxial; identity at the object *)
  p_y : pst -> arr V; p_u : pst -> arr V;
  rstep : Sf -> rst -> rst;                            (* Surface._trace_real *)
  q_x : rst -> arr V; q_y : rst -> arr V; q_z : rst -> arr V; q_L : rst -> arr V; q_M : rst -> arr V;
  q_N : rst -> arr V; q_i : rst -> arr V; q_opd : rst -> arr V;
  inv_s : list Sf -> Sf -> Sf;                         (* inverted(): -R, z_shift - z, media swapped *)
  (* call site, prescription, log of observations -> launched bundle *)
  par_launch : nat -> list Sf * G -> list (list (list (arr V))) -> pst;
  real_launch : nat -> list Sf * G -> list (list (list (arr V))) -> rst;
  is_stop : Sf -> bool;
  ap_kind : G -> nat;                                  (* 0 EPD, 1 imageFNO, 2 objectNA *)
  obj_infinite : list Sf * G -> bool;
  field_is_height : G -> bool;
  field_is_angle : G -> bool;
  telecentric : G -> bool
}.

Section Machine.
  Context {V Sf G : Type} (Ph : phys V Sf G).
  Notation pst := (pst Ph). Notation rst := (rst Ph).
  Notation pstep := (pstep Ph). Notation p_y := (p_y Ph). Notation p_u := (p_u Ph).
  Notation rstep := (rstep Ph).
  Notation q_x := (q_x Ph). Notation q_y := (q_y Ph). Notation q_z := (q_z Ph). Notation q_L := (q_L Ph).
  Notation q_M := (q_M Ph). Notation q_N := (q_N Ph). Notation q_i := (q_i Ph). Notation q_opd := (q_opd Ph).
  Notation inv_s := (inv_s Ph).

  Definition surfrec := (Sf * srec V)%type.
  Record lens := mkLens { surfs : list surfrec; sysd : G }.
  Definition presc (l : lens) : list Sf * G := (map fst (surfs l), sysd l).
  Definition recs (l : lens) : list (srec V) := map snd (surfs l).

  (** SurfaceGroup.reset *)
  Definition sg_reset (ss : list surfrec) : list surfrec := map (fun sr => (fst sr, s_reset (snd sr))) ss.

  (** the loop of SurfaceGroup.trace over surfaces[skip:], paraxial rays *)
  Fixpoint trace_par_from (ss : list surfrec) (x : pst) : list surfrec :=
    match ss with
    | [] => []
    | sr :: t => let x' := pstep (fst sr) x in
                 (fst sr, record_par (s_reset (snd sr)) (p_y x') (p_u x')) :: trace_par_from t x'
    end.
  Fixpoint trace_real_from (ss : list surfrec) (x : rst) : list surfrec :=
    match ss with
    | [] => []
    | sr :: t => let x' := rstep (fst sr) x in
                 (fst sr, record_real (s_reset (snd sr)) (q_x x') (q_y x') (q_z x') (q_L x') (q_M x') (q_N x')
                                      (q_i x') (q_opd x')) :: trace_real_from t x'
    end.
  (** SurfaceGroup.trace(rays, skip) *)
  Definition sg_trace_par (ss : list surfrec) (skip : nat) (x : pst) : list surfrec :=
    let ss0 := sg_reset ss in firstn skip ss0 ++ trace_par_from (skipn skip ss0) x.
  Definition sg_trace_real (ss : list surfrec) (x : rst) : list surfrec :=
    trace_real_from (sg_reset ss) x.

  (** SurfaceGroup.inverted: deepcopy(self.surfaces[::-1]) and the per-surface edits of the COPY *)
  Definition inverted (ss : list surfrec) : list surfrec :=
    map (fun sr => (inv_s (map fst ss) (fst sr), snd sr)) (rev ss).

  (** every getter at once, in the order x y z L M N opd u intensity *)
  Definition all_getters (rs : list (srec V)) : list (list (arr V)) :=
    [getter (@r_x V) rs; getter (@r_y V) rs; getter (@r_z V) rs; getter (@r_L V) rs; getter (@r_M V) rs;
     getter (@r_N V) rs; getter (@r_opd V) rs; getter (@r_u V) rs; getter (@r_int V) rs].

  (** ** what a non-editing call can do *)
  Inductive prog (A : Type) : Type :=
  | Ret (a : A)
  | Presc (k : list Sf * G -> prog A)                               (* read prescription / fields / ... *)
  | ParFwd (skip : nat) (x : pst) (k : prog A)                     (* paraxial trace on the lens itself *)
  | ParRev (skip : nat) (x : pst) (k : list (arr V) * list (arr V) -> prog A)   (* on an inverted copy *)
  | RealFwd (x : rst) (k : prog A)                                 (* real trace on the lens itself *)
  | Read (k : list (srec V) -> prog A).                            (* look at the record table *)
  Arguments Ret {A}. Arguments Presc {A}. Arguments ParFwd {A}. Arguments ParRev {A}.
  Arguments RealFwd {A}. Arguments Read {A}.

  Fixpoint exec {A} (p : prog A) (l : lens) : A * lens :=
    match p with
    | Ret a => (a, l)
    | Presc k => exec (k (presc l)) l
    | ParFwd skip x k => exec k (mkLens (sg_trace_par (surfs l) skip x) (sysd l))
    | ParRev skip x k =>
        let copy := sg_trace_par (inverted (surfs l)) skip x in
        exec (k (getter (@r_y V) (map snd copy), getter (@r_u V) (map snd copy))) l
    | RealFwd x k => exec k (mkLens (sg_trace_real (surfs l) x) (sysd l))
    | Read k => exec (k (recs l)) l
    end.

  Fixpoint bind {A B} (p : prog A) (f : A -> prog B) : prog B :=
    match p with
    | Ret a => f a
    | Presc k => Presc (fun q => bind (k q) f)
    | ParFwd skip x k => ParFwd skip x (bind k f)
    | ParRev skip x k => ParRev skip x (fun o => bind (k o) f)
    | RealFwd x k => RealFwd x (bind k f)
    | Read k => Read (fun rs => bind (k rs) f)
    end.

  (** a history is any list of calls (of any result type) *)
  Definition call := { A : Type & prog A }.
  Definition run_call (c : call) (l : lens) : lens := snd (exec (projT2 c) l).
  Definition run (h : list call) (l : lens) : lens := fold_left (fun l c => run_call c l) h l.

  (** reads happen only after the call's own forward trace ([b] = a forward trace has happened) *)
  Inductive wf {A} : bool -> prog A -> Prop :=
  | wf_ret b a : wf b (Ret a)
  | wf_presc b k : (forall q, wf b (k q)) -> wf b (Presc k)
  | wf_parfwd b skip x k : wf true k -> wf b (ParFwd skip x k)
  | wf_parrev b skip x k : (forall o, wf b (k o)) -> wf b (ParRev skip x k)
  | wf_realfwd b x k : wf true k -> wf b (RealFwd x k)
  | wf_read k : (forall rs, wf true (k rs)) -> wf true (Read k).

  (** ** the combinators the implementation's queries are written with.
      A query step takes the log of observations made so far and extends it; the numerical result of a
      query is a pure function of the prescription and of the final log. *)
  Definition obs := list (list (arr V)).
  Definition M := list obs -> prog (list obs).
  Notation par_launch := (par_launch Ph). Notation real_launch := (real_launch Ph).

  Definition idM : M := fun o => Ret o.
  Definition seqM (a b : M) : M := fun o => bind (a o) b.
  Definition withP (f : list Sf * G -> M) : M := fun o => Presc (fun q => f q o).
  (** Paraxial._trace_generic(reverse=False): trace on self.surfaces, return surfaces.y, surfaces.u *)
  Definition tgF (site : nat) (skip : list Sf * G -> nat) : M := fun o =>
    Presc (fun q => ParFwd (skip q) (par_launch site q o)
                      (Read (fun rs => Ret (o ++ [[getter (@r_y V) rs; getter (@r_u V) rs]])))).
  (** Paraxial._trace_generic(reverse=True) *)
  Definition tgR (site : nat) (skip : list Sf * G -> nat) : M := fun o =>
    Presc (fun q => ParRev (skip q) (par_launch site q o) (fun yu => Ret (o ++ [[fst yu; snd yu]]))).
  (** SurfaceGroup.trace on freshly generated real rays, then whatever getters the caller looks at *)
  Definition rtraceM (site : nat) : M := fun o =>
    Presc (fun q => RealFwd (real_launch site q o) (Read (fun rs => Ret (o ++ [all_getters rs])))).
  Fixpoint foreach {X} (xs : list X) (body : X -> M) : M :=
    match xs with [] => idM | x :: t => seqM (body x) (foreach t body) end.

  Inductive built : M -> Prop :=
  | b_id : built idM
  | b_seq a b : built a -> built b -> built (seqM a b)
  | b_withP f : (forall q, built (f q)) -> built (withP f)
  | b_tgF site skip : built (tgF site skip)
  | b_tgR site skip : built (tgR site skip)
  | b_rtrace site : built (rtraceM site).

  (** ** the call graph of optiland/paraxial.py (sites number the _trace_generic call sites) *)
  Notation is_stop := (is_stop Ph). Notation obj_infinite := (obj_infinite Ph).
  Notation field_is_height := (field_is_height Ph). Notation field_is_angle := (field_is_angle Ph).
  Notation telecentric := (telecentric Ph).
  Inductive aptype := EPDt | FNOt | NAt.
  Definition ap_of (g : G) : aptype := match ap_kind Ph g with 0%nat => EPDt | 1%nat => FNOt | _ => NAt end.

  Fixpoint stop_from (i : nat) (ss : list Sf) : nat :=
    match ss with [] => i | s :: t => if is_stop s then i else stop_from (S i) t end.
  Definition stop_index (q : list Sf * G) : nat := stop_from 0 (fst q).
  Definition nsurf (q : list Sf * G) : nat := length (fst q).
  Definition c0 : list Sf * G -> nat := fun _ => 0.
  (** skip = (index of the stop in the inverted list) + 1 = nsurf - stop_index *)
  Definition skip_rev (q : list Sf * G) : nat := nsurf q - stop_index q.
  Definition skip_fwd (q : list Sf * G) : nat := stop_index q + 1.

  Definition q_f2 : M := tgF 1 c0.
  Definition q_F2 : M := tgF 1 c0.
  Definition q_f1 : M := tgR 2 c0.
  Definition q_F1 : M := tgR 2 c0.
  Definition q_P1 : M := seqM q_F1 q_f1.
  Definition q_P2 : M := seqM q_F2 q_f2.
  Definition q_N1 : M := seqM q_P1 (seqM q_f1 q_f2).
  Definition q_N2 : M := seqM q_P2 (seqM q_f1 q_f2).
  Definition q_EPL : M := withP (fun q => if Nat.eqb (stop_index q) 0 then idM else tgR 3 skip_rev).
  Definition q_EPD : M := withP (fun q => match ap_of (snd q) with EPDt => idM | FNOt => q_f2 | NAt => q_EPL end).
  Definition q_XPL : M := withP (fun q => if Nat.eqb (stop_index q) (nsurf q - 2) then idM else tgF 4 skip_fwd).
  Definition q_marginal : M :=
    seqM q_EPD (seqM (withP (fun q => if obj_infinite q then idM else q_EPL)) (tgF 5 c0)).
  Definition q_XPD : M := seqM q_marginal q_XPL.
  Definition q_FNO : M := withP (fun q => match ap_of (snd q) with FNOt => idM | _ => seqM q_f2 q_EPD end).
  Definition q_magnification : M := q_marginal.
  Definition q_chief : M := seqM (tgR 6 skip_rev) (seqM (tgR 7 skip_rev) (tgF 8 c0)).
  Definition q_invariant : M := seqM q_marginal q_chief.
  (** Paraxial.trace(Hy, Py, wavelength): EPL, EPD, then surface_group.trace(rays) *)
  Definition q_ptrace (site : nat) : M := seqM q_EPL (seqM q_EPD (tgF site c0)).
  (** RayGenerator.generate_rays: _get_ray_origins, then EPL/EPD unless telecentric *)
  Definition q_genrays : M :=
    seqM (withP (fun q => if obj_infinite q then seqM q_EPL (seqM q_EPD q_EPD)
                          else if field_is_height (snd q) then idM else q_EPL))
         (withP (fun q => if telecentric (snd q) then idM else seqM q_EPL q_EPD)).
  (** Optic.trace / Optic.trace_generic *)
  Definition q_trace (site : nat) : M := seqM q_genrays (rtraceM site).
  (** Aberrations._precalculations (every aberration query starts with it) *)
  Definition q_aberration : M := seqM q_invariant (seqM q_marginal q_chief).

  (** ** analyses (wavefront.py, psf.py, mtf.py, analysis/*.py): loops of traces followed by getter reads *)
  (** the site arguments name the call sites of the traces inside (the launch function is keyed by them) *)
  Definition tilt_EPD : M := withP (fun q => if field_is_angle (snd q) then q_EPD else idM).   (* _correct_tilt *)
  Definition q_wavefront (nf nw sc sp : nat) : M :=
    seqM q_XPL (foreach (seq 0 nf) (fun _ => foreach (seq 0 nw) (fun _ =>
      seqM (q_trace sc)                        (* chief ray alone, trace_generic *)
        (seqM tilt_EPD (seqM (q_trace sp)      (* the pupil distribution *)
                             tilt_EPD))))).
  Definition q_spot (nf nw s : nat) : M :=
    foreach (seq 0 nf) (fun _ => foreach (seq 0 nw) (fun _ => q_trace s)).
  Definition q_rayfan (nf nw sx sy : nat) : M :=
    foreach (seq 0 nf) (fun _ => foreach (seq 0 nw) (fun _ => seqM (q_trace sx) (q_trace sy))).
  Definition q_pupil_aberration (nf nw s1 s2 sx sy : nat) : M :=
    seqM (q_ptrace s1) (seqM (q_ptrace s2) (q_rayfan nf nw sx sy)).
  Definition q_distortion (nw s : nat) : M := foreach (seq 0 nw) (fun _ => q_trace s).
  Definition q_field_curvature (nw s : nat) : M :=
    foreach (seq 0 nw) (fun _ => seqM (q_trace s) (q_trace s)).
  Definition q_grid_distortion (s1 s2 : nat) : M := seqM (q_trace s1) (q_trace s2).
  Definition q_yybar : M := seqM q_marginal q_chief.
  Definition working_fno : M :=
    seqM q_FNO (withP (fun q => if obj_infinite q then idM else seqM q_XPD (seqM q_EPD q_magnification))).
  Definition q_fftmtf (nf sc sp : nat) : M :=
    seqM working_fno (foreach (seq 0 nf) (fun _ => q_wavefront 1 1 sc sp)).
  Definition q_geometric_mtf (nf s : nat) : M := seqM working_fno (q_spot nf 1 s).
End Machine.

Arguments Ret {V Sf G Ph A}. Arguments Presc {V Sf G Ph A}. Arguments ParFwd {V Sf G Ph A}.
Arguments ParRev {V Sf G Ph A}. Arguments RealFwd {V Sf G Ph A}. Arguments Read {V Sf G Ph A}.

(* ------------------------------------------------------------------------------------------------ *)
(** ** Optic.trace_generic: what happens to the caller's Px / Py (store-passing) *)
Section CallerArrays.
  Context {O : Ops}.
  Notation T := (T O).
  (** [inplace] = the source writes the parameter with an augmented assignment (Px *= 1 - vx): the caller's
      ndarray IS the array that is scaled.  Returns (pupil coordinates handed to the ray generator,
      content of the caller's array after the call). *)
  Definition tg_scale (inplace : bool) (P : list T) (v : T) : list T * list T :=
    let s := map (fun p => mul p (sub (ofZ 1) v)) P in (s, if inplace then s else P).
  (** two successive calls with the same caller-owned array *)
  Definition tg_scale_twice (inplace : bool) (P : list T) (v : T) : list T * list T :=
    let '(_, P1) := tg_scale inplace P v in
    let '(used2, _) := tg_scale inplace P1 v in (fst (tg_scale inplace P v), used2).
End CallerArrays.

(* ------------------------------------------------------------------------------------------------ *)
(** ** NewtonRaphsonGeometry.distance on a batch: ONE stopping test np.max(np.abs(dz)) < tol *)
Section NewtonBatch.
  Context {O : Ops}.
  Notation T := (T O).
  Variable sag : T -> T -> T.
  Variable tol : T.
  Definition pt := (T * T * T)%type.
  Definition nray := (pt * pt)%type.             (* (direction L M N, current intersection estimate) *)
  Definition n_dz (r : nray) : T := let '(_, (x, y, z)) := r in sub z (sag x y).
  Definition n_step (r : nray) : nray :=
    let '((L, M, N), (x, y, z)) := r in
    let dist := div (sub z (sag x y)) N in
    ((L, M, N), (sub x (mul dist L), sub y (mul dist M), sub z (mul dist N))).
  (** np.max(np.abs(dz)) < tol  (a NaN residual makes the test fail, as in NumPy) *)
  Definition all_small (rs : list nray) : bool := forallb (fun r => ltb_ (abs_ (n_dz r)) tol) rs.
  Fixpoint newton_batch (fuel : nat) (rs : list nray) : list nray :=
    match fuel with
    | 0%nat => rs
    | S f => let rs' := map n_step rs in if all_small rs then rs' else newton_batch f rs'
    end.
  (** the same loop for one ray alone (this is [Model.Trace.newton] when the sag is total) *)
  Definition newton_single (fuel : nat) (r : nray) : nray :=
    match newton_batch fuel [r] with [r'] => r' | _ => r end.
  Fixpoint iter_step (n : nat) (r : nray) : nray :=
    match n with 0%nat => r | S k => iter_step k (n_step r) end.
  (** number of corrections the batch loop applies *)
  Fixpoint batch_count (fuel : nat) (rs : list nray) : nat :=
    match fuel with
    | 0%nat => 0%nat
    | S f => if all_small rs then 1%nat else S (batch_count f (map n_step rs))
    end.
  (** NewtonRaphsonGeometry.distance: start at the base-sphere hit, iterate, report |hit - start| (NaN when the
      hit lies behind the ray); [start] is the regenerated kernel k_nr_sphere *)
  Definition nb_t (r r' : nray) : T :=
    let '((L, M, N), (x0, y0, z0)) := r in
    let '(_, (x, y, z)) := r' in
    let dx := sub x x0 in let dy := sub y y0 in let dz := sub z z0 in
    let t := sqrt_ (add (add (mul dx dx) (mul dy dy)) (mul dz dz)) in
    if ltb_ (add (add (mul dx L) (mul dy M)) (mul dz N)) (ofZ 0) then nan_ else t.
  Definition nb_distance (start : nray -> pt) (fuel : nat) (rays : list nray) : list T :=
    let res := newton_batch fuel (map (fun r => (fst r, start r)) rays) in
    map (fun p => nb_t (fst p) (snd p)) (combine rays res).
End NewtonBatch.

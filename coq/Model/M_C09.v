(** * Hand model of the glue of optiland/wavefront.py (property C09)

    All arithmetic of the wavefront code is done by the kernels REGENERATED from /repo
    (Gen/Wavefront.v: _get_reference_sphere, _opd_image_to_xp, _get_path_length, _correct_tilt in its two
    call forms, _generate_field_data after the trace, OPD.rms, RmsWavefrontErrorVsField._rms_wavefront_error);
    the real-ray trace is Model/Trace.v and the exit pupil is Model/Paraxial.v (XPL).  Written by hand and tied
    to the code by the correspondence check of tools/props/C09.py:
      - RayGenerator.generate_rays / _get_ray_origins for a non-telecentric object space ([launch]);
      - the pupil scalings of Optic.trace (Px = distribution.x * (1 - vx)) and Optic.trace_generic (Px *= 1 - vx);
      - Wavefront._generate_data: the chief ray is traced alone, then the distribution, per field and wavelength;
      - OPDFan.view's slices, RayOperand.OPD_difference's last two lines. *)
From Coq Require Import ZArith List Bool String.
From OV Require Import Ops Num.OpsC09 Gen.RealRays Gen.Standard Gen.Geometries Gen.Apertures Gen.Paraxial
     Gen.Wavefront Model.Trace Model.Paraxial.
Import ListNotations.

Section M.
  Context {O : Ops}.
  Notation T := (T O).

  (** ** Launch (RayGenerator, object space not telecentric) *)
  Record launchcfg := mkLC {
    lc_infinite : bool;      (* object_surface.is_infinite *)
    lc_angle : bool;         (* field_type == 'angle' (otherwise 'object_height') *)
    lc_maxfield : T;         (* fields.max_field *)
    lc_EPD : T; lc_EPL : T;  (* paraxial.EPD(), paraxial.EPL() *)
    lc_pos0 : T;             (* surface_group.positions[0]  (object vertex) *)
    lc_pos1 : T;             (* surface_group.positions[1] *)
    lc_minpos : T;           (* np.min(positions[1:-1]) *)
    lc_objz : T              (* obj.geometry.sag(x, y) + obj.geometry.cs.z for a plane object *)
  }.

  Definition radians (a : T) : T := div (mul a pi_) (ofZ 180).

  (** _get_starting_z_offset: one entrance-pupil diameter in front of the leftmost surface AND of the entrance
      pupil:  EPD - min(np.min(positions[1:-1]), EPL)  (Python's min(a, b) is b only when b < a) *)
  Definition lc_offset (c : launchcfg) : T :=
    sub (lc_EPD c) (if ltb_ (lc_EPL c) (lc_minpos c) then lc_EPL c else lc_minpos c).

  (** _get_ray_origins; [vx' vy'] are 1 - vignetting factor.  None = the code raises *)
  Definition ray_origins (c : launchcfg) (Hx Hy Px Py vx' vy' : T) : option (T * T * T) :=
    let field_x := mul (lc_maxfield c) Hx in
    let field_y := mul (lc_maxfield c) Hy in
    if lc_infinite c then
      if lc_angle c then
        let offset := lc_offset c in
        let x := mul (tan_ (radians field_x)) (add offset (lc_EPL c)) in
        let y := mul (neg (tan_ (radians field_y))) (add offset (lc_EPL c)) in
        let z := sub (lc_pos1 c) offset in
        Some (add (mul (div (mul Px (lc_EPD c)) (ofZ 2)) vx') x,
              add (mul (div (mul Py (lc_EPD c)) (ofZ 2)) vy') y, z)
      else None
    else
      if lc_angle c then
        let z := lc_pos0 c in
        Some (mul (tan_ (radians field_x)) (sub (lc_EPL c) z),
              mul (neg (tan_ (radians field_y))) (sub (lc_EPL c) z), z)
      else Some (field_x, field_y, lc_objz c).

  (** generate_rays: aim at the entrance-pupil point, unit direction, intensity 1, path 0 *)
  Definition launch (c : launchcfg) (w Hx Hy Px Py vx vy : T) : option (ray O) :=
    let vx' := sub (ofZ 1) vx in
    let vy' := sub (ofZ 1) vy in
    match ray_origins c Hx Hy Px Py vx' vy' with
    | None => None
    | Some (x0, y0, z0) =>
        let x1 := div (mul (mul Px (lc_EPD c)) vx') (ofZ 2) in
        let y1 := div (mul (mul Py (lc_EPD c)) vy') (ofZ 2) in
        let z1 := lc_EPL c in
        let dx := sub x1 x0 in let dy := sub y1 y0 in let dz := sub z1 z0 in
        let mag := sqrt_ (add (add (mul dx dx) (mul dy dy)) (mul dz dz)) in
        Some (mkRay x0 y0 z0 (div dx mag) (div dy mag) (div dz mag) (ofZ 1) w (ofZ 0))
    end.

  (** Optic.trace_generic / Optic.trace: the pupil coordinate handed to the generator *)
  Definition scaled (p v : T) : T := mul p (sub (ofZ 1) v).

  (** ** One field, one wavelength *)
  Record wfcfg := mkWC {
    w_ftype : string;        (* optic.field_type *)
    w_maxfield : T;          (* fields.max_field *)
    w_EPD : T                (* paraxial.EPD() *)
  }.

  (** indices of the end media at the wavelength of the trace: object_surface.material_post.n(w) is the
      index in front of the first surface, image_surface.material_pre.n(w) the one in front of the last *)
  Definition n_object (ss : list (surf O)) : T := match ss with s :: _ => s_n1 s | [] => ofZ 1 end.
  Definition n_image (ss : list (surf O)) : T := match rev ss with s :: _ => s_n1 s | [] => ofZ 1 end.

  (** the column of one ray in the (surfaces, rays) record arrays: the object surface records the launch *)
  Definition col (f : ray O -> T) (l0 : ray O) (recs : list (ray O)) : list T := map f (l0 :: recs).

  (** _trace_chief_ray + _get_reference_sphere + _get_path_length + _correct_tilt(x=0, y=0) *)
  Definition chief_ref (ss : list (surf O)) (pupil_z : T) (c : wfcfg) (Hx Hy vx vy : T) (l0 : ray O)
    : option (T * T * T * T * T) :=
    match trace ss l0 with
    | None => None
    | Some recs =>
        match k_wf_ref_sphere O pupil_z (col rx l0 recs) 1%Z (col ry l0 recs) (col rz l0 recs) with
        | None => None
        | Some (xc, yc, zc, R) =>
            let p := k_wf_get_path_length O xc yc zc R (col ropd l0 recs) (n_image ss) (col rx l0 recs) (col ry l0 recs)
                       (col rz l0 recs) (col rL l0 recs) (col rM l0 recs) (col rN l0 recs) in
            let ref := k_wf_tilt_xy O p (ofZ 0) (ofZ 0) (w_ftype c) Hx Hy (w_maxfield c) vx vy (w_EPD c) (n_object ss) in
            Some (xc, yc, zc, R, ref)
        end
    end.

  (** one ray of the batch: trace, then _generate_field_data's arithmetic; (dx, dy) is the
      distribution point the ray is REPORTED at *)
  Definition sample (ss : list (surf O)) (c : wfcfg) (w Hx Hy vx vy : T) (ref : T * T * T * T * T)
             (l0 : ray O) (dx dy : T) : option (T * T) :=
    let '(xc, yc, zc, R, opd_ref) := ref in
    match trace ss l0 with
    | None => None
    | Some recs =>
        Some (k_wf_field_data O w opd_ref xc yc zc R (col ri l0 recs) (col ropd l0 recs) (n_image ss) (col rx l0 recs)
                (col ry l0 recs) (col rz l0 recs) (col rL l0 recs) (col rM l0 recs) (col rN l0 recs)
                (w_ftype c) Hx Hy (w_maxfield c) vx vy dx dy (w_EPD c) (n_object ss))
    end.

  Fixpoint sequence {A} (l : list (option A)) : option (list A) :=
    match l with
    | [] => Some []
    | None :: _ => None
    | Some a :: l' => match sequence l' with None => None | Some r => Some (a :: r) end
    end.

  (** the (opd, intensity) cell of Wavefront.data from explicit launch rays *)
  Definition field_data_from (ss : list (surf O)) (pupil_z : T) (c : wfcfg) (w Hx Hy vx vy : T)
             (chief : ray O) (batch : list (ray O * (T * T))) : option (list T * list T) :=
    match chief_ref ss pupil_z c Hx Hy vx vy chief with
    | None => None
    | Some ref =>
        match sequence (map (fun '(l0, (dx, dy)) => sample ss c w Hx Hy vx vy ref l0 dx dy) batch) with
        | None => None
        | Some cells => Some (map fst cells, map snd cells)
        end
    end.

  (** the same with the launch modelled: chief through trace_generic(Px = Py = 0), the batch through
      Optic.trace(distribution); both scale the pupil point by (1 - v) before the generator does *)
  Definition field_data (ss : list (surf O)) (pupil_z : T) (c : wfcfg) (lc : launchcfg) (w Hx Hy vx vy : T)
             (dist : list (T * T)) : option (list T * list T) :=
    match launch lc w Hx Hy (scaled (ofZ 0) vx) (scaled (ofZ 0) vy) vx vy with
    | None => None
    | Some chief =>
        match sequence (map (fun '(dx, dy) =>
                               match launch lc w Hx Hy (scaled dx vx) (scaled dy vy) vx vy with
                               | None => None | Some l0 => Some (l0, (dx, dy)) end) dist) with
        | None => None
        | Some batch => field_data_from ss pupil_z c w Hx Hy vx vy chief batch
        end
    end.

  (** pupil_z = paraxial.XPL() + positions[-1]  (at the primary wavelength) *)
  Definition pupil_z_of (ps : list (psurf O)) : T :=
    add (XPL ps) (pos ps (List.length ps - 1)).

  (** the launch configuration read off the prescription (positions = vertex z of every surface) *)
  Definition minpos (ps : list (psurf O)) : T :=
    match removelast (tl ps) with
    | [] => nan_
    | s :: r => fold_left (fun m s' => if ltb_ (p_z s') m then p_z s' else m) r (p_z s)
    end.
  Definition lc_of (ps : list (psurf O)) (ap : aptype) (apv : T) (angle : bool) (maxfield : T) : launchcfg :=
    mkLC (isinf_ (pos ps 0)) angle maxfield (EPD ps ap apv) (EPL ps) (pos ps 0) (pos ps 1) (minpos ps) (pos ps 0).
  Definition wc_of (ps : list (psurf O)) (ap : aptype) (apv : T) (angle : bool) (maxfield : T) : wfcfg :=
    mkWC (if angle then "angle" else "object_height")%string maxfield (EPD ps ap apv).

  (** Wavefront._generate_data: fields x wavelengths; [lens w] are the surfaces with the indices at w *)
  Record fieldspec := mkFS { f_Hx : T; f_Hy : T; f_vx : T; f_vy : T }.
  Definition generate_data (lens : T -> list (surf O)) (ps : list (psurf O)) (c : wfcfg) (lc : launchcfg)
             (fields : list fieldspec) (wls : list T) (dist : list (T * T)) : option (wfdata (O:=O)) :=
    let pz := pupil_z_of ps in
    sequence (map (fun f =>
      sequence (map (fun w => field_data (lens w) pz c lc w (f_Hx f) (f_Hy f) (f_vx f) (f_vy f) dist) wls))
      fields).

  (** ** Derived quantities *)
  (** OPDFan.view: with the cross distribution of [n] points per arm, wy = data[:n], wx = data[n:] *)
  Definition fan_y (n : nat) (opd : list T) : list T := firstn n opd.
  Definition fan_x (n : nat) (opd : list T) : list T := skipn n opd.

  (** np.linspace(a, b, n) (n >= 2: a + i*(b-a)/(n-1); n = 1: [a]) *)
  Definition linspace (a b : T) (n : nat) : list T :=
    match n with
    | 0%nat => []
    | 1%nat => [a]
    | _ => let step := div (sub b a) (ofZ (Z.of_nat (n - 1))) in
           map (fun i => add a (mul (ofZ (Z.of_nat i)) step)) (seq 0 n)
    end.
  (** CrossDistribution.generate_points(n): the y arm first, then the x arm *)
  Definition cross (n : nat) : list (T * T) :=
    map (fun v => (ofZ 0, v)) (linspace (neg (ofZ 1)) (ofZ 1) n) ++
    map (fun v => (v, ofZ 0)) (linspace (neg (ofZ 1)) (ofZ 1) n).

  (** RmsWavefrontErrorVsField: fields (0, Hy), Hy in linspace(0, 1, num_fields) *)
  Definition rms_fields (n : nat) : list (T * T) := map (fun h => (ofZ 0, h)) (linspace (ofZ 0) (ofZ 1) n).

  (** RayOperand.OPD_difference: delta = (d - mean d) * weights; mean |delta|.
      [weights] is one number per sample (the scalar 1.0 broadcasts) *)
  Definition opd_difference (opd weights : list T) : T :=
    let m := mean_list opd in
    mean_list (map (fun '(d, wt) => abs_ (mul (sub d m) wt)) (combine opd weights)).
End M.

Arguments launchcfg : clear implicits.
Arguments wfcfg : clear implicits.
Arguments fieldspec : clear implicits.

(** * M_C15: hand model of optiland/tolerancing (state machine on top of Variable get/set)

    Correspondence to the code (checked on every run by tools/props/C15.py, system_checks):

    - [sample]              perturbation.py  ScalarSampler/RangeSampler/DistributionSampler.sample
                            (Scalar and Range are the *translated* kernels of Gen/TolC15.v;
                             the distribution sampler draws from the global NumPy stream = section variable [draw])
    - [mk_dist]             DistributionSampler.__init__ : a seed re-seeds the *global* stream
    - [mkvar]               Variable.__init__  (initial_value := value at construction)
    - [reset_vars]/[treset] Variable.reset, Perturbation.reset, Tolerancing.reset (perturbations first, then compensators,
                            then Optic.update())
    - [apply_pert]          Perturbation.apply
    - [fun_call]/[compensate] OptimizerGeneric._fun / _apply_solution (update every variable, then Optic.update()) folded
                            over the sequence of points at which scipy evaluates the objective followed by the returned
                            solution that optimize() sets explicitly (the trace [tr] is an arbitrary input: nothing is
                            assumed about the optimiser, the lens is left at the last point of the trace)
    - [trial]/[run]         loop bodies of SensitivityAnalysis.run / MonteCarlo.run
    - [sens_run]            SensitivityAnalysis.run (final reset);  [mc_run] MonteCarlo.run (NO final reset, as in the code)
    - concrete lens [clens], [raw_get]/[raw_set], [cget]/[cset] : optic.set_radius/set_conic/set_thickness/set_index/
                            set_asphere_coeff, Tilt/Decenter variables, surface_group.radii/conic/get_thickness, Optic.n,
                            scaling through the translated scale/inverse_scale kernels; [cupd] = PickupManager.apply
                            (solves are not modelled). *)
From Coq Require Import ZArith List Bool.
From OV Require Import Ops Gen.TolC15.
Import ListNotations.
Set Implicit Arguments.

Section Machine.
  Context {O : Ops}.
  Notation T := (T O).

  (** ** Abstract machine: any lens type with variable handles *)
  Variable L : Type.                      (* lens state *)
  Variable X : Type.                      (* variable handle (behaviour object: type, surface, scaling flag ...) *)
  Variable vget : L -> X -> T.            (* Variable.value *)
  Variable vset : L -> X -> T -> L.       (* Variable.update *)
  Variable upd : L -> L.                  (* Optic.update(): pickups (and solves) *)
  Variable ev : L -> list T.              (* [op.value for op in operands]; entries may be NaN *)
  Variable G : Type.                      (* state of the global NumPy random stream *)
  Variable D : Type.                      (* distribution name + parameters *)
  Variable draw : G -> D -> option (T * G).   (* None: unknown distribution -> ValueError *)
  Variable seed_state : Z -> G.           (* np.random.seed(z) *)

  Record var := mkVar { vx : X; vinit : T }.
  Definition mkvar (l : L) (x : X) : var := mkVar x (vget l x).

  Inductive sampler := SScalar (v : T) | SRange (vals : list T) (idx : Z) | SDist (d : D).

  Definition mk_dist (g : G) (seed : option Z) (d : D) : sampler * G :=
    (SDist d, match seed with Some z => seed_state z | None => g end).

  Definition sample (g : G) (s : sampler) : option (T * sampler * G) :=
    match s with
    | SScalar v => Some (k_c15_scalar_sample O v, s, g)
    | SRange vals idx => let '(v, i') := k_c15_range_sample O idx vals in Some (v, SRange vals i', g)
    | SDist d => match draw g d with Some (v, g') => Some (v, s, g') | None => None end
    end.

  Definition is_range (s : sampler) : bool := match s with SRange _ _ => true | _ => false end.
  Definition sampler_size (s : sampler) : nat :=
    match s with SRange vals _ => length vals | _ => 1%nat end.

  Record st := mkSt { lens : L; sams : list sampler; rng : G }.

  Variable pv : list var.                 (* perturbation variables (apply_scaling = False handles) *)
  Variable cv : list var.                 (* compensator variables *)

  Definition reset_vars (vs : list var) (l : L) : L :=
    fold_left (fun l v => vset l (vx v) (vinit v)) vs l.
  (** Tolerancing.reset: perturbations, then compensators, then Optic.update() (pickups and solves re-applied) *)
  Definition treset (l : L) : L := upd (reset_vars cv (reset_vars pv l)).

  Definition set_all (xs : list X) (x : list T) (l : L) : L :=
    fold_left (fun l p => vset l (fst p) (snd p)) (combine xs x) l.
  Definition fun_call (l : L) (x : list T) : L := upd (set_all (map vx cv) x l).
  Definition compensate (tr : list (list T)) (l : L) : L :=
    match cv with [] => l | _ => fold_left fun_call tr l end.
  Definition comp_values (l : L) : list T := map (fun v => vget l (vx v)) cv.

  Definition apply_pert (j : nat) (s : st) : option (st * T) :=
    match nth_error pv j, nth_error (sams s) j with
    | Some v, Some sm =>
        match sample (rng s) sm with
        | Some (x, sm', g') => Some (mkSt (vset (lens s) (vx v) x) (set_nth (sams s) j sm') g', x)
        | None => None
        end
    | _, _ => None
    end.

  Fixpoint apply_perts (which : list nat) (s : st) : option (st * list T) :=
    match which with
    | [] => Some (s, [])
    | j :: w' => match apply_pert j s with
                 | Some (s1, x) => match apply_perts w' s1 with
                                   | Some (s2, xs) => Some (s2, x :: xs)
                                   | None => None end
                 | None => None end
    end.

  Record row := mkRow { r_which : list nat; r_pert : list T; r_ops : list T; r_comp : list T }.

  (** one loop iteration: reset, apply, compensate, evaluate, record *)
  Definition trial (which : list nat) (tr : list (list T)) (s : st) : option (st * row) :=
    let s0 := mkSt (treset (lens s)) (sams s) (rng s) in
    match apply_perts which s0 with
    | Some (s1, xs) =>
        let l2 := compensate tr (lens s1) in
        Some (mkSt l2 (sams s1) (rng s1),
              mkRow which xs (ev l2) (match cv with [] => [] | _ => comp_values l2 end))
    | None => None
    end.

  Fixpoint run (plan : list (list nat * list (list T))) (s : st) : option (st * list row) :=
    match plan with
    | [] => Some (s, [])
    | (which, tr) :: plan' =>
        match trial which tr s with
        | Some (s1, r) => match run plan' s1 with
                          | Some (s2, rs) => Some (s2, r :: rs)
                          | None => None end
        | None => None end
    end.

  (** SensitivityAnalysis.run: perturbation j is applied alone, sampler.size times; then a final reset *)
  Definition sens_which (ss : list sampler) : list (list nat) :=
    flat_map (fun p => repeat [fst p] (sampler_size (snd p))) (combine (seq 0 (length ss)) ss).
  Definition sens_run (traces : list (list (list T))) (s : st) : option (st * list row) :=
    if forallb is_range (sams s) then
      match run (combine (sens_which (sams s)) traces) s with
      | Some (s1, rs) => Some (mkSt (treset (lens s1)) (sams s1) (rng s1), rs)
      | None => None end
    else None.
  (** MonteCarlo.run(n): all perturbations applied in order, n trials, and no final reset *)
  Definition mc_run (traces : list (list (list T))) (s : st) : option (st * list row) :=
    run (map (fun tr => (seq 0 (length pv), tr)) traces) s.
  (** the repaired MonteCarlo.run (proposed fix): final reset *)
  Definition mc_run_fixed (traces : list (list (list T))) (s : st) : option (st * list row) :=
    match mc_run traces s with
    | Some (s1, rs) => Some (mkSt (treset (lens s1)) (sams s1) (rng s1), rs)
    | None => None end.

  (** specification-side function: the lens obtained from the NOMINAL lens by applying the recorded values
      and the same compensation trace (no history) *)
  Fixpoint set_which (which : list nat) (xs : list T) (l : L) : L :=
    match which, xs with
    | j :: w', x :: xs' => match nth_error pv j with
                           | Some v => set_which w' xs' (vset l (vx v) x)
                           | None => l end
    | _, _ => l
    end.
  Definition fresh_lens (l0 : L) (which : list nat) (xs : list T) (tr : list (list T)) : L :=
    compensate tr (set_which which xs l0).
End Machine.

(** ** Concrete lens (what the variables of optiland touch) *)
Section Concrete.
  Context {O : Ops}.
  Notation T := (T O).

  Inductive gk := GPlane | GStd | GOther.            (* Plane / StandardGeometry / any other geometry class *)
  Inductive medium := MIdeal (n k : T) | MGlass (id : nat).   (* IdealMaterial / catalogue Material #id *)
  Record surf := mkS { s_kind : gk; s_rad : T; s_con : T; s_z : T; s_dx : T; s_dy : T; s_rx : T; s_ry : T;
                       s_cf : list T; s_med : medium;
                       s_c2 : list (list T) }.           (* 2-D coefficient array of a polynomial / Chebyshev freeform *)
  Inductive pk := PRadius | PConic | PThick.
  Record pickup := mkP { p_src : Z; p_attr : pk; p_tgt : Z; p_scale : T; p_off : T }.
  Record clens := mkL { surfs : list surf; pickups : list pickup }.

  Variable glass_n : nat -> T -> T.                  (* Material.n(wavelength) of catalogue glass #id *)

  Inductive hk := HRadius | HConic | HThick | HIndex | HAsph | HTiltX | HTiltY | HDecX | HDecY | HPoly.
  Record handle := mkH { h_kind : hk; h_surf : Z; h_j : Z; h_w : T; h_scaled : bool; h_j2 : Z }.   (* coeff_index = (h_j, h_j2) *)

  Definition dsurf : surf := mkS GPlane nan_ nan_ nan_ nan_ nan_ nan_ nan_ [] (MIdeal nan_ nan_) [].
  Definition nthS (l : list surf) (i : Z) : surf := match nthZ l i with Some s => s | None => dsurf end.
  Definition updS (l : list surf) (i : Z) (f : surf -> surf) : list surf :=
    match nthZ l i with
    | Some s => let n := Z.of_nat (length l) in
                set_nth l (Z.to_nat (if (i <? 0)%Z then (n + i)%Z else i)) (f s)
    | None => l end.

  Definition positions (l : list surf) : list T := map s_z l.
  (** Optic.set_thickness *)
  Definition set_thickness_pos (pos : list T) (v : T) (k : Z) : list T :=
    let delta := add (sub v (getZ pos (k + 1))) (getZ pos k) in
    let pos1 := map (fun p => if (k + 1 <=? fst p)%Z then add (snd p) delta else snd p) (enumZ pos) in
    let p1 := getZ pos1 1 in
    map (fun p => sub p p1) pos1.
  Definition put_positions (l : list surf) (pos : list T) : list surf :=
    map (fun p => let s := fst p in
                  mkS (s_kind s) (s_rad s) (s_con s) (snd p) (s_dx s) (s_dy s) (s_rx s) (s_ry s) (s_cf s) (s_med s) (s_c2 s))
        (combine l pos).

  (** Optic.set_radius: a flat surface stays a Plane for an infinite radius and becomes a StandardGeometry (keeping a conic
      given to it) otherwise; a StandardGeometry goes back to a Plane (radius attribute inf, conic kept) for an infinite
      radius; every other geometry class just stores the radius *)
  Definition set_rad (v : T) (s : surf) : surf :=
    match s_kind s with
    | GPlane => if isinf_ v then s
                else mkS GStd v (s_con s) (s_z s) (s_dx s) (s_dy s) (s_rx s) (s_ry s) (s_cf s) (s_med s) (s_c2 s)
    | GStd => if isinf_ v then mkS GPlane inf_ (s_con s) (s_z s) (s_dx s) (s_dy s) (s_rx s) (s_ry s) (s_cf s) (s_med s) (s_c2 s)
              else mkS GStd v (s_con s) (s_z s) (s_dx s) (s_dy s) (s_rx s) (s_ry s) (s_cf s) (s_med s) (s_c2 s)
    | GOther => mkS GOther v (s_con s) (s_z s) (s_dx s) (s_dy s) (s_rx s) (s_ry s) (s_cf s) (s_med s) (s_c2 s)
    end.
  Definition set_con (v : T) (s : surf) : surf :=
    mkS (s_kind s) (s_rad s) v (s_z s) (s_dx s) (s_dy s) (s_rx s) (s_ry s) (s_cf s) (s_med s) (s_c2 s).
  Definition set_med (m : medium) (s : surf) : surf :=
    mkS (s_kind s) (s_rad s) (s_con s) (s_z s) (s_dx s) (s_dy s) (s_rx s) (s_ry s) (s_cf s) m (s_c2 s).
  Definition set_cf (c : list T) (s : surf) : surf :=
    mkS (s_kind s) (s_rad s) (s_con s) (s_z s) (s_dx s) (s_dy s) (s_rx s) (s_ry s) c (s_med s) (s_c2 s).
  Definition set_dx (v : T) (s : surf) : surf :=
    mkS (s_kind s) (s_rad s) (s_con s) (s_z s) v (s_dy s) (s_rx s) (s_ry s) (s_cf s) (s_med s) (s_c2 s).
  Definition set_dy (v : T) (s : surf) : surf :=
    mkS (s_kind s) (s_rad s) (s_con s) (s_z s) (s_dx s) v (s_rx s) (s_ry s) (s_cf s) (s_med s) (s_c2 s).
  Definition set_rx (v : T) (s : surf) : surf :=
    mkS (s_kind s) (s_rad s) (s_con s) (s_z s) (s_dx s) (s_dy s) v (s_ry s) (s_cf s) (s_med s) (s_c2 s).
  Definition set_ry (v : T) (s : surf) : surf :=
    mkS (s_kind s) (s_rad s) (s_con s) (s_z s) (s_dx s) (s_dy s) (s_rx s) v (s_cf s) (s_med s) (s_c2 s).

  Definition set_c2 (c : list (list T)) (s : surf) : surf :=
    mkS (s_kind s) (s_rad s) (s_con s) (s_z s) (s_dx s) (s_dy s) (s_rx s) (s_ry s) (s_cf s) (s_med s) c.

  (** ** freeform coefficient arrays (PolynomialCoeffVariable / ChebyshevCoeffVariable)
      c[i][j] multiplies the monomial (i, j); entries that are not stored are zero.  A write outside the stored array
      grows it with zeros (np.pad): every stored coefficient keeps its (i, j). *)
  Fixpoint upd_pad {A} (d : A) (l : list A) (n : nat) (f : A -> A) : list A :=
    match n, l with
    | 0%nat, [] => [f d]
    | 0%nat, x :: l' => f x :: l'
    | S n', [] => d :: upd_pad d [] n' f
    | S n', x :: l' => x :: upd_pad d l' n' f
    end.
  Definition cget2 (c : list (list T)) (a b : nat) : T := nth b (nth a c []) (ofZ 0).
  Definition cset2 (c : list (list T)) (i j : nat) (v : T) : list (list T) :=
    upd_pad [] c i (fun row => upd_pad (ofZ 0) row j (fun _ => v)).
  (** all coefficients over a fixed R x C window (what the correspondence check compares: independent of how far the
      stored array has been zero-padded, which optiland also does on a READ outside the array) *)
  Definition c2_window (rc : nat * nat) (c : list (list T)) : list T :=
    flat_map (fun a => map (fun b => cget2 c a b) (seq 0 (snd rc))) (seq 0 (fst rc)).

  Definition med_n (m : medium) (w : T) : T :=
    match m with MIdeal n _ => n | MGlass id => glass_n id w end.

  (** unscaled read / write of one coordinate *)
  Definition raw_get (l : list surf) (k : hk) (i j : Z) (w : T) (j2 : Z) : T :=
    match k with
    | HRadius => s_rad (nthS l i)
    | HConic => s_con (nthS l i)
    | HThick => k_c15_get_thickness O i (positions l)
    | HIndex => med_n (s_med (nthS l i)) w
    | HAsph => getZ (s_cf (nthS l i)) j
    | HTiltX => s_rx (nthS l i)
    | HTiltY => s_ry (nthS l i)
    | HDecX => s_dx (nthS l i)
    | HDecY => s_dy (nthS l i)
    | HPoly => cget2 (s_c2 (nthS l i)) (Z.to_nat j) (Z.to_nat j2)
    end.
  Definition raw_set (l : list surf) (k : hk) (i j : Z) (v : T) (j2 : Z) : list surf :=
    match k with
    | HRadius => updS l i (set_rad v)
    | HConic => updS l i (set_con v)
    | HThick => put_positions l (set_thickness_pos (positions l) v i)
    | HIndex => updS l i (set_med (MIdeal v (ofZ 0)))
    | HAsph => updS l i (fun s => set_cf (setZ (s_cf s) j v) s)
    | HTiltX => updS l i (set_rx v)
    | HTiltY => updS l i (set_ry v)
    | HDecX => updS l i (set_dx v)
    | HDecY => updS l i (set_dy v)
    | HPoly => updS l i (fun s => set_c2 (cset2 (s_c2 s) (Z.to_nat j) (Z.to_nat j2) v) s)
    end.

  (** the behaviour classes' scale / inverse_scale (translated kernels); ConicVariable.get_value/update_value do not
      scale at all, tilt and decenter scale by the identity *)
  Definition scale_of (k : hk) (j : Z) (v : T) : T :=
    match k with
    | HRadius => k_c15_radius_scale O v
    | HThick => k_c15_thickness_scale O v
    | HIndex => k_c15_index_scale O v
    | HAsph => k_c15_asphere_scale O v j
    | HConic => v
    | HTiltX | HTiltY => k_c15_tilt_scale O v
    | HDecX | HDecY => k_c15_decenter_scale O v
    | HPoly => k_c15_poly_scale O v
    end.
  Definition inverse_scale_of (k : hk) (j : Z) (v : T) : T :=
    match k with
    | HRadius => k_c15_radius_inverse_scale O v
    | HThick => k_c15_thickness_inverse_scale O v
    | HIndex => k_c15_index_inverse_scale O v
    | HAsph => k_c15_asphere_inverse_scale O v j
    | HConic => v
    | HTiltX | HTiltY => k_c15_tilt_inverse_scale O v
    | HDecX | HDecY => k_c15_decenter_inverse_scale O v
    | HPoly => k_c15_poly_inverse_scale O v
    end.

  Definition cget (l : clens) (h : handle) : T :=
    let v := raw_get (surfs l) (h_kind h) (h_surf h) (h_j h) (h_w h) (h_j2 h) in
    if h_scaled h then scale_of (h_kind h) (h_j h) v else v.
  Definition cset (l : clens) (h : handle) (v : T) : clens :=
    let v' := if h_scaled h then inverse_scale_of (h_kind h) (h_j h) v else v in
    mkL (raw_set (surfs l) (h_kind h) (h_surf h) (h_j h) v' (h_j2 h)) (pickups l).

  (** PickupManager.apply : each pickup in list order *)
  Definition pickup_apply (ss : list surf) (p : pickup) : list surf :=
    let k := match p_attr p with PRadius => HRadius | PConic => HConic | PThick => HThick end in
    let old := raw_get ss k (p_src p) 0%Z nan_ 0%Z in
    raw_set ss k (p_tgt p) 0%Z (add (mul (p_scale p) old) (p_off p)) 0%Z.
  Definition cupd (l : clens) : clens := mkL (fold_left pickup_apply (pickups l) (surfs l)) (pickups l).

  (** flat prescription vector used by the correspondence check *)
  Definition kind_code (k : gk) : T := match k with GPlane => ofZ 0 | GStd => ofZ 1 | GOther => ofZ 2 end.
  Definition surf_vec (ws : list T) (rc : nat * nat) (s : surf) : list T :=
    [kind_code (s_kind s); s_rad s; s_con s; s_z s; s_dx s; s_dy s; s_rx s; s_ry s]
      ++ s_cf s ++ c2_window rc (s_c2 s)
      ++ (match s_med s with MIdeal _ _ => ofZ 0 | MGlass _ => ofZ 1 end :: map (med_n (s_med s)) ws).
  Definition lens_vec (ws : list T) (rc : nat * nat) (l : clens) : list T := flat_map (surf_vec ws rc) (surfs l).

  (** np.linspace(start, end, steps) (steps >= 2): start + i*step, last sample forced to end *)
  Definition linspace_ (a b : T) (n : Z) : list T :=
    let step := div (sub b a) (ofZ (n - 1)) in
    map (fun i => if (i =? n - 1)%Z then b else add a (mul (ofZ i) step)) (rangeZ 0 n).
End Concrete.

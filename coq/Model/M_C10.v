(** * M_C10: hand models of the glue of optiland/zernike.py that py2coq does not translate.

    - [std_indices], [noll_indices], [fringe_indices]: the three [_generate_indices] methods
      (nested [for n in range(N)] / [for m in range(-n, n+1)] / [if (n - m) % 2 == 0], the Noll [c]
      if-chain, the Fringe number, [sorted(zip(number, indices))], [[:120]]), over [Z];
    - [zk_terms], [zk_poly]: [ZernikeStandard.terms] / [poly] (the [try ... except IndexError: break]
      loop is [combine], which stops at the shorter of coeffs / indices), generic over [Ops];
    - [zk_objective]: [ZernikeFit._objective];
    - [radial_coefs]: the coefficient list (exponent, exact rational) accumulated by [_radial_term].
    They are tied to the code by tools/props/C10.py (exhaustive for the index lists: the methods
    have no inputs). *)
From Coq Require Import ZArith List Bool QArith.
From OV Require Import Ops.
Import ListNotations.
Local Open Scope Z_scope.

(** ** index generation *)
Definition valid_pairs (N : Z) : list (Z * Z) :=
  flat_map (fun n => flat_map (fun m => if (n - m) mod 2 =? 0 then [(n, m)] else [])
                              (rangeZ (- n) (n + 1)))
           (rangeZ 0 N).

(** ZernikeStandard._generate_indices: range(15) *)
Definition std_indices : list (Z * Z) := valid_pairs 15.

(** the Noll if-chain; the final [else] is unreachable ([noll_c_total] in L_C10_index) *)
Definition noll_c (n m : Z) : Z :=
  let md := n mod 4 in
  if (m >? 0) && (md <=? 1) then 0
  else if (m <? 0) && (md >=? 2) then 0
  else if (m >=? 0) && (md >=? 2) then 1
  else if (m <=? 0) && (md <=? 1) then 1
  else 0.
(** number.append(n * (n + 1) / 2 + np.abs(m) + c): n(n+1) is even, the float value is that integer *)
Definition noll_number (p : Z * Z) : Z := let '(n, m) := p in n * (n + 1) / 2 + Z.abs m + noll_c n m.

(** int((1 + (n + np.abs(m))/2)**2 - 2*np.abs(m) + (1 - np.sign(m))/2): an exact dyadic rational
    (denominator 4) truncated toward zero *)
Definition fringe_number (p : Z * Z) : Z :=
  let '(n, m) := p in
  Z.quot ((2 + n + Z.abs m) ^ 2 - 8 * Z.abs m + 2 * (1 - Z.sgn m)) 4.

(** sorted(zip(number, indices)): tuples compare lexicographically *)
Definition key_le (a b : Z * (Z * Z)) : bool :=
  let '(ka, (na, ma)) := a in let '(kb, (nb, mb)) := b in
  (ka <? kb) || ((ka =? kb) && ((na <? nb) || ((na =? nb) && (ma <=? mb)))).
Fixpoint insert_key (x : Z * (Z * Z)) (l : list (Z * (Z * Z))) : list (Z * (Z * Z)) :=
  match l with
  | [] => [x]
  | y :: l' => if key_le x y then x :: y :: l' else y :: insert_key x l'
  end.
Definition sort_keys (l : list (Z * (Z * Z))) : list (Z * (Z * Z)) := fold_right insert_key [] l.
Definition sort_by (num : Z * Z -> Z) (l : list (Z * Z)) : list (Z * Z) :=
  map snd (sort_keys (map (fun p => (num p, p)) l)).

Definition noll_indices_N (N : Z) : list (Z * Z) := sort_by noll_number (valid_pairs N).
Definition fringe_sorted_N (N : Z) : list (Z * Z) := sort_by fringe_number (valid_pairs N).
(** ZernikeNoll._generate_indices: range(15), all 120 *)
Definition noll_indices : list (Z * Z) := noll_indices_N 15.
(** ZernikeFringe._generate_indices: range(20), first 120 of 210 *)
Definition fringe_indices : list (Z * Z) := firstn 120 (fringe_sorted_N 20).

(** ** terms / poly / objective, generic in the arithmetic and in the family's [get_term] *)
Section Poly.
  Context {O : Ops}.
  Variable term : T O -> Z -> Z -> T O -> T O -> T O.     (* get_term coeff n m r phi *)
  Definition zk_terms (coeffs : list (T O)) (indices : list (Z * Z)) (r phi : T O) : list (T O) :=
    map (fun ci => let '(c, (n, m)) := ci in term c n m r phi) (combine coeffs indices).
  Definition zk_poly coeffs indices r phi : T O := sum_list (zk_terms coeffs indices r phi).
  (** ZernikeFit: radius = sqrt(x**2 + y**2), phi = arctan2(y, x); _objective = poly - z *)
  Definition zk_polar (xy : T O * T O) : T O * T O :=
    let '(x, y) := xy in (sqrt_ (add (mul x x) (mul y y)), atan2_ y x).
  Definition zk_objective coeffs indices (pts : list (T O * T O)) (z : list (T O)) : list (T O) :=
    map (fun pz => let '((r, phi), zi) := pz in sub (zk_poly coeffs indices r phi) zi) (combine pts z).
End Poly.

(** ** radial polynomial as a coefficient list (exponent, exact rational coefficient) *)
Definition factZ (k : Z) : Z := fold_left Z.mul (rangeZ 1 (k + 1)) 1.
Definition radial_num (n m k : Z) : Z := (-1) ^ k * factZ (n - k).
Definition radial_den (n m k : Z) : Z :=
  factZ k * factZ (Z.quot ((n + m) - k * 2) 2) * factZ (Z.quot ((n - m) - k * 2) 2).
Definition radial_smax (n m : Z) : Z := Z.quot ((n - Z.abs m) + 2) 2.
Definition radial_coefs (n m : Z) : list (Z * Q) :=
  map (fun k => (n - 2 * k, Qred (inject_Z (radial_num n m k) / inject_Z (radial_den n m k))%Q))
      (rangeZ 0 (radial_smax n m)).

(** exact evaluation and the exact radial inner product ([Qred] only normalises the fraction)  int_0^1 p(r) q(r) r dr  using
    int_0^1 r^e r dr = 1/(e+2) termwise *)
Definition qpow (r : Q) (e : Z) : Q := Qpower r e.
Definition eval_Q (p : list (Z * Q)) (r : Q) : Q :=
  fold_left (fun acc ec => (acc + snd ec * qpow r (fst ec))%Q) p 0%Q.
Definition inner_Q (p q : list (Z * Q)) : Q :=
  fold_left (fun acc ec =>
    fold_left (fun acc' ec' => Qred (acc' + snd ec * snd ec' / inject_Z (fst ec + fst ec' + 2))%Q) q acc) p 0%Q.

(** squared normalisation constants as exact rationals (np.sqrt of these in the code) *)
Definition norm2_std (n m : Z) : Q := (inject_Z (2 * n + 2) / inject_Z (1 + (if m =? 0 then 1 else 0)))%Q.
Definition norm2_noll (n m : Z) : Q := if m =? 0 then inject_Z (n + 1) else inject_Z (2 * n + 2).

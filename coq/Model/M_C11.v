(** * M_C11: executable hand model of optiland/psf.py (FFTPSF) and optiland/mtf.py (FFTMTF,
    GeometricMTF), generic over the arithmetic signature [Ops].

    What is modelled by hand (NumPy array plumbing the translator does not cover):
    - [FFTPSF._generate_pupils]  : [gen_pupil]  (mask fill, amplitude = I/mean(I), exp(2 pi i opd))
    - [FFTPSF._pad_pupils]       : [pad_of], [padded_size], [pad2]
    - [FFTPSF._get_normalization]: [norm_nnz] (as written: count of non-zero samples) and
                                   [norm_abs] (the proposed repair: transform of |P|)
    - [FFTPSF._compute_psf]      : [psf_at], [psf_rows]   (np.fft.fft2 = direct double sum [dft2],
                                   np.fft.fftshift = index rotation by N/2)
    - [FFTMTF._generate_mtf_data]: [mtf_tan], [mtf_sag]
    - [GeometricMTF._generate_mtf_data] scale factor: [difflim]
    - [GeometricMTF._compute_field_data]: [geo_mtf]  (np.histogram is an input)
    The scalar kernels ([strehl_ratio], [_get_psf_units], [_get_mtf_units], [_get_fno]) are translated
    by py2coq (Gen/PsfMtf.v).  Correspondence with the real code: tools/props/C11.py. *)
From Coq Require Import ZArith List Bool.
From OV Require Import Ops.
Import ListNotations.

Section M.
  Context {O : Ops}.
  Notation T := (T O).

  Definition C := (T * T)%type.
  Definition c0 : C := (ofZ 0, ofZ 0).
  Definition cadd (a b : C) : C := (add (fst a) (fst b), add (snd a) (snd b)).
  Definition cmul (a b : C) : C :=
    (sub (mul (fst a) (fst b)) (mul (snd a) (snd b)), add (mul (fst a) (snd b)) (mul (snd a) (fst b))).
  Definition cconj (a : C) : C := (fst a, neg (snd a)).
  Definition cn2 (a : C) : T := add (mul (fst a) (fst a)) (mul (snd a) (snd a)).
  Definition cabs (a : C) : T := sqrt_ (cn2 a).
  Definition ofR (x : T) : C := (x, ofZ 0).
  Definition cnz (a : C) : bool := negb (eqb_ (fst a) (ofZ 0)) || negb (eqb_ (snd a) (ofZ 0)).

  Fixpoint csum (f : nat -> C) (n : nat) : C :=
    match n with 0%nat => c0 | S n' => cadd (csum f n') (f n') end.
  Fixpoint rsum (f : nat -> T) (n : nat) : T :=
    match n with 0%nat => ofZ 0 | S n' => add (rsum f n') (f n') end.
  (** running maximum as np.max computes it (no NaN handling needed: inputs are finite) *)
  Fixpoint rmax (f : nat -> T) (n : nat) : T :=
    match n with
    | 0%nat => neg inf_
    | S n' => let m := rmax f n' in if ltb_ m (f n') then f n' else m
    end.

  Definition ofN (n : nat) : T := ofZ (Z.of_nat n).
  Definition two_pi : T := mul (ofZ 2) pi_.

  (** forward DFT kernel exp(-2 pi i j / N) *)
  Definition tw (N j : nat) : C :=
    let t := div (mul two_pi (ofN j)) (ofN N) in (cos_ t, neg (sin_ t)).
  (** np.fft.fft2 of an N x N array given by its accessor *)
  Definition dft2 (N : nat) (x : nat -> nat -> C) (k l : nat) : C :=
    csum (fun m => csum (fun n => cmul (x m n) (cmul (tw N (k * m)) (tw N (l * n)))) N) N.
  (** np.fft.fftshift: out[i] = in[(i - N/2) mod N] *)
  Definition unshift (N i : nat) : nat := ((i + N - N / 2) mod N)%nat.

  Definition get2 (x : list (list C)) (m n : nat) : C := nth n (nth m x []) c0.
  Definition rget2 (x : list (list T)) (m n : nat) : T := nth n (nth m x []) (ofZ 0).

  (** ** _generate_pupils *)
  (** one in-disk sample: amplitude * exp(1j * 2 * pi * opd) *)
  Definition pupil_entry (a opd : T) : C :=
    let t := mul two_pi opd in (mul a (cos_ t), mul a (sin_ t)).
  (** the mask of psf.py: sqrt(x^2 + y^2) <= 1 *)
  Definition mask_psf (x y : T) : bool := leb_ (sqrt_ (add (mul x x) (mul y y))) (ofZ 1).
  (** the mask of distribution.py (which decides how many rays are traced): x^2 + y^2 <= 1 *)
  Definition mask_dist (x y : T) : bool := leb_ (add (mul x x) (mul y y)) (ofZ 1).
  (** meshgrid + ravel: row-major, y = xs[i] along rows, x = xs[j] along columns *)
  Definition mask_list (mk : T -> T -> bool) (xs : list T) : list bool :=
    flat_map (fun y => map (fun x => mk x y) xs) xs.
  Definition count_true (l : list bool) : nat := length (filter (fun b => b) l).
  (** P[mask] = values: the values are consumed in row-major order *)
  Fixpoint fill (mask : list bool) (vals : list C) : list C :=
    match mask with
    | [] => []
    | false :: m' => c0 :: fill m' vals
    | true :: m' => match vals with v :: vs => v :: fill m' vs | [] => c0 :: fill m' [] end
    end.
  Fixpoint chunk_aux {A} (fuel n : nat) (l : list A) : list (list A) :=
    match fuel with
    | 0%nat => []
    | S f' => match l with [] => [] | _ => firstn n l :: chunk_aux f' n (skipn n l) end
    end.
  Definition chunk {A} (n : nat) (l : list A) : list (list A) := chunk_aux (length l) n l.
  Definition mean (l : list T) : T := div (rsum (fun i => nth i l (ofZ 0)) (length l)) (ofN (length l)).
  (** None models the ValueError NumPy raises when the mask and the data disagree in length *)
  Definition gen_pupil_m (mk : T -> T -> bool) (xs opd inten : list T) : option (list (list C)) :=
    let mask := mask_list mk xs in
    if negb (Nat.eqb (count_true mask) (length opd)) || negb (Nat.eqb (length opd) (length inten)) then None else
    let mu := mean inten in
    let vals := map (fun '(w, i) => pupil_entry (div i mu) w) (combine opd inten) in
    Some (chunk (length xs) (fill mask vals)).
  Definition gen_pupil := gen_pupil_m mask_psf.

  (** ** _pad_pupils *)
  Definition pad_of (grid n : Z) : Z := ((grid - n) / 2)%Z.
  Definition padded_size (grid n : Z) : Z := (n + 2 * pad_of grid n)%Z.
  (** [p] zero samples before and [q] after, on both axes *)
  Definition pad2g (p q : nat) (x : list (list C)) : list (list C) :=
    let n := length x in
    let zrow := repeat c0 (p + n + q) in
    repeat zrow p ++ map (fun r => repeat c0 p ++ r ++ repeat c0 q) x ++ repeat zrow q.
  (** as written: the same amount on both sides *)
  Definition pad2 (p : nat) := pad2g p p.

  (** ** _get_normalization (one wavelength) *)
  Definition max_sqmod (n : nat) (x : nat -> nat -> C) : T :=
    rmax (fun k => rmax (fun l => let a := dft2 n x k l in fst (cmul a (cconj a))) n) n.
  (** as written: P_nom[P_nom != 0] = 1 *)
  Definition norm_nnz (P : list (list C)) : T :=
    max_sqmod (length P) (fun m n => if cnz (get2 P m n) then ofR (ofZ 1) else c0).
  (** proposed repair: P_nom = |P| *)
  Definition norm_abs (P : list (list C)) : T :=
    max_sqmod (length P) (fun m n => ofR (cabs (get2 P m n))).

  (** ** _compute_psf : one pixel, and the whole image *)
  Definition raw_at (M : nat) (Pp : list (list C)) (i j : nat) : T :=
    let a := dft2 M (get2 Pp) (unshift M i) (unshift M j) in fst (cmul a (cconj a)).
  Definition psf_at (M : nat) (Pp : list (list C)) (norm : T) (i j : nat) : T :=
    mul (div (raw_at M Pp i j) norm) (ofZ 100).
  Definition raw_rows (Pp : list (list C)) : list (list T) :=
    let M := length Pp in
    map (fun i => map (fun j => raw_at M Pp i j) (seq 0 M)) (seq 0 M).
  Definition scale_rows (norm : T) (rows : list (list T)) : list (list T) :=
    map (map (fun v => mul (div v norm) (ofZ 100))) rows.
  Definition psf_rows (Pp : list (list C)) (norm : T) : list (list T) := scale_rows norm (raw_rows Pp).
  (** the pipeline FFTPSF.__init__ runs: pupils -> pad -> transform -> normalise.
      [fixed] selects the normaliser variant. *)
  Definition fftpsf (fixed : bool) (grid : Z) (xs opd inten : list T) : option (list (list T)) :=
    match gen_pupil xs opd inten with
    | None => None
    | Some P =>
      let p := pad_of grid (Z.of_nat (length xs)) in
      if (p <? 0)%Z then None else
      let Pp := pad2 (Z.to_nat p) P in
      Some (psf_rows Pp (if fixed then norm_abs P else norm_nnz P))
    end.
  (** The same pipeline under every combination of the three proposed repairs, sharing the transforms:
      index = 4*mask + 2*pad + norm, with mask 0 = sqrt(x^2+y^2)<=1 (as written) / 1 = x^2+y^2<=1,
      pad 0 = symmetric (as written) / 1 = exactly grid_size, norm 0 = non-zero count (as written) / 1 = |P|.
      The correspondence check accepts the code iff ONE index matches on every case. *)
  Definition psf_variants (grid : Z) (xs opd inten : list T) : list (option (list (list T))) :=
    let n := Z.of_nat (length xs) in
    let Pa := gen_pupil_m mask_psf xs opd inten in
    let same := forallb (fun '(a, b) => Bool.eqb a b) (combine (mask_list mask_psf xs) (mask_list mask_dist xs)) in
    let four := fun (P : option (list (list C))) =>
      match P with
      | None => [None; None; None; None]
      | Some P =>
        let p := pad_of grid n in
        let q := (grid - n - p)%Z in
        if (p <? 0)%Z then [None; None; None; None] else
        let nA := norm_nnz P in
        let nB := norm_abs P in
        let rS := raw_rows (pad2g (Z.to_nat p) (Z.to_nat p) P) in
        let rE := if (q =? p)%Z then rS else raw_rows (pad2g (Z.to_nat p) (Z.to_nat q) P) in
        [Some (scale_rows nA rS); Some (scale_rows nB rS); Some (scale_rows nA rE); Some (scale_rows nB rE)]
      end in
    let fa := four Pa in
    fa ++ (if same then fa else four (gen_pupil_m mask_dist xs opd inten)).

  (** ** FFTMTF._generate_mtf_data for one PSF image: data = |fftshift(fft2(psf))|,
      tangential = data[g/2:, g/2] / max, sagittal = data[g/2, g/2:] / max *)
  Definition otf_abs (M : nat) (psf : list (list T)) (i j : nat) : T :=
    cabs (dft2 M (fun m n => ofR (rget2 psf m n)) (unshift M i) (unshift M j)).
  Definition mtf_tan (g : nat) (psf : list (list T)) : list T :=
    let M := length psf in
    let c := (g / 2)%nat in
    let col := map (fun i => otf_abs M psf i c) (seq c (M - c)) in
    let mx := rmax (fun i => nth i col (ofZ 0)) (length col) in
    map (fun v => div v mx) col.
  Definition mtf_sag (g : nat) (psf : list (list T)) : list T :=
    let M := length psf in
    let c := (g / 2)%nat in
    let row := map (fun j => otf_abs M psf c j) (seq c (M - c)) in
    let mx := rmax (fun i => nth i row (ofZ 0)) (length row) in
    map (fun v => div v mx) row.

  (** ** diffraction-limited curve used by GeometricMTF (scale factor) and FFTMTF.view (reference) *)
  Definition difflim (nu : T) : T :=
    let phi := acos_ nu in
    mul (div (ofZ 2) pi_) (sub phi (mul (cos_ phi) (sin_ phi))).

  (** ** GeometricMTF._compute_field_data: A = histogram counts, edges = bin edges *)
  Definition centres (edges : list T) : list T :=
    map (fun '(a, b) => div (add b a) (ofZ 2)) (combine edges (tl edges)).
  Definition geo_mtf_xs (A x : nat -> T) (nb : nat) (dx v scale : T) : T :=
    let den := rsum (fun b => mul (A b) dx) nb in
    let Ac := div (rsum (fun b => mul (mul (A b) (cos_ (mul (mul two_pi v) (x b)))) dx) nb) den in
    let As := div (rsum (fun b => mul (mul (A b) (sin_ (mul (mul two_pi v) (x b)))) dx) nb) den in
    mul (sqrt_ (add (mul Ac Ac) (mul As As))) scale.
  Definition geo_mtf (A edges : list T) (v scale : T) : T :=
    let x := centres edges in
    let dx := sub (nth 1 x (ofZ 0)) (nth 0 x (ofZ 0)) in
    geo_mtf_xs (fun b => nth b A (ofZ 0)) (fun b => nth b x (ofZ 0)) (length A) dx v scale.

  (** ** frequency axis of FFTMTF.view as the specification wants it: 1000/(grid * dx_psf) with
      dx_psf = wavelength * FNO / (grid/num_rays) the pixel pitch _get_psf_units reports *)
  Definition freq_step_model (grid num_rays wavelength fno : T) : T :=
    div (ofZ 1000) (mul grid (div (mul wavelength fno) (div grid num_rays))).
End M.

(** * M_C14: hand model of the optimisation variables, the merit function and the
    optimise / undo state machine (optiland/optimization/optimization.py,
    optiland/optimization/variable/*.py, optiland/tolerancing/compensator.py).

    All arithmetic (scale / inverse_scale / operand residual) is the TRANSLATED code
    (Gen/OptVars.v, regenerated from /repo on every run); only the plumbing is written
    by hand: which lens parameter a variable addresses, the order of the writes, what
    the external SciPy minimiser is allowed to do (any finite schedule of objective
    evaluations, in the parent process or in worker processes), what is pushed on the
    undo stack.

    Correspondence with the Python code (checked by tools/props/C14.py on every run):
    - [var_get] / [var_set]      <->  Variable.value / Variable.update
                                      (XxxVariable.get_value / update_value)
    - [bounds_impl]              <->  Variable.bounds as written (scales unconditionally)
    - [bounds_spec]              <->  what the property demands (units of [var_get])
    - [fun_array] [sum_squared]  <->  OptimizationProblem.fun_array / sum_squared
    - [fun_guard]                <->  the NaN -> 1e10 guard of OptimizerGeneric._fun
    - [eval_point]               <->  lens effect of one call of OptimizerGeneric._fun
    - [optimize_impl]            <->  XXX.optimize as written (returns scipy's result, lens untouched afterwards)
    - [optimize_fixed]           <->  the repaired optimize (applies result.x, update_optics())
    - [undo_impl] / [undo_fixed] <->  OptimizerGeneric.undo as written / with update_optics()
    - [upd_pickups]              <->  PickupManager.apply (Optic.update without solves)
    - [update_optics] [dedup]    <->  OptimizationProblem.update_optics (which optics get update(), how often) *)
From Coq Require Import ZArith List Bool PrimFloat.
From OV Require Import Ops Gen.OptVars.
Import ListNotations.
Set Implicit Arguments.

(** ** Lens parameters addressed by variables *)
Inductive vkind := KRadius | KConic | KThickness | KIndex | KAsphere | KTilt | KDecenter | KPoly | KCheb.

Definition kind_id (k : vkind) : Z :=
  match k with
  | KRadius => 0 | KConic => 1 | KThickness => 2 | KIndex => 3 | KAsphere => 4
  | KTilt => 5 | KDecenter => 6 | KPoly => 7 | KCheb => 8
  end%Z.

(** (kind, surface, a, b): a = coefficient number (asphere), axis 0=x 1=y (tilt, decenter),
    (a, b) = coefficient indices (polynomial, Chebyshev); unused entries are 0. *)
Definition coord := (Z * Z * Z * Z)%type.
Definition coord_eqb (c d : coord) : bool :=
  let '(k1, s1, a1, b1) := c in
  let '(k2, s2, a2, b2) := d in
  ((k1 =? k2) && (s1 =? s2) && (a1 =? a2) && (b1 =? b2))%Z.

Section Model.
  Context {O : Ops}.
  Notation T := (T O).

  (** the lens as far as the optimiser can touch it: a value for every parameter coordinate *)
  Definition store := coord -> T.
  Definition put (s : store) (c : coord) (v : T) : store :=
    fun d => if coord_eqb c d then v else s d.

  Record var := mkVar {
    vkind_ : vkind; vsurf : Z; va : Z; vb : Z;
    vscaled : bool;                      (* apply_scaling *)
    vmin : option T; vmax : option T     (* min_val / max_val, in lens units *)
  }.
  Definition vcoord (v : var) : coord := (kind_id (vkind_ v), vsurf v, va v, vb v).

  (** XxxVariable.scale / inverse_scale: dispatch on the behaviour class, bodies translated *)
  Definition scale_of (v : var) (x : T) : T :=
    match vkind_ v with
    | KRadius => k_radius_scale O x
    | KConic => k_conic_scale O x
    | KThickness => k_thickness_scale O x
    | KIndex => k_index_scale O x
    | KAsphere => k_asphere_scale O x (va v)
    | KTilt => k_tilt_scale O x
    | KDecenter => k_decenter_scale O x
    | KPoly | KCheb => k_poly_scale O x
    end.
  Definition inverse_of (v : var) (x : T) : T :=
    match vkind_ v with
    | KRadius => k_radius_inverse_scale O x
    | KConic => k_conic_inverse_scale O x
    | KThickness => k_thickness_inverse_scale O x
    | KIndex => k_index_inverse_scale O x
    | KAsphere => k_asphere_inverse_scale O x (va v)
    | KTilt => k_tilt_inverse_scale O x
    | KDecenter => k_decenter_inverse_scale O x
    | KPoly | KCheb => k_poly_inverse_scale O x
    end.

  (** Variable.value  (get_value: read the lens, scale when apply_scaling) *)
  Definition var_get (s : store) (v : var) : T :=
    let raw := s (vcoord v) in if vscaled v then scale_of v raw else raw.
  (** Variable.update (update_value: unscale when apply_scaling, write the lens) *)
  Definition var_set (v : var) (x : T) (s : store) : store :=
    put s (vcoord v) (if vscaled v then inverse_of v x else x).

  (** Variable.bounds as written: min_val / max_val go through scale() whatever apply_scaling says *)
  Definition bounds_impl (v : var) : option T * option T :=
    (option_map (scale_of v) (vmin v), option_map (scale_of v) (vmax v)).
  (** bounds in the units of [var_get] *)
  Definition bounds_spec (v : var) : option T * option T :=
    if vscaled v then bounds_impl v else (vmin v, vmax v).

  (** ** Merit function.  An operand is (weight, target, value). *)
  Definition op_fun (o : T * T * T) : T :=
    let '(w, t, v) := o in k_operand_fun O w v t.
  Definition fun_array (l : list (T * T * T)) : list T :=
    map (fun o => mul (op_fun o) (op_fun o)) l.
  Definition sum_squared (l : list (T * T * T)) : T := sum_list (fun_array l).
  Definition fun_guard (rss : T) : T :=
    if isnan_ rss then lit 1%Z 10%Z 0x1.2a05f2p+33%float else rss.

  (** operands whose value is a function of the lens *)
  Definition operand := (T * T * (store -> T))%type.
  Definition merit (ops : list operand) (s : store) : T :=
    sum_squared (map (fun o : operand => let '(w, t, f) := o in (w, t, f s)) ops).

  (** ** Pickups (Optic.update without solves): target := scale * source + offset, in list order *)
  Definition pickup := (coord * coord * T * T)%type.       (* source, target, scale, offset *)
  Definition pk_src (p : pickup) : coord := fst (fst (fst p)).
  Definition pk_tgt (p : pickup) : coord := snd (fst (fst p)).
  Definition apply_pickup (s : store) (p : pickup) : store :=
    let '(src, tgt, a, b) := p in put s tgt (add (mul a (s src)) b).
  Definition upd_pickups (pks : list pickup) (s : store) : store := fold_left apply_pickup pks s.

  (** ** The optimise / undo state machine *)
  Section Machine.
    Variable upd : store -> store.        (* Optic.update(): pickups then solves *)
    Variable vars : list var.

    Definition setv (vs : list var) (x : list T) (s : store) : store :=
      fold_left (fun (s : store) (vx : var * T) => var_set (fst vx) (snd vx) s) (combine vs x) s.
    Definition getv (vs : list var) (s : store) : list T := map (var_get s) vs.

    (** lens effect of one objective evaluation  OptimizerGeneric._fun(x) *)
    Definition eval_point (x : list T) (s : store) : store := upd (setv vars x s).

    (** what the external minimiser does to the parent's lens: an arbitrary finite schedule of
        evaluations; [true] = evaluated in the parent process, [false] = evaluated by a worker
        process on its own copy (multi-process differential evolution) *)
    Definition trace := list (bool * list T).
    Definition run_trace (tr : trace) (s : store) : store :=
      fold_left (fun (s : store) (e : bool * list T) => if fst e then eval_point (snd e) s else s) tr s.

    (** optimize() as written: hand scipy's result back, leave the lens where the last call put it *)
    Definition optimize_impl (tr : trace) (xstar : list T) (s : store) : store := run_trace tr s.
    (** optimize() repaired: apply result.x and update the optics before returning *)
    Definition optimize_fixed (tr : trace) (xstar : list T) (s : store) : store :=
      eval_point xstar (run_trace tr s).
    (** undo() as written / with update_optics() *)
    Definition undo_impl (x0 : list T) (s : store) : store := setv vars x0 s.
    Definition undo_fixed (x0 : list T) (s : store) : store := upd (setv vars x0 s).

    (** the five front ends; they differ in what they require of the bounds *)
    Inductive frontend := FGeneric | FLeastSquares | FDualAnnealing | FDiffEvol | FCompensator.
    Definition needs_bounds (fe : frontend) : bool :=
      match fe with FDualAnnealing | FDiffEvol => true | _ => false end.
    Definition bounded (v : var) : bool :=
      match vmin v, vmax v with Some _, Some _ => true | _, _ => false end.

    Inductive cmd := Optimize (fe : frontend) (tr : trace) (xstar : list T) | Undo.

    Definition opt_state := (store * list (list T))%type.      (* lens, OptimizerGeneric._x *)

    Definition step_gen (opt : trace -> list T -> store -> store) (undo : list T -> store -> store)
               (st : opt_state) (c : cmd) : opt_state :=
      match c with
      | Optimize fe tr xstar =>
          let x0 := getv vars (fst st) in
          if needs_bounds fe && negb (forallb bounded vars)
          then (fst st, x0 :: snd st)           (* ValueError, raised after x0 was recorded *)
          else (opt tr xstar (fst st), x0 :: snd st)
      | Undo =>
          match snd st with
          | [] => st
          | x0 :: rest => (undo x0 (fst st), rest)
          end
      end.
    Definition step_impl := step_gen optimize_impl undo_impl.
    Definition step_fixed := step_gen optimize_fixed undo_fixed.
    Definition exec_impl (cs : list cmd) (st : opt_state) : opt_state := fold_left step_impl cs st.
    Definition exec_fixed (cs : list cmd) (st : opt_state) : opt_state := fold_left step_fixed cs st.
  End Machine.
  (** ** OptimizationProblem.update_optics for a problem spanning several optics:
      collect the SET of optics owning a variable, update each member once.
      [owners] = the optic (an integer id) of each variable, in variable order; [dedup] is the set
      (the iteration order of a Python set is arbitrary: the theorems hold for every duplicate-free
      enumeration of the same members). *)
  Fixpoint dedup (l : list Z) : list Z :=
    match l with
    | [] => []
    | x :: r => if existsb (Z.eqb x) r then dedup r else x :: dedup r
    end.
  Definition update_each (u : Z -> store -> store) (order : list Z) (s : store) : store :=
    fold_left (fun (s : store) (o : Z) => u o s) order s.
  Definition update_optics (u : Z -> store -> store) (owners : list Z) (s : store) : store :=
    update_each u (dedup owners) s.
End Model.

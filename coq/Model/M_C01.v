(** * C01: hand model of the lens-editing state machine of optiland.optic.Optic
    (add_surface / remove_surface / set_radius / set_conic / set_thickness / set_index / set_asphere_coeff /
    optimisation variables / pickups / solves / update / image_solve / add_wavelength).

    All arithmetic is done by the kernels regenerated from /repo on every run (Gen/LensEdit.v:
    SurfaceFactory._configure_cs, Optic.set_thickness, SurfaceGroup.get_thickness, Pickup.apply,
    MarginalRayHeightSolve.apply, Optic.image_solve, WavelengthGroup.add_wavelength, the variables'
    update_value / inverse_scale) and by Model/Paraxial.v (marginal ray on the regenerated paraxial
    surface kernel).  Written by hand: which surface an edit touches, which geometry class the factory
    builds, the material objects (explicit references into a store, so that sharing is visible), the stop
    flag, the pickup / solve managers and the order in which update() applies them.
    [step] returns [None] exactly when the Python call raises. *)
From Coq Require Import PrimFloat.
From Coq Require Import ZArith List Bool String.
From OV Require Import Ops Gen.RealRays Gen.Paraxial Gen.LensEdit Model.Paraxial.
Import ListNotations.

Inductive gkind := GPlane | GStd | GEven | GOther.
Inductive matspec (A : Type) := MAir | MMirror | MIdeal (n : A).
Arguments MAir {A}. Arguments MMirror {A}. Arguments MIdeal {A} n.
Inductive attr := ARadius | AConic | AThickness.
Inductive vkind := VRadius | VConic | VThickness | VIndex | VAsphere (j : Z) | VTilt (axis : string)
                 | VDecenter (axis : string).

Definition gkind_eqb (a b : gkind) : bool :=
  match a, b with GPlane, GPlane | GStd, GStd | GEven, GEven | GOther, GOther => true | _, _ => false end.

Section Lens.
  Context {O : Ops}.
  Notation T := (T O).

  Record surf := mkS {
    s_x : T; s_y : T; s_z : T; s_rx : T; s_ry : T;
    s_kind : gkind;
    s_R : T;                  (* geometry.radius (+inf for a Plane) *)
    s_k : option T;           (* geometry.k; None = the attribute does not exist (fresh Plane) *)
    s_c : list T;             (* geometry.c of an even asphere *)
    s_mpre : nat; s_mpost : nat;   (* references into the material store *)
    s_stop : bool; s_refl : bool; s_obj : bool }.

  Record pickup := mkP { pk_src : Z; pk_attr : attr; pk_tgt : Z; pk_scale : T; pk_offset : T }.

  Record lens := mkL {
    surfs : list surf;
    mats : list T;            (* refractive index (primary wavelength) of each material object *)
    last_t : T;               (* SurfaceFactory.last_thickness *)
    waves : list T; prims : list bool;
    pickups : list pickup;
    solves : list (Z * T);    (* marginal-ray-height solves: surface index, height *)
    ap : aptype * T }.

  Definition empty_lens (a : aptype * T) : lens := mkL [] [] (ofZ 0) [] [] [] [] a.

  Inductive op :=
  | AddSurface (idx : Z) (kind : gkind) (R k : T) (c : list T) (t : T) (m : matspec T) (stop : bool)
               (dx dy rx ry : T)
  | RemoveSurface (idx : Z)
  | SetRadius (v : T) (k : Z) | SetConic (v : T) (k : Z) | SetThickness (v : T) (k : Z)
  | SetIndex (v : T) (k : Z) | SetAsphereCoeff (v : T) (k j : Z)
  | VarUpdate (vk : vkind) (k : Z) (scaled : bool) (v : T)
  | PickupAdd (src : Z) (a : attr) (tgt : Z) (scale offset : T)
  | SolveAdd (idx : Z) (h : T)
  | Update | ImageSolve
  | AddWavelength (v : T) (prim : bool)
  (* add_surface(new_surface=<ready-made Surface / ImageSurface>, index=idx, thickness=t): the caller built the
     object (vertex z, geometry, media: the medium in front is the object behind the predecessor; [MMirror] here
     means "the same medium object behind as in front") *)
  | AddReady (idx : Z) (kind : gkind) (R k : T) (c : list T) (z t : T) (m : matspec T) (stop refl : bool).

  (** ** field updates *)
  Definition with_z (s : surf) (z : T) : surf :=
    mkS (s_x s) (s_y s) z (s_rx s) (s_ry s) (s_kind s) (s_R s) (s_k s) (s_c s) (s_mpre s) (s_mpost s)
        (s_stop s) (s_refl s) (s_obj s).
  Definition with_xy (s : surf) (x y : T) : surf :=
    mkS x y (s_z s) (s_rx s) (s_ry s) (s_kind s) (s_R s) (s_k s) (s_c s) (s_mpre s) (s_mpost s)
        (s_stop s) (s_refl s) (s_obj s).
  Definition with_tilt (s : surf) (rx ry : T) : surf :=
    mkS (s_x s) (s_y s) (s_z s) rx ry (s_kind s) (s_R s) (s_k s) (s_c s) (s_mpre s) (s_mpost s)
        (s_stop s) (s_refl s) (s_obj s).
  Definition with_geom (s : surf) (g : gkind) (R : T) (k : option T) (c : list T) : surf :=
    mkS (s_x s) (s_y s) (s_z s) (s_rx s) (s_ry s) g R k c (s_mpre s) (s_mpost s)
        (s_stop s) (s_refl s) (s_obj s).
  Definition with_mat (s : surf) (pre post : nat) : surf :=
    mkS (s_x s) (s_y s) (s_z s) (s_rx s) (s_ry s) (s_kind s) (s_R s) (s_k s) (s_c s) pre post
        (s_stop s) (s_refl s) (s_obj s).
  Definition with_stop (s : surf) (b : bool) : surf :=
    mkS (s_x s) (s_y s) (s_z s) (s_rx s) (s_ry s) (s_kind s) (s_R s) (s_k s) (s_c s) (s_mpre s) (s_mpost s)
        b (s_refl s) (s_obj s).

  Definition with_surfs (l : lens) (ss : list surf) : lens :=
    mkL ss (mats l) (last_t l) (waves l) (prims l) (pickups l) (solves l) (ap l).

  (** valid non-negative index *)
  Definition inb {A} (l : list A) (i : Z) : bool := (0 <=? i)%Z && (i <? Z.of_nat (List.length l))%Z.
  Definition nthS (l : lens) (i : Z) : option surf := if inb (surfs l) i then nth_error (surfs l) (Z.to_nat i) else None.
  Definition upd_surf (l : lens) (i : Z) (f : surf -> surf) : lens :=
    with_surfs l (map (fun '(j, s) => if (j =? i)%Z then f s else s) (enumZ (surfs l))).

  Definition positions (l : lens) : list T := map s_z (surfs l).
  Definition nsurf (l : lens) : Z := Z.of_nat (List.length (surfs l)).
  (** write a whole vector of vertex positions back (for k, surface in enumerate(...): cs.z = ...) *)
  Definition set_zs (l : lens) (zs : list T) : lens :=
    with_surfs l (map (fun '(j, s) => with_z s (getZ zs j)) (enumZ (surfs l))).

  (** SurfaceGroup.conic / getattr(geometry, 'k', 0): a flat surface without the attribute reads 0 *)
  Definition conic_read (s : surf) : T := match s_k s with Some k => k | None => ofZ 0 end.

  (** ** Optic.set_radius / set_conic / set_thickness / set_index / set_asphere_coeff *)
  (** what Optic.set_radius does to the surface it names *)
  Definition set_radius_fun (v : T) (s : surf) : surf :=
    match s_kind s with
    | GPlane =>
        if isinf_ v then s                                      (* a flat surface stays a Plane *)
        else with_geom s GStd v (Some (conic_read s)) (s_c s)   (* StandardGeometry(cs, value, getattr(geometry, 'k', 0)) *)
    | GStd =>
        if isinf_ v
        then (* back to Plane(cs); a non-zero conic is kept as its k attribute *)
             with_geom s GPlane inf_
                       (match s_k s with
                        | Some c => if neb_ c (ofZ 0) then Some c else None
                        | None => None
                        end) []
        else with_geom s GStd v (s_k s) (s_c s)
    | g => with_geom s g v (s_k s) (s_c s)
    end.

  Definition set_radius (l : lens) (v : T) (k : Z) : option lens :=
    match nthS l k with
    | None => None
    | Some _ => Some (upd_surf l k (set_radius_fun v))
    end.

  Definition set_conic (l : lens) (v : T) (k : Z) : option lens :=
    match nthS l k with
    | None => None
    | Some _ => Some (upd_surf l k (fun s => with_geom s (s_kind s) (s_R s) (Some v) (s_c s)))
    end.

  Definition set_thickness (l : lens) (v : T) (k : Z) : option lens :=
    if (0 <=? k)%Z && (k + 1 <? nsurf l)%Z
    then Some (set_zs l (k_c01_set_thickness O v k (positions l) (nsurf l)))
    else None.

  Definition set_index (l : lens) (v : T) (k : Z) : option lens :=
    if (0 <=? k)%Z && (k + 1 <? nsurf l)%Z then
      let r := List.length (mats l) in            (* new IdealMaterial object *)
      let l1 := upd_surf l k (fun s => with_mat s (s_mpre s) r) in
      let l2 := upd_surf l1 (k + 1) (fun s => with_mat s r (s_mpost s)) in
      Some (mkL (surfs l2) (mats l ++ [v]) (last_t l) (waves l) (prims l) (pickups l) (solves l) (ap l))
    else None.

  Definition set_asphere_coeff (l : lens) (v : T) (k j : Z) : option lens :=
    match nthS l k with
    | None => None
    | Some s =>
        match s_kind s with
        | GEven =>
            match nthZ (s_c s) j with
            | None => None
            | Some _ => Some (upd_surf l k (fun s => with_geom s (s_kind s) (s_R s) (s_k s) (setZ (s_c s) j v)))
            end
        | _ => None       (* no attribute c (the 2-D tables of polynomial surfaces are not edited here) *)
        end
    end.

  (** ** SurfaceGroup.add_surface (with SurfaceFactory.create_surface) and remove_surface *)
  Fixpoint insert_at {A} (n : nat) (x : A) (l : list A) : list A :=
    match n, l with
    | 0%nat, _ => x :: l
    | S n', y :: l' => y :: insert_at n' x l'
    | S _, [] => [x]
    end.
  Fixpoint remove_at {A} (n : nat) (l : list A) : list A :=
    match n, l with
    | _, [] => []
    | 0%nat, _ :: l' => l'
    | S n', y :: l' => y :: remove_at n' l'
    end.

  (** SurfaceFactory._configure_material: (medium in front, medium behind, material store) *)
  Definition cfg_material (l : lens) (idx : Z) (m : matspec T) : option (nat * nat * list T) :=
    let fresh := List.length (mats l) in
    if (idx =? 0)%Z then
      match m with
      | MAir => Some (fresh, fresh, mats l ++ [ofZ 1])        (* ObjectSurface: material_pre = material_post *)
      | MIdeal n => Some (fresh, fresh, mats l ++ [n])
      | MMirror => None                                        (* material_post would be None *)
      end
    else
      match nth_error (surfs l) (Z.to_nat (idx - 1)) with
      | None => None
      | Some p =>
          let pre := s_mpost p in                               (* previous_surface.material_post, the same object *)
          match m with
          | MAir => Some (pre, fresh, mats l ++ [ofZ 1])
          | MIdeal n => Some (pre, fresh, mats l ++ [n])
          | MMirror => Some (pre, pre, mats l)
          end
      end.

  (** which geometry class the factory builds *)
  Definition cfg_geometry (kind : gkind) (R k : T) (c : list T) : gkind * T * option T * list T :=
    match kind with
    | GEven => (GEven, R, Some k, c)
    | GOther => (GOther, R, Some k, c)
    | _ => if isinf_ R then (GPlane, inf_, None, []) else (GStd, R, Some k, [])
    end.

  Definition add_surface (l : lens) (idx : Z) (kind : gkind) (R k : T) (c : list T) (t : T) (m : matspec T)
             (stop : bool) (dx dy rx ry : T) : option lens :=
    if (idx <? 0)%Z || (nsurf l <? idx)%Z then None else
    match cfg_material l idx m with
    | None => None
    | Some (pre, post, mats') =>
        let '(x, y, z, rx', ry') := k_c01_cfg_cs O idx t dx dy rx ry (positions l) (last_t l) in
        let '(g, R', k', c') := cfg_geometry kind R k c in
        let is_obj := (idx =? 0)%Z in
        let refl := match m with MMirror => true | _ => false end in
        let new := mkS x y z rx' ry' g R' k' c' pre post
                       (if is_obj then false else stop) (if is_obj then false else refl) is_obj in
        let olds := if s_stop new then map (fun s => with_stop s false) (surfs l) else surfs l in
        Some (mkL (insert_at (Z.to_nat idx) new olds) mats' t (waves l) (prims l) (pickups l) (solves l) (ap l))
    end.

  (** SurfaceGroup.add_surface with new_surface given: no factory call; the stop flags are cleared when the new
      surface is a stop, the object is inserted, and the gap thickness is recorded for the next keyword surface *)
  Definition add_ready (l : lens) (idx : Z) (kind : gkind) (R k : T) (c : list T) (z t : T) (m : matspec T)
             (stop refl : bool) : option lens :=
    if (idx <? 1)%Z || (nsurf l <? idx)%Z then None else
    match cfg_material l idx m with
    | None => None
    | Some (pre, post, mats') =>
        let '(g, R', k', c') := cfg_geometry kind R k c in
        let new := mkS (ofZ 0) (ofZ 0) z (ofZ 0) (ofZ 0) g R' k' c' pre post stop refl false in
        let olds := if stop then map (fun s => with_stop s false) (surfs l) else surfs l in
        Some (mkL (insert_at (Z.to_nat idx) new olds) mats' t (waves l) (prims l) (pickups l) (solves l) (ap l))
    end.

  Definition remove_surface (l : lens) (idx : Z) : option lens :=
    if (1 <=? idx)%Z && (idx <? nsurf l)%Z then Some (with_surfs l (remove_at (Z.to_nat idx) (surfs l))) else None.

  (** ** paraxial view of the lens and the marginal ray (Model/Paraxial.v) *)
  Definition index_of (l : lens) (r : nat) : T := nth r (mats l) nan_.
  Definition to_psurfs (l : lens) : list (psurf O) :=
    map (fun s => mkPS (s_x s) (s_y s) (s_z s) (s_rx s) (s_ry s) (ofZ 0) (s_R s)
                       (index_of l (s_mpre s)) (index_of l (s_mpost s)) (s_refl s) (s_stop s) (s_obj s)) (surfs l).
  Definition marginal (l : lens) : list (T * T) := marginal_ray (to_psurfs l) (fst (ap l)) (snd (ap l)).

  (** ** pickups *)
  Definition pickup_get (l : lens) (p : pickup) : option T :=
    match nthS l (pk_src p) with
    | None => None
    | Some s =>
        match pk_attr p with
        | ARadius => Some (s_R s)
        | AConic => Some (conic_read s)                (* getattr(surface.geometry, 'k', 0) *)
        | AThickness => if (pk_src p + 1 <? nsurf l)%Z
                        then Some (k_c01_get_thickness O (pk_src p) (positions l)) else None
        end
    end.
  Definition pickup_set (l : lens) (p : pickup) (v : T) : option lens :=
    match pk_attr p with
    | ARadius => set_radius l v (pk_tgt p)
    | AConic => set_conic l v (pk_tgt p)
    | AThickness => set_thickness l v (pk_tgt p)
    end.
  Definition pickup_apply (l : lens) (p : pickup) : option lens :=
    match pickup_get l p with
    | None => None
    | Some old => pickup_set l p (k_c01_pickup_apply O old (pk_scale p) (pk_offset p))
    end.

  Definition obind {A B} (o : option A) (f : A -> option B) : option B :=
    match o with Some a => f a | None => None end.
  Definition fold_opt {A} (f : lens -> A -> option lens) (xs : list A) (l : lens) : option lens :=
    fold_left (fun acc x => obind acc (fun l => f l x)) xs (Some l).

  (** ** marginal-ray-height solve and image solve *)
  Definition solve_apply (l : lens) (sv : Z * T) : option lens :=
    let '(idx, h) := sv in
    if inb (surfs l) idx then
      let mr := marginal l in
      Some (set_zs l (k_c01_mrh_apply O (map fst mr) (map snd mr) idx h (positions l) (nsurf l)))
    else None.

  Definition image_solve (l : lens) : option lens :=
    match surfs l with
    | [] => None
    | _ => let mr := marginal l in
           Some (set_zs l (k_c01_image_solve O (map fst mr) (map snd mr) (positions l)))
    end.

  Definition update (l : lens) : option lens :=
    obind (fold_opt pickup_apply (pickups l) l) (fun l1 => fold_opt solve_apply (solves l1) l1).

  (** ** optimisation variables: Variable(optic, type, ...).update(v) *)
  Definition var_update (l : lens) (vk : vkind) (k : Z) (scaled : bool) (v : T) : option lens :=
    match vk with
    | VRadius => match nthS l k with None => None | Some _ =>
                 let '(nv, kk) := k_c01_radius_update O v scaled k in set_radius l nv kk end
    | VConic => let '(nv, kk) := k_c01_conic_update O v k in set_conic l nv kk
    | VThickness => let '(nv, kk) := k_c01_thickness_update O v scaled k in set_thickness l nv kk
    | VIndex => let '(nv, kk) := k_c01_index_update O v scaled k in set_index l nv kk
    | VAsphere j => let '(nv, kk, jj) := k_c01_asphere_update O v scaled j k in set_asphere_coeff l nv kk jj
    | VTilt axis =>
        match nthS l k with None => None | Some _ =>
        let '(rxs, rys) := k_c01_tilt_update O v scaled k axis (map s_rx (surfs l)) (map s_ry (surfs l)) in
        Some (with_surfs l (map (fun '(j, s) => with_tilt s (getZ rxs j) (getZ rys j)) (enumZ (surfs l)))) end
    | VDecenter axis =>
        match nthS l k with None => None | Some _ =>
        let '(xs, ys) := k_c01_decenter_update O v scaled k axis (map s_x (surfs l)) (map s_y (surfs l)) in
        Some (with_surfs l (map (fun '(j, s) => with_xy s (getZ xs j) (getZ ys j)) (enumZ (surfs l)))) end
    end.

  Definition add_wavelength (l : lens) (v : T) (prim : bool) : lens :=
    let n := Z.of_nat (List.length (waves l)) in
    let '(vals, ps) := k_c01_add_wavelength O v prim "um"%string n (prims l) n (waves l) in
    mkL (surfs l) (mats l) (last_t l) vals ps (pickups l) (solves l) (ap l).

  Definition step (l : lens) (o : op) : option lens :=
    match o with
    | AddSurface idx kind R k c t m stop dx dy rx ry => add_surface l idx kind R k c t m stop dx dy rx ry
    | RemoveSurface idx => remove_surface l idx
    | SetRadius v k => set_radius l v k
    | SetConic v k => set_conic l v k
    | SetThickness v k => set_thickness l v k
    | SetIndex v k => set_index l v k
    | SetAsphereCoeff v k j => set_asphere_coeff l v k j
    | VarUpdate vk k scaled v => var_update l vk k scaled v
    | PickupAdd src a tgt sc off =>
        let p := mkP src a tgt sc off in
        obind (pickup_apply l p) (fun l' =>
          Some (mkL (surfs l') (mats l') (last_t l') (waves l') (prims l') (pickups l' ++ [p]) (solves l') (ap l')))
    | SolveAdd idx h =>
        obind (solve_apply l (idx, h)) (fun l' =>
          Some (mkL (surfs l') (mats l') (last_t l') (waves l') (prims l') (pickups l') (solves l' ++ [(idx, h)]) (ap l')))
    | Update => update l
    | ImageSolve => image_solve l
    | AddWavelength v prim => Some (add_wavelength l v prim)
    | AddReady idx kind R k c z t m stop refl => add_ready l idx kind R k c z t m stop refl
    end.

  (** the whole history; [None] as soon as a call raises *)
  Definition run (l : lens) (ops : list op) : option lens := fold_opt step ops l.
  (** states after every operation (for the correspondence check) *)
  Fixpoint trace_run (l : lens) (ops : list op) : list (option lens) :=
    match ops with
    | [] => []
    | o :: ops' => match step l o with
                   | None => [None]
                   | Some l' => Some l' :: trace_run l' ops'
                   end
    end.

  (** ** read-outs *)
  Definition thickness (l : lens) (k : Z) : T := k_c01_get_thickness O k (positions l).
  Definition n_post (l : lens) : list T := map (fun s => index_of l (s_mpost s)) (surfs l).
  Definition n_pre (l : lens) : list T := map (fun s => index_of l (s_mpre s)) (surfs l).
  Fixpoint first_true_from (i : nat) (bs : list bool) : option nat :=
    match bs with [] => None | b :: bs' => if b then Some i else first_true_from (S i) bs' end.
  Definition stop_index (l : lens) : option nat := first_true_from 0 (map s_stop (surfs l)).
  Definition primary_index (l : lens) : option nat := first_true_from 0 (prims l).

  (** canonical numbering of object references by first occurrence (to compare with Python's id()) *)
  Fixpoint canon_aux (seen : list nat) (rs : list nat) : list nat :=
    match rs with
    | [] => []
    | r :: rs' =>
        let fix find (i : nat) (l : list nat) : option nat :=
          match l with [] => None | x :: l' => if Nat.eqb x r then Some i else find (S i) l' end in
        match find 0%nat seen with
        | Some i => i :: canon_aux seen rs'
        | None => List.length seen :: canon_aux (seen ++ [r]) rs'
        end
    end.
  Definition mat_refs (l : lens) : list nat :=
    canon_aux [] (flat_map (fun s => [s_mpre s; s_mpost s]) (surfs l)).
End Lens.

Arguments surf : clear implicits.
Arguments lens : clear implicits.
Arguments op : clear implicits.
Arguments pickup : clear implicits.

(** * Hand model of the nested-list / dictionary plumbing of the geometric analyses
    (optiland/analysis/{spot_diagram,encircled_energy,ray_fan,rms_vs_field,pupil_aberration,distortion,
    grid_distortion,field_curvature}.py and RayOperand.rms_spot_size).

    Every analysis is a FUNCTION OF THE TRACED RAYS: the records read from
    [optic.surface_group] after a trace are the inputs.  The arithmetic that py2coq can translate is
    taken from the regenerated kernels (Gen/Analysis.v); what is written by hand is the indexing
    (which wavelength is the reference, which samples are paired, the meshgrid order, dictionary lookups).
    Tied to the implementation by tools/props/C12.py (system_checks). *)
From Coq Require Import ZArith List Bool String.
From OV Require Import Ops Num.OpsC12 Gen.Analysis.
Import ListNotations.

Section M.
  Context {O : Ops}.
  Notation T := (T O).

  Definition sq (v : T) : T := mul v v.

  Fixpoint all_some {A} (l : list (option A)) : option (list A) :=
    match l with
    | [] => Some []
    | None :: _ => None
    | Some a :: r => match all_some r with None => None | Some r' => Some (a :: r') end
    end.

  (** ** Spot diagram  (SpotDiagram, EncircledEnergy, RmsSpotSizeVsField share this code) *)
  (** one (field, wavelength) entry of [self.data]: x, y, intensity at the image surface *)
  Record spot := mkSpot { sx : list T; sy : list T; si : list T }.

  (** SpotDiagram._reference_index: position of the lens's primary wavelength in the wavelengths the diagram was
      built for; the first listed wavelength when the primary is not among them *)
  Fixpoint find_wave (ws : list T) (wref : T) : option nat :=
    match ws with
    | [] => None
    | w :: r => if eqb_ w wref then Some 0%nat else option_map S (find_wave r wref)
    end.
  Definition reference_index (ws : list T) (wp : T) : nat :=
    match find_wave ws wp with Some k => k | None => 0%nat end.

  (** SpotDiagram.centroid: [field_data[norm_index]] with norm_index = self._reference_index(); failed rays (NaN)
      are ignored (np.nanmean); [None] = IndexError.  EncircledEnergy.centroid is the same with index 0. *)
  Definition centroid1 (pidx : Z) (fd : list spot) : option (T * T) :=
    match nthZ fd pidx with
    | None => None
    | Some s => Some (nanmean_ (sx s), nanmean_ (sy s))
    end.
  Definition centroid (pidx : Z) (data : list (list spot)) : option (list (T * T)) :=
    all_some (map (centroid1 pidx) data).

  (** SpotDiagram._center_spots *)
  Definition center1 (c : T * T) (s : spot) : spot :=
    mkSpot (lmap (fun v => sub v (fst c)) (sx s)) (lmap (fun v => sub v (snd c)) (sy s)) (si s).
  Definition center_spots (pidx : Z) (data : list (list spot)) : option (list (list spot)) :=
    match centroid pidx data with
    | None => None
    | Some cs => Some (map (fun p => map (center1 (fst p)) (snd p)) (combine cs data))
    end.

  Definition radii2 (s : spot) : list T := lmap2 add (lmap sq (sx s)) (lmap sq (sy s)).
  Definition radii (s : spot) : list T := lmap sqrt_ (radii2 s).

  (** SpotDiagram.geometric_spot_radius / rms_spot_radius *)
  Definition geo1 (s : spot) : T := nanmax_list (radii s).
  Definition rms1 (s : spot) : T := sqrt_ (nanmean_ (radii2 s)).
  Definition geometric_spot_radius (pidx : Z) (data : list (list spot)) : option (list (list T)) :=
    option_map (map (map geo1)) (center_spots pidx data).
  Definition rms_spot_radius (pidx : Z) (data : list (list spot)) : option (list (list T)) :=
    option_map (map (map rms1)) (center_spots pidx data).
  (** the three queries of a diagram built for the wavelengths [ws] on a lens whose primary wavelength is [wp] *)
  Definition spot_centroid (ws : list T) (wp : T) := centroid (Z.of_nat (reference_index ws wp)).
  Definition spot_geo (ws : list T) (wp : T) := geometric_spot_radius (Z.of_nat (reference_index ws wp)).
  Definition spot_rms (ws : list T) (wp : T) := rms_spot_radius (Z.of_nat (reference_index ws wp)).

  (** ** Encircled energy: [vectorized_ee r = np.nansum(energy[radii <= r])] on centred spots *)
  Fixpoint select_le (r : T) (rad en : list T) : list T :=
    match rad, en with
    | q :: rad', e :: en' => if leb_ q r then e :: select_le r rad' en' else select_le r rad' en'
    | _, _ => []
    end.
  Definition ee_at (s : spot) (r : T) : T := nansum (select_le r (radii s) (si s)).

  (** np.linspace(a, b, n):  a + i*step with step = (b-a)/(n-1), last sample set to b *)
  Definition linspace (a b : T) (n : nat) : list T :=
    match n with
    | 0%nat => []
    | 1%nat => [a]
    | S m => let step := div (sub b a) (ofZ (Z.of_nat m)) in
             map (fun i => add (mul (ofZ i) step) a) (seqZ 0 m) ++ [b]
    end.
  (** EncircledEnergy._plot_field: the plotted curve *)
  Definition ee_curve (s : spot) (axis_lim buffer : T) (npts : nat) : list T * list T :=
    let rs := linspace (ofZ 0) (mul axis_lim buffer) npts in (rs, map (ee_at s) rs).

  (** ** Ray fan: dictionary keyed by the wavelength; the reference is optic.primary_wavelength *)
  Record fan := mkFan { fx : list T; fix_ : list T; fy : list T; fiy : list T }.
  (** reference wavelength of the fan: the primary wavelength when it is a key, the first listed one otherwise *)
  Definition rayfan_ref (ws : list T) (wp : T) : T :=
    match find_wave ws wp with Some _ => wp | None => hd wp ws end.
  (** one field, reference wavelength [wref]; [None] = KeyError (the reference is not among the keys) *)
  Definition rayfan_field (ws : list T) (wref : T) (npts : Z) (fans : list fan) : option (list fan) :=
    match find_wave ws wref with
    | None => None
    | Some k =>
        match nth_error fans k with
        | None => None
        | Some ref =>
            let xo := getZ (fx ref) (npts / 2)%Z in
            let yo := getZ (fy ref) (npts / 2)%Z in
            Some (map (fun f => mkFan (lmap (fun v => sub v xo) (fx f)) (fix_ f)
                                      (lmap (fun v => sub v yo) (fy f)) (fiy f)) fans)
        end
    end.
  Definition rayfan (ws : list T) (wp : T) (npts0 : Z) (data : list (list fan)) : option (list (list fan)) :=
    all_some (map (rayfan_field ws (rayfan_ref ws wp) (k_rayfan_init O npts0)) data).

  (** ** Pupil aberration: (paraxial - real) / d * 100, NaN where the real ray has no intensity *)
  Definition mask_nan (e i : T) : T := if eqb_ i (ofZ 0) then nan_ else e.
  Definition pupil_err (d : T) (parax real inten : list T) : list T :=
    lmap2 mask_nan (lmap (fun v => mul (div v d) (ofZ 100)) (lmap2 sub parax real)) inten.

  (** ** Distortion: per wavelength, the translated arithmetic on that wavelength's chief-ray heights;
      [height] = the fields are object heights *)
  Definition distortion (height : bool) (ty : string) (maxf : T) (Hy : list T) (yrs : list (list T)) : option (list (list T)) :=
    match yrs with
    | [] => Some []
    | _ =>
        if negb (orb (String.eqb ty "f-tan") (String.eqb ty "f-theta")) then None
        else if height then
          all_some (map (fun yr => option_map (fun d => List.concat d) (k_distortion_height O Hy [ofZ 0] yr)) yrs)
        else if String.eqb ty "f-tan" then
          all_some (map (fun yr => option_map (fun d => List.concat d) (k_distortion_ftan O Hy [ofZ 0] yr maxf)) yrs)
        else
          all_some (map (fun yr => option_map (fun d => List.concat d) (k_distortion_ftheta O Hy [ofZ 0] yr maxf)) yrs)
    end.
  (** the field samples  np.linspace(1e-10, 1, n) *)
  Definition distortion_Hy (tiny : T) (n : nat) : list T := linspace tiny (ofZ 1) n.

  (** ** Grid distortion: meshgrid of linspace(-sqrt2/2, sqrt2/2, n), row-major *)
  Definition grid_extent (n : nat) : list T :=
    let m := div (sqrt_ (ofZ 2)) (ofZ 2) in linspace (neg m) m n.
  Definition grid_Hx (n : nat) : list T := List.concat (map (fun _ => grid_extent n) (grid_extent n)).
  Definition grid_Hy (n : nat) : list T := List.concat (map (fun v => map (fun _ => v) (grid_extent n)) (grid_extent n)).
  Definition grid_distortion (ty fty : string) (x_ref y_ref maxf : T) (n : nat) (xr yr : list T) :=
    k_grid_distortion O y_ref x_ref ty fty (grid_Hx n) (grid_Hy n) maxf xr yr.

  (** ** Field curvature: the trace holds the parabasal pairs interleaved (-delta, +delta, -delta, ...) *)
  Fixpoint evens (l : list T) : list T :=
    match l with [] => [] | [a] => [a] | a :: _ :: r => a :: evens r end.
  Definition odds (l : list T) : list T := match l with [] => [] | _ :: r => evens r end.
  Definition field_curvature_T (M N y z : list T) : list T :=
    k_fc_tangential O (evens M) (evens N) (odds M) (odds N) (evens y) (evens z) (odds y) (odds z).
  Definition field_curvature_S (L N x z : list T) : list T :=
    k_fc_sagittal O (evens L) (evens N) (odds L) (odds N) (evens x) (evens z) (odds x) (odds z).

  (** ** RayOperand.rms_spot_size with wavelength = 'all': all wavelengths about the primary centroid *)
  Definition op_rms_all (pidx : Z) (xs ys : list (list T)) : T :=
    let mx := mean_ (getLZ xs pidx) in
    let my := mean_ (getLZ ys pidx) in
    let r2 := List.concat (map (fun p => lmap2 add (lmap sq (lmap (fun v => sub v mx) (fst p)))
                                              (lmap sq (lmap (fun v => sub v my) (snd p)))) (combine xs ys)) in
    sqrt_ (mean_ r2).
End M.

Arguments spot : clear implicits.
Arguments fan : clear implicits.

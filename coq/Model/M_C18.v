(** * Hand-written executable models for property C18 (glue the translator does not cover).

    - [parse] / [model_n] / [model_k]: `MaterialFile._parse_file`, `_set_formula_type`, `n`, `k`
      (which DATA section of the YAML file ends up being evaluated) -- dispatching to the
      *regenerated* kernels of Gen/Materials.v;
    - [glass_p]: `AbbeMaterial._get_coefficients` (X_poly @ coefficients);
    - [lev], [lookup]: `Material._levenshtein_distance`, `_find_material_matches` + `_retrieve_file`
      with a LITERAL substring filter (see D14: the implementation uses a regular expression).
    Each is tied to the implementation by tools/props/C18.py (system_checks). *)
From Coq Require Import ZArith List Bool.
From OV Require Import Ops OpsC18 Spec.S_C18 Gen.Materials.
Import ListNotations.

Section FileModel.
  Context {O : Ops}.
  Notation T := (T O).

  (** value of `self._n_formula` *)
  Inductive nkind := KFormula (k : Z) | KTabN | KTabNK.
  Record st := mkSt {
    st_coeffs : list T;                       (* self.coefficients *)
    st_nform : option nkind;                  (* self._n_formula *)
    st_ntab : list T * list T;                (* self._n_wavelength, self._n *)
    st_ktab : option (list T * list T) }.     (* self._k_wavelength, self._k  (None = never set) *)
  Definition st0 : st := mkSt [] None ([], []) None.

  (** `_set_formula_type`: raises when a type is already set *)
  Definition set_type (s : st) (k : nkind) : option st :=
    match st_nform s with
    | None => Some (mkSt (st_coeffs s) (Some k) (st_ntab s) (st_ktab s))
    | Some _ => None
    end.
  Definition parse_step (os : option st) (sec : section (O := O)) : option st :=
    match os with
    | None => None
    | Some s =>
        match sec with
        | SFormula k c => set_type (mkSt c (st_nform s) (st_ntab s) (st_ktab s)) (KFormula k)
        | STabN t => set_type (mkSt (st_coeffs s) (st_nform s) (map fst t, map snd t) (st_ktab s)) KTabN
        | STabK t => Some (mkSt (st_coeffs s) (st_nform s) (st_ntab s) (Some (map fst t, map snd t)))
        | STabNK t =>
            set_type (mkSt (st_coeffs s) (st_nform s)
                           (map (fun r => fst (fst r)) t, map (fun r => snd (fst r)) t)
                           (Some (map (fun r => fst (fst r)) t, map snd t))) KTabNK
        | SOther => Some s
        end
    end.
  Definition parse (secs : list section) : option st := fold_left parse_step secs (Some st0).

  (** `formula_map[self._n_formula](wavelength)`; None = raises (KeyError / ValueError) *)
  Definition model_n (s : st) (w : T) : option T :=
    match st_nform s with
    | None => None
    | Some (KFormula k) =>
        let c := st_coeffs s in
        match k with
        | 1 => k_formula_1 O w c | 2 => k_formula_2 O w c | 3 => k_formula_3 O w c
        | 4 => k_formula_4 O w c | 5 => k_formula_5 O w c | 6 => k_formula_6 O w c
        | 7 => k_formula_7 O w c | 8 => k_formula_8 O w c | 9 => k_formula_9 O w c
        | _ => None
        end%Z
    | Some _ => k_tabulated_n O w (fst (st_ntab s)) (snd (st_ntab s))
    end.
  Definition model_k (s : st) (w : T) : option T :=
    match st_ktab s with
    | None => None
    | Some (kw, kv) => k_mat_k O w kw kv
    end.
  Definition file_n (secs : list section) (w : T) : option T :=
    match parse secs with None => None | Some s => model_n s w end.
  Definition file_kk (secs : list section) (w : T) : option T :=
    match parse secs with None => None | Some s => model_k s w end.

  (** `AbbeMaterial._get_coefficients`: [n, V, n^2, V^2, n^3, V^3] @ C  (C has one row per monomial) *)
  Definition dot (a b : list T) : T := fold_left (fun acc p => add acc (mul (fst p) (snd p))) (combine a b) (ofZ 0).
  Fixpoint columns (C : list (list T)) (ncol : nat) : list (list T) :=
    match ncol with
    | 0%nat => []
    | S n => map (fun r => hd (ofZ 0) r) C :: columns (map (@tl T) C) n
    end.
  Definition glass_p (C : list (list T)) (nd vd : T) : list T :=
    let X := [nd; vd; mul nd nd; mul vd vd; mul (mul nd nd) nd; mul (mul vd vd) vd] in
    map (dot X) (columns C 4).
  Definition glass_n (C : list (list T)) (nd vd w : T) : T := polyval_ (glass_p C nd vd) w.
End FileModel.

(** ** Catalogue lookup over code-point strings *)
Definition str := list Z.

Fixpoint prefixb (p s : str) : bool :=
  match p, s with
  | [], _ => true
  | a :: p', b :: s' => (a =? b)%Z && prefixb p' s'
  | _ :: _, [] => false
  end.
Fixpoint substrb (p s : str) : bool :=
  prefixb p s || match s with [] => false | _ :: s' => substrb p s' end.

(** `_levenshtein_distance`: the matrix is filled row by row; row i only needs row i-1 *)
Fixpoint lev_row (a : Z) (t : str) (prev : list Z) (left diag : Z) : list Z :=
  match t, prev with
  | b :: t', up :: prev' =>
      let v := Z.min (Z.min (up + 1) (left + 1)) (diag + (if (a =? b)%Z then 0 else 1)) in
      v :: lev_row a t' prev' v up
  | _, _ => []
  end.
Fixpoint row0_from (k : Z) (t : str) : list Z :=
  k :: match t with [] => [] | _ :: t' => row0_from (k + 1) t' end.
Fixpoint lev_rows (s t : str) (row : list Z) (i : Z) : list Z :=
  match s with
  | [] => row
  | a :: s' => lev_rows s' t (i :: lev_row a t (tl row) i (hd 0%Z row)) (i + 1)
  end.
Definition lev (s t : str) : Z := last (lev_rows s t (row0_from 0 t) 1) 0%Z.

Record row := mkRow {
  r_cat : str;            (* category_name, lower-cased *)
  r_name : str;           (* name, lower-cased *)
  r_refkeys : list str    (* lower-cased category_name, category_name_full, reference, name, filename *)
}.
Definition name_hit (q : str) (r : row) : bool := substrb q (r_cat r) || substrb q (r_name r).
Definition ref_hit (oref : option str) (r : row) : bool :=
  match oref with None | Some [] => true | Some f => existsb (substrb f) (r_refkeys r) end.
Definition score (q : str) (r : row) : Z := Z.min (lev q (r_cat r)) (lev q (r_name r)).
Definition candidates (q : str) (oref : option str) (rows : list row) : list row :=
  filter (fun r => name_hit q r && ref_hit oref r) rows.
Fixpoint argmin (f : row -> Z) (best : row) (l : list row) : row :=
  match l with
  | [] => best
  | r :: l' => if (f r <? f best)%Z then argmin f r l' else argmin f best l'
  end.
(** sort by score, take the first (None = "No matches found") *)
Definition lookup (q : str) (oref : option str) (rows : list row) : option row :=
  match candidates q oref rows with
  | [] => None
  | r :: l => Some (argmin (score q) r l)
  end.
(** executable summary used by the correspondence check: indices of the candidates and the best score *)
Fixpoint cand_idx (q : str) (oref : option str) (rows : list row) (i : Z) : list Z :=
  match rows with
  | [] => []
  | r :: rs => if name_hit q r && ref_hit oref r then i :: cand_idx q oref rs (i + 1) else cand_idx q oref rs (i + 1)
  end.
Definition best_score (q : str) (oref : option str) (rows : list row) : Z :=
  match lookup q oref rows with None => (-1)%Z | Some r => score q r end.
Fixpoint zlist_eqb (a b : list Z) : bool :=
  match a, b with
  | [], [] => true
  | x :: a', y :: b' => (x =? y)%Z && zlist_eqb a' b'
  | _, _ => false
  end.

(** harness helper: catalogue strings are shipped as UTF-8 string literals and decoded to code points *)
Fixpoint bytes_of (s : String.string) : list Z :=
  match s with
  | String.EmptyString => []
  | String.String a r => Z.of_N (Ascii.N_of_ascii a) :: bytes_of r
  end.
Fixpoint utf8_dec (l : list Z) : list Z :=
  match l with
  | [] => []
  | b :: r =>
      if (b <? 128)%Z then b :: utf8_dec r
      else if (b <? 224)%Z then
        match r with
        | c1 :: r1 => ((b - 192) * 64 + (c1 - 128))%Z :: utf8_dec r1
        | _ => [b]
        end
      else if (b <? 240)%Z then
        match r with
        | c1 :: c2 :: r2 => ((b - 224) * 4096 + (c1 - 128) * 64 + (c2 - 128))%Z :: utf8_dec r2
        | _ => [b]
        end
      else
        match r with
        | c1 :: c2 :: c3 :: r3 =>
            ((b - 240) * 262144 + (c1 - 128) * 4096 + (c2 - 128) * 64 + (c3 - 128))%Z :: utf8_dec r3
        | _ => [b]
        end
  end.
Definition u8 (s : String.string) : str := utf8_dec (bytes_of s).

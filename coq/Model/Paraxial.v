(** * Hand model of optiland/paraxial.py on top of the regenerated paraxial surface kernel.
    The per-surface arithmetic is [k_surf_trace_paraxial] (translated from Surface._trace_paraxial
    through BaseGeometry.localize -> CoordinateSystem.localize -> BaseRays.translate ...); the
    composition of traces into f1 f2 F1 F2 P1 P2 N1 N2 EPL EPD XPL XPD FNO magnification invariant
    marginal_ray chief_ray, SurfaceGroup.inverted and the record filtering are written by hand and
    tied to the implementation by the correspondence check. *)
From Coq Require Import PrimFloat.
From Coq Require Import ZArith List Bool.
From OV Require Import Ops Gen.RealRays Gen.Paraxial.
Import ListNotations.

Section Paraxial.
  Context {O : Ops}.
  Notation T := (T O).

  Record psurf := mkPS {
    p_x : T; p_y : T; p_z : T; p_rx : T; p_ry : T; p_rz : T;
    p_R : T;                 (* radius of curvature, +inf for a plane *)
    p_npre : T; p_npost : T; (* indices at the wavelength of the trace *)
    p_refl : bool; p_stop : bool;
    p_obj : bool             (* the object surface only records *)
  }.

  Definition pstate := (T * T * T * T)%type.   (* y, u, z, x *)

  Definition pstep (s : psurf) (st : pstate) : pstate :=
    if p_obj s then st else
    let '(y, u, z, x) := st in
    k_surf_trace_paraxial O (p_x s) (p_y s) (p_z s) x y z (p_rx s) (p_ry s) (p_rz s) u
                          (p_refl s) (p_R s) (p_npre s) (p_npost s).

  (** SurfaceGroup.trace on paraxial rays: one (y,u) record per traced surface *)
  Fixpoint ptrace (ss : list psurf) (st : pstate) : list (T * T) :=
    match ss with
    | [] => []
    | s :: ss' => let st' := pstep s st in
                  let '(y, u, _, _) := st' in (y, u) :: ptrace ss' st'
    end.

  (** SurfaceGroup.inverted *)
  Definition inverted (ss : list psurf) : list psurf :=
    let zshift := match rev ss with s :: _ => p_z s | [] => ofZ 0 end in
    map (fun s => mkPS (p_x s) (p_y s) (sub zshift (p_z s)) (p_rx s) (p_ry s) (p_rz s)
                       (mul (p_R s) (neg (ofZ 1))) (p_npost s) (p_npre s) (p_refl s) (p_stop s) (p_obj s))
        (rev ss).

  Fixpoint stop_index_from (i : nat) (ss : list psurf) : option nat :=
    match ss with [] => None | s :: ss' => if p_stop s then Some i else stop_index_from (S i) ss' end.
  Definition stop_index (ss : list psurf) := stop_index_from 0 ss.

  Definition pos (ss : list psurf) (i : nat) : T := match nth_error ss i with Some s => p_z s | None => nan_ end.

  (** Paraxial._trace_generic *)
  Definition tg (ss : list psurf) (y u z : T) (reverse : bool) (skip : nat) : list (T * T) :=
    let ss' := if reverse then inverted ss else ss in
    ptrace (skipn skip ss') (y, u, z, ofZ 0).

  Definition lastyu (l : list (T * T)) : T * T := last l (nan_, nan_).
  Definition firstyu (l : list (T * T)) : T * T := hd (nan_, nan_) l.

  Definition f2_signed (ss : list psurf) : T :=
    let r := tg ss (ofZ 1) (ofZ 0) (sub (pos ss 1) (ofZ 1)) false 0 in
    div (neg (fst (firstyu r))) (snd (lastyu r)).
  (** each mirror reverses the sign of the image-space index *)
  Definition mirror_parity (ss : list psurf) : T :=
    fold_left (fun a s => if p_refl s then neg a else a) ss (ofZ 1).
  Definition f2 (ss : list psurf) : T := mul (f2_signed ss) (mirror_parity ss).
  Definition f1 (ss : list psurf) : T :=
    let inv := inverted ss in
    let r := tg ss (ofZ 1) (ofZ 0) (sub (pos inv 0) (ofZ 1)) true 0 in
    div (fst (firstyu r)) (snd (lastyu r)).
  Definition F2 (ss : list psurf) : T :=
    let r := tg ss (ofZ 1) (ofZ 0) (sub (pos ss 1) (ofZ 1)) false 0 in
    div (neg (fst (lastyu r))) (snd (lastyu r)).
  Definition F1 (ss : list psurf) : T :=
    let inv := inverted ss in
    let r := tg ss (ofZ 1) (ofZ 0) (sub (pos inv 0) (ofZ 1)) true 0 in
    div (fst (lastyu r)) (snd (lastyu r)).
  Definition P1 ss := sub (F1 ss) (f1 ss).
  Definition P2 ss := sub (F2 ss) (f2 ss).
  Definition N1 ss := add (add (P1 ss) (f1 ss)) (f2 ss).
  Definition N2 ss := add (add (P2 ss) (f1 ss)) (f2 ss).

  Definition u01 : T := lit 1%Z (-1)%Z 0x1.999999999999ap-4%float.    (* the literal 0.1 *)

  Definition EPL (ss : list psurf) : T :=
    match stop_index ss with
    | Some 0%nat => pos ss 1
    | _ =>
        let inv := inverted ss in
        match stop_index inv with
        | None => nan_
        | Some si =>
            let r := tg ss (ofZ 0) u01 (pos inv si) true (S si) in
            div (fst (lastyu r)) (snd (lastyu r))
        end
    end.

  Inductive aptype := EPDt | FNOt | NAt.

  Definition EPD (ss : list psurf) (ap : aptype) (v : T) : T :=
    match ap with
    | EPDt => v
    | FNOt => div (abs_ (f2 ss)) v
    | NAt =>
        match ss with
        | obj :: _ =>
            let u0 := asin_ (div v (p_npost obj)) in
            let z := sub (EPL ss) (p_z obj) in
            mul (mul (ofZ 2) z) (tan_ u0)
        | [] => nan_
        end
    end.

  Definition XPL (ss : list psurf) : T :=
    match stop_index ss with
    | None => nan_
    | Some si =>
        if Nat.eqb si (length ss - 2) then sub (pos ss (length ss - 2)) (pos ss (length ss - 1))
        else let r := tg ss (ofZ 0) u01 (pos ss si) false (S si) in
             div (neg (fst (lastyu r))) (snd (lastyu r))
    end.

  Definition marginal_ray (ss : list psurf) (ap : aptype) (v : T) : list (T * T) :=
    let epd := EPD ss ap v in
    match ss with
    | obj :: _ =>
        if isinf_ (p_z obj) then tg ss (div epd (ofZ 2)) (ofZ 0) (sub (pos ss 1) (ofZ 10)) false 0
        else let z := sub (EPL ss) (p_z obj) in
             tg ss (ofZ 0) (div epd (mul (ofZ 2) z)) (p_z obj) false 0
    | [] => []
    end.

  Definition XPD ss ap v : T :=
    let '(yi, ui) := lastyu (marginal_ray ss ap v) in
    mul (ofZ 2) (add yi (mul ui (XPL ss))).

  Definition FNO ss ap v : T :=
    match ap with FNOt => v | _ => div (abs_ (f2 ss)) (EPD ss ap v) end.

  Definition nth_yu (l : list (T * T)) (i : nat) : T * T := nth i l (nan_, nan_).

  (** n = optic.n(): post-surface index of every surface *)
  Definition magnification ss ap v : T :=
    let ua := map snd (marginal_ray ss ap v) in
    let n0 := match ss with s :: _ => p_npost s | [] => nan_ end in
    let nl := p_npost (last ss (mkPS nan_ nan_ nan_ nan_ nan_ nan_ nan_ nan_ nan_ false false false)) in
    div (mul n0 (hd nan_ ua)) (mul nl (last ua nan_)).

  Inductive ftype := FAngle | FHeight.

  Definition chief_ray (ss : list psurf) (ft : ftype) (max_field : T) : list (T * T) :=
    let inv := inverted ss in
    match stop_index inv with
    | None => []
    | Some si =>
        let z0 := pos inv si in
        let r := tg ss (ofZ 0) u01 z0 true (S si) in
        let '(yl, ul) := lastyu r in
        let u1 := match ft with
                  | FHeight =>
                      (* carried on from the first surface to the object plane (inverted coordinates) *)
                      let n := length inv in
                      let yobj := add yl (mul ul (sub (pos inv (n - 1)) (pos inv (n - 2)))) in
                      (* aimed at -max_field in the reversed system so that the forward chief ray starts at +max_field *)
                      div (mul (neg u01) max_field) yobj
                  | FAngle => div (mul u01 (tan_ (div (mul max_field pi_) (ofZ 180)))) ul
                  end in
        let rn := tg ss (ofZ 0) u1 z0 true (S si) in
        let '(ynl, unl) := lastyu rn in
        tg ss (neg ynl) unl (pos ss 1) false 0
    end.

  Definition invariant ss ap v ft mf : T :=
    let '(ya1, ua1) := nth_yu (marginal_ray ss ap v) 1 in
    let '(yb1, ub1) := nth_yu (chief_ray ss ft mf) 1 in
    let n1 := match nth_error ss 1 with Some s => p_npost s | None => nan_ end in
    sub (mul (mul yb1 n1) ua1) (mul (mul ya1 n1) ub1).
End Paraxial.

Arguments psurf : clear implicits.

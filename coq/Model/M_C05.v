(** * C05 hand model: the sequential real-ray trace restricted to the meridional plane
    (x = L = 0) of an axially symmetric lens of planes / spheres / conics, refracting or
    reflecting.  Every arithmetic step is one of the kernels REGENERATED from /repo
    (BaseRays.translate, StandardGeometry.distance / surface_normal, Plane.distance,
    RealRays.propagate / refract / reflect); only the plumbing of Surface._trace_real
    (localize -> distance -> propagate -> normal -> interact -> globalize) and the fold of
    SurfaceGroup.trace are written by hand.  Tied to the implementation by the
    correspondence check of tools/props/C05.py (FOps, vm_compute) on generated lenses.

    A non-finite propagation distance (missed surface) stops the model ([None]); the
    implementation carries NaN on. *)
From Coq Require Import ZArith List Bool.
From OV Require Import Ops Gen.RealRays Gen.Standard.
Import ListNotations.

Section M.
  Context {O : Ops}.
  Notation T := (T O).

  Inductive mshape := MPlane | MStd (R k : T).
  Record msurf := mkMS { m_z : T; m_shape : mshape; m_n1 : T; m_n2 : T; m_refl : bool }.

  (** meridional ray state: height y, axial position z, direction cosines M, N *)
  Definition mstate := (T * T * T * T)%type.

  Definition finite_ (t : T) : bool := negb (isnan_ t || isinf_ t).

  Definition mdistance (sh : mshape) (y zl M N : T) : T :=
    match sh with
    | MPlane => k_plane_distance O zl N
    | MStd R k => k_std_distance O k N (ofZ 0) M zl (ofZ 0) y R
    end.

  Definition mnormal (sh : mshape) (y : T) : T * T * T :=
    match sh with
    | MPlane => (ofZ 0, ofZ 0, ofZ 1)
    | MStd R k => k_std_normal O (ofZ 0) y R k
    end.

  (** Surface._trace_real on a meridional ray *)
  Definition mstep (s : msurf) (st : mstate) : option mstate :=
    let '(y, z, M, N) := st in
    let '(_, yl, zl) := k_translate O (neg (ofZ 0)) (neg (ofZ 0)) (neg (m_z s)) (ofZ 0) y z in
    let t := mdistance (m_shape s) yl zl M N in
    if finite_ t then
      let '(_, y1, z1) := k_propagate_vac O t (ofZ 0) (ofZ 0) yl M zl N in
      let '(nx, ny, nz) := mnormal (m_shape s) y1 in
      let '(_, M1, N1) := if m_refl s then k_reflect O nx ny nz (ofZ 0) M N
                          else k_refract O nx ny nz (m_n1 s) (m_n2 s) (ofZ 0) M N in
      let '(_, y2, z2) := k_translate O (ofZ 0) (ofZ 0) (m_z s) (ofZ 0) y1 z1 in
      Some (y2, z2, M1, N1)
    else None.

  (** SurfaceGroup.trace: the state after every surface *)
  Fixpoint mtrace (ss : list msurf) (st : mstate) : option (list mstate) :=
    match ss with
    | [] => Some []
    | s :: ss' =>
        match mstep s st with
        | None => None
        | Some st' => match mtrace ss' st' with None => None | Some l => Some (st' :: l) end
        end
    end.

  (** RayGenerator.generate_rays, meridional: the unit vector from the start point to the
      aim point in the entrance pupil *)
  Definition mlaunch (y0 z0 y1 z1 : T) : mstate :=
    let dy := sub y1 y0 in let dz := sub z1 z0 in
    let mag := sqrt_ (add (add (mul (sub (ofZ 0) (ofZ 0)) (sub (ofZ 0) (ofZ 0))) (mul dy dy)) (mul dz dz)) in
    (y0, z0, div dy mag, div dz mag).

  Definition flat4 (st : mstate) : list T := let '(y, z, M, N) := st in [y; z; M; N].
End M.

Arguments msurf : clear implicits.
Arguments mshape : clear implicits.
Arguments mstate : clear implicits.

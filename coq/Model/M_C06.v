(** * Hand model for property C06, generic over the arithmetic [O : Ops]

    All arithmetic is done by kernels REGENERATED from /repo (Gen.WavefrontC06 from optiland/wavefront.py,
    and through Model.Trace the kernels of Gen.Standard / Gen.RealRays); only the array plumbing is
    written here by hand and tied to the implementation by tools/props/C06.py:
    - [wavefront_data]: Wavefront._generate_data for one field and wavelength (chief ray -> reference
      sphere -> per-ray path length to the sphere -> wavefront error in waves);
    - [strehl_dc]: FFTPSF._generate_pupils + _compute_psf + _get_normalization + strehl_ratio reduced to
      the centre pixel: the DC term of the DFT of the padded pupil over the DC term of the DFT of its modulus;
    - [stig_check]: the property itself, evaluated on the records of the trace model. *)
From Coq Require Import ZArith List Bool String.
From OV Require Import Ops Gen.WavefrontC06 Model.Trace.
Import ListNotations.

Section C06.
  Context {O : Ops}.
  Notation T := (T O).

  (** one recorded ray at the image surface: x y z L M N intensity opd  (last row of the SurfaceGroup arrays) *)
  Record rec := mkRec { c_x : T; c_y : T; c_z : T; c_L : T; c_M : T; c_N : T; c_i : T; c_opd : T }.

  (** the per-system scalars Wavefront reads *)
  Record wf_env := mkEnv {
    w_pupil_z : T;            (* paraxial.XPL() + positions[-1] *)
    w_field_type : string;
    w_Hx : T; w_Hy : T;       (* the field *)
    w_max_field : T;          (* fields.max_field *)
    w_vx : T; w_vy : T;       (* fields.get_vig_factor(Hx, Hy) *)
    w_EPD : T;                (* paraxial.EPD() *)
    w_n_obj : T; w_n_img : T; (* object_surface.material_post.n(w), image_surface.material_pre.n(w) *)
    w_wavelength : T
  }.

  (** Wavefront._generate_data, body of the double loop.  [chief] was traced alone (size 1);
      [rays] with their pupil coordinates (distribution.x, distribution.y).  None = the code raises. *)
  Definition wavefront_data (e : wf_env) (chief : rec) (rays : list (T * T * rec)) : option (list (T * T)) :=
    match k_c06_ref_sphere O (w_pupil_z e) (c_x chief) 1%Z (c_y chief) (c_z chief) with
    | None => None
    | Some (xc, yc, zc, R) =>
        let opd_ref := k_c06_path_length O xc yc zc R (c_opd chief) (w_n_img e) (c_x chief) (c_y chief) (c_z chief)
                                         (c_L chief) (c_M chief) (c_N chief) in
        let opd_ref := k_c06_correct_tilt_xy O opd_ref (ofZ 0) (ofZ 0) (w_field_type e) (w_Hx e) (w_Hy e)
                                             (w_max_field e) (w_vx e) (w_vy e) (w_EPD e) (w_n_obj e) in
        Some (map (fun '(px, py, r) =>
                     k_c06_field_data O (w_wavelength e) opd_ref xc yc zc R (c_i r) (c_opd r) (w_n_img e)
                                      (c_x r) (c_y r) (c_z r) (c_L r) (c_M r) (c_N r)
                                      (w_field_type e) (w_Hx e) (w_Hy e) (w_max_field e) (w_vx e) (w_vy e)
                                      px py (w_EPD e) (w_n_obj e))
                  rays)
    end.

  (** FFTPSF.strehl_ratio() from the wavefront data of the in-disk samples (opd in waves, intensity):
      amplitude = I / mean(I);  P = amplitude * exp(2 pi i opd);
      psf[centre] / 100 = |sum P|^2 / max |FFT |P||^2 = |sum P|^2 / (sum |P|)^2 *)
  Definition mean_ (l : list T) : T := div (sum_list l) (ofZ (Z.of_nat (List.length l))).
  Definition strehl_dc (data : list (T * T)) : T :=
    let m := mean_ (map snd data) in
    let amps := map (fun '(w, i) => div i m) data in
    let re := sum_list (map (fun '(w, i) => mul (div i m) (cos_ (mul (mul (ofZ 2) pi_) w))) data) in
    let im := sum_list (map (fun '(w, i) => mul (div i m) (sin_ (mul (mul (ofZ 2) pi_) w))) data) in
    let s := sum_list (map abs_ amps) in
    div (add (mul re re) (mul im im)) (mul s s).

  (** the property on a pencil of image-surface records: every ray within [tol_xy] of the image point
      (xi, yi), every accumulated optical path within [tol_opl] of the first one *)
  Definition within (tol a b : T) : bool := leb_ (abs_ (sub a b)) tol.
  Definition stig_check (tol_xy tol_opl xi yi : T) (recs : list rec) : bool :=
    match recs with
    | [] => true
    | r0 :: _ =>
        forallb (fun r => within tol_xy (c_x r) xi && within tol_xy (c_y r) yi &&
                          within tol_opl (c_opd r) (c_opd r0)) recs
    end.

  Definition rec_of_ray (r : ray O) : rec :=
    mkRec (rx r) (ry r) (rz r) (rL r) (rM r) (rN r) (ri r) (ropd r).

  (** last record of a model trace *)
  Definition trace_last (ss : list (surf O)) (r : ray O) : option rec :=
    match trace ss r with
    | Some l => match rev l with x :: _ => Some (rec_of_ray x) | [] => None end
    | None => None
    end.
End C06.

Arguments rec : clear implicits.
Arguments wf_env : clear implicits.

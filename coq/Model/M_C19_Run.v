(** * C19 - execution instance of the codec model for the correspondence harness (A := binary64).
    Only used under vm_compute by tools/props/C19.py; nothing is proved about it. *)
From Coq Require Import ZArith List String Bool PrimFloat.
From OV Require Import Ops FloatInst Spec.S_C19 Model.M_C19 Lemmas.L_C19.
Import ListNotations.
Local Open Scope string_scope.


Arguments CS {A}. Arguments GPlane {A}. Arguments GStd {A}. Arguments GEven {A}. Arguments GPoly {A}. Arguments GCheb {A}.
Arguments MIdeal {A}. Arguments MMirror {A}. Arguments MAbbe {A}. Arguments MCatalog {A}. Arguments MFile {A}.
Arguments CSimple {A}. Arguments CFresnel {A}. Arguments BLambert {A}. Arguments BGauss {A}. Arguments PRadial {A}.
Arguments SObject {A}. Arguments SStandard {A}. Arguments SImage {A}. Arguments Field {A}. Arguments WL {A}.
Arguments SysAp {A}. Arguments Pickup {A}. Arguments MRHSolve {A}. Arguments PIgnore {A}. Arguments PState {A}.
Arguments LMat {A}. Arguments LPol {A}.
Arguments ESetRadius {A}. Arguments ESetConic {A}. Arguments ESetIndex {A}. Arguments ESetCoeff {A}. Arguments ESetPos {A}. Arguments ESetFlat {A}. Arguments ESetPlaneConic {A}.
Arguments ESetApertureValue {A}. Arguments ESetPhysAperture {A}. Arguments EAddPickup {A}. Arguments EAddSolve {A}.

Definition fJ := json float (live float).
Definition f_lower (s : string) : string := s.     (* the harness only feeds lower-case units where it matters *)

Section Run.
  Variable I : impl.
  Variable cat : string -> option string -> bool -> string.   (* file names as observed on the implementation *)

  Definition f_to_dict : lens float -> fJ := to_dict float infinity 0%float 1%float (-1)%float cat I.
  Definition f_decode : fJ -> option (lens float) := decode float 0%float 1%float 0x1.b7cdfd9d7bdbbp-34%float f_lower I.

  (** structural equality of dictionaries; numbers bitwise up to NaN payload / signed zero ([same]) *)
  Section Eq.
    Variable lv : live float -> live float -> bool.
    Fixpoint jeqb (a b : fJ) {struct a} : bool :=
      match a, b with
      | JNum x, JNum y => same x y
      | JInt x, JInt y => Z.eqb x y
      | JBool x, JBool y => Bool.eqb x y
      | JStr x, JStr y => String.eqb x y
      | JNull, JNull => true
      | JList l, JList m =>
          (fix go (l : list fJ) (m : list fJ) {struct l} : bool :=
             match l, m with
             | [], [] => true
             | x :: l', y :: m' => jeqb x y && go l' m'
             | _, _ => false
             end) l m
      | JDict l, JDict m =>
          (fix go (l : list (string * fJ)) (m : list (string * fJ)) {struct l} : bool :=
             match l, m with
             | [], [] => true
             | (k, x) :: l', (k', y) :: m' => String.eqb k k' && jeqb x y && go l' m'
             | _, _ => false
             end) l m
      | JLive x, JLive y => lv x y
      | _, _ => false
      end.
  End Eq.

  Definition enc_live (o : live float) : fJ :=
    match o with
    | LMat m => e_material float 0%float (-1)%float cat m
    | LPol p => e_pol float impl_fixed p
    end.
  Definition jeqb0 := jeqb (fun _ _ => false).
  Definition jeq (a b : fJ) : bool := jeqb (fun x y => jeqb0 (enc_live x) (enc_live y)) a b.

  (** (a) model to_dict of the state read from the attributes = the real dictionary *)
  Definition chk_enc (l : lens float) (d : fJ) : bool := jeq (f_to_dict l) d.
  (** (b) model decode of the real dictionary = the state read from the attributes of the real reloaded lens
      ([None] when the real from_dict raised) *)
  Definition chk_dec (d : fJ) (l2 : option (lens float)) : bool :=
    match f_decode d, l2 with
    | Some m, Some l => jeq (f_to_dict m) (f_to_dict l)
    | None, None => true
    | _, _ => false
    end.
  (** (c) model JSON-safety = json.dumps succeeded *)
  Definition chk_safe (l : lens float) (ok : bool) : bool := Bool.eqb (json_safe (f_to_dict l)) ok.
  (** (d) an edit changes exactly what the edit model says: the state after the real edit is the state before
      with the listed components overwritten *)
  Definition chk_edit (l : lens float) (es : list (edit float)) (l' : lens float) : bool :=
    jeq (f_to_dict (fold_left (apply_edit float 0%float) es l)) (f_to_dict l').
End Run.

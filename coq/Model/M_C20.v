(** * C20 - hand model of the Zemax importer
    optiland/fileio/zemax_handler.py :: ZemaxFileReader (operand table, every _read_* handler, the
    line loop of _read_file and its field post-processing) and
    optiland/fileio/converters.py :: ZemaxToOpticConverter (surface loop, aperture, fields, wavelengths),
    together with the parts of Optic.add_surface / SurfaceFactory / WavelengthGroup that decide what the
    resulting lens contains (plane vs. conic geometry, vertex positions, stop flag, primary wavelength).

    A line is the list of its whitespace-separated tokens.  A token carries its text together with what
    Python's [float(text)] and [int(text)] return ([None] = ValueError); the harness fills these two fields by
    calling Python, the theorems build them with [ntok]/[itok]/[wtok] ("text decoding is numeric", trusted).

    Exceptions are modelled exactly where they change the outcome: [IndexError]/[KeyError] raised inside a
    handler are swallowed by the line loop AFTER the handler's earlier writes took effect ([ESkip]);
    any other exception aborts the import ([ERaise] / [None]).  Generic over [O : Ops]. *)
From Coq Require Import ZArith List String Bool.
From OV Require Import Ops.
Import ListNotations.
Local Open Scope string_scope.

Inductive ev (A : Type) := EOk (a : A) | ESkip | ERaise.
Arguments EOk {A}. Arguments ESkip {A}. Arguments ERaise {A}.

Section Model.
  Context {O : Ops}.
  Notation T := (T O).

  Record tok := mkTok { txt : string; asF : option T; asI : option Z }.

  Definition tokAt (d : list tok) (i : Z) : ev tok :=
    match nthZ d i with Some t => EOk t | None => ESkip end.
  Definition getF (d : list tok) (i : Z) : ev T :=
    match tokAt d i with
    | EOk t => match asF t with Some x => EOk x | None => ERaise end
    | ESkip => ESkip | ERaise => ERaise end.
  Definition getI (d : list tok) (i : Z) : ev Z :=
    match tokAt d i with
    | EOk t => match asI t with Some x => EOk x | None => ERaise end
    | ESkip => ESkip | ERaise => ERaise end.
  Definition getS (d : list tok) (i : Z) : ev string :=
    match tokAt d i with EOk t => EOk (txt t) | ESkip => ESkip | ERaise => ERaise end.

  (** ** reader state = self.data + self._current_surf_data + self._current_surf *)
  Inductive medium := MName (s : string) | MCat (s : string) (ref : option string) | MAbbe (n v : T).

  Record sdata := mkS {
    d_type : string; d_stop : bool; d_conic : T; d_mat : medium;
    d_radius : option T; d_thick : option T; d_index : option T; d_abbe : option T;
    d_params : list (Z * T) }.

  Definition fresh_surf : sdata := mkS "standard" false (ofZ 0) (MName "air") None None None None [].

  Record rstate := mkR {
    r_ap : list (string * T);              (* data['aperture'], insertion ordered *)
    r_fnum : option Z; r_ftype : option string; r_ftele : option bool; r_fafoc : option bool;
    r_fx : option (list T); r_fy : option (list T);
    r_wnum : option Z; r_wdata : list T; r_wprim : option Z;
    r_surfs : list sdata;                  (* data['surfaces'][0 .. k-1] *)
    r_cur : sdata; r_idx : Z;
    r_gcat : option (list string) }.

  Definition init_state : rstate :=
    mkR [] None None None None None None None [] None [] fresh_surf (-1) None.

  Definition set_ap v (s : rstate) := mkR v (r_fnum s) (r_ftype s) (r_ftele s) (r_fafoc s) (r_fx s) (r_fy s) (r_wnum s) (r_wdata s) (r_wprim s) (r_surfs s) (r_cur s) (r_idx s) (r_gcat s).
  Definition set_fnum v (s : rstate) := mkR (r_ap s) v (r_ftype s) (r_ftele s) (r_fafoc s) (r_fx s) (r_fy s) (r_wnum s) (r_wdata s) (r_wprim s) (r_surfs s) (r_cur s) (r_idx s) (r_gcat s).
  Definition set_ftype v (s : rstate) := mkR (r_ap s) (r_fnum s) v (r_ftele s) (r_fafoc s) (r_fx s) (r_fy s) (r_wnum s) (r_wdata s) (r_wprim s) (r_surfs s) (r_cur s) (r_idx s) (r_gcat s).
  Definition set_ftele v (s : rstate) := mkR (r_ap s) (r_fnum s) (r_ftype s) v (r_fafoc s) (r_fx s) (r_fy s) (r_wnum s) (r_wdata s) (r_wprim s) (r_surfs s) (r_cur s) (r_idx s) (r_gcat s).
  Definition set_fafoc v (s : rstate) := mkR (r_ap s) (r_fnum s) (r_ftype s) (r_ftele s) v (r_fx s) (r_fy s) (r_wnum s) (r_wdata s) (r_wprim s) (r_surfs s) (r_cur s) (r_idx s) (r_gcat s).
  Definition set_fx v (s : rstate) := mkR (r_ap s) (r_fnum s) (r_ftype s) (r_ftele s) (r_fafoc s) v (r_fy s) (r_wnum s) (r_wdata s) (r_wprim s) (r_surfs s) (r_cur s) (r_idx s) (r_gcat s).
  Definition set_fy v (s : rstate) := mkR (r_ap s) (r_fnum s) (r_ftype s) (r_ftele s) (r_fafoc s) (r_fx s) v (r_wnum s) (r_wdata s) (r_wprim s) (r_surfs s) (r_cur s) (r_idx s) (r_gcat s).
  Definition set_wnum v (s : rstate) := mkR (r_ap s) (r_fnum s) (r_ftype s) (r_ftele s) (r_fafoc s) (r_fx s) (r_fy s) v (r_wdata s) (r_wprim s) (r_surfs s) (r_cur s) (r_idx s) (r_gcat s).
  Definition set_wdata v (s : rstate) := mkR (r_ap s) (r_fnum s) (r_ftype s) (r_ftele s) (r_fafoc s) (r_fx s) (r_fy s) (r_wnum s) v (r_wprim s) (r_surfs s) (r_cur s) (r_idx s) (r_gcat s).
  Definition set_wprim v (s : rstate) := mkR (r_ap s) (r_fnum s) (r_ftype s) (r_ftele s) (r_fafoc s) (r_fx s) (r_fy s) (r_wnum s) (r_wdata s) v (r_surfs s) (r_cur s) (r_idx s) (r_gcat s).
  Definition set_cur v (s : rstate) := mkR (r_ap s) (r_fnum s) (r_ftype s) (r_ftele s) (r_fafoc s) (r_fx s) (r_fy s) (r_wnum s) (r_wdata s) (r_wprim s) (r_surfs s) v (r_idx s) (r_gcat s).
  Definition set_gcat v (s : rstate) := mkR (r_ap s) (r_fnum s) (r_ftype s) (r_ftele s) (r_fafoc s) (r_fx s) (r_fy s) (r_wnum s) (r_wdata s) (r_wprim s) (r_surfs s) (r_cur s) (r_idx s) v.
  Definition next_surf (s : rstate) :=
    mkR (r_ap s) (r_fnum s) (r_ftype s) (r_ftele s) (r_fafoc s) (r_fx s) (r_fy s) (r_wnum s) (r_wdata s) (r_wprim s)
        (if (0 <=? r_idx s)%Z then r_surfs s ++ [r_cur s] else r_surfs s) fresh_surf (r_idx s + 1)%Z (r_gcat s).

  Definition c_type v (c : sdata) := mkS v (d_stop c) (d_conic c) (d_mat c) (d_radius c) (d_thick c) (d_index c) (d_abbe c) (d_params c).
  Definition c_stop v (c : sdata) := mkS (d_type c) v (d_conic c) (d_mat c) (d_radius c) (d_thick c) (d_index c) (d_abbe c) (d_params c).
  Definition c_conic v (c : sdata) := mkS (d_type c) (d_stop c) v (d_mat c) (d_radius c) (d_thick c) (d_index c) (d_abbe c) (d_params c).
  Definition c_mat v (c : sdata) := mkS (d_type c) (d_stop c) (d_conic c) v (d_radius c) (d_thick c) (d_index c) (d_abbe c) (d_params c).
  Definition c_radius v (c : sdata) := mkS (d_type c) (d_stop c) (d_conic c) (d_mat c) (Some v) (d_thick c) (d_index c) (d_abbe c) (d_params c).
  Definition c_thick v (c : sdata) := mkS (d_type c) (d_stop c) (d_conic c) (d_mat c) (d_radius c) (Some v) (d_index c) (d_abbe c) (d_params c).
  Definition c_index v (c : sdata) := mkS (d_type c) (d_stop c) (d_conic c) (d_mat c) (d_radius c) (d_thick c) (Some v) (d_abbe c) (d_params c).
  Definition c_abbe v (c : sdata) := mkS (d_type c) (d_stop c) (d_conic c) (d_mat c) (d_radius c) (d_thick c) (d_index c) (Some v) (d_params c).
  Definition c_params v (c : sdata) := mkS (d_type c) (d_stop c) (d_conic c) (d_mat c) (d_radius c) (d_thick c) (d_index c) (d_abbe c) v.
  Definition upd_cur (f : sdata -> sdata) (s : rstate) := set_cur (f (r_cur s)) s.

  (** dict[key] = value on an insertion-ordered dict *)
  Fixpoint dict_set {K V} (eqb : K -> K -> bool) (k : K) (v : V) (l : list (K * V)) : list (K * V) :=
    match l with
    | [] => [(k, v)]
    | (k', v') :: r => if eqb k k' then (k, v) :: r else (k', v') :: dict_set eqb k v r
    end.
  Fixpoint dict_get {K V} (eqb : K -> K -> bool) (k : K) (l : list (K * V)) : option V :=
    match l with [] => None | (k', v') :: r => if eqb k k' then Some v' else dict_get eqb k r end.

  (** continue with [f] on success; [st] is the state holding the writes made so far *)
  Definition bindE {A} (e : ev A) (st : rstate) (f : A -> option rstate) : option rstate :=
    match e with EOk a => f a | ESkip => Some st | ERaise => None end.

  (** external lookup: does Material(name[, reference]) find a catalogue entry (C18's subject) *)
  Variable resolve : string -> option string -> bool.

  (** ** the handlers, one per entry of _operand_table *)
  Definition h_fno (d : list tok) (st : rstate) : option rstate :=
    bindE (getI d 2) st (fun m =>
      if (m =? 0)%Z then bindE (getF d 1) st (fun v => Some (set_ap (dict_set String.eqb "imageFNO" v (r_ap st)) st))
      else if (m =? 1)%Z then bindE (getF d 1) st (fun v => Some (set_ap (dict_set String.eqb "paraxialImageFNO" v (r_ap st)) st))
      else Some st).
  Definition h_epd (d : list tok) (st : rstate) : option rstate :=
    bindE (getF d 1) st (fun v => Some (set_ap (dict_set String.eqb "EPD" v (r_ap st)) st)).
  Definition h_obna (d : list tok) (st : rstate) : option rstate :=
    bindE (getI d 2) st (fun m =>
      if (m =? 0)%Z then bindE (getF d 1) st (fun v => Some (set_ap (dict_set String.eqb "objectNA" v (r_ap st)) st))
      else if (m =? 1)%Z then bindE (getF d 1) st (fun v => Some (set_ap (dict_set String.eqb "object_cone_angle" v (r_ap st)) st))
      else Some st).
  Definition h_floa (d : list tok) (st : rstate) : option rstate :=
    Some (set_ap (dict_set String.eqb "floating_stop" (ofZ 1) (r_ap st)) st).

  Definition ftype_name (m : Z) : string :=
    if (m =? 0)%Z then "angle" else if (m =? 1)%Z then "object_height"
    else if (m =? 2)%Z then "paraxial_image_height" else if (m =? 3)%Z then "real_image_height"
    else if (m =? 4)%Z then "theodolite_angle" else "unsupported".
  Definition h_ftyp (d : list tok) (st : rstate) : option rstate :=
    bindE (getI d 3) st (fun nf => let st := set_fnum (Some nf) st in
    bindE (getI d 1) st (fun m => let st := set_ftype (Some (ftype_name m)) st in
    bindE (getI d 4) st (fun nw => let st := set_wnum (Some nw) st in
    bindE (getI d 2) st (fun t => let st := set_ftele (Some (t =? 1)%Z) st in
    bindE (getI d 7) st (fun a => Some (set_fafoc (Some (a =? 1)%Z) st)))))).

  (** [float(v) for v in tokens] *)
  Fixpoint floats (l : list tok) : option (list T) :=
    match l with
    | [] => Some []
    | t :: r => match asF t, floats r with Some x, Some xs => Some (x :: xs) | _, _ => None end
    end.
  Definition h_xfln (d : list tok) (st : rstate) : option rstate :=
    match r_fnum st with
    | None => Some st
    | Some nf => match floats (sliceZ d 1 (Some (nf + 1)%Z)) with
                 | Some xs => Some (set_fx (Some xs) st) | None => None end
    end.
  Definition h_yfln (d : list tok) (st : rstate) : option rstate :=
    match r_fnum st with
    | None => Some st
    | Some nf => match floats (sliceZ d 1 (Some (nf + 1)%Z)) with
                 | Some xs => Some (set_fy (Some xs) st) | None => None end
    end.
  Definition h_wavm (d : list tok) (st : rstate) : option rstate :=
    bindE (getF d 2) st (fun v =>
      match r_wnum st with
      | None => Some st
      | Some nw => if (Z.of_nat (List.length (r_wdata st)) <? nw)%Z then Some (set_wdata (r_wdata st ++ [v]) st) else Some st
      end).
  Definition h_pwav (d : list tok) (st : rstate) : option rstate :=
    bindE (getI d 1) st (fun p => Some (set_wprim (Some (p - 1)%Z) st)).
  Definition h_surf (d : list tok) (st : rstate) : option rstate := Some (next_surf st).
  Definition h_type (d : list tok) (st : rstate) : option rstate :=
    bindE (getS d 1) st (fun s =>
      Some (upd_cur (c_type (if s =? "STANDARD" then "standard" else if s =? "EVENASPH" then "even_asphere" else "unsupported")) st)).
  Definition h_parm (d : list tok) (st : rstate) : option rstate :=
    bindE (getI d 1) st (fun k => bindE (getF d 2) st (fun v =>
      Some (upd_cur (fun c => c_params (dict_set Z.eqb (k - 1)%Z v (d_params c)) c) st))).
  (** try: 1 / float(data[1])  except ZeroDivisionError: np.inf *)
  Definition radius_of_curv (c : T) : T := if eqb_ c (ofZ 0) then inf_ else div (ofZ 1) c.
  Definition h_curv (d : list tok) (st : rstate) : option rstate :=
    bindE (getF d 1) st (fun c => Some (upd_cur (c_radius (radius_of_curv c)) st)).
  Definition h_disz (d : list tok) (st : rstate) : option rstate :=
    bindE (getS d 1) st (fun s =>
      if s =? "INFINITY" then Some (upd_cur (c_thick inf_) st)
      else bindE (getF d 1) st (fun v => Some (upd_cur (c_thick v) st))).
  Definition h_coni (d : list tok) (st : rstate) : option rstate :=
    bindE (getF d 1) st (fun v => Some (upd_cur (c_conic v) st)).
  Fixpoint try_catalogs (name : string) (cats : list string) : option string :=
    match cats with [] => None | m :: r => if resolve name (Some m) then Some m else try_catalogs name r end.
  Definition resolve_glass (name : string) (gcat : option (list string)) (n v : T) : medium :=
    if resolve name None then MCat name None
    else match gcat with
         | Some cats => match try_catalogs name cats with Some m => MCat name (Some m) | None => MAbbe n v end
         | None => MAbbe n v
         end.
  Definition h_glas (d : list tok) (st : rstate) : option rstate :=
    bindE (getS d 1) st (fun name => let st := upd_cur (c_mat (MName name)) st in
    bindE (getF d 4) st (fun n => let st := upd_cur (c_index n) st in
    bindE (getF d 5) st (fun v => let st := upd_cur (c_abbe v) st in
      Some (upd_cur (c_mat (resolve_glass name (r_gcat st) n v)) st)))).
  Definition h_stop (d : list tok) (st : rstate) : option rstate := Some (upd_cur (c_stop true) st).
  Definition h_mode (d : list tok) (st : rstate) : option rstate :=
    bindE (getS d 1) st (fun s => if s =? "SEQ" then Some st else None).
  Definition h_gcat (d : list tok) (st : rstate) : option rstate :=
    Some (set_gcat (Some (map txt (sliceZ d 1 None))) st).

  (** _operand_table[data[0]](data);  IndexError (empty line) and KeyError (unknown operand) skip the line *)
  Definition dispatch (d : list tok) (st : rstate) : option rstate :=
    match d with
    | [] => Some st
    | t :: _ =>
      let op := txt t in
      if op =? "FNUM" then h_fno d st else if op =? "ENPD" then h_epd d st
      else if op =? "OBNA" then h_obna d st else if op =? "FLOA" then h_floa d st
      else if op =? "FTYP" then h_ftyp d st else if op =? "XFLN" then h_xfln d st
      else if op =? "YFLN" then h_yfln d st else if op =? "WAVM" then h_wavm d st
      else if op =? "PWAV" then h_pwav d st else if op =? "SURF" then h_surf d st
      else if op =? "TYPE" then h_type d st else if op =? "PARM" then h_parm d st
      else if op =? "CURV" then h_curv d st else if op =? "DISZ" then h_disz d st
      else if op =? "CONI" then h_coni d st else if op =? "GLAS" then h_glas d st
      else if op =? "STOP" then h_stop d st else if op =? "MODE" then h_mode d st
      else if op =? "GCAT" then h_gcat d st else Some st
    end.

  Fixpoint read_lines (ls : list (list tok)) (st : rstate) : option rstate :=
    match ls with
    | [] => Some st
    | d :: r => match dispatch d st with Some st' => read_lines r st' | None => None end
    end.

  (** field post-processing of _read_file: set of (x, y) pairs, sorted by y *)
  Definition pair_eqb (p q : T * T) : bool := eqb_ (fst p) (fst q) && eqb_ (snd p) (snd q).
  Fixpoint dedup (l : list (T * T)) (seen : list (T * T)) : list (T * T) :=
    match l with
    | [] => []
    | p :: r => if existsb (pair_eqb p) seen then dedup r seen else p :: dedup r (p :: seen)
    end.
  Fixpoint insert_y (p : T * T) (l : list (T * T)) : list (T * T) :=
    match l with
    | [] => [p]
    | q :: r => if ltb_ (snd p) (snd q) then p :: q :: r else q :: insert_y p r
    end.
  Definition sort_y (l : list (T * T)) : list (T * T) := fold_left (fun acc p => insert_y p acc) l [].
  Definition canon_fields (xs ys : list T) : list (T * T) := sort_y (dedup (combine xs ys) []).

  (** what _read_file leaves in self.data (None = the constructor raises) *)
  Record rdata := mkD {
    q_ap : list (string * T); q_ftype : option string; q_fields : list (T * T);
    q_waves : list T; q_prim : option Z; q_surfs : list sdata }.
  Definition finish_read (st : rstate) : option rdata :=
    match r_ap st with
    | [] => None                                                  (* 'Failed to read Zemax file.' *)
    | _ => match r_fx st, r_fy st with
           | Some xs, Some ys =>
             match canon_fields xs ys with
             | [] => None                                         (* zip of an empty list cannot be unpacked *)
             | fs => Some (mkD (r_ap st) (r_ftype st) fs (r_wdata st) (r_wprim st) (r_surfs st))
             end
           | _, _ => None                                         (* KeyError 'x' / 'y' *)
           end
    end.
  Definition read_file (ls : list (list tok)) : option rdata :=
    match read_lines ls init_state with Some st => finish_read st | None => None end.

  (** ** converter + Optic construction *)
  Inductive lmedium := LAir | LCat (s : string) (ref : option string) | LAbbe (n v : T).
  Inductive lshape := LPlane | LStd (R k : T) | LEven (R k : T) (c : list T).
  Record lsurf := mkL { l_shape : lshape; l_z : T; l_stop : bool; l_med : lmedium }.
  Record lens := mkLens {
    l_surfs : list lsurf; l_apt : string; l_apv : T; l_ftype : string;
    l_fields : list (T * T); l_waves : list T; l_prim : Z }.

  Definition conv_medium (m : medium) : option lmedium :=
    match m with
    | MName s => if s =? "air" then Some LAir else if resolve s None then Some (LCat s None) else None
    | MCat s r => Some (LCat s r)
    | MAbbe n v => Some (LAbbe n v)
    end.
  Fixpoint params8 (ps : list (Z * T)) (ks : list Z) : option (list T) :=
    match ks with
    | [] => Some []
    | k :: r => match dict_get Z.eqb k ps, params8 ps r with Some v, Some vs => Some (v :: vs) | _, _ => None end
    end.
  Definition conv_shape (c : sdata) : option lshape :=
    match d_radius c with
    | None => None                                                 (* KeyError 'radius' *)
    | Some R =>
      if d_type c =? "standard" then Some (if isinf_ R then LPlane else LStd R (d_conic c))
      else if d_type c =? "even_asphere" then
        match params8 (d_params c) (rangeZ 0 8) with Some cs => Some (LEven R (d_conic c) cs) | None => None end
      else None                                                    (* 'Unsupported surface type.' *)
    end.
  Definition clear_stops (l : list lsurf) : list lsurf := map (fun s => mkL (l_shape s) (l_z s) false (l_med s)) l.
  Definition last_z (l : list lsurf) : T := match rev l with s :: _ => l_z s | [] => ofZ 0 end.
  (** SurfaceFactory._configure_cs *)
  Definition vertex_z (index : nat) (acc : list lsurf) (thickness last_thickness : T) : T :=
    match index with
    | 0%nat => neg thickness
    | 1%nat => ofZ 0
    | _ => add (last_z acc) last_thickness
    end.
  Definition push_surf (acc : list lsurf) (sh : lshape) (z : T) (stop : bool) (m : lmedium) : list lsurf :=
    let stop := match acc with [] => false | _ => stop end in      (* ObjectSurface: is_stop=False *)
    (if stop then clear_stops acc else acc) ++ [mkL sh z stop m].
  Fixpoint conv_surfs (l : list sdata) (acc : list lsurf) (last_t : T) : option (list lsurf * T) :=
    match l with
    | [] => Some (acc, last_t)
    | c :: r =>
      match conv_shape c, d_thick c, conv_medium (d_mat c) with
      | Some sh, Some t, Some m =>
        conv_surfs r (push_surf acc sh (vertex_z (List.length acc) acc t last_t) (d_stop c) m) t
      | _, _, _ => None
      end
    end.
  Definition primary_of (n : nat) (p : Z) : Z :=
    if andb (0 <=? p)%Z (p <? Z.of_nat n)%Z then p else 0%Z.

  Definition convert (q : rdata) : option lens :=
    match conv_surfs (q_surfs q) [] (ofZ 0) with
    | None => None
    | Some (ss, last_t) =>
      let ss := push_surf ss LPlane (vertex_z (List.length ss) ss (ofZ 0) last_t) false LAir in
      match q_ap q with
      | [] => None
      | (k, v) :: _ =>
        if (k =? "EPD") || (k =? "imageFNO") || (k =? "objectNA") then
          match q_ftype q, q_prim q with
          | Some ft, Some p => Some (mkLens ss k v ft (q_fields q) (q_waves q) (primary_of (List.length (q_waves q)) p))
          | _, _ => None
          end
        else None
      end
    end.

  Definition load (ls : list (list tok)) : option lens :=
    match read_file ls with Some q => convert q | None => None end.
End Model.

(** * C01: read-out of a model state in the order tools/c01lib.py:observe uses for the implementation,
    and the comparison run inside Coq by the correspondence check (binary64 instance). *)
From Coq Require Import PrimFloat.
From Coq Require Import ZArith List Bool String.
From OV Require Import Ops FloatInst Gen.LensEdit Model.Paraxial Model.M_C01.
Import ListNotations.

Definition kind_tag (g : gkind) : Z :=
  match g with GPlane => 0 | GStd => 1 | GEven => 2 | GOther => 3 end%Z.
Definition zb (b : bool) : Z := if b then 1%Z else 0%Z.

Definition obs_num (l : lens FOps) : list float :=
  flat_map (fun s => [s_x s; s_y s; s_z s; s_rx s; s_ry s; s_R s; conic_read s] ++
                     [index_of l (s_mpre s); index_of l (s_mpost s)]) (surfs l)
  ++ waves l ++ [last_t l].

(** aspheric / polynomial / Chebyshev coefficients (row-major), compared with a purely RELATIVE tolerance:
    they are many orders of magnitude below 1 *)
Definition has_coefs (g : gkind) : bool := match g with GEven | GOther => true | _ => false end.
Definition obs_coef (l : lens FOps) : list float :=
  flat_map (fun s => if has_coefs (s_kind s) then s_c s else []) (surfs l).

Definition rclose (tol a b : float) : bool :=
  if F_isnan a || F_isnan b then F_isnan a && F_isnan b
  else (a =? b)%float || (abs (a - b) <=? tol * (abs a + abs b))%float.
Fixpoint rclose_list (tol : float) (a b : list float) : bool :=
  match a, b with
  | [], [] => true
  | x :: a', y :: b' => rclose tol x y && rclose_list tol a' b'
  | _, _ => false
  end.

Definition obs_int (l : lens FOps) : list Z :=
  flat_map (fun s => [kind_tag (s_kind s); zb (match s_k s with Some _ => true | None => false end);
                      zb (s_stop s); zb (s_refl s);
                      if has_coefs (s_kind s) then Z.of_nat (List.length (s_c s)) else 0%Z]) (surfs l)
  ++ map Z.of_nat (mat_refs l)
  ++ map zb (prims l)
  ++ [Z.of_nat (List.length (pickups l)); Z.of_nat (List.length (solves l)); Z.of_nat (List.length (surfs l))].

Fixpoint zlist_eqb (a b : list Z) : bool :=
  match a, b with
  | [], [] => true
  | x :: a', y :: b' => (x =? y)%Z && zlist_eqb a' b'
  | _, _ => false
  end.

Definition state_ok (tol : float) (got : option (lens FOps)) (exp : option (list float * list float * list Z)) : bool :=
  match got, exp with
  | None, None => true
  | Some l, Some (nums, coefs, ints) =>
      close_list tol (obs_num l) nums && rclose_list 0x1p-40 (obs_coef l) coefs && zlist_eqb (obs_int l) ints
  | _, _ => false
  end.

(** one boolean per expected state; a missing or extra model state is a failure *)
Fixpoint check_trace (tol : float) (got : list (option (lens FOps))) (exp : list (option (list float * list float * list Z)))
  : list bool :=
  match exp with
  | [] => []
  | e :: exp' =>
      match got with
      | [] => false :: check_trace tol [] exp'
      | g :: got' => state_ok tol g e :: check_trace tol got' exp'
      end
  end.

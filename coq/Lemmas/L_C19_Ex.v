(** * C19 - the hypotheses of the theorems are satisfiable (concrete lens over A := Z), and the model
    computes: the round trip of the example is checked by evaluation as well. *)
From Coq Require Import ZArith List String Bool.
From OV Require Import Spec.S_C19 Model.M_C19 Lemmas.L_C19 Lemmas.L_C19_Pins.
Import ListNotations.
Local Open Scope string_scope.
Local Open Scope Z_scope.

Definition cs0 (z : Z) : cs Z := CS Z 0 0 z 0 0 0 None.
Definition air : material Z := MIdeal Z 1 0.
Definition ex_surfs : list (surface Z) :=
  [SObject Z (GPlane Z (cs0 (-100)) None) air;
   SStandard Z (GStd Z (cs0 0) 50 0) air (MCatalog Z "N-BK7" None true None None) true
             (Some (PRadial Z 5 0)) (Some (CSimple Z 1 0)) None false;
   SStandard Z (GEven Z (CS Z 0 0 4 0 0 0 (Some (cs0 1))) (-50) 0 1 100 [1; 2]) (MCatalog Z "N-BK7" None true None None) air
             false None None (Some (BGauss Z 1)) false;
   SStandard Z (GPlane Z (cs0 90) None) air air false None None None false].
Definition ex_lens : lens Z :=
  mkLens (Some (SysAp Z "EPD" 10 false)) (Some "angle") ex_surfs
         [Field Z (Some "angle") 0 0 0 0; Field Z (Some "angle") 0 7 0 0] false
         [WL Z 48 false "um"; WL Z 58 true "um"; WL Z 65 false "um"] (PIgnore Z)
         [Pickup Z 1 "radius" 2 (-1) 0] [MRHSolve Z 3 0] false.

Definition idl (s : string) := s.
Definition cat (n : string) (r : option string) (b : bool) := n.

Example ex_wf : wf Z idl ex_lens.
Proof.
  split.
  - intros w Hw. reflexivity.
  - right. exists [WL Z 48 false "um"], 58, "um", [WL Z 65 false "um"]. repeat split.
    + intros w [<-|[]]. reflexivity.
    + intros w [<-|[]]. reflexivity.
Qed.

(** on the implementation as it is (whatever the flags are): the example lens has no image-class surface, an
    aperture, no Fresnel coating and no polarization state, and identity is a fixed point of any pickups *)
Example ex_reloadable : forall I, reloadable Z idl I (fun l => l) ex_lens.
Proof. intros I. split; [exact ex_wf|]. split; [reflexivity|reflexivity]. Qed.

Example ex_live_free : forall I, live_free I ex_lens = true.
Proof. reflexivity. Qed.

Example ex_roundtrip_by_evaluation :
  from_dict Z 0 1 0 idl impl_now (fun l => l) (to_dict Z 0 0 1 (-1) cat impl_now ex_lens) = Some ex_lens.
Proof. vm_compute. reflexivity. Qed.

Example ex_serialisable_by_evaluation : json_safe (to_dict Z 0 0 1 (-1) cat impl_now ex_lens) = true.
Proof. vm_compute. reflexivity. Qed.

(** an edit history on the example *)
Example ex_edits :
  json_safe (to_dict Z 0 0 1 (-1) cat impl_now
     (fold_left (apply_edit Z 0) [ESetRadius Z 3 40; ESetPos Z 2 0 0 5; ESetFlat Z 1 None; ESetIndex Z 1 2; ESetCoeff Z 2 0 9] ex_lens)) = true.
Proof. vm_compute. reflexivity. Qed.

(** * C05: one surface of the real meridional trace converges quadratically to the paraxial
    refraction + transfer.

    [rstep] is the exact-real reading of [Model.M_C05.mstep]: the ROps kernels regenerated from
    /repo with the conic intersection written as the root nearest to the vertex (that the
    kernel returns this root is [L_C05_Link.select_t1/t2]; the two are put together in
    L_C05_Chain.v). *)
From Coq Require Import Reals Lra Lia ZArith List Bool Psatz.
From OV Require Import Ops RInst Gen.RealRays Gen.Standard Spec.S_ABCD Spec.S_C05 Lemmas.L_C05_E2.
Local Open Scope R_scope.

(** ** automation: structural descent through an expression in E2 / Od atoms *)
Ltac conv :=
  lazymatch goal with
  | |- E2 (fun _ => ?c) _ => apply E2_const
  | |- E2 (fun e => @?a e + @?b e) _ => eapply (E2_add a b); conv
  | |- E2 (fun e => @?a e - @?b e) _ => eapply (E2_sub a b); conv
  | |- E2 (fun e => - @?a e) _ => eapply (E2_opp a); conv
  | |- E2 (fun e => @?a e * @?b e) _ => (eapply (E2_mul a b) + eapply (Od_mul_Od a b)); conv
  | |- E2 (fun e => @?a e / @?b e) _ => eapply (E2_div a b); [conv | conv | ]
  | |- E2 (fun e => sqrt (@?a e)) _ => eapply (E2_sqrt a); [conv | ]
  | |- E2 (fun e => Rabs (@?a e)) _ => eapply (E2_abs a); conv
  | |- E2 (fun e => Rsign (@?a e)) _ => eapply (E2_sign a); [conv | ]
  | |- E2 _ _ => eassumption
  | |- Od (fun _ => 0) _ => apply Od_zero
  | |- Od (fun e => @?a e + @?b e) _ => eapply (Od_add a b); conv
  | |- Od (fun e => @?a e - @?b e) _ => eapply (Od_sub a b); conv
  | |- Od (fun e => - @?a e) _ => eapply (Od_opp a); conv
  | |- Od (fun e => @?a e * @?b e) _ => (eapply (Od_mul_E2 a b) + eapply (E2_mul_Od a b)); conv
  | |- Od (fun e => @?a e / @?b e) _ => eapply (Od_div_E2 a b); [conv | conv | ]
  | |- Od _ _ => eassumption
  | |- _ => idtac
  end.

Definition st_y (st : R * R * R * R) : R := fst (fst (fst st)).
Definition st_z (st : R * R * R * R) : R := snd (fst (fst st)).
Definition st_M (st : R * R * R * R) : R := snd (fst st).
Definition st_N (st : R * R * R * R) : R := snd st.

(** ** the closed-form step *)
Inductive rshape := RPlane | RStd (Rc k sg : R).
Record rsurf := mkRS { r_z : R; r_shape : rshape; r_n1 : R; r_n2 : R; r_refl : bool }.

Definition conic_tv (Rc k sg y zl M N : R) : R :=
  let a := k*(N*N) + 0*0 + M*M + N*N in
  let b := 2*k*N*zl + 2*0*0 + 2*M*y - 2*N*Rc + 2*N*zl in
  let c := k*(zl*zl) - 2*Rc*zl + 0*0 + y*y + zl*zl in
  let d := b*b - 4*a*c in
  (- b - sg * sqrt d) / (2*a).
(** the other root *)
Definition conic_to (Rc k sg y zl M N : R) : R :=
  let a := k*(N*N) + 0*0 + M*M + N*N in
  let b := 2*k*N*zl + 2*0*0 + 2*M*y - 2*N*Rc + 2*N*zl in
  let c := k*(zl*zl) - 2*Rc*zl + 0*0 + y*y + zl*zl in
  let d := b*b - 4*a*c in
  (- b + sg * sqrt d) / (2*a).

Definition rdist (sh : rshape) (y zl M N : R) : R :=
  match sh with RPlane => - zl / N | RStd Rc k sg => conic_tv Rc k sg y zl M N end.
Definition rnormal (sh : rshape) (y : R) : R * R * R :=
  match sh with RPlane => (0, 0, 1) | RStd Rc k _ => k_std_normal ROps 0 y Rc k end.
Definition rinteract (s : rsurf) (n : R * R * R) (M N : R) : R * R * R :=
  let nx := fst (fst n) in let ny := snd (fst n) in let nz := snd n in
  if r_refl s then k_reflect ROps nx ny nz 0 M N else k_refract ROps nx ny nz (r_n1 s) (r_n2 s) 0 M N.

Definition rstep (s : rsurf) (st : R * R * R * R) : R * R * R * R :=
  let y := st_y st in let z := st_z st in let M := st_M st in let N := st_N st in
  let zl := z - r_z s in
  let t := rdist (r_shape s) y zl M N in
  let y1 := y + t * M in
  let z1 := zl + t * N in
  let r := rinteract s (rnormal (r_shape s) y1) M N in
  (y1, z1 + r_z s, snd (fst r), snd r).

(** ** the intersection distance *)
Section Dist.
  Variables (Rc k sg N0 zeta : R) (Y ZL Mf Nf : R -> R) (h m : R).
  Hypothesis HN0 : N0 = 1 \/ N0 = -1.
  Hypothesis Hsg : sg = 1 \/ sg = -1.
  Hypothesis Hpos : 0 < sg * N0 * Rc.
  Hypothesis Hk : 1 + k <> 0.
  Hypothesis HY : Od Y h.
  Hypothesis HM : Od Mf m.
  Hypothesis HN : E2 Nf N0.
  Hypothesis HZ : E2 ZL zeta.

  Let Af := fun e => k*(Nf e*Nf e) + 0*0 + Mf e*Mf e + Nf e*Nf e.
  Let Bf := fun e => 2*k*Nf e*ZL e + 2*0*0 + 2*Mf e*Y e - 2*Nf e*Rc + 2*Nf e*ZL e.
  Let Cf := fun e => k*(ZL e*ZL e) - 2*Rc*ZL e + 0*0 + Y e*Y e + ZL e*ZL e.
  Let Df := fun e => Bf e*Bf e - 4*Af e*Cf e.
  Let SDf := fun e => sqrt (Df e).

  Lemma N0sq : N0 * N0 = 1.
  Proof. destruct HN0; subst; ring. Qed.
  Lemma sgsq : sg * sg = 1.
  Proof. destruct Hsg; subst; ring. Qed.
  Lemma Rc_neq0 : Rc <> 0.
  Proof. intros E. rewrite E in Hpos. lra. Qed.

  Lemma A_conv : E2 Af (1 + k).
  Proof. eapply E2_lim; [unfold Af; conv|]. generalize N0sq; intros; nra. Qed.
  Lemma B_conv : E2 Bf (2*N0*((1+k)*zeta - Rc)).
  Proof. eapply E2_lim; [unfold Bf; conv|]. ring. Qed.
  Lemma C_conv : E2 Cf ((1+k)*(zeta*zeta) - 2*Rc*zeta).
  Proof. eapply E2_lim; [unfold Cf; conv|]. ring. Qed.
  Lemma D_conv : E2 Df (4*(Rc*Rc)).
  Proof.
    generalize A_conv B_conv C_conv; intros HA HB HC.
    eapply E2_lim; [unfold Df; conv|]. generalize N0sq; intros Hq.
    replace (2 * N0 * ((1 + k) * zeta - Rc) * (2 * N0 * ((1 + k) * zeta - Rc)))
      with (4 * (N0*N0) * (((1 + k) * zeta - Rc) * ((1 + k) * zeta - Rc))) by ring.
    rewrite Hq. ring.
  Qed.
  Lemma SD_conv : E2 SDf (2 * (sg * N0 * Rc)).
  Proof.
    generalize D_conv; intros HD. generalize Rc_neq0; intros HR.
    eapply E2_lim; [unfold SDf; conv|].
    - nra.
    - replace (4 * (Rc * Rc)) with ((2 * (sg*N0*Rc)) * (2 * (sg*N0*Rc))).
      + apply sqrt_square. lra.
      + generalize N0sq sgsq; intros H1 H2.
        replace (2 * (sg * N0 * Rc) * (2 * (sg * N0 * Rc))) with (4 * (sg*sg) * (N0*N0) * (Rc*Rc)) by ring.
        rewrite H1, H2. ring.
  Qed.

  Lemma Df_ev_nonneg : Ev (fun e => 0 <= Df e).
  Proof.
    generalize Rc_neq0; intros HR.
    eapply Ev_mono; [|apply (E2_ev_pos _ _ D_conv)]; [intros; cbv beta in *; lra|nra].
  Qed.
  Lemma Df_ev_pos : Ev (fun e => 0 < Df e).
  Proof. generalize Rc_neq0; intros HR. apply (E2_ev_pos _ _ D_conv). nra. Qed.
  Lemma Af_ev_neq : Ev (fun e => Af e <> 0).
  Proof. apply (E2_ev_neq _ _ A_conv). exact Hk. Qed.

  (** the vertex root tends to the axial distance to the vertex plane; the other root hits
      the far vertex of the conic *)
  Lemma tv_conv : E2 (fun e => conic_tv Rc k sg (Y e) (ZL e) (Mf e) (Nf e)) (- N0 * zeta).
  Proof.
    generalize A_conv B_conv SD_conv; intros HA HB HS.
    change (E2 (fun e => (- Bf e - sg * SDf e) / (2 * Af e)) (- N0 * zeta)).
    eapply E2_lim; [conv|].
    - lra.
    - generalize sgsq N0sq; intros H1 H2.
      replace (sg * (2 * (sg * N0 * Rc))) with (2 * (sg*sg) * N0 * Rc) by ring. rewrite H1.
      field. exact Hk.
  Qed.
  Lemma to_conv : E2 (fun e => conic_to Rc k sg (Y e) (ZL e) (Mf e) (Nf e)) (- N0 * zeta + 2*N0*Rc/(1+k)).
  Proof.
    generalize A_conv B_conv SD_conv; intros HA HB HS.
    change (E2 (fun e => (- Bf e + sg * SDf e) / (2 * Af e)) (- N0 * zeta + 2*N0*Rc/(1+k))).
    eapply E2_lim; [conv|].
    - lra.
    - generalize sgsq N0sq; intros H1 H2.
      replace (sg * (2 * (sg * N0 * Rc))) with (2 * (sg*sg) * N0 * Rc) by ring. rewrite H1.
      field. exact Hk.
  Qed.

  (** intersection points of the two roots, local z *)
  Lemma zv_conv : E2 (fun e => ZL e + conic_tv Rc k sg (Y e) (ZL e) (Mf e) (Nf e) * Nf e) 0.
  Proof.
    generalize tv_conv; intros HT. eapply E2_lim; [conv|].
    generalize N0sq; intros. nra.
  Qed.
  Lemma zo_conv : E2 (fun e => ZL e + conic_to Rc k sg (Y e) (ZL e) (Mf e) (Nf e) * Nf e) (2*Rc/(1+k)).
  Proof.
    generalize to_conv; intros HT. eapply E2_lim; [conv|].
    generalize N0sq; intros Hq.
    replace (zeta + (- N0 * zeta + 2 * N0 * Rc / (1 + k)) * N0) with (zeta - (N0*N0)*zeta + 2*(N0*N0)*Rc/(1+k)) by (field; exact Hk).
    rewrite Hq. field. exact Hk.
  Qed.
End Dist.

(** ** the surface normal (StandardGeometry.surface_normal on the meridional point) *)
Section Normal.
  Variables (Rc k : R) (Y1 : R -> R) (h1 : R).
  Hypothesis HR : Rc <> 0.
  Hypothesis HY : Od Y1 h1.
  Let nf := fun e => k_std_normal ROps 0 (Y1 e) Rc k.

  Let R2 := fun e => 0*0 + Y1 e * Y1 e.
  Let RAD := fun e => 1 - (1 + k) * R2 e / (Rc*Rc).
  Let DEN := fun e => Rc * sqrt (RAD e).
  Let FX := fun e => 0 / DEN e.
  Let FY := fun e => Y1 e / DEN e.
  Let MAG := fun e => sqrt (FX e * FX e + FY e * FY e + IZR ((-1)^2)).

  Lemma RAD_conv : E2 RAD 1.
  Proof.
    assert (HRR : Rc * Rc <> 0) by (apply Rmult_integral_contrapositive_currified; assumption).
    eapply E2_lim; [unfold RAD, R2; conv|].
    - exact HRR.
    - field. exact HR.
  Qed.
  Lemma DEN_conv : E2 DEN Rc.
  Proof.
    generalize RAD_conv; intros H. eapply E2_lim; [unfold DEN; conv|].
    - lra.
    - rewrite sqrt_1. ring.
  Qed.
  Lemma FX_conv : E2 FX 0.
  Proof. generalize DEN_conv; intros H. eapply E2_lim; [unfold FX; conv|].
    - exact HR.
    - field. exact HR. Qed.
  Lemma FY_conv : Od FY (h1 / Rc).
  Proof. generalize DEN_conv; intros H. eapply Od_lim; [unfold FY; conv|].
    - exact HR.
    - reflexivity. Qed.
  Lemma MAG_conv : E2 MAG 1.
  Proof.
    generalize FX_conv FY_conv; intros H1 H2.
    eapply E2_lim; [unfold MAG; conv|].
    - simpl. lra.
    - match goal with |- sqrt ?x = 1 => replace x with 1 by (simpl; lra) end. apply sqrt_1.
  Qed.

  Lemma RAD_ev_pos : Ev (fun e => 0 < 1 - (1 + k) * (0*0 + Y1 e * Y1 e) / (Rc*Rc)).
  Proof. apply (E2_ev_pos _ _ RAD_conv). lra. Qed.

  Lemma normal_conv :
    E2 (fun e => fst (fst (nf e))) 0 /\ Od (fun e => snd (fst (nf e))) (h1 / Rc) /\ E2 (fun e => snd (nf e)) (-1).
  Proof.
    generalize FX_conv FY_conv MAG_conv; intros H1 H2 H3.
    unfold nf, k_std_normal. rops. cbn [fst snd].
    change (E2 (fun e => FX e / MAG e) 0 /\ Od (fun e => FY e / MAG e) (h1 / Rc) /\
            E2 (fun e => IZR (- (1)) / MAG e) (-1)).
    repeat split.
    - eapply E2_lim; [conv|]; [lra|field].
    - eapply Od_lim; [conv|]; [lra|field; exact HR].
    - eapply E2_lim; [conv|]; [lra|simpl; field].
  Qed.
End Normal.

(** ** refraction and reflection (RealRays.refract / reflect with L = 0) *)
Section Interact.
  Variables (n1 n2 N0 nu q m : R) (NX NY NZ Mf Nf : R -> R).
  Hypothesis HN0 : N0 = 1 \/ N0 = -1.
  Hypothesis Hnu : nu = 1 \/ nu = -1.
  Hypothesis HNX : E2 NX 0.
  Hypothesis HNY : Od NY q.
  Hypothesis HNZ : E2 NZ nu.
  Hypothesis HM : Od Mf m.
  Hypothesis HN : E2 Nf N0.

  Let DOT := fun e => 0 * NX e + Mf e * NY e + Nf e * NZ e.
  Let SGN := fun e => Rsign (DOT e).
  Let ADOT := fun e => Rabs (DOT e).

  Lemma DOT_conv : E2 DOT (N0 * nu).
  Proof. eapply E2_lim; [unfold DOT; conv|]. ring. Qed.
  Lemma SGN_conv : E2 SGN (N0 * nu).
  Proof.
    generalize DOT_conv; intros H. eapply E2_lim; [unfold SGN; conv|].
    - destruct HN0, Hnu; subst; lra.
    - destruct HN0, Hnu; subst;
        first [rewrite Rsign_neg by lra; lra | rewrite Rsign_pos by lra; lra].
  Qed.
  Lemma ADOT_conv : E2 ADOT 1.
  Proof.
    generalize DOT_conv; intros H. eapply E2_lim; [unfold ADOT; conv|].
    destruct HN0, Hnu; subst;
      first [rewrite Rabs_left by lra; lra | rewrite Rabs_right by lra; lra].
  Qed.

  Section Refract.
    Hypothesis Hn2 : n2 <> 0.
    Let rf := fun e => k_refract ROps (NX e) (NY e) (NZ e) n1 n2 0 (Mf e) (Nf e).
    Let ROOT := fun e => sqrt (1 - n1 / n2 * (n1 / n2) * (1 - ADOT e * ADOT e)).

    Lemma ROOT_conv : E2 ROOT 1.
    Proof.
      generalize ADOT_conv; intros H. eapply E2_lim; [unfold ROOT; conv|].
      - nra.
      - replace (1 - n1 / n2 * (n1 / n2) * (1 - 1 * 1)) with 1 by ring. apply sqrt_1.
    Qed.
    Lemma radicand_ev : Ev (fun e => 0 <= 1 - n1 / n2 * (n1 / n2) * (1 - ADOT e * ADOT e)).
    Proof.
      generalize ADOT_conv; intros H.
      assert (HE : E2 (fun e => 1 - n1 / n2 * (n1 / n2) * (1 - ADOT e * ADOT e)) 1).
      { eapply E2_lim; [conv|]. ring. }
      eapply Ev_mono; [|apply (E2_ev_pos _ _ HE)]; [intros; cbv beta in *; lra|lra].
    Qed.

    Lemma refract_conv :
      Od (fun e => snd (fst (rf e))) (n1 / n2 * m + N0 * nu * (1 - n1 / n2) * q) /\
      E2 (fun e => snd (rf e)) N0.
    Proof.
      generalize SGN_conv ADOT_conv ROOT_conv; intros H1 H2 H3.
      unfold rf, k_refract, k_align. rops. cbn [fst snd].
      change (Od (fun e => n1 / n2 * Mf e + NY e * SGN e * ROOT e - n1 / n2 * (NY e * SGN e) * ADOT e)
                 (n1 / n2 * m + N0 * nu * (1 - n1 / n2) * q) /\
              E2 (fun e => n1 / n2 * Nf e + NZ e * SGN e * ROOT e - n1 / n2 * (NZ e * SGN e) * ADOT e) N0).
      split.
      - eapply Od_lim; [conv|]. ring.
      - eapply E2_lim; [conv|]. destruct Hnu; subst; ring.
    Qed.
  End Refract.

  Section Reflect.
    Let rl := fun e => k_reflect ROps (NX e) (NY e) (NZ e) 0 (Mf e) (Nf e).
    Lemma reflect_conv :
      Od (fun e => snd (fst (rl e))) (m - 2 * N0 * nu * q) /\ E2 (fun e => snd (rl e)) (- N0).
    Proof.
      generalize SGN_conv ADOT_conv; intros H1 H2.
      unfold rl, k_reflect, k_align. rops. cbn [fst snd].
      change (Od (fun e => Mf e - 2 * ADOT e * (NY e * SGN e)) (m - 2 * N0 * nu * q) /\
              E2 (fun e => Nf e - 2 * ADOT e * (NZ e * SGN e)) (- N0)).
      split.
      - eapply Od_lim; [conv|]. ring.
      - eapply E2_lim; [conv|]. destruct Hnu; subst; ring.
    Qed.
  End Reflect.
End Interact.

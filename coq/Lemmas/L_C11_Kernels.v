(** * L_C11_Kernels: theorems about the translated kernels of optiland/psf.py and optiland/mtf.py
    (Gen/PsfMtf.v, regenerated from the sources on every run). *)
From Coq Require Import Reals Lra ZArith List.
From OV Require Import Ops RInst Spec.S_C11_DFT Model.M_C11 Gen.PsfMtf.
Import ListNotations.
Local Open Scope R_scope.

(** Strehl ratio = pixel [grid_size/2, grid_size/2] of the PSF image, over 100 *)
Theorem strehl_kernel (psf : list (list R)) (g : Z) :
  k_strehl ROps psf g * 100 = get2Z (O:=ROps) psf (g / 2) (g / 2).
Proof. unfold k_strehl; rops. field. Qed.

(** working F-number: the paraxial one for an infinite object, FNO (1 + |m| / p) with pupil
    magnification p = XPD / EPD for a finite one *)
Theorem working_fno (fno xpd epd m : R) (inf : bool) :
  k_mtf_fno ROps fno inf xpd epd m = if inf then fno else fno * (1 + Rabs m / (xpd / epd)).
Proof. destruct inf; reflexivity. Qed.

(** the PSF pixel pitch reported by _get_psf_units is lambda * FNO_w / (grid/num_rays); the frequency
    axis reciprocal to it (N = grid_size samples) has its cut-off index num_rays at
    1/(lambda_mm * FNO_w) -- for both conjugates *)
Theorem psf_units_cutoff (fno xpd epd m lam : R) (inf : bool) (g n sx sy : Z) :
  let wf := k_mtf_fno ROps fno inf xpd epd m in
  let xy := k_psf_units ROps fno inf xpd epd m g n [lam] [sy; sx] in
  IZR g <> 0 -> IZR n <> 0 -> lam <> 0 -> wf <> 0 -> IZR sx <> 0 -> IZR sy <> 0 ->
  fst xy / IZR sx = lam * wf / (IZR g / IZR n) /\
  snd xy / IZR sy = lam * wf / (IZR g / IZR n) /\
  IZR n * freq_step_mm (IZR g) (fst xy / IZR sx) = cutoff_mm lam wf.
Proof.
  intros wf xy Hg Hn Hl Hw Hsx Hsy. subst xy.
  assert (E : k_psf_units ROps fno inf xpd epd m g n [lam] [sy; sx] =
              (IZR sx * (lam * wf / (IZR g / IZR n)), IZR sy * (lam * wf / (IZR g / IZR n)))).
  { unfold wf. destruct inf; reflexivity. }
  rewrite E. simpl fst; simpl snd. unfold freq_step_mm, cutoff_mm.
  split; [field; repeat split; assumption|]. split; [field; repeat split; assumption|].
  field; repeat split; assumption.
Qed.

Example psf_units_hyp_sat :
  k_mtf_fno ROps 5 false 10 5 (-1/2) <> 0.
Proof. rewrite working_fno. rewrite Rabs_left by lra. lra. Qed.

(** C16, second layer: the EXACT per-surface factor (which rays are clipped is stated by the landing
    point, not existentially), the closed product form along a path of any length, "nothing else
    changes it" (a surface without aperture, coating and extinction leaves the intensity alone), and
    "outside the aperture => zero from that surface onward". *)
From Coq Require Import Reals Lra Lia ZArith List Bool Psatz.
From OV Require Import Ops RInst Gen.RealRays Gen.Standard Gen.Geometries Gen.Apertures Model.Trace
  Lemmas.L_Intensity.
Import ListNotations.
Local Open Scope R_scope.

(** landing point of the ray on surface [s], in the surface's own frame, after a propagation by [t] *)
Definition hit_x (s : surf ROps) (r : ray ROps) (t : R) : R :=
  rx (localize s r) + t * rL (localize s r).
Definition hit_y (s : surf ROps) (r : ray ROps) (t : R) : R :=
  ry (localize s r) + t * rM (localize s r).

Definition outside (rmax rmin x y : R) : bool :=
  Rltb (rmax * rmax) (x * x + y * y) || Rltb (x * x + y * y) (rmin * rmin).

Definition clipped_at (s : surf ROps) (r : ray ROps) (t : R) : bool :=
  match s_aper s with
  | Some (rmax, rmin) => outside rmax rmin (hit_x s r t) (hit_y s r t)
  | None => false
  end.

Definition coat_factor (s : surf ROps) : R :=
  match s_coat s with Some (tr, rf) => if s_refl s then rf else tr | None => 1 end.

Definition absorb (s : surf ROps) (r : ray ROps) (t : R) : R :=
  exp (- (4 * PI * s_k1 s / rw r) * t * 1000).

(** the one number by which surface [s] multiplies the intensity of ray [r] *)
Definition surf_factor (s : surf ROps) (r : ray ROps) (t : R) : R :=
  (if clipped_at s r t then 0 else absorb s r t) * coat_factor s.

Lemma outside_spec rmax rmin x y :
  outside rmax rmin x y = true <-> (rmax * rmax < x * x + y * y \/ x * x + y * y < rmin * rmin).
Proof.
  unfold outside. rewrite orb_true_iff, !Rltb_true. tauto.
Qed.

Lemma inside_spec rmax rmin x y :
  outside rmax rmin x y = false <-> (rmin * rmin <= x * x + y * y <= rmax * rmax).
Proof.
  unfold outside. rewrite orb_false_iff, !Rltb_false. tauto.
Qed.

Lemma propagate_xy t x L y M z N k w i :
  let '(x', y', _, _) := k_propagate ROps t x L y M z N k w i in
  x' = x + t * L /\ y' = y + t * M.
Proof. unfold k_propagate. rops. split; reflexivity. Qed.

(** exact form of [surface_intensity]: no existential over "clipped" *)
Theorem surface_intensity_exact s (r r' : ray ROps) :
  trace_surface s r = Some r' ->
  exists t : R, distance (s_shape s) (localize s r) = Some t /\ ri r' = ri r * surf_factor s r t.
Proof.
  unfold trace_surface, surf_factor, clipped_at, coat_factor, absorb, hit_x, hit_y.
  destruct (localize_i s r) as [Hi Hw].
  destruct (distance (s_shape s) (localize s r)) as [t|] eqn:Ed; [|discriminate].
  generalize (absorb_factor t (rx (localize s r)) (rL (localize s r)) (ry (localize s r)) (rM (localize s r))
                            (rz (localize s r)) (rN (localize s r)) (s_k1 s) (rw (localize s r)) (ri (localize s r))).
  generalize (propagate_xy t (rx (localize s r)) (rL (localize s r)) (ry (localize s r)) (rM (localize s r))
                            (rz (localize s r)) (rN (localize s r)) (s_k1 s) (rw (localize s r)) (ri (localize s r))).
  destruct (k_propagate ROps _ _ _ _ _ _ _ _ _ _) as [[[x y] z] i]. intros [Ex Ey] Ei.
  rewrite Hi, Hw in Ei. intros H. exists t. split; [reflexivity|]. revert H.
  destruct (s_aper s) as [[rmax rmin]|].
  - cbn [rx ry rz rL rM rN ri rw ropd].
    destruct (normal _ _) as [[[nx ny] nz]|]; [|discriminate].
    destruct (if s_refl s then _ else _) as [[L M] N].
    intros H; injection H as <-. rewrite globalize_i. cbn [ri].
    rewrite radial_clip_spec. rewrite <- Ex, <- Ey. unfold outside.
    destruct (s_coat s) as [[tr rf]|]; [destruct (s_refl s)|];
      destruct (_ || _); unfold k_coat_reflect, k_coat_transmit; rops; rewrite ?Ei; ring.
  - cbn [rx ry rz rL rM rN ri rw ropd].
    destruct (normal _ _) as [[[nx ny] nz]|]; [|discriminate].
    destruct (if s_refl s then _ else _) as [[L M] N].
    intros H; injection H as <-. rewrite globalize_i. cbn [ri].
    destruct (s_coat s) as [[tr rf]|]; [destruct (s_refl s)|];
      unfold k_coat_reflect, k_coat_transmit; rops; rewrite ?Ei; ring.
Qed.

(** "nothing else changes it": no aperture, no coating, no extinction => intensity untouched,
    whatever the shape, tilt, decentre, media and whether the surface reflects or refracts *)
Theorem lossless_surface_keeps_intensity s (r r' : ray ROps) :
  trace_surface s r = Some r' -> s_aper s = None -> s_coat s = None -> s_k1 s = 0 -> ri r' = ri r.
Proof.
  intros Ht Ha Hc Hk. destruct (surface_intensity_exact s r r' Ht) as (t & _ & E).
  rewrite E. unfold surf_factor, clipped_at, coat_factor, absorb. rewrite Ha, Hc, Hk.
  replace (- (4 * PI * 0 / rw r) * t * 1000) with 0 by (unfold Rdiv; ring).
  rewrite exp_0. rops. ring.
Qed.

(** inside the aperture, in a non-absorbing medium: only the coating acts *)
Theorem unclipped_transparent_surface s (r r' : ray ROps) t :
  trace_surface s r = Some r' -> distance (s_shape s) (localize s r) = Some t ->
  clipped_at s r t = false -> s_k1 s = 0 -> ri r' = ri r * coat_factor s.
Proof.
  intros Ht Hd Hcl Hk. destruct (surface_intensity_exact s r r' Ht) as (t' & Hd' & E).
  rewrite Hd in Hd'. injection Hd' as <-. rewrite E. unfold surf_factor, absorb. rewrite Hcl, Hk.
  replace (- (4 * PI * 0 / rw r) * t * 1000) with 0 by (unfold Rdiv; ring).
  rewrite exp_0. rops. ring.
Qed.

(** a ray landing outside the aperture leaves the surface with intensity exactly 0 *)
Theorem outside_aperture_zero s (r r' : ray ROps) t rmax rmin :
  trace_surface s r = Some r' -> distance (s_shape s) (localize s r) = Some t ->
  s_aper s = Some (rmax, rmin) ->
  (rmax * rmax < hit_x s r t * hit_x s r t + hit_y s r t * hit_y s r t \/
   hit_x s r t * hit_x s r t + hit_y s r t * hit_y s r t < rmin * rmin) ->
  ri r' = 0.
Proof.
  intros Ht Hd Ha Hout. destruct (surface_intensity_exact s r r' Ht) as (t' & Hd' & E).
  rewrite Hd in Hd'. injection Hd' as <-. rewrite E. unfold surf_factor, clipped_at. rewrite Ha.
  rewrite (proj2 (outside_spec _ _ _ _) Hout). rops. ring.
Qed.

(** ... and at every later surface of the path *)
Theorem outside_aperture_zero_onward s ss (r r' : ray ROps) l t rmax rmin :
  trace (s :: ss) r = Some (r' :: l) -> distance (s_shape s) (localize s r) = Some t ->
  s_aper s = Some (rmax, rmin) ->
  (rmax * rmax < hit_x s r t * hit_x s r t + hit_y s r t * hit_y s r t \/
   hit_x s r t * hit_x s r t + hit_y s r t * hit_y s r t < rmin * rmin) ->
  Forall (fun q : ray ROps => ri q = 0) (r' :: l).
Proof.
  intros Ht Hd Ha Hout. cbn [trace] in Ht.
  destruct (trace_surface s r) as [r1|] eqn:Es; [|discriminate].
  destruct (trace ss r1) as [l1|] eqn:El; [|discriminate]. injection Ht as <- <-.
  assert (Z : ri r1 = 0) by (eapply outside_aperture_zero; eauto).
  constructor; [exact Z|]. exact (clipped_stays_zero ss r1 l1 El Z).
Qed.

(** a ray landing inside the aperture (rim included, r = 0 included when r_min = 0) is not clipped *)
Theorem inside_aperture_not_clipped (s : surf ROps) (r : ray ROps) (t rmax rmin : R) :
  s_aper s = Some (rmax, rmin) ->
  rmin * rmin <= hit_x s r t * hit_x s r t + hit_y s r t * hit_y s r t <= rmax * rmax ->
  clipped_at s r t = false.
Proof.
  intros Ha Hin. unfold clipped_at. rewrite Ha. apply inside_spec. exact Hin.
Qed.

(** ** closed form along the whole path *)
Fixpoint factors (ss : list (surf ROps)) (r : ray ROps) : list R :=
  match ss with
  | [] => []
  | s :: ss' =>
      match distance (s_shape s) (localize s r), trace_surface s r with
      | Some t, Some r' => surf_factor s r t :: factors ss' r'
      | _, _ => []
      end
  end.

Fixpoint running (x : R) (fs : list R) : list R :=
  match fs with [] => [] | f :: fs' => x * f :: running (x * f) fs' end.

Theorem intensity_path_product ss : forall (r : ray ROps) l,
  trace ss r = Some l -> map ri l = running (ri r) (factors ss r).
Proof.
  induction ss as [|s ss IH]; intros r l Ht.
  - injection Ht as <-. reflexivity.
  - cbn [trace] in Ht. destruct (trace_surface s r) as [r'|] eqn:Es; [|discriminate].
    destruct (trace ss r') as [l'|] eqn:El; [|discriminate]. injection Ht as <-.
    destruct (surface_intensity_exact s r r' Es) as (t & Hd & E).
    cbn [factors]. rewrite Hd, Es. cbn [map running]. rewrite <- E. f_equal. exact (IH r' l' El).
Qed.

Lemma running_last x fs : last (running x fs) x = x * fold_right Rmult 1 fs.
Proof.
  revert x. induction fs as [|f fs IH]; intros x; cbn [running fold_right].
  - cbn [last]. ring.
  - destruct fs as [|g fs'].
    + cbn [running last fold_right]. ring.
    + change (last (x * f :: running (x * f) (g :: fs')) x) with (last (running (x * f) (g :: fs')) x).
      assert (E : forall a b, last (running (x * f) (g :: fs')) a = last (running (x * f) (g :: fs')) b).
      { intros a b. cbn [running]. generalize (running (x * f * g) fs'). intros l0.
        revert a b. generalize (x * f * g). induction l0 as [|c l0 IHl]; intros h a b; [reflexivity|].
        cbn [last]. destruct l0; [reflexivity|]. apply (IHl c). }
      rewrite (E x (x * f)). rewrite IH. ring.
Qed.

(** the intensity at the last surface is the launch intensity times the product of ALL factors *)
Theorem final_intensity_is_product ss (r : ray ROps) l :
  trace ss r = Some l ->
  last (map ri l) (ri r) = ri r * fold_right Rmult 1 (factors ss r).
Proof.
  intros Ht. rewrite (intensity_path_product ss r l Ht). apply running_last.
Qed.

Lemma factors_length ss : forall (r : ray ROps) l, trace ss r = Some l -> length (factors ss r) = length ss.
Proof.
  induction ss as [|s ss IH]; intros r l Ht; [reflexivity|].
  cbn [trace] in Ht. destruct (trace_surface s r) as [r'|] eqn:Es; [|discriminate].
  destruct (trace ss r') as [l'|] eqn:El; [|discriminate].
  destruct (surface_intensity_exact s r r' Es) as (t & Hd & _).
  cbn [factors]. rewrite Hd, Es. cbn [length]. f_equal. exact (IH r' l' El).
Qed.

(** a lossless path of any length returns the launch intensity at every surface *)
Theorem lossless_path_keeps_intensity ss : forall (r : ray ROps) l,
  trace ss r = Some l ->
  Forall (fun s : surf ROps => s_aper s = None /\ s_coat s = None /\ s_k1 s = 0) ss ->
  Forall (fun q : ray ROps => ri q = ri r) l.
Proof.
  induction ss as [|s ss IH]; intros r l Ht Hok.
  - injection Ht as <-. constructor.
  - cbn [trace] in Ht. destruct (trace_surface s r) as [r'|] eqn:Es; [|discriminate].
    destruct (trace ss r') as [l'|] eqn:El; [|discriminate]. injection Ht as <-.
    inversion Hok as [|? ? (Ha & Hc & Hk) Hok']; subst.
    assert (E : ri r' = ri r) by (apply (lossless_surface_keeps_intensity s r r' Es Ha Hc Hk)).
    constructor; [exact E|]. rewrite <- E. exact (IH r' l' El Hok').
Qed.

(** non-vacuity: a concrete surface with an aperture and a coating and a ray that is clipped /
    a ray that is not; the factor evaluates as the property says *)
Definition s_ex : surf ROps :=
  @mkSurf ROps 0 0 0 0 0 0 (@SPlane ROps) 1 1.5 0 false (Some (2, 0)) (Some (0.9, 0.1)).
Definition r_in : ray ROps := @mkRay ROps 1 0 (-1) 0 0 1 1 0.55 0.
Definition r_out : ray ROps := @mkRay ROps 3 0 (-1) 0 0 1 1 0.55 0.

Lemma hit_ex x0 : hit_x s_ex (@mkRay ROps x0 0 (-1) 0 0 1 1 0.55 0) 1 = x0 /\
                  hit_y s_ex (@mkRay ROps x0 0 (-1) 0 0 1 1 0.55 0) 1 = 0.
Proof.
  unfold hit_x, hit_y, localize, nonzero, s_ex. cbn [s_x s_y s_z s_rx s_ry s_rz]. unfold k_translate. rops.
  unfold Reqb. destruct (Req_EM_T 0 0) as [_|N]; [|exfalso; apply N; reflexivity].
  cbn [negb rx ry rz rL rM rN]. split; lra.
Qed.

Example factor_example_unclipped : surf_factor s_ex r_in 1 = 0.9.
Proof.
  unfold surf_factor, clipped_at, coat_factor, absorb. change (s_aper s_ex) with (Some (2, 0) : option (R * R)).
  destruct (hit_ex 1) as [Hx Hy]. fold r_in in Hx, Hy. rewrite Hx, Hy.
  assert (E : outside 2 0 1 0 = false) by (apply inside_spec; lra). rewrite E.
  change (s_k1 s_ex) with 0. change (s_coat s_ex) with (Some (0.9, 0.1) : option (R * R)).
  change (s_refl s_ex) with false.
  replace (- (4 * PI * 0 / rw r_in) * 1 * 1000) with 0 by (unfold Rdiv; ring). rewrite exp_0. lra.
Qed.

Example factor_example_clipped : surf_factor s_ex r_out 1 = 0.
Proof.
  unfold surf_factor, clipped_at. change (s_aper s_ex) with (Some (2, 0) : option (R * R)).
  destruct (hit_ex 3) as [Hx Hy]. fold r_out in Hx, Hy. rewrite Hx, Hy.
  assert (E : outside 2 0 3 0 = true) by (apply outside_spec; lra). rewrite E. ring.
Qed.

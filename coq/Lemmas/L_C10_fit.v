(** C10, evaluation / fitting clauses over the reals:
    - [poly] is linear in the coefficient vector;
    - fitting data that are an exact combination of the first N terms recovers the coefficients
      whenever the design map on the sample points is injective;
    - the fit is linear in the data; the fitted series is the best approximation of the data
      (residual minimal, orthogonal to every fitted term).
    The minimiser itself is scipy's [least_squares]; it enters as the hypothesis "chat minimises the
    sum of squared residuals over coefficient vectors of length N" (DESIGN section 5.2, lstsq_min). *)
From Coq Require Import Reals Lra Lia ZArith List Psatz.
From Coq Require Import QArith Qreals.
From OV Require Import Ops RInst Model.M_C10 Gen.Zernike Lemmas.L_C10_radial.
Local Open Scope R_scope.
Import ListNotations.
Local Open Scope R_scope.

(** ** small vector algebra on lists *)
Fixpoint dot (u v : list R) : R :=
  match u, v with x :: u', y :: v' => x * y + dot u' v' | _, _ => 0 end.
Definition ss (v : list R) : R := dot v v.
Definition lincomb (a b : R) (u v : list R) : list R := map (fun xy => a * fst xy + b * snd xy) (combine u v).

Lemma sum_list_acc l a : fold_left Rplus l a = a + fold_left Rplus l 0.
Proof.
  revert a; induction l as [|x l IH]; intros a; cbn; [lra|].
  rewrite (IH (a + x)), (IH (0 + x)). lra.
Qed.
Lemma sum_list_cons x l : sum_list (O := ROps) (x :: l) = x + sum_list (O := ROps) l.
Proof. unfold sum_list. rops. cbn [fold_left]. rewrite sum_list_acc. lra. Qed.
Lemma sum_list_nil : sum_list (O := ROps) [] = 0.
Proof. reflexivity. Qed.

Lemma lincomb_length a b u v : length u = length v -> length (lincomb a b u v) = length u.
Proof. intros H. unfold lincomb. rewrite map_length, combine_length, H. lia. Qed.

Lemma dot_comm u v : dot u v = dot v u.
Proof. revert v; induction u as [|x u IH]; intros [|y v]; cbn; try reflexivity. rewrite IH; lra. Qed.
Lemma dot_lincomb_l a b u v w : length u = length v ->
  dot (lincomb a b u v) w = a * dot u w + b * dot v w.
Proof.
  revert v w; induction u as [|x u IH]; intros [|y v] w H; try discriminate; cbn.
  - lra.
  - destruct w as [|z w]; [lra|]. cbn [fst snd]. fold (lincomb a b u v). rewrite IH by (cbn in H; lia). lra.
Qed.
Lemma ss_nonneg v : 0 <= ss v.
Proof. unfold ss. induction v as [|x v IH]; cbn; [lra|]. nra. Qed.
Lemma ss_zero v : ss v = 0 -> Forall (fun x => x = 0) v.
Proof.
  unfold ss. induction v as [|x v IH]; cbn; intros H; constructor.
  - pose proof (ss_nonneg v). unfold ss in *. nra.
  - apply IH. pose proof (ss_nonneg v). unfold ss in *. nra.
Qed.

Lemma ss_map_zero {A} (f : A -> R) l : (forall x, f x = 0) -> ss (map f l) = 0.
Proof. intros H. unfold ss. induction l as [|x l IH]; cbn; [reflexivity|]. rewrite IH, H. ring. Qed.
Lemma map_vsub_zero {A} (f g : A -> R) l :
  Forall (fun x => x = 0) (map (fun xy => fst xy - snd xy) (combine (map f l) (map g l))) -> map f l = map g l.
Proof.
  induction l as [|p l IH]; cbn; intros E; [reflexivity|].
  inversion E as [|? ? H0 H1]; subst. cbn in H0. f_equal; [lra|apply IH, H1].
Qed.

Lemma lincomb_map {A} a b (f g h : A -> R) l :
  (forall x, h x = a * f x + b * g x) -> map h l = lincomb a b (map f l) (map g l).
Proof.
  intros H. induction l as [|x l IH]; cbn; [reflexivity|]. unfold lincomb in *. cbn [combine map fst snd].
  rewrite H. f_equal. apply IH.
Qed.

Section Family.
  (** [term] is the family's get_term; all three satisfy [term_lin] (below) *)
  Variable term : R -> Z -> Z -> R -> R -> R.
  Hypothesis term_lin : forall c n m r phi, term c n m r phi = c * term 1 n m r phi.
  Variable idx : list (Z * Z).

  Definition basis (r phi : R) : list R := map (fun nm => term 1 (fst nm) (snd nm) r phi) idx.
  Definition poly (c : list R) (p : R * R) : R := zk_poly (O := ROps) term c idx (fst p) (snd p).

  Lemma poly_dot c p : poly c p = dot c (basis (fst p) (snd p)).
  Proof.
    unfold poly, zk_poly, zk_terms, basis. destruct p as [r phi]. cbn [fst snd].
    revert c; induction idx as [|[n m] l IH]; intros [|x c]; cbn [combine map dot]; try reflexivity.
    rewrite sum_list_cons, IH, (term_lin x). cbn [fst snd]. reflexivity.
  Qed.

  (** evaluating a coefficient vector is linear in the coefficients *)
  Theorem poly_linear a b c1 c2 r phi : length c1 = length c2 ->
    zk_poly (O := ROps) term (lincomb a b c1 c2) idx r phi
    = a * zk_poly (O := ROps) term c1 idx r phi + b * zk_poly (O := ROps) term c2 idx r phi.
  Proof.
    intros H. change (poly (lincomb a b c1 c2) (r, phi) = a * poly c1 (r, phi) + b * poly c2 (r, phi)).
    rewrite !poly_dot. apply dot_lincomb_l, H.
  Qed.

  (** *** fitting *)
  Variable pts : list (R * R).            (* (radius, phi) of the samples *)
  Variable N : nat.                        (* num_terms *)
  Definition design (c : list R) : list R := map (poly c) pts.
  Definition resid (c z : list R) : list R := zk_objective (O := ROps) term c idx pts z.
  Definition injective_design : Prop :=
    forall c d, length c = N -> length d = N -> design c = design d -> c = d.
  Definition lstsq_min (chat z : list R) : Prop :=
    length chat = N /\ forall c, length c = N -> ss (resid chat z) <= ss (resid c z).

  Lemma resid_as_map c (z : list R) : length z = length pts ->
    resid c z = map (fun pz => poly c (fst pz) - snd pz) (combine pts z).
  Proof.
    intros _. unfold resid, zk_objective, poly. apply map_ext. intros [[r phi] zi]. reflexivity.
  Qed.
  Lemma resid_design c c0 : resid c (design c0) = map (fun p => poly c p - poly c0 p) pts.
  Proof.
    unfold resid, zk_objective, design. induction pts as [|[r phi] l IH]; cbn [map combine]; [reflexivity|].
    rewrite IH. reflexivity.
  Qed.

  (** exact data are recovered *)
  Theorem fit_recovers c0 chat z :
    injective_design -> length c0 = N -> z = design c0 -> lstsq_min chat z -> chat = c0.
  Proof.
    intros Inj L0 -> [Lh Hmin]. apply Inj; try assumption.
    specialize (Hmin c0 L0). rewrite !resid_design in Hmin.
    assert (Z0 : ss (map (fun p => poly c0 p - poly c0 p) pts) = 0).
    { apply ss_map_zero. intros; ring. }
    rewrite Z0 in Hmin.
    assert (E : ss (map (fun p => poly chat p - poly c0 p) pts) = 0)
      by (pose proof (ss_nonneg (map (fun p => poly chat p - poly c0 p) pts)); lra).
    apply ss_zero in E. rewrite Forall_map in E. rewrite Forall_forall in E.
    unfold design. apply map_ext_in. intros p Hp. specialize (E p Hp). cbn in E. lra.
  Qed.

  (** *** normal equations, uniqueness and linearity in the data *)
  Definition vsub (u v : list R) : list R := map (fun xy => fst xy - snd xy) (combine u v).

  Lemma resid_vsub c z : resid c z = vsub (design c) z.
  Proof.
    unfold resid, zk_objective, vsub, design.
    revert z; induction pts as [|[r phi] l IH]; intros [|zi z]; cbn [map combine]; try reflexivity.
    rewrite IH. reflexivity.
  Qed.
  Lemma design_lincomb a b c d : length c = length d ->
    design (lincomb a b c d) = lincomb a b (design c) (design d).
  Proof.
    intros H. unfold design. apply lincomb_map. intros [r phi]. unfold poly. cbn [fst snd]. apply poly_linear, H.
  Qed.
  Lemma design_length c : length (design c) = length pts.
  Proof. unfold design. apply map_length. Qed.

  Lemma vsub_lincomb_l b u v z : length u = length v -> length v = length z ->
    vsub (lincomb 1 b u v) z = lincomb 1 b (vsub u z) v.
  Proof.
    revert v z; induction u as [|x u IH]; intros [|y v] [|w z] H1 H2; try discriminate; cbn; [reflexivity|].
    unfold vsub, lincomb in *. cbn [fst snd]. f_equal; [lra|]. apply IH; cbn in *; lia.
  Qed.
  Lemma ss_lincomb t u v : length u = length v ->
    ss (lincomb 1 t u v) = ss u + 2 * t * dot u v + t * t * ss v.
  Proof.
    unfold ss. revert v; induction u as [|x u IH]; intros [|y v] H; try discriminate; cbn; [lra|].
    cbn [fst snd]. fold (lincomb 1 t u v). rewrite IH by (cbn in H; lia). ring.
  Qed.
  Lemma quad_nonneg_zero p q : 0 <= q -> (forall t, 0 <= 2 * t * p + t * t * q) -> p = 0.
  Proof.
    intros Hq H. destruct (Req_dec q 0) as [E|E].
    - subst q. pose proof (H (- p)). nra.
    - pose proof (H (- p / q)) as H1. assert (0 < q) by lra.
      assert (X : 2 * (- p / q) * p + - p / q * (- p / q) * q = - (p * p) / q) by (field; lra).
      rewrite X in H1. assert (0 <= p * p / q) by (apply Rmult_le_pos; [nra|apply Rlt_le, Rinv_0_lt_compat; lra]).
      assert (p * p / q = 0) by (unfold Rdiv in *; lra).
      assert (p * p = 0) by (apply (Rmult_eq_reg_r (/ q)); [unfold Rdiv in *; lra|apply Rinv_neq_0_compat; lra]).
      nra.
  Qed.

  (** a minimiser's residual is orthogonal to the image of every coefficient vector (normal equations) *)
  Theorem lstsq_normal chat z d : length z = length pts -> lstsq_min chat z -> length d = N ->
    dot (resid chat z) (design d) = 0.
  Proof.
    intros Lz [Lh Hmin] Ld.
    apply (quad_nonneg_zero _ (ss (design d))); [apply ss_nonneg|]. intros t.
    assert (Lc : length chat = length d) by lia.
    specialize (Hmin (lincomb 1 t chat d)). rewrite lincomb_length in Hmin by exact Lc. specialize (Hmin Lh).
    rewrite (resid_vsub (lincomb 1 t chat d)), design_lincomb in Hmin by exact Lc.
    rewrite vsub_lincomb_l in Hmin by (rewrite ?design_length; lia).
    rewrite ss_lincomb in Hmin.
    - rewrite <- resid_vsub in Hmin. lra.
    - unfold vsub. rewrite map_length, combine_length, !design_length. lia.
  Qed.

  Lemma dot_vsub_l u v w : length u = length v -> dot (vsub u v) w = dot u w - dot v w.
  Proof.
    revert v w; induction u as [|x u IH]; intros [|y v] w H; try discriminate; cbn; [lra|].
    destruct w as [|z w]; [lra|]. cbn [fst snd]. fold (vsub u v). rewrite IH by (cbn in H; lia). lra.
  Qed.

  (** the fitted series is the best approximation: residual no larger than for ANY coefficient vector,
      in particular no larger than the data themselves (c = 0): "reproduces the sampled OPD up to
      the truncation residual" *)
  Theorem fit_residual_minimal chat z c : lstsq_min chat z -> length c = N -> ss (resid chat z) <= ss (resid c z).
  Proof. intros [_ H] L. apply H, L. Qed.

  (** two minimisers for the same data coincide when the design map is injective *)
  Theorem lstsq_unique c1 c2 z : injective_design -> length z = length pts ->
    lstsq_min c1 z -> lstsq_min c2 z -> c1 = c2.
  Proof.
    intros Inj Lz M1 M2. pose proof (proj1 M1) as L1. pose proof (proj1 M2) as L2.
    apply Inj; try assumption.
    (* <A c1 - A c2, A d> = 0 for d = c1 and d = c2, hence |A c1 - A c2|^2 = 0 *)
    pose proof (lstsq_normal c1 z c1 Lz M1 L1) as N11. pose proof (lstsq_normal c1 z c2 Lz M1 L2) as N12.
    pose proof (lstsq_normal c2 z c1 Lz M2 L1) as N21. pose proof (lstsq_normal c2 z c2 Lz M2 L2) as N22.
    rewrite resid_vsub, dot_vsub_l in N11, N12, N21, N22 by (rewrite design_length; lia).
    assert (E : ss (vsub (design c1) (design c2)) = 0).
    { unfold ss. rewrite dot_vsub_l by (rewrite !design_length; reflexivity).
      rewrite !(dot_comm _ (vsub _ _)), !dot_vsub_l by (rewrite !design_length; reflexivity).
      rewrite (dot_comm (design c2) (design c1)) in *. lra. }
    apply ss_zero in E. unfold vsub in E.
    unfold design in *. apply map_vsub_zero, E.
  Qed.

  (** fitting is linear in the data *)
  Theorem fit_linear_in_data a b z1 z2 c1 c2 chat : injective_design ->
    length z1 = length pts -> length z2 = length pts ->
    lstsq_min c1 z1 -> lstsq_min c2 z2 -> lstsq_min chat (lincomb a b z1 z2) ->
    chat = lincomb a b c1 c2.
  Proof.
    intros Inj Lz1 Lz2 M1 M2 Mh.
    pose proof (proj1 M1) as L1. pose proof (proj1 M2) as L2.
    assert (L12 : length c1 = length c2) by lia.
    assert (Lz : length (lincomb a b z1 z2) = length pts) by (rewrite lincomb_length; lia).
    apply (lstsq_unique chat (lincomb a b c1 c2) (lincomb a b z1 z2) Inj Lz Mh).
    split; [rewrite lincomb_length; lia|]. intros c Lc.
    (* r* := A c* - z = a r1 + b r2 is orthogonal to the image of A; Pythagoras *)
    set (cs := lincomb a b c1 c2).
    assert (Lcs : length cs = N) by (unfold cs; rewrite lincomb_length; lia).
    assert (Orth : forall d, length d = N -> dot (resid cs (lincomb a b z1 z2)) (design d) = 0).
    { intros d Ld. pose proof (lstsq_normal c1 z1 d Lz1 M1 Ld) as O1. pose proof (lstsq_normal c2 z2 d Lz2 M2 Ld) as O2.
      rewrite resid_vsub, dot_vsub_l in O1 by (rewrite design_length; lia).
      rewrite resid_vsub, dot_vsub_l in O2 by (rewrite design_length; lia).
      rewrite resid_vsub. unfold cs. rewrite design_lincomb by exact L12.
      rewrite dot_vsub_l by (rewrite !lincomb_length; rewrite ?design_length; lia).
      rewrite !dot_lincomb_l by (rewrite ?design_length; lia).
      transitivity (a * (dot (design c1) (design d) - dot z1 (design d)) + b * (dot (design c2) (design d) - dot z2 (design d))); [ring|].
      rewrite O1, O2. ring. }
    (* resid c z = resid cs z + A (c - cs) *)
    assert (Lccs : length cs = length c) by lia.
    pose proof (Orth c Lc) as Oc. pose proof (Orth cs Lcs) as Ocs.
    set (z := lincomb a b z1 z2) in *.
    assert (D : ss (resid c z) = ss (resid cs z) + ss (vsub (design c) (design cs))).
    { rewrite !resid_vsub in *. unfold ss.
      rewrite !dot_vsub_l in * by (rewrite ?design_length; lia).
      rewrite !(dot_comm _ (vsub _ _)), !dot_vsub_l by (rewrite ?design_length; lia).
      rewrite (dot_comm z (design c)), (dot_comm z (design cs)), (dot_comm (design cs) (design c)) in *. lra. }
    rewrite D. pose proof (ss_nonneg (vsub (design c) (design cs))). lra.
  Qed.
End Family.

(** ** the three families' get_term kernels are linear in the coefficient *)
Lemma term_std_lin c n m r phi : k_zk_term_std ROps c n m r phi = c * k_zk_term_std ROps 1 n m r phi.
Proof. unfold k_zk_term_std. rops. ring. Qed.
Lemma term_noll_lin c n m r phi : k_zk_term_noll ROps c n m r phi = c * k_zk_term_noll ROps 1 n m r phi.
Proof. unfold k_zk_term_noll. rops. ring. Qed.
Lemma term_fringe_lin c n m r phi : k_zk_term_fringe ROps c n m r phi = c * k_zk_term_fringe ROps 1 n m r phi.
Proof. unfold k_zk_term_fringe. rops. ring. Qed.

Definition family_term (fam : nat) : R -> Z -> Z -> R -> R -> R :=
  match fam with 0%nat => k_zk_term_std ROps | 1%nat => k_zk_term_noll ROps | _ => k_zk_term_fringe ROps end.
Definition family_indices (fam : nat) : list (Z * Z) :=
  match fam with 0%nat => std_indices | 1%nat => noll_indices | _ => fringe_indices end.
Lemma family_term_lin fam c n m r phi : family_term fam c n m r phi = c * family_term fam 1 n m r phi.
Proof. destruct fam as [|[|fam]]; [apply term_std_lin|apply term_noll_lin|apply term_fringe_lin]. Qed.

(** instantiated statements (every family, every coefficient vector / sample set / N) *)
(** [ZernikeX(coeffs).poly(r, phi)] of family [fam] (0 standard, 1 Noll, otherwise Fringe) over the reals *)
Definition rpoly (fam : nat) (c : list R) (r phi : R) : R :=
  zk_poly (O := ROps) (family_term fam) c (family_indices fam) r phi.

Theorem zernike_poly_linear fam a b c1 c2 r phi : length c1 = length c2 ->
  rpoly fam (lincomb a b c1 c2) r phi = a * rpoly fam c1 r phi + b * rpoly fam c2 r phi.
Proof. intros H. apply poly_linear; [apply family_term_lin|exact H]. Qed.

Theorem zernike_fit_recovers fam pts N c0 chat z :
  injective_design (family_term fam) (family_indices fam) pts N -> length c0 = N ->
  z = design (family_term fam) (family_indices fam) pts c0 ->
  lstsq_min (family_term fam) (family_indices fam) pts N chat z -> chat = c0.
Proof. apply fit_recovers. Qed.

(** the same statement with the number of sample points explicit: ANY number of points >= N, the square case
    [length pts = N] included (the boundary is inside the theorem; [fit_example] is an instance with N = length pts = 1) *)
Theorem zernike_fit_recovers_pts fam pts N c0 chat z :
  (N <= length pts)%nat ->
  injective_design (family_term fam) (family_indices fam) pts N -> length c0 = N ->
  z = design (family_term fam) (family_indices fam) pts c0 ->
  lstsq_min (family_term fam) (family_indices fam) pts N chat z ->
  length chat = N /\ chat = c0.
Proof.
  intros _ Inj L0 Hz M. split; [exact (proj1 M)|]. exact (zernike_fit_recovers fam pts N c0 chat z Inj L0 Hz M).
Qed.

Theorem zernike_fit_linear fam pts N a b z1 z2 c1 c2 chat :
  injective_design (family_term fam) (family_indices fam) pts N ->
  length z1 = length pts -> length z2 = length pts ->
  lstsq_min (family_term fam) (family_indices fam) pts N c1 z1 ->
  lstsq_min (family_term fam) (family_indices fam) pts N c2 z2 ->
  lstsq_min (family_term fam) (family_indices fam) pts N chat (lincomb a b z1 z2) ->
  chat = lincomb a b c1 c2.
Proof. apply fit_linear_in_data, family_term_lin. Qed.

Theorem zernike_fit_residual fam pts N chat z c d :
  length z = length pts ->
  lstsq_min (family_term fam) (family_indices fam) pts N chat z -> length c = N -> length d = N ->
  ss (resid (family_term fam) (family_indices fam) pts chat z) <= ss (resid (family_term fam) (family_indices fam) pts c z) /\
  dot (resid (family_term fam) (family_indices fam) pts chat z) (design (family_term fam) (family_indices fam) pts d) = 0.
Proof.
  intros Lz M Lc Ld. split.
  - apply (fit_residual_minimal _ _ _ N chat z c M Lc).
  - apply (lstsq_normal _ (family_term_lin fam) _ _ N chat z d Lz M Ld).
Qed.

(** hypotheses are satisfiable: piston only (N = 1) on one sample point: design c = [c0 * 1] is injective *)
Example fit_example :
  injective_design (family_term 2) (family_indices 2) [(0, 0)] 1 /\
  lstsq_min (family_term 2) (family_indices 2) [(0, 0)] 1 [3] (design (family_term 2) (family_indices 2) [(0, 0)] [3]).
Proof.
  assert (P : forall x, poly (family_term 2) (family_indices 2) [x] (0, 0) = x).
  { intros x. unfold poly, zk_poly, zk_terms. cbn [fst snd]. unfold family_indices.
    replace fringe_indices with ((0, 0)%Z :: tl fringe_indices) by (vm_compute; reflexivity).
    cbn [combine map]. rewrite sum_list_cons, sum_list_nil. unfold family_term, k_zk_term_fringe.
    rewrite radial_kernel_is_poly.
    replace (radial_coefs 0 0) with [(0%Z, (1 # 1)%Q)] by (vm_compute; reflexivity).
    unfold eval_R, k_zk_norm_fringe, k_zk_azimuthal, powZ. cbn [fold_left fst snd Z.ltb Z.compare Z.geb Z.to_nat pow_nat].
    rops. rewrite Rmult_0_l, cos_0. unfold Q2R. cbn [Qnum Qden]. field. }
  split.
  - intros c d L1 L2. destruct c as [|x [|? ?]]; try discriminate L1. destruct d as [|y [|? ?]]; try discriminate L2.
    intros H. unfold design in H. cbn [map] in H. rewrite !P in H. injection H as ->. reflexivity.
  - split; [reflexivity|]. intros c L. destruct c as [|x [|? ?]]; try discriminate L.
    rewrite !resid_design. cbn [map]. rewrite !P. unfold ss. cbn [dot]. pose proof (Rle_0_sqr (x - 3)) as Hs. unfold Rsqr in Hs. lra.
Qed.

(** C03: what RayGenerator.generate_rays / _get_ray_origins (regenerated kernels k_rg_generate, k_rg_origins,
    k_rg_z_offset) compute, over exact reals, for arbitrary EPL, EPD, vignetting factors and prescriptions. *)
From Coq Require Import Reals Lra Lia ZArith List Bool String Psatz.
From OV Require Import Ops OpsC03 RInst Gen.Standard Gen.RayGen Spec.S_C03.
Import ListNotations.
Local Open Scope string_scope.
Local Open Scope R_scope.

Local Arguments k_std_sag : simpl never.
Local Arguments k_rg_z_offset : simpl never.

Definition ray8 : Type := (R * R * R * R * R * R * R * R)%type.
Definition r_x (r : ray8) : R := match r with (x, _, _, _, _, _, _, _) => x end.
Definition r_y (r : ray8) : R := match r with (_, y, _, _, _, _, _, _) => y end.
Definition r_z (r : ray8) : R := match r with (_, _, z, _, _, _, _, _) => z end.
Definition r_L (r : ray8) : R := match r with (_, _, _, L, _, _, _, _) => L end.
Definition r_M (r : ray8) : R := match r with (_, _, _, _, M, _, _, _) => M end.
Definition r_N (r : ray8) : R := match r with (_, _, _, _, _, N, _, _) => N end.
Definition r_i (r : ray8) : R := match r with (_, _, _, _, _, _, i, _) => i end.
Definition r_w (r : ray8) : R := match r with (_, _, _, _, _, _, _, w) => w end.

Lemma sqrt_sumsq_pos a b c : a*a + b*b + c*c <> 0 -> 0 < sqrt (a*a + b*b + c*c).
Proof. intros H. apply sqrt_lt_R0. assert (0 <= a*a + b*b + c*c) by nra. lra. Qed.

Lemma unit_of_quot a b c : a*a + b*b + c*c <> 0 ->
  let m := sqrt (a*a + b*b + c*c) in (a/m)*(a/m) + (b/m)*(b/m) + (c/m)*(c/m) = 1.
Proof.
  intros H m. assert (Hm : 0 < m) by (apply sqrt_sumsq_pos; exact H).
  assert (Hmm : m*m = a*a + b*b + c*c) by (unfold m; apply sqrt_sqrt; nra).
  transitivity ((a*a + b*b + c*c) / (m*m)); [field; lra|]. rewrite Hmm. field. exact H.
Qed.

Lemma sqrt_square_abs x : sqrt (x * x) = Rabs x.
Proof. change (x*x) with (Rsqr x). apply sqrt_Rsqr_abs. Qed.

Section Launch.
  Variables Hx Hy Px Py w v0 v1 mf EPL EPD objR objk objz n0 apv : R.
  Variable pos : list R.
  Variables (ap pol : string) (upol : bool).

  Notation gen inf ft tele :=
    (k_rg_generate ROps Hx Hy Px Py w v0 v1 mf inf ft tele EPL EPD pos objR objk objz ap n0 apv pol upol).
  Notation origins inf ft tele :=
    (k_rg_origins ROps Hx Hy Px Py (1 - v0) (1 - v1) mf inf ft tele EPL EPD pos objR objk objz).

  (** the generator returns the origin computed by _get_ray_origins, unit intensity and the requested wavelength *)
  Lemma gen_nontele_shape inf ft r :
    gen inf ft false = Some r ->
    exists x y z, origins inf ft false = Some (x, y, z) /\
      let ax := Px * EPD * (1 - v0) / 2 in let ay := Py * EPD * (1 - v1) / 2 in
      let m := sqrt ((ax - x)*(ax - x) + (ay - y)*(ay - y) + (EPL - z)*(EPL - z)) in
      r = (x, y, z, (ax - x)/m, (ay - y)/m, (EPL - z)/m, 1, 1 * w).
  Proof.
    unfold k_rg_generate. rops.
    destruct (k_rg_origins ROps Hx Hy Px Py (1 - v0) (1 - v1) mf inf ft false EPL EPD pos objR objk objz)
      as [[[x y] z]|] eqn:E; [|discriminate].
    intros H. exists x, y, z. split; [reflexivity|].
    destruct (String.eqb ap "objectNA" && inf)%bool; [discriminate|].
    destruct (String.eqb pol "ignore"); [destruct upol; [discriminate|]|]; inversion H; reflexivity.
  Qed.

  (** *** Aim point: every launched ray of a non-telecentric system passes through the point
      (Px (1-vx) EPD/2, Py (1-vy) EPD/2, EPL) of the paraxial entrance pupil plane, has a unit direction,
      unit intensity and the requested wavelength *)
  Theorem launch_aim_point inf ft r :
    gen inf ft false = Some r ->
    let ax := Px * (1 - v0) * EPD / 2 in let ay := Py * (1 - v1) * EPD / 2 in
    (ax - r_x r)*(ax - r_x r) + (ay - r_y r)*(ay - r_y r) + (EPL - r_z r)*(EPL - r_z r) <> 0 ->
    exists t, 0 < t /\
      r_x r + t * r_L r = ax /\ r_y r + t * r_M r = ay /\ r_z r + t * r_N r = EPL /\
      r_L r * r_L r + r_M r * r_M r + r_N r * r_N r = 1 /\ r_i r = 1 /\ r_w r = w.
  Proof.
    intros H ax ay. destruct (gen_nontele_shape _ _ _ H) as (x & y & z & _ & Hr). cbv zeta in Hr. subst r.
    cbn [r_x r_y r_z r_L r_M r_N r_i r_w].
    replace (Px * EPD * (1 - v0) / 2) with ax by (unfold ax; field).
    replace (Py * EPD * (1 - v1) / 2) with ay by (unfold ay; field).
    intros Hne. set (m := sqrt _).
    assert (Hm : 0 < m) by (apply sqrt_sumsq_pos; exact Hne).
    exists m. repeat split; try (field; lra); try lra.
    apply unit_of_quot. exact Hne.
  Qed.

  (** *** Finite object, height fields: the ray starts on the object surface at height H x max_field *)
  Theorem launch_finite_height r :
    gen false "object_height" false = Some r ->
    r_x r = mf * Hx /\ r_y r = mf * Hy /\ r_z r = k_std_sag ROps (mf * Hx) (mf * Hy) objR objk + objz.
  Proof.
    intros H. destruct (gen_nontele_shape _ _ _ H) as (x & y & z & Ho & Hr). cbv zeta in Hr. subst r.
    unfold k_rg_origins in Ho. cbn in Ho. rops. inversion Ho. cbn. auto.
  Qed.

  Definition offset : R := k_rg_z_offset ROps pos EPD EPL.
  (** leftmost vertex of the lens proper (positions[1:-1]) *)
  Definition zmin : R := min_list (O := ROps) (sliceZ pos 1 (Some (Z.opp 1))).

  (** the repaired launch plane z = -offset lies at least one pupil diameter to the left of the entrance pupil
      and of every surface *)
  Lemma offset_bounds : EPD <= offset + EPL /\ EPD - zmin <= offset.
  Proof.
    unfold offset, k_rg_z_offset, zmin. rops. set (m := min_list _).
    destruct (Rltb EPL m) eqn:E.
    - apply Rltb_true in E. split; lra.
    - apply Rltb_false in E. split; lra.
  Qed.
  Definition tanx : R := tan (deg (mf * Hx)).
  Definition tany : R := tan (deg (mf * Hy)).

  Lemma inf_angle_dir r :
    gen true "angle" false = Some r -> getZ (O := ROps) pos 1 = 0 -> offset + EPL <> 0 ->
    let s := sqrt (tanx*tanx + tany*tany + 1) in
    r_L r = - tanx * ((offset + EPL) / (Rabs (offset + EPL) * s)) /\
    r_M r = tany * ((offset + EPL) / (Rabs (offset + EPL) * s)) /\
    r_N r = (offset + EPL) / (Rabs (offset + EPL) * s) /\
    r_z r = - offset /\ 0 < s.
  Proof.
    intros H Hp1 Hne s. destruct (gen_nontele_shape _ _ _ H) as (x & y & z & Ho & Hr). cbv zeta in Hr. subst r.
    unfold k_rg_origins in Ho. cbn in Ho. rops.
    change (k_rg_z_offset ROps pos EPD EPL) with offset in Ho.
    rewrite Hp1 in Ho.
    inversion Ho as [[Hx0 Hy0 Hz0]]. clear Ho. subst x y z.
    cbn [r_x r_y r_z r_L r_M r_N].
    change (tan (mf * Hx * PI / 180)) with tanx. change (tan (mf * Hy * PI / 180)) with tany.
    set (D := offset + EPL) in *.
    assert (Hs : 0 < s).
    { unfold s. apply sqrt_lt_R0. nra. }
    assert (Hss : s * s = tanx*tanx + tany*tany + 1) by (unfold s; apply sqrt_sqrt; nra).
    assert (Hmag : sqrt ((Px * EPD * (1 - v0) / 2 - (Px * EPD / 2 * (1 - v0) + tanx * D)) *
                          (Px * EPD * (1 - v0) / 2 - (Px * EPD / 2 * (1 - v0) + tanx * D)) +
                         (Py * EPD * (1 - v1) / 2 - (Py * EPD / 2 * (1 - v1) + - tany * D)) *
                          (Py * EPD * (1 - v1) / 2 - (Py * EPD / 2 * (1 - v1) + - tany * D)) +
                         (EPL - (0 - offset)) * (EPL - (0 - offset))) = Rabs D * s).
    { replace (_ + _ + _) with ((D * s) * (D * s)).
      - rewrite sqrt_square_abs. rewrite Rabs_mult. rewrite (Rabs_right s) by lra. reflexivity.
      - replace (D * s * (D * s)) with (D*D*(s*s)) by ring. rewrite Hss. unfold D. field. }
    rewrite Hmag.
    assert (HA : Rabs D <> 0) by (apply Rabs_no_R0; exact Hne).
    repeat split; try (unfold D in *; field; split; lra); try lra.
  Qed.

  (** *** Infinite object, angle fields (first surface at z = 0, EPD > 0): the ray travels FORWARD at the field angle,
      tan = M/N = tan(Hy x max_field), from the plane z = -offset, which lies at least one pupil diameter to the
      left of the entrance pupil and of every surface of the lens *)
  Theorem launch_infinite_angle r :
    gen true "angle" false = Some r -> getZ (O := ROps) pos 1 = 0 -> 0 < EPD ->
    r_M r = r_N r * tany /\ r_L r = - (r_N r * tanx) /\ 0 < r_N r /\
    r_z r = - offset /\ r_z r + EPD <= EPL /\ r_z r + EPD <= zmin.
  Proof.
    intros H Hp HE. destruct offset_bounds as [Hb1 Hb2].
    assert (Hne : offset + EPL <> 0) by lra.
    assert (G1 : - offset + EPD <= EPL) by lra. assert (G2 : - offset + EPD <= zmin) by lra.
    destruct (inf_angle_dir r H Hp Hne) as (HL & HM & HN & Hz & Hs).
    set (s := sqrt _) in *. set (D := offset + EPL) in *.
    assert (HD : 0 < D) by lra.
    assert (HA : 0 < Rabs D) by (apply Rabs_pos_lt; exact Hne).
    assert (Hden : 0 < Rabs D * s) by (apply Rmult_lt_0_compat; assumption).
    rewrite HL, HM, HN, Hz. repeat split; try ring; try lra.
    apply Rdiv_lt_0_compat; assumption.
  Qed.

  (** *** Finite object, angle fields: the rays start on the object plane z = positions[0]; the chief ray
      (Px = Py = 0) makes the field angle with the axis *)
  Theorem launch_finite_angle r :
    gen false "angle" false = Some r ->
    let z0 := getZ (O := ROps) pos 0 in
    r_z r = z0 /\ r_y r = - tany * (EPL - z0) /\ r_x r = tanx * (EPL - z0) /\
    (Px = 0 -> Py = 0 -> EPL - z0 <> 0 ->
       r_M r = r_N r * tany /\ r_L r = - (r_N r * tanx) /\ (0 < EPL - z0 -> 0 < r_N r)).
  Proof.
    intros H z0. destruct (gen_nontele_shape _ _ _ H) as (x & y & z & Ho & Hr). cbv zeta in Hr. subst r.
    unfold k_rg_origins in Ho. cbn in Ho. rops.
    inversion Ho as [[Hx0 Hy0 Hz0]]. clear Ho.
    change (tan (mf * Hx * PI / 180)) with tanx. change (tan (mf * Hy * PI / 180)) with tany.
    fold z0. cbn [r_x r_y r_z r_L r_M r_N].
    split; [reflexivity|]. split; [reflexivity|]. split; [reflexivity|].
    intros HPx HPy Hne. subst Px Py.
    set (D := EPL - z0) in *.
    set (s := sqrt (tanx*tanx + tany*tany + 1)).
    assert (Hs : 0 < s) by (unfold s; apply sqrt_lt_R0; nra).
    assert (Hss : s * s = tanx*tanx + tany*tany + 1) by (unfold s; apply sqrt_sqrt; nra).
    assert (Hmag : sqrt ((0 * EPD * (1 - v0) / 2 - tanx * D) * (0 * EPD * (1 - v0) / 2 - tanx * D) +
                         (0 * EPD * (1 - v1) / 2 - - tany * D) * (0 * EPD * (1 - v1) / 2 - - tany * D) +
                         D * D) = Rabs D * s).
    { replace (_ + _ + _) with ((D * s) * (D * s)).
      - rewrite sqrt_square_abs. rewrite Rabs_mult. rewrite (Rabs_right s) by lra. reflexivity.
      - replace (D * s * (D * s)) with (D*D*(s*s)) by ring. rewrite Hss. field. }
    rewrite Hmag.
    assert (HA : 0 < Rabs D) by (apply Rabs_pos_lt; exact Hne).
    assert (Hden : 0 < Rabs D * s) by (apply Rmult_lt_0_compat; assumption).
    repeat split; try (field; lra).
    intro Hpos. apply Rdiv_lt_0_compat; assumption.
  Qed.

  (** *** Telecentric object space (finite object, height fields, object-space NA): the rays start on the
      object at the field height; the chief ray leaves parallel to the axis; the ray through the rim of the
      unvignetted pupil makes n0 sin(theta) = NA with the axis (n0: object-space index); every direction is a unit vector *)
  Theorem launch_telecentric r :
    k_rg_generate ROps Hx Hy Px Py w v0 v1 mf false "object_height" true EPL EPD pos objR objk objz "objectNA" n0 apv pol upol
      = Some r ->
    0 < apv / n0 < 1 ->
    r_x r = mf * Hx /\ r_y r = mf * Hy /\ r_z r = k_std_sag ROps (mf * Hx) (mf * Hy) objR objk + objz /\
    r_L r * r_L r + r_M r * r_M r + r_N r * r_N r = 1 /\ 0 < r_N r /\ r_i r = 1 /\ r_w r = w /\
    (Px = 0 -> Py = 0 -> r_L r = 0 /\ r_M r = 0 /\ r_N r = 1) /\
    (Px = 0 -> Py = 1 -> v1 = 0 -> r_L r = 0 /\ n0 * r_M r = apv) /\
    (* general pupil point: tan(theta) scales linearly with the (vignetted) pupil radius *)
    r_L r = r_N r * (Px * (1 - v0)) * ((apv / n0) / sqrt (1 - (apv / n0) * (apv / n0))) /\
    r_M r = r_N r * (Py * (1 - v1)) * ((apv / n0) / sqrt (1 - (apv / n0) * (apv / n0))).
  Proof.
    intros H Hna.
    assert (Hn0 : n0 <> 0).
    { intro E. rewrite E in Hna. unfold Rdiv in Hna. rewrite Rinv_0, Rmult_0_r in Hna. lra. }
    unfold k_rg_generate, k_rg_origins in H. cbn in H. rops.
    set (s := apv / n0) in *. destruct Hna as [Hna0 Hna1].
    set (c := sqrt (1 - s * s)) in *.
    assert (Hc2 : c * c = 1 - s * s) by (unfold c; apply sqrt_sqrt; nra).
    assert (Hc : 0 < c) by (unfold c; apply sqrt_lt_R0; nra).
    set (x0 := mf * Hx) in *. set (y0 := mf * Hy) in *.
    set (z0 := k_std_sag ROps x0 y0 objR objk + objz) in *.
    set (a := Px * (1 - v0)) in *. set (b := Py * (1 - v1)) in *.
    set (m := sqrt _) in H.
    assert (Hpos : 0 < (a + x0 - x0) * (a + x0 - x0) + (b + y0 - y0) * (b + y0 - y0) + (c / s + z0 - z0) * (c / s + z0 - z0)).
    { assert (0 < c / s) by (apply Rdiv_lt_0_compat; lra).
      replace (c / s + z0 - z0) with (c / s) by ring. nra. }
    assert (Hm : 0 < m) by (unfold m; apply sqrt_lt_R0; exact Hpos).
    assert (Hmm : m * m = a*a + b*b + (c/s)*(c/s)).
    { unfold m. rewrite sqrt_sqrt by lra. ring. }
    assert (Hr : r = (x0, y0, z0, (a + x0 - x0)/m, (b + y0 - y0)/m, (c/s + z0 - z0)/m, 1, 1 * w)).
    { destruct (String.eqb pol "ignore"); [destruct upol; [discriminate|]|]; inversion H; reflexivity. }
    subst r. cbn [r_x r_y r_z r_L r_M r_N r_i r_w].
    assert (Hq : 0 < c / s) by (apply Rdiv_lt_0_compat; lra).
    repeat split; try reflexivity; try ring.
    - transitivity ((a*a + b*b + (c/s)*(c/s)) / (m*m)); [field; lra|]. rewrite Hmm. field. nra.
    - replace (c / s + z0 - z0) with (c / s) by ring. apply Rdiv_lt_0_compat; assumption.
    - unfold a. rewrite H0. field. lra.
    - unfold b. rewrite H1. field. lra.
    - (* N = 1 for the chief ray *)
      assert (Ea : a = 0) by (unfold a; rewrite H0; ring).
      assert (Eb : b = 0) by (unfold b; rewrite H1; ring).
      assert (Em : m = c / s).
      { apply Rsqr_inj; try lra. unfold Rsqr. rewrite Hmm, Ea, Eb. ring. }
      rewrite Em. field. split; lra.
    - unfold a. rewrite H0. field. lra.
    - (* sin(theta) = NA for the marginal ray *)
      assert (Ea : a = 0) by (unfold a; rewrite H0; ring).
      assert (Eb : b = 1) by (unfold b; rewrite H1, H2; ring).
      assert (Em : m = 1 / s).
      { apply Rsqr_inj; try lra. { apply Rlt_le. apply Rdiv_lt_0_compat; lra. }
        unfold Rsqr. rewrite Hmm, Ea, Eb.
        transitivity ((s*s + c*c) / (s*s)); [field; lra|]. rewrite Hc2. field. lra. }
      replace (n0 * ((b + y0 - y0) / m)) with (n0 * s); [unfold s; field; exact Hn0|].
      rewrite Em, Eb. field. lra.
    - field. repeat split; lra.
    - field. repeat split; lra.
  Qed.
End Launch.

(** all rays of one field of an infinite object are parallel: the direction does not depend on the pupil point
    nor on the vignetting factors *)
Theorem launch_infinite_parallel :
  forall Hx Hy w mf EPL EPD objR objk objz n0 apv pos ap pol upol Px Py v0 v1 Px' Py' v0' v1' r r',
    k_rg_generate ROps Hx Hy Px Py w v0 v1 mf true "angle" false EPL EPD pos objR objk objz ap n0 apv pol upol = Some r ->
    k_rg_generate ROps Hx Hy Px' Py' w v0' v1' mf true "angle" false EPL EPD pos objR objk objz ap n0 apv pol upol = Some r' ->
    getZ (O := ROps) pos 1 = 0 -> 0 < EPD ->
    r_L r = r_L r' /\ r_M r = r_M r' /\ r_N r = r_N r'.
Proof.
  intros until r'. intros H H' Hp HE.
  assert (Hne : offset EPL EPD pos + EPL <> 0) by (destruct (offset_bounds EPL EPD pos); lra).
  destruct (inf_angle_dir _ _ _ _ _ _ _ _ _ _ _ _ _ _ _ _ _ _ _ _ H Hp Hne) as (HL & HM & HN & _).
  destruct (inf_angle_dir _ _ _ _ _ _ _ _ _ _ _ _ _ _ _ _ _ _ _ _ H' Hp Hne) as (HL' & HM' & HN' & _).
  rewrite HL, HM, HN, HL', HM', HN'. auto.
Qed.

(** * Array lemmas over the exact-real instance: the NumPy-array primitives of Num/OpsC12.v
    against the plain list functions of Spec/S_C12.v *)
From Coq Require Import Reals ZArith List Lra Lia Psatz.
From OV Require Import Ops RInst Num.OpsC12 Spec.S_C12.
Import ListNotations.
Local Open Scope R_scope.

Lemma fold_add_acc (l : list R) (a : R) : fold_left Rplus l a = a + Rsum l.
Proof. revert a; induction l as [|x l IH]; intros a; cbn; [lra|]. rewrite IH; lra. Qed.

Lemma sum_list_Rsum (l : list R) : sum_list (O := ROps) l = Rsum l.
Proof. unfold sum_list; rops. rewrite fold_add_acc; lra. Qed.

Lemma mean_R (l : list R) : mean_ (O := ROps) l = Rsum l / INR (length l).
Proof. unfold mean_; rops. rewrite sum_list_Rsum, <- INR_IZR_INZ. reflexivity. Qed.

Lemma Rsum_app a b : Rsum (a ++ b) = Rsum a + Rsum b.
Proof. induction a; cbn; lra. Qed.

Lemma Rsum_map_sub (l : list R) (c : R) : Rsum (map (fun x => x - c) l) = Rsum l - INR (length l) * c.
Proof.
  induction l as [|x l IH]; [cbn; lra|].
  change (length (x :: l)) with (S (length l)). rewrite S_INR. cbn [map Rsum]. rewrite IH. lra.
Qed.

Lemma Rsum_nonneg l : (forall v, In v l -> 0 <= v) -> 0 <= Rsum l.
Proof.
  induction l as [|x l IH]; intros H; cbn; [lra|].
  assert (0 <= x) by (apply H; left; reflexivity).
  assert (0 <= Rsum l) by (apply IH; intros v Hv; apply H; right; exact Hv). lra.
Qed.

(** the mean is the centroid: the first moment about it vanishes (non-empty list) *)
Lemma first_moment_mean (l : list R) : l <> [] -> first_moment l (mean_ (O := ROps) l) = 0.
Proof.
  intros Hne. unfold first_moment. rewrite Rsum_map_sub, mean_R.
  assert (INR (length l) <> 0).
  { destruct l; [contradiction|]. apply not_0_INR. discriminate. }
  field; assumption.
Qed.

(** and it is the only such point *)
Lemma first_moment_unique (l : list R) c : l <> [] -> first_moment l c = 0 -> c = mean_ (O := ROps) l.
Proof.
  intros Hne H. unfold first_moment in H. rewrite Rsum_map_sub in H. rewrite mean_R.
  assert (Hn : INR (length l) <> 0).
  { destruct l; [contradiction|]. apply not_0_INR. discriminate. }
  apply Rmult_eq_reg_l with (INR (length l)); [|exact Hn].
  transitivity (Rsum l); [lra|]. field; exact Hn.
Qed.

(** ** elementwise maps *)
Lemma lmap_length (f : R -> R) l : length (lmap (O := ROps) f l) = length l.
Proof. unfold lmap; apply map_length. Qed.

Lemma lmap2_length (f : R -> R -> R) a b : length (lmap2 (O := ROps) f a b) = Nat.min (length a) (length b).
Proof. revert b; induction a as [|x a IH]; intros [|y b]; cbn; auto. Qed.

Lemma lmap2_nth (f : R -> R -> R) a b i d da db :
  (i < length a)%nat -> (i < length b)%nat ->
  nth i (lmap2 (O := ROps) f a b) d = f (nth i a da) (nth i b db).
Proof.
  revert b i; induction a as [|x a IH]; intros [|y b] i Ha Hb; cbn in *; try lia.
  destruct i; [reflexivity|]. apply IH; lia.
Qed.

Lemma lmap_nth (f : R -> R) l i d dl : (i < length l)%nat -> nth i (lmap (O := ROps) f l) d = f (nth i l dl).
Proof.
  unfold lmap. revert i; induction l as [|x l IH]; intros i H; cbn in *; [lia|].
  destruct i; [reflexivity|]. apply IH; lia.
Qed.

(** ** np.max over exact reals: a maximum of the list *)
Lemma max2_R a v : max2 (O := ROps) a v = Rmax a v.
Proof.
  unfold max2; rops. unfold Rltb, Rmax.
  destruct (Rlt_dec a v); destruct (Rle_dec a v); try lra; reflexivity.
Qed.

Lemma fold_max_ge l a : a <= fold_left (max2 (O := ROps)) l a /\ forall v, In v l -> v <= fold_left (max2 (O := ROps)) l a.
Proof.
  revert a; induction l as [|x l IH]; intros a; cbn [fold_left]; [split; [lra|intros v []]|].
  destruct (IH (max2 (O := ROps) a x)) as [H1 H2]. rewrite max2_R in *.
  split; [pose proof (Rmax_l a x); lra|].
  intros v [<-|Hv]; [pose proof (Rmax_r a x); lra|apply H2; exact Hv].
Qed.

Lemma fold_max_in l a : fold_left (max2 (O := ROps)) l a = a \/ In (fold_left (max2 (O := ROps)) l a) l.
Proof.
  revert a; induction l as [|x l IH]; intros a; cbn [fold_left]; [left; reflexivity|].
  destruct (IH (max2 (O := ROps) a x)) as [H|H]; [|right; right; exact H].
  rewrite H, max2_R. unfold Rmax. destruct (Rle_dec a x); [right; left; reflexivity|left; reflexivity].
Qed.

Lemma max_list_is_max l : l <> [] -> is_max l (max_list (O := ROps) l).
Proof.
  destruct l as [|x l]; [contradiction|intros _]. cbn [max_list]. split.
  - destruct (fold_max_in l x) as [H|H]; [rewrite H; left; reflexivity|right; exact H].
  - intros v [Hv|Hv]; [subst v; exact (proj1 (fold_max_ge l x))|exact (proj2 (fold_max_ge l x) v Hv)].
Qed.

(** ** np.nansum over exact reals is the plain sum *)
Lemma nansum_R l : nansum (O := ROps) l = Rsum l.
Proof. unfold nansum; rops. change (fold_left (fun acc v : R => acc + v) l 0) with (fold_left Rplus l 0). rewrite fold_add_acc; lra. Qed.

(** ** NaN-ignoring reductions (np.nanmean / np.nanmax) *)
Lemma filter_notnan_R (l : list R) : filter (notnan (O := ROps)) l = l.
Proof. induction l as [|x l IH]; [reflexivity|]. cbn [filter]. change (notnan (O := ROps) x) with true. cbv iota. rewrite IH. reflexivity. Qed.

Lemma nanmean_R (l : list R) : nanmean_ (O := ROps) l = mean_ (O := ROps) l.
Proof. unfold nanmean_. rewrite filter_notnan_R. reflexivity. Qed.

Lemma nanmax_R (l : list R) : nanmax_list (O := ROps) l = max_list (O := ROps) l.
Proof. unfold nanmax_list. rewrite filter_notnan_R. reflexivity. Qed.

(** for EVERY arithmetic instance (binary64 and extended reals included): a failed ray (NaN coordinate) does not
    take part in the mean / maximum, wherever it sits in the array; without NaN entries the reductions are the plain ones *)
Theorem nanmean_skip (O : Ops) (a b : list (T O)) (x : T O) :
  isnan_ x = true -> nanmean_ (a ++ x :: b) = nanmean_ (a ++ b).
Proof.
  intros H. unfold nanmean_. rewrite !filter_app. cbn [filter]. unfold notnan at 2. rewrite H. reflexivity.
Qed.

Theorem nanmax_skip (O : Ops) (a b : list (T O)) (x : T O) :
  isnan_ x = true -> nanmax_list (a ++ x :: b) = nanmax_list (a ++ b).
Proof.
  intros H. unfold nanmax_list. rewrite !filter_app. cbn [filter]. unfold notnan at 2. rewrite H. reflexivity.
Qed.

Theorem nanmean_clean (O : Ops) (l : list (T O)) :
  (forall v, In v l -> isnan_ v = false) -> nanmean_ l = mean_ l /\ nanmax_list l = max_list l.
Proof.
  intros H. assert (E : filter (notnan (O := O)) l = l).
  { induction l as [|x l IH]; [reflexivity|]. cbn [filter]. unfold notnan at 1.
    rewrite (H x (or_introl eq_refl)). cbn. f_equal. apply IH. intros v Hv; apply H; right; exact Hv. }
  unfold nanmean_, nanmax_list. rewrite E. split; reflexivity.
Qed.

(** arr[mask] keeps exactly the entries whose mask bit is set *)
Lemma lmask_in (l : list R) (m : list bool) v : In v (lmask (O := ROps) l m) -> In v l.
Proof.
  revert m; induction l as [|x l IH]; intros [|b m] H; cbn in H; try contradiction.
  destruct b; [destruct H as [<-|H]; [left; reflexivity|right; eapply IH; exact H]|right; eapply IH; exact H].
Qed.

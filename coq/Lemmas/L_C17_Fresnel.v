(** Fresnel coefficients: the kernel regenerated from optiland/jones.py (JonesFresnel.calculate_matrix)
    equals the textbook coefficients of Spec/S_C17.v below the critical angle, and those conserve energy. *)
From Coq Require Import Reals Lra Lia ZArith List Psatz.
From OV Require Import Ops RInst Cx Gen.Jones Spec.S_C17.
Import ListNotations.
Local Open Scope R_scope.
Local Notation cofR := (@Cx.cofR ROps).
Local Notation c1 := (@Cx.c1 ROps).

(** ** complex arithmetic over ROps restricted to the real axis *)
Lemma cdiv_real (a b : R) : b <> 0 -> cdiv (O:=ROps) (cofR a) (cofR b) = cofR (a / b).
Proof. intros Hb. unfold cdiv, cofR, cabs2. rops. cbn [fst snd]. f_equal; field; exact Hb. Qed.
Lemma cadd_real (a b : R) : cadd (O:=ROps) (cofR a) (cofR b) = cofR (a + b).
Proof. unfold cadd, cofR. rops. cbn [fst snd]. f_equal; ring. Qed.
Lemma csub_real (a b : R) : csub (O:=ROps) (cofR a) (cofR b) = cofR (a - b).
Proof. unfold csub, cofR. rops. cbn [fst snd]. f_equal; ring. Qed.
Lemma cneg_real (a : R) : cneg (O:=ROps) (cofR a) = cofR (- a).
Proof. unfold cneg, cofR. rops. cbn [fst snd]. f_equal; ring. Qed.
Lemma csqrt_real_nonneg (x : R) : 0 <= x -> csqrt (O:=ROps) (cofR x) = cofR (sqrt x).
Proof.
  intros Hx. unfold csqrt, cofR. rops.
  assert (E : Reqb 0 0 = true) by (apply Reqb_true; reflexivity). rewrite E.
  assert (L : Rltb x 0 = false) by (apply Rltb_false; exact Hx). rewrite L. reflexivity.
Qed.
(** under total internal reflection the root is purely imaginary *)
Lemma csqrt_real_neg (x : R) : x < 0 -> csqrt (O:=ROps) (cofR x) = (0, sqrt (- x)).
Proof.
  intros Hx. unfold csqrt, cofR. rops.
  assert (E : Reqb 0 0 = true) by (apply Reqb_true; reflexivity). rewrite E.
  assert (L : Rltb x 0 = true) by (apply Rltb_true; exact Hx). rewrite L. reflexivity.
Qed.

Lemma pos_sum_ne0 a b : 0 < a -> 0 < b -> a + b <> 0.
Proof. intros; lra. Qed.

Ltac pos := match goal with
  | |- 0 < ?a * ?b => first [assumption | apply Rmult_lt_0_compat; pos]
  | _ => first [assumption | lra] end.

Section Fresnel.
  Variables n1 n2 th : R.
  Hypothesis Hn1 : 0 < n1.
  Hypothesis Hn2 : 0 < n2.
  Hypothesis Hth0 : 0 <= th.
  Hypothesis Hth1 : th < PI / 2.
  Hypothesis Hcrit : no_TIR n1 n2 th.

  Let c := cos th.
  Let s := sin th.
  Let ct := cos_t n1 n2 th.

  Lemma cos_pos_th : 0 < c.
  Proof. unfold c. apply cos_gt_0; lra. Qed.
  Lemma sin_nonneg_th : 0 <= s.
  Proof. unfold s. apply sin_ge_0; [lra|]. generalize PI_RGT_0; lra. Qed.
  Lemma cs_one : c * c + s * s = 1.
  Proof. unfold c, s. generalize (sin2_cos2 th). unfold Rsqr. lra. Qed.
  Lemma sint_lt1 : 0 <= sin_t n1 n2 th < 1.
  Proof.
    unfold sin_t. fold s. generalize sin_nonneg_th. intros Hs. unfold no_TIR in Hcrit. fold s in Hcrit.
    split.
    - apply Rmult_le_pos; [nra|]. left. apply Rinv_0_lt_compat; lra.
    - apply Rmult_lt_reg_r with n2; [lra|]. field_simplify; lra.
  Qed.
  Lemma ct_sq : ct * ct = 1 - sin_t n1 n2 th * sin_t n1 n2 th.
  Proof. unfold ct, cos_t. apply sqrt_sqrt. generalize sint_lt1. nra. Qed.
  Lemma ct_pos : 0 < ct.
  Proof. unfold ct, cos_t. apply sqrt_lt_R0. generalize sint_lt1. nra. Qed.

  (** radicand of the implementation and its root:  sqrt((n2/n1)^2 - sin^2) = (n2/n1) cos th_t *)
  Lemma radicand_pos : 0 < n2 / n1 * (n2 / n1) - s * s.
  Proof.
    generalize sint_lt1 sin_nonneg_th. unfold sin_t. fold s. intros [H0 H1] Hs.
    assert (Hlt : s < n2 / n1).
    { apply Rmult_lt_reg_r with n1; [lra|]. unfold Rdiv. rewrite Rmult_assoc, Rinv_l by lra.
      unfold no_TIR in Hcrit. fold s in Hcrit. lra. }
    nra.
  Qed.
  Lemma root_is : sqrt (n2 / n1 * (n2 / n1) - s * s) = n2 / n1 * ct.
  Proof.
    assert (Hn : 0 < n2 / n1) by (apply Rdiv_lt_0_compat; lra).
    replace (n2 / n1 * (n2 / n1) - s * s) with ((n2 / n1 * ct) * (n2 / n1 * ct)).
    - apply sqrt_square. generalize ct_pos. nra.
    - replace (n2 / n1 * ct * (n2 / n1 * ct)) with (n2 / n1 * (n2 / n1) * (ct * ct)) by ring.
      rewrite ct_sq. unfold sin_t. fold s. field. split; lra.
  Qed.

  Lemma denom_s : n1 * c + n2 * ct <> 0.
  Proof. generalize cos_pos_th ct_pos. nra. Qed.
  Lemma denom_p : n2 * c + n1 * ct <> 0.
  Proof. generalize cos_pos_th ct_pos. nra. Qed.

  (** *** the regenerated kernel is the textbook matrix *)
  Theorem fresnel_transmit_kernel (w x : R) :
    k_jones_fresnel ROps false th w n1 n2 x
    = m3_flat (diag3 (cofR (t_s n1 n2 th)) (cofR (t_p n1 n2 th)) c1).
  Proof.
    cbv beta delta [k_jones_fresnel] iota zeta. rops.
    fold c. fold s. rewrite csqrt_real_nonneg by (left; exact radicand_pos).
    rewrite root_is. rewrite !cadd_real.
    generalize cos_pos_th ct_pos denom_s denom_p. intros Hc Hct Hds Hdp.
    assert (Hn : 0 < n2 / n1) by (apply Rdiv_lt_0_compat; lra).
    rewrite !cdiv_real.
    - unfold t_s, t_p. fold c. fold ct.
      replace (2 * c / (c + n2 / n1 * ct)) with (2 * n1 * c / (n1 * c + n2 * ct)) by (field; split; [lra|nra]).
      replace (2 * (n2 / n1) * c / (n2 / n1 * (n2 / n1) * c + n2 / n1 * ct))
        with (2 * n1 * c / (n2 * c + n1 * ct)) by (field; repeat split; try lra; nra).
      reflexivity.
    - apply pos_sum_ne0; pos.
    - apply pos_sum_ne0; pos.
  Qed.

  Theorem fresnel_reflect_kernel (w x : R) :
    k_jones_fresnel ROps true th w n1 n2 x
    = m3_flat (diag3 (cofR (r_s n1 n2 th)) (cofR (- r_p n1 n2 th)) (cofR (-1))).
  Proof.
    cbv beta delta [k_jones_fresnel] iota zeta. rops.
    fold c. fold s. rewrite csqrt_real_nonneg by (left; exact radicand_pos).
    rewrite root_is. rewrite !cadd_real, !csub_real.
    generalize cos_pos_th ct_pos denom_s denom_p. intros Hc Hct Hds Hdp.
    assert (Hn : 0 < n2 / n1) by (apply Rdiv_lt_0_compat; lra).
    rewrite !cdiv_real by (apply pos_sum_ne0; pos). rewrite cneg_real.
    unfold r_s, r_p. fold c. fold ct.
    replace ((c - n2 / n1 * ct) / (c + n2 / n1 * ct)) with ((n1 * c - n2 * ct) / (n1 * c + n2 * ct))
      by (field; split; [lra|nra]).
    replace ((n2 / n1 * (n2 / n1) * c - n2 / n1 * ct) / (n2 / n1 * (n2 / n1) * c + n2 / n1 * ct))
      with ((n2 * c - n1 * ct) / (n2 * c + n1 * ct)) by (field; repeat split; try lra; nra).
    reflexivity.
  Qed.

  (** *** energy conservation, separately for s and p *)
  Theorem fresnel_energy_s : Refl (r_s n1 n2 th) + Trans n1 n2 th (t_s n1 n2 th) = 1.
  Proof.
    unfold Refl, Trans, r_s, t_s. fold c. fold ct.
    generalize cos_pos_th ct_pos denom_s. intros Hc Hct Hd. field. repeat split; try lra; nra.
  Qed.
  Theorem fresnel_energy_p : Refl (r_p n1 n2 th) + Trans n1 n2 th (t_p n1 n2 th) = 1.
  Proof.
    unfold Refl, Trans, r_p, t_p. fold c. fold ct.
    generalize cos_pos_th ct_pos denom_p. intros Hc Hct Hd. field. repeat split; try lra; nra.
  Qed.
  (** both power coefficients lie in [0,1] (no gain) *)
  Theorem fresnel_reflectance_bounds :
    0 <= Refl (r_s n1 n2 th) <= 1 /\ 0 <= Refl (r_p n1 n2 th) <= 1.
  Proof.
    generalize fresnel_energy_s fresnel_energy_p. unfold Refl, Trans. fold c. fold ct.
    generalize cos_pos_th ct_pos. intros Hc Hct Es Ep.
    assert (Hq : 0 < n2 * ct / (n1 * c)) by (apply Rdiv_lt_0_compat; nra).
    split; split; nra.
  Qed.

  (** *** Brewster: tan th = n2/n1  ->  r_p = 0  (and conversely when the indices differ) *)
  Theorem brewster : tan th = n2 / n1 -> r_p n1 n2 th = 0.
  Proof.
    intros Ht. generalize cos_pos_th sin_nonneg_th cs_one ct_pos ct_sq. intros Hc Hs Hcs Hct Hct2.
    assert (E : n1 * s = n2 * c).
    { unfold tan in Ht. fold s in Ht. fold c in Ht.
      assert (s = n2 / n1 * c) by (apply Rmult_eq_reg_r with (/ c); [|apply Rinv_neq_0_compat; lra];
        rewrite Rmult_assoc, Rinv_r by lra; unfold Rdiv in Ht; lra).
      subst s. rewrite H. field. lra. }
    assert (Ect : ct = s).
    { unfold sin_t in Hct2. fold s in Hct2.
      assert (ct * ct = s * s).
      { rewrite Hct2. replace (n1 * s / n2) with c by (rewrite E; field; lra). nra. }
      nra. }
    unfold r_p. fold c. fold ct. rewrite Ect.
    replace (n2 * c - n1 * s) with 0 by lra. unfold Rdiv. ring.
  Qed.
  Theorem brewster_converse : n1 <> n2 -> r_p n1 n2 th = 0 -> tan th = n2 / n1.
  Proof.
    intros Hne Hr. generalize cos_pos_th sin_nonneg_th cs_one ct_pos ct_sq denom_p.
    intros Hc Hs Hcs Hct Hct2 Hd.
    unfold r_p in Hr. fold c in Hr. fold ct in Hr.
    assert (E : n2 * c = n1 * ct).
    { apply Rmult_eq_compat_r with (r := n2 * c + n1 * ct) in Hr.
      unfold Rdiv in Hr. rewrite Rmult_assoc, Rinv_l in Hr by exact Hd. lra. }
    unfold sin_t in Hct2. fold s in Hct2.
    (* n2^2 c^2 = n1^2 (1 - n1^2 s^2 / n2^2)  ->  (n2^2 - n1^2) (n2^2 c^2 - n1^2 s^2) = 0 *)
    assert (E2 : n2 * n2 * (n2 * c) * (n2 * c) = n1 * n1 * (n2 * n2 - n1 * n1 * (s * s))).
    { rewrite E. replace (n2 * n2 * (n1 * ct) * (n1 * ct)) with (n1 * n1 * (n2 * n2 * (ct * ct))) by ring.
      rewrite Hct2. field. lra. }
    assert (E3 : (n2 * n2 - n1 * n1) * (n2 * c * (n2 * c) - n1 * s * (n1 * s)) = 0) by nra.
    apply Rmult_integral in E3. destruct E3 as [E3|E3].
    { exfalso. apply Hne. assert (Hf : (n2 - n1) * (n2 + n1) = 0) by (replace ((n2 - n1) * (n2 + n1)) with (n2 * n2 - n1 * n1) by ring; exact E3).
      apply Rmult_integral in Hf. destruct Hf; lra. }
    assert (E4 : n2 * c = n1 * s).
    { assert (Hf : (n2 * c - n1 * s) * (n2 * c + n1 * s) = 0)
        by (replace ((n2 * c - n1 * s) * (n2 * c + n1 * s)) with (n2 * c * (n2 * c) - n1 * s * (n1 * s)) by ring; exact E3).
      apply Rmult_integral in Hf. destruct Hf as [Hf|Hf]; [lra|].
      assert (0 < n2 * c) by (apply Rmult_lt_0_compat; lra).
      assert (0 <= n1 * s) by (apply Rmult_le_pos; lra). lra. }
    unfold tan. fold s. fold c. apply Rmult_eq_reg_r with (n1 * c); [|apply Rgt_not_eq; apply Rmult_lt_0_compat; lra].
    replace (s / c * (n1 * c)) with (n1 * s) by (field; lra).
    replace (n2 / n1 * (n1 * c)) with (n2 * c) by (field; lra). lra.
  Qed.
End Fresnel.

(** *** normal incidence: both reflectances equal ((n1-n2)/(n1+n2))^2 *)
Theorem fresnel_normal_incidence n1 n2 : 0 < n1 -> 0 < n2 ->
  Refl (r_s n1 n2 0) = ((n1 - n2) / (n1 + n2)) * ((n1 - n2) / (n1 + n2)) /\
  Refl (r_p n1 n2 0) = ((n1 - n2) / (n1 + n2)) * ((n1 - n2) / (n1 + n2)).
Proof.
  intros H1 H2. unfold Refl, r_s, r_p, cos_t, sin_t. rewrite sin_0, cos_0.
  replace (1 - n1 * 0 / n2 * (n1 * 0 / n2)) with 1 by (field; lra). rewrite sqrt_1.
  split; field; lra.
Qed.

(** the hypotheses are satisfiable: air -> glass at 30 degrees *)
Example fresnel_hyps_satisfiable : 0 < 1 /\ 0 < 3/2 /\ 0 <= PI/6 /\ PI/6 < PI/2 /\ no_TIR 1 (3/2) (PI/6).
Proof.
  generalize PI_RGT_0. intros. repeat split; try lra. unfold no_TIR. rewrite sin_PI6. lra.
Qed.

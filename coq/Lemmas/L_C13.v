(** * C13 - proofs about the record state machine, the caller's arrays and the batch Newton loop *)
From Coq Require Import ZArith List Bool Lia Reals Lra.
From OV Require Import Ops RInst Model.M_C13 Spec.S_C13.
Import ListNotations.
Set Implicit Arguments.

(* ================================================================================================ *)
Section StateMachine.
  Context {V Sf G : Type} (Ph : phys V Sf G).
  Notation lens := (@M_C13.lens V Sf G).
  Notation prog := (prog Ph).

  (** ** tracing never touches the prescription half of a surface *)
  Lemma map_fst_sg_reset (ss : list (Sf * srec V)) : map fst (sg_reset ss) = map fst ss.
  Proof. unfold sg_reset; rewrite map_map; apply map_ext; intros [s r]; reflexivity. Qed.

  Lemma map_fst_trace_par_from (ss : list (Sf * srec V)) x : map fst (trace_par_from Ph ss x) = map fst ss.
  Proof. revert x; induction ss as [|sr t IH]; intros x; simpl; [reflexivity|]. now rewrite IH. Qed.

  Lemma map_fst_trace_real_from (ss : list (Sf * srec V)) x : map fst (trace_real_from Ph ss x) = map fst ss.
  Proof. revert x; induction ss as [|sr t IH]; intros x; simpl; [reflexivity|]. now rewrite IH. Qed.

  Lemma map_fst_sg_trace_par ss skip x : map fst (sg_trace_par Ph ss skip x) = map fst ss.
  Proof.
    unfold sg_trace_par. rewrite map_app, map_fst_trace_par_from, <- map_app, firstn_skipn.
    apply map_fst_sg_reset.
  Qed.

  Lemma map_fst_sg_trace_real ss x : map fst (sg_trace_real Ph ss x) = map fst ss.
  Proof. unfold sg_trace_real. rewrite map_fst_trace_real_from. apply map_fst_sg_reset. Qed.

  (** ** ... and what it writes depends on nothing but the prescription: every record is reset first *)
  Lemma sg_reset_ext (ss1 ss2 : list (Sf * srec V)) :
    map fst ss1 = map fst ss2 -> sg_reset ss1 = sg_reset ss2.
  Proof.
    revert ss2; induction ss1 as [|[s1 r1] t IH]; intros [|[s2 r2] t2] H; simpl in *; try discriminate; auto.
    injection H as -> Ht. now rewrite (IH _ Ht).
  Qed.

  Lemma sg_trace_par_ext ss1 ss2 skip x :
    map fst ss1 = map fst ss2 -> sg_trace_par Ph ss1 skip x = sg_trace_par Ph ss2 skip x.
  Proof. intros H; unfold sg_trace_par; now rewrite (sg_reset_ext _ _ H). Qed.

  Lemma sg_trace_real_ext ss1 ss2 x :
    map fst ss1 = map fst ss2 -> sg_trace_real Ph ss1 x = sg_trace_real Ph ss2 x.
  Proof. intros H; unfold sg_trace_real; now rewrite (sg_reset_ext _ _ H). Qed.

  Lemma map_fst_inverted (ss : list (Sf * srec V)) :
    map fst (inverted Ph ss) = map (inv_s Ph (map fst ss)) (rev (map fst ss)).
  Proof. unfold inverted. rewrite map_map, <- map_rev, map_map. apply map_ext; intros sr; reflexivity. Qed.

  Lemma inverted_ext ss1 ss2 :
    map fst ss1 = map fst ss2 -> map fst (inverted Ph ss1) = map fst (inverted Ph ss2).
  Proof. intros H; rewrite !map_fst_inverted, H; reflexivity. Qed.

  (** ** (1) no query changes the prescription, the fields, the wavelengths or the aperture *)
  Lemma exec_presc A (p : prog A) : forall l, presc (snd (exec p l)) = presc l.
  Proof.
    induction p as [a|k IH|skip x k IH|skip x k IH|x k IH|k IH]; intros l; simpl; auto.
    - rewrite IH. unfold presc; simpl. now rewrite map_fst_sg_trace_par.
    - rewrite IH. unfold presc; simpl. now rewrite map_fst_sg_trace_real.
  Qed.

  Theorem queries_preserve_prescription (h : list (call Ph)) (l : lens) : presc (run h l) = presc l.
  Proof.
    revert l; induction h as [|c h IH]; intros l; simpl; [reflexivity|].
    unfold run in *; simpl. rewrite IH. unfold run_call. apply exec_presc.
  Qed.

  (** ** (2) a query that reads records only after its own forward trace: answer and final prescription
      are functions of the prescription *)
  Definition rel (b : bool) (l1 l2 : lens) : Prop := if b then l1 = l2 else presc l1 = presc l2.
  Lemma rel_presc b l1 l2 : rel b l1 l2 -> presc l1 = presc l2.
  Proof. destruct b; simpl; [intros ->; reflexivity|auto]. Qed.

  Lemma wf_exec_eq A (p : prog A) b :
    wf b p -> forall l1 l2, rel b l1 l2 ->
    fst (exec p l1) = fst (exec p l2) /\ presc (snd (exec p l1)) = presc (snd (exec p l2)).
  Proof.
    induction 1 as [b a|b k Hk IH|b skip x k Hk IH|b skip x k Hk IH|b x k Hk IH|k Hk IH];
      intros l1 l2 HR; pose proof (rel_presc _ _ _ HR) as HP; simpl.
    - auto.
    - rewrite HP. apply IH. exact HR.
    - apply IH. simpl. unfold presc in HP. injection HP as Hs Hg.
      rewrite (sg_trace_par_ext _ _ skip x Hs), Hg. reflexivity.
    - unfold presc in HP. injection HP as Hs Hg.
      rewrite (sg_trace_par_ext _ _ skip x (inverted_ext _ _ Hs)). apply IH. exact HR.
    - apply IH. simpl. unfold presc in HP. injection HP as Hs Hg.
      rewrite (sg_trace_real_ext _ _ x Hs), Hg. reflexivity.
    - simpl in HR. subst l2. apply IH. reflexivity.
  Qed.

  Theorem output_depends_only_on_prescription A (p : prog A) :
    wf false p -> forall l1 l2, presc l1 = presc l2 -> fst (exec p l1) = fst (exec p l2).
  Proof. intros W l1 l2 HP. exact (proj1 (wf_exec_eq W l1 l2 HP)). Qed.

  Theorem history_independent_output A (p : prog A) :
    wf false p -> forall (h : list (call Ph)) l, fst (exec p (run h l)) = fst (exec p l).
  Proof. intros W h l. apply output_depends_only_on_prescription; auto. apply queries_preserve_prescription. Qed.

  Theorem repeatable_output A (p : prog A) :
    wf false p -> forall l, fst (exec p (snd (exec p l))) = fst (exec p l).
  Proof. intros W l. apply output_depends_only_on_prescription; auto. apply exec_presc. Qed.

  (** what a forward trace leaves in the records is again a function of the prescription *)
  Theorem records_after_forward_trace skip x (l1 l2 : lens) :
    presc l1 = presc l2 ->
    surfs (snd (exec (Ph:=Ph) (ParFwd skip x (Ret tt)) l1)) = surfs (snd (exec (Ph:=Ph) (ParFwd skip x (Ret tt)) l2)).
  Proof. intros HP; simpl. unfold presc in HP. injection HP as Hs _. now apply sg_trace_par_ext. Qed.

  Theorem records_after_real_trace x (l1 l2 : lens) :
    presc l1 = presc l2 ->
    surfs (snd (exec (Ph:=Ph) (RealFwd x (Ret tt)) l1)) = surfs (snd (exec (Ph:=Ph) (RealFwd x (Ret tt)) l2)).
  Proof. intros HP; simpl. unfold presc in HP. injection HP as Hs _. now apply sg_trace_real_ext. Qed.

  (** a trace on an inverted copy leaves the lens exactly as it was *)
  Theorem reverse_trace_leaves_lens skip x (l : lens) :
    snd (exec (Ph:=Ph) (ParRev skip x (fun _ => Ret tt)) l) = l.
  Proof. reflexivity. Qed.

  (** ** the combinators preserve well-formedness *)
  Lemma wf_weaken A (p : prog A) b : wf b p -> wf true p.
  Proof. induction 1; constructor; auto. Qed.

  Lemma wf_bind A B (p : prog A) b :
    wf b p -> forall (f : A -> prog B), (forall a, wf b (f a)) -> wf b (bind p f).
  Proof.
    induction 1 as [b a|b k Hk IH|b skip x k Hk IH|b skip x k Hk IH|b x k Hk IH|k Hk IH]; intros f Hf; simpl.
    - apply Hf.
    - constructor; intros q; apply IH; exact Hf.
    - constructor. apply IH. intros a; eapply wf_weaken; apply Hf.
    - constructor; intros o; apply IH; exact Hf.
    - constructor. apply IH. intros a; eapply wf_weaken; apply Hf.
    - constructor; intros rs; apply IH; exact Hf.
  Qed.

  Lemma exec_bind A B (p : prog A) (f : A -> prog B) :
    forall l, exec (bind p f) l = exec (f (fst (exec p l))) (snd (exec p l)).
  Proof. induction p as [a|k IH|skip x k IH|skip x k IH|x k IH|k IH]; intros l; simpl; auto. Qed.

  Theorem built_wf (m : M Ph) : built m -> forall o, wf false (m o).
  Proof.
    induction 1 as [|a b Ha IHa Hb IHb|f Hf IH|site skip|site skip|site]; intros o.
    - constructor.
    - unfold seqM. apply wf_bind; auto.
    - unfold withP. constructor. intros q. apply IH.
    - unfold tgF. constructor; intros q. constructor. constructor; intros rs. constructor.
    - unfold tgR. constructor; intros q. constructor; intros yu. constructor.
    - unfold rtraceM. constructor; intros q. constructor. constructor; intros rs. constructor.
  Qed.

  Lemma foreach_built X (xs : list X) (body : X -> M Ph) :
    (forall x, built (body x)) -> built (foreach xs body).
  Proof. intros Hb; induction xs as [|x t IH]; simpl; [apply b_id|apply b_seq; auto]. Qed.

  Theorem query_history_independent (m : M Ph) :
    built m -> forall (h : list (call Ph)) l,
    fst (exec (m []) (run h l)) = fst (exec (m []) l).
  Proof. intros Hb h l. apply history_independent_output. now apply built_wf. Qed.

  (** ** every query of the implementation is written with the combinators *)
  Ltac bt :=
    repeat first
      [ apply b_id | apply b_tgF | apply b_tgR | apply b_rtrace | apply b_seq
      | (apply b_withP; intros ?)
      | (apply foreach_built; intros ?)
      | match goal with
        | |- built (if ?c then _ else _) => destruct c
        | |- built (match ?c with _ => _ end) => destruct c
        end ].

  Lemma built_f2 : built (q_f2 Ph).
  Proof. unfold q_f2; bt; auto with c13. Qed.
  Local Hint Resolve built_f2 : c13.
  Lemma built_F2 : built (q_F2 Ph).
  Proof. unfold q_F2; bt; auto with c13. Qed.
  Local Hint Resolve built_F2 : c13.
  Lemma built_f1 : built (q_f1 Ph).
  Proof. unfold q_f1; bt; auto with c13. Qed.
  Local Hint Resolve built_f1 : c13.
  Lemma built_F1 : built (q_F1 Ph).
  Proof. unfold q_F1; bt; auto with c13. Qed.
  Local Hint Resolve built_F1 : c13.
  Lemma built_P1 : built (q_P1 Ph).
  Proof. unfold q_P1; bt; auto with c13. Qed.
  Local Hint Resolve built_P1 : c13.
  Lemma built_P2 : built (q_P2 Ph).
  Proof. unfold q_P2; bt; auto with c13. Qed.
  Local Hint Resolve built_P2 : c13.
  Lemma built_N1 : built (q_N1 Ph).
  Proof. unfold q_N1; bt; auto with c13. Qed.
  Local Hint Resolve built_N1 : c13.
  Lemma built_N2 : built (q_N2 Ph).
  Proof. unfold q_N2; bt; auto with c13. Qed.
  Local Hint Resolve built_N2 : c13.
  Lemma built_EPL : built (q_EPL Ph).
  Proof. unfold q_EPL; bt; auto with c13. Qed.
  Local Hint Resolve built_EPL : c13.
  Lemma built_EPD : built (q_EPD Ph).
  Proof. unfold q_EPD; bt; auto with c13. Qed.
  Local Hint Resolve built_EPD : c13.
  Lemma built_XPL : built (q_XPL Ph).
  Proof. unfold q_XPL; bt; auto with c13. Qed.
  Local Hint Resolve built_XPL : c13.
  Lemma built_marginal : built (q_marginal Ph).
  Proof. unfold q_marginal; bt; auto with c13. Qed.
  Local Hint Resolve built_marginal : c13.
  Lemma built_XPD : built (q_XPD Ph).
  Proof. unfold q_XPD; bt; auto with c13. Qed.
  Local Hint Resolve built_XPD : c13.
  Lemma built_FNO : built (q_FNO Ph).
  Proof. unfold q_FNO; bt; auto with c13. Qed.
  Local Hint Resolve built_FNO : c13.
  Lemma built_magnification : built (q_magnification Ph).
  Proof. unfold q_magnification; bt; auto with c13. Qed.
  Local Hint Resolve built_magnification : c13.
  Lemma built_chief : built (q_chief Ph).
  Proof. unfold q_chief; bt; auto with c13. Qed.
  Local Hint Resolve built_chief : c13.
  Lemma built_invariant : built (q_invariant Ph).
  Proof. unfold q_invariant; bt; auto with c13. Qed.
  Local Hint Resolve built_invariant : c13.
  Lemma built_ptrace site : built (q_ptrace Ph site).
  Proof. unfold q_ptrace; bt; auto with c13. Qed.
  Local Hint Resolve built_ptrace : c13.
  Lemma built_genrays : built (q_genrays Ph).
  Proof. unfold q_genrays; bt; auto with c13. Qed.
  Local Hint Resolve built_genrays : c13.
  Lemma built_trace site : built (q_trace Ph site).
  Proof. unfold q_trace; bt; auto with c13. Qed.
  Local Hint Resolve built_trace : c13.
  Lemma built_aberration : built (q_aberration Ph).
  Proof. unfold q_aberration; bt; auto with c13. Qed.
  Local Hint Resolve built_aberration : c13.
  Lemma built_tilt_EPD : built (tilt_EPD Ph).
  Proof. unfold tilt_EPD; bt; auto with c13. Qed.
  Local Hint Resolve built_tilt_EPD : c13.
  Lemma built_wavefront nf nw sc sp : built (q_wavefront Ph nf nw sc sp).
  Proof. unfold q_wavefront; bt; auto with c13. Qed.
  Local Hint Resolve built_wavefront : c13.
  Lemma built_spot nf nw s : built (q_spot Ph nf nw s).
  Proof. unfold q_spot; bt; auto with c13. Qed.
  Local Hint Resolve built_spot : c13.
  Lemma built_rayfan nf nw sx sy : built (q_rayfan Ph nf nw sx sy).
  Proof. unfold q_rayfan; bt; auto with c13. Qed.
  Local Hint Resolve built_rayfan : c13.
  Lemma built_pupil_aberration nf nw s1 s2 sx sy : built (q_pupil_aberration Ph nf nw s1 s2 sx sy).
  Proof. unfold q_pupil_aberration; bt; auto with c13. Qed.
  Local Hint Resolve built_pupil_aberration : c13.
  Lemma built_distortion nw s : built (q_distortion Ph nw s).
  Proof. unfold q_distortion; bt; auto with c13. Qed.
  Local Hint Resolve built_distortion : c13.
  Lemma built_field_curvature nw s : built (q_field_curvature Ph nw s).
  Proof. unfold q_field_curvature; bt; auto with c13. Qed.
  Local Hint Resolve built_field_curvature : c13.
  Lemma built_grid_distortion s1 s2 : built (q_grid_distortion Ph s1 s2).
  Proof. unfold q_grid_distortion; bt; auto with c13. Qed.
  Local Hint Resolve built_grid_distortion : c13.
  Lemma built_yybar : built (q_yybar Ph).
  Proof. unfold q_yybar; bt; auto with c13. Qed.
  Local Hint Resolve built_yybar : c13.
  Lemma built_working_fno : built (working_fno Ph).
  Proof. unfold working_fno; bt; auto with c13. Qed.
  Local Hint Resolve built_working_fno : c13.
  Lemma built_fftmtf nf sc sp : built (q_fftmtf Ph nf sc sp).
  Proof. unfold q_fftmtf; bt; auto with c13. Qed.
  Local Hint Resolve built_fftmtf : c13.
  Lemma built_geometric_mtf nf s : built (q_geometric_mtf Ph nf s).
  Proof. unfold q_geometric_mtf; bt; auto with c13. Qed.
  Local Hint Resolve built_geometric_mtf : c13.

  (** the catalogue of modelled calls *)
  Inductive opcode :=
  | Of1 | Of2 | OF1 | OF2 | OP1 | OP2 | ON1 | ON2 | OEPL | OEPD | OXPL | OXPD | OFNO | Omagnification
  | Oinvariant | Omarginal | Ochief | Optrace (site : nat) | Otrace (site : nat) | Oaberration
  | Owavefront (nf nw sc sp : nat) | Ospot (nf nw s : nat) | Orayfan (nf nw sx sy : nat)
  | Opupil (nf nw s1 s2 sx sy : nat) | Odistortion (nw s : nat) | Ofieldcurv (nw s : nat) | Ogriddist (s1 s2 : nat)
  | Oyybar | Offtmtf (nf sc sp : nat) | Ogeomtf (nf s : nat)
  | Opure.     (* Optic.n, positions, radii, to_dict ...: reads the prescription only *)
  Definition op_query (c : opcode) : M Ph :=
    match c with
    | Of1 => q_f1 Ph | Of2 => q_f2 Ph | OF1 => q_F1 Ph | OF2 => q_F2 Ph | OP1 => q_P1 Ph | OP2 => q_P2 Ph
    | ON1 => q_N1 Ph | ON2 => q_N2 Ph | OEPL => q_EPL Ph | OEPD => q_EPD Ph | OXPL => q_XPL Ph
    | OXPD => q_XPD Ph | OFNO => q_FNO Ph | Omagnification => q_magnification Ph
    | Oinvariant => q_invariant Ph | Omarginal => q_marginal Ph | Ochief => q_chief Ph
    | Optrace s => q_ptrace Ph s | Otrace s => q_trace Ph s | Oaberration => q_aberration Ph
    | Owavefront nf nw sc sp => q_wavefront Ph nf nw sc sp | Ospot nf nw s => q_spot Ph nf nw s
    | Orayfan nf nw sx sy => q_rayfan Ph nf nw sx sy
    | Opupil nf nw s1 s2 sx sy => q_pupil_aberration Ph nf nw s1 s2 sx sy
    | Odistortion nw s => q_distortion Ph nw s | Ofieldcurv nw s => q_field_curvature Ph nw s
    | Ogriddist s1 s2 => q_grid_distortion Ph s1 s2 | Oyybar => q_yybar Ph | Offtmtf nf sc sp => q_fftmtf Ph nf sc sp
    | Ogeomtf nf s => q_geometric_mtf Ph nf s | Opure => withP (fun _ => idM Ph)
    end.

  Theorem every_modelled_query_built (c : opcode) : built (op_query c).
  Proof.
    destruct c; simpl;
      first [ apply built_f1 | apply built_f2 | apply built_F1 | apply built_F2 | apply built_P1 | apply built_P2
            | apply built_N1 | apply built_N2 | apply built_EPL | apply built_EPD | apply built_XPL
            | apply built_XPD | apply built_FNO | apply built_magnification | apply built_invariant
            | apply built_marginal | apply built_chief | apply built_ptrace | apply built_trace
            | apply built_aberration | apply built_wavefront | apply built_spot | apply built_rayfan
            | apply built_pupil_aberration | apply built_distortion | apply built_field_curvature
            | apply built_grid_distortion | apply built_yybar | apply built_fftmtf | apply built_geometric_mtf
            | (apply b_withP; intros ?; apply b_id) ].
  Qed.

  Definition op_call (c : opcode) : call Ph := existT _ _ (op_query c []).

  (** ** the property, for arbitrary interleavings of the modelled calls *)
  Theorem interleavings_preserve_prescription (h : list opcode) (l : lens) :
    presc (run (map op_call h) l) = presc l.
  Proof. apply queries_preserve_prescription. Qed.

  Theorem interleavings_history_independent (h : list opcode) (c : opcode) (l : lens) :
    fst (exec (op_query c []) (run (map op_call h) l)) = fst (exec (op_query c []) l).
  Proof. apply query_history_independent. apply every_modelled_query_built. Qed.

  Theorem interleavings_repeatable (c : opcode) (l : lens) :
    fst (exec (op_query c []) (snd (exec (op_query c []) l))) = fst (exec (op_query c []) l).
  Proof. apply repeatable_output. apply built_wf. apply every_modelled_query_built. Qed.

  (** in the vocabulary of Spec/S_C13.v *)
  Theorem model_meets_spec :
    preserves_prescription _ _ _ (@presc V Sf G) (fun (c : opcode) l => run_call (op_call c) l) /\
    history_independent _ _ _ _ (fun (c : opcode) l => run_call (op_call c) l)
                        (fun (c : opcode) l => exec (op_query c []) l) (fun _ => True) /\
    repeatable _ _ _ (fun (c : opcode) (l : lens) => exec (op_query c []) l) (fun _ => True) /\
    determined_by_prescription _ _ _ _ (@presc V Sf G) (fun (c : opcode) l => exec (op_query c []) l) (fun _ => True).
  Proof.
    assert (Hact : forall h l, act _ _ (fun (c : opcode) (l : lens) => run_call (op_call c) l) h l = run (map op_call h) l).
    { intros h; induction h as [|c h IH]; intros l; simpl; [reflexivity|]. unfold act, run in *; simpl. apply IH. }
    repeat split.
    - intros h l. rewrite Hact. apply interleavings_preserve_prescription.
    - intros c _ h l. rewrite Hact. apply interleavings_history_independent.
    - intros c _ l. apply interleavings_repeatable.
    - intros c _ l1 l2 HP. apply output_depends_only_on_prescription; auto.
      apply built_wf, every_modelled_query_built.
  Qed.
End StateMachine.

(* ================================================================================================ *)
(** ** the size instance: a ray bundle is its number of rays.  Used by the correspondence check (the
    predicted sizes of all ten record arrays of every surface after every call of a history) and as the
    witness that the hypotheses above are satisfiable and needed. *)
Section SizeInstance.
  (** system data: aperture kind, object at infinity, field type is object_height / angle, telecentric,
      and the ray count of each call site *)
  Record cfg := mkCfg { c_ap : nat; c_inf : bool; c_height : bool; c_angle : bool; c_tele : bool }.
  (** call sites below 20 are the one-ray traces inside paraxial.py; every other site carries its ray
      count: site = 1000 * rays + tag *)
  Definition c_rays (site : nat) : nat := Nat.div site 1000.
  Definition ones (n : nat) : arr unit := repeat tt n.
  Definition SizePh : phys unit bool cfg :=
    {| pst := nat; rst := nat;
       pstep := fun _ n => n; p_y := ones; p_u := ones;
       rstep := fun _ n => n;
       q_x := ones; q_y := ones; q_z := ones; q_L := ones; q_M := ones; q_N := ones; q_i := ones; q_opd := ones;
       inv_s := fun _ s => s;
       par_launch := fun site _ _ => if Nat.ltb site 20 then 1%nat else c_rays site;
       real_launch := fun site _ _ => c_rays site;
       is_stop := fun b => b;
       ap_kind := c_ap; obj_infinite := fun q => c_inf (snd q);
       field_is_height := c_height; field_is_angle := c_angle; telecentric := c_tele |}.
  Definition size_lens (stop n : nat) (g : cfg) : @lens unit bool cfg :=
    mkLens (map (fun i => (Nat.eqb i stop, empty_rec)) (seq 0 n)) g.
  Definition table (l : @lens unit bool cfg) : list (list Z) := map (fun sr => sizes (snd sr)) (surfs l).
  (** record sizes after each call of a history *)
  Fixpoint tables (h : list opcode) (l : @lens unit bool cfg) : list (list (list Z)) :=
    match h with
    | [] => []
    | c :: t => let l' := run_call (op_call SizePh c) l in table l' :: tables t l'
    end.
  Definition table_eqb (a b : list (list Z)) : bool :=
    Nat.eqb (length a) (length b) &&
    forallb (fun p => Nat.eqb (length (fst p)) (length (snd p)) &&
                      forallb (fun q => Z.eqb (fst q) (snd q)) (combine (fst p) (snd p))) (combine a b).

  Definition demo_cfg : cfg := mkCfg 0 true false true false.
  Definition demo_lens := size_lens 2 5 demo_cfg.

  (** the hypotheses are satisfiable ... *)
  Example demo_trace_wf : wf false (op_query SizePh (Otrace 3030) []).
  Proof. apply built_wf, every_modelled_query_built. Qed.
  Example demo_xpl_table :
    table (run_call (op_call SizePh OXPL) demo_lens) =
    [[0;0;0;0;0;0;0;0;0;0]; [0;0;0;0;0;0;0;0;0;0]; [0;0;0;0;0;0;0;0;0;0];
     [1;1;0;0;0;0;0;0;0;0]; [1;1;0;0;0;0;0;0;0;0]]%Z.
  Proof. reflexivity. Qed.
  Example demo_trace_then_xpl_table :
    table (run [op_call SizePh (Otrace 3030); op_call SizePh OXPL] demo_lens) =
    table (run_call (op_call SizePh OXPL) demo_lens).
  Proof. reflexivity. Qed.

  (** ... and needed: a call that looks at the records BEFORE tracing is history dependent *)
  Definition peek : prog SizePh nat := Read (fun rs => Ret (length (getter (@r_x unit) rs))).
  Theorem reading_before_tracing_is_history_dependent :
    exists (h : list (call SizePh)) l, fst (exec peek (run h l)) <> fst (exec peek l).
  Proof. exists [op_call SizePh (Otrace 3030)], demo_lens. vm_compute. discriminate. Qed.
  Theorem peek_not_wf : ~ wf false peek.
  Proof. intros W. inversion W. Qed.
End SizeInstance.

(* ================================================================================================ *)
(** ** the caller's arrays *)
Section CallerArrays.
  Context {O : Ops}.
  Theorem caller_arrays_unchanged (P : list (T O)) (v : T O) : snd (tg_scale false P v) = P.
  Proof. reflexivity. Qed.
  Theorem rays_do_not_depend_on_aliasing (b : bool) (P : list (T O)) (v : T O) :
    fst (tg_scale b P v) = map (fun p => mul p (sub (ofZ 1) v)) P.
  Proof. reflexivity. Qed.
  Theorem trace_generic_args_safe (v : T O) :
    caller_safe (fun P => tg_scale false P v) /\ caller_repeatable (fun P => tg_scale false P v).
  Proof. split; intros P; reflexivity. Qed.
  Theorem tg_scale_twice_same (P : list (T O)) (v : T O) :
    fst (tg_scale_twice false P v) = snd (tg_scale_twice false P v).
  Proof. reflexivity. Qed.
End CallerArrays.

Local Open Scope R_scope.
(** with the in-place write, the caller's array survives exactly when every entry is unaffected *)
Theorem inplace_unchanged_iff (P : list R) (v : R) :
  snd (tg_scale (O := ROps) true P v) = P <-> (forall p, In p P -> p = 0 \/ v = 0).
Proof.
  unfold tg_scale; simpl. induction P as [|p t IH]; simpl.
  - split; [intros _ q []|reflexivity].
  - split.
    + intros H. injection H as Hp Ht. intros q [<-|Hq].
      * rops. destruct (Req_dec p 0) as [|Hn]; [now left|right]. nra.
      * apply IH; assumption.
    + intros H. f_equal.
      * rops. destruct (H p (or_introl eq_refl)) as [->| ->]; ring.
      * apply IH. intros q Hq. apply H. now right.
Qed.

(* ================================================================================================ *)
(** ** the batch Newton loop *)
Section NewtonBatch.
  Context {O : Ops}.
  Variable sag : T O -> T O -> T O.
  Variable tol : T O.
  Notation nb := (newton_batch sag tol).
  Notation cnt := (batch_count sag tol).
  Notation it := (iter_step sag).
  Notation stp := (n_step sag).

  Lemma iter_step_add a b r : it (a + b) r = it b (it a r).
  Proof. revert r; induction a as [|a IH]; intros r; simpl; auto. Qed.

  Lemma iter_step_Nat_iter n r : it n r = Nat.iter n stp r.
  Proof.
    revert r; induction n as [|n IH]; intros r; simpl; [reflexivity|].
    rewrite IH. clear IH. induction n as [|n IH]; simpl; [reflexivity|]. now rewrite IH.
  Qed.

  (** every ray receives the SAME number of its OWN corrections: nothing else flows between rays *)
  Theorem newton_batch_iter fuel : forall rs, nb fuel rs = map (it (cnt fuel rs)) rs.
  Proof.
    induction fuel as [|f IH]; intros rs; simpl.
    - symmetry; rewrite <- (map_id rs) at 2; apply map_ext; reflexivity.
    - destruct (all_small sag tol rs) eqn:E.
      + apply map_ext; reflexivity.
      + rewrite IH, map_map. apply map_ext; reflexivity.
  Qed.

  Lemma batch_count_le fuel : forall rs, (cnt fuel rs <= fuel)%nat.
  Proof. induction fuel as [|f IH]; intros rs; simpl; [lia|]. destruct (all_small sag tol rs); [lia|]. specialize (IH (map stp rs)); lia. Qed.

  Lemma all_small_member rs r : all_small sag tol rs = true -> In r rs -> all_small sag tol [r] = true.
  Proof.
    unfold all_small; intros H Hin; simpl. rewrite forallb_forall in H. now rewrite (H r Hin).
  Qed.

  (** a ray in company is corrected at least as often as alone *)
  Theorem batch_count_ge_single fuel : forall rs r, In r rs -> (cnt fuel [r] <= cnt fuel rs)%nat.
  Proof.
    induction fuel as [|f IH]; intros rs r Hin; [simpl; lia|].
    change (cnt (S f) [r]) with (if all_small sag tol [r] then 1%nat else S (cnt f (map stp [r]))).
    change (cnt (S f) rs) with (if all_small sag tol rs then 1%nat else S (cnt f (map stp rs))).
    destruct (all_small sag tol rs) eqn:E.
    - rewrite (all_small_member _ _ E Hin). lia.
    - destruct (all_small sag tol [r]); [lia|].
      apply le_n_S. apply (IH (map stp rs) (stp r)). now apply in_map.
  Qed.

  Lemma newton_single_iter fuel r : newton_single sag tol fuel r = it (cnt fuel [r]) r.
  Proof. unfold newton_single. rewrite newton_batch_iter. reflexivity. Qed.

  (** the result of a ray inside any batch is its result alone, carried on by further corrections *)
  Theorem newton_batch_member fuel rs r :
    In r rs ->
    it (cnt fuel rs) r = it (cnt fuel rs - cnt fuel [r]) (newton_single sag tol fuel r).
  Proof.
    intros Hin. rewrite newton_single_iter, <- iter_step_add.
    pose proof (batch_count_ge_single fuel rs r Hin). f_equal. lia.
  Qed.

  Theorem newton_companions_only_prolong fuel :
    companions_only_prolong stp (newton_single sag tol fuel) (nb fuel).
  Proof.
    intros rs. exists (cnt fuel rs). split.
    - rewrite newton_batch_iter. apply map_ext. intros r. apply iter_step_Nat_iter.
    - intros r Hin. exists (cnt fuel rs - cnt fuel [r])%nat.
      rewrite <- !iter_step_Nat_iter. now apply newton_batch_member.
  Qed.

  (** the loop ended because of the tolerance test (not because max_iter ran out) *)
  Fixpoint converged (fuel : nat) (rs : list nray) : bool :=
    match fuel with
    | 0%nat => false
    | S f => if all_small sag tol rs then true else converged f (map stp rs)
    end.

  (** then every returned point is ONE correction away from an iterate whose sag residual passed the test,
      whatever the company *)
  Theorem newton_batch_exit_residual fuel : forall rs,
    converged fuel rs = true -> forall r, In r rs ->
    (1 <= cnt fuel rs)%nat /\
    ltb_ (abs_ (n_dz sag (it (cnt fuel rs - 1) r))) tol = true /\
    it (cnt fuel rs) r = stp (it (cnt fuel rs - 1) r).
  Proof.
    induction fuel as [|f IH]; intros rs Hc r Hin; simpl in *; [discriminate|].
    destruct (all_small sag tol rs) eqn:E.
    - simpl. repeat split; auto.
      unfold all_small in E. rewrite forallb_forall in E. now apply E.
    - destruct (IH (map stp rs) Hc (stp r) (in_map _ _ _ Hin)) as (H1 & H2 & H3).
      split; [lia|]. replace (S (cnt f (map stp rs)) - 1)%nat with (S (cnt f (map stp rs) - 1)) by lia.
      simpl. split; [exact H2|exact H3].
  Qed.
End NewtonBatch.

(** iterates stay on the ray: only the parameter along the ray can differ between "alone" and "in company" *)
Theorem newton_iterates_on_ray (sag : R -> R -> R) (n : nat) :
  forall (L M N x y z : R), exists t : R,
    iter_step (O := ROps) sag n ((L, M, N), (x, y, z)) = ((L, M, N), (x + t * L, y + t * M, z + t * N)).
Proof.
  induction n as [|n IH]; intros L M N x y z.
  - exists 0. simpl. apply f_equal2; [reflexivity|]. apply f_equal2; [apply f_equal2|]; ring.
  - simpl. destruct (IH L M N (x - (z - sag x y) / N * L) (y - (z - sag x y) / N * M) (z - (z - sag x y) / N * N))
      as [t Ht]. rops. rewrite Ht. exists (t - (z - sag x y) / N).
    apply f_equal2; [reflexivity|]. apply f_equal2; [apply f_equal2|]; ring.
Qed.

(** two accepted parameters along a ray on which the residual is m-expansive are 2 tol / m apart; the
    final correction adds at most 2 tol / |N|.  PARTIAL: the expansivity of the residual along the ray
    (a transversality condition: the ray is not tangent to the surface near the hit) is a hypothesis. *)
Theorem newton_batch_tolerance_partial (h : R -> R) (m tol : R) :
  0 < m -> (forall t1 t2, m * Rabs (t1 - t2) <= Rabs (h t1 - h t2)) ->
  within_intersection_tolerance h m tol /\
  forall N ta tb, N <> 0 -> Rabs (h ta) < tol -> Rabs (h tb) < tol ->
    Rabs ((ta - h ta / N) - (tb - h tb / N)) < 2 * tol / m + 2 * tol / Rabs N.
Proof.
  intros Hm Hexp.
  assert (W : within_intersection_tolerance h m tol).
  { intros ta tb Ha Hb. specialize (Hexp ta tb).
    assert (Hd : Rabs (h ta - h tb) < 2 * tol).
    { unfold Rminus. eapply Rle_lt_trans; [apply Rabs_triang|]. rewrite Rabs_Ropp. lra. }
    apply Rmult_lt_reg_l with m; [assumption|].
    replace (m * (2 * tol / m)) with (2 * tol) by (field; lra). lra. }
  split; [exact W|].
  intros N ta tb HN Ha Hb.
  replace (ta - h ta / N - (tb - h tb / N)) with ((ta - tb) + - ((h ta - h tb) / N)) by (field; assumption).
  eapply Rle_lt_trans; [apply Rabs_triang|]. rewrite Rabs_Ropp.
  assert (H1 := W ta tb Ha Hb).
  assert (Hd : Rabs (h ta - h tb) < 2 * tol).
  { unfold Rminus. eapply Rle_lt_trans; [apply Rabs_triang|]. rewrite Rabs_Ropp. lra. }
  assert (HNp : 0 < Rabs N) by (apply Rabs_pos_lt; assumption).
  assert (H2 : Rabs ((h ta - h tb) / N) < 2 * tol / Rabs N).
  { unfold Rdiv. rewrite Rabs_mult, Rabs_Rinv by assumption.
    apply Rmult_lt_compat_r; [apply Rinv_0_lt_compat; assumption|assumption]. }
  lra.
Qed.

(** the hypotheses of the tolerance theorem are satisfiable: a plane z = 0 hit by the ray z(t) = -1 + t/2 *)
Example newton_tolerance_hypotheses_satisfiable :
  let h := fun t : R => -1 + t / 2 in
  0 < 1 / 2 /\ (forall t1 t2, 1 / 2 * Rabs (t1 - t2) <= Rabs (h t1 - h t2)) /\ Rabs (h 2) < 1 / 10.
Proof.
  simpl. repeat split; try lra.
  - intros t1 t2. replace (-1 + t1 / 2 - (-1 + t2 / 2)) with (1 / 2 * (t1 - t2)) by field.
    rewrite Rabs_mult, (Rabs_right (1 / 2)) by lra. lra.
  - replace (-1 + 2 / 2) with 0 by field. rewrite Rabs_R0. lra.
Qed.

(** C18: tabulated entries.  The model of np.interp that the regenerated kernels
    `_tabulated_n` / `k` call ([OpsC18.interp_]) equals linear interpolation of the table
    (Spec.S_C18.lin_interp) on strictly increasing abscissae; and what linear interpolation means:
    the tabulated value at a knot, the chord between two neighbouring rows, the end values outside.
    Also the real-number meaning of formulas 1, 2 and 8. *)
From Coq Require Import PrimFloat.
From Coq Require Import Reals Lra Lia ZArith List Bool Psatz.
From OV Require Import Ops OpsC18 RInst Spec.S_C18 Gen.Materials Lemmas.L_C18_formulas.
Import ListNotations.
Local Open Scope R_scope.

Fixpoint increasing_from (x0 : R) (rest : list (R * R)) : Prop :=
  match rest with
  | [] => True
  | (x1, _) :: r => x0 < x1 /\ increasing_from x1 r
  end.
Definition increasing (tbl : list (R * R)) : Prop :=
  match tbl with [] => True | (x0, _) :: r => increasing_from x0 r end.

Lemma seg_eq : forall (x : R) (rest : list (R * R)) (x0 f0 : R),
  x0 <= x ->
  interp_seg (O := ROps) x x0 f0 rest = lin_interp_from (O := ROps) x0 f0 rest x.
Proof.
  intros x rest. induction rest as [|[x1 f1] r IH]; intros x0 f0 Hx.
  - reflexivity.
  - cbn [interp_seg lin_interp_from]. rops.
    destruct (Rlt_dec x x1) as [Hlt|Hge].
    + assert (E1 : Rltb x x1 = true) by (apply Rltb_true; lra).
      assert (E2 : Rleb x1 x = false) by (apply Rleb_false; lra).
      rewrite E1, E2. unfold chord. rops.
      destruct (Req_EM_T x x0) as [He|Hne].
      * assert (E3 : Reqb x x0 = true) by (apply Reqb_true; exact He). rewrite E3. subst x. ring.
      * assert (E3 : Reqb x x0 = false) by (apply Reqb_false; exact Hne). rewrite E3. ring.
    + assert (E1 : Rltb x x1 = false) by (apply Rltb_false; lra).
      assert (E2 : Rleb x1 x = true) by (apply Rleb_true; lra).
      rewrite E1, E2. apply IH. lra.
Qed.

(** np.interp model = linear interpolation, for every strictly increasing table and every abscissa *)
Theorem interp_is_linear : forall (tbl : list (R * R)) (x : R),
  tbl <> [] -> increasing tbl ->
  Some (interp_pairs (O := ROps) x tbl) = lin_interp (O := ROps) tbl x.
Proof.
  intros [|[x0 f0] rest] x Hne Hinc; [contradiction|].
  cbn [interp_pairs lin_interp]. rops. f_equal.
  destruct (Rtotal_order x x0) as [Hlt|[Heq|Hgt]].
  - assert (E1 : Rltb x x0 = true) by (apply Rltb_true; lra).
    assert (E2 : Rleb x x0 = true) by (apply Rleb_true; lra). rewrite E1, E2. reflexivity.
  - subst x.
    assert (E1 : Rltb x0 x0 = false) by (apply Rltb_false; lra).
    assert (E2 : Rleb x0 x0 = true) by (apply Rleb_true; lra). rewrite E1, E2.
    destruct rest as [|[x1 f1] r]; [reflexivity|].
    cbn [interp_seg]. rops. cbn in Hinc. destruct Hinc as [H01 _].
    assert (E3 : Rltb x0 x1 = true) by (apply Rltb_true; lra).
    assert (E4 : Reqb x0 x0 = true) by (apply Reqb_true; reflexivity). rewrite E3, E4. reflexivity.
  - assert (E1 : Rltb x x0 = false) by (apply Rltb_false; lra).
    assert (E2 : Rleb x x0 = false) by (apply Rleb_false; lra). rewrite E1, E2.
    apply seg_eq. lra.
Qed.

Lemma combine_fst_snd {A B} (l : list (A * B)) : combine (map fst l) (map snd l) = l.
Proof. induction l as [|[a b] l IH]; [reflexivity|]. cbn. rewrite IH. reflexivity. Qed.

Theorem tabulated_n_spec : forall (tbl : list (R * R)) (w : R),
  tbl <> [] -> increasing tbl ->
  k_tabulated_n ROps w (map fst tbl) (map snd tbl) = lin_interp (O := ROps) tbl w.
Proof.
  intros tbl w Hne Hinc. unfold k_tabulated_n, interp_. rewrite combine_fst_snd.
  apply interp_is_linear; assumption.
Qed.

Theorem extinction_k_spec : forall (tbl : list (R * R)) (w : R),
  tbl <> [] -> increasing tbl ->
  k_mat_k ROps w (map fst tbl) (map snd tbl) = lin_interp (O := ROps) tbl w.
Proof.
  intros tbl w Hne Hinc. unfold k_mat_k, interp_. rewrite combine_fst_snd.
  apply interp_is_linear; assumption.
Qed.

(** ** What [lin_interp] means *)
Lemma increasing_from_lt : forall rest x0 x1 f1, increasing_from x0 rest -> In (x1, f1) rest -> x0 < x1.
Proof.
  induction rest as [|[xa fa] r IH]; intros x0 x1 f1 Hinc Hin; [contradiction|].
  cbn in Hinc. destruct Hinc as [H0 Hr]. destruct Hin as [E|Hin].
  - inversion E; subst. exact H0.
  - specialize (IH xa x1 f1 Hr Hin). lra.
Qed.

(** below the first row: the first value; above the last row: the last value *)
Theorem lin_interp_clamp_low : forall x0 f0 rest x, x <= x0 ->
  lin_interp (O := ROps) ((x0, f0) :: rest) x = Some f0.
Proof.
  intros. cbn [lin_interp]. rops.
  assert (E : Rleb x x0 = true) by (apply Rleb_true; lra). rewrite E. reflexivity.
Qed.

Lemma lin_from_segment : forall pre x0 f0 xa fa xb fb post x,
  increasing_from x0 (pre ++ (xa, fa) :: (xb, fb) :: post) -> xa <= x < xb ->
  lin_interp_from (O := ROps) x0 f0 (pre ++ (xa, fa) :: (xb, fb) :: post) x = chord (O := ROps) xa fa xb fb x.
Proof.
  induction pre as [|[x1 f1] pre IH]; intros x0 f0 xa fa xb fb post x Hinc Hx.
  - cbn [app lin_interp_from]. rops.
    assert (E1 : Rleb xa x = true) by (apply Rleb_true; lra).
    assert (E2 : Rleb xb x = false) by (apply Rleb_false; lra). rewrite E1, E2. reflexivity.
  - cbn [app lin_interp_from]. rops. cbn [app increasing_from] in Hinc. destruct Hinc as [H01 Hr].
    assert (x1 < xa) by (apply (increasing_from_lt _ _ _ fa Hr); apply in_or_app; right; left; reflexivity).
    assert (E1 : Rleb x1 x = true) by (apply Rleb_true; lra). rewrite E1.
    apply IH; assumption.
Qed.

(** between two neighbouring rows (xa,fa), (xb,fb): the chord through them *)
Theorem lin_interp_segment : forall pre xa fa xb fb post x,
  increasing (pre ++ (xa, fa) :: (xb, fb) :: post) -> xa <= x < xb ->
  lin_interp (O := ROps) (pre ++ (xa, fa) :: (xb, fb) :: post) x
  = Some (fa + (fb - fa) / (xb - xa) * (x - xa)).
Proof.
  intros [|[x0 f0] pre] xa fa xb fb post x Hinc Hx.
  - cbn [app lin_interp]. rops. cbn in Hinc. f_equal.
    destruct (Req_EM_T x xa) as [He|Hne].
    + subst x. assert (E : Rleb xa xa = true) by (apply Rleb_true; lra). rewrite E. ring.
    + assert (E : Rleb x xa = false) by (apply Rleb_false; lra). rewrite E.
      cbn [lin_interp_from]. rops.
      assert (E2 : Rleb xb x = false) by (apply Rleb_false; lra). rewrite E2. reflexivity.
  - cbn [app lin_interp]. rops. cbn [app increasing] in Hinc.
    assert (x0 < xa) by (apply (increasing_from_lt _ _ _ fa Hinc); apply in_or_app; right; left; reflexivity).
    assert (E : Rleb x x0 = false) by (apply Rleb_false; lra). rewrite E. f_equal.
    rewrite lin_from_segment by assumption. reflexivity.
Qed.

Lemma increasing_from_mid : forall pre x0 xa fa xb fb post,
  increasing_from x0 (pre ++ (xa, fa) :: (xb, fb) :: post) -> xa < xb.
Proof.
  induction pre as [|[x1 f1] pre IH]; intros x0 xa fa xb fb post H.
  - cbn [app increasing_from] in H. destruct H as [_ [H _]]. exact H.
  - cbn [app increasing_from] in H. destruct H as [_ H]. exact (IH _ _ _ _ _ _ H).
Qed.

(** at a tabulated wavelength the tabulated value is returned *)
Corollary lin_interp_knot : forall pre xa fa xb fb post,
  increasing (pre ++ (xa, fa) :: (xb, fb) :: post) ->
  lin_interp (O := ROps) (pre ++ (xa, fa) :: (xb, fb) :: post) xa = Some fa.
Proof.
  intros pre xa fa xb fb post H. assert (xa < xb).
  { destruct pre as [|[x0 f0] pre].
    - cbn [app increasing increasing_from] in H. destruct H as [H _]. exact H.
    - cbn [app increasing] in H. exact (increasing_from_mid _ _ _ _ _ _ _ H). }
  rewrite lin_interp_segment by (try assumption; lra). f_equal. ring.
Qed.

Lemma last_default {A} : forall (l : list A) (a d d' : A), last (a :: l) d = last (a :: l) d'.
Proof.
  induction l as [|b l IH]; intros a d d'; [reflexivity|].
  change (last (a :: b :: l) d) with (last (b :: l) d).
  change (last (a :: b :: l) d') with (last (b :: l) d'). apply IH.
Qed.
Lemma last_In {A} : forall (l : list A) (a d : A), In (last (a :: l) d) (a :: l).
Proof.
  induction l as [|b l IH]; intros a d; [left; reflexivity|].
  change (last (a :: b :: l) d) with (last (b :: l) d). right. apply IH.
Qed.

Lemma lin_from_last : forall rest x0 f0 x xl fl,
  increasing_from x0 rest -> last ((x0, f0) :: rest) (x0, f0) = (xl, fl) -> xl <= x ->
  lin_interp_from (O := ROps) x0 f0 rest x = fl.
Proof.
  induction rest as [|[x1 f1] r IH]; intros x0 f0 x xl fl Hinc Hl Hx.
  - cbn in Hl. inversion Hl; subst. reflexivity.
  - cbn [lin_interp_from]. rops. cbn [increasing_from] in Hinc. destruct Hinc as [H01 Hr].
    assert (Hl' : last ((x1, f1) :: r) (x1, f1) = (xl, fl)).
    { rewrite <- Hl. change (last ((x0, f0) :: (x1, f1) :: r) (x0, f0)) with (last ((x1, f1) :: r) (x0, f0)).
      apply last_default. }
    assert (x1 <= xl).
    { destruct r as [|p r].
      - cbn in Hl'. inversion Hl'; lra.
      - assert (Hin : In (xl, fl) (p :: r)).
        { rewrite <- Hl'. change (last ((x1, f1) :: p :: r) (x1, f1)) with (last (p :: r) (x1, f1)).
          apply last_In. }
        pose proof (increasing_from_lt _ _ _ _ Hr Hin). lra. }
    assert (E : Rleb x1 x = true) by (apply Rleb_true; lra). rewrite E.
    apply (IH x1 f1 x xl fl); assumption.
Qed.

Theorem lin_interp_clamp_high : forall x0 f0 rest x xl fl,
  increasing ((x0, f0) :: rest) -> last ((x0, f0) :: rest) (x0, f0) = (xl, fl) -> xl <= x ->
  lin_interp (O := ROps) ((x0, f0) :: rest) x = Some fl.
Proof.
  intros x0 f0 rest x xl fl Hinc Hl Hx. cbn [lin_interp]. rops. cbn [increasing] in Hinc. f_equal.
  destruct (Rle_dec x x0) as [Hle|Hgt].
  - assert (E : Rleb x x0 = true) by (apply Rleb_true; lra). rewrite E.
    destruct rest as [|[x1 f1] r].
    + cbn in Hl. inversion Hl; reflexivity.
    + exfalso. assert (Hin : In (xl, fl) ((x1, f1) :: r)).
      { rewrite <- Hl. change (last ((x0, f0) :: (x1, f1) :: r) (x0, f0)) with (last ((x1, f1) :: r) (x0, f0)).
        apply last_In. }
      pose proof (increasing_from_lt _ _ _ _ Hinc Hin). lra.
  - assert (E : Rleb x x0 = false) by (apply Rleb_false; lra). rewrite E.
    apply (lin_from_last rest x0 f0 x xl fl); assumption.
Qed.

(** ** Real-number meaning of the Sellmeier formulas and of formula 8 *)
Fixpoint flat (ps : list (R * R)) : list R :=
  match ps with [] => [] | (a, b) :: r => a :: b :: flat r end.
Fixpoint Rsum (l : list R) : R := match l with [] => 0 | a :: r => a + Rsum r end.

Lemma sum_pairs_flat : forall (term : R -> R -> R) ps acc,
  sum_pairs (O := ROps) term (flat ps) acc = Some (acc + Rsum (map (fun p => term (fst p) (snd p)) ps)).
Proof.
  intros term ps. induction ps as [|[a b] r IH]; intros acc.
  - cbn. rops. f_equal. ring.
  - cbn [flat sum_pairs map Rsum fst snd]. rewrite IH. rops. f_equal. ring.
Qed.

Theorem formula_1_sellmeier : forall c1 ps w n,
  k_formula_1 ROps w (c1 :: flat ps) = Some n ->
  0 <= 1 + c1 + Rsum (map (fun p => fst p * (w * w) / (w * w - snd p * snd p)) ps) ->
  0 <= n /\ n * n - 1 = c1 + Rsum (map (fun p => fst p * (w * w) / (w * w - snd p * snd p)) ps).
Proof.
  intros c1 ps w n Hk Hpos. rewrite formula_1_spec in Hk.
  unfold spec_formula_1, sq, one in Hk. rewrite sum_pairs_flat in Hk. cbn [option_map] in Hk. rops.
  inversion Hk as [Hn]. split; [apply sqrt_pos|].
  rewrite sqrt_sqrt; [ring|]. cbn [fst snd]. lra.
Qed.

Theorem formula_2_sellmeier : forall c1 ps w n,
  k_formula_2 ROps w (c1 :: flat ps) = Some n ->
  0 <= 1 + c1 + Rsum (map (fun p => fst p * (w * w) / (w * w - snd p)) ps) ->
  0 <= n /\ n * n - 1 = c1 + Rsum (map (fun p => fst p * (w * w) / (w * w - snd p)) ps).
Proof.
  intros c1 ps w n Hk Hpos. rewrite formula_2_spec in Hk.
  unfold spec_formula_2, sq, one in Hk. rewrite sum_pairs_flat in Hk. cbn [option_map] in Hk. rops.
  inversion Hk as [Hn]. split; [apply sqrt_pos|].
  rewrite sqrt_sqrt; [ring|]. cbn [fst snd]. lra.
Qed.

(** formula 8 solves the Lorentz-Lorenz form (n^2-1)/(n^2+2) = b for n *)
Theorem formula_8_lorentz : forall c1 c2 c3 c4 w n,
  k_formula_8 ROps w [c1; c2; c3; c4] = Some n ->
  let b := c1 + c2 * (w * w) / (w * w - c3) + c4 * (w * w) in
  b <> 1 -> 0 <= (1 + 2 * b) / (1 - b) ->
  (n * n - 1) / (n * n + 2) = b.
Proof.
  intros c1 c2 c3 c4 w n Hk b Hb Hpos. rewrite formula_8_spec in Hk.
  unfold spec_formula_8, retro_b, sq, one in Hk. rops. inversion Hk as [Hn]. fold b.
  rewrite sqrt_sqrt by exact Hpos. field. split; lra.
Qed.

Example formula_8_example : exists n, k_formula_8 ROps 1 [0; 1/4; 1/2; 0] = Some n /\ (n * n - 1) / (n * n + 2) = 1/2.
Proof.
  pose proof (formula_8_lorentz 0 (1/4) (1/2) 0 1) as H.
  destruct (k_formula_8 ROps 1 [0; 1/4; 1/2; 0]) as [n|] eqn:E.
  - exists n. split; [reflexivity|]. specialize (H n E). cbv zeta in H. rewrite H; lra.
  - unfold k_formula_8 in E. cbn in E. discriminate E.
Qed.

Example increasing_example : increasing [(1, 2); (2, 5); (4, 3)].
Proof. cbn. lra. Qed.
Example interp_example : lin_interp (O := ROps) [(1, 2); (2, 5); (4, 3)] 3 = Some 4.
Proof.
  change [(1, 2); (2, 5); (4, 3)] with ([(1, 2)] ++ (2, 5) :: (4, 3) :: []).
  rewrite lin_interp_segment; [f_equal; lra | cbn; lra | lra].
Qed.

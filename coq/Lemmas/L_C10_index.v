(** C10, index clause: the three families enumerate exactly the (n, m) pairs prescribed by their
    published index rules, in order and without repetition (models of [_generate_indices] in
    Model/M_C10.v, rules in Spec/S_C10.v). *)
From Coq Require Import ZArith List Bool Lia Psatz Permutation.
From OV Require Import Ops Spec.S_C10 Model.M_C10.
Import ListNotations.
Local Open Scope Z_scope.

(** ** ranges *)
Lemma In_seqZ x a n : In x (seqZ a n) <-> a <= x < a + Z.of_nat n.
Proof.
  revert a; induction n as [|n IH]; intros a; cbn [seqZ In].
  - lia.
  - rewrite IH. lia.
Qed.
Lemma In_rangeZ x a b : In x (rangeZ a b) <-> a <= x < b.
Proof. unfold rangeZ. rewrite In_seqZ. lia. Qed.

Lemma NoDup_seqZ a n : NoDup (seqZ a n).
Proof.
  revert a; induction n as [|n IH]; intros a; cbn [seqZ]; constructor; auto.
  rewrite In_seqZ. lia.
Qed.
Lemma NoDup_rangeZ a b : NoDup (rangeZ a b).
Proof. apply NoDup_seqZ. Qed.

(** ** the generated pairs, for every loop bound N (the code has 15 / 15 / 20) *)
Lemma mod2_valid n m : (n - m) mod 2 = 0 <-> exists k, n - m = 2 * k.
Proof.
  split.
  - intros H. exists ((n - m) / 2). pose proof (Z.div_mod (n - m) 2). lia.
  - intros [k ->]. rewrite Z.mul_comm. apply Z.mod_mul. lia.
Qed.

Theorem In_valid_pairs N n m :
  In (n, m) (valid_pairs N) <-> 0 <= n < N /\ zvalid n m.
Proof.
  unfold valid_pairs, zvalid. rewrite in_flat_map. split.
  - intros [n' [Hn' H]]. apply In_rangeZ in Hn'. apply in_flat_map in H as [m' [Hm' H]].
    apply In_rangeZ in Hm'. destruct ((n' - m') mod 2 =? 0) eqn:E; [|destruct H].
    destruct H as [H|[]]. injection H as <- <-. apply Z.eqb_eq, mod2_valid in E. split; [lia|]. split; [lia|exact E].
  - intros [Hn [Hm Hk]]. exists n. split; [apply In_rangeZ; lia|].
    apply in_flat_map. exists m. split; [apply In_rangeZ; lia|].
    apply mod2_valid in Hk. apply Z.eqb_eq in Hk. rewrite Hk. left; reflexivity.
Qed.

(** ** sorted(zip(number, indices)) is a permutation *)
Lemma insert_key_perm x l : Permutation (insert_key x l) (x :: l).
Proof.
  induction l as [|y l IH]; cbn [insert_key]; [reflexivity|].
  destruct (key_le x y); [reflexivity|].
  rewrite IH. apply perm_swap.
Qed.
Lemma sort_keys_perm l : Permutation (sort_keys l) l.
Proof.
  induction l as [|x l IH]; cbn; [constructor|].
  fold (sort_keys l). rewrite insert_key_perm. constructor; exact IH.
Qed.
Lemma sort_by_perm f l : Permutation (sort_by f l) l.
Proof.
  unfold sort_by. rewrite sort_keys_perm. rewrite map_map. cbn [snd]. rewrite map_id. reflexivity.
Qed.

(** for every bound N the Noll list / the sorted Fringe list contain exactly the valid pairs with n < N *)
Theorem noll_indices_N_exact N n m :
  In (n, m) (noll_indices_N N) <-> 0 <= n < N /\ zvalid n m.
Proof.
  rewrite <- In_valid_pairs. unfold noll_indices_N.
  split; apply Permutation_in; [|symmetry]; apply sort_by_perm.
Qed.
Theorem fringe_sorted_N_exact N n m :
  In (n, m) (fringe_sorted_N N) <-> 0 <= n < N /\ zvalid n m.
Proof.
  rewrite <- In_valid_pairs. unfold fringe_sorted_N.
  split; apply Permutation_in; [|symmetry]; apply sort_by_perm.
Qed.
Theorem noll_indices_N_nodup N : NoDup (noll_indices_N N) <-> NoDup (valid_pairs N).
Proof.
  split; apply Permutation_NoDup; [|symmetry]; apply sort_by_perm.
Qed.

(** the Noll if-chain of the code always assigns [c] (no stale / unbound value) *)
Theorem noll_c_total n m :
  let md := n mod 4 in
  ((m >? 0) && (md <=? 1)) || ((m <? 0) && (md >=? 2)) || ((m >=? 0) && (md >=? 2)) || ((m <=? 0) && (md <=? 1)) = true.
Proof.
  cbv zeta. destruct (Z.leb_spec (n mod 4) 1), (Z.geb_spec (n mod 4) 2), (Z.gtb_spec m 0), (Z.ltb_spec m 0),
    (Z.geb_spec m 0), (Z.leb_spec m 0); cbn; try reflexivity; lia.
Qed.

(** ** bounds: which radial orders can carry a number <= 120 (all integers, no enumeration) *)
Lemma tri_ge n k : k <= n -> 0 <= k -> k * (k + 1) / 2 <= n * (n + 1) / 2.
Proof. intros. apply Z.div_le_mono; nia. Qed.

Theorem osa_120_needs_n_le_14 n m : zvalid n m -> osa_j n m < 120 -> n <= 14.
Proof.
  intros [Hm _] H. unfold osa_j in H.
  destruct (Z_le_gt_dec n 14) as [|Hn]; [assumption|exfalso].
  assert (240 <= n * (n + 2) + m) by nia.
  assert (120 <= (n * (n + 2) + m) / 2) by (apply Z.div_le_lower_bound; lia). lia.
Qed.

Lemma noll_j_lower n m : n * (n + 1) / 2 + Z.abs m <= noll_j n m /\ (m = 0 -> noll_j n m = n * (n + 1) / 2 + 1).
Proof.
  unfold noll_j. cbv zeta. split.
  - destruct (m =? 0); [lia|]. destruct (0 <? m).
    + destruct (Z.even _); lia.
    + destruct (Z.odd _); lia.
  - intros ->. cbn [Z.eqb Z.abs]. lia.
Qed.

Theorem noll_120_needs_n_le_14 n m : zvalid n m -> noll_j n m <= 120 -> n <= 14.
Proof.
  intros [Hm [k Hk]] H. destruct (noll_j_lower n m) as [L L0].
  destruct (Z_le_gt_dec n 14) as [|Hn]; [assumption|exfalso].
  assert (T15 : 15 * (15 + 1) / 2 <= n * (n + 1) / 2) by (apply tri_ge; lia).
  change (15 * (15 + 1) / 2) with 120 in T15.
  destruct (Z.eq_dec m 0) as [E|E].
  - rewrite (L0 E) in H. lia.
  - lia.
Qed.

Theorem fringe_120_needs_n_le_19 n m : zvalid n m -> fringe_j n m <= 120 -> n <= 19.
Proof.
  intros [Hm [k Hk]] H. unfold fringe_j in H.
  destruct (Z_le_gt_dec n 19) as [|Hn]; [assumption|exfalso].
  (* n + |m| = 2q with |m| <= q *)
  assert (exists q, n + Z.abs m = 2 * q) as [q Hq].
  { destruct (Z.abs_spec m) as [[_ ->]|[_ ->]]; [exists (n - k)|exists k]; lia. }
  rewrite Hq, (Z.mul_comm 2 q), Z.div_mul in H by lia.
  assert (Z.abs m <= q) by lia. assert (10 <= q) by lia.
  assert (q = 10 -> Z.abs m = 0) by lia.
  destruct (m <? 0) eqn:E.
  - apply Z.ltb_lt in E. nia.
  - destruct (Z.eq_dec q 10) as [->|]; [|nia].
    apply Z.ltb_ge in E. assert (m = 0) by lia. subst m. cbn in H. lia.
Qed.

(** ** the concrete lists of the code (loop bounds 15 / 15 / 20, truncation at 120): exhaustive *)
Lemma Forall_valid_of_forallb l :
  forallb (fun p => zvalidb (fst p) (snd p)) l = true -> Forall zvalidp l.
Proof.
  intros H. apply Forall_forall. intros [n m] Hin.
  rewrite forallb_forall in H. apply zvalidb_spec. exact (H _ Hin).
Qed.

Lemma nodup_of_map_range {A} (f : A -> Z) l a b : map f l = rangeZ a b -> NoDup l.
Proof. intros H. apply (NoDup_map_inv f). rewrite H. apply NoDup_rangeZ. Qed.

Lemma numbered_position {A} (f : A -> Z) (l : list A) a b d :
  map f l = rangeZ a b -> forall j, (j < length l)%nat -> f (nth j l d) = a + Z.of_nat j.
Proof.
  unfold rangeZ. generalize (Z.to_nat (b - a)) as k. revert a.
  induction l as [|x l IH]; intros a k H j Hj; [cbn in Hj; lia|].
  destruct k as [|k]; [discriminate|]. cbn [map seqZ] in H. injection H as Hx Hl.
  destruct j as [|j]; cbn [nth]; [lia|].
  rewrite (IH _ _ Hl j) by (cbn in Hj; lia). lia.
Qed.

(** OSA/ANSI: position j carries the pair with j = (n(n+2)+m)/2, j = 0..119, all valid pairs with
    such a number are present, none twice *)
Theorem std_indices_rule :
  length std_indices = 120%nat /\
  Forall zvalidp std_indices /\
  map (pairf osa_j) std_indices = rangeZ 0 120 /\
  NoDup std_indices /\
  (forall j, (j < 120)%nat -> pairf osa_j (nth j std_indices (0, 0)) = Z.of_nat j) /\
  (forall n m, zvalid n m -> osa_j n m < 120 -> In (n, m) std_indices).
Proof.
  assert (L : length std_indices = 120%nat) by (vm_compute; reflexivity).
  assert (M : map (pairf osa_j) std_indices = rangeZ 0 120) by (vm_compute; reflexivity).
  split; [exact L|]. split; [apply Forall_valid_of_forallb; vm_compute; reflexivity|].
  split; [exact M|]. split; [exact (nodup_of_map_range _ _ _ _ M)|]. split.
  - intros j Hj. rewrite (numbered_position _ _ _ _ (0, 0) M j) by (rewrite L; exact Hj). lia.
  - intros n m Hv Hj. apply In_valid_pairs. split; [|exact Hv].
    pose proof (osa_120_needs_n_le_14 n m Hv Hj). destruct Hv as [Hm _]. lia.
Qed.

(** Noll: position j (0-based) carries the pair with Noll number j+1 *)
Theorem noll_indices_rule :
  length noll_indices = 120%nat /\
  Forall zvalidp noll_indices /\
  map (pairf noll_j) noll_indices = rangeZ 1 121 /\
  NoDup noll_indices /\
  (forall j, (j < 120)%nat -> pairf noll_j (nth j noll_indices (0, 0)) = Z.of_nat j + 1) /\
  (forall n m, zvalid n m -> noll_j n m <= 120 -> In (n, m) noll_indices).
Proof.
  assert (L : length noll_indices = 120%nat) by (vm_compute; reflexivity).
  assert (M : map (pairf noll_j) noll_indices = rangeZ 1 121) by (vm_compute; reflexivity).
  split; [exact L|]. split; [apply Forall_valid_of_forallb; vm_compute; reflexivity|].
  split; [exact M|]. split; [exact (nodup_of_map_range _ _ _ _ M)|]. split.
  - intros j Hj. rewrite (numbered_position _ _ _ _ (0, 0) M j) by (rewrite L; exact Hj). lia.
  - intros n m Hv Hj. apply noll_indices_N_exact. split; [|exact Hv].
    pose proof (noll_120_needs_n_le_14 n m Hv Hj). destruct Hv as [Hm _]. lia.
Qed.

(** Fringe: the generator stops at n < 20 and keeps 120 entries; nothing with number <= 120 is lost *)
Theorem fringe_indices_rule :
  length fringe_indices = 120%nat /\
  Forall zvalidp fringe_indices /\
  map (pairf fringe_j) fringe_indices = rangeZ 1 121 /\
  NoDup fringe_indices /\
  (forall j, (j < 120)%nat -> pairf fringe_j (nth j fringe_indices (0, 0)) = Z.of_nat j + 1) /\
  (forall n m, zvalid n m -> fringe_j n m <= 120 -> In (n, m) fringe_indices).
Proof.
  assert (L : length fringe_indices = 120%nat) by (vm_compute; reflexivity).
  assert (M : map (pairf fringe_j) fringe_indices = rangeZ 1 121) by (vm_compute; reflexivity).
  split; [exact L|]. split; [apply Forall_valid_of_forallb; vm_compute; reflexivity|].
  split; [exact M|]. split; [exact (nodup_of_map_range _ _ _ _ M)|]. split.
  - intros j Hj. rewrite (numbered_position _ _ _ _ (0, 0) M j) by (rewrite L; exact Hj). lia.
  - intros n m Hv Hj.
    assert (Hin : In (n, m) (fringe_sorted_N 20)).
    { apply fringe_sorted_N_exact. split; [|exact Hv].
      pose proof (fringe_120_needs_n_le_19 n m Hv Hj). destruct Hv as [Hm _]. lia. }
    rewrite <- (firstn_skipn 120 (fringe_sorted_N 20)) in Hin. apply in_app_or in Hin as [Hin|Hin]; [exact Hin|].
    exfalso.
    assert (T : forallb (fun p => 120 <? pairf fringe_j p) (skipn 120 (fringe_sorted_N 20)) = true)
      by (vm_compute; reflexivity).
    rewrite forallb_forall in T. specialize (T _ Hin). apply Z.ltb_lt in T. unfold pairf in T. cbn in T. lia.
Qed.

(** the code's number formulas agree with the published ones on every generated pair *)
Theorem code_numbers_are_published :
  Forall (fun p => noll_number p = pairf noll_j p) (valid_pairs 15) /\
  Forall (fun p => fringe_number p = pairf fringe_j p) (valid_pairs 20).
Proof.
  split; apply Forall_forall; intros p Hin.
  - assert (T : forallb (fun p => noll_number p =? pairf noll_j p) (valid_pairs 15) = true) by (vm_compute; reflexivity).
    rewrite forallb_forall in T. apply Z.eqb_eq, T, Hin.
  - assert (T : forallb (fun p => fringe_number p =? pairf fringe_j p) (valid_pairs 20) = true) by (vm_compute; reflexivity).
    rewrite forallb_forall in T. apply Z.eqb_eq, T, Hin.
Qed.

(** ** Noll's published characterisation holds for the formula, for all integers:
    cosine terms (m > 0) get even numbers, sine terms (m < 0) odd numbers; numbers grow with n and,
    within a radial order, with |m|; row n uses exactly T(n)+1 .. T(n)+n+1. *)
Theorem noll_parity n m : (0 < m -> Z.even (noll_j n m) = true) /\ (m < 0 -> Z.odd (noll_j n m) = true).
Proof.
  unfold noll_j. cbv zeta. split; intros H.
  - replace (m =? 0) with false by (symmetry; apply Z.eqb_neq; lia).
    replace (0 <? m) with true by (symmetry; apply Z.ltb_lt; lia).
    destruct (Z.even (n * (n + 1) / 2 + Z.abs m)) eqn:E; [exact E|].
    rewrite Z.even_add, E. reflexivity.
  - replace (m =? 0) with false by (symmetry; apply Z.eqb_neq; lia).
    replace (0 <? m) with false by (symmetry; apply Z.ltb_ge; lia).
    destruct (Z.odd (n * (n + 1) / 2 + Z.abs m)) eqn:E; [exact E|].
    rewrite Z.odd_add, E. reflexivity.
Qed.

Lemma noll_j_upper n m : noll_j n m <= n * (n + 1) / 2 + Z.abs m + 1.
Proof.
  unfold noll_j. cbv zeta. destruct (m =? 0); [lia|]. destruct (0 <? m).
  - destruct (Z.even _); lia.
  - destruct (Z.odd _); lia.
Qed.

Lemma tri_succ n : 0 <= n -> (n + 1) * (n + 1 + 1) / 2 = n * (n + 1) / 2 + n + 1.
Proof.
  intros H. replace ((n + 1) * (n + 1 + 1)) with (n * (n + 1) + (n + 1) * 2) by ring.
  rewrite Z.div_add by lia. lia.
Qed.

Theorem noll_row_range n m : zvalid n m ->
  n * (n + 1) / 2 + 1 <= noll_j n m <= n * (n + 1) / 2 + n + 1.
Proof.
  intros [Hm _]. destruct (noll_j_lower n m) as [L L0]. pose proof (noll_j_upper n m).
  destruct (Z.eq_dec m 0) as [E|E]; [rewrite (L0 E); lia|lia].
Qed.

Theorem noll_monotone n m n' m' : zvalid n m -> zvalid n' m' ->
  (n < n' -> noll_j n m < noll_j n' m') /\
  (n = n' -> Z.abs m < Z.abs m' -> noll_j n m < noll_j n' m').
Proof.
  intros V V'. pose proof (noll_row_range n m V) as R. pose proof (noll_row_range n' m' V') as R'.
  destruct V as [Hm [k Hk]], V' as [Hm' [k' Hk']]. split.
  - intros Hlt. assert (0 <= n) by lia.
    assert ((n + 1) * (n + 1 + 1) / 2 <= n' * (n' + 1) / 2) by (apply tri_ge; lia).
    rewrite tri_succ in * by lia. lia.
  - intros -> Hlt. pose proof (noll_j_upper n' m). destruct (noll_j_lower n' m') as [L _].
    (* |m| and |m'| have the parity of n, so they differ by at least 2 *)
    assert (Z.abs m + 2 <= Z.abs m') by lia.
    lia.
Qed.

(** no two valid pairs share an OSA / Noll / Fringe number (all integers) *)
Theorem osa_j_injective n m n' m' : zvalid n m -> zvalid n' m' -> osa_j n m = osa_j n' m' -> (n, m) = (n', m').
Proof.
  intros [Hm [k Hk]] [Hm' [k' Hk']] H. unfold osa_j in H.
  assert (E : forall a b c, b = a - 2 * c -> (a * (a + 2) + b) / 2 = (a * (a + 3)) / 2 - c).
  { intros a b c ->. replace (a * (a + 2) + (a - 2 * c)) with (a * (a + 3) + (- c) * 2) by ring.
    rewrite Z.div_add by lia. lia. }
  assert (P : forall a, exists q, a * (a + 3) = 2 * q).
  { intros a. destruct (Z.Even_or_Odd a) as [[q ->]|[q ->]]; [exists (q * (2 * q + 3))|exists ((2 * q + 1) * (q + 2))]; ring. }
  rewrite (E n m k), (E n' m' k') in H by lia.
  destruct (P n) as [q Hq], (P n') as [q' Hq']. rewrite Hq, Hq' in H.
  rewrite !(Z.mul_comm 2), !Z.div_mul in H by lia.
  assert (n = n') by nia. subst n'. f_equal. nia.
Qed.

Theorem noll_j_injective n m n' m' : zvalid n m -> zvalid n' m' -> noll_j n m = noll_j n' m' -> (n, m) = (n', m').
Proof.
  intros V V' H.
  destruct (Z.lt_trichotomy n n') as [Hlt|[->|Hgt]].
  - pose proof (proj1 (noll_monotone n m n' m' V V') Hlt). lia.
  - f_equal. destruct (Z.lt_trichotomy (Z.abs m) (Z.abs m')) as [Hl|[He|Hg]].
    + pose proof (proj2 (noll_monotone n' m n' m' V V') eq_refl Hl). lia.
    + destruct (Z.eq_dec m m') as [|Hne]; [assumption|exfalso].
      (* m' = -m <> 0: opposite parities *)
      assert (m' = - m /\ m <> 0) as [-> Hm0] by lia.
      destruct (Z.lt_trichotomy m 0) as [Hneg|[?|Hpos]]; [|contradiction|].
      * pose proof (proj2 (noll_parity n' m) Hneg) as O. pose proof (proj1 (noll_parity n' (- m)) ltac:(lia)) as E.
        rewrite <- H in E. rewrite <- Z.negb_even, E in O. discriminate.
      * pose proof (proj1 (noll_parity n' m) Hpos) as E. pose proof (proj2 (noll_parity n' (- m)) ltac:(lia)) as O.
        rewrite <- H in O. rewrite <- Z.negb_even, E in O. discriminate.
    + pose proof (proj2 (noll_monotone n' m' n' m V' V) eq_refl Hg). lia.
  - pose proof (proj1 (noll_monotone n' m' n m V' V) ltac:(lia)). lia.
Qed.

Lemma sq_window q q' v : 0 <= q -> 0 <= q' ->
  q * q < v <= (q + 1) * (q + 1) -> q' * q' < v <= (q' + 1) * (q' + 1) -> q = q'.
Proof.
  intros Hq Hq' W W'. destruct (Z.lt_trichotomy q q') as [L|[E|G]]; [exfalso|assumption|exfalso].
  - assert ((q + 1) * (q + 1) <= q' * q') by (apply Z.mul_le_mono_nonneg; lia). lia.
  - assert ((q' + 1) * (q' + 1) <= q * q) by (apply Z.mul_le_mono_nonneg; lia). lia.
Qed.

Theorem fringe_j_injective n m n' m' : zvalid n m -> zvalid n' m' -> fringe_j n m = fringe_j n' m' -> (n, m) = (n', m').
Proof.
  intros [Hm [k Hk]] [Hm' [k' Hk']] H. unfold fringe_j in H.
  assert (exists q, n + Z.abs m = 2 * q) as [q Hq]
    by (destruct (Z.abs_spec m) as [[_ ->]|[_ ->]]; [exists (n - k)|exists k]; lia).
  assert (exists q', n' + Z.abs m' = 2 * q') as [q' Hq']
    by (destruct (Z.abs_spec m') as [[_ ->]|[_ ->]]; [exists (n' - k')|exists k']; lia).
  rewrite Hq, Hq', !(Z.mul_comm 2), !Z.div_mul in H by lia.
  rewrite !Z.pow_2_r in H.
  assert (A : 0 <= Z.abs m <= q) by lia. assert (A' : 0 <= Z.abs m' <= q') by lia.
  set (s := if m <? 0 then 1 else 0) in *. set (s' := if m' <? 0 then 1 else 0) in *.
  assert (S : 0 <= s <= 1 /\ (s = 1 -> 1 <= Z.abs m) /\ (s = 1 <-> m < 0)).
  { subst s. destruct (Z.ltb_spec m 0); lia. }
  assert (S' : 0 <= s' <= 1 /\ (s' = 1 -> 1 <= Z.abs m') /\ (s' = 1 <-> m' < 0)).
  { subst s'. destruct (Z.ltb_spec m' 0); lia. }
  assert (E1 : (1 + q) * (1 + q) = q * q + 2 * q + 1) by ring.
  assert (E2 : (1 + q') * (1 + q') = q' * q' + 2 * q' + 1) by ring.
  assert (E3 : (q + 1) * (q + 1) = q * q + 2 * q + 1) by ring.
  assert (E4 : (q' + 1) * (q' + 1) = q' * q' + 2 * q' + 1) by ring.
  assert (q = q').
  { apply (sq_window q q' ((1 + q) * (1 + q) - 2 * Z.abs m + s)); try lia. }
  subst q'. assert (Z.abs m = Z.abs m' /\ s = s') as [Ea Es] by lia.
  f_equal; lia.
Qed.

(** the hypotheses are satisfiable *)
Example index_example :
  zvalid 4 (-2) /\ osa_j 4 (-2) = 11 /\ noll_j 4 (-2) = 13 /\ fringe_j 4 (-2) = 13 /\ In (4, -2) noll_indices.
Proof.
  split; [split; [cbn; lia|exists 3; reflexivity]|]. repeat split; try reflexivity.
  vm_compute. tauto.
Qed.

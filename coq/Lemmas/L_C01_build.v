(** * C01: a lens appended in index order (exact reals, any number of surfaces, any surface types,
    tilts and decentres): every call succeeds, vertex k sits at the running sum of the thicknesses
    given before it (first surface at 0, object at -t0), the medium in front of each surface is the
    very object that is behind its predecessor, decentres / tilts are stored as given. *)
From Coq Require Import Reals ZArith List Bool String Lia Lra.
From OV Require Import Ops RInst Gen.LensEdit Model.Paraxial Model.M_C01 Spec.S_C01 Lemmas.L_C01_lists
     Lemmas.L_C01_inv.
Import ListNotations.
Local Open Scope R_scope.

Notation lensR := (lens ROps).
Notation surfR := (surf ROps).

(** arguments of one add_surface call *)
Record aspec := mkA {
  a_kind : gkind; a_R : R; a_k : R; a_c : list R; a_t : R; a_m : matspec R; a_stop : bool;
  a_dx : R; a_dy : R; a_rx : R; a_ry : R }.

Definition add_op (i : nat) (a : aspec) : op ROps :=
  AddSurface (O:=ROps) (Z.of_nat i) (a_kind a) (a_R a) (a_k a) (a_c a) (a_t a) (a_m a) (a_stop a)
             (a_dx a) (a_dy a) (a_rx a) (a_ry a).

Fixpoint add_ops_from (i : nat) (specs : list aspec) : list (op ROps) :=
  match specs with [] => [] | a :: r => add_op i a :: add_ops_from (S i) r end.

(** object first, then surfaces 1, 2, ... *)
Definition build_ops (ob : aspec) (specs : list aspec) : list (op ROps) := add_op 0 ob :: add_ops_from 1 specs.

Definition refs (l : lensR) : list (nat * nat) := map (fun s => (s_mpre s, s_mpost s)) (surfs l).
Definition sumR (ts : list R) : R := fold_right Rplus 0 ts.

Lemma add_ops_from_app i s1 s2 : add_ops_from i (s1 ++ s2) = add_ops_from i s1 ++ add_ops_from (i + List.length s1) s2.
Proof.
  revert i; induction s1 as [|a s1 IH]; intros i; simpl.
  - rewrite Nat.add_0_r. reflexivity.
  - rewrite IH. replace (i + S (List.length s1))%nat with (S i + List.length s1)%nat by lia. reflexivity.
Qed.

Lemma run_app (l : lensR) o1 o2 : run l (o1 ++ o2) = obind (run l o1) (fun l1 => run l1 o2).
Proof.
  unfold run, fold_opt. rewrite fold_left_app.
  destruct (fold_left _ o1 (Some l)) as [l1|]; [reflexivity|].
  cbn [obind]. induction o2; simpl; auto.
Qed.

Lemma insert_at_end {A} (x : A) l : insert_at (List.length l) x l = l ++ [x].
Proof. induction l; simpl; auto. f_equal; auto. Qed.

Lemma media_chained_snoc l p q :
  media_chained l -> (l = [] \/ snd (last l (0%nat, 0%nat)) = p) -> media_chained (l ++ [(p, q)]).
Proof.
  induction l as [|[p1 q1] l IH]; intros H HL; [exact I|].
  destruct l as [|[p2 q2] l].
  - cbn. destruct HL as [HL|HL]; [discriminate|]. cbn in HL. split; [exact HL|exact I].
  - cbn [app media_chained] in *. destruct H as [H1 H2]. split; [exact H1|].
    apply IH; [exact H2|]. right. destruct HL as [HL|HL]; [discriminate|]. exact HL.
Qed.

Lemma sumR_app a b : sumR (a ++ b) = sumR a + sumR b.
Proof. unfold sumR. induction a; simpl; [ring|]. rewrite IHa. ring. Qed.

(** one in-order append (index = number of surfaces so far >= 1) *)
Lemma add_in_order (l : lensR) (a : aspec) :
  (1 <= List.length (surfs l))%nat ->
  exists l' new post,
    step l (add_op (List.length (surfs l)) a) = Some l' /\
    positions l' = positions l ++
      [if Nat.eqb (List.length (surfs l)) 1 then 0
       else getZ (O:=ROps) (positions l) (Z.of_nat (List.length (surfs l)) - 1) + last_t l] /\
    last_t l' = a_t a /\
    refs l' = refs l ++ [(snd (last (refs l) (0%nat, 0%nat)), post)] /\
    map s_x (surfs l') = map s_x (surfs l) ++ [a_dx a] /\ map s_y (surfs l') = map s_y (surfs l) ++ [a_dy a] /\
    map s_rx (surfs l') = map s_rx (surfs l) ++ [a_rx a] /\ map s_ry (surfs l') = map s_ry (surfs l) ++ [a_ry a] /\
    surfs l' = (if s_stop new then map (fun s => with_stop s false) (surfs l) else surfs l) ++ [new] /\
    s_R new = a_R a /\ s_stop new = a_stop a /\ s_kind new = (match a_kind a with GEven => GEven | GOther => GOther | _ => GStd end) /\
    waves l' = waves l /\ prims l' = prims l /\ ap l' = ap l.
Proof.
  intros Hn. set (j := List.length (surfs l)) in *.
  cbn [step add_op]. unfold add_surface.
  assert (G1 : ((Z.of_nat j <? 0)%Z || (nsurf l <? Z.of_nat j)%Z) = false).
  { unfold nsurf. fold j. destruct (Z.ltb_spec (Z.of_nat j) 0); [lia|]. destruct (Z.ltb_spec (Z.of_nat j) (Z.of_nat j)); [lia|]. reflexivity. }
  rewrite G1.
  (* material *)
  assert (HP : exists p, nth_error (surfs l) (Z.to_nat (Z.of_nat j - 1)) = Some p /\
                         snd (last (refs l) (0%nat, 0%nat)) = s_mpost p).
  { destruct (surfs l) as [|s0 ss] eqn:ES using rev_ind; [simpl in Hn; unfold j in Hn; simpl in Hn; lia|].
    clear IHl0. exists s0. unfold j. rewrite app_length. cbn [List.length].
    replace (Z.to_nat (Z.of_nat (List.length l0 + 1) - 1)) with (List.length l0) by lia.
    split.
    - rewrite nth_error_app2 by lia. rewrite Nat.sub_diag. reflexivity.
    - unfold refs. rewrite ES, map_app. cbn [map]. rewrite last_last. reflexivity. }
  destruct HP as (p & HP & HL).
  unfold cfg_material. destruct (Z.eqb_spec (Z.of_nat j) 0) as [E0|E0]; [lia|]. rewrite HP.
  unfold k_c01_cfg_cs. rops. destruct (Z.eqb_spec (Z.of_nat j) 0) as [E0'|_]; [lia|].
  assert (HZ : (if (Z.of_nat j =? 1)%Z then IZR 0
                else getZ (O:=ROps) (positions l) (Z.of_nat j - 1) + last_t l) =
               (if Nat.eqb j 1 then 0 else getZ (O:=ROps) (positions l) (Z.of_nat j - 1) + last_t l)).
  { destruct (Z.eqb_spec (Z.of_nat j) 1); destruct (Nat.eqb_spec j 1); try reflexivity; lia. }
  assert (HG : exists g R' k' c', cfg_geometry (O:=ROps) (a_kind a) (a_R a) (a_k a) (a_c a) = (g, R', k', c') /\ R' = a_R a /\
               g = match a_kind a with GEven => GEven | GOther => GOther | _ => GStd end).
  { unfold cfg_geometry. destruct (a_kind a); cbn [isinf_ ROps]; do 4 eexists; repeat split. }
  destruct HG as (g & R' & k' & c' & HG & HR & Hg). rewrite HG.
  assert (POS : forall (new : surfR), positions
            (mkL (insert_at (Z.to_nat (Z.of_nat j)) new
                    (if s_stop new then map (fun s => with_stop s false) (surfs l) else surfs l))
                 (mats l) 0 [] [] [] [] (ap l)) = positions l ++ [s_z new]).
  { intros new. unfold positions. cbn [surfs]. rewrite Nat2Z.id.
    destruct (s_stop new).
    - replace j with (List.length (map (fun s => with_stop s false) (surfs l))) by (rewrite map_length; reflexivity).
      rewrite insert_at_end, map_app, map_map. reflexivity.
    - unfold j. rewrite insert_at_end, map_app. reflexivity. }
  assert (INS : forall (new : surfR),
            insert_at (Z.to_nat (Z.of_nat j)) new
              (if s_stop new then map (fun s => with_stop s false) (surfs l) else surfs l) =
            (if s_stop new then map (fun s => with_stop s false) (surfs l) else surfs l) ++ [new]).
  { intros new. rewrite Nat2Z.id. destruct (s_stop new).
    - replace j with (List.length (map (fun s : surfR => with_stop s false) (surfs l))) by (rewrite map_length; reflexivity).
      apply insert_at_end.
    - apply insert_at_end. }
  destruct (a_m a) as [| |nn] eqn:EM;
  (eexists; eexists; eexists; split; [reflexivity|]);
  cbn [surfs last_t waves prims ap mats];
  rewrite ?INS; unfold positions, refs; cbn [surfs];
  repeat match goal with |- context [if ?b then map ?f ?x else ?x] =>
    match b with s_stop _ => idtac end;
    let Hb := fresh in destruct b eqn:Hb end;
  rewrite ?map_app, ?map_map; cbn [map s_z s_x s_y s_rx s_ry s_mpre s_mpost s_R s_stop s_kind with_stop];
  fold (positions l); fold (refs l); rewrite ?HZ, ?HL;
  (repeat split; try reflexivity; try assumption).
Qed.

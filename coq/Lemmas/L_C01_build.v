(** * C01: a lens appended in index order (exact reals, any number of surfaces, any surface types,
    tilts and decentres): every call succeeds, vertex k sits at the running sum of the thicknesses
    given before it (first surface at 0, object at -t0), the medium in front of each surface is the
    very object that is behind its predecessor, decentres / tilts are stored as given. *)
From Coq Require Import Reals ZArith List Bool String Lia Lra.
From OV Require Import Ops RInst Gen.LensEdit Model.Paraxial Model.M_C01 Spec.S_C01 Lemmas.L_C01_lists
     Lemmas.L_C01_inv.
Import ListNotations.
Local Open Scope R_scope.

Notation lensR := (lens ROps).
Notation surfR := (surf ROps).

(** arguments of one add_surface call *)
Record aspec := mkA {
  a_kind : gkind; a_R : R; a_k : R; a_c : list R; a_t : R; a_m : matspec R; a_stop : bool;
  a_dx : R; a_dy : R; a_rx : R; a_ry : R }.

Definition add_op (i : nat) (a : aspec) : op ROps :=
  AddSurface (O:=ROps) (Z.of_nat i) (a_kind a) (a_R a) (a_k a) (a_c a) (a_t a) (a_m a) (a_stop a)
             (a_dx a) (a_dy a) (a_rx a) (a_ry a).

Fixpoint add_ops_from (i : nat) (specs : list aspec) : list (op ROps) :=
  match specs with [] => [] | a :: r => add_op i a :: add_ops_from (S i) r end.

(** object first, then surfaces 1, 2, ... *)
Definition build_ops (ob : aspec) (specs : list aspec) : list (op ROps) := add_op 0 ob :: add_ops_from 1 specs.

Definition refs (l : lensR) : list (nat * nat) := map (fun s => (s_mpre s, s_mpost s)) (surfs l).
Definition sumR (ts : list R) : R := fold_right Rplus 0 ts.

Lemma add_ops_from_app i s1 s2 : add_ops_from i (s1 ++ s2) = add_ops_from i s1 ++ add_ops_from (i + List.length s1) s2.
Proof.
  revert i; induction s1 as [|a s1 IH]; intros i; simpl.
  - rewrite Nat.add_0_r. reflexivity.
  - rewrite IH. replace (i + S (List.length s1))%nat with (S i + List.length s1)%nat by lia. reflexivity.
Qed.

Lemma run_app (l : lensR) o1 o2 : run l (o1 ++ o2) = obind (run l o1) (fun l1 => run l1 o2).
Proof.
  unfold run, fold_opt. rewrite fold_left_app.
  destruct (fold_left _ o1 (Some l)) as [l1|]; [reflexivity|].
  cbn [obind]. induction o2; simpl; auto.
Qed.

Lemma insert_at_end {A} (x : A) l : insert_at (List.length l) x l = l ++ [x].
Proof. induction l; simpl; auto. f_equal; auto. Qed.

Lemma media_chained_snoc l p q :
  media_chained l -> (l = [] \/ snd (last l (0%nat, 0%nat)) = p) -> media_chained (l ++ [(p, q)]).
Proof.
  induction l as [|[p1 q1] l IH]; intros H HL; [exact I|].
  destruct l as [|[p2 q2] l].
  - cbn. destruct HL as [HL|HL]; [discriminate|]. cbn in HL. split; [exact HL|exact I].
  - cbn [app media_chained] in *. destruct H as [H1 H2]. split; [exact H1|].
    apply IH; [exact H2|]. right. destruct HL as [HL|HL]; [discriminate|]. exact HL.
Qed.

Lemma sumR_app a b : sumR (a ++ b) = sumR a + sumR b.
Proof. unfold sumR. induction a; simpl; [ring|]. rewrite IHa. ring. Qed.

(** one in-order append (index = number of surfaces so far >= 1) *)
Lemma add_in_order (l : lensR) (a : aspec) :
  (1 <= List.length (surfs l))%nat ->
  exists l' new post,
    step l (add_op (List.length (surfs l)) a) = Some l' /\
    positions l' = positions l ++
      [if (Z.of_nat (List.length (surfs l)) =? 1)%Z then 0
       else getZ (O:=ROps) (positions l) (Z.of_nat (List.length (surfs l)) - 1) + last_t l] /\
    last_t l' = a_t a /\
    refs l' = refs l ++ [(snd (last (refs l) (0%nat, 0%nat)), post)] /\
    map s_x (surfs l') = map s_x (surfs l) ++ [a_dx a] /\ map s_y (surfs l') = map s_y (surfs l) ++ [a_dy a] /\
    map s_rx (surfs l') = map s_rx (surfs l) ++ [a_rx a] /\ map s_ry (surfs l') = map s_ry (surfs l) ++ [a_ry a] /\
    surfs l' = (if a_stop a then map (fun s => with_stop s false) (surfs l) else surfs l) ++ [new] /\
    s_R new = a_R a /\ s_stop new = a_stop a /\
    s_kind new = (match a_kind a with GEven => GEven | GOther => GOther | _ => GStd end) /\
    waves l' = waves l /\ prims l' = prims l /\ ap l' = ap l.
Proof.
  intros Hn. set (j := List.length (surfs l)) in *.
  cbn [step add_op]. unfold add_surface.
  assert (G1 : ((Z.of_nat j <? 0)%Z || (nsurf l <? Z.of_nat j)%Z) = false).
  { unfold nsurf. fold j. destruct (Z.ltb_spec (Z.of_nat j) 0); [lia|]. destruct (Z.ltb_spec (Z.of_nat j) (Z.of_nat j)); [lia|]. reflexivity. }
  rewrite G1.
  assert (HP : exists p, nth_error (surfs l) (Z.to_nat (Z.of_nat j - 1)) = Some p /\
                         snd (last (refs l) (0%nat, 0%nat)) = s_mpost p).
  { assert (NE : surfs l <> []) by (intros E; unfold j in Hn; rewrite E in Hn; simpl in Hn; lia).
    destruct (exists_last NE) as (l0 & s0 & ES).
    exists s0. unfold j. rewrite ES, app_length. cbn [List.length].
    replace (Z.to_nat (Z.of_nat (List.length l0 + 1) - 1)) with (List.length l0) by lia.
    split.
    - rewrite nth_error_app2 by lia. rewrite Nat.sub_diag. reflexivity.
    - unfold refs. rewrite ES, map_app. cbn [map]. rewrite last_last. reflexivity. }
  destruct HP as (p & HP & HL).
  unfold cfg_material. destruct (Z.eqb_spec (Z.of_nat j) 0) as [E0|E0]; [lia|]. rewrite HP.
  unfold k_c01_cfg_cs. rops. destruct (Z.eqb_spec (Z.of_nat j) 0) as [E0'|_]; [lia|].
  assert (HG : exists g R' k' c', cfg_geometry (O:=ROps) (a_kind a) (a_R a) (a_k a) (a_c a) = (g, R', k', c') /\ R' = a_R a /\
               g = match a_kind a with GEven => GEven | GOther => GOther | _ => GStd end).
  { unfold cfg_geometry. destruct (a_kind a); cbn [isinf_ ROps]; do 4 eexists; repeat split. }
  destruct HG as (g & R' & k' & c' & HG & HR & Hg). rewrite HG.
  set (znew := if (Z.of_nat j =? 1)%Z then 0 else getZ (O:=ROps) (positions l) (Z.of_nat j - 1) + last_t l).
  pose (mk := fun post refl => mkS (O:=ROps) (a_dx a) (a_dy a) znew (a_rx a) (a_ry a) g R' k' c'
                                   (s_mpost p) post (a_stop a) refl false).
  assert (INS : forall post refl,
            insert_at (Z.to_nat (Z.of_nat j)) (mk post refl)
              (if a_stop a then map (fun s => with_stop s false) (surfs l) else surfs l) =
            (if a_stop a then map (fun s => with_stop s false) (surfs l) else surfs l) ++ [mk post refl]).
  { intros post refl. rewrite Nat2Z.id. destruct (a_stop a).
    - replace j with (List.length (map (fun s : surfR => with_stop s false) (surfs l))) by (rewrite map_length; reflexivity).
      apply insert_at_end.
    - apply insert_at_end. }
  assert (FIN : forall post refl mats',
    let new := mk post refl in
    let l' := mkL ((if a_stop a then map (fun s => with_stop s false) (surfs l) else surfs l) ++ [new])
                  mats' (a_t a) (waves l) (prims l) (pickups l) (solves l) (ap l) in
    positions l' = positions l ++ [znew] /\ last_t l' = a_t a /\
    refs l' = refs l ++ [(snd (last (refs l) (0%nat, 0%nat)), post)] /\
    map s_x (surfs l') = map s_x (surfs l) ++ [a_dx a] /\ map s_y (surfs l') = map s_y (surfs l) ++ [a_dy a] /\
    map s_rx (surfs l') = map s_rx (surfs l) ++ [a_rx a] /\ map s_ry (surfs l') = map s_ry (surfs l) ++ [a_ry a] /\
    surfs l' = (if a_stop a then map (fun s => with_stop s false) (surfs l) else surfs l) ++ [new] /\
    s_R new = a_R a /\ s_stop new = a_stop a /\
    s_kind new = (match a_kind a with GEven => GEven | GOther => GOther | _ => GStd end) /\
    waves l' = waves l /\ prims l' = prims l /\ ap l' = ap l).
  { intros post refl mats'. cbn zeta. unfold mk. rewrite <- HL. unfold positions, refs. cbn [surfs last_t waves prims ap].
    destruct (a_stop a); rewrite !map_app, ?map_map;
      cbn [map s_z s_x s_y s_rx s_ry s_mpre s_mpost s_R s_stop s_kind with_stop];
      repeat split; try reflexivity; assumption. }
  pose (mkl := fun post refl mats' =>
    mkL ((if a_stop a then map (fun s => with_stop s false) (surfs l) else surfs l) ++ [mk post refl])
        mats' (a_t a) (waves l) (prims l) (pickups l) (solves l) (ap l)).
  destruct (a_m a) as [| |nn] eqn:EM.
  - exists (mkl (List.length (mats l)) false (mats l ++ [1])), (mk (List.length (mats l)) false), (List.length (mats l)).
    split; [unfold mkl; rewrite <- INS; reflexivity|]. apply FIN.
  - exists (mkl (s_mpost p) true (mats l)), (mk (s_mpost p) true), (s_mpost p).
    split; [unfold mkl; rewrite <- INS; reflexivity|]. apply FIN.
  - exists (mkl (List.length (mats l)) false (mats l ++ [nn])), (mk (List.length (mats l)) false), (List.length (mats l)).
    split; [unfold mkl; rewrite <- INS; reflexivity|]. apply FIN.
Qed.

Lemma getZ_app_last (P : list R) (x : R) : getZ (O:=ROps) (P ++ [x]) (Z.of_nat (List.length P)) = x.
Proof.
  rewrite (getZ_of_nat (O:=ROps) (P ++ [x]) (List.length P) 0) by (rewrite app_length; simpl; lia).
  rewrite app_nth2 by lia. rewrite Nat.sub_diag. reflexivity.
Qed.

(** state reached by an in-order build, as an invariant over the list of calls made so far *)
Definition built (ob : aspec) (specs : list aspec) (l : lensR) : Prop :=
  positions l = vertex_spec (a_t ob) (map a_t specs) /\
  media_chained (refs l) /\
  map s_x (surfs l) = map a_dx (ob :: specs) /\ map s_y (surfs l) = map a_dy (ob :: specs) /\
  map s_rx (surfs l) = map a_rx (ob :: specs) /\ map s_ry (surfs l) = map a_ry (ob :: specs) /\
  List.length (surfs l) = S (List.length specs) /\
  (specs <> [] -> getZ (O:=ROps) (positions l) (Z.of_nat (List.length specs)) + last_t l = sumR (map a_t specs)) /\
  waves l = [] /\ prims l = [].

Theorem build_in_order (ap0 : aptype * R) (ob : aspec) (specs : list aspec) :
  a_m ob <> MMirror ->
  exists l, run (empty_lens (O:=ROps) ap0) (build_ops ob specs) = Some l /\ built ob specs l.
Proof.
  intros Hob. induction specs as [|a specs IH] using rev_ind.
  - (* the object surface alone *)
    unfold build_ops, run, fold_opt. cbn [add_ops_from fold_left obind step add_op].
    unfold add_surface, cfg_material, empty_lens, nsurf, k_c01_cfg_cs, cfg_geometry. cbn [surfs mats last_t positions List.length map].
    rops. cbn.
    destruct (a_m ob) as [| |nn] eqn:EM; [|contradiction|];
      destruct (a_kind ob); cbn;
      (eexists; split; [reflexivity|]); unfold built, positions, refs, vertex_spec; cbn;
      (repeat split; try reflexivity; try (intros H; contradiction)).
  - destruct IH as (l & ER & B).
    destruct B as (BP & BM & BX & BY & BRX & BRY & BL & BS & BW & BPr).
    unfold build_ops in *. rewrite add_ops_from_app. cbn [add_ops_from].
    rewrite app_comm_cons, run_app, ER. cbn [obind].
    destruct (add_in_order l a ltac:(lia)) as (l' & new & post & ES & P1 & P2 & P3 & P4 & P5 & P6 & P7 & P8 & _ & _ & _ & P9 & P10 & _).
    rewrite BL in ES. replace (1 + List.length specs)%nat with (S (List.length specs)) by lia.
    exists l'. split.
    { unfold run, fold_opt. cbn [fold_left obind]. rewrite ES. reflexivity. }
    unfold built. cbn [map]. rewrite !map_app. cbn [map].
    assert (ZN : (if (Z.of_nat (List.length (surfs l)) =? 1)%Z then 0
                  else getZ (O:=ROps) (positions l) (Z.of_nat (List.length (surfs l)) - 1) + last_t l)
                 = 0 + fold_right Rplus 0 (map a_t specs)).
    { rewrite BL. destruct specs as [|s0 specs'].
      - cbn. ring.
      - destruct (Z.eqb_spec (Z.of_nat (S (List.length (s0 :: specs')))) 1) as [E|E]; [cbn [List.length] in E; lia|].
        replace (Z.of_nat (S (List.length (s0 :: specs'))) - 1)%Z with (Z.of_nat (List.length (s0 :: specs'))) by lia.
        rewrite BS by discriminate. unfold sumR. ring. }
    repeat split.
    + rewrite P1, ZN, BP. unfold vertex_spec. rewrite psums_app. reflexivity.
    + rewrite P3. apply media_chained_snoc; [exact BM|]. right. reflexivity.
    + rewrite P4, BX. reflexivity.
    + rewrite P5, BY. reflexivity.
    + rewrite P6, BRX. reflexivity.
    + rewrite P7, BRY. reflexivity.
    + rewrite P8. rewrite app_length. destruct (a_stop a); rewrite ?map_length, BL, app_length; simpl; lia.
    + intros _. rewrite P1, P2. rewrite app_length. cbn [List.length].
      assert (LP : List.length (positions l) = (List.length specs + 1)%nat).
      { unfold positions. rewrite map_length, BL. lia. }
      rewrite <- LP. rewrite getZ_app_last. rewrite ZN. rewrite sumR_app. unfold sumR. cbn. ring.
    + rewrite P9. exact BW.
    + rewrite P10. exact BPr.
Qed.

(** thicknesses read back are the ones given (so "running sum" and "thickness" agree) *)
Corollary build_thicknesses ap0 ob a specs l :
  run (empty_lens (O:=ROps) ap0) (build_ops ob (a :: specs)) = Some l -> built ob (a :: specs) l ->
  thk (positions l) = a_t ob :: removelast (map a_t (a :: specs)).
Proof.
  intros _ (BP & _). rewrite BP. unfold vertex_spec.
  change (map a_t (a :: specs)) with (a_t a :: map a_t specs).
  change (psums 0 (a_t a :: map a_t specs)) with (0 :: psums (0 + a_t a) (map a_t specs)).
  cbn [thk]. f_equal; [ring|].
  change (0 :: psums (0 + a_t a) (map a_t specs)) with (psums 0 (a_t a :: map a_t specs)).
  apply thk_psums.
Qed.

(** non-vacuous: a cemented doublet with a tilted second surface and the stop on surface 2 *)
Example build_ex :
  exists l, run (empty_lens (O:=ROps) (EPDt, 10)) (build_ops
     (mkA GStd 0 0 [] 100 MAir false 0 0 0 0)
     [mkA GStd 50 0 [] 5 (MIdeal 1.5) false 0 0 0 0;
      mkA GEven (-50) (-1) [0.001] 2 (MIdeal 1.6) true 0.1 0 0.01 0;
      mkA GStd (-200) 0 [] 40 MAir false 0 0 0 0;
      mkA GStd 0 0 [] 0 MAir false 0 0 0 0]) = Some l /\
  positions l = [-100; 0; 0 + 5; 0 + 5 + 2; 0 + 5 + 2 + 40].
Proof.
  destruct (build_in_order (EPDt, 10) (mkA GStd 0 0 [] 100 MAir false 0 0 0 0)
     [mkA GStd 50 0 [] 5 (MIdeal 1.5) false 0 0 0 0;
      mkA GEven (-50) (-1) [0.001] 2 (MIdeal 1.6) true 0.1 0 0.01 0;
      mkA GStd (-200) 0 [] 40 MAir false 0 0 0 0;
      mkA GStd 0 0 [] 0 MAir false 0 0 0 0] ltac:(discriminate)) as (l & E & B).
  exists l. split; [exact E|]. destruct B as (BP & _). rewrite BP. reflexivity.
Qed.

(** ** a ready-made surface object (add_surface(new_surface=..., index, thickness)) appended in index order:
    it keeps the vertex the caller gave it, and the next surface made from keywords is placed at that
    vertex plus the thickness stated with the ready-made surface *)
Theorem ready_made_then_keyword (l : lensR) kind R k c z t m stop refl (a : aspec) l1 :
  (1 <= List.length (surfs l))%nat ->
  step l (AddReady (O:=ROps) (Z.of_nat (List.length (surfs l))) kind R k c z t m stop refl) = Some l1 ->
  positions l1 = positions l ++ [z] /\ last_t l1 = t /\
  exists l2, step l1 (add_op (List.length (surfs l1)) a) = Some l2 /\
             positions l2 = positions l ++ [z; z + t].
Proof.
  intros Hn. cbn [step]. unfold add_ready.
  destruct (_ || _); [discriminate|].
  destruct (cfg_material l _ m) as [[[pre post] mats']|]; [|discriminate].
  destruct (cfg_geometry kind R k c) as [[[g R'] k'] c'].
  intros E; injection E as <-.
  assert (P1 : positions (mkL (insert_at (Z.to_nat (Z.of_nat (List.length (surfs l))))
                 (mkS (O:=ROps) (ofZ 0) (ofZ 0) z (ofZ 0) (ofZ 0) g R' k' c' pre post stop refl false)
                 (if stop then map (fun s => with_stop s false) (surfs l) else surfs l))
               mats' t (waves l) (prims l) (pickups l) (solves l) (ap l)) = positions l ++ [z]).
  { unfold positions. cbn [surfs]. rewrite Nat2Z.id. destruct stop.
    - replace (List.length (surfs l)) with (List.length (map (fun s : surfR => with_stop s false) (surfs l))) at 1
        by (rewrite map_length; reflexivity).
      rewrite insert_at_end, map_app, map_map. reflexivity.
    - rewrite insert_at_end, map_app. reflexivity. }
  split; [exact P1|]. split; [reflexivity|].
  set (l1 := mkL _ mats' t _ _ _ _ _) in *.
  assert (L1 : List.length (surfs l1) = S (List.length (surfs l))).
  { assert (LP : List.length (positions l1) = List.length (surfs l1)) by (unfold positions; apply map_length).
    rewrite <- LP, P1, app_length. unfold positions. rewrite map_length. simpl. lia. }
  destruct (add_in_order l1 a ltac:(lia)) as (l2 & new & post2 & ES & Q1 & _).
  exists l2. split; [exact ES|]. rewrite Q1, P1, L1.
  destruct (Z.eqb_spec (Z.of_nat (S (List.length (surfs l)))) 1) as [E1|_]; [lia|].
  replace (Z.of_nat (S (List.length (surfs l))) - 1)%Z with (Z.of_nat (List.length (positions l))) by (unfold positions; rewrite map_length; lia).
  rewrite getZ_app_last. rewrite <- app_assoc. reflexivity.
Qed.

(** * C07 - the built-in scaling operation (model of Optic.scale_system / Optic.set_thickness in
    Model/M_C07.v) IS the specification "every length of the prescription times s".

    Proved for every prescription (lists of any length >= 2: object and image), exact reals:
    - one call of set_thickness(value, k) makes gap k equal to [value], keeps every other gap and
      puts surface 1 at z = 0;
    - the loop of scale_system over all gaps turns the vertex list z into s * z (first surface at
      z = 0, as the library keeps it), also when the object gap is skipped (object at infinity:
      the object entry is then left alone and every other vertex is scaled);
    - radii, decentres, radial apertures and the EPD are multiplied by s:
      [scale_system s p = scaled_presc s p]. *)
From Coq Require Import Reals Lra Lia ZArith List Bool Arith.
From OV Require Import Ops RInst Gen.C07K Model.Trace Model.M_C07.
Import ListNotations.
Local Open Scope R_scope.

Notation nthR l i := (nth i l 0).

Lemma add_from_length k d (l : list R) : length (add_from (O:=ROps) k d l) = length l.
Proof.
  revert k; induction l as [|p l IH]; intros k; [reflexivity|].
  destruct k; cbn [add_from length]; f_equal.
  - apply (IH 0%nat).
  - apply IH.
Qed.

Lemma add_from_nth (l : list R) : forall k d j, (j < length l)%nat ->
  nthR (add_from (O:=ROps) k d l) j = if (k <=? j)%nat then nthR l j + d else nthR l j.
Proof.
  induction l as [|p l IH]; intros k d j Hj; [cbn in Hj; lia|].
  destruct k as [|k], j as [|j]; cbn [add_from nth length] in *.
  - reflexivity.
  - rewrite (IH 0%nat d j) by lia. reflexivity.
  - reflexivity.
  - rewrite (IH k d j) by lia. reflexivity.
Qed.

Lemma map_nth_R (f : R -> R) (l : list R) j : (j < length l)%nat -> nthR (map f l) j = f (nthR l j).
Proof. intros H. rewrite (nth_indep _ 0 (f 0)) by (rewrite map_length; exact H). apply map_nth. Qed.

Lemma map_nth_gen {A} (f : A -> R) (l : list A) j (d : A) : (j < length l)%nat -> nthR (map f l) j = f (nth j l d).
Proof. intros H. rewrite (nth_indep _ 0 (f d)) by (rewrite map_length; exact H). apply map_nth. Qed.

Lemma set_nth0_length (l : list R) x : length (set_nth l 0 x) = length l.
Proof. destruct l; reflexivity. Qed.
Lemma set_nth0_nth (l : list R) x j : (0 < length l)%nat ->
  nthR (set_nth l 0 x) j = if (j =? 0)%nat then x else nthR l j.
Proof. destruct l as [|a l]; [cbn; lia|]. intros _. destruct j; reflexivity. Qed.

(** ** Optic.set_thickness *)
Section SetThickness.
  Variables (pos : list R) (v : R) (k : nat).
  Hypothesis Hk : (S k < length pos)%nat.
  Let new := set_thickness (O:=ROps) pos v k.

  Lemma set_thickness_length : length new = length pos.
  Proof.
    unfold new, set_thickness. rewrite map_length. destruct k.
    - apply set_nth0_length.
    - apply add_from_length.
  Qed.

  (** every entry of the result, as a formula *)
  Lemma set_thickness_nth j : (j < length pos)%nat ->
    nthR new j =
    match k with
    | 0%nat => (if (j =? 0)%nat then nthR pos 1 - v else nthR pos j) - nthR pos 1
    | S _ => (if (S k <=? j)%nat then nthR pos j + (v - nthR pos (S k) + nthR pos k) else nthR pos j) - nthR pos 1
    end.
  Proof.
    intros Hj. unfold new, set_thickness, nthT. rops. destruct k as [|k'].
    - rewrite map_nth_R by (rewrite set_nth0_length; exact Hj).
      rewrite !set_nth0_nth by lia. reflexivity.
    - rewrite map_nth_R by (rewrite add_from_length; exact Hj).
      rewrite !add_from_nth by lia.
      replace (S (S k') <=? 1)%nat with false by (symmetry; apply Nat.leb_gt; lia). reflexivity.
  Qed.

  (** the addressed gap becomes the requested thickness *)
  Theorem set_thickness_sets_gap : nthR new (S k) - nthR new k = v.
  Proof.
    rewrite !set_thickness_nth by lia. destruct k as [|k'].
    - cbn [Nat.eqb]. change (T ROps) with R in *. ring.
    - replace (S (S k') <=? S (S k'))%nat with true by (symmetry; apply Nat.leb_le; lia).
      replace (S (S k') <=? S k')%nat with false by (symmetry; apply Nat.leb_gt; lia).
      change (T ROps) with R in *. ring.
  Qed.

  (** every other gap keeps its thickness *)
  Theorem set_thickness_keeps_gaps j : j <> k -> (S j < length pos)%nat ->
    nthR new (S j) - nthR new j = nthR pos (S j) - nthR pos j.
  Proof.
    intros Hjk Hj. rewrite !set_thickness_nth by lia. destruct k as [|k'].
    - destruct j as [|j']; [lia|]. cbn [Nat.eqb]. change (T ROps) with R in *. ring.
    - destruct (Nat.leb_spec (S (S k')) j) as [H1|H1].
      + replace (S (S k') <=? S j)%nat with true by (symmetry; apply Nat.leb_le; lia).
        change (T ROps) with R in *. ring.
      + replace (S (S k') <=? S j)%nat with false by (symmetry; apply Nat.leb_gt; lia).
        change (T ROps) with R in *. ring.
  Qed.

  (** the first surface is (re)placed at z = 0 *)
  Theorem set_thickness_rebases : nthR new 1 = 0.
  Proof.
    rewrite set_thickness_nth by lia. destruct k as [|k'].
    - cbn [Nat.eqb]. apply Rminus_diag_eq. reflexivity.
    - replace (S (S k') <=? 1)%nat with false by (symmetry; apply Nat.leb_gt; lia).
      apply Rminus_diag_eq. reflexivity.
  Qed.
End SetThickness.

Example set_thickness_hyp_ok : (S 1 < length [(-100)%R; 0%R; 5%R; 60%R])%nat.
Proof. cbn. lia. Qed.

(** ** SurfaceGroup.get_thickness (regenerated kernel) on an in-range index *)
Lemma getZ_nth (l : list R) i : (i < length l)%nat -> getZ (O:=ROps) l (Z.of_nat i) = nthR l i.
Proof.
  intros H.
  assert (E1 : (Z.of_nat i <? 0)%Z = false) by (apply Z.ltb_ge; lia).
  assert (E2 : (Z.of_nat (@length (T ROps) l) <=? Z.of_nat i)%Z = false) by (apply Z.leb_gt; cbn [T ROps]; lia).
  unfold getZ, nthZ. cbv zeta. rewrite !E1. cbv beta iota. rewrite ?E1, E2. cbn [orb].
  rewrite Nat2Z.id. change (@nth_error (T ROps) l i) with (@nth_error R l i).
  rewrite (nth_error_nth' l 0 H). reflexivity.
Qed.

Lemma get_thickness_nth (l : list R) i : (S i < length l)%nat ->
  k_c07_get_thickness ROps (Z.of_nat i) l = nthR l (S i) - nthR l i.
Proof.
  intros H. unfold k_c07_get_thickness. rops.
  replace (Z.of_nat i + 1)%Z with (Z.of_nat (S i)) by lia.
  rewrite !getZ_nth by lia. reflexivity.
Qed.

(** ** the loop of scale_system over the gaps *)
Section Loop.
  Variables (z : list R) (s : R).
  Let n := length z.
  Hypothesis Hn : (2 <= n)%nat.
  Hypothesis Hz1 : nthR z 1 = 0.

  (** vertex list after the gaps 0 .. i-1 have been handled (i >= 1), with [a0] at the object entry *)
  Definition inv (a0 : R) (i : nat) : list R :=
    map (fun j => if (j =? 0)%nat then a0
                  else if (j <=? i)%nat then s * nthR z j else nthR z j + (s - 1) * nthR z i) (seq 0 n).

  Lemma inv_length a0 i : length (inv a0 i) = n.
  Proof. unfold inv. rewrite map_length, seq_length. reflexivity. Qed.

  Lemma inv_nth a0 i j : (j < n)%nat ->
    nthR (inv a0 i) j = if (j =? 0)%nat then a0
                        else if (j <=? i)%nat then s * nthR z j else nthR z j + (s - 1) * nthR z i.
  Proof.
    intros Hj. unfold inv. rewrite (map_nth_gen _ _ _ 0%nat) by (rewrite seq_length; exact Hj).
    rewrite seq_nth by exact Hj. reflexivity.
  Qed.

  Ltac cases :=
    repeat match goal with
           | |- context [(?a <=? ?b)%nat] => destruct (Nat.leb_spec a b)
           | |- context [(?a =? ?b)%nat] => destruct (Nat.eqb_spec a b)
           end; try lia.

  (** the object gap: set_thickness(s * t0, 0) *)
  Lemma step0 : set_thickness (O:=ROps) z ((nthR z 1 - nthR z 0) * s) 0 = inv (s * nthR z 0) 1.
  Proof.
    apply (nth_ext _ _ 0 0).
    - rewrite set_thickness_length by (fold n; lia). rewrite inv_length. reflexivity.
    - intros j Hj. rewrite set_thickness_length in Hj by (fold n; lia). fold n in Hj.
      rewrite set_thickness_nth by (fold n; lia). rewrite inv_nth by exact Hj.
      rewrite Hz1. cases; subst; try (change (T ROps) with R in *; ring).
      + assert (j = 1%nat) by lia. subst j. rewrite Hz1. ring.
  Qed.

  (** an inner gap i >= 1: set_thickness(s * t_i, i) *)
  Lemma step a0 i : (1 <= i)%nat -> (S i < n)%nat ->
    set_thickness (O:=ROps) (inv a0 i) ((nthR z (S i) - nthR z i) * s) i = inv a0 (S i).
  Proof.
    intros Hi HSi.
    assert (Hl : (S i < length (inv a0 i))%nat) by (rewrite inv_length; exact HSi).
    apply (nth_ext _ _ 0 0).
    - rewrite set_thickness_length by exact Hl. rewrite !inv_length. reflexivity.
    - intros j Hj. rewrite set_thickness_length in Hj by exact Hl. rewrite inv_length in Hj.
      rewrite set_thickness_nth by (try exact Hl; rewrite inv_length; exact Hj).
      destruct i as [|i']; [lia|].
      rewrite !inv_nth by lia.
      cases; subst; try rewrite Hz1; try (change (T ROps) with R in *; ring).
      + assert (j = S (S i')) by lia. subst j. ring.
  Qed.

  Definition thick (i : nat) : R := k_c07_get_thickness ROps (Z.of_nat i) z.

  (** the gaps i, i+1, ..., n-2, starting from the state after gap i-1 *)
  Lemma loop a0 : forall m i, (1 <= i)%nat -> (i + m = n - 1)%nat ->
    scale_pos (O:=ROps) s n (map thick (seq i m)) i (inv a0 i) = inv a0 (n - 1).
  Proof.
    induction m as [|m IH]; intros i Hi Him.
    - cbn [seq map scale_pos]. replace i with (n - 1)%nat by lia. reflexivity.
    - cbn [seq map scale_pos]. rops. unfold isinf_. cbn [ROps negb andb].
      replace (i =? n - 1)%nat with false by (symmetry; apply Nat.eqb_neq; lia). cbn [negb andb].
      replace (thick i) with (nthR z (S i) - nthR z i)
        by (unfold thick; rewrite get_thickness_nth by (fold n; lia); reflexivity).
      rewrite (step a0 i Hi) by lia. apply IH; lia.
  Qed.

  Lemma inv_final : inv (s * nthR z 0) (n - 1) = map (Rmult s) z.
  Proof.
    apply (nth_ext _ _ 0 0).
    - rewrite inv_length, map_length. reflexivity.
    - intros j Hj. rewrite inv_length in Hj. rewrite inv_nth by exact Hj.
      rewrite map_nth_R by exact Hj. cases; subst; reflexivity.
  Qed.

  (** finite object distance: every vertex position is multiplied by s *)
  Theorem scale_pos_is_scaling :
    scale_pos (O:=ROps) s n (thicknesses (O:=ROps) z) 0 z = map (Rmult s) z.
  Proof.
    unfold thicknesses. change (@length (T ROps) z) with n. fold thick.
    replace (n - 1)%nat with (S (n - 2)) by lia. cbn [seq map scale_pos].
    rops. unfold isinf_. cbn [ROps negb andb].
    replace (0 =? n - 1)%nat with false by (symmetry; apply Nat.eqb_neq; lia). cbn [negb andb].
    replace (thick 0) with (nthR z 1 - nthR z 0)
      by (unfold thick; rewrite (get_thickness_nth z 0) by (fold n; lia); reflexivity).
    rewrite step0. rewrite (loop (s * nthR z 0) (n - 2) 1) by lia. apply inv_final.
  Qed.

  (** object at infinity (the object gap is skipped by the isinf test): the object entry, whatever
      it is, is left alone and every other vertex position is multiplied by s *)
  Theorem scale_pos_after_object_gap (a0 : R) (j : nat) : (1 <= j < n)%nat ->
    nthR (scale_pos (O:=ROps) s n (map thick (seq 1 (n - 2))) 1 (inv a0 1)) j = s * nthR z j
    /\ nthR (scale_pos (O:=ROps) s n (map thick (seq 1 (n - 2))) 1 (inv a0 1)) 0 = a0.
  Proof.
    intros Hj. rewrite (loop a0 (n - 2) 1) by lia. rewrite !inv_nth by lia. split; cases; reflexivity.
  Qed.
End Loop.

(** the state "after the object gap" of the previous theorem is the untouched vertex list *)
Lemma inv_1_is_start (z : list R) (s : R) : (2 <= length z)%nat -> nthR z 1 = 0 -> inv z s (nthR z 0) 1 = z.
Proof.
  intros Hn Hz1. apply (nth_ext _ _ 0 0).
  - apply inv_length.
  - intros j Hj. rewrite inv_length in Hj. rewrite inv_nth by exact Hj.
    destruct (Nat.eqb_spec j 0); [subst; reflexivity|].
    destruct (Nat.leb_spec j 1).
    + assert (j = 1%nat) by lia. subst j. rewrite Hz1. ring.
    + rewrite Hz1. ring.
Qed.

(** object at infinity, stated on the model's own terms: the loop entered after the (skipped) object gap *)
Theorem scale_pos_infinite_object (z : list R) (s : R) (j : nat) :
  (2 <= length z)%nat -> nthR z 1 = 0 -> (1 <= j < length z)%nat ->
  nthR (scale_pos (O:=ROps) s (length z) (tl (thicknesses (O:=ROps) z)) 1 z) j = s * nthR z j /\
  nthR (scale_pos (O:=ROps) s (length z) (tl (thicknesses (O:=ROps) z)) 1 z) 0 = nthR z 0.
Proof.
  intros Hn Hz1 Hj.
  pose proof (scale_pos_after_object_gap z s Hn Hz1 (nthR z 0) j Hj) as H.
  rewrite inv_1_is_start in H by assumption.
  replace (tl (thicknesses (O:=ROps) z)) with (map (thick z) (seq 1 (length z - 2))); [exact H|].
  unfold thicknesses. change (@length (T ROps) z) with (length z).
  replace (length z - 1)%nat with (S (length z - 2)) by lia. reflexivity.
Qed.

(** ** the whole operation *)
Theorem scale_system_is_scaling (s : R) (p : @presc ROps) :
  (2 <= length (pc_pos p))%nat -> nthR (pc_pos p) 1 = 0 ->
  scale_system (O:=ROps) s p = scaled_presc (O:=ROps) s p.
Proof.
  intros Hn Hz1. unfold scale_system, scaled_presc. f_equal.
  - apply map_ext. intros r. rops. ring.
  - rops. apply scale_pos_is_scaling; assumption.
  - apply map_ext. intros r. rops. ring.
  - apply map_ext. intros r. rops. ring.
  - apply map_ext. intros [[a1 a2]|]; [|reflexivity]. unfold scale_aper, k_c07_ap_scale. rops. f_equal. f_equal; ring.
  - destruct (pc_epd p); rops; [ring|reflexivity].
Qed.

Example scale_system_hyp_ok :
  let p := mkPresc (O:=ROps) [0; 50; -50; 0] [-100; 0; 4; 49] [0; 1/5; 0; 0] [0; -1/10; 0; 0]
                   [None; None; None; None] true 6 in
  (2 <= length (pc_pos p))%nat /\ nthR (pc_pos p) 1 = 0.
Proof. cbn. split; [lia|reflexivity]. Qed.

(** * C07 - the built-in scaling operation (model of Optic.scale_system / Optic.set_thickness in
    Model/M_C07.v) against the specification "every length of the prescription times s".

    Proved for every prescription (lists of any length), exact reals:
    - one call of set_thickness(value, k) makes gap k equal to [value], keeps every other gap and
      puts surface 1 at z = 0 (so the loop of scale_system, which calls it with s * thickness for
      every gap, produces the vertex list with all gaps multiplied by s);
    - the radius, aperture and EPD columns of scale_system are the scaled columns;
    - the decentre columns are returned UNCHANGED: scale_system equals the scaled prescription iff
      they are zero (the refutation for a decentred lens is in Findings/F_C07.v). *)
From Coq Require Import Reals Lra Lia ZArith List Bool Arith.
From OV Require Import Ops RInst Gen.C07K Model.Trace Model.M_C07.
Import ListNotations.
Local Open Scope R_scope.

Notation nthR l i := (nth i l 0).

Lemma add_from_length k d (l : list R) : length (add_from (O:=ROps) k d l) = length l.
Proof.
  revert k; induction l as [|p l IH]; intros k; [reflexivity|].
  destruct k; cbn [add_from length]; f_equal.
  - apply (IH 0%nat).
  - apply IH.
Qed.

Lemma add_from_nth (l : list R) : forall k d j, (j < length l)%nat ->
  nthR (add_from (O:=ROps) k d l) j = if (k <=? j)%nat then nthR l j + d else nthR l j.
Proof.
  induction l as [|p l IH]; intros k d j Hj; [cbn in Hj; lia|].
  destruct k as [|k], j as [|j]; cbn [add_from nth length] in *.
  - reflexivity.
  - rewrite (IH 0%nat d j) by lia. reflexivity.
  - reflexivity.
  - rewrite (IH k d j) by lia. reflexivity.
Qed.

Lemma map_nth_R (f : R -> R) (l : list R) j : (j < length l)%nat -> nthR (map f l) j = f (nthR l j).
Proof. intros H. rewrite (nth_indep _ 0 (f 0)) by (rewrite map_length; exact H). apply map_nth. Qed.

(** ** Optic.set_thickness *)
Section SetThickness.
  Variables (pos : list R) (v : R) (k : nat).
  Hypothesis Hk : (S k < length pos)%nat.
  Let new := set_thickness (O:=ROps) pos v k.
  Let delta := v - nthR pos (S k) + nthR pos k.

  Lemma set_thickness_length : length new = length pos.
  Proof. unfold new, set_thickness. rewrite map_length, add_from_length. reflexivity. Qed.

  Lemma set_thickness_nth j : (j < length pos)%nat ->
    nthR new j = (if (S k <=? j)%nat then nthR pos j + delta else nthR pos j)
                 - (if (S k <=? 1)%nat then nthR pos 1 + delta else nthR pos 1).
  Proof.
    intros Hj. unfold new, set_thickness, nthT. rops.
    rewrite map_nth_R by (rewrite add_from_length; exact Hj).
    rewrite !add_from_nth by lia. reflexivity.
  Qed.

  (** the addressed gap becomes the requested thickness *)
  Theorem set_thickness_sets_gap : nthR new (S k) - nthR new k = v.
  Proof.
    rewrite !set_thickness_nth by lia.
    replace (S k <=? S k)%nat with true by (symmetry; apply Nat.leb_le; lia).
    replace (S k <=? k)%nat with false by (symmetry; apply Nat.leb_gt; lia).
    unfold delta. ring.
  Qed.

  (** every other gap keeps its thickness *)
  Theorem set_thickness_keeps_gaps j : j <> k -> (S j < length pos)%nat ->
    nthR new (S j) - nthR new j = nthR pos (S j) - nthR pos j.
  Proof.
    intros Hjk Hj. rewrite !set_thickness_nth by lia.
    destruct (Nat.leb_spec (S k) j) as [H1|H1].
    - replace (S k <=? S j)%nat with true by (symmetry; apply Nat.leb_le; lia). ring.
    - replace (S k <=? S j)%nat with false by (symmetry; apply Nat.leb_gt; lia). ring.
  Qed.

  (** the first surface is (re)placed at z = 0 *)
  Theorem set_thickness_rebases : nthR new 1 = 0.
  Proof. rewrite set_thickness_nth by lia. apply Rminus_diag_eq. reflexivity. Qed.
End SetThickness.

Example set_thickness_hyp_ok : (S 1 < length [(-100)%R; 0%R; 5%R; 60%R])%nat.
Proof. cbn. lia. Qed.

(** ** the other columns of scale_system *)
Theorem scale_system_radii s (p : @presc ROps) : pc_R (scale_system (O:=ROps) s p) = map (fun r => r * s) (pc_R p).
Proof. reflexivity. Qed.

Theorem scale_system_apertures s (p : @presc ROps) :
  pc_ap (scale_system (O:=ROps) s p) = map (fun a => match a with Some (a1, a2) => Some (a1 * s, a2 * s) | None => None end) (pc_ap p).
Proof. reflexivity. Qed.

Theorem scale_system_aperture_value s (p : @presc ROps) :
  pc_apval (scale_system (O:=ROps) s p) = if pc_epd p then pc_apval p * s else pc_apval p.
Proof. reflexivity. Qed.

(** the decentres are returned unchanged, whatever s ... *)
Theorem scale_system_keeps_decentres s (p : @presc ROps) :
  pc_dx (scale_system (O:=ROps) s p) = pc_dx p /\ pc_dy (scale_system (O:=ROps) s p) = pc_dy p.
Proof. split; reflexivity. Qed.

(** ... so on these columns the operation meets the specification exactly when they vanish (or s = 1) *)
Theorem scale_system_decentres_partial s (p : @presc ROps) :
  Forall (fun d => d = 0) (pc_dx p) -> Forall (fun d => d = 0) (pc_dy p) ->
  pc_dx (scale_system (O:=ROps) s p) = pc_dx (scaled_presc (O:=ROps) s p) /\ pc_dy (scale_system (O:=ROps) s p) = pc_dy (scaled_presc (O:=ROps) s p).
Proof.
  intros Hx Hy. cbn [scale_system scaled_presc pc_dx pc_dy]. split.
  - induction Hx as [|d l Hd Hl IH]; [reflexivity|]. cbn [map]. rewrite <- IH, Hd. rops. f_equal. ring.
  - induction Hy as [|d l Hd Hl IH]; [reflexivity|]. cbn [map]. rewrite <- IH, Hd. rops. f_equal. ring.
Qed.

Theorem scale_system_columns_meet_spec s (p : @presc ROps) :
  pc_R (scale_system (O:=ROps) s p) = pc_R (scaled_presc (O:=ROps) s p) /\
  pc_ap (scale_system (O:=ROps) s p) = pc_ap (scaled_presc (O:=ROps) s p) /\
  pc_apval (scale_system (O:=ROps) s p) = pc_apval (scaled_presc (O:=ROps) s p).
Proof.
  cbn [scale_system scaled_presc pc_R pc_ap pc_apval]. rops. repeat split.
  - apply map_ext. intros r. unfold Rltb. rops. ring.
  - apply map_ext. intros [[a1 a2]|]; [|reflexivity]. unfold scale_aper, k_c07_ap_scale. rops. f_equal. f_equal; ring.
  - destruct (pc_epd p); [ring|reflexivity].
Qed.

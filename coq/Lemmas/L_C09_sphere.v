(** Theorems about the kernels regenerated from Wavefront._get_reference_sphere, _opd_image_to_xp and
    _get_path_length (Gen/Wavefront.v): the returned distance puts the ray on the chief-ray reference
    sphere through the axial exit-pupil point; which intersection is chosen; the chief ray itself. *)
From Coq Require Import Reals Lra Lia ZArith List Psatz.
From OV Require Import Ops RInst Num.OpsC09 Gen.Wavefront Spec.S_C09.
Import ListNotations.
Local Open Scope R_scope.

(** equations between kernel results are at type [T ROps]; make them equations over [R] *)
Ltac Req := match goal with |- @eq _ ?a ?b => change (@eq R a b) end.

Lemma sq_nonneg (x : R) : 0 <= x * x.
Proof. pose proof (Rle_0_sqr x) as H; unfold Rsqr in H; exact H. Qed.

(** ** reading the last row of a record column *)
Lemma nthZ_last {A} (l : list A) (x : A) : nthZ (l ++ [x]) (-1) = Some x.
Proof.
  unfold nthZ. rewrite app_length. cbn [length].
  replace (Z.of_nat (length l + 1)) with (Z.of_nat (length l) + 1)%Z by lia.
  cbn [Z.ltb]. replace (- 1 <? 0)%Z with true by reflexivity.
  replace (Z.of_nat (length l) + 1 + -1)%Z with (Z.of_nat (length l)) by lia.
  replace (Z.of_nat (length l) <? 0)%Z with false by (symmetry; apply Z.ltb_ge; lia).
  replace (Z.of_nat (length l) + 1 <=? Z.of_nat (length l))%Z with false by (symmetry; apply Z.leb_gt; lia).
  cbn [orb]. rewrite Nat2Z.id. rewrite nth_error_app2 by lia. rewrite Nat.sub_diag. reflexivity.
Qed.

Lemma getZ_last (l : list R) (x : R) : getZ (O:=ROps) (l ++ [x]) (-1) = x.
Proof. unfold getZ. rewrite nthZ_last. reflexivity. Qed.

Lemma nonempty_snoc {A} (l : list A) : l <> [] -> exists l' x, l = l' ++ [x].
Proof. intros H. destruct (exists_last H) as [l' [x E]]. eauto. Qed.

Lemma getZ_m1_map {A} (f : A -> R) (a : A) (l : list A) :
  getZ (O:=ROps) (map f (a :: l)) (-1) = f (last (a :: l) a).
Proof.
  destruct (nonempty_snoc (a :: l)) as [l' [x E]]; [discriminate|].
  rewrite E, map_app. cbn [map]. rewrite getZ_last, last_last. reflexivity.
Qed.

(** ** the quadratic of a line against a sphere *)
Section Quadratic.
  Variables a b c : R.
  Let d := b * b - 4 * a * c.

  Lemma quad_root s : a <> 0 -> 0 <= d -> (s = 1 \/ s = -1) ->
    let t := (- b + s * sqrt d) / (2 * a) in a * t * t + b * t + c = 0.
  Proof.
    intros Ha Hd Hs t. unfold t.
    assert (Hq : sqrt d * sqrt d = b * b - 4 * a * c) by (rewrite sqrt_sqrt by exact Hd; reflexivity).
    assert (Hs2 : s * s = 1) by (destruct Hs; subst; ring).
    apply Rmult_eq_reg_l with (4 * a); [|lra].
    replace (4 * a * 0) with 0 by ring.
    transitivity (4 * a * c - b * b + (s * s) * (sqrt d * sqrt d)); [field; exact Ha|].
    rewrite Hs2, Hq. ring.
  Qed.

  (** every real root is one of the two formulas *)
  Lemma quad_roots_only t : a <> 0 -> a * t * t + b * t + c = 0 ->
    0 <= d /\ (t = (- b + sqrt d) / (2 * a) \/ t = (- b - sqrt d) / (2 * a)).
  Proof.
    intros Ha Ht.
    assert (Hc : c = - (a * t * t + b * t)) by lra.
    assert (Hsq : (2 * a * t + b) * (2 * a * t + b) = d) by (unfold d; rewrite Hc; ring).
    assert (Hd : 0 <= d) by (rewrite <- Hsq; pose proof (Rle_0_sqr (2 * a * t + b)) as Hq; unfold Rsqr in Hq; exact Hq).
    split; [exact Hd|].
    assert (Habs : Rabs (2 * a * t + b) = sqrt d).
    { rewrite <- Hsq. symmetry. exact (sqrt_Rsqr_abs (2 * a * t + b)). }
    destruct (Rle_dec 0 (2 * a * t + b)) as [Hp|Hn].
    - left. rewrite Rabs_right in Habs by lra. rewrite <- Habs. field; exact Ha.
    - right. rewrite Rabs_left in Habs by lra. rewrite <- Habs. field; exact Ha.
  Qed.
End Quadratic.

(** ** _get_reference_sphere *)
Theorem ref_sphere_through_pupil :
  forall (pupil_z : R) (xs ys zs : list R) (xc yc zc : R) (n : Z) (res : R * R * R * R),
    k_wf_ref_sphere ROps pupil_z (xs ++ [xc]) n (ys ++ [yc]) (zs ++ [zc]) = Some res ->
    n = 1%Z /\
    fst (fst (fst res)) = xc /\ snd (fst (fst res)) = yc /\ snd (fst res) = zc /\
    0 <= snd res /\
    snd res * snd res = ref_radius_sq (xc, yc, zc) pupil_z /\
    on_sphere (xc, yc, zc) (snd res * snd res) (0, 0, pupil_z).
Proof.
  intros pupil_z xs ys zs xc yc zc n res. unfold k_wf_ref_sphere.
  destruct (n =? 1)%Z eqn:En; cbn [negb]; [|discriminate].
  rewrite !getZ_last. rops. intros H. injection H as <-. cbn [fst snd].
  apply Z.eqb_eq in En.
  assert (Hnn : 0 <= xc * xc + yc * yc + (zc - pupil_z) * (zc - pupil_z)).
  { pose proof (sq_nonneg xc); pose proof (sq_nonneg yc); pose proof (sq_nonneg (zc - pupil_z)); lra. }
  repeat split; try assumption; try reflexivity.
  - apply sqrt_pos.
  - rewrite sqrt_sqrt by exact Hnn.
    unfold ref_radius_sq, sqdist, dot3, sub3, px, py, pz. cbn [fst snd]. ring.
  - unfold on_sphere. rewrite sqrt_sqrt by exact Hnn.
    unfold sqdist, dot3, sub3, px, py, pz. cbn [fst snd]. ring.
Qed.

(** the chief ray must have been traced alone *)
Theorem ref_sphere_needs_single_ray :
  forall (pupil_z : R) (xs ys zs : list R) (n : Z),
    n <> 1%Z -> k_wf_ref_sphere ROps pupil_z xs n ys zs = None.
Proof.
  intros. unfold k_wf_ref_sphere. destruct (n =? 1)%Z eqn:E; [apply Z.eqb_eq in E; contradiction|reflexivity].
Qed.

(** ** _opd_image_to_xp *)
Section ImageToXp.
  Variables xc yc zc Rr xr yr zr L M N : R.
  Variables xs ys zs Ls Ms Ns : list R.
  Let a := L * L + M * M + N * N.
  Let b := - (2 * (L * (xr - xc) + M * (yr - yc) + N * (zr - zc))).
  Let c := (xr - xc) * (xr - xc) + (yr - yc) * (yr - yc) + (zr - zc) * (zr - zc) - Rr * Rr.
  Let d := b * b - 4 * a * c.
  Let t1 := (- b - sqrt d) / (2 * a).
  Let t2 := (- b + sqrt d) / (2 * a).
  Definition t_xp := k_wf_image_to_xp ROps xc yc zc Rr (xs ++ [xr]) (ys ++ [yr]) (zs ++ [zr])
                                      (Ls ++ [L]) (Ms ++ [M]) (Ns ++ [N]).

  Lemma t_xp_unfold : t_xp = if Rlt_dec t1 0 then t2 else t1.
  Proof.
    unfold t_xp, k_wf_image_to_xp. rewrite !getZ_last. rops.
    replace (- L * - L + - M * - M + - N * - N) with a by (unfold a; ring).
    replace (2 * - L * (xr - xc) + 2 * - M * (yr - yc) + 2 * - N * (zr - zc)) with b by (unfold b; ring).
    replace (xr * xr + yr * yr + zr * zr - 2 * xr * xc + xc * xc - 2 * yr * yc + yc * yc - 2 * zr * zc + zc * zc - Rr * Rr)
      with c by (unfold c; ring).
    fold d. unfold Rltb. fold t1. fold t2.
    replace ((- b - sqrt d) / (2 * a)) with t1 by reflexivity.
    destruct (Rlt_dec t1 0); reflexivity.
  Qed.

  (** squared distance to the sphere centre along the reversed ray *)
  Lemma along_ray t :
    sqdist (back (xr, yr, zr) (L, M, N) t) (xc, yc, zc) - Rr * Rr = a * t * t + b * t + c.
  Proof. unfold sqdist, back, dot3, sub3, px, py, pz, a, b, c. cbn [fst snd]. ring. Qed.

  (** the returned distance puts the point on the reference sphere *)
  Theorem image_to_xp_on_sphere :
    a <> 0 -> 0 <= d ->
    on_sphere (xc, yc, zc) (Rr * Rr) (back (xr, yr, zr) (L, M, N) t_xp).
  Proof.
    intros Ha Hd. unfold on_sphere.
    apply Rminus_diag_uniq. rewrite along_ray, t_xp_unfold.
    destruct (Rlt_dec t1 0).
    - unfold t2. replace (- b + sqrt d) with (- b + 1 * sqrt d) by ring.
      apply quad_root; [exact Ha|exact Hd|left; reflexivity].
    - unfold t1. replace (- b - sqrt d) with (- b + -1 * sqrt d) by ring.
      apply quad_root; [exact Ha|exact Hd|right; reflexivity].
  Qed.

  Lemma t1_le_t2 : 0 < a -> 0 <= d -> t1 <= t2.
  Proof.
    intros Ha Hd. unfold t1, t2. pose proof (sqrt_pos d) as Hs.
    apply Rmult_le_reg_r with (2 * a); [lra|].
    unfold Rdiv. rewrite !Rmult_assoc, !Rinv_l by lra. lra.
  Qed.

  (** which intersection: the smallest non-negative distance back along the ray when there is one *)
  Theorem image_to_xp_branch :
    0 < a -> 0 <= d ->
    (0 <= t2 -> 0 <= t_xp /\
                forall t, 0 <= t -> on_sphere (xc, yc, zc) (Rr * Rr) (back (xr, yr, zr) (L, M, N) t) -> t_xp <= t) /\
    (t2 < 0 -> t_xp = t2).
  Proof.
    intros Ha Hd. pose proof (t1_le_t2 Ha Hd) as H12. rewrite t_xp_unfold.
    split.
    - intros H2. destruct (Rlt_dec t1 0) as [H1|H1].
      + split; [exact H2|]. intros t Ht Hon. unfold on_sphere in Hon.
        assert (Hq : a * t * t + b * t + c = 0) by (rewrite <- along_ray, Hon; ring).
        destruct (quad_roots_only a b c t) as [_ [E|E]]; [lra|exact Hq| |].
        * fold d in E. fold t2 in E. lra.
        * fold d in E. fold t1 in E. lra.
      + split; [lra|]. intros t Ht Hon. unfold on_sphere in Hon.
        assert (Hq : a * t * t + b * t + c = 0) by (rewrite <- along_ray, Hon; ring).
        destruct (quad_roots_only a b c t) as [_ [E|E]]; [lra|exact Hq| |].
        * fold d in E. fold t2 in E. lra.
        * fold d in E. fold t1 in E. lra.
    - intros H2. destruct (Rlt_dec t1 0); [reflexivity|lra].
  Qed.

  (** an image point inside the reference sphere: the intersection behind the image point (towards where
      the ray came from), whatever side of the image surface the exit pupil lies on *)
  Theorem image_to_xp_inside :
    0 < a -> c < 0 -> 0 < t_xp /\ t_xp = t2.
  Proof.
    intros Ha Hc.
    assert (Hd : b * b < d) by (unfold d; nra).
    assert (Hd0 : 0 <= d) by nra.
    assert (Hs : Rabs b < sqrt d).
    { rewrite <- sqrt_Rsqr_abs. unfold Rsqr. apply sqrt_lt_1_alt. split; [|exact Hd]. pose proof (Rle_0_sqr b) as Hq; unfold Rsqr in Hq; exact Hq. }
    assert (Hb : - sqrt d < b < sqrt d) by (apply Rabs_def2 in Hs; lra).
    rewrite t_xp_unfold.
    assert (H1 : t1 < 0).
    { unfold t1. apply Rmult_lt_reg_r with (2 * a); [lra|].
      unfold Rdiv. rewrite Rmult_assoc, Rinv_l by lra. lra. }
    assert (H2 : 0 < t2).
    { unfold t2. apply Rmult_lt_reg_r with (2 * a); [lra|].
      unfold Rdiv. rewrite Rmult_assoc, Rinv_l by lra. lra. }
    destruct (Rlt_dec t1 0); [split; [exact H2|reflexivity]|lra].
  Qed.
End ImageToXp.

(** for the chief ray itself (image point = sphere centre, unit direction) the distance is the radius *)
Theorem image_to_xp_chief :
  forall xc yc zc Rr L M N xs ys zs Ls Ms Ns,
    L * L + M * M + N * N = 1 -> 0 <= Rr ->
    t_xp xc yc zc Rr xc yc zc L M N xs ys zs Ls Ms Ns = Rr.
Proof.
  intros xc yc zc Rr L M N xs ys zs Ls Ms Ns Hu HR.
  rewrite t_xp_unfold. rewrite Hu.
  replace (- (2 * (L * (xc - xc) + M * (yc - yc) + N * (zc - zc)))) with 0 by ring.
  replace ((xc - xc) * (xc - xc) + (yc - yc) * (yc - yc) + (zc - zc) * (zc - zc) - Rr * Rr) with (- (Rr * Rr)) by ring.
  replace (0 * 0 - 4 * 1 * - (Rr * Rr)) with ((2 * Rr) * (2 * Rr)) by ring.
  rewrite sqrt_square by lra.
  match goal with |- (if Rlt_dec ?x 0 then ?u else ?v) = _ => change (@eq R (if Rlt_dec x 0 then u else v) Rr); destruct (Rlt_dec x 0) as [H|H] end; [field|].
  assert (Rr = 0) by (unfold Rdiv in H; lra). subst. field.
Qed.

(** ** _get_path_length: recorded optical path to the image minus the optical length of the segment
    sphere -> image point in the image-space medium *)
Theorem path_length_unfold :
  forall xc yc zc Rr opd n xr yr zr L M N opds xs ys zs Ls Ms Ns,
    k_wf_get_path_length ROps xc yc zc Rr (opds ++ [opd]) n (xs ++ [xr]) (ys ++ [yr]) (zs ++ [zr])
                     (Ls ++ [L]) (Ms ++ [M]) (Ns ++ [N])
    = opd - Rabs n * t_xp xc yc zc Rr xr yr zr L M N xs ys zs Ls Ms Ns.
Proof. intros. unfold k_wf_get_path_length, t_xp. rewrite getZ_last. rops. reflexivity. Qed.

(** the result is the optical path to the sphere in an image space of index |n| *)
Theorem path_length_is_path_to_sphere :
  forall xc yc zc Rr opd n xr yr zr L M N opds xs ys zs Ls Ms Ns,
    k_wf_get_path_length ROps xc yc zc Rr (opds ++ [opd]) n (xs ++ [xr]) (ys ++ [yr]) (zs ++ [zr])
                     (Ls ++ [L]) (Ms ++ [M]) (Ns ++ [N])
    = path_to_sphere 0 opd (Rabs n) (t_xp xc yc zc Rr xr yr zr L M N xs ys zs Ls Ms Ns).
Proof. intros. rewrite path_length_unfold. unfold path_to_sphere. Req. ring. Qed.

(** hypotheses are satisfiable: a ray hitting the image plane at (1,0,0), centre at the origin, sphere
    of radius 5, direction +z: the intersection behind the image point is at distance sqrt 24 *)
Example image_to_xp_example :
  let t := t_xp 0 0 0 5 1 0 0 0 0 1 [] [] [] [] [] [] in
  0 < t /\ on_sphere (0, 0, 0) 25 (back (1, 0, 0) (0, 0, 1) t).
Proof.
  cbv zeta. split.
  - apply (image_to_xp_inside 0 0 0 5 1 0 0 0 0 1); lra.
  - replace 25 with (5 * 5) by ring.
    apply (image_to_xp_on_sphere 0 0 0 5 1 0 0 0 0 1); lra.
Qed.

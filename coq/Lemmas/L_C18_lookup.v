(** C18: catalogue lookup.  The row-by-row Levenshtein model computes the textbook recursion
    (on reversed prefixes); distance 0 <-> equal strings; a query that equals a catalogue name
    selects a row with distance 0, i.e. a row whose (lower-cased) name or category equals the
    (lower-cased) query -- for a LITERAL substring filter. *)
From Coq Require Import Lia ZArith List Bool Permutation Sorted.
From OV Require Import Model.M_C18.
Import ListNotations.
Local Open Scope Z_scope.

(** textbook recursion, on the strings read backwards (a prefix of s is a suffix of rev s) *)
Fixpoint levS (rs : str) : str -> Z :=
  match rs with
  | [] => fun rt => Z.of_nat (length rt)
  | a :: rs' =>
      fix inner (rt : str) : Z :=
        match rt with
        | [] => Z.of_nat (length (a :: rs'))
        | b :: rt' =>
            Z.min (Z.min (levS rs' (b :: rt') + 1) (inner rt' + 1))
                  (levS rs' rt' + (if a =? b then 0 else 1))
        end
  end.

Lemma levS_nil_r : forall rs, levS rs [] = Z.of_nat (length rs).
Proof. destruct rs; reflexivity. Qed.
Lemma levS_cons : forall a rs b rt,
  levS (a :: rs) (b :: rt) =
  Z.min (Z.min (levS rs (b :: rt) + 1) (levS (a :: rs) rt + 1)) (levS rs rt + (if a =? b then 0 else 1)).
Proof. reflexivity. Qed.

Lemma levS_nonneg : forall rs rt, 0 <= levS rs rt.
Proof.
  induction rs as [|a rs IH]; intros rt.
  - cbn. lia.
  - induction rt as [|b rt IHt].
    + rewrite levS_nil_r. lia.
    + rewrite levS_cons. pose proof (IH (b :: rt)). pose proof (IH rt).
      destruct (a =? b); lia.
Qed.

Theorem levS_zero_iff : forall rs rt, levS rs rt = 0 <-> rs = rt.
Proof.
  induction rs as [|a rs IH]; intros rt.
  - cbn. destruct rt; cbn [length]; split; intros H; try reflexivity; try discriminate; lia.
  - induction rt as [|b rt IHt].
    + rewrite levS_nil_r. cbn [length]. split; intros H; [lia|discriminate].
    + rewrite levS_cons.
      pose proof (levS_nonneg rs (b :: rt)). pose proof (levS_nonneg (a :: rs) rt).
      pose proof (levS_nonneg rs rt).
      destruct (Z.eqb_spec a b) as [E|NE].
      * subst b. split; intros Hz.
        -- assert (levS rs rt = 0) by lia. f_equal. apply IH. assumption.
        -- inversion Hz; subst. assert (levS rt rt = 0) by (apply IH; reflexivity). lia.
      * split; intros Hz; [lia|]. inversion Hz; subst. contradiction.
Qed.

(** reversed prefixes of t beyond rt0:  b1::rt0, b2::b1::rt0, ... *)
Fixpoint ext (rt0 : str) (t : str) : list str :=
  match t with [] => [] | b :: t' => (b :: rt0) :: ext (b :: rt0) t' end.

Lemma lev_row_spec : forall a rs t rt0 prev left diag,
  prev = map (levS rs) (ext rt0 t) ->
  left = levS (a :: rs) rt0 -> diag = levS rs rt0 ->
  lev_row a t prev left diag = map (levS (a :: rs)) (ext rt0 t).
Proof.
  intros a rs. induction t as [|b t IH]; intros rt0 prev left diag Hp Hl Hd.
  - reflexivity.
  - subst prev. cbn [ext map lev_row]. f_equal.
    + rewrite levS_cons. subst. reflexivity.
    + apply IH; [reflexivity| |reflexivity]. rewrite levS_cons. subst. reflexivity.
Qed.

Lemma row0_spec : forall t rt0,
  row0_from (Z.of_nat (length rt0)) t = levS [] rt0 :: map (levS []) (ext rt0 t).
Proof.
  induction t as [|b t IH]; intros rt0.
  - reflexivity.
  - cbn [row0_from ext map]. f_equal.
    replace (Z.of_nat (length rt0) + 1) with (Z.of_nat (length (b :: rt0))) by (cbn [length]; lia).
    apply IH.
Qed.

Definition rowS (rs : str) (t : str) : list Z := levS rs [] :: map (levS rs) (ext [] t).

Lemma lev_rows_spec : forall s t rs,
  lev_rows s t (rowS rs t) (Z.of_nat (length rs) + 1) = rowS (rev s ++ rs) t.
Proof.
  induction s as [|a s IH]; intros t rs.
  - reflexivity.
  - cbn [lev_rows rev]. rewrite <- app_assoc. cbn [app].
    replace (Z.of_nat (length rs) + 1 + 1) with (Z.of_nat (length (a :: rs)) + 1) by (cbn [length]; lia).
    rewrite <- IH. f_equal. unfold rowS at 1 2. cbn [tl hd].
    rewrite (lev_row_spec a rs t [] (map (levS rs) (ext [] t)) (Z.of_nat (length rs) + 1) (levS rs []));
      [ | reflexivity | rewrite levS_nil_r; cbn [length]; lia | reflexivity ].
    unfold rowS. f_equal. rewrite levS_nil_r. cbn [length]. lia.
Qed.

Lemma last_ext : forall (f : str -> Z) t rt0 d,
  last (f rt0 :: map f (ext rt0 t)) d = f (rev t ++ rt0).
Proof.
  intros f. induction t as [|b t IH]; intros rt0 d.
  - reflexivity.
  - cbn [ext map rev]. rewrite <- app_assoc. cbn [app].
    change (last (f rt0 :: f (b :: rt0) :: map f (ext (b :: rt0) t)) d)
      with (last (f (b :: rt0) :: map f (ext (b :: rt0) t)) d).
    apply IH.
Qed.

(** the model of `_levenshtein_distance` computes the textbook distance *)
Theorem lev_is_levS : forall s t, lev s t = levS (rev s) (rev t).
Proof.
  intros s t. unfold lev.
  pose proof (row0_spec t []) as H0. cbn [length] in H0. change (Z.of_nat 0) with 0 in H0.
  rewrite H0. change (levS [] [] :: map (levS []) (ext [] t)) with (rowS [] t).
  change 1 with (Z.of_nat (length (@nil Z)) + 1).
  rewrite lev_rows_spec. rewrite app_nil_r. unfold rowS.
  rewrite last_ext. rewrite app_nil_r. reflexivity.
Qed.

Theorem levenshtein_zero_iff_eq : forall s t : str, lev s t = 0 <-> s = t.
Proof.
  intros s t. rewrite lev_is_levS, levS_zero_iff. split; intros H.
  - rewrite <- (rev_involutive s), <- (rev_involutive t), H. reflexivity.
  - rewrite H. reflexivity.
Qed.
Lemma lev_nonneg : forall s t, 0 <= lev s t.
Proof. intros. rewrite lev_is_levS. apply levS_nonneg. Qed.

(** ** literal substring *)
Lemma prefixb_refl : forall s, prefixb s s = true.
Proof. induction s as [|a s IH]; [reflexivity|]. cbn. rewrite Z.eqb_refl, IH. reflexivity. Qed.
Lemma substrb_refl : forall s, substrb s s = true.
Proof. destruct s; cbn [substrb]; rewrite prefixb_refl; reflexivity. Qed.

(** ** selection *)
Lemma argmin_spec : forall (f : row -> Z) l best,
  In (argmin f best l) (best :: l) /\ f (argmin f best l) <= f best /\
  (forall r, In r l -> f (argmin f best l) <= f r).
Proof.
  intros f. induction l as [|r l IH]; intros best.
  - cbn. repeat split; [left; reflexivity | lia | intros r []].
  - cbn [argmin]. destruct (Z.ltb_spec (f r) (f best)) as [Hlt|Hge].
    + destruct (IH r) as (Hin & Hle & Hall). repeat split.
      * destruct Hin as [E|Hin]; [right; left; exact E | right; right; exact Hin].
      * lia.
      * intros r' [E|Hr']; [subst; exact Hle | apply Hall; exact Hr'].
    + destruct (IH best) as (Hin & Hle & Hall). repeat split.
      * destruct Hin as [E|Hin]; [left; exact E | right; right; exact Hin].
      * exact Hle.
      * intros r' [E|Hr']; [subst; lia | apply Hall; exact Hr'].
Qed.

Lemma score_zero : forall q r, score q r = 0 -> r_cat r = q \/ r_name r = q.
Proof.
  intros q r H. unfold score in H.
  pose proof (lev_nonneg q (r_cat r)). pose proof (lev_nonneg q (r_name r)).
  destruct (Z.min_spec (lev q (r_cat r)) (lev q (r_name r))) as [[_ E]|[_ E]]; rewrite E in H;
    apply levenshtein_zero_iff_eq in H; [left | right]; symmetry; exact H.
Qed.
Lemma score_exact : forall q r, r_cat r = q \/ r_name r = q -> score q r = 0.
Proof.
  intros q r H. unfold score.
  pose proof (lev_nonneg q (r_cat r)). pose proof (lev_nonneg q (r_name r)).
  destruct H as [H|H]; rewrite H.
  - assert (lev q q = 0) by (apply levenshtein_zero_iff_eq; reflexivity). lia.
  - assert (lev q q = 0) by (apply levenshtein_zero_iff_eq; reflexivity). lia.
Qed.
Lemma score_nonneg : forall q r, 0 <= score q r.
Proof. intros. unfold score. pose proof (lev_nonneg q (r_cat r)). pose proof (lev_nonneg q (r_name r)). lia. Qed.

Lemma exact_is_candidate : forall q oref rows r,
  In r rows -> (r_cat r = q \/ r_name r = q) -> ref_hit oref r = true -> In r (candidates q oref rows).
Proof.
  intros q oref rows r Hin Hq Hr. unfold candidates. apply filter_In. split; [exact Hin|].
  rewrite Hr, andb_true_r. unfold name_hit.
  destruct Hq as [E|E]; rewrite E, substrb_refl; [reflexivity | apply orb_true_r].
Qed.

(** PARTIAL w.r.t. the property: strings are the lower-cased ones (case collisions, D14b) and the
    substring filter is literal (the implementation's is a regular expression, D14). *)
Theorem exact_lookup_partial : forall (rows : list row) (q : str) (oref : option str) (r : row),
  In r rows -> (r_cat r = q \/ r_name r = q) -> ref_hit oref r = true ->
  exists r', lookup q oref rows = Some r' /\ In r' rows /\ ref_hit oref r' = true /\
             score q r' = 0 /\ (r_cat r' = q \/ r_name r' = q).
Proof.
  intros rows q oref r Hin Hq Hr.
  pose proof (exact_is_candidate q oref rows r Hin Hq Hr) as Hc.
  unfold lookup. destruct (candidates q oref rows) as [|c0 cs] eqn:E; [contradiction|].
  destruct (argmin_spec (score q) cs c0) as (Hin' & Hle & Hall).
  set (b := argmin (score q) c0 cs) in *.
  assert (Hb : In b (candidates q oref rows)) by (rewrite E; exact Hin').
  unfold candidates in Hb. apply filter_In in Hb. destruct Hb as [Hbr Hbf].
  apply andb_true_iff in Hbf. destruct Hbf as [_ Hbref].
  assert (Hs : score q b = 0).
  { pose proof (score_nonneg q b). pose proof (score_exact q r Hq).
    destruct Hc as [Ec|Hc]; [subst c0; lia | specialize (Hall r Hc); lia]. }
  exists b. repeat split; try assumption. apply score_zero; exact Hs.
Qed.

(** the same for ANY sort the implementation may use (pandas' default sort is not stable):
    whatever ascending arrangement of the candidates, its first row has distance 0 *)
Theorem exact_lookup_any_sort_partial : forall (rows sorted : list row) (q : str) (oref : option str) (r : row),
  In r rows -> (r_cat r = q \/ r_name r = q) -> ref_hit oref r = true ->
  Permutation sorted (candidates q oref rows) ->
  StronglySorted (fun a b => score q a <= score q b) sorted ->
  exists r', hd_error sorted = Some r' /\ In r' rows /\ score q r' = 0 /\ (r_cat r' = q \/ r_name r' = q).
Proof.
  intros rows sorted q oref r Hin Hq Hr Hperm Hsort.
  pose proof (exact_is_candidate q oref rows r Hin Hq Hr) as Hc.
  assert (Hrs : In r sorted) by (apply (Permutation_in _ (Permutation_sym Hperm)); exact Hc).
  destruct sorted as [|b tl]; [contradiction|].
  exists b. split; [reflexivity|].
  assert (Hb : In b (candidates q oref rows)) by (apply (Permutation_in _ Hperm); left; reflexivity).
  apply filter_In in Hb. destruct Hb as [Hbr _].
  assert (Hs : score q b = 0).
  { pose proof (score_nonneg q b). pose proof (score_exact q r Hq).
    inversion Hsort as [|? ? _ Hall]; subst.
    destruct Hrs as [E|Hr']; [subst; lia|]. rewrite Forall_forall in Hall. specialize (Hall r Hr'). lia. }
  repeat split; try assumption. apply score_zero; exact Hs.
Qed.

Example lookup_example :
  lookup [98; 107; 55] None [mkRow [115] [110; 45; 98; 107; 55] []; mkRow [115] [98; 107; 55] []]
  = Some (mkRow [115] [98; 107; 55] []).
Proof. vm_compute. reflexivity. Qed.
Example lev_example : lev [107; 105; 116; 116; 101; 110] [115; 105; 116; 116; 105; 110; 103] = 3.
Proof. vm_compute. reflexivity. Qed.

(** * C05: the regenerated kernels over extended reals (XOps) on finite inputs
    - which root StandardGeometry.distance returns (branch analysis of the kernel);
    - surface_normal / refract / reflect return the finite values of the exact-real
      reading (ROps) when no division by zero / negative radicand occurs. *)
From Coq Require Import Reals Lra Lia ZArith List Bool Psatz.
From OV Require Import Ops RInst XR Gen.RealRays Gen.Standard Lemmas.L_Standard.
Local Open Scope R_scope.

Lemma xdiv_fin' a b : b <> 0 -> xdiv (Fin a) (Fin b) = Fin (a / b).
Proof. intros H; cbn. destruct (Req_EM_T b 0); [contradiction|reflexivity]. Qed.
Lemma xsqrt_fin a : 0 <= a -> xsqrt (Fin a) = Fin (sqrt a).
Proof. intros H; cbn. destruct (Rlt_dec a 0); [lra|reflexivity]. Qed.

(** ** StandardGeometry.distance: which root *)
(** the choice between two finite candidates (first one [u], second one [v]); a candidate is
    discarded when it lies behind the ray or on the sheet of the quadric that does not pass
    through the vertex ([L_Standard.behind], [L_Standard.sheet]) *)
Section Choice.
  Variables k Rc zl N : R.
  Hypothesis HN : N <> 0.

  Definition filt (t : R) : xR := sheet k N zl Rc (behind (Fin t)).
  Definition on_sheet (t : R) : Prop := 0 <= (Rc - (1 + k) * (zl + t * N)) * Rc.

  Lemma xinf_mul_N : xabs (zat N zl PInf) = PInf.
  Proof.
    unfold zat. cbn. destruct (Rlt_dec 0 N); [reflexivity|]. destruct (Rlt_dec N 0); [reflexivity|lra].
  Qed.
  Lemma sheet_inf : sheet k N zl Rc PInf = PInf.
  Proof. unfold sheet. destruct (xltb _ _); reflexivity. Qed.

  Lemma filt_keep t : 0 <= t -> on_sheet t -> filt t = Fin t.
  Proof.
    intros Ht Hs. unfold filt, behind. cbn [xltb].
    assert (E : Rltb t 0 = false) by (apply Rltb_false; exact Ht). rewrite E.
    unfold sheet, zat. cbn [xmul xadd xsub xneg xltb].
    assert (E2 : Rltb ((Rc + - ((1 + k) * (zl + t * N))) * Rc) 0 = false).
    { apply Rltb_false. unfold on_sheet in Hs. lra. }
    rewrite E2. reflexivity.
  Qed.
  Lemma filt_cases t : filt t = PInf \/ filt t = Fin t.
  Proof.
    unfold filt, behind. cbn [xltb]. destruct (Rltb t 0).
    - left. apply sheet_inf.
    - unfold sheet. destruct (xltb _ _); [left|right]; reflexivity.
  Qed.

  Definition choose (u v : R) : xR :=
    if xleb (xabs (zat N zl (filt u))) (xabs (zat N zl (filt v))) then filt u else filt v.

  Lemma choose_second u v : 0 <= v -> on_sheet v -> Rabs (zl + v*N) < Rabs (zl + u*N) -> choose u v = Fin v.
  Proof.
    intros H2 Hsh Hs. unfold choose. rewrite (filt_keep v H2 Hsh).
    destruct (filt_cases u) as [E|E]; rewrite E.
    - rewrite xinf_mul_N. unfold zat. cbn. reflexivity.
    - unfold zat. cbn [xmul xadd xabs xleb]. unfold Rleb. destruct (Rle_dec _ _); [lra|reflexivity].
  Qed.
  Lemma choose_first u v : 0 <= u -> on_sheet u -> Rabs (zl + u*N) < Rabs (zl + v*N) -> choose u v = Fin u.
  Proof.
    intros H1 Hsh Hs. unfold choose. rewrite (filt_keep u H1 Hsh).
    destruct (filt_cases v) as [E|E]; rewrite E.
    - rewrite xinf_mul_N. unfold zat. cbn. reflexivity.
    - unfold zat. cbn [xmul xadd xabs xleb]. unfold Rleb. destruct (Rle_dec _ _); [reflexivity|lra].
  Qed.
End Choice.

Section Select.
  Variables k N M zl y Rc : R.
  Let a := k*(N*N) + 0*0 + M*M + N*N.
  Let b := 2*k*N*zl + 2*0*0 + 2*M*y - 2*N*Rc + 2*N*zl.
  Let c := k*(zl*zl) - 2*Rc*zl + 0*0 + y*y + zl*zl.
  Let d := b*b - 4*a*c.
  Hypothesis Ha : a <> 0.
  Hypothesis Hd : 0 < d.
  Hypothesis HN : N <> 0.
  Let res := k_std_distance XOps (Fin k) (Fin N) (Fin 0) (Fin M) (Fin zl) (Fin 0) (Fin y) (Fin Rc).
  (** the kernel's stable pair: q = -(b + sgn(b) sqrt d)/2, candidates q/a and c/q *)
  Let sb := if Rltb b 0 then -1 else 1.
  Let q := - / 2 * (b + sb * sqrt d).

  Lemma sb_pm : sb = 1 \/ sb = -1.
  Proof. unfold sb. destruct (Rltb b 0); [right|left]; reflexivity. Qed.

  Lemma q_neq0 : q <> 0.
  Proof.
    assert (Hs : 0 < sqrt d) by (apply sqrt_lt_R0; exact Hd).
    unfold q, sb. destruct (Rltb b 0) eqn:E.
    - apply Rltb_true in E. nra.
    - apply Rltb_false in E. nra.
  Qed.

  Lemma res_cases : res = choose k Rc zl N (q / a) (c / q).
  Proof.
    unfold res. rewrite res_unfold. cbv zeta. fold a. fold b. fold c. fold d.
    unfold Reqb. destruct (Req_EM_T a 0) as [E|_]; [contradiction|].
    rewrite xsqrt_fin by lra.
    assert (Eq : xmul (Fin (- / 2)) (xadd (Fin b) (xmul (if Rltb b 0 then Fin (- 1) else Fin 1) (Fin (sqrt d)))) = Fin q).
    { unfold q, sb. destruct (Rltb b 0); cbn [xmul xadd]; reflexivity. }
    rewrite Eq. cbn [xeqb]. unfold Reqb. destruct (Req_EM_T q 0) as [E|_]; [exfalso; exact (q_neq0 E)|].
    rewrite !xdiv_fin' by (first [exact Ha | exact q_neq0]). reflexivity.
  Qed.

  (** the two candidates are the two roots *)
  Lemma cand1 : q / a = (- b - sb * sqrt d) / (2*a).
  Proof. unfold q. field. exact Ha. Qed.
  Lemma cand2 : c / q = (- b + sb * sqrt d) / (2*a).
  Proof.
    assert (Hq := q_neq0).
    assert (Hs : sqrt d * sqrt d = b*b - 4*a*c) by (rewrite sqrt_sqrt by lra; reflexivity).
    assert (Hsb : sb * sb = 1) by (destruct sb_pm as [E|E]; rewrite E; ring).
    apply Rmult_eq_reg_l with (q * (2*a)).
    2:{ apply Rmult_integral_contrapositive_currified; [exact Hq|lra]. }
    transitivity (c * (2*a)); [field; exact Hq|].
    transitivity (q * (- b + sb * sqrt d)); [|field; exact Ha].
    unfold q.
    transitivity (- / 2 * ((sb*sb) * (sqrt d * sqrt d) - b*b)); [rewrite Hsb, Hs; field|ring].
  Qed.

  (** with sg = +-1: if the root (-b - sg sqrt d)/(2a) is in front of the ray and lands
      strictly nearer to the vertex plane than the other one, and lies on the sheet through the
      vertex, the kernel returns it *)
  Lemma select_root sg : (sg = 1 \/ sg = -1) ->
    let tv := (- b - sg * sqrt d) / (2*a) in
    let to := (- b + sg * sqrt d) / (2*a) in
    0 <= tv -> on_sheet k Rc zl N tv -> Rabs (zl + tv*N) < Rabs (zl + to*N) -> res = Fin tv.
  Proof.
    intros Hsg tv to Ht Hsh Hsel. rewrite res_cases, cand1, cand2.
    destruct sb_pm as [E|E]; rewrite E; destruct Hsg as [G|G]; subst sg tv to.
    - apply choose_first; assumption.
    - replace ((- b - 1 * sqrt d) / (2 * a)) with ((- b + -1 * sqrt d) / (2 * a)) by (f_equal; ring).
      replace ((- b + 1 * sqrt d) / (2 * a)) with ((- b - -1 * sqrt d) / (2 * a)) by (f_equal; ring).
      apply choose_second; assumption.
    - replace ((- b - -1 * sqrt d) / (2 * a)) with ((- b + 1 * sqrt d) / (2 * a)) by (f_equal; ring).
      replace ((- b + -1 * sqrt d) / (2 * a)) with ((- b - 1 * sqrt d) / (2 * a)) by (f_equal; ring).
      apply choose_second; assumption.
    - apply choose_first; assumption.
  Qed.
End Select.

(** ** finite lifting of the other kernels *)
Definition fin3 (p : R * R * R) : xR * xR * xR := let '(a, b, c) := p in (Fin a, Fin b, Fin c).

Lemma std_normal_fin x y Rc k :
  Rc <> 0 -> 0 < 1 - (1 + k) * (x*x + y*y) / (Rc*Rc) ->
  k_std_normal XOps (Fin x) (Fin y) (Fin Rc) (Fin k) = fin3 (k_std_normal ROps x y Rc k).
Proof.
  intros HR Hrad. unfold k_std_normal. xops. rops. cbn [xadd xmul].
  assert (HRR : Rc * Rc <> 0) by (apply Rmult_integral_contrapositive_currified; assumption).
  rewrite xdiv_fin' by exact HRR. cbn [xsub xneg xadd].
  change (1 + - ((1 + k) * (x * x + y * y) / (Rc * Rc))) with (1 - (1 + k) * (x * x + y * y) / (Rc * Rc)).
  set (rad := 1 - (1 + k) * (x * x + y * y) / (Rc * Rc)) in *.
  rewrite xsqrt_fin by lra. cbn [xmul].
  assert (Hs : 0 < sqrt rad) by (apply sqrt_lt_R0; exact Hrad).
  assert (Hden : Rc * sqrt rad <> 0) by (apply Rmult_integral_contrapositive_currified; lra).
  rewrite !xdiv_fin' by exact Hden. cbn [xmul xadd].
  set (fx := x / (Rc * sqrt rad)). set (fy := y / (Rc * sqrt rad)).
  match goal with |- context [xsqrt (Fin ?m)] => set (m2 := m) end.
  assert (Hm2 : 0 < m2) by (unfold m2; simpl; nra).
  rewrite xsqrt_fin by lra.
  assert (Hm : sqrt m2 <> 0) by (generalize (sqrt_lt_R0 m2 Hm2); lra).
  rewrite !xdiv_fin' by exact Hm. reflexivity.
Qed.

Lemma refract_fin nx ny nz n1 n2 L M N :
  n2 <> 0 ->
  0 <= 1 - n1 / n2 * (n1 / n2) * (1 - Rabs (L*nx + M*ny + N*nz) * Rabs (L*nx + M*ny + N*nz)) ->
  k_refract XOps (Fin nx) (Fin ny) (Fin nz) (Fin n1) (Fin n2) (Fin L) (Fin M) (Fin N)
  = fin3 (k_refract ROps nx ny nz n1 n2 L M N).
Proof.
  intros Hn Hrad. unfold k_refract, k_align. xops. rops.
  rewrite xdiv_fin' by exact Hn. cbn [xadd xmul xsign xabs xsub xneg].
  set (dot := L * nx + M * ny + N * nz) in *.
  change (1 + - (n1 / n2 * (n1 / n2) * (1 + - (Rabs dot * Rabs dot))))
    with (1 - n1 / n2 * (n1 / n2) * (1 - Rabs dot * Rabs dot)).
  rewrite xsqrt_fin by exact Hrad. cbn [xadd xmul xsub xneg fin3]. reflexivity.
Qed.

Lemma reflect_fin nx ny nz L M N :
  k_reflect XOps (Fin nx) (Fin ny) (Fin nz) (Fin L) (Fin M) (Fin N)
  = fin3 (k_reflect ROps nx ny nz L M N).
Proof.
  unfold k_reflect, k_align. xops. rops. cbn [xadd xmul xsign xabs xsub xneg fin3]. reflexivity.
Qed.

Lemma plane_distance_fin zl N :
  N <> 0 -> 0 <= - zl / N -> k_plane_distance XOps (Fin zl) (Fin N) = Fin (- zl / N).
Proof.
  intros HN Ht. unfold k_plane_distance. xops. cbn [xneg]. rewrite xdiv_fin' by exact HN.
  cbn [xltb]. assert (E : Rltb (- zl / N) 0 = false) by (apply Rltb_false; exact Ht). rewrite E. reflexivity.
Qed.

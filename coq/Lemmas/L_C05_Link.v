(** * C05: the regenerated kernels over extended reals (XOps) on finite inputs
    - which root StandardGeometry.distance returns (branch analysis of the kernel);
    - surface_normal / refract / reflect return the finite values of the exact-real
      reading (ROps) when no division by zero / negative radicand occurs. *)
From Coq Require Import Reals Lra Lia ZArith List Bool Psatz.
From OV Require Import Ops RInst XR Gen.RealRays Gen.Standard Lemmas.L_Standard.
Local Open Scope R_scope.

Lemma xdiv_fin' a b : b <> 0 -> xdiv (Fin a) (Fin b) = Fin (a / b).
Proof. intros H; cbn. destruct (Req_EM_T b 0); [contradiction|reflexivity]. Qed.
Lemma xsqrt_fin a : 0 <= a -> xsqrt (Fin a) = Fin (sqrt a).
Proof. intros H; cbn. destruct (Rlt_dec a 0); [lra|reflexivity]. Qed.

(** ** StandardGeometry.distance: which root *)
Section Select.
  Variables k N M zl y Rc : R.
  Let a := k*(N*N) + 0*0 + M*M + N*N.
  Let b := 2*k*N*zl + 2*0*0 + 2*M*y - 2*N*Rc + 2*N*zl.
  Let c := k*(zl*zl) - 2*Rc*zl + 0*0 + y*y + zl*zl.
  Let d := b*b - 4*a*c.
  Let t1 := (- b + sqrt d) / (2*a).
  Let t2 := (- b + - sqrt d) / (2*a).
  Hypothesis Ha : a <> 0.
  Hypothesis Hd : 0 <= d.
  Hypothesis HN : N <> 0.
  Let res := k_std_distance XOps (Fin k) (Fin N) (Fin 0) (Fin M) (Fin zl) (Fin 0) (Fin y) (Fin Rc).

  Lemma xinf_mul_N : xabs (xadd (Fin zl) (xmul PInf (Fin N))) = PInf.
  Proof.
    cbn. destruct (Rlt_dec 0 N); [reflexivity|]. destruct (Rlt_dec N 0); [reflexivity|lra].
  Qed.

  Lemma res_cases :
    res = (let t1' := if Rltb t1 0 then PInf else Fin t1 in
           let t2' := if Rltb t2 0 then PInf else Fin t2 in
           let z1 := xadd (Fin zl) (xmul t1' (Fin N)) in
           let z2 := xadd (Fin zl) (xmul t2' (Fin N)) in
           if xleb (xabs z1) (xabs z2) then t1' else t2').
  Proof.
    unfold res. rewrite res_unfold. cbv zeta. fold a. fold b. fold c. fold d.
    unfold Reqb. destruct (Req_EM_T a 0) as [E|_]; [contradiction|].
    rewrite xsqrt_fin by exact Hd. cbn [xneg xadd xsub].
    rewrite !xdiv_fin' by lra. fold t1. fold t2. cbn [xltb]. reflexivity.
  Qed.

  Lemma select_t2 : 0 <= t2 -> (t1 < 0 \/ Rabs (zl + t2*N) < Rabs (zl + t1*N)) -> res = Fin t2.
  Proof.
    intros H2 Hsel. rewrite res_cases. cbv zeta.
    assert (E2 : Rltb t2 0 = false) by (apply Rltb_false; exact H2). rewrite E2.
    destruct (Rltb t1 0) eqn:E1.
    - rewrite xinf_mul_N. cbn. reflexivity.
    - apply Rltb_false in E1. destruct Hsel as [Hs|Hs]; [lra|].
      cbn [xmul xadd xabs xleb]. unfold Rleb. destruct (Rle_dec _ _); [lra|reflexivity].
  Qed.

  Lemma select_t1 : 0 <= t1 -> (t2 < 0 \/ Rabs (zl + t1*N) < Rabs (zl + t2*N)) -> res = Fin t1.
  Proof.
    intros H1 Hsel. rewrite res_cases. cbv zeta.
    assert (E1 : Rltb t1 0 = false) by (apply Rltb_false; exact H1). rewrite E1.
    destruct (Rltb t2 0) eqn:E2.
    - rewrite xinf_mul_N. cbn. reflexivity.
    - apply Rltb_false in E2. destruct Hsel as [Hs|Hs]; [lra|].
      cbn [xmul xadd xabs xleb]. unfold Rleb. destruct (Rle_dec _ _); [reflexivity|lra].
  Qed.
End Select.

(** ** finite lifting of the other kernels *)
Definition fin3 (p : R * R * R) : xR * xR * xR := let '(a, b, c) := p in (Fin a, Fin b, Fin c).

Lemma std_normal_fin x y Rc k :
  Rc <> 0 -> 0 < 1 - (1 + k) * (x*x + y*y) / (Rc*Rc) ->
  k_std_normal XOps (Fin x) (Fin y) (Fin Rc) (Fin k) = fin3 (k_std_normal ROps x y Rc k).
Proof.
  intros HR Hrad. unfold k_std_normal. xops. rops. cbn [xadd xmul].
  assert (HRR : Rc * Rc <> 0) by (apply Rmult_integral_contrapositive_currified; assumption).
  rewrite xdiv_fin' by exact HRR. cbn [xsub xneg xadd].
  change (1 + - ((1 + k) * (x * x + y * y) / (Rc * Rc))) with (1 - (1 + k) * (x * x + y * y) / (Rc * Rc)).
  set (rad := 1 - (1 + k) * (x * x + y * y) / (Rc * Rc)) in *.
  rewrite xsqrt_fin by lra. cbn [xmul].
  assert (Hs : 0 < sqrt rad) by (apply sqrt_lt_R0; exact Hrad).
  assert (Hden : Rc * sqrt rad <> 0) by (apply Rmult_integral_contrapositive_currified; lra).
  rewrite !xdiv_fin' by exact Hden. cbn [xmul xadd].
  set (fx := x / (Rc * sqrt rad)). set (fy := y / (Rc * sqrt rad)).
  match goal with |- context [xsqrt (Fin ?m)] => set (m2 := m) end.
  assert (Hm2 : 0 < m2) by (unfold m2; simpl; nra).
  rewrite xsqrt_fin by lra.
  assert (Hm : sqrt m2 <> 0) by (generalize (sqrt_lt_R0 m2 Hm2); lra).
  rewrite !xdiv_fin' by exact Hm. reflexivity.
Qed.

Lemma refract_fin nx ny nz n1 n2 L M N :
  n2 <> 0 ->
  0 <= 1 - n1 / n2 * (n1 / n2) * (1 - Rabs (L*nx + M*ny + N*nz) * Rabs (L*nx + M*ny + N*nz)) ->
  k_refract XOps (Fin nx) (Fin ny) (Fin nz) (Fin n1) (Fin n2) (Fin L) (Fin M) (Fin N)
  = fin3 (k_refract ROps nx ny nz n1 n2 L M N).
Proof.
  intros Hn Hrad. unfold k_refract, k_align. xops. rops.
  rewrite xdiv_fin' by exact Hn. cbn [xadd xmul xsign xabs xsub xneg].
  set (dot := L * nx + M * ny + N * nz) in *.
  change (1 + - (n1 / n2 * (n1 / n2) * (1 + - (Rabs dot * Rabs dot))))
    with (1 - n1 / n2 * (n1 / n2) * (1 - Rabs dot * Rabs dot)).
  rewrite xsqrt_fin by exact Hrad. cbn [xadd xmul xsub xneg fin3]. reflexivity.
Qed.

Lemma reflect_fin nx ny nz L M N :
  k_reflect XOps (Fin nx) (Fin ny) (Fin nz) (Fin L) (Fin M) (Fin N)
  = fin3 (k_reflect ROps nx ny nz L M N).
Proof.
  unfold k_reflect, k_align. xops. rops. cbn [xadd xmul xsign xabs xsub xneg fin3]. reflexivity.
Qed.

Lemma plane_distance_fin zl N :
  N <> 0 -> 0 <= - zl / N -> k_plane_distance XOps (Fin zl) (Fin N) = Fin (- zl / N).
Proof.
  intros HN Ht. unfold k_plane_distance. xops. cbn [xneg]. rewrite xdiv_fin' by exact HN.
  cbn [xltb]. assert (E : Rltb (- zl / N) 0 = false) by (apply Rltb_false; exact Ht). rewrite E. reflexivity.
Qed.

(** * C07 - mirror covariance of the real-ray trace.

    Mirroring the ray about a meridional plane (x, L -> -x, -L  or  y, M -> -y, -M) commutes with
    every regenerated kernel and hence - by induction over the surface list - with the whole
    sequential trace of Model/Trace.v, for lenses of planes and conics that are not decentred
    across the mirror plane and not tilted out of it.

    The proofs use only the sign laws [NegLaws] of the arithmetic (no ring structure), so the
    theorem holds for EVERY instance of [Ops] that satisfies them: it is instantiated for the exact
    reals [ROps] and for the extended reals [XOps] (NaN / +-inf propagation: a missed surface or a
    totally reflected ray mirrors to a missed surface / totally reflected ray). *)
From Coq Require Import Reals Lra ZArith List Bool.
From OV Require Import Ops RInst XR Gen.RealRays Gen.Standard Gen.Geometries Gen.Apertures Model.Trace Model.M_C07.
Import ListNotations.

Set Implicit Arguments.
Record NegLaws (O : Ops) : Prop := mkNegLaws {
  nl_negneg : forall a : T O, neg (neg a) = a;
  nl_mul_l : forall a b : T O, mul (neg a) b = neg (mul a b);
  nl_mul_r : forall a b : T O, mul a (neg b) = neg (mul a b);
  nl_add : forall a b : T O, add (neg a) (neg b) = neg (add a b);
  nl_sub : forall a b : T O, sub (neg a) (neg b) = neg (sub a b);
  nl_div_l : forall a b : T O, div (neg a) b = neg (div a b);
  nl_add_0 : forall a : T O, add a (ofZ 0) = a;
  nl_neg_0 : neg (ofZ 0 : T O) = ofZ 0;
  nl_eqb_00 : eqb_ (ofZ 0 : T O) (ofZ 0) = true
}.

Unset Implicit Arguments.

(** ** the laws hold for the exact reals ... *)
Lemma NegLaws_R : NegLaws ROps.
Proof.
  constructor; intros; rops; try (unfold Rdiv; ring).
  - apply Reqb_true. reflexivity.
Qed.

(** ** ... and for the extended reals with IEEE special values *)
Ltac dd := repeat (match goal with
              | |- context [Req_EM_T ?p ?q] => destruct (Req_EM_T p q)
              | |- context [Rlt_dec ?p ?q] => destruct (Rlt_dec p q) end; cbn).

Lemma xl_negneg a : xneg (xneg a) = a.
Proof. destruct a; cbn; try reflexivity. f_equal; ring. Qed.
Lemma xl_mul_l a b : xmul (xneg a) b = xneg (xmul a b).
Proof. destruct a as [x| | |], b as [y| | |]; cbn; try reflexivity; try (f_equal; ring); dd; try reflexivity; try lra. Qed.
Lemma xl_mul_r a b : xmul a (xneg b) = xneg (xmul a b).
Proof. destruct a as [x| | |], b as [y| | |]; cbn; try reflexivity; try (f_equal; ring); dd; try reflexivity; try lra. Qed.
Lemma xl_add a b : xadd (xneg a) (xneg b) = xneg (xadd a b).
Proof. destruct a as [x| | |], b as [y| | |]; cbn; try reflexivity. f_equal; ring. Qed.
Lemma xl_sub a b : xsub (xneg a) (xneg b) = xneg (xsub a b).
Proof. unfold xsub. destruct a as [x| | |], b as [y| | |]; cbn; try reflexivity. f_equal; ring. Qed.
Lemma xl_div_l a b : xdiv (xneg a) b = xneg (xdiv a b).
Proof.
  destruct a as [x| | |], b as [y| | |]; cbn; try reflexivity; dd; try reflexivity; try lra;
  f_equal; try (unfold Rdiv; ring); try lra.
Qed.
Lemma xl_add_0 a : xadd a (Fin 0) = a.
Proof. destruct a; cbn; try reflexivity. f_equal; ring. Qed.

Lemma NegLaws_X : NegLaws XOps.
Proof.
  constructor; intros; xops.
  - apply xl_negneg.
  - apply xl_mul_l.
  - apply xl_mul_r.
  - apply xl_add.
  - apply xl_sub.
  - apply xl_div_l.
  - apply xl_add_0.
  - cbn. f_equal. ring.
  - cbn. apply Reqb_true. reflexivity.
Qed.

Section Mirror.
  Context {O : Ops}.
  Variable NL : NegLaws O.
  Notation T := (T O).

  Ltac negnorm :=
    repeat first [ rewrite (nl_negneg NL) | rewrite (nl_mul_l NL) | rewrite (nl_mul_r NL)
                 | rewrite (nl_add NL) | rewrite (nl_sub NL) | rewrite (nl_div_l NL) ].

  (** *** kernels *)
  Lemma refract_mirror_x nx ny nz n1 n2 L M N :
    k_refract O (neg nx) ny nz n1 n2 (neg L) M N =
    (let '(tx, ty, tz) := k_refract O nx ny nz n1 n2 L M N in (neg tx, ty, tz)).
  Proof. unfold k_refract, k_align; cbv beta iota zeta. negnorm. reflexivity. Qed.
  Lemma refract_mirror_y nx ny nz n1 n2 L M N :
    k_refract O nx (neg ny) nz n1 n2 L (neg M) N =
    (let '(tx, ty, tz) := k_refract O nx ny nz n1 n2 L M N in (tx, neg ty, tz)).
  Proof. unfold k_refract, k_align; cbv beta iota zeta. negnorm. reflexivity. Qed.
  Lemma reflect_mirror_x nx ny nz L M N :
    k_reflect O (neg nx) ny nz (neg L) M N =
    (let '(tx, ty, tz) := k_reflect O nx ny nz L M N in (neg tx, ty, tz)).
  Proof. unfold k_reflect, k_align; cbv beta iota zeta. negnorm. reflexivity. Qed.
  Lemma reflect_mirror_y nx ny nz L M N :
    k_reflect O nx (neg ny) nz L (neg M) N =
    (let '(tx, ty, tz) := k_reflect O nx ny nz L M N in (tx, neg ty, tz)).
  Proof. unfold k_reflect, k_align; cbv beta iota zeta. negnorm. reflexivity. Qed.

  Lemma std_distance_mirror_x k N L M z x y R :
    k_std_distance O k N (neg L) M z (neg x) y R = k_std_distance O k N L M z x y R.
  Proof. unfold k_std_distance; cbv beta iota zeta. negnorm. reflexivity. Qed.
  Lemma std_distance_mirror_y k N L M z x y R :
    k_std_distance O k N L (neg M) z x (neg y) R = k_std_distance O k N L M z x y R.
  Proof. unfold k_std_distance; cbv beta iota zeta. negnorm. reflexivity. Qed.

  Lemma std_normal_mirror_x x y R k :
    k_std_normal O (neg x) y R k = (let '(a, b, c) := k_std_normal O x y R k in (neg a, b, c)).
  Proof. unfold k_std_normal; cbv beta iota zeta. negnorm. reflexivity. Qed.
  Lemma std_normal_mirror_y x y R k :
    k_std_normal O x (neg y) R k = (let '(a, b, c) := k_std_normal O x y R k in (a, neg b, c)).
  Proof. unfold k_std_normal; cbv beta iota zeta. negnorm. reflexivity. Qed.

  Lemma std_sag_mirror x y R k :
    k_std_sag O (neg x) y R k = k_std_sag O x y R k /\ k_std_sag O x (neg y) R k = k_std_sag O x y R k.
  Proof. unfold k_std_sag. negnorm. split; reflexivity. Qed.

  Lemma radial_clip_mirror x y rmax rmin i :
    k_radial_clip O (neg x) y rmax rmin i = k_radial_clip O x y rmax rmin i /\
    k_radial_clip O x (neg y) rmax rmin i = k_radial_clip O x y rmax rmin i.
  Proof. unfold k_radial_clip. negnorm. split; reflexivity. Qed.

  Lemma propagate_mirror_x t x L y M z N k w i :
    k_propagate O t (neg x) (neg L) y M z N k w i =
    (let '(a, b, c, d) := k_propagate O t x L y M z N k w i in (neg a, b, c, d)).
  Proof. unfold k_propagate; cbv beta iota zeta. negnorm. reflexivity. Qed.
  Lemma propagate_mirror_y t x L y M z N k w i :
    k_propagate O t x L (neg y) (neg M) z N k w i =
    (let '(a, b, c, d) := k_propagate O t x L y M z N k w i in (a, neg b, c, d)).
  Proof. unfold k_propagate; cbv beta iota zeta. negnorm. reflexivity. Qed.

  (** *** prescriptions symmetric about the plane x = 0 / y = 0 *)
  Definition sym_x (s : surf O) : Prop :=
    s_x s = ofZ 0 /\ s_ry s = ofZ 0 /\ s_rz s = ofZ 0 /\ sym_shape (s_shape s) = true.
  Definition sym_y (s : surf O) : Prop :=
    s_y s = ofZ 0 /\ s_rx s = ofZ 0 /\ s_rz s = ofZ 0 /\ sym_shape (s_shape s) = true.

  Notation mx := (mirror_ray true false).
  Notation my := (mirror_ray false true).

  Lemma nonzero_0 : nonzero (O:=O) (ofZ 0) = false.
  Proof. unfold nonzero. rewrite (nl_eqb_00 NL). reflexivity. Qed.

  Ltac dpair :=
    match goal with
    | |- context [match ?e with (_, _) => _ end] =>
        lazymatch e with (_, _) => fail | _ => destruct e end
    end.
  Ltac rfields := cbn [s_x s_y s_z s_rx s_ry s_rz s_shape s_n1 s_n2 s_k1 s_refl s_aper s_coat
                       rx ry rz rL rM rN ri rw ropd option_map sg mirror_ray].

  Lemma localize_mx s r : sym_x s -> localize s (mx r) = mx (localize s r).
  Proof.
    intros (Hx & Hry & Hrz & Hsh).
    destruct s as [sx sy sz srx sry srz sh n1 n2 k1 rf ap co].
    cbn in Hx, Hry, Hrz, Hsh. subst sx sry srz.
    destruct r as [x y z L M N i w opd].
    unfold localize. Timeout 20 rfields.
    rewrite !nonzero_0. 
    unfold k_translate.
    rewrite !(nl_neg_0 NL).
    rewrite !(nl_add_0 NL).
    destruct (nonzero srx); rfields; repeat (dpair; rfields); reflexivity.
  Qed.
  Lemma globalize_mx s r : sym_x s -> globalize s (mx r) = mx (globalize s r).
  Proof.
    intros (Hx & Hry & Hrz & Hsh).
    destruct s as [sx sy sz srx sry srz sh n1 n2 k1 rf ap co].
    cbn in Hx, Hry, Hrz, Hsh. subst sx sry srz.
    destruct r as [x y z L M N i w opd].
    unfold globalize. Timeout 20 rfields.
    rewrite !nonzero_0. 
    unfold k_translate. rfields.
    rewrite !(nl_add_0 NL).
    destruct (nonzero srx); rfields; repeat (dpair; rfields); rewrite ?(nl_add_0 NL); reflexivity.
  Qed.

  Lemma refract_mirror_x0 ny nz n1 n2 L M N :
    k_refract O (ofZ 0) ny nz n1 n2 (neg L) M N =
    (let '(tx, ty, tz) := k_refract O (ofZ 0) ny nz n1 n2 L M N in (neg tx, ty, tz)).
  Proof. pose proof (refract_mirror_x (ofZ 0) ny nz n1 n2 L M N) as H. rewrite (nl_neg_0 NL) in H. exact H. Qed.
  Lemma reflect_mirror_x0 ny nz L M N :
    k_reflect O (ofZ 0) ny nz (neg L) M N =
    (let '(tx, ty, tz) := k_reflect O (ofZ 0) ny nz L M N in (neg tx, ty, tz)).
  Proof. pose proof (reflect_mirror_x (ofZ 0) ny nz L M N) as H. rewrite (nl_neg_0 NL) in H. exact H. Qed.

  Lemma trace_surface_mirror_x s r :
    sym_x s -> trace_surface s (mx r) = option_map mx (trace_surface s r).
  Proof.
    intros Hs. unfold trace_surface. rewrite (localize_mx _ _ Hs).
    destruct (localize s r) as [x y z L M N i w opd].
    pose proof Hs as (Hx & Hry & Hrz & Hsh).
    destruct (s_shape s) as [|R k| | |] eqn:Esh; try discriminate; unfold distance, normal; rfields.
    - (* plane *)
      set (t := k_plane_distance O z N).
      rewrite propagate_mirror_x.
      destruct (k_propagate O t x L y M z N (s_k1 s) w i) as [[[px py] pz] pi].
      destruct (s_aper s) as [[rmax rmin]|]; rfields;
        rewrite ?(proj1 (radial_clip_mirror _ _ _ _ _));
        (destruct (s_refl s);
         [ rewrite reflect_mirror_x0; destruct (k_reflect O (ofZ 0) (ofZ 0) (ofZ 1) L M N) as [[tx ty] tz]
         | rewrite refract_mirror_x0; destruct (k_refract O (ofZ 0) (ofZ 0) (ofZ 1) (s_n1 s) (s_n2 s) L M N) as [[tx ty] tz] ]);
        destruct (s_coat s) as [[tr rf]|]; rfields;
        rewrite <- (globalize_mx _ _ Hs); reflexivity.
    - (* conic *)
      rewrite std_distance_mirror_x. set (t := k_std_distance O k N L M z x y R).
      rewrite propagate_mirror_x.
      destruct (k_propagate O t x L y M z N (s_k1 s) w i) as [[[px py] pz] pi].
      destruct (s_aper s) as [[rmax rmin]|]; rfields;
        rewrite ?(proj1 (radial_clip_mirror _ _ _ _ _));
        rewrite std_normal_mirror_x; destruct (k_std_normal O px py R k) as [[nx ny] nz];
        (destruct (s_refl s);
         [ rewrite reflect_mirror_x; destruct (k_reflect O nx ny nz L M N) as [[tx ty] tz]
         | rewrite refract_mirror_x; destruct (k_refract O nx ny nz (s_n1 s) (s_n2 s) L M N) as [[tx ty] tz] ]);
        destruct (s_coat s) as [[tr rf]|]; rfields;
        rewrite <- (globalize_mx _ _ Hs); reflexivity.
  Qed.
  Lemma localize_my s r : sym_y s -> localize s (my r) = my (localize s r).
  Proof.
    intros (Hy & Hrx & Hrz & Hsh).
    destruct s as [sx sy sz srx sry srz sh n1 n2 k1 rf ap co].
    cbn in Hy, Hrx, Hrz, Hsh. subst sy srx srz.
    destruct r as [x y z L M N i w opd].
    unfold localize. Timeout 20 rfields.
    rewrite !nonzero_0. 
    unfold k_translate.
    rewrite !(nl_neg_0 NL).
    rewrite !(nl_add_0 NL).
    destruct (nonzero sry); rfields; repeat (dpair; rfields); reflexivity.
  Qed.
  Lemma globalize_my s r : sym_y s -> globalize s (my r) = my (globalize s r).
  Proof.
    intros (Hy & Hrx & Hrz & Hsh).
    destruct s as [sx sy sz srx sry srz sh n1 n2 k1 rf ap co].
    cbn in Hy, Hrx, Hrz, Hsh. subst sy srx srz.
    destruct r as [x y z L M N i w opd].
    unfold globalize. Timeout 20 rfields.
    rewrite !nonzero_0. 
    unfold k_translate. rfields.
    rewrite !(nl_add_0 NL).
    destruct (nonzero sry); rfields; repeat (dpair; rfields); rewrite ?(nl_add_0 NL); reflexivity.
  Qed.

  Lemma refract_mirror_y0 nx nz n1 n2 L M N :
    k_refract O nx (ofZ 0) nz n1 n2 L (neg M) N =
    (let '(tx, ty, tz) := k_refract O nx (ofZ 0) nz n1 n2 L M N in (tx, neg ty, tz)).
  Proof. pose proof (refract_mirror_y nx (ofZ 0) nz n1 n2 L M N) as H. rewrite (nl_neg_0 NL) in H. exact H. Qed.
  Lemma reflect_mirror_y0 nx nz L M N :
    k_reflect O nx (ofZ 0) nz L (neg M) N =
    (let '(tx, ty, tz) := k_reflect O nx (ofZ 0) nz L M N in (tx, neg ty, tz)).
  Proof. pose proof (reflect_mirror_y nx (ofZ 0) nz L M N) as H. rewrite (nl_neg_0 NL) in H. exact H. Qed.

  Lemma trace_surface_mirror_y s r :
    sym_y s -> trace_surface s (my r) = option_map my (trace_surface s r).
  Proof.
    intros Hs. unfold trace_surface. rewrite (localize_my _ _ Hs).
    destruct (localize s r) as [x y z L M N i w opd].
    pose proof Hs as (Hy & Hrx & Hrz & Hsh).
    destruct (s_shape s) as [|R k| | |] eqn:Esh; try discriminate; unfold distance, normal; rfields.
    - (* plane *)
      set (t := k_plane_distance O z N).
      rewrite propagate_mirror_y.
      destruct (k_propagate O t x L y M z N (s_k1 s) w i) as [[[px py] pz] pi].
      destruct (s_aper s) as [[rmax rmin]|]; rfields;
        rewrite ?(proj2 (radial_clip_mirror _ _ _ _ _));
        (destruct (s_refl s);
         [ rewrite reflect_mirror_y0; destruct (k_reflect O (ofZ 0) (ofZ 0) (ofZ 1) L M N) as [[tx ty] tz]
         | rewrite refract_mirror_y0; destruct (k_refract O (ofZ 0) (ofZ 0) (ofZ 1) (s_n1 s) (s_n2 s) L M N) as [[tx ty] tz] ]);
        destruct (s_coat s) as [[tr rf]|]; rfields;
        rewrite <- (globalize_my _ _ Hs); reflexivity.
    - (* conic *)
      rewrite std_distance_mirror_y. set (t := k_std_distance O k N L M z x y R).
      rewrite propagate_mirror_y.
      destruct (k_propagate O t x L y M z N (s_k1 s) w i) as [[[px py] pz] pi].
      destruct (s_aper s) as [[rmax rmin]|]; rfields;
        rewrite ?(proj2 (radial_clip_mirror _ _ _ _ _));
        rewrite std_normal_mirror_y; destruct (k_std_normal O px py R k) as [[nx ny] nz];
        (destruct (s_refl s);
         [ rewrite reflect_mirror_y; destruct (k_reflect O nx ny nz L M N) as [[tx ty] tz]
         | rewrite refract_mirror_y; destruct (k_refract O nx ny nz (s_n1 s) (s_n2 s) L M N) as [[tx ty] tz] ]);
        destruct (s_coat s) as [[tr rf]|]; rfields;
        rewrite <- (globalize_my _ _ Hs); reflexivity.
  Qed.

  (** *** the whole sequential trace, by induction over the surface list *)
  Theorem trace_mirror_x ss : forall r,
    Forall sym_x ss -> trace ss (mx r) = option_map (map mx) (trace ss r).
  Proof.
    induction ss as [|s ss IH]; intros r H; [reflexivity|].
    inversion H as [|s' ss' Hs Hss]; subst. cbn [trace].
    rewrite (trace_surface_mirror_x _ _ Hs).
    destruct (trace_surface s r) as [r'|]; [|reflexivity]. cbn [option_map].
    rewrite (IH _ Hss). destruct (trace ss r'); reflexivity.
  Qed.
  Theorem trace_mirror_y ss : forall r,
    Forall sym_y ss -> trace ss (my r) = option_map (map my) (trace ss r).
  Proof.
    induction ss as [|s ss IH]; intros r H; [reflexivity|].
    inversion H as [|s' ss' Hs Hss]; subst. cbn [trace].
    rewrite (trace_surface_mirror_y _ _ Hs).
    destruct (trace_surface s r) as [r'|]; [|reflexivity]. cbn [option_map].
    rewrite (IH _ Hss). destruct (trace ss r'); reflexivity.
  Qed.

  (** the product of the two mirrors (rotation by pi about the axis) *)
  Lemma mirror_xy_compose (r : ray O) : mirror_ray true true r = mx (my r).
  Proof. destruct r; reflexivity. Qed.
  Theorem trace_mirror_xy ss r :
    Forall sym_x ss -> Forall sym_y ss ->
    trace ss (mirror_ray true true r) = option_map (map (mirror_ray true true)) (trace ss r).
  Proof.
    intros Hx Hy. rewrite mirror_xy_compose, (trace_mirror_x _ _ Hx), (trace_mirror_y _ _ Hy).
    destruct (trace ss r) as [l|]; [|reflexivity]. cbn [option_map]. f_equal.
    rewrite map_map. apply map_ext. intros a. symmetry. apply mirror_xy_compose.
  Qed.

  (** mirroring twice is the identity: the mirrored trace determines the original one *)
  Lemma mirror_involutive bx by_ (r : ray O) : mirror_ray bx by_ (mirror_ray bx by_ r) = r.
  Proof. destruct r, bx, by_; unfold mirror_ray, sg; cbn; rewrite ?(nl_negneg NL); reflexivity. Qed.
End Mirror.

(** ** instances: exact reals and extended reals *)
Definition sym_x_R := @sym_x ROps.
Theorem trace_mirror_x_R (ss : list (surf ROps)) (r : ray ROps) :
  Forall (@sym_x ROps) ss -> trace ss (mirror_ray true false r) = option_map (map (mirror_ray true false)) (trace ss r).
Proof. apply trace_mirror_x. exact NegLaws_R. Qed.
Theorem trace_mirror_y_R (ss : list (surf ROps)) (r : ray ROps) :
  Forall (@sym_y ROps) ss -> trace ss (mirror_ray false true r) = option_map (map (mirror_ray false true)) (trace ss r).
Proof. apply trace_mirror_y. exact NegLaws_R. Qed.
Theorem trace_mirror_xy_R (ss : list (surf ROps)) (r : ray ROps) :
  Forall (@sym_x ROps) ss -> Forall (@sym_y ROps) ss ->
  trace ss (mirror_ray true true r) = option_map (map (mirror_ray true true)) (trace ss r).
Proof. apply trace_mirror_xy. exact NegLaws_R. Qed.
Theorem trace_mirror_x_X (ss : list (surf XOps)) (r : ray XOps) :
  Forall (@sym_x XOps) ss -> trace ss (mirror_ray true false r) = option_map (map (mirror_ray true false)) (trace ss r).
Proof. apply trace_mirror_x. exact NegLaws_X. Qed.
Theorem trace_mirror_y_X (ss : list (surf XOps)) (r : ray XOps) :
  Forall (@sym_y XOps) ss -> trace ss (mirror_ray false true r) = option_map (map (mirror_ray false true)) (trace ss r).
Proof. apply trace_mirror_y. exact NegLaws_X. Qed.
Theorem trace_mirror_xy_X (ss : list (surf XOps)) (r : ray XOps) :
  Forall (@sym_x XOps) ss -> Forall (@sym_y XOps) ss ->
  trace ss (mirror_ray true true r) = option_map (map (mirror_ray true true)) (trace ss r).
Proof. apply trace_mirror_xy. exact NegLaws_X. Qed.

(** the hypotheses are satisfiable: a biconvex singlet with a stop plane *)
Example sym_example :
  let l := [mkSurf (O:=ROps) 0%R 0%R 0%R 0%R 0%R 0%R (SStd (O:=ROps) 50%R 0%R) 1%R (3/2)%R 0%R false (Some (10%R, 0%R)) None;
            mkSurf (O:=ROps) 0%R 0%R 5%R 0%R 0%R 0%R (SStd (O:=ROps) (-50)%R (-1)%R) (3/2)%R 1%R 0%R false None None;
            mkSurf (O:=ROps) 0%R 0%R 60%R 0%R 0%R 0%R (SPlane (O:=ROps)) 1%R 1%R 0%R false None None] in
  Forall (@sym_x ROps) l /\ Forall (@sym_y ROps) l.
Proof. cbv zeta. split; repeat constructor. Qed.

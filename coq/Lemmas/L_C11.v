(** * L_C11: PSF / Strehl / MTF theorems about the executable model [Model/M_C11.v] interpreted
    over exact reals ([ROps]) and about the specification [Spec/S_C11_DFT.v]. *)
From Coq Require Import Reals Lra Lia List Arith ZArith Psatz Bool.
From OV Require Import Ops RInst Spec.S_C11_DFT Model.M_C11 Lemmas.L_C11_Complex.
Import ListNotations.
Local Open Scope R_scope.

(** ** the model over ROps is the specification's complex arithmetic *)
Lemma csum_R f n : @csum ROps f n = Csum f n.
Proof. induction n; simpl; [reflexivity | rewrite IHn; reflexivity]. Qed.
Lemma rsum_R f n : @rsum ROps f n = Rsum f n.
Proof. induction n; simpl; [reflexivity | rewrite IHn; reflexivity]. Qed.
Lemma cmul_R a b : @cmul ROps a b = Cmul a b. Proof. reflexivity. Qed.
Lemma cconj_R a : @cconj ROps a = Cconj a. Proof. reflexivity. Qed.
Lemma cn2_R a : @cn2 ROps a = Cn2 a. Proof. reflexivity. Qed.
Lemma cabs_R a : @cabs ROps a = Cmod a. Proof. reflexivity. Qed.
Lemma ofR_R x : @ofR ROps x = RtoC x. Proof. reflexivity. Qed.

Lemma tw_R N j : @tw ROps N j = Cpow (wN N) j.
Proof.
  rewrite wN_pow. unfold tw, two_pi, ofN; rops. rewrite <- !INR_IZR_INZ.
  replace (2 * PI * INR j / INR N) with (INR j * (2 * PI / INR N)) by (unfold Rdiv; ring).
  reflexivity.
Qed.

Lemma dft2_R N (x : nat -> nat -> RC) k l : @M_C11.dft2 ROps N x k l = S_C11_DFT.dft2 (wN N) N x k l.
Proof.
  unfold M_C11.dft2, S_C11_DFT.dft2. rewrite csum_R. apply Csum_ext; intros m _.
  rewrite csum_R. apply Csum_ext; intros n _. rewrite !cmul_R, !tw_R. reflexivity.
Qed.

(** ** PSF: non-negative, and the squared modulus of the DFT of the padded pupil *)
Theorem psf_is_sqmod_dft (M : nat) (Pp : list (list RC)) (norm : R) (i j : nat) :
  @psf_at ROps M Pp norm i j =
  psf_spec (wN M) M (@get2 ROps Pp) norm (@unshift M i) (@unshift M j).
Proof.
  unfold psf_at, raw_at, psf_spec. rewrite dft2_R, cmul_R, cconj_R, Cmul_conj. rops. reflexivity.
Qed.

Theorem psf_nonneg (M : nat) (Pp : list (list RC)) (norm : R) (i j : nat) :
  0 < norm -> 0 <= @psf_at ROps M Pp norm i j.
Proof.
  intros Hn. rewrite psf_is_sqmod_dft. unfold psf_spec.
  assert (0 <= Cn2 (S_C11_DFT.dft2 (wN M) M (@get2 ROps Pp) (unshift M i) (unshift M j))) by apply Cn2_nonneg.
  apply Rmult_le_pos; [|lra]. apply Rmult_le_pos; [assumption|]. left; apply Rinv_0_lt_compat; assumption.
Qed.

(** numpy takes the real part of amp * conj(amp); the imaginary part it drops is exactly zero *)
Lemma sqmod_imag_zero (a : RC) : snd (Cmul a (Cconj a)) = 0.
Proof. csimp; ring. Qed.

(** the zero-frequency pixel is where fftshift puts it: index N/2 *)
Lemma unshift_centre M : (1 <= M)%nat -> unshift M (M / 2) = 0%nat.
Proof.
  intros H. unfold unshift. replace (M / 2 + M - M / 2)%nat with M by lia. apply Nat.mod_same; lia.
Qed.
Lemma unshift_lt M i : (1 <= M)%nat -> (unshift M i < M)%nat.
Proof. intros; unfold unshift; apply Nat.mod_upper_bound; lia. Qed.

(** ** peak bound: every pixel of |DFT P|^2 is at most (Σ |P|)^2, with equality at the centre for
    an unaberrated (real, non-negative) pupil *)
Theorem peak_bound (M : nat) (P : nat -> nat -> RC) (k l : nat) :
  (1 <= M)%nat -> Cn2 (S_C11_DFT.dft2 (wN M) M P k l) <= norm_spec M P.
Proof.
  intros HM. unfold norm_spec. apply Cmod_le_sq.
  - apply Rsum_nonneg; intros; apply Rsum_nonneg; intros; apply Cmod_nonneg.
  - apply dft2_peak, wN_prim_root, HM.
Qed.

Theorem unaberrated_centre (w : RC) (M : nat) (a : nat -> nat -> R) :
  (forall m n, 0 <= a m n) ->
  Cn2 (S_C11_DFT.dft2 w M (fun m n => RtoC (a m n)) 0 0) = norm_spec M (fun m n => RtoC (a m n)).
Proof.
  intros Ha. rewrite dft2_dc.
  rewrite (Csum_ext _ (fun m => RtoC (Rsum (fun n => a m n) M))) by (intros; apply Csum_RtoC).
  rewrite Csum_RtoC. unfold norm_spec.
  rewrite (Rsum_ext (fun m => Rsum (fun n => Cmod (RtoC (a m n))) M) (fun m => Rsum (fun n => a m n) M)).
  - csimp; ring.
  - intros; apply Rsum_ext; intros. rewrite Cmod_RtoC, Rabs_right; [reflexivity | apply Rle_ge, Ha].
Qed.

(** the unaberrated pupil peaks at 100 (at the centre pixel) when the normaliser is (Σ |P|)^2,
    and no pixel of any PSF with that normaliser exceeds 100 *)
Theorem unaberrated_peak_100 (M : nat) (a : nat -> nat -> R) :
  (1 <= M)%nat -> (forall m n, 0 <= a m n) -> 0 < norm_spec M (fun m n => RtoC (a m n)) ->
  psf_spec (wN M) M (fun m n => RtoC (a m n)) (norm_spec M (fun m n => RtoC (a m n)))
           (unshift M (M / 2)) (unshift M (M / 2)) = 100.
Proof.
  intros HM Ha Hn. rewrite unshift_centre by assumption. unfold psf_spec.
  rewrite unaberrated_centre by assumption. field. lra.
Qed.

Theorem psf_le_100 (M : nat) (P : nat -> nat -> RC) (k l : nat) :
  (1 <= M)%nat -> 0 < norm_spec M P -> psf_spec (wN M) M P (norm_spec M P) k l <= 100.
Proof.
  intros HM Hn. unfold psf_spec. generalize (peak_bound M P k l HM); intros Hp.
  assert (Cn2 (S_C11_DFT.dft2 (wN M) M P k l) / norm_spec M P <= 1).
  { apply Rmult_le_reg_r with (norm_spec M P); [assumption|]. unfold Rdiv.
    rewrite Rmult_assoc, Rinv_l by lra. lra. }
  lra.
Qed.

(** Strehl ratio (centre pixel / 100) never exceeds one -- PARTIAL: under the hypothesis that the
    normaliser equals (Σ |P|)^2.  The normaliser of psf.py counts non-zero samples instead; the two
    agree when no in-disk sample has zero intensity (amp_sum below), and differ otherwise (D09). *)
Theorem strehl_le_one_partial (M : nat) (Pp : list (list RC)) (norm : R) :
  (1 <= M)%nat -> 0 < norm -> norm = norm_spec M (@get2 ROps Pp) ->
  forall i j, @psf_at ROps M Pp norm i j / 100 <= 1.
Proof.
  intros HM Hn E i j. rewrite psf_is_sqmod_dft. subst norm.
  generalize (psf_le_100 M (@get2 ROps Pp) (unshift M i) (unshift M j) HM Hn). lra.
Qed.

(** amplitudes I_j / mean(I) sum to the number of samples: with K samples of non-zero intensity and
    phases zero, Σ|P| = K = number of non-zero samples, so the two normalisers coincide *)
Lemma amp_sum (I : nat -> R) (K : nat) :
  (1 <= K)%nat -> Rsum I K <> 0 -> Rsum (fun j => I j / (Rsum I K / INR K)) K = INR K.
Proof.
  intros HK HS. assert (0 < INR K) by (apply lt_0_INR; lia).
  rewrite (Rsum_ext _ (fun j => (INR K / Rsum I K) * I j)) by (intros; field; lra).
  rewrite Rsum_scal. field; lra.
Qed.
Lemma mean_R (l : list R) : @mean ROps l = Rsum (fun i => nth i l 0) (length l) / INR (length l).
Proof. unfold mean, ofN; rops. rewrite rsum_R, <- INR_IZR_INZ. reflexivity. Qed.

(** modulus of a pupil sample is its amplitude, whatever the wavefront error *)
Lemma pupil_entry_R a opd : @pupil_entry ROps a opd = pupil_sample a opd.
Proof. unfold pupil_entry, pupil_sample, two_pi; rops. unfold Cmul, RtoC, cis; simpl. f_equal; ring. Qed.
Lemma pupil_sample_n2 a opd : Cn2 (pupil_sample a opd) = a * a.
Proof.
  unfold pupil_sample. rewrite Cn2_mul. unfold Cn2 at 1; simpl.
  replace (Cn2 (cis (2 * PI * opd))) with 1; [ring|].
  unfold Cn2, cis; simpl. generalize (sin2_cos2 (2 * PI * opd)); unfold Rsqr; lra.
Qed.
Lemma pupil_sample_mod a opd : 0 <= a -> Cmod (pupil_sample a opd) = a.
Proof.
  intros Ha. unfold Cmod. rewrite pupil_sample_n2. replace (a * a) with (Rsqr a) by reflexivity.
  apply sqrt_Rsqr; assumption.
Qed.

(** ** total energy: Parseval, hence independent of the aberration *)
Theorem parseval (M : nat) (P : nat -> nat -> RC) :
  (1 <= M)%nat ->
  energy2 M (fun k l => Cn2 (S_C11_DFT.dft2 (wN M) M P k l)) = INR M * INR M * energy2 M (fun m n => Cn2 (P m n)).
Proof. intros HM; apply parseval_2d, wN_prim_root, HM. Qed.

Lemma energy2_ext M f g : (forall k l, (k < M)%nat -> (l < M)%nat -> f k l = g k l) -> energy2 M f = energy2 M g.
Proof. intros H; unfold energy2; apply Rsum_ext; intros; apply Rsum_ext; intros; apply H; assumption. Qed.
Lemma energy2_scal M c f : energy2 M (fun k l => f k l * c) = energy2 M f * c.
Proof.
  unfold energy2. rewrite (Rsum_ext _ (fun k => c * Rsum (fun l => f k l) M)).
  - rewrite Rsum_scal; ring.
  - intros. rewrite <- Rsum_scal. apply Rsum_ext; intros; ring.
Qed.

Theorem psf_energy (M : nat) (P : nat -> nat -> RC) (norm : R) :
  (1 <= M)%nat ->
  energy2 M (psf_spec (wN M) M P norm) = INR M * INR M * energy2 M (fun m n => Cn2 (P m n)) / norm * 100.
Proof.
  intros HM. unfold psf_spec.
  rewrite (energy2_ext M _ (fun k l => Cn2 (S_C11_DFT.dft2 (wN M) M P k l) * (/ norm * 100)))
    by (intros; unfold Rdiv; ring).
  rewrite energy2_scal, parseval by assumption. unfold Rdiv; ring.
Qed.

(** two pupils with the same amplitudes (any wavefront errors) carry the same total PSF energy *)
Theorem psf_energy_aberration_independent (M : nat) (a opd1 opd2 : nat -> nat -> R) (norm : R) :
  (1 <= M)%nat ->
  energy2 M (psf_spec (wN M) M (fun m n => pupil_sample (a m n) (opd1 m n)) norm) =
  energy2 M (psf_spec (wN M) M (fun m n => pupil_sample (a m n) (opd2 m n)) norm).
Proof.
  intros HM. rewrite !psf_energy by assumption. f_equal. f_equal. f_equal.
  apply energy2_ext; intros. rewrite !pupil_sample_n2. reflexivity.
Qed.

(** ** MTF bounds: for a non-negative PSF the modulus of its transform is largest at zero frequency *)
Theorem otf_le_dc (M : nat) (psf : nat -> nat -> R) (k l : nat) :
  (1 <= M)%nat -> (forall m n, 0 <= psf m n) ->
  Cmod (S_C11_DFT.dft2 (wN M) M (fun m n => RtoC (psf m n)) k l) <=
  Cmod (S_C11_DFT.dft2 (wN M) M (fun m n => RtoC (psf m n)) 0 0).
Proof.
  intros HM Hp.
  assert (E : Cmod (S_C11_DFT.dft2 (wN M) M (fun m n => RtoC (psf m n)) 0 0) =
              Rsum (fun m => Rsum (fun n => Cmod (RtoC (psf m n))) M) M).
  { unfold Cmod at 1. rewrite unaberrated_centre by assumption. unfold norm_spec.
    apply sqrt_square. apply Rsum_nonneg; intros; apply Rsum_nonneg; intros; apply Cmod_nonneg. }
  rewrite E. apply dft2_peak, wN_prim_root, HM.
Qed.

Theorem mtf_bounds (M : nat) (psf : nat -> nat -> R) (k l : nat) :
  (1 <= M)%nat -> (forall m n, 0 <= psf m n) ->
  0 < Cmod (S_C11_DFT.dft2 (wN M) M (fun m n => RtoC (psf m n)) 0 0) ->
  mtf_spec (wN M) M psf 0 0 = 1 /\ 0 <= mtf_spec (wN M) M psf k l <= 1.
Proof.
  intros HM Hp Hdc. unfold mtf_spec. split; [field; lra|].
  generalize (otf_le_dc M psf k l HM Hp); intros Hle.
  generalize (Cmod_nonneg (S_C11_DFT.dft2 (wN M) M (fun m n => RtoC (psf m n)) k l)); intros H0.
  split.
  - apply Rmult_le_pos; [assumption | left; apply Rinv_0_lt_compat; assumption].
  - apply Rmult_le_reg_r with (Cmod (S_C11_DFT.dft2 (wN M) M (fun m n => RtoC (psf m n)) 0 0)); [assumption|].
    unfold Rdiv. rewrite Rmult_assoc, Rinv_l by lra. lra.
Qed.

(** running maximum over reals (np.max); [neg inf_] is 0 in ROps, harmless for non-negative data *)
Lemma rmax_R_spec (f : nat -> R) (n : nat) (B : R) :
  0 <= B -> (forall i, (i < n)%nat -> f i <= B) ->
  @rmax ROps f n <= B /\ ((exists i, (i < n)%nat /\ f i = B) -> @rmax ROps f n = B).
Proof.
  intros HB. induction n; intros Hle.
  - simpl; rops. split; [lra|]. intros [i [Hi _]]; lia.
  - destruct IHn as [IH1 IH2]; [intros; apply Hle; lia|].
    assert (Hfn : f n <= B) by (apply Hle; lia).
    simpl. rops. destruct (Rltb (@rmax ROps f n) (f n)) eqn:E.
    + apply Rltb_true in E. split; [assumption|]. intros [i [Hi Hv]].
      destruct (Nat.eq_dec i n) as [->|Hne]; [assumption|].
      assert (@rmax ROps f n = B) by (apply IH2; exists i; split; [lia|assumption]). lra.
    + apply Rltb_false in E. split; [assumption|]. intros [i [Hi Hv]].
      destruct (Nat.eq_dec i n) as [->|Hne]; [lra|].
      apply IH2; exists i; split; [lia|assumption].
Qed.

(** model level: the tangential curve FFTMTF reports starts at one and stays in [0,1], provided the
    slice starts at the zero-frequency pixel (grid_size/2 = M/2, i.e. the PSF has the requested size) *)
Theorem mtf_tan_bounds (g : nat) (psf : list (list R)) :
  let M := length psf in
  (1 <= M)%nat -> (g / 2 = M / 2)%nat ->
  (forall m n, 0 <= @rget2 ROps psf m n) ->
  0 < Cmod (S_C11_DFT.dft2 (wN M) M (fun m n => RtoC (@rget2 ROps psf m n)) 0 0) ->
  nth 0 (@mtf_tan ROps g psf) 0 = 1 /\ forall v, In v (@mtf_tan ROps g psf) -> 0 <= v <= 1.
Proof.
  intros M HM Hg Hp Hdc.
  set (DC := Cmod (S_C11_DFT.dft2 (wN M) M (fun m n => RtoC (@rget2 ROps psf m n)) 0 0)) in *.
  assert (Hotf : forall i j, @otf_abs ROps M psf i j <= DC /\ 0 <= @otf_abs ROps M psf i j).
  { intros i j. unfold otf_abs. rewrite cabs_R, dft2_R. split; [apply otf_le_dc; assumption | apply Cmod_nonneg]. }
  assert (Hc : @otf_abs ROps M psf (M / 2) (M / 2) = DC).
  { unfold otf_abs. rewrite cabs_R, dft2_R, unshift_centre by assumption. reflexivity. }
  unfold mtf_tan. change (length psf) with M. rewrite Hg.
  set (c := (M / 2)%nat) in *.
  set (col := map (fun i => @otf_abs ROps M psf i c) (seq c (M - c))).
  assert (Hlen : (1 <= M - c)%nat).
  { unfold c. assert (M / 2 < M)%nat by (apply Nat.div_lt; lia). lia. }
  assert (Hcol0 : nth 0 col 0 = DC).
  { unfold col. destruct (M - c)%nat as [|k] eqn:Ek; [lia|]. simpl. exact Hc. }
  assert (Hcolle : forall i, (i < length col)%nat -> nth i col 0 <= DC).
  { intros i Hi. unfold col in *. rewrite map_length, seq_length in Hi.
    rewrite (nth_indep _ 0 (@otf_abs ROps M psf 0 c)) by (rewrite map_length, seq_length; assumption).
    rewrite (map_nth (fun i => @otf_abs ROps M psf i c)). apply Hotf. }
  assert (Hmx : @rmax ROps (fun i => nth i col (@ofZ ROps 0)) (length col) = DC).
  { apply (rmax_R_spec (fun i => nth i col 0) (length col) DC); [lra | assumption |].
    exists 0%nat. split; [unfold col; rewrite map_length, seq_length; lia | assumption]. }
  rewrite Hmx. split.
  - rewrite (nth_indep _ 0 (@div ROps 0 DC)).
    + rewrite (map_nth (fun v => @div ROps v DC)). rops. rewrite Hcol0. field; lra.
    + rewrite map_length. unfold col; rewrite map_length, seq_length; lia.
  - intros v Hv. apply in_map_iff in Hv. destruct Hv as [u [<- Hu]]. rops.
    unfold col in Hu. apply in_map_iff in Hu. destruct Hu as [i [<- _]].
    destruct (Hotf i c) as [H1 H2].
    split.
    + apply Rmult_le_pos; [assumption | left; apply Rinv_0_lt_compat; assumption].
    + apply Rmult_le_reg_r with DC; [assumption|]. unfold Rdiv. rewrite Rmult_assoc, Rinv_l by lra. lra.
Qed.

(** ** MTF never exceeds the diffraction limit -- the algebraic core: the modulus of the pupil's
    autocorrelation at any shift is at most the autocorrelation of its modulus (the unaberrated
    pupil with the same apodisation).  PARTIAL: that the transform of the PSF *is* the
    autocorrelation of the pupil is the autocorrelation theorem below (autocorr_1d, 1-D form). *)
Theorem autocorr_bound (P Q : nat -> RC) (n : nat) :
  Cmod (Csum (fun j => Cmul (P j) (Cconj (Q j))) n) <= Rsum (fun j => Cmod (P j) * Cmod (Q j)) n.
Proof.
  eapply Rle_trans; [apply Cmod_Csum_le|]. apply Rsum_le; intros j _.
  rewrite Cmod_mul. unfold Cmod at 2. rewrite Cn2_conj. fold (Cmod (Q j)). lra.
Qed.


(** 1-D form, fully proved: the transform of the PSF of an aberrated pupil never exceeds in modulus the
    transform of the PSF of the unaberrated pupil with the same amplitudes, and both have the same
    zero-frequency value -- so the normalised MTF is at most the diffraction-limited MTF. *)
Theorem autocorr_1d_wN (N : nat) (x : nat -> RC) (s : nat) : (1 <= N)%nat ->
  dft (wN N) N (fun k => RtoC (Cn2 (dft (wN N) N x k))) s =
  Cmul (RtoC (INR N)) (Csum (fun n => Cmul (x n) (Cconj (x ((n + s) mod N)))) N).
Proof. intros HN; apply autocorr_1d; [apply wN_prim_root|]; assumption. Qed.

Theorem mtf_le_diffraction_limit_1d (N : nat) (a opd : nat -> R) (s : nat) :
  (1 <= N)%nat -> (forall n, 0 <= a n) ->
  let otf := fun (x : nat -> RC) s => dft (wN N) N (fun k => RtoC (Cn2 (dft (wN N) N x k))) s in
  Cmod (otf (fun n => pupil_sample (a n) (opd n)) s) <= Cmod (otf (fun n => RtoC (a n)) s) /\
  otf (fun n => pupil_sample (a n) (opd n)) 0%nat = otf (fun n => RtoC (a n)) 0%nat.
Proof.
  intros HN Ha otf. unfold otf. rewrite !autocorr_1d_wN by assumption.
  assert (HNn : 0 <= INR N) by apply pos_INR.
  split.
  - rewrite !Cmod_mul, Cmod_RtoC, Rabs_right by (apply Rle_ge; assumption).
    apply Rmult_le_compat_l; [assumption|].
    eapply Rle_trans; [apply autocorr_bound|].
    rewrite (Rsum_ext _ (fun n => a n * a ((n + s) mod N)))
      by (intros; rewrite !pupil_sample_mod by apply Ha; reflexivity).
    rewrite (Csum_ext (fun n => Cmul (RtoC (a n)) (Cconj (RtoC (a ((n + s) mod N)))))
                      (fun n => RtoC (a n * a ((n + s) mod N)))) by (intros; cring).
    rewrite Csum_RtoC, Cmod_RtoC. apply Rle_abs.
  - f_equal. apply Csum_ext; intros n Hn. rewrite Nat.add_0_r, Nat.mod_small by assumption.
    rewrite !Cmul_conj, pupil_sample_n2. unfold Cn2, RtoC; simpl. f_equal; ring.
Qed.

(** ** diffraction-limited curve *)
Theorem difflim_spec (nu : R) : -1 <= nu <= 1 -> @difflim ROps nu = diff_limit nu.
Proof.
  intros H. unfold difflim, diff_limit; rops. rewrite cos_acos, sin_acos by assumption.
  unfold Rsqr. reflexivity.
Qed.
Theorem diff_limit_0 : diff_limit 0 = 1.
Proof.
  unfold diff_limit. rewrite acos_0. replace (1 - 0 * 0) with 1 by ring. rewrite sqrt_1.
  field. apply PI_neq0.
Qed.
Theorem diff_limit_1 : diff_limit 1 = 0.
Proof.
  unfold diff_limit. rewrite acos_1. replace (1 - 1 * 1) with 0 by ring. rewrite sqrt_0. ring.
Qed.
Theorem diff_limit_bounds (nu : R) : 0 <= nu <= 1 -> 0 <= diff_limit nu <= 1.
Proof.
  intros [H0 H1]. assert (HPI := PI_RGT_0).
  assert (Hb : -1 <= nu <= 1) by lra.
  rewrite <- difflim_spec by assumption. unfold difflim; rops.
  set (phi := acos nu).
  assert (Hphi : 0 <= phi <= PI) by apply acos_bound.
  assert (Hc : cos phi = nu) by (apply cos_acos; assumption).
  assert (Hhalf : phi <= PI / 2).
  { destruct (Rle_dec phi (PI / 2)) as [|Hn]; [assumption|]. exfalso.
    assert (cos phi < 0) by (apply cos_lt_0; lra). lra. }
  assert (Hs0 : 0 <= sin phi) by (apply sin_ge_0; lra).
  assert (Hsle : sin phi <= phi).
  { destruct (Req_dec phi 0) as [->|Hne]; [rewrite sin_0; lra|]. left; apply sin_lt_x; lra. }
  assert (Hcs : 0 <= cos phi * sin phi <= phi).
  { rewrite Hc. split; [apply Rmult_le_pos; assumption|]. nra. }
  assert (Hi : 0 < 2 / PI) by (apply Rdiv_lt_0_compat; lra).
  split.
  - apply Rmult_le_pos; lra.
  - replace 1 with (2 / PI * (PI / 2)) by (field; lra). apply Rmult_le_compat_l; lra.
Qed.

(** ** frequency axis: the transform-conjugate step of the PSF pixel pitch puts the cut-off
    (index num_rays) at 1/(wavelength_mm * working F-number) *)
Theorem freq_axis_cutoff (grid num_rays wavelength fno : R) :
  grid <> 0 -> num_rays <> 0 -> wavelength <> 0 -> fno <> 0 ->
  num_rays * @freq_step_model ROps grid num_rays wavelength fno = cutoff_mm wavelength fno /\
  @freq_step_model ROps grid num_rays wavelength fno =
    freq_step_mm grid (wavelength * fno / (grid / num_rays)).
Proof.
  intros. unfold freq_step_model, cutoff_mm, freq_step_mm; rops. split; [field; repeat split; assumption | reflexivity].
Qed.

(** ** geometric MTF: modulus of the Fourier transform of the line-spread histogram *)
Theorem geo_mtf_is_ft_of_lsf (A x : nat -> R) (nb : nat) (dx v scale : R) :
  dx <> 0 -> 0 < Rsum A nb ->
  @geo_mtf_xs ROps A x nb dx v scale = geo_mtf_spec A x nb v * scale.
Proof.
  intros Hdx HA. unfold geo_mtf_xs, geo_mtf_spec, two_pi; rops. change (@rsum ROps) with Rsum.
  f_equal.
  set (S := Rsum A nb) in *.
  assert (Hden : Rsum (fun b => A b * dx) nb = dx * S).
  { unfold S. rewrite <- Rsum_scal. apply Rsum_ext; intros; ring. }
  assert (Hc : Rsum (fun b => A b * cos (2 * PI * v * x b) * dx) nb = dx * fst (lsf_ft A x nb v)).
  { unfold lsf_ft. rewrite fst_Csum, <- Rsum_scal. apply Rsum_ext; intros. csimp. ring. }
  assert (Hs : Rsum (fun b => A b * sin (2 * PI * v * x b) * dx) nb = dx * snd (lsf_ft A x nb v)).
  { unfold lsf_ft. rewrite snd_Csum, <- Rsum_scal. apply Rsum_ext; intros. csimp. ring. }
  rewrite Hden, Hc, Hs. unfold Cmod, Cn2.
  set (re := fst (lsf_ft A x nb v)). set (im := snd (lsf_ft A x nb v)).
  replace (dx * re / (dx * S) * (dx * re / (dx * S)) + dx * im / (dx * S) * (dx * im / (dx * S)))
    with ((re * re + im * im) / (S * S)) by (field; split; lra).
  rewrite sqrt_div_alt by nra. rewrite sqrt_square by lra. reflexivity.
Qed.

Theorem geo_mtf_bounds (A x : nat -> R) (nb : nat) (v : R) :
  (forall b, 0 <= A b) -> 0 < Rsum A nb ->
  0 <= geo_mtf_spec A x nb v <= 1 /\ geo_mtf_spec A x nb 0 = 1.
Proof.
  intros HA HS. unfold geo_mtf_spec.
  assert (Hle : forall v', Cmod (lsf_ft A x nb v') <= Rsum A nb).
  { intros v'. unfold lsf_ft. eapply Rle_trans; [apply peak_bound_1d; intros; apply Cmod_cis|].
    right. apply Rsum_ext; intros. rewrite Cmod_RtoC, Rabs_right; [reflexivity | apply Rle_ge, HA]. }
  split; [split|].
  - apply Rmult_le_pos; [apply Cmod_nonneg | left; apply Rinv_0_lt_compat; assumption].
  - apply Rmult_le_reg_r with (Rsum A nb); [assumption|]. unfold Rdiv.
    rewrite Rmult_assoc, Rinv_l by lra. generalize (Hle v); lra.
  - assert (E : lsf_ft A x nb 0 = RtoC (Rsum A nb)).
    { unfold lsf_ft. rewrite <- Csum_RtoC. apply Csum_ext; intros.
      replace (2 * PI * 0 * x i) with 0 by ring. unfold cis. rewrite cos_0, sin_0. cring. }
    rewrite E, Cmod_RtoC, Rabs_right by lra. field; lra.
Qed.

(** ** zero padding (integer arithmetic of _pad_pupils) *)
Theorem pad_size_even (grid n : Z) :
  (0 < n <= grid)%Z -> ((grid - n) mod 2 = 0)%Z -> centred_pad_ok grid n (padded_size grid n).
Proof.
  intros Hn He. unfold centred_pad_ok, padded_size, pad_of.
  assert (grid - n = 2 * ((grid - n) / 2))%Z by (generalize (Z.div_mod (grid - n) 2); lia).
  split; [lia|]. f_equal; lia.
Qed.
Theorem pad_size_odd (grid n : Z) :
  (0 < n <= grid)%Z -> ((grid - n) mod 2 = 1)%Z -> padded_size grid n = (grid - 1)%Z.
Proof.
  intros Hn He. unfold padded_size, pad_of. generalize (Z.div_mod (grid - n) 2); lia.
Qed.
Example pad_hyp_sat : centred_pad_ok 64 32 (padded_size 64 32).
Proof. apply pad_size_even; [lia | reflexivity]. Qed.

(** ** non-vacuity *)
Example peak_hyp_sat : (1 <= 4)%nat /\ 0 < norm_spec 4 (fun m n => RtoC 1).
Proof. split; [lia|]. unfold norm_spec; simpl. rewrite Cmod_RtoC, Rabs_R1. lra. Qed.
Example geo_hyp_sat : (forall b : nat, 0 <= (fun _ => 1) b) /\ 0 < Rsum (fun _ => 1) 3.
Proof. split; [intros; lra | simpl; lra]. Qed.
Example freq_hyp_sat : (512 <> 0 /\ 128 <> 0 /\ 0.55 <> 0 /\ 5 <> 0).
Proof. repeat split; lra. Qed.

(** C03: vignetting factors can only shrink the sampled pupil; the uniform sampling keeps exactly the grid
    nodes inside the unit circle. *)
From Coq Require Import Reals Lra Lia ZArith List Bool Psatz.
From OV Require Import Ops OpsC03 OpsC18 RInst Gen.Distrib Spec.S_C03 Model.M_C03 Lemmas.L_C03_dist.
Import ListNotations.
Local Open Scope R_scope.

(** ** np.interp of values in [0,1] stays in [0,1] (a convex combination of two neighbours, or an end value) *)
Section Interp.
  Notation U := unit_interval.

  Lemma interp_seg_range : forall rest x x0 f0, x0 <= x -> U f0 -> Forall (fun p => U (snd p)) rest ->
    U (interp_seg (O := ROps) x x0 f0 rest).
  Proof.
    induction rest as [|[x1 f1] rest IH]; intros x x0 f0 Hx Hf0 Hr; cbn [interp_seg]; [exact Hf0|].
    inversion Hr as [|? ? Hf1 Hr']. subst. cbn [snd] in Hf1. rops.
    destruct (Rltb x x1) eqn:E1.
    - apply Rltb_true in E1. destruct (Reqb x x0); [exact Hf0|].
      assert (Hd : 0 < x1 - x0) by lra.
      set (t := (x - x0) / (x1 - x0)).
      assert (Ht : 0 <= t <= 1).
      { unfold t. split.
        - apply Rmult_le_pos; [lra|left; apply Rinv_0_lt_compat; lra].
        - apply Rmult_le_reg_r with (x1 - x0); [lra|]. unfold Rdiv. rewrite Rmult_assoc, Rinv_l by lra. lra. }
      replace ((f1 - f0) / (x1 - x0) * (x - x0) + f0) with (f0 + t * (f1 - f0)) by (unfold t; field; lra).
      destruct Hf0, Hf1. unfold U. split; nra.
    - apply Rltb_false in E1. apply IH; [lra|exact Hf1|exact Hr'].
  Qed.

  Theorem interp_range x (xp fp : list R) : Forall U fp -> U (interp_ (O := ROps) x xp fp).
  Proof.
    intros Hf. unfold interp_, interp_pairs. rops.
    assert (Hc : Forall (fun p => U (snd p)) (combine xp fp)).
    { apply Forall_forall. intros [a b] Hin. apply in_combine_r in Hin. rewrite Forall_forall in Hf. apply Hf. exact Hin. }
    destruct (combine xp fp) as [|[x0 f0] rest]; rops; [unfold unit_interval; split; lra|].
    inversion Hc as [|? ? H0 Hr]. subst. cbn [snd] in H0.
    destruct (Rltb x x0) eqn:E; [exact H0|]. apply Rltb_false in E.
    apply interp_seg_range; assumption.
  Qed.
End Interp.

(** ** FieldGroup.get_vig_factor (hand model): factors of fields in [0,1] give factors in [0,1] *)
Section Vig.
  Notation U := unit_interval.
  Definition field_ok (f : field ROps) : Prop := U (f_vx f) /\ U (f_vy f).

  Lemma insert_ok f l : field_ok f -> Forall field_ok l -> Forall field_ok (insert_y f l).
  Proof.
    intros Hf. induction l as [|g l IH]; intros Hl; cbn [insert_y]; [constructor; [exact Hf|constructor]|].
    inversion Hl. subst. destruct (ltb_ _ _).
    - constructor; [exact Hf|]. constructor; assumption.
    - constructor; [assumption|]. apply IH; assumption.
  Qed.

  Lemma sort_ok fs : Forall field_ok fs -> Forall field_ok (sort_y fs).
  Proof.
    unfold sort_y. intros H.
    assert (G : forall acc, Forall field_ok acc -> Forall field_ok (fold_left (fun a f => insert_y f a) fs acc)).
    { induction fs as [|f fs IH]; intros acc Ha; cbn [fold_left]; [exact Ha|].
      inversion H. subst. apply IH; [assumption|]. apply insert_ok; assumption. }
    apply G. constructor.
  Qed.

  Theorem vig_factor_range fs Hx Hy a b :
    Forall field_ok fs -> vig_factor (O := ROps) fs Hx Hy = Some (a, b) -> U a /\ U b.
  Proof.
    intros Hf. unfold vig_factor. destruct (forallb _ fs); [|discriminate].
    intros H. inversion H. clear H. apply sort_ok in Hf.
    split; apply interp_range; apply Forall_map; eapply Forall_impl; try exact Hf; intros f [? ?]; assumption.
  Qed.

  (** the three (1 - v) factors met on the Optic.trace path (sampling, Optic.trace, generator) still only shrink *)
  Theorem trace_path_shrinks p v : U v -> Rabs (p * (1 - v) * (1 - v) * (1 - v)) <= Rabs p.
  Proof.
    intros Hv. eapply Rle_trans; [apply shrink_abs; exact Hv|].
    eapply Rle_trans; [apply shrink_abs; exact Hv|]. apply shrink_abs; exact Hv.
  Qed.

  (** aim point of a vignetted field lies no further from the axis than the unvignetted one *)
  Theorem aim_shrinks P EPD v : U v -> Rabs (P * (1 - v) * EPD / 2) <= Rabs (P * EPD / 2).
  Proof.
    intros Hv. replace (P * (1 - v) * EPD / 2) with ((P * EPD / 2) * (1 - v)) by field.
    apply shrink_abs; exact Hv.
  Qed.
End Vig.

(** ** every sampling with vignetting (vx, vy) is, point by point, no larger than the same sampling without *)
Section Shrinks.
  Notation U := unit_interval.
  Definition shrinks (a b : list R) : Prop := Forall2 (fun p q => Rabs p <= Rabs q) a b.

  Lemma map_shrinks (X : list R) v : U v -> shrinks (map (fun t => t * (1 - v)) X) (map (fun t => t * (1 - 0)) X).
  Proof.
    intros Hv. induction X as [|x X IH]; cbn; constructor; [|exact IH].
    replace (x * (1 - 0)) with x by ring. apply shrink_abs; exact Hv.
  Qed.
  Lemma zeros_shrinks n : shrinks (zerosZ (O := ROps) n) (zerosZ (O := ROps) n).
  Proof. unfold zerosZ. induction (Z.to_nat n); cbn; constructor; [lra|assumption]. Qed.

  Theorem line_x_shrinks n vx po : U vx ->
    shrinks (fst (k_dist_line_x ROps n vx po)) (fst (k_dist_line_x ROps n 0 po)) /\
    shrinks (snd (k_dist_line_x ROps n vx po)) (snd (k_dist_line_x ROps n 0 po)).
  Proof. intros H. unfold k_dist_line_x. cbn [fst snd]. rops. split; [destruct po; apply map_shrinks; exact H|apply zeros_shrinks]. Qed.

  Theorem line_y_shrinks n vy po : U vy ->
    shrinks (fst (k_dist_line_y ROps n vy po)) (fst (k_dist_line_y ROps n 0 po)) /\
    shrinks (snd (k_dist_line_y ROps n vy po)) (snd (k_dist_line_y ROps n 0 po)).
  Proof. intros H. unfold k_dist_line_y. cbn [fst snd]. rops. split; [apply zeros_shrinks|destruct po; apply map_shrinks; exact H]. Qed.

  Theorem cross_shrinks n vx vy : U vx -> U vy ->
    shrinks (fst (k_dist_cross ROps n vx vy)) (fst (k_dist_cross ROps n 0 0)) /\
    shrinks (snd (k_dist_cross ROps n vx vy)) (snd (k_dist_cross ROps n 0 0)).
  Proof. intros Hx Hy. unfold k_dist_cross. cbn [fst snd]. rops. split; apply map_shrinks; assumption. Qed.

  Theorem ring_shrinks n vx vy : U vx -> U vy ->
    shrinks (fst (k_dist_ring ROps n vx vy)) (fst (k_dist_ring ROps n 0 0)) /\
    shrinks (snd (k_dist_ring ROps n vx vy)) (snd (k_dist_ring ROps n 0 0)).
  Proof. intros Hx Hy. unfold k_dist_ring. cbn [fst snd]. rops. split; apply map_shrinks; assumption. Qed.

  Theorem uniform_shrinks n vx vy : U vx -> U vy ->
    shrinks (fst (k_dist_uniform ROps n vx vy)) (fst (k_dist_uniform ROps n 0 0)) /\
    shrinks (snd (k_dist_uniform ROps n vx vy)) (snd (k_dist_uniform ROps n 0 0)).
  Proof. intros Hx Hy. unfold k_dist_uniform. cbn [fst snd]. rops. split; apply map_shrinks; assumption. Qed.

  Theorem random_shrinks vx vy r th : U vx -> U vy ->
    shrinks (fst (k_dist_random ROps vx vy r th)) (fst (k_dist_random ROps 0 0 r th)) /\
    shrinks (snd (k_dist_random ROps vx vy r th)) (snd (k_dist_random ROps 0 0 r th)).
  Proof. intros Hx Hy. unfold k_dist_random. cbn [fst snd]. rops. split; apply map_shrinks; assumption. Qed.

  Theorem hexapolar_shrinks n vx vy : U vx -> U vy ->
    shrinks (fst (k_dist_hexapolar ROps n vx vy)) (fst (k_dist_hexapolar ROps n 0 0)) /\
    shrinks (snd (k_dist_hexapolar ROps n vx vy)) (snd (k_dist_hexapolar ROps n 0 0)).
  Proof.
    intros Hx Hy. rewrite !hexapolar_unfold. cbv zeta. destruct (fold_left _ _ _) as [x y]. cbn [fst snd]. rops.
    split; apply map_shrinks; assumption.
  Qed.

  Theorem gq_shrinks n vx vy sym xs ys xs0 ys0 : U vx -> U vy ->
    k_dist_gq ROps n vx vy sym = Some (xs, ys) -> k_dist_gq ROps n 0 0 sym = Some (xs0, ys0) ->
    shrinks xs xs0 /\ shrinks ys ys0.
  Proof.
    intros Hx Hy. unfold k_dist_gq. destruct (k_dist_gq_radius ROps n) as [l|]; [|discriminate].
    intros H H0. inversion H. inversion H0. rops. split; apply map_shrinks; assumption.
  Qed.
End Shrinks.

(** ** uniform sampling: the points are the nodes (x_i, y_j) of the n x n grid on [-1,1]^2 with x^2 + y^2 <= 1,
    in row-major order, scaled by the vignetting factors (any arithmetic) *)
Section Uniform.
  Context {O : Ops}.
  Notation T := (T O).

  Definition grid (xs ys : list T) : list (T * T) := flat_map (fun y => map (fun x => (x, y)) xs) ys.
  Definition inside (p : T * T) : bool := leb_ (add (mul (fst p) (fst p)) (mul (snd p) (snd p))) (ofZ 1).

  Lemma combine_const (xs : list T) (y : T) : combine xs (map (fun _ => y) xs) = map (fun x => (x, y)) xs.
  Proof. induction xs as [|x xs IH]; cbn; [reflexivity|rewrite IH; reflexivity]. Qed.

  Lemma mesh_grid (xs ys : list T) : combine (mesh_x xs ys) (mesh_y xs ys) = grid xs ys.
  Proof.
    unfold mesh_x, mesh_y, grid. induction ys as [|y ys IH]; cbn [flat_map]; [reflexivity|].
    rewrite combine_app_eq by (rewrite map_length; reflexivity). rewrite IH, combine_const. reflexivity.
  Qed.

  Lemma mask_of_pairs : forall X Y : list T,
    map (fun v => leb_ v (ofZ 1)) (zip2 add (map (fun v => mul v v) X) (map (fun v => mul v v) Y)) = map inside (combine X Y).
  Proof. unfold zip2, inside. induction X as [|x X IH]; intros [|y Y]; cbn; try reflexivity. rewrite IH. reflexivity. Qed.

  Lemma mask_filter_pairs : forall X Y : list T,
    combine (mask_filter X (map inside (combine X Y))) (mask_filter Y (map inside (combine X Y))) = filter inside (combine X Y).
  Proof.
    unfold mask_filter. induction X as [|x X IH]; intros [|y Y]; cbn; try reflexivity.
    destruct (inside (x, y)); cbn; rewrite IH; reflexivity.
  Qed.

  Lemma mask_filter_same_length : forall X Y : list T,
    length (mask_filter X (map inside (combine X Y))) = length (mask_filter Y (map inside (combine X Y))).
  Proof.
    unfold mask_filter. induction X as [|a X IH]; intros [|b Y]; cbn; try reflexivity.
    destruct (inside (a, b)); cbn; rewrite IH; reflexivity.
  Qed.

  Theorem uniform_points n vx vy :
    let xs := linspace_ (ofZ (-1)) (ofZ 1) n in
    combine (fst (k_dist_uniform O n vx vy)) (snd (k_dist_uniform O n vx vy)) =
    map (fun p => (mul (fst p) (sub (ofZ 1) vx), mul (snd p) (sub (ofZ 1) vy))) (filter inside (grid xs xs)).
  Proof.
    intros xs. unfold k_dist_uniform. cbn [fst snd]. fold xs.
    rewrite combine_map2, mask_of_pairs, mask_filter_pairs, mesh_grid. reflexivity.
  Qed.

  Lemma filter_len_le {A} (f : A -> bool) (l : list A) : (length (filter f l) <= length l)%nat.
  Proof. induction l as [|a l IH]; cbn; [lia|]. destruct (f a); cbn; lia. Qed.

  Lemma combine_split_length {A B} (l : list (A * B)) a b : combine a b = l -> length a = length b -> length a = length l.
  Proof. intros <- H. rewrite combine_length. lia. Qed.

  Theorem uniform_count n vx vy :
    let xs := linspace_ (ofZ (-1)) (ofZ 1) n in
    length (fst (k_dist_uniform O n vx vy)) = length (filter inside (grid xs xs)) /\
    length (snd (k_dist_uniform O n vx vy)) = length (filter inside (grid xs xs)) /\
    (length (filter inside (grid xs xs)) <= Z.to_nat n * Z.to_nat n)%nat.
  Proof.
    intros xs. pose proof (uniform_points n vx vy) as H. cbv zeta in H. fold xs in H.
    assert (L : length (fst (k_dist_uniform O n vx vy)) = length (snd (k_dist_uniform O n vx vy))).
    { unfold k_dist_uniform. cbn [fst snd]. rewrite !map_length, mask_of_pairs. apply mask_filter_same_length. }
    assert (E := f_equal (@length _) H). rewrite combine_length, map_length in E.
    repeat split; try lia.
    eapply Nat.le_trans; [apply filter_len_le|].
    unfold grid. clear. assert (Lx : length xs = Z.to_nat n) by apply linspace_length.
    assert (G : forall ys : list T, length (flat_map (fun y => map (fun x => (x, y)) xs) ys) = (length ys * length xs)%nat).
    { induction ys as [|y ys IH]; cbn; [reflexivity|]. rewrite app_length, map_length, IH. reflexivity. }
    rewrite G, Lx. lia.
  Qed.
End Uniform.

(** The plumbing lists REGENERATED from /repo (Gen/Plumbing.v), executed by Model/Plumb.v, are exactly the
    hand-written composition of Model/Trace.v.  Generic in the arithmetic signature: the statement holds for
    the real-number instance the theorems use and for the binary64 instance the correspondence executes. *)
From Coq Require Import ZArith List Bool.
From OV Require Import Ops Gen.RealRays Gen.Standard Gen.Geometries Gen.Apertures Model.Trace
  Model.PlumbSteps Gen.Plumbing Model.Plumb.
Import ListNotations.

Section L.
  Context {O : Ops}.

  (** the lists as they are in the source tree under test *)
  Definition repo_lists : lists :=
    mkLists plumb_trace_real plumb_interact plumb_surface_trace plumb_localize plumb_globalize
            plumb_coat_interact plumb_group_trace plumb_geom_localize plumb_geom_globalize.

  Theorem plumb_localize_is_model (s : surf O) (r : ray O) :
    cs_run s plumb_localize r = Ok (localize s r).
  Proof.
    unfold plumb_localize, localize. cbn [cs_run cs_step].
    destruct (k_translate O _ _ _ _ _ _) as [[x y] z]. cbn [rx ry rz rL rM rN ri rw ropd].
    reflexivity.
  Qed.

  Theorem plumb_globalize_is_model (s : surf O) (r : ray O) :
    cs_run s plumb_globalize r = Ok (globalize s r).
  Proof.
    unfold plumb_globalize, globalize. cbn [cs_run cs_step].
    destruct (k_translate O _ _ _ _ _ _) as [[x y] z]. reflexivity.
  Qed.

  Lemma geom_localize_is_model (s : surf O) (r : ray O) :
    geom_run (l_gloc repo_lists) (l_loc repo_lists) PCsLocalize s r = Ok (localize s r).
  Proof. cbn [repo_lists l_gloc l_loc]. unfold plumb_geom_localize, geom_run. apply plumb_localize_is_model. Qed.

  Lemma geom_globalize_is_model (s : surf O) (r : ray O) :
    geom_run (l_gglob repo_lists) (l_glob repo_lists) PCsGlobalize s r = Ok (globalize s r).
  Proof. cbn [repo_lists l_gglob l_glob]. unfold plumb_geom_globalize, geom_run. apply plumb_globalize_is_model. Qed.

  (** Surface._trace_real, as written in the source, IS [trace_surface] *)
  Theorem plumb_trace_real_is_model (s : surf O) (r : ray O) :
    trace_real_run repo_lists s (l_tr repo_lists) r None = of_opt (trace_surface s r).
  Proof.
    change (l_tr repo_lists) with plumb_trace_real. unfold plumb_trace_real.
    cbn [trace_real_run]. rewrite geom_localize_is_model.
    unfold trace_surface.
    destruct (distance (s_shape s) (localize s r)) as [t|]; [|reflexivity].
    cbn [trace_real_run].
    destruct (k_propagate O t _ _ _ _ _ _ _ _ _) as [[[x y] z] i].
    cbn [trace_real_run rx ry rz rL rM rN ri rw ropd].
    change (l_int repo_lists) with plumb_interact. change (l_coat repo_lists) with plumb_coat_interact.
    unfold plumb_interact, plumb_coat_interact.
    destruct (s_aper s) as [[rmax rmin]|]; cbn [interact_run rx ry rz rL rM rN ri rw ropd];
      (destruct (normal (s_shape s) _) as [[[nx ny] nz]|]; [|reflexivity]);
      cbn [interact_run];
      destruct (if s_refl s then _ else _) as [[L M] N];
      cbn [interact_run rx ry rz rL rM rN ri rw ropd];
      (destruct (s_coat s) as [[tr rf]|]; cbn [coat_run interact_run trace_real_run rx ry rz rL rM rN ri rw ropd]);
      rewrite geom_globalize_is_model; cbn [trace_real_run of_opt]; reflexivity.
  Qed.

  Theorem plumb_surface_trace_is_model (s : surf O) (r : ray O) :
    surface_trace_run repo_lists s r = of_opt (trace_surface s r).
  Proof.
    unfold surface_trace_run. change (l_strace repo_lists) with plumb_surface_trace.
    unfold plumb_surface_trace. apply plumb_trace_real_is_model.
  Qed.

  (** SurfaceGroup.trace over any number of surfaces IS [trace] *)
  Theorem plumb_group_trace_is_model (ss : list (surf O)) : forall r : ray O,
    group_trace_run repo_lists ss r = of_opt (trace ss r).
  Proof.
    unfold group_trace_run. change (l_group repo_lists) with plumb_group_trace. unfold plumb_group_trace.
    induction ss as [|s ss IH]; intros r; [reflexivity|].
    cbn [each_surface trace]. rewrite plumb_surface_trace_is_model.
    destruct (trace_surface s r) as [r'|]; cbn [of_opt]; [|reflexivity].
    rewrite IH. destruct (trace ss r') as [l|]; reflexivity.
  Qed.

  (** the regenerated plumbing is always understood: never [Bad] *)
  Corollary plumb_never_bad (ss : list (surf O)) (r : ray O) : group_trace_run repo_lists ss r <> Bad.
  Proof. rewrite plumb_group_trace_is_model. destruct (trace ss r); discriminate. Qed.
End L.

(** the interpreter is not vacuous: dropping, reordering or duplicating a step of _trace_real changes the result *)
From Coq Require Import Reals Lra.
From OV Require Import RInst.
Local Open Scope R_scope.

Example reordered_plumbing_is_rejected_or_differs :
  let bad := mkLists [PReset; PLocalize; PPropagate; PDistance; POpd; PClipIfAperture; PInteract; PGlobalize; PRecord; PReturn]
                     plumb_interact plumb_surface_trace plumb_localize plumb_globalize
                     plumb_coat_interact plumb_group_trace plumb_geom_localize plumb_geom_globalize in
  forall (s : surf ROps) (r : ray ROps), trace_real_run bad s (l_tr bad) r None = Bad.
Proof.
  intros bad s r. cbn [bad l_tr trace_real_run]. rewrite (geom_localize_is_model (O:=ROps)). reflexivity.
Qed.


(** C03: the hypotheses of the launch theorems are satisfiable (concrete prescriptions). *)
From Coq Require Import Reals Lra Lia ZArith List Bool String.
From OV Require Import Ops OpsC03 RInst Gen.Standard Gen.RayGen Gen.Distrib Spec.S_C03
  Lemmas.L_C03_launch Lemmas.L_C03_table Lemmas.L_C03_dist.
Import ListNotations.
Local Open Scope string_scope.
Local Open Scope R_scope.

(** a lens with surfaces at z = 0 and 5, image at 50, EPD 10, entrance pupil at z = 3 *)
Definition ex_pos : list R := [0; 0; 5; 50].

Lemma ex_offset : offset 10 ex_pos = 10.
Proof.
  unfold offset, k_rg_z_offset, ex_pos, min_list, sliceZ. cbn. rops.
  change (Pos.to_nat 2) with 2%nat. change (Pos.to_nat 1) with 1%nat. cbn [firstn skipn fold_left].
  assert (E : Rltb 5 0 = false) by (apply Rltb_false; lra). rewrite E. ring.
Qed.

(** infinite object, angle fields: the generator returns a ray and the hypotheses of launch_infinite_angle hold *)
Example ex_infinite_angle :
  exists r, k_rg_generate ROps 0 1 0 (1/2) (55/100) 0 0 5 true "angle" false 3 10 ex_pos 0 0 0 "EPD" 10 "ignore" false = Some r
            /\ getZ (O := ROps) ex_pos 1 = 0 /\ offset 10 ex_pos + 3 <> 0 /\ 0 < r_N r.
Proof.
  eexists. split; [reflexivity|]. split; [reflexivity|]. split; [rewrite ex_offset; lra|].
  match goal with |- 0 < r_N ?r => pose proof (launch_infinite_angle 0 1 0 (1/2) (55/100) 0 0 5 3 10 0 0 0 10 ex_pos "EPD" "ignore" false r eq_refl eq_refl) as H end.
  rewrite ex_offset in H. destruct (H ltac:(lra)) as (_ & _ & _ & _ & Hpos & _). apply Hpos. lra.
Qed.

(** finite object, height fields, on-axis field: the aim-point hypothesis (aim point distinct from the origin) holds *)
Example ex_finite_height :
  exists r, k_rg_generate ROps 0 0 0 1 (55/100) 0 0 0 false "object_height" false 3 10 ex_pos 1 0 (-100) "EPD" 10 "ignore" false = Some r
            /\ (0 * (1 - 0) * 10 / 2 - r_x r) * (0 * (1 - 0) * 10 / 2 - r_x r) +
               (1 * (1 - 0) * 10 / 2 - r_y r) * (1 * (1 - 0) * 10 / 2 - r_y r) + (3 - r_z r) * (3 - r_z r) <> 0.
Proof.
  eexists. split; [reflexivity|]. cbn [r_x r_y r_z]. rops.
  assert (Hz : k_std_sag ROps (0 * 0) (0 * 0) 1 0 = 0).
  { unfold k_std_sag. rops. replace (0 * 0 * (0 * 0) + 0 * 0 * (0 * 0)) with 0 by ring. unfold Rdiv. apply Rmult_0_l. }
  rewrite Hz.
  match goal with |- ?a * ?a + ?b * ?b + ?c * ?c <> 0 => assert (0 <= a * a) by nra; assert (0 <= b * b) by nra; assert (0 < c * c) by nra end.
  lra.
Qed.

(** telecentric object space with NA = 1/10 is traced *)
Example ex_telecentric :
  exists r, k_rg_generate ROps 0 1 0 1 (55/100) 0 0 4 false "object_height" true 0 0 ex_pos 1 0 (-100) "objectNA" (1/10) "ignore" false = Some r
            /\ 0 < 1/10 < 1.
Proof. eexists. split; [reflexivity|lra]. Qed.

(** the cell (infinite object, height fields) is rejected; a valid cell is not *)
Example ex_table :
  rejected true "object_height" false "EPD" = true /\ rejected false "object_height" true "objectNA" = false /\
  rejected true "angle" false "imageFNO" = false.
Proof. repeat split. Qed.

Example ex_counts : hexapolar_count 6 = 127%Z /\ cross_count 5 = 10%Z /\ gq_count false 6 = 18%Z /\ gq_rings_ok 7 = false.
Proof. repeat split. Qed.

Example ex_unit : unit_interval (3/10).
Proof. unfold unit_interval. lra. Qed.

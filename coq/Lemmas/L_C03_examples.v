(** C03: the hypotheses of the launch theorems are satisfiable (concrete prescriptions). *)
From Coq Require Import Reals Lra Lia ZArith List Bool String.
From OV Require Import Ops OpsC03 RInst Gen.Standard Gen.RayGen Gen.Distrib Spec.S_C03
  Lemmas.L_C03_launch Lemmas.L_C03_table Lemmas.L_C03_dist.
Import ListNotations.
Local Open Scope string_scope.
Local Open Scope R_scope.

(** a lens with surfaces at z = 0 and 5, image at 50, EPD 10, entrance pupil at z = 3 *)
Definition ex_pos : list R := [0; 0; 5; 50].

(** infinite object, angle fields: the generator returns a ray, the hypotheses of launch_infinite_angle hold and the
    ray travels forward *)
Example ex_infinite_angle :
  exists r, k_rg_generate ROps 0 1 0 (1/2) (55/100) 0 0 5 true "angle" false 3 10 ex_pos 0 0 0 "EPD" 1 10 "ignore" false = Some r
            /\ getZ (O := ROps) ex_pos 1 = 0 /\ 0 < 10 /\ 0 < r_N r.
Proof.
  eexists. split; [reflexivity|]. split; [reflexivity|]. split; [lra|].
  match goal with |- 0 < r_N ?r => pose proof (launch_infinite_angle 0 1 0 (1/2) (55/100) 0 0 5 3 10 0 0 0 1 10 ex_pos "EPD" "ignore" false r eq_refl eq_refl ltac:(lra)) as H end.
  destruct H as (_ & _ & Hpos & _). exact Hpos.
Qed.

(** the prescription of the former finding (stop 95 behind an f = 50 singlet, entrance pupil at z = -100, left of the old
    launch plane z = -10): since fix 45f857e the ray is launched forward from a plane left of the pupil *)
Example ex_pupil_left_of_lens :
  exists r, k_rg_generate ROps 0 1 0 (1/2) (55/100) 0 0 5 true "angle" false (-100) 10 [0; 0; 5; 100; 120] 0 0 0 "EPD" 1 10 "ignore" false = Some r
            /\ 0 < r_N r /\ r_z r + 10 <= -100.
Proof.
  eexists. split; [reflexivity|].
  match goal with |- 0 < r_N ?r /\ _ => pose proof (launch_infinite_angle 0 1 0 (1/2) (55/100) 0 0 5 (-100) 10 0 0 0 1 10 [0; 0; 5; 100; 120] "EPD" "ignore" false r eq_refl eq_refl ltac:(lra)) as H end.
  destruct H as (_ & _ & Hpos & _ & Hz & _). split; assumption.
Qed.

(** finite object, height fields, on-axis field: the aim-point hypothesis (aim point distinct from the origin) holds *)
Example ex_finite_height :
  exists r, k_rg_generate ROps 0 0 0 1 (55/100) 0 0 0 false "object_height" false 3 10 ex_pos 1 0 (-100) "EPD" 1 10 "ignore" false = Some r
            /\ (0 * (1 - 0) * 10 / 2 - r_x r) * (0 * (1 - 0) * 10 / 2 - r_x r) +
               (1 * (1 - 0) * 10 / 2 - r_y r) * (1 * (1 - 0) * 10 / 2 - r_y r) + (3 - r_z r) * (3 - r_z r) <> 0.
Proof.
  eexists. split; [reflexivity|]. cbn [r_x r_y r_z]. rops.
  assert (Hz : k_std_sag ROps (0 * 0) (0 * 0) 1 0 = 0).
  { unfold k_std_sag. rops. replace (0 * 0 * (0 * 0) + 0 * 0 * (0 * 0)) with 0 by ring. unfold Rdiv. apply Rmult_0_l. }
  rewrite Hz.
  match goal with |- ?a * ?a + ?b * ?b + ?c * ?c <> 0 => assert (0 <= a * a) by nra; assert (0 <= b * b) by nra; assert (0 < c * c) by nra end.
  lra.
Qed.

(** telecentric object space with NA = 1/10 in a medium of index 4/3 is traced; the marginal ray has sin(theta) = 3/40 *)
Example ex_telecentric :
  exists r, k_rg_generate ROps 0 1 0 1 (55/100) 0 0 4 false "object_height" true 0 0 ex_pos 1 0 (-100) "objectNA" (4/3) (1/10) "ignore" false = Some r
            /\ 0 < (1/10) / (4/3) < 1 /\ r_M r = 3/40.
Proof.
  eexists. split; [reflexivity|]. split; [lra|].
  match goal with |- r_M ?r = _ =>
    pose proof (launch_telecentric 0 1 0 1 (55/100) 0 0 4 0 0 1 0 (-100) (4/3) (1/10) ex_pos "ignore" false r eq_refl ltac:(lra)) as H end.
  destruct H as (_ & _ & _ & _ & _ & _ & _ & _ & Hm & _). destruct (Hm eq_refl eq_refl eq_refl) as [_ HM]. lra.
Qed.

(** the cell (infinite object, height fields) is rejected; a valid cell is not *)
Example ex_table :
  rejected true "object_height" false "EPD" = true /\ rejected false "object_height" true "objectNA" = false /\
  rejected true "angle" false "imageFNO" = false /\ rejected true "angle" false "objectNA" = true.
Proof. repeat split. Qed.

Example ex_counts : hexapolar_count 6 = 127%Z /\ cross_count 5 = 10%Z /\ gq_count false 6 = 18%Z /\ gq_rings_ok 7 = false.
Proof. repeat split. Qed.

Example ex_unit : unit_interval (3/10).
Proof. unfold unit_interval. lra. Qed.

(** * C12: binary64 regression examples -- the regenerated kernels executed on PrimFloat for the inputs that
    exposed the defects repaired in /repo (a9fc355, 01b2de4).  A regression of the code flips these checks. *)
From Coq Require Import String ZArith List Bool PrimFloat.
From OV Require Import Ops FloatInst Num.OpsC12 Gen.Analysis.
Import ListNotations.
Local Open Scope float_scope.

(** 3 x 3 grid (a sample on the axis) of a distortion-free f-theta lens with angle fields (x mirrored: x_ref < 0):
    the reported maximum is a small number, not NaN *)
Definition grid3_Hx : list float := [-1; 0; 1; -1; 0; 1; -1; 0; 1].
Definition grid3_Hy : list float := [-1; -1; -1; 0; 0; 0; 1; 1; 1].
Definition grid3_angle_check : bool :=
  match k_grid_distortion FOps 1e-10 (-1e-10) "f-theta" "angle" grid3_Hx grid3_Hy (180 / F_pi)
          (map (fun h => - h) grid3_Hx) grid3_Hy with
  | Some (_, _, _, _, m) => negb (F_isnan m) && (m <? 1e-6) && (0 <=? m)
  | None => false
  end.
Example grid_centre_sample_finite : grid3_angle_check = true.
Proof. vm_compute. reflexivity. Qed.

(** the same grid with object-height fields (x NOT mirrored: x_ref > 0), linear lens of magnification -2 *)
Definition grid3_height_check : bool :=
  match k_grid_distortion FOps (-2e-10) (-2e-10) "f-tan" "object_height" grid3_Hx grid3_Hy 20
          (map (fun h => -2 * h) grid3_Hx) (map (fun h => -2 * h) grid3_Hy) with
  | Some (_, _, _, _, m) => negb (F_isnan m) && (m <? 1e-6) && (0 <=? m)
  | None => false
  end.
Example grid_object_height_linear : grid3_height_check = true.
Proof. vm_compute. reflexivity. Qed.

(** Distortion with object-height fields: a perfectly linear finite-conjugate lens (image height = -2 x object height,
    h_max = 20 mm) is reported with zero distortion (it was about -4 % at the edge before 01b2de4) *)
Definition d16_Hy : list float := [1e-10; 0.5; 1].
Definition d16_check : bool :=
  match k_distortion_height FOps d16_Hy [0.55] (map (fun h => -2 * (20 * h)) d16_Hy) with
  | Some [d] => (abs (nth 1 d 1) <? 1e-9) && (abs (nth 2 d 1) <? 1e-9)
  | _ => false
  end.
Example distortion_object_height_zero : d16_check = true.
Proof. vm_compute. reflexivity. Qed.

(** an unknown distortion type still raises *)
Example grid_invalid_type_raises :
  match k_grid_distortion FOps 1e-10 1e-10 "f-sin" "angle" grid3_Hx grid3_Hy 20 grid3_Hx grid3_Hy with None => true | Some _ => false end = true.
Proof. vm_compute. reflexivity. Qed.

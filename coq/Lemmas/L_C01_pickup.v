(** * C01: pickups.  One application of a pickup makes  target = scale * source + offset  and leaves
    the source alone (source <> target); a list of pickups applied in order ends with every pickup
    satisfied when no pickup applied later writes a quantity an earlier one reads or wrote
    (radius pickups, exact reals).  Without that ordering hypothesis the statement is refuted
    (Findings/F_C01.v pickups_satisfied_after_update_refuted). *)
From Coq Require Import Reals ZArith List Bool String Lia Lra.
From OV Require Import Ops RInst Gen.LensEdit Model.Paraxial Model.M_C01 Spec.S_C01 Lemmas.L_C01_lists
     Lemmas.L_C01_inv Lemmas.L_C01_thickness Lemmas.L_C01_edit.
Import ListNotations.
Local Open Scope R_scope.

Notation lensR := (lens ROps).
Notation surfR := (surf ROps).
Notation pickupR := (pickup ROps).

Definition radius_at (l : lensR) (k : Z) : option R :=
  match nth_error (surfs l) (Z.to_nat k) with Some s => Some (s_R s) | None => None end.

Lemma pickup_formula old sc off : k_c01_pickup_apply ROps old sc off = sc * old + off.
Proof. reflexivity. Qed.

(** radius of surface j after set_radius(v, k) *)
Lemma radius_after_set (l : lensR) v k l' j :
  set_radius l v k = Some l' -> (0 <= j)%Z ->
  radius_at l' j = if (j =? k)%Z then Some v else radius_at l j.
Proof.
  intros E Hj. destruct (set_radius_exact l v k l' E) as ((_ & HN) & _).
  unfold radius_at. rewrite HN. rewrite Z2Nat.id by exact Hj.
  unfold set_radius in E. destruct (nthS l k) as [s0|] eqn:ES; [|discriminate].
  destruct (nthS_some _ _ _ ES) as (Hk & Hs0).
  destruct (Z.eqb_spec j k) as [->|Hne].
  - rewrite Hs0. unfold set_radius_fun. cbn [isinf_ ROps]. destruct (s_kind s0); reflexivity.
  - destruct (nth_error (surfs l) (Z.to_nat j)); reflexivity.
Qed.

Theorem pickup_radius_satisfied (l : lensR) (p : pickupR) l' :
  pk_attr p = ARadius -> pk_src p <> pk_tgt p -> (0 <= pk_tgt p)%Z ->
  pickup_apply l p = Some l' ->
  exists r, radius_at l (pk_src p) = Some r /\ radius_at l' (pk_src p) = Some r /\
            radius_at l' (pk_tgt p) = Some (pk_scale p * r + pk_offset p).
Proof.
  intros Ha Hne Ht. unfold pickup_apply, pickup_get, pickup_set. rewrite Ha.
  destruct (nthS l (pk_src p)) as [s|] eqn:ES; [|discriminate].
  destruct (nthS_some _ _ _ ES) as (Hs0 & Hs). intros E.
  exists (s_R s). unfold radius_at at 1. rewrite Hs. split; [reflexivity|].
  rewrite (radius_after_set _ _ _ _ _ E Hs0), (radius_after_set _ _ _ _ _ E Ht).
  destruct (Z.eqb_spec (pk_src p) (pk_tgt p)); [contradiction|]. rewrite Z.eqb_refl.
  unfold radius_at. rewrite Hs. split; reflexivity.
Qed.

(** conic constant as optiland reads it (a flat surface without the attribute reads 0) *)
Definition cread (l : lensR) (k : Z) : option R :=
  match nth_error (surfs l) (Z.to_nat k) with Some s => Some (conic_read s) | None => None end.

Theorem pickup_conic_satisfied (l : lensR) (p : pickupR) l' :
  pk_attr p = AConic -> pk_src p <> pk_tgt p -> (0 <= pk_tgt p)%Z ->
  pickup_apply l p = Some l' ->
  exists c, cread l (pk_src p) = Some c /\ cread l' (pk_src p) = Some c /\
            cread l' (pk_tgt p) = Some (pk_scale p * c + pk_offset p).
Proof.
  intros Ha Hne Ht. unfold pickup_apply, pickup_get, pickup_set. rewrite Ha.
  destruct (nthS l (pk_src p)) as [s|] eqn:ES; [|discriminate].
  destruct (nthS_some _ _ _ ES) as (Hs0 & Hs). intros E.
  destruct (set_conic_exact _ _ _ _ E) as (_ & HN).
  unfold set_conic in E. destruct (nthS l (pk_tgt p)) as [t0|] eqn:ET; [|discriminate].
  destruct (nthS_some _ _ _ ET) as (_ & Ht0).
  exists (conic_read s). unfold cread. rewrite !HN, Hs, Ht0, !Z2Nat.id by assumption.
  destruct (Z.eqb_spec (pk_src p) (pk_tgt p)); [contradiction|]. rewrite Z.eqb_refl.
  repeat split; reflexivity.
Qed.

(** a conic pickup succeeds for every pair of existing surfaces, flat or not (the source of a flat
    surface reads 0) *)
Theorem conic_pickup_succeeds (l : lensR) (p : pickupR) s t :
  pk_attr p = AConic -> nthS l (pk_src p) = Some s -> nthS l (pk_tgt p) = Some t ->
  exists l', pickup_apply l p = Some l'.
Proof.
  intros Ha Hs Ht. unfold pickup_apply, pickup_get, pickup_set, set_conic. rewrite Ha, Hs, Ht. eexists; reflexivity.
Qed.

(** thickness pickup: the thickness behind the target becomes scale * (thickness behind the source) + offset,
    and the source thickness is untouched *)
Theorem pickup_thickness_satisfied (l : lensR) (p : pickupR) l' :
  pk_attr p = AThickness -> pk_src p <> pk_tgt p ->
  pickup_apply l p = Some l' ->
  thickness l' (pk_src p) = thickness l (pk_src p) /\
  thickness l' (pk_tgt p) = pk_scale p * thickness l (pk_src p) + pk_offset p.
Proof.
  intros Ha Hne. unfold pickup_apply, pickup_get, pickup_set. rewrite Ha.
  destruct (nthS l (pk_src p)) as [s|] eqn:ES; [|discriminate].
  destruct (nthS_some _ _ _ ES) as (Hs0 & _).
  destruct (Z.ltb_spec (pk_src p + 1) (nsurf l)) as [Hs1|]; [|discriminate].
  rewrite pickup_formula. unfold set_thickness.
  destruct (Z.leb_spec 0 (pk_tgt p)) as [Ht0|]; cbn [andb]; [|discriminate].
  destruct (Z.ltb_spec (pk_tgt p + 1) (nsurf l)) as [Ht1|]; [|discriminate].
  intros E; injection E as <-. unfold thickness, nsurf in *.
  assert (LP : List.length (positions l) = List.length (surfs l)) by (unfold positions; apply map_length).
  rewrite <- LP in *.
  rewrite set_zs_positions by (rewrite set_thickness_length by assumption; exact LP).
  rewrite !set_thickness_refines by assumption.
  destruct (Z.eqb_spec (pk_src p) (pk_tgt p)); [contradiction|]. rewrite Z.eqb_refl. split; reflexivity.
Qed.

(** ** a whole list of radius pickups, applied in declaration order as update() does *)
Definition rsat (l : lensR) (p : pickupR) : Prop :=
  exists r, radius_at l (pk_src p) = Some r /\ radius_at l (pk_tgt p) = Some (pk_scale p * r + pk_offset p).

(** no pickup applied after p writes p's source or p's target *)
Fixpoint ordered (ps : list pickupR) : Prop :=
  match ps with
  | [] => True
  | p :: qs => (forall q, In q qs -> pk_tgt q <> pk_src p /\ pk_tgt q <> pk_tgt p) /\ ordered qs
  end.

Lemma rsat_preserved (l : lensR) (p q : pickupR) l' :
  pk_attr q = ARadius -> (0 <= pk_src p)%Z -> (0 <= pk_tgt p)%Z ->
  pk_tgt q <> pk_src p -> pk_tgt q <> pk_tgt p ->
  pickup_apply l q = Some l' -> rsat l p -> rsat l' p.
Proof.
  intros Ha H0 H1 N1 N2 E (r & A & B). unfold pickup_apply, pickup_get, pickup_set in E. rewrite Ha in E.
  destruct (nthS l (pk_src q)); [|discriminate].
  exists r. rewrite (radius_after_set _ _ _ _ _ E H0), (radius_after_set _ _ _ _ _ E H1).
  destruct (Z.eqb_spec (pk_src p) (pk_tgt q)); [congruence|].
  destruct (Z.eqb_spec (pk_tgt p) (pk_tgt q)); [congruence|]. split; assumption.
Qed.

Theorem pickups_satisfied_partial (ps : list pickupR) : forall (l l' : lensR),
  (forall p, In p ps -> pk_attr p = ARadius /\ pk_src p <> pk_tgt p /\ (0 <= pk_src p)%Z /\ (0 <= pk_tgt p)%Z) ->
  ordered ps ->
  fold_opt pickup_apply ps l = Some l' ->
  forall p, In p ps -> rsat l' p.
Proof.
  induction ps as [|q qs IH]; intros l l' HP HO E p Hin; [contradiction|].
  unfold fold_opt in E. cbn [fold_left obind] in E.
  destruct (pickup_apply l q) as [l1|] eqn:E1.
  2:{ exfalso. clear -E. induction qs; simpl in E; [discriminate|auto]. }
  change (fold_opt pickup_apply qs l1 = Some l') in E.
  destruct HO as (HOq & HOqs).
  destruct Hin as [<-|Hin].
  - (* q itself: satisfied right after its application, kept by the later ones *)
    destruct (HP q (or_introl eq_refl)) as (Ha & Hne & Hs0 & Ht0).
    destruct (pickup_radius_satisfied l q l1 Ha Hne Ht0 E1) as (r & _ & B & C).
    assert (S1 : rsat l1 q) by (exists r; split; assumption).
    clear E1 IH B C r. revert l1 E S1. induction qs as [|q2 qs IH2]; intros l1 E S1.
    + unfold fold_opt in E; simpl in E. injection E as <-. exact S1.
    + unfold fold_opt in E. cbn [fold_left obind] in E.
      destruct (pickup_apply l1 q2) as [l2|] eqn:E2.
      2:{ exfalso. clear -E. induction qs; simpl in E; [discriminate|auto]. }
      destruct (HOq q2 (or_introl eq_refl)) as (N1 & N2).
      destruct (HP q2 (or_intror (or_introl eq_refl))) as (Ha2 & _).
      apply (IH2 ltac:(intros p Hp; apply HP; destruct Hp as [->|Hp]; [left; reflexivity|right; right; exact Hp])
                 ltac:(intros q' Hq'; apply HOq; right; exact Hq')
                 ltac:(destruct HOqs as (_ & H); exact H) l2 E).
      eapply rsat_preserved; eauto.
  - eapply IH; [intros p' Hp'; apply HP; right; exact Hp'|exact HOqs|exact E|exact Hin].
Qed.

(** non-vacuous: R2 = -R1 alone *)
Example pickup_ex :
  let sf := fun R => mkS (O:=ROps) 0 0 0 0 0 GStd R (Some 0) [] 0%nat 0%nat false false false in
  let l := mkL (O:=ROps) [sf 77; sf 50; sf (-50)] [1] 0 [] [] [] [] (EPDt, 1) in
  exists l', pickup_apply l (mkP (O:=ROps) 1 ARadius 2 (-1) 0) = Some l' /\ radius_at l' 2 = Some (-1 * 50 + 0).
Proof. cbv zeta. eexists. split; reflexivity. Qed.

(** * C05: launch families, corollaries (axial focus), non-vacuity example, oddness *)
From Coq Require Import Reals Lra Lia ZArith List Bool Psatz.
From OV Require Import Ops RInst XR Gen.RealRays Gen.Standard Spec.S_ABCD Spec.S_C05
  Model.M_C05 Lemmas.L_Standard Lemmas.L_C05_E2 Lemmas.L_C05_Link Lemmas.L_C05_Step Lemmas.L_C05_Chain.
Import ListNotations.
Local Open Scope R_scope.

(** ** launch families (RayGenerator.generate_rays in the meridional plane) *)
(** object at infinity, on axis: pupil height e*h, direction (0, 1) *)
Lemma fam_collimated h z0 : fam_ok (fun e => (e * h, z0, 0, 1)) h 0 1 z0.
Proof.
  constructor; cbn [st_y st_z st_M st_N fst snd].
  - exists (fun _ => h). split; [intros; ring|apply E2_const].
  - apply E2_const.
  - eapply Od_lim; [apply Od_zero|ring].
  - apply E2_const.
Qed.

(** the unit vector from (e*ya, z0) to (e*yb, z1), z1 > z0 (the aim point lies ahead):
    marginal-type (ya = 0, yb = pupil height) and chief-type (ya = object height, yb = 0) rays *)
Definition rlaunch (y0 z0 y1 z1 : R) : R * R * R * R :=
  let dy := y1 - y0 in let dz := z1 - z0 in
  let mag := sqrt ((0 - 0) * (0 - 0) + dy * dy + dz * dz) in
  (y0, z0, dy / mag, dz / mag).

Theorem aiming_limit ya yb z0 z1 : z0 < z1 ->
  fam_ok (fun e => rlaunch (e * ya) z0 (e * yb) z1) ya ((yb - ya) / (z1 - z0)) 1 z0.
Proof.
  intros Hz. generalize Od_id; intros Hid.
  assert (HY : Od (fun e => e * ya) ya) by (exists (fun _ => ya); split; [intros; ring|apply E2_const]).
  assert (HYb : Od (fun e => e * yb) yb) by (exists (fun _ => yb); split; [intros; ring|apply E2_const]).
  assert (Hmag : E2 (fun e => sqrt ((0 - 0) * (0 - 0) + (e * yb - e * ya) * (e * yb - e * ya) + (z1 - z0) * (z1 - z0))) (z1 - z0)).
  { eapply E2_lim; [conv|].
    - nra.
    - replace ((0 - 0) * (0 - 0) + 0 + (z1 - z0) * (z1 - z0)) with ((z1 - z0) * (z1 - z0)) by ring.
      apply sqrt_square. lra. }
  set (MAG := fun e => sqrt ((0 - 0) * (0 - 0) + (e * yb - e * ya) * (e * yb - e * ya) + (z1 - z0) * (z1 - z0))) in *.
  unfold rlaunch. constructor; cbn [st_y st_z st_M st_N fst snd].
  - exact HY.
  - apply E2_const.
  - change (Od (fun e => (e * yb - e * ya) / MAG e) ((yb - ya) / (z1 - z0) * 1)).
    eapply Od_lim; [conv|].
    + lra.
    + field. lra.
  - change (E2 (fun e => (z1 - z0) / MAG e) 1).
    eapply E2_lim; [conv|].
    + lra.
    + field. lra.
Qed.

(** the model's launch over extended reals is this one *)
Lemma mlaunch_fin y0 z0 y1 z1 : z0 <> z1 ->
  mlaunch (O:=XOps) (Fin y0) (Fin z0) (Fin y1) (Fin z1) = fin4 (rlaunch y0 z0 y1 z1).
Proof.
  intros Hz. unfold mlaunch, rlaunch, fin4. xops. cbn [xsub xneg xadd xmul st_y st_z st_M st_N fst snd].
  change (0 + - 0) with (0 - 0). change (y1 + - y0) with (y1 - y0). change (z1 + - z0) with (z1 - z0).
  set (m2 := (0 - 0) * (0 - 0) + (y1 - y0) * (y1 - y0) + (z1 - z0) * (z1 - z0)).
  assert (Hm : 0 < m2).
  { unfold m2. assert (0 < (z1 - z0) * (z1 - z0)) by (destruct (Rtotal_order z0 z1) as [H|[H|H]]; [apply Rmult_lt_0_compat; lra|contradiction|replace ((z1 - z0) * (z1 - z0)) with ((z0 - z1) * (z0 - z1)) by ring; apply Rmult_lt_0_compat; lra]).
    generalize (Rle_0_sqr (y1 - y0)); unfold Rsqr; intros. lra. }
  rewrite xsqrt_fin by lra.
  assert (Hs : sqrt m2 <> 0) by (generalize (sqrt_lt_R0 m2 Hm); lra).
  rewrite !xdiv_fin' by exact Hs. reflexivity.
Qed.

(** ** axial focus: the real ray crosses the axis where the paraxial ray does, up to O(e^2) *)
Theorem focus_converges (Y U : R -> R) h w : Od Y h -> Od U w -> w <> 0 ->
  exists C d, 0 <= C /\ 0 < d /\ forall e, Rabs e < d -> e <> 0 ->
    Rabs (- Y e / U e - (- h / w)) <= C * (e * e).
Proof.
  intros (g1 & E1 & H1) (g2 & E2' & H2) Hw.
  assert (HQ : E2 (fun e => - g1 e / g2 e) (- h / w)) by (conv; exact Hw).
  destruct (E2_ev_neq _ _ H2 Hw) as (d2 & Hd2 & Hne).
  destruct HQ as (C & d & HC & Hd & HB).
  exists C, (Rmin d d2). repeat split; auto.
  - apply Rmin_glb_lt; assumption.
  - intros e He Hnz.
    assert (A : Rabs e < d) by (eapply Rlt_le_trans; [exact He|apply Rmin_l]).
    assert (B : Rabs e < d2) by (eapply Rlt_le_trans; [exact He|apply Rmin_r]).
    rewrite E1, E2'. replace (- (e * g1 e) / (e * g2 e)) with (- g1 e / g2 e).
    + apply HB; exact A.
    + field. split; [apply Hne; exact B|exact Hnz].
Qed.

(** ** non-vacuity: an equiconvex singlet (R = 50 / -50, n = 1.5, thickness 4) with a
    collimated bundle satisfies every hypothesis of [real_trace_converges] *)
Example singlet_wf :
  wf_sys 1 (-10)
    [mkMS (O:=XOps) (Fin 0) (MStd (O:=XOps) (Fin 50) (Fin 0)) (Fin 1) (Fin (3/2)) false;
     mkMS (O:=XOps) (Fin 4) (MStd (O:=XOps) (Fin (-50)) (Fin 0)) (Fin (3/2)) (Fin 1) false;
     mkMS (O:=XOps) (Fin 60) (MPlane (O:=XOps)) (Fin 1) (Fin 1) false]
    [mkRS 0 (RStd 50 0 1) 1 (3/2) false; mkRS 4 (RStd (-50) 0 (-1)) (3/2) 1 false; mkRS 60 RPlane 1 1 false]
    [mkAS 0 (/ 50) 1 (3/2) false false; mkAS 4 (/ (-50)) (3/2) 1 false false; mkAS 60 0 1 1 false false].
Proof.
  repeat (apply wf_cons; [apply wf_s; [first [apply wf_plane | apply wf_std; [auto|lra|lra]] | cbn; lra | intros _; lra]|cbn [next_N0 r_refl r_z]]).
  apply wf_nil.
Qed.

Example singlet_converges :
  exists C d, 0 <= C /\ 0 < d /\
    forall e, Rabs e < d -> e <> 0 ->
      exists recs,
        mtrace [mkMS (O:=XOps) (Fin 0) (MStd (O:=XOps) (Fin 50) (Fin 0)) (Fin 1) (Fin (3/2)) false;
                mkMS (O:=XOps) (Fin 4) (MStd (O:=XOps) (Fin (-50)) (Fin 0)) (Fin (3/2)) (Fin 1) false;
                mkMS (O:=XOps) (Fin 60) (MPlane (O:=XOps)) (Fin 1) (Fin 1) false]
               (fin4 (e * 5, -10, 0, 1)) = Some (map fin4 recs) /\
        Forall2 (rec_close C e) recs
          (par_trace [mkAS 0 (/ 50) 1 (3/2) false false; mkAS 4 (/ (-50)) (3/2) 1 false false;
                      mkAS 60 0 1 1 false false] (5, 0, -10)).
Proof.
  apply (real_trace_converges _ _ _ _ _ singlet_wf (fun e => (e * 5, -10, 0, 1)) 5 0); [left; reflexivity|].
  apply fam_collimated.
Qed.

(** ** oddness: the point reflection through the axis (x, y, L, M) -> (-x, -y, -L, -M) commutes
    with every regenerated surface kernel *)
Theorem std_distance_odd k N L M z x y Rc :
  k_std_distance XOps (Fin k) (Fin N) (Fin (- L)) (Fin (- M)) (Fin z) (Fin (- x)) (Fin (- y)) (Fin Rc)
  = k_std_distance XOps (Fin k) (Fin N) (Fin L) (Fin M) (Fin z) (Fin x) (Fin y) (Fin Rc).
Proof.
  rewrite !res_unfold. cbv zeta.
  replace (k * (N * N) + - L * - L + - M * - M + N * N) with (k * (N * N) + L * L + M * M + N * N) by ring.
  replace (2 * k * N * z + 2 * - L * - x + 2 * - M * - y - 2 * N * Rc + 2 * N * z)
    with (2 * k * N * z + 2 * L * x + 2 * M * y - 2 * N * Rc + 2 * N * z) by ring.
  replace (k * (z * z) - 2 * Rc * z + - x * - x + - y * - y + z * z)
    with (k * (z * z) - 2 * Rc * z + x * x + y * y + z * z) by ring.
  reflexivity.
Qed.

Theorem std_normal_odd x y Rc k :
  k_std_normal ROps (- x) (- y) Rc k =
  (let '(nx, ny, nz) := k_std_normal ROps x y Rc k in (- nx, - ny, nz)).
Proof.
  unfold k_std_normal. rops. cbv beta iota zeta.
  replace (- x * - x + - y * - y) with (x * x + y * y) by ring.
  set (den := Rc * sqrt (1 - (1 + k) * (x * x + y * y) / (Rc * Rc))).
  replace (- x / den * (- x / den) + - y / den * (- y / den)) with (x / den * (x / den) + y / den * (y / den))
    by (unfold Rdiv; ring).
  set (mag := sqrt (x / den * (x / den) + y / den * (y / den) + IZR ((-1) ^ 2))).
  f_equal; [f_equal|..]; unfold Rdiv; ring.
Qed.

Theorem refract_odd nx ny nz n1 n2 L M N :
  k_refract ROps (- nx) (- ny) nz n1 n2 (- L) (- M) N =
  (let '(a, b, c) := k_refract ROps nx ny nz n1 n2 L M N in (- a, - b, c)).
Proof.
  unfold k_refract, k_align. rops. cbv beta iota zeta.
  replace (- L * - nx + - M * - ny + N * nz) with (L * nx + M * ny + N * nz) by ring.
  f_equal; [f_equal|..]; ring.
Qed.

Theorem reflect_odd nx ny nz L M N :
  k_reflect ROps (- nx) (- ny) nz (- L) (- M) N =
  (let '(a, b, c) := k_reflect ROps nx ny nz L M N in (- a, - b, c)).
Proof.
  unfold k_reflect, k_align. rops. cbv beta iota zeta.
  replace (- L * - nx + - M * - ny + N * nz) with (L * nx + M * ny + N * nz) by ring.
  f_equal; [f_equal|..]; ring.
Qed.

(** ** the paraxial side is the object of C04: [par_trace] is [L_Paraxial.atrace], which C04 proves
    equal to the model of Paraxial._trace_generic on the regenerated paraxial kernel *)
From OV Require Lemmas.L_Paraxial.
Theorem par_trace_is_atrace ss : forall st, par_trace ss st = L_Paraxial.atrace ss st.
Proof.
  induction ss as [|s ss IH]; intros [[y u] z]; [reflexivity|].
  cbn [par_trace L_Paraxial.atrace]. unfold par_step, L_Paraxial.astep.
  destruct (mapply (surf_matrix s z) (y, u)) as [y' u']. rewrite IH. reflexivity.
Qed.

(** the same statement with the paraxial side read off the model of Paraxial._trace_generic on the
    REGENERATED paraxial kernel (C04's [ptrace_is_atrace]): the real records converge to what
    optiland's own paraxial trace returns for the limit launch (h, w) *)
Theorem real_trace_converges_kernel N0 z0 mss rss ass pss :
  wf_sys N0 z0 mss rss ass -> Forall2 L_Paraxial.wf_surf pss ass ->
  forall F h w x0, (N0 = 1 \/ N0 = -1) -> fam_ok F h w N0 z0 ->
  Model.Paraxial.ptrace pss (Fin h, Fin w, Fin z0, Fin x0) = map L_Paraxial.finyu (par_trace ass (h, w, z0)) /\
  exists C d, 0 <= C /\ 0 < d /\
    forall e, Rabs e < d -> e <> 0 ->
      exists recs, mtrace mss (fin4 (F e)) = Some (map fin4 recs) /\
                   Forall2 (rec_close C e) recs (par_trace ass (h, w, z0)).
Proof.
  intros HS HP F h w x0 HN0 HF. split.
  - rewrite par_trace_is_atrace. apply L_Paraxial.ptrace_is_atrace. exact HP.
  - exact (real_trace_converges _ _ _ _ _ HS F h w HN0 HF).
Qed.

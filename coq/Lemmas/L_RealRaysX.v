(** C02: non-finite clause and lifting of the refraction / reflection kernels (extended reals) *)
From Coq Require Import Reals Lra Lia ZArith List Psatz.
From OV Require Import Ops RInst XR Gen.RealRays.
Local Open Scope R_scope.

(** total internal reflection: a negative radicand makes every component of the refracted
    direction NaN (never a finite number), for finite inputs *)
Theorem refract_tir_nonfinite nx ny nz n1 n2 L M N :
  n2 <> 0 ->
  let dot := L * nx + M * ny + N * nz in
  let u := n1 / n2 in
  1 - u * u * (1 - Rabs dot * Rabs dot) < 0 ->
  k_refract XOps (Fin nx) (Fin ny) (Fin nz) (Fin n1) (Fin n2) (Fin L) (Fin M) (Fin N) = (NaN, NaN, NaN).
Proof.
  intros Hn2 dot u Hrad.
  unfold k_refract, k_align. xops. cbn [xmul xadd xsub xabs xsign xneg].
  cbn [xdiv]. destruct (Req_EM_T n2 0) as [E|E]; [contradiction|].
  cbn [xmul xadd xsub xabs xsign xneg xsqrt].
  fold dot. fold u.
  replace (1 + - (u * u * (1 + - (Rabs dot * Rabs dot)))) with (1 - u * u * (1 - Rabs dot * Rabs dot)) by ring.
  destruct (Rlt_dec (1 - u * u * (1 - Rabs dot * Rabs dot)) 0) as [H|H]; [|lra].
  reflexivity.
Qed.

(** lifting: on finite inputs with a non-negative radicand the extended-real kernel returns exactly
    the real kernel's values, so the Snell/unit/half-space theorems over R speak about it *)
Theorem refract_lift nx ny nz n1 n2 L M N :
  n2 <> 0 ->
  let dot := L * nx + M * ny + N * nz in
  let u := n1 / n2 in
  0 <= 1 - u * u * (1 - Rabs dot * Rabs dot) ->
  k_refract XOps (Fin nx) (Fin ny) (Fin nz) (Fin n1) (Fin n2) (Fin L) (Fin M) (Fin N) =
  (let '(a, b, c) := k_refract ROps nx ny nz n1 n2 L M N in (Fin a, Fin b, Fin c)).
Proof.
  intros Hn2 dot u Hrad.
  unfold k_refract, k_align. xops. rops. cbn [xmul xadd xsub xabs xsign xneg].
  cbn [xdiv]. destruct (Req_EM_T n2 0) as [E|E]; [contradiction|].
  cbn [xmul xadd xsub xabs xsign xneg xsqrt].
  fold dot. fold u.
  replace (1 + - (u * u * (1 + - (Rabs dot * Rabs dot)))) with (1 - u * u * (1 - Rabs dot * Rabs dot)) by ring.
  destruct (Rlt_dec (1 - u * u * (1 - Rabs dot * Rabs dot)) 0) as [H|H]; [lra|].
  cbn [xmul xadd xsub xneg].
  repeat f_equal; ring.
Qed.

Theorem reflect_lift nx ny nz L M N :
  k_reflect XOps (Fin nx) (Fin ny) (Fin nz) (Fin L) (Fin M) (Fin N) =
  (let '(a, b, c) := k_reflect ROps nx ny nz L M N in (Fin a, Fin b, Fin c)).
Proof.
  unfold k_reflect, k_align. xops. rops. cbn [xmul xadd xsub xabs xsign xneg].
  repeat f_equal; ring.
Qed.

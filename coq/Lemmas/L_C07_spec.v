(** * C07 - the kernels' local-frame quadric against the point-set specification of a sphere:
    a global point is on the surface described by (vertex v, radius Rc, tilt a about the centre of
    curvature) iff it is on the sphere of Spec/S_C07.v with the SAME centre - for every tilt angle. *)
From Coq Require Import Reals Lra Psatz ZArith List Bool.
From OV Require Import Ops RInst Gen.RealRays Gen.Standard Lemmas.L_RealRays Lemmas.L_Standard Spec.S_C07.
Local Open Scope R_scope.

Theorem untilted_quadric_is_sphere (X Y Z vx vy vz Rc : R) :
  let '(x0, y0, z0) := k_translate ROps (- vx) (- vy) (- vz) X Y Z in
  quadric 0 Rc x0 y0 z0 = 0 <-> on_sphere (centre_of (vx, vy, vz) Rc) Rc (X, Y, Z).
Proof.
  unfold k_translate, quadric, on_sphere, centre_of. rops. split; intros H; nra.
Qed.

Theorem tilted_x_quadric_is_same_sphere (X Y Z vx vy vz Rc a : R) :
  let '(tx, ty, tz) := tilted_vertex_x (vx, vy, vz) Rc a in
  let '(x1, y1, z1) := k_translate ROps (- tx) (- ty) (- tz) X Y Z in
  let '(y2, z2, _, _) := k_rotate_x ROps (- a) y1 z1 0 0 in
  quadric 0 Rc x1 y2 z2 = 0 <-> on_sphere (centre_of (vx, vy, vz) Rc) Rc (X, Y, Z).
Proof.
  unfold tilted_vertex_x, k_translate, k_rotate_x, quadric, on_sphere, centre_of. rops.
  rewrite cos_neg, sin_neg. generalize (cs1 a); intros H.
  set (c := cos a) in *. set (s := sin a) in *.
  assert (Hs : s * s = 1 - c * c) by lra.
  assert (E : (X + - vx) * (X + - vx) +
    ((Y + - (vy + Rc * s)) * c - (Z + - (vz + Rc * (1 - c))) * - s) * ((Y + - (vy + Rc * s)) * c - (Z + - (vz + Rc * (1 - c))) * - s) +
    (1 + 0) * (((Y + - (vy + Rc * s)) * - s + (Z + - (vz + Rc * (1 - c))) * c) * ((Y + - (vy + Rc * s)) * - s + (Z + - (vz + Rc * (1 - c))) * c)) -
    2 * Rc * ((Y + - (vy + Rc * s)) * - s + (Z + - (vz + Rc * (1 - c))) * c)
    = (X - vx) * (X - vx) + (Y - vy) * (Y - vy) + (Z - (vz + Rc)) * (Z - (vz + Rc)) - Rc * Rc) by ring [Hs].
  rewrite E. split; intros H0; lra.
Qed.

Theorem tilted_y_quadric_is_same_sphere (X Y Z vx vy vz Rc a : R) :
  let '(tx, ty, tz) := tilted_vertex_y (vx, vy, vz) Rc a in
  let '(x1, y1, z1) := k_translate ROps (- tx) (- ty) (- tz) X Y Z in
  let '(x2, z2, _, _) := k_rotate_y ROps (- a) x1 z1 0 0 in
  quadric 0 Rc x2 y1 z2 = 0 <-> on_sphere (centre_of (vx, vy, vz) Rc) Rc (X, Y, Z).
Proof.
  unfold tilted_vertex_y, k_translate, k_rotate_y, quadric, on_sphere, centre_of. rops.
  rewrite cos_neg, sin_neg. generalize (cs1 a); intros H.
  set (c := cos a) in *. set (s := sin a) in *.
  assert (Hs : s * s = 1 - c * c) by lra.
  match goal with |- ?lhs = 0 <-> ?rhs = _ =>
    assert (E : lhs = (X - vx) * (X - vx) + (Y - vy) * (Y - vy) + (Z - (vz + Rc)) * (Z - (vz + Rc)) - Rc * Rc) by ring [Hs]
  end.
  rewrite E. split; intros H0; lra.
Qed.

(** C02 (path length) : structure theorems about the trace model, for any number of surfaces *)
From Coq Require Import Reals Lra Lia ZArith List Bool Psatz.
From OV Require Import Ops RInst Gen.RealRays Gen.Standard Gen.Geometries Gen.Apertures Model.Trace.
Import ListNotations.
Local Open Scope R_scope.

Lemma localize_opd s (r : ray ROps) : ropd (localize s r) = ropd r.
Proof.
  unfold localize. destruct (k_translate ROps _ _ _ _ _ _) as [[x y] z].
  cbn [ri rw rx ry rz rL rM rN ropd].
  destruct (nonzero (s_rx s)); [destruct (k_rotate_x ROps _ _ _ _ _) as [[[a b] c] d]|];
  cbn [ri rw rx ry rz rL rM rN ropd];
  (destruct (nonzero (s_ry s)); [destruct (k_rotate_y ROps _ _ _ _ _) as [[[a' b'] c'] d']|]);
  cbn [ri rw rx ry rz rL rM rN ropd];
  (destruct (nonzero (s_rz s)); [destruct (k_rotate_z ROps _ _ _ _ _) as [[[a'' b''] c''] d'']|]);
  reflexivity.
Qed.

Lemma globalize_opd s (r : ray ROps) : ropd (globalize s r) = ropd r.
Proof.
  unfold globalize.
  destruct (nonzero (s_rz s)); [destruct (k_rotate_z ROps _ _ _ _ _) as [[[a b] c] d]|];
  cbn [ri rw rx ry rz rL rM rN ropd];
  (destruct (nonzero (s_ry s)); [destruct (k_rotate_y ROps _ _ _ _ _) as [[[a' b'] c'] d']|]);
  cbn [ri rw rx ry rz rL rM rN ropd];
  (destruct (nonzero (s_rx s)); [destruct (k_rotate_x ROps _ _ _ _ _) as [[[a'' b''] c''] d'']|]);
  cbn [ri rw rx ry rz rL rM rN ropd];
  destruct (k_translate ROps _ _ _ _ _ _) as [[x y] z]; reflexivity.
Qed.

(** the optical path recorded after a surface is the one before plus |t * n| for the propagated
    distance t in the medium in front of the surface *)
Theorem surface_opd s (r r' : ray ROps) :
  trace_surface s r = Some r' ->
  exists t : R, distance (s_shape s) (localize s r) = Some t /\
                ropd r' = ropd r + Rabs (t * s_n1 s).
Proof.
  unfold trace_surface.
  destruct (distance (s_shape s) (localize s r)) as [t|] eqn:Ed; [|discriminate].
  destruct (k_propagate ROps _ _ _ _ _ _ _ _ _ _) as [[[x y] z] i].
  destruct (s_aper s) as [[rmax rmin]|]; cbn [rx ry rz rL rM rN ri rw ropd];
    (destruct (normal _ _) as [[[nx ny] nz]|]; [|discriminate]);
    destruct (if s_refl s then _ else _) as [[L M] N];
    intros H; injection H as <-; rewrite globalize_opd; cbn [ropd]; rewrite localize_opd;
    exists t; split; reflexivity.
Qed.

(** |t n| per surface along a trace *)
Fixpoint path_terms (ss : list (surf ROps)) (r : ray ROps) : list R :=
  match ss with
  | [] => []
  | s :: ss' =>
      match distance (s_shape s) (localize s r), trace_surface s r with
      | Some t, Some r' => Rabs (t * s_n1 s) :: path_terms ss' r'
      | _, _ => []
      end
  end.

Fixpoint running (acc : R) (l : list R) : list R :=
  match l with [] => [] | x :: l' => (acc + x) :: running (acc + x) l' end.

(** recorded optical path = running sum of |t_i n_i| over the segments, any number of surfaces *)
Theorem opl_is_sum ss : forall (r : ray ROps) l,
  trace ss r = Some l -> map ropd l = running (ropd r) (path_terms ss r).
Proof.
  induction ss as [|s ss IH]; intros r l Ht.
  - injection Ht as <-. reflexivity.
  - cbn [trace] in Ht. destruct (trace_surface s r) as [r'|] eqn:Es; [|discriminate].
    destruct (trace ss r') as [l'|] eqn:El; [|discriminate]. injection Ht as <-.
    destruct (surface_opd s r r' Es) as (t & Ed & Eo).
    cbn [path_terms map]. rewrite Ed, Es. cbn [running]. rewrite <- Eo. f_equal. apply IH. exact El.
Qed.

(** with forward propagation (t >= 0) and positive index the increment is index x distance *)
Corollary opl_increment_n_times_t s (r r' : ray ROps) t :
  trace_surface s r = Some r' -> distance (s_shape s) (localize s r) = Some t ->
  0 <= t -> 0 <= s_n1 s -> ropd r' - ropd r = s_n1 s * t.
Proof.
  intros Ht Hd Ht0 Hn. destruct (surface_opd s r r' Ht) as (t' & Hd' & E).
  rewrite Hd in Hd'. injection Hd' as <-. rewrite E, Rabs_right; [ring|]. nra.
Qed.

(** the propagated point is the start point plus t times the direction (kernel propagate) *)
Theorem propagate_is_translation t x L y M z N k w i :
  let '(x', y', z', _) := k_propagate ROps t x L y M z N k w i in
  x' = x + t * L /\ y' = y + t * M /\ z' = z + t * N.
Proof. unfold k_propagate. rops. repeat split; reflexivity. Qed.

(** hence, for a unit direction and t >= 0, the geometric length of the segment is t *)
Theorem propagate_length t x L y M z N k w i :
  L * L + M * M + N * N = 1 -> 0 <= t ->
  let '(x', y', z', _) := k_propagate ROps t x L y M z N k w i in
  sqrt ((x' - x) * (x' - x) + (y' - y) * (y' - y) + (z' - z) * (z' - z)) = t.
Proof.
  intros Hd Ht. unfold k_propagate. rops.
  replace ((x + t * L - x) * (x + t * L - x) + (y + t * M - y) * (y + t * M - y) + (z + t * N - z) * (z + t * N - z))
    with (t * t * (L * L + M * M + N * N)) by ring.
  rewrite Hd, Rmult_1_r. apply sqrt_square. exact Ht.
Qed.

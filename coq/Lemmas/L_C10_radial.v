(** C10, normalisation clause: every radial polynomial is 1 at the pupil edge and the radial
    polynomials of equal azimuthal order are orthogonal with weight r on [0,1]
    (exact rational arithmetic, exhaustive over the supported index lists), and the translated
    kernel [k_zk_radial] over the reals IS the polynomial with the coefficient list [radial_coefs]. *)
From Coq Require Import ZArith List Bool Lia QArith Qreals Reals Lra.
From OV Require Import Ops RInst Spec.S_C10 Model.M_C10 Gen.Zernike Lemmas.L_C10_index.
Import ListNotations.

(** ** [k_zk_radial] over the reals is the polynomial with coefficient list [radial_coefs] *)
Definition eval_R (p : list (Z * Q)) (r : R) : R :=
  fold_left (fun acc ec => (acc + Q2R (snd ec) * powZ (O := ROps) r (fst ec))%R) p 0%R.

Lemma fold_left_map_gen {A B C} (f : A -> B -> A) (g : C -> B) l a :
  fold_left f (map g l) a = fold_left (fun a x => f a (g x)) l a.
Proof. revert a; induction l as [|x l IH]; intros a; cbn; [reflexivity|apply IH]. Qed.
Lemma fold_left_ext_in {A B} (f g : A -> B -> A) l a :
  (forall a x, In x l -> f a x = g a x) -> fold_left f l a = fold_left g l a.
Proof.
  revert a; induction l as [|x l IH]; intros a H; cbn; [reflexivity|].
  rewrite H by (left; reflexivity). apply IH. intros; apply H; right; assumption.
Qed.

Lemma fold_mul_pos l a : (0 < a)%Z -> Forall (fun x => (0 < x)%Z) l -> (0 < fold_left Z.mul l a)%Z.
Proof.
  revert a; induction l as [|x l IH]; intros a Ha H; cbn; [assumption|].
  inversion H; subst. apply IH; [nia|assumption].
Qed.
Lemma factZ_pos k : (0 < factZ k)%Z.
Proof.
  unfold factZ. apply fold_mul_pos; [lia|]. apply Forall_forall. intros x Hx. apply In_rangeZ in Hx. lia.
Qed.
Lemma radial_den_pos n m k : (0 < radial_den n m k)%Z.
Proof.
  unfold radial_den. pose proof (factZ_pos k). pose proof (factZ_pos (Z.quot (n + m - k * 2) 2)).
  pose proof (factZ_pos (Z.quot (n - m - k * 2) 2)). nia.
Qed.

Lemma Q2R_inject_Z z : Q2R (inject_Z z) = IZR z.
Proof. unfold Q2R, inject_Z; cbn. field. Qed.
Lemma Q2R_frac a b : (b <> 0)%Z -> Q2R (inject_Z a / inject_Z b) = (IZR a / IZR b)%R.
Proof.
  intros Hb. rewrite Q2R_div.
  - rewrite !Q2R_inject_Z. reflexivity.
  - intros E. apply Hb. unfold Qeq, inject_Z in E; cbn in E. lia.
Qed.

Theorem radial_kernel_is_poly (n m : Z) (r : R) :
  k_zk_radial ROps n m r = eval_R (radial_coefs n m) r.
Proof.
  unfold k_zk_radial, eval_R, radial_coefs. rewrite fold_left_map_gen. cbn [fst snd].
  rops. unfold radial_smax.
  replace ((n * 1 - Z.abs m * 1) * 1 + 1 * 2)%Z with (n - Z.abs m + 2)%Z by ring.
  apply fold_left_ext_in. intros a k _.
  rewrite (Qeq_eqR _ _ (Qred_correct _)).
  rewrite Q2R_frac by (pose proof (radial_den_pos n m k); lia).
  unfold radial_num, radial_den, factZ.
  replace ((n * 1 + m * 1) * 1 - k * 2)%Z with (n + m - k * 2)%Z by ring.
  replace ((n * 1 - m * 1) * 1 - k * 2)%Z with (n - m - k * 2)%Z by ring.
  reflexivity.
Qed.

(** ** value at the pupil edge *)
Definition coef_sum (p : list (Z * Q)) : Q := fold_left (fun acc ec => (acc + snd ec)%Q) p 0%Q.

Lemma pow_nat_one k : pow_nat (O := ROps) 1%R k = 1%R.
Proof. induction k as [|k IH]; cbn [pow_nat]; rops; [reflexivity|rewrite IH; lra]. Qed.
Lemma powZ_one e : powZ (O := ROps) 1%R e = 1%R.
Proof. unfold powZ. destruct (e <? 0)%Z; rewrite pow_nat_one; rops; [field|reflexivity]. Qed.

Lemma eval_R_one_gen p a :
  fold_left (fun acc ec => (acc + Q2R (snd ec) * powZ (O := ROps) 1%R (fst ec))%R) p (Q2R a)
  = Q2R (fold_left (fun acc ec => (acc + snd ec)%Q) p a).
Proof.
  revert a; induction p as [|[e c] p IH]; intros a; cbn [fold_left fst snd]; [reflexivity|].
  rewrite powZ_one, Rmult_1_r, <- Q2R_plus. apply IH.
Qed.
Lemma eval_R_one p : eval_R p 1%R = Q2R (coef_sum p).
Proof. unfold eval_R, coef_sum. rewrite <- eval_R_one_gen. f_equal. unfold Q2R; cbn; field. Qed.

Definition supported : list (Z * Z) := std_indices ++ noll_indices ++ fringe_indices.

Lemma coef_sum_supported :
  forallb (fun p => Qeq_bool (coef_sum (radial_coefs (fst p) (snd p))) 1) supported = true.
Proof. vm_compute. reflexivity. Qed.

(** R_n^m(1) = 1 for the code's [_radial_term], over the reals, for every index of the three
    families' 120-term lists (exhaustive; the bound is the statement's [In ... supported]) *)
Theorem radial_edge_one n m : In (n, m) supported -> k_zk_radial ROps n m 1%R = 1%R.
Proof.
  intros Hin. rewrite radial_kernel_is_poly, eval_R_one.
  pose proof coef_sum_supported as T. rewrite forallb_forall in T. specialize (T _ Hin). cbn [fst snd] in T.
  apply Qeq_bool_eq, Qeq_eqR in T. rewrite T. unfold Q2R; cbn; field.
Qed.

(** ** radial orthogonality, exactly, on the coefficient lists:
    sum_{i,j} c_i c'_j / (e_i + e'_j + 2)  (= int_0^1 R_n^m R_n'^m r dr termwise)  = [n = n'] / (2n + 2) *)
Definition radial_expected (n n' : Z) : Q := if (n =? n')%Z then (1 / inject_Z (2 * n + 2))%Q else 0%Q.
Definition same_abs_m (p q : Z * Z) : bool := (Z.abs (snd p) =? Z.abs (snd q))%Z.
Definition table (l : list (Z * Z)) := map (fun p => (p, radial_coefs (fst p) (snd p))) l.
Definition ortho_ok (l : list (Z * Z)) : bool :=
  let t := table l in
  forallb (fun pc => forallb (fun qc =>
    if same_abs_m (fst pc) (fst qc)
    then Qeq_bool (inner_Q (snd pc) (snd qc)) (radial_expected (fst (fst pc)) (fst (fst qc)))
    else true) t) t.

Lemma ortho_std : ortho_ok std_indices = true.  Proof. vm_compute. reflexivity. Qed.
Lemma ortho_noll : ortho_ok noll_indices = true.  Proof. vm_compute. reflexivity. Qed.
Lemma ortho_fringe : ortho_ok fringe_indices = true.  Proof. vm_compute. reflexivity. Qed.

Theorem radial_orthogonal l : l = std_indices \/ l = noll_indices \/ l = fringe_indices ->
  forall n m n' m', In (n, m) l -> In (n', m') l -> Z.abs m = Z.abs m' ->
  (inner_Q (radial_coefs n m) (radial_coefs n' m') == radial_expected n n')%Q.
Proof.
  intros Hl n m n' m' Hp Hq Hm.
  assert (T : ortho_ok l = true) by (destruct Hl as [->|[->| ->]]; [apply ortho_std|apply ortho_noll|apply ortho_fringe]).
  unfold ortho_ok in T. cbv zeta in T. rewrite forallb_forall in T.
  specialize (T ((n, m), radial_coefs n m)). rewrite forallb_forall in T.
  specialize (T (in_map (fun p => (p, radial_coefs (fst p) (snd p))) _ _ Hp) ((n', m'), radial_coefs n' m')
                (in_map (fun p => (p, radial_coefs (fst p) (snd p))) _ _ Hq)).
  unfold same_abs_m in T. cbn [fst snd] in T.
  apply Z.eqb_eq in Hm. rewrite Hm in T. apply Qeq_bool_eq in T. exact T.
Qed.

(** ** orthonormality of the Standard and Noll families, given the azimuthal integrals
    (1/pi) int_0^{2pi} az_m az_m' = [m = m'] (1 + [m = 0])  (proved over the reals in L_C10_azimuthal):
    the Gram entry  N(n,m) N(n',m') * radial inner * azimuthal factor  is  [(n,m) = (n',m')].
    (N N' is only needed where the other factors are non-zero, i.e. for (n,m) = (n',m'), where it is
    norm^2; elsewhere the product is 0 whatever N N' is.) *)
Definition gram (norm2 : Z -> Z -> Q) (p q : Z * Z) : Q :=
  if (snd p =? snd q)%Z
  then (norm2 (fst p) (snd p) * inner_Q (radial_coefs (fst p) (snd p)) (radial_coefs (fst q) (snd q))
        * (if (snd p =? 0)%Z then 2 else 1))%Q
  else 0%Q.
Definition delta (p q : Z * Z) : Q := if ((fst p =? fst q) && (snd p =? snd q))%Z then 1%Q else 0%Q.
Definition gram_arith_ok (norm2 : Z -> Z -> Q) l :=
  forallb (fun p => forallb (fun q =>
    if (snd p =? snd q)%Z
    then Qeq_bool (norm2 (fst p) (snd p) * radial_expected (fst p) (fst q) * (if (snd p =? 0)%Z then 2 else 1)) (delta p q)
    else true) l) l.

Lemma gram_std : gram_arith_ok norm2_std std_indices = true.  Proof. vm_compute. reflexivity. Qed.
Lemma gram_noll : gram_arith_ok norm2_noll noll_indices = true.  Proof. vm_compute. reflexivity. Qed.

Lemma gram_delta norm2 l : l = std_indices \/ l = noll_indices \/ l = fringe_indices ->
  gram_arith_ok norm2 l = true ->
  forall p q, In p l -> In q l -> (gram norm2 p q == delta p q)%Q.
Proof.
  intros Hl T [n m] [n' m'] Hp Hq. unfold gram, delta. cbn [fst snd].
  destruct (m =? m')%Z eqn:E.
  - apply Z.eqb_eq in E. subst m'.
    rewrite (radial_orthogonal l Hl n m n' m Hp Hq eq_refl).
    unfold gram_arith_ok in T. rewrite forallb_forall in T. specialize (T _ Hp). rewrite forallb_forall in T.
    specialize (T _ Hq). cbn [fst snd] in T. rewrite Z.eqb_refl in T. apply Qeq_bool_eq in T.
    unfold delta in T. cbn [fst snd] in T. rewrite Z.eqb_refl in T. exact T.
  - rewrite andb_false_r. reflexivity.
Qed.

Theorem std_noll_orthonormal :
  (forall p q, In p std_indices -> In q std_indices -> (gram norm2_std p q == delta p q)%Q) /\
  (forall p q, In p noll_indices -> In q noll_indices -> (gram norm2_noll p q == delta p q)%Q).
Proof.
  split.
  - apply gram_delta; [tauto|apply gram_std].
  - apply gram_delta; [tauto|apply gram_noll].
Qed.

(** the squared normalisation constants of the model are the squares of the translated kernels *)
Theorem norm_kernels_squared n m : (0 <= n)%Z ->
  (k_zk_norm_std ROps n m * k_zk_norm_std ROps n m = Q2R (norm2_std n m))%R /\
  (k_zk_norm_noll ROps n m * k_zk_norm_noll ROps n m = Q2R (norm2_noll n m))%R.
Proof.
  intros Hn. unfold k_zk_norm_std, k_zk_norm_noll, norm2_std, norm2_noll. rops.
  assert (P : (0 <= IZR n)%R) by (apply IZR_le; assumption).
  destruct (m =? 0)%Z; split.
  - rewrite sqrt_sqrt.
    + rewrite Q2R_frac by lia. rewrite !plus_IZR, mult_IZR. reflexivity.
    + rewrite plus_IZR, mult_IZR. apply Rmult_le_pos; [lra|]. apply Rlt_le, Rinv_0_lt_compat. lra.
  - rewrite sqrt_sqrt; [rewrite Q2R_inject_Z; reflexivity|]. rewrite plus_IZR. lra.
  - rewrite sqrt_sqrt.
    + rewrite Q2R_frac by lia. rewrite !plus_IZR, mult_IZR. reflexivity.
    + rewrite plus_IZR, mult_IZR. apply Rmult_le_pos; [lra|]. apply Rlt_le, Rinv_0_lt_compat. lra.
  - rewrite sqrt_sqrt; [rewrite Q2R_inject_Z; reflexivity|]. rewrite plus_IZR, mult_IZR. lra.
Qed.

Example radial_example :
  In (4, 0)%Z supported /\ radial_coefs 4 0 = [(4%Z, 6 # 1); (2%Z, -6 # 1); (0%Z, 1 # 1)].
Proof. split; [vm_compute; tauto|]. vm_compute. reflexivity. Qed.

(** * C12, spot statistics: centroid, RMS and geometric radius, encircled energy, RMS-spot operand.
    Theorems about the hand model Model/M_C12.v and the regenerated kernel [k_op_rms_spot]
    (Gen/Analysis.v) over exact reals, for spots of ANY number of rays. *)
From Coq Require Import Reals ZArith List Lra Lia Psatz Bool.
From OV Require Import Ops RInst Num.OpsC12 Gen.Analysis Model.M_C12 Spec.S_C12 Lemmas.L_C12_lists.
Import ListNotations.
Local Open Scope R_scope.

Notation spotR := (spot ROps).
Local Notation center1 := (M_C12.center1 (O := ROps)).
Local Notation radii2 := (M_C12.radii2 (O := ROps)).
Local Notation radii := (M_C12.radii (O := ROps)).
Local Notation rms1 := (M_C12.rms1 (O := ROps)).
Local Notation geo1 := (M_C12.geo1 (O := ROps)).
Local Notation centroid1 := (M_C12.centroid1 (O := ROps)).
Local Notation centroid := (M_C12.centroid (O := ROps)).
Local Notation center_spots := (M_C12.center_spots (O := ROps)).
Local Notation ee_at := (M_C12.ee_at (O := ROps)).
Local Notation ee_curve := (M_C12.ee_curve (O := ROps)).

(** ** squared radii of a centred spot are the squared distances to the reference point *)
Lemma radii2_center (c : R * R) (s : spotR) :
  radii2 (center1 c s) = dist2 (sx s) (sy s) c.
Proof.
  unfold M_C12.radii2, M_C12.center1; cbn [sx sy]. unfold lmap, sq; rops.
  generalize (sx s) (sy s). induction l as [|x l IH]; intros [|y l']; cbn; try reflexivity.
  f_equal. apply IH.
Qed.

Lemma dist2_nonneg xs ys c v : In v (dist2 xs ys c) -> 0 <= v.
Proof.
  revert ys; induction xs as [|x xs IH]; intros [|y ys] H; cbn in H; try contradiction.
  destruct H as [<-|H]; [apply Rplus_le_le_0_compat; apply Rle_0_sqr|apply (IH ys); exact H].
Qed.

(** ** centroid *)
Theorem centroid1_is_centroid (pidx : Z) (fd : list spotR) c :
  centroid1 pidx fd = Some c ->
  exists s, nthZ fd pidx = Some s /\ c = (mean_ (sx s), mean_ (sy s)) /\
            (sx s <> [] -> sy s <> [] -> is_centroid (sx s) (sy s) c).
Proof.
  unfold M_C12.centroid1. destruct (nthZ fd pidx) as [s|]; [|discriminate].
  rewrite !nanmean_R.
  intros H; injection H as <-. exists s. split; [reflexivity|]. split; [reflexivity|].
  intros Hx Hy. split; cbn [fst snd]; apply first_moment_mean; assumption.
Qed.

Lemma nthZ_map_nat {A B} (f : A -> B) (l : list A) (k : nat) (a : A) :
  nth_error l k = Some a -> nthZ (map f l) (Z.of_nat k) = Some (f a).
Proof.
  intros H. unfold nthZ. rewrite map_length.
  assert (Hk : (k < length l)%nat) by (apply nth_error_Some; rewrite H; discriminate).
  destruct (Z.ltb_spec (Z.of_nat k) 0); [lia|].
  destruct (Z.ltb_spec (Z.of_nat k) 0); [lia|]. cbn [orb].
  destruct (Z.leb_spec (Z.of_nat (length l)) (Z.of_nat k)); [lia|].
  rewrite Nat2Z.id. rewrite nth_error_map, H. reflexivity.
Qed.

(** *** the reference wavelength rule (SpotDiagram._reference_index) *)
Lemma find_wave_some (ws : list R) wref k :
  find_wave (O := ROps) ws wref = Some k -> nth_error ws k = Some wref.
Proof.
  revert k; induction ws as [|w ws IH]; intros k H; cbn in H; [discriminate|].
  unfold Reqb in H. destruct (Req_EM_T w wref) as [->|N].
  - injection H as <-. reflexivity.
  - destruct (find_wave (O := ROps) ws wref) as [j|] eqn:E; [|discriminate].
    injection H as <-. cbn. apply IH. reflexivity.
Qed.

Lemma find_wave_none (ws : list R) wref :
  find_wave (O := ROps) ws wref = None <-> ~ In wref ws.
Proof.
  induction ws as [|w ws IH]; cbn; [tauto|].
  unfold Reqb. destruct (Req_EM_T w wref) as [->|N].
  - split; [discriminate|]. intros H; exfalso; apply H; left; reflexivity.
  - destruct (find_wave (O := ROps) ws wref) as [j|] eqn:E; cbn.
    + split; [discriminate|]. intros H. exfalso.
      assert (Hn : ~ In wref ws) by (intros Hi; apply H; right; exact Hi).
      apply (proj2 IH) in Hn. discriminate.
    + split; [|reflexivity]. intros _ [Hw|Hi]; [contradiction|]. apply (proj1 IH); [reflexivity|exact Hi].
Qed.

(** the primary wavelength is listed: the reference index points at it *)
Theorem reference_index_primary (ws : list R) (wp : R) :
  In wp ws -> nth_error ws (reference_index (O := ROps) ws wp) = Some wp.
Proof.
  intros Hin. unfold reference_index.
  destruct (find_wave (O := ROps) ws wp) as [k|] eqn:E; [apply find_wave_some; exact E|].
  apply find_wave_none in E. contradiction.
Qed.

(** it is not listed: the first listed wavelength is the reference *)
Theorem reference_index_absent (ws : list R) (wp : R) :
  ~ In wp ws -> reference_index (O := ROps) ws wp = 0%nat.
Proof. intros H. unfold reference_index. apply find_wave_none in H. rewrite H. reflexivity. Qed.

Lemma centroid1_at (ws : list R) (trace : R -> spotR) (w : R) (k : nat) :
  nth_error ws k = Some w ->
  centroid1 (Z.of_nat k) (map trace ws) = Some (mean_ (O := ROps) (sx (trace w)), mean_ (O := ROps) (sy (trace w))).
Proof. intros H. unfold M_C12.centroid1. rewrite (nthZ_map_nat trace ws k w H), !nanmean_R. reflexivity. Qed.

(** the reference of a diagram built for ANY explicit wavelength list that contains the lens's primary wavelength is
    the centroid of the primary-wavelength spot, wherever the primary sits in the list (no hypothesis on indices) *)
Theorem centroid_reference_primary (ws : list R) (trace : R -> spotR) (wp : R) :
  In wp ws ->
  centroid1 (Z.of_nat (reference_index (O := ROps) ws wp)) (map trace ws)
  = Some (mean_ (O := ROps) (sx (trace wp)), mean_ (O := ROps) (sy (trace wp))).
Proof. intros H. apply centroid1_at. apply reference_index_primary. exact H. Qed.

(** ... and of the first listed wavelength when the primary is not listed; in particular the query never fails
    (no IndexError) for a non-empty list *)
Theorem centroid_reference_first (ws : list R) (trace : R -> spotR) (wp w0 : R) (rest : list R) :
  ws = w0 :: rest -> ~ In wp ws ->
  centroid1 (Z.of_nat (reference_index (O := ROps) ws wp)) (map trace ws)
  = Some (mean_ (O := ROps) (sx (trace w0)), mean_ (O := ROps) (sy (trace w0))).
Proof.
  intros E H. rewrite (reference_index_absent ws wp H). apply centroid1_at. rewrite E. reflexivity.
Qed.

Theorem centroid_reference_total (ws : list R) (trace : R -> spotR) (wp : R) :
  ws <> [] -> centroid1 (Z.of_nat (reference_index (O := ROps) ws wp)) (map trace ws) <> None.
Proof.
  intros Hne. destruct (in_dec Req_EM_T wp ws) as [Hin|Hout].
  - rewrite (centroid_reference_primary ws trace wp Hin). discriminate.
  - destruct ws as [|w0 rest]; [contradiction|].
    rewrite (centroid_reference_first (w0 :: rest) trace wp w0 rest eq_refl Hout). discriminate.
Qed.

(** an index beyond the list still fails: the lookup with the lens's own primary index was the defect *)
Theorem centroid_index_error {W} (ws : list W) (trace : W -> spotR) (pidx : nat) :
  (length ws <= pidx)%nat -> centroid1 (Z.of_nat pidx) (map trace ws) = None.
Proof.
  intros H. unfold M_C12.centroid1, nthZ. rewrite map_length.
  destruct (Z.ltb_spec (Z.of_nat pidx) 0); [lia|]. cbn [orb].
  destruct (Z.leb_spec (Z.of_nat (length ws)) (Z.of_nat pidx)); [rewrite Bool.orb_true_r; reflexivity|lia].
Qed.

(** failed rays (NaN coordinates) do not enter the centroid -- for every arithmetic instance *)
Theorem centroid_ignores_failed_ray (O : Ops) (xa xb ya yb ia : list (T O)) (nx ny : T O) (k : Z) :
  isnan_ nx = true -> isnan_ ny = true ->
  M_C12.centroid1 0%Z [mkSpot (xa ++ nx :: xb) (ya ++ ny :: yb) ia] =
  M_C12.centroid1 0%Z [mkSpot (xa ++ xb) (ya ++ yb) ia].
Proof.
  intros Hx Hy. unfold M_C12.centroid1. cbn [nthZ]. cbn. rewrite (nanmean_skip O xa xb nx Hx), (nanmean_skip O ya yb ny Hy). reflexivity.
Qed.

(** ** RMS and geometric radius of a spot centred on c *)
Theorem rms_radius_spec (c : R * R) (s : spotR) :
  is_rms_radius (sx s) (sy s) c (rms1 (center1 c s)).
Proof.
  unfold is_rms_radius, M_C12.rms1. rewrite nanmean_R, radii2_center. rops.
  set (d := dist2 (sx s) (sy s) c).
  split; [apply sqrt_pos|].
  rewrite mean_R. unfold Rcount.
  assert (Hs : 0 <= Rsum d) by (apply Rsum_nonneg; intros v Hv; eapply dist2_nonneg; exact Hv).
  destruct (length d) as [|n] eqn:E.
  - destruct d; [cbn [INR Rsum]; rewrite Rmult_0_l; reflexivity|discriminate].
  - assert (Hn : 0 < INR (S n)) by (apply lt_0_INR; lia).
    rewrite sqrt_sqrt.
    + field; lra.
    + apply Rmult_le_pos; [exact Hs|]. left; apply Rinv_0_lt_compat; exact Hn.
Qed.

Theorem geo_radius_spec (c : R * R) (s : spotR) :
  dist2 (sx s) (sy s) c <> [] ->
  is_geo_radius (sx s) (sy s) c (geo1 (center1 c s)).
Proof.
  intros Hne. unfold is_geo_radius, M_C12.geo1, M_C12.radii. rewrite nanmax_R, radii2_center.
  unfold lmap; rops. apply max_list_is_max.
  destruct (dist2 (sx s) (sy s) c); [contradiction|discriminate].
Qed.

(** every ray lies within the geometric radius *)
Corollary geo_radius_bounds (c : R * R) (s : spotR) q :
  In q (radii (center1 c s)) -> q <= geo1 (center1 c s).
Proof.
  intros H. unfold M_C12.geo1. rewrite nanmax_R.
  apply (proj2 (max_list_is_max (radii (center1 c s)) (fun E => ltac:(rewrite E in H; contradiction)))); exact H.
Qed.

(** ** _center_spots: structure of the result, and IndexError propagation *)
Theorem center_spots_spec pidx (data : list (list spotR)) out :
  center_spots pidx data = Some out ->
  exists cs, centroid pidx data = Some cs /\
             out = map (fun p => map (center1 (fst p)) (snd p)) (combine cs data).
Proof.
  unfold M_C12.center_spots. destruct (centroid pidx data) as [cs|]; [|discriminate].
  intros H; injection H as <-. exists cs; auto.
Qed.

(** ** Encircled energy *)
Lemma ee_at_encircled (s : spotR) r : ee_at s r = encircled (radii s) (si s) r.
Proof.
  unfold M_C12.ee_at. rewrite nansum_R.
  generalize (radii s) (si s). induction l as [|q l IH]; intros [|e l']; cbn; try reflexivity.
  rops. unfold Rleb. destruct (Rle_dec q r); cbn; rewrite IH; lra.
Qed.

Lemma encircled_monotone rad en r1 r2 :
  (forall e, In e en -> 0 <= e) -> r1 <= r2 -> encircled rad en r1 <= encircled rad en r2.
Proof.
  revert en; induction rad as [|q rad IH]; intros [|e en] He Hr; cbn; try lra.
  assert (0 <= e) by (apply He; left; reflexivity).
  assert (encircled rad en r1 <= encircled rad en r2) by (apply IH; [intros; apply He; right; assumption|exact Hr]).
  destruct (Rle_dec q r1); destruct (Rle_dec q r2); lra.
Qed.

Lemma encircled_total rad en r :
  (forall q, In q rad -> q <= r) -> encircled rad en r = total_energy rad en.
Proof.
  revert en; induction rad as [|q rad IH]; intros [|e en] H; cbn; try reflexivity.
  destruct (Rle_dec q r) as [_|N]; [|exfalso; apply N, H; left; reflexivity].
  rewrite IH; [reflexivity|]. intros; apply H; right; assumption.
Qed.

Lemma encircled_le_total rad en r :
  (forall e, In e en -> 0 <= e) -> encircled rad en r <= total_energy rad en.
Proof.
  revert en; induction rad as [|q rad IH]; intros [|e en] He; cbn; try lra.
  assert (0 <= e) by (apply He; left; reflexivity).
  assert (encircled rad en r <= total_energy rad en) by (apply IH; intros; apply He; right; assumption).
  destruct (Rle_dec q r); lra.
Qed.

(** non-negative ray energies => the encircled energy is non-decreasing in the radius *)
Theorem ee_monotone (s : spotR) r1 r2 :
  (forall e, In e (si s) -> 0 <= e) -> r1 <= r2 -> ee_at s r1 <= ee_at s r2.
Proof. intros; rewrite !ee_at_encircled; apply encircled_monotone; assumption. Qed.

(** ... never exceeds the total, and equals it once the radius covers every ray *)
Theorem ee_bounded (s : spotR) r :
  (forall e, In e (si s) -> 0 <= e) -> ee_at s r <= total_energy (radii s) (si s).
Proof. intros; rewrite ee_at_encircled; apply encircled_le_total; assumption. Qed.

Theorem ee_total (s : spotR) r :
  (forall q, In q (radii s) -> q <= r) -> ee_at s r = total_energy (radii s) (si s).
Proof. intros; rewrite ee_at_encircled; apply encircled_total; assumption. Qed.

(** np.linspace: number of samples and end point *)
Lemma linspace_length (a b : R) n : length (linspace (O := ROps) a b n) = n.
Proof.
  destruct n as [|[|m]]; cbn [linspace]; try reflexivity.
  rewrite app_length, map_length. cbn [length].
  assert (H : forall k z, length (seqZ z k) = k) by (induction k; intros; cbn; auto).
  rewrite H. lia.
Qed.

Lemma linspace_last (a b : R) n d : (2 <= n)%nat -> last (linspace (O := ROps) a b n) d = b.
Proof.
  intros H. destruct n as [|[|m]]; try lia. cbn [linspace]. apply last_last.
Qed.

(** the plotted curve ends at the total transmitted energy: the last radius is axis_lim * buffer, with
    axis_lim at least the geometric radius of the (centred) spot and buffer >= 1 *)
Theorem ee_curve_reaches_total (s : spotR) (axis_lim buffer : R) (npts : nat) :
  (2 <= npts)%nat -> 1 <= buffer -> radii s <> [] -> geo1 s <= axis_lim ->
  last (snd (ee_curve s axis_lim buffer npts)) 0 = total_energy (radii s) (si s).
Proof.
  intros Hn Hb Hne Hg. unfold M_C12.ee_curve. cbn [snd].
  set (rs := linspace (O := ROps) (ofZ (o := ROps) 0) (mul (o := ROps) axis_lim buffer) npts).
  assert (Hl : rs <> []).
  { intros E. assert (length rs = npts) by apply linspace_length. rewrite E in H; cbn in H; lia. }
  assert (Hlast : last rs 0 = axis_lim * buffer) by (apply linspace_last; exact Hn).
  assert (Hm : last (map (ee_at s) rs) 0 = ee_at s (last rs 0)).
  { clear Hlast. induction rs as [|x rs IH]; [contradiction|].
    destruct rs as [|y rs]; [reflexivity|].
    change (last (map (ee_at s) (x :: y :: rs)) 0) with (last (map (ee_at s) (y :: rs)) 0).
    change (last (x :: y :: rs) 0) with (last (y :: rs) 0). apply IH. discriminate. }
  rewrite Hm, Hlast. apply ee_total. intros q Hq.
  assert (Hq1 : q <= geo1 s) by (unfold M_C12.geo1; rewrite nanmax_R; apply (proj2 (max_list_is_max (radii s) Hne)); exact Hq).
  assert (Hq0 : 0 <= q).
  { unfold M_C12.radii, lmap in Hq. apply in_map_iff in Hq. destruct Hq as [v [<- _]]. rops. apply sqrt_pos. }
  assert (Ha : 0 <= axis_lim) by lra.
  assert (Hab : axis_lim * 1 <= axis_lim * buffer) by (apply Rmult_le_compat_l; lra).
  lra.
Qed.

(** ** RayOperand.rms_spot_size (single wavelength), the regenerated kernel:
    it is the RMS radius about the centroid of the traced spot *)
Lemma lmap_sub_sq_dist2 (xs ys : list R) (cx cy : R) :
  lmap2 (O := ROps) Rplus (lmap (O := ROps) (fun v => v * v) (lmap (O := ROps) (fun v => v - cx) xs))
                         (lmap (O := ROps) (fun v => v * v) (lmap (O := ROps) (fun v => v - cy) ys))
  = dist2 xs ys (cx, cy).
Proof.
  unfold lmap. revert ys; induction xs as [|x xs IH]; intros [|y ys]; cbn; try reflexivity.
  f_equal. apply IH.
Qed.

Theorem op_rms_spot_spec (xs ys : list R) :
  is_rms_radius xs ys (mean_ (O := ROps) xs, mean_ (O := ROps) ys) (k_op_rms_spot ROps xs ys).
Proof.
  unfold k_op_rms_spot. cbv zeta. rops.
  change (fun v_ : R => v_ * v_) with (fun v : R => v * v).
  rewrite lmap_sub_sq_dist2.
  unfold is_rms_radius.
  match goal with |- context [dist2 xs ys ?c] => remember (dist2 xs ys c) as d eqn:Ed end.
  split; [apply sqrt_pos|].
  rewrite (mean_R d). unfold Rcount.
  assert (Hs : 0 <= Rsum d) by (apply Rsum_nonneg; intros v Hv; rewrite Ed in Hv; eapply dist2_nonneg; exact Hv).
  clear Ed. destruct d as [|d0 d].
  - cbn [length INR Rsum]. rewrite Rmult_0_l. reflexivity.
  - assert (Hn : 0 < INR (length (d0 :: d))) by (apply lt_0_INR; cbn; lia).
    rewrite sqrt_sqrt.
    + field; lra.
    + apply Rmult_le_pos; [exact Hs|]. left; apply Rinv_0_lt_compat; exact Hn.
Qed.

Theorem op_rms_spot_centroid (xs ys : list R) :
  xs <> [] -> ys <> [] -> is_centroid xs ys (mean_ (O := ROps) xs, mean_ (O := ROps) ys).
Proof. intros; split; cbn [fst snd]; apply first_moment_mean; assumption. Qed.

(** satisfiability of the hypotheses: a three-ray spot *)
Example spot_example :
  let s : spotR := mkSpot (O := ROps) [1; 2; 3] [0; 0; 3] [1; 1; 1] in
  centroid1 0%Z [s] = Some (mean_ (O := ROps) (sx s), mean_ (O := ROps) (sy s)) /\ radii s <> [] /\
  (forall e, In e (si s) -> 0 <= e).
Proof.
  split; [apply (centroid1_at [0] (fun _ => _) 0 0%nat eq_refl)|]. split; [discriminate|].
  intros e [<-|[<-|[<-|[]]]]; lra.
Qed.

(** Theorems about the kernels regenerated from optiland/rays/real_rays.py *)
From Coq Require Import Reals Lra Lia ZArith List Psatz.
From OV Require Import Ops RInst Gen.RealRays.
Local Open Scope R_scope.

Ltac kunfold := cbv beta delta [k_refract k_reflect k_align k_rotate_x k_rotate_y k_rotate_z] iota zeta; rops.

(** ** Refraction: vector Snell, unit norm, half-space *)
Section Refract.
  Variables nx ny nz n1 n2 L M N : R.
  Hypothesis Hd : L*L + M*M + N*N = 1.
  Hypothesis Hn : nx*nx + ny*ny + nz*nz = 1.
  Let dot := L*nx + M*ny + N*nz.
  Hypothesis Hdot : dot <> 0.
  Hypothesis Hn2 : n2 <> 0.
  Let u := n1 / n2.
  Hypothesis Hrad : 0 <= 1 - u*u*(1 - dot*dot).

  Let out := k_refract ROps nx ny nz n1 n2 L M N.
  Let tx := fst (fst out).  Let ty := snd (fst out).  Let tz := snd out.

  Lemma refract_components :
    let s := Rsign dot in let a := Rabs dot in
    let r := sqrt (1 - u*u*(1 - a*a)) in
    tx = u*L + (nx*s)*r - u*(nx*s)*a /\
    ty = u*M + (ny*s)*r - u*(ny*s)*a /\
    tz = u*N + (nz*s)*r - u*(nz*s)*a.
  Proof.
    unfold tx, ty, tz, out. kunfold. cbn [fst snd].
    fold dot. fold u. repeat split; ring_simplify; reflexivity.
  Qed.

  Lemma refract_facts :
    let s := Rsign dot in let a := Rabs dot in
    let r := sqrt (1 - u*u*(1 - a*a)) in
    s*s = 1 /\ a = s*dot /\ r*r = 1 - u*u*(1 - a*a) /\ 0 <= r /\ 0 <= a.
  Proof.
    intros s a r. repeat split.
    - apply Rsign_sq; exact Hdot.
    - unfold a, s. rewrite Rsign_abs. reflexivity.
    - unfold r. apply sqrt_sqrt. unfold a. replace (Rabs dot * Rabs dot) with (dot*dot).
      exact Hrad. rewrite <- Rabs_mult. rewrite Rabs_right; [ring|]. nra.
    - apply sqrt_pos.
    - apply Rabs_pos.
  Qed.

  Theorem refract_unit : tx*tx + ty*ty + tz*tz = 1.
  Proof.
    destruct refract_components as (Hx & Hy & Hz).
    destruct refract_facts as (Hs & Ha & Hr & _ & _).
    rewrite Hx, Hy, Hz.
    set (s := Rsign dot) in *. set (a := Rabs dot) in *. set (r := sqrt _) in *.
    transitivity (u*u*(L*L+M*M+N*N) + 2*u*(r-u*a)*(s*(L*nx+M*ny+N*nz))
                  + (r-u*a)*(r-u*a)*(s*s)*(nx*nx+ny*ny+nz*nz)); [ring|].
    rewrite Hd, Hn, Hs. fold dot. rewrite <- Ha.
    replace (u*u*1 + 2*u*(r-u*a)*a + (r-u*a)*(r-u*a)*1*1) with (r*r + u*u*(1 - a*a)) by ring.
    rewrite Hr. ring.
  Qed.

  (** vector form of Snell's law:  n2 (t x n) = n1 (d x n) *)
  Theorem refract_snell :
    n2*(ty*nz - tz*ny) = n1*(M*nz - N*ny) /\
    n2*(tz*nx - tx*nz) = n1*(N*nx - L*nz) /\
    n2*(tx*ny - ty*nx) = n1*(L*ny - M*nx).
  Proof.
    destruct refract_components as (Hx & Hy & Hz).
    rewrite Hx, Hy, Hz. unfold u. repeat split; field; exact Hn2.
  Qed.

  (** the refracted ray continues into the half-space the incident ray was heading to *)
  Theorem refract_halfspace : 0 <= (tx*nx + ty*ny + tz*nz) * dot.
  Proof.
    destruct refract_components as (Hx & Hy & Hz).
    destruct refract_facts as (Hs & Ha & Hr & Hr0 & Ha0).
    rewrite Hx, Hy, Hz.
    set (s := Rsign dot) in *. set (a := Rabs dot) in *. set (r := sqrt _) in *.
    replace ((u*L + nx*s*r - u*(nx*s)*a)*nx + (u*M + ny*s*r - u*(ny*s)*a)*ny + (u*N + nz*s*r - u*(nz*s)*a)*nz)
      with (u*(L*nx+M*ny+N*nz) + (s*r - u*s*a)*(nx*nx+ny*ny+nz*nz)) by ring.
    rewrite Hn. fold dot.
    replace ((u*dot + (s*r - u*s*a)*1)*dot) with (u*dot*dot + r*(s*dot) - u*a*(s*dot)) by ring.
    rewrite <- Ha.
    replace (dot*dot) with (a*a).
    - replace (u*dot*dot) with (u*(dot*dot)) by ring.
      replace (dot*dot) with (a*a). nra.
      rewrite Ha. replace (s*dot*(s*dot)) with ((s*s)*(dot*dot)) by ring. rewrite Hs; ring.
    - rewrite Ha. replace (s*dot*(s*dot)) with ((s*s)*(dot*dot)) by ring. rewrite Hs; ring.
  Qed.
End Refract.

(** ** Reflection *)
Section Reflect.
  Variables nx ny nz L M N : R.
  Hypothesis Hd : L*L + M*M + N*N = 1.
  Hypothesis Hn : nx*nx + ny*ny + nz*nz = 1.
  Let dot := L*nx + M*ny + N*nz.
  Let out := k_reflect ROps nx ny nz L M N.
  Let tx := fst (fst out).  Let ty := snd (fst out).  Let tz := snd out.

  Lemma reflect_components :
    tx = L - 2*dot*nx /\ ty = M - 2*dot*ny /\ tz = N - 2*dot*nz.
  Proof.
    unfold tx, ty, tz, out. kunfold. cbn [fst snd]. fold dot.
    assert (H : forall n, 2 * Rabs dot * (n * Rsign dot) = 2 * dot * n).
    { intro n. rewrite <- Rsign_abs.
      destruct (Req_dec dot 0) as [E|E].
      - rewrite E, Rsign_zero. ring.
      - replace (2 * (Rsign dot * dot) * (n * Rsign dot)) with (2 * dot * n * (Rsign dot * Rsign dot)) by ring.
        rewrite Rsign_sq by exact E. ring. }
    rewrite !H. repeat split; reflexivity.
  Qed.

  Theorem reflect_unit : tx*tx + ty*ty + tz*tz = 1.
  Proof.
    destruct reflect_components as (Hx & Hy & Hz). rewrite Hx, Hy, Hz.
    transitivity ((L*L+M*M+N*N) - 4*dot*(L*nx+M*ny+N*nz) + 4*dot*dot*(nx*nx+ny*ny+nz*nz)); [ring|].
    rewrite Hd, Hn. fold dot. ring.
  Qed.

  (** law of reflection: tangential component kept, normal component reversed *)
  Theorem reflect_law :
    (ty*nz - tz*ny = M*nz - N*ny /\ tz*nx - tx*nz = N*nx - L*nz /\ tx*ny - ty*nx = L*ny - M*nx)
    /\ tx*nx + ty*ny + tz*nz = - dot.
  Proof.
    destruct reflect_components as (Hx & Hy & Hz). rewrite Hx, Hy, Hz.
    split; [repeat split; ring|].
    transitivity ((L*nx+M*ny+N*nz) - 2*dot*(nx*nx+ny*ny+nz*nz)); [ring|].
    rewrite Hn. fold dot. ring.
  Qed.
End Reflect.

(** ** Rotations are orthogonal and invertible *)
Lemma cs1 t : cos t * cos t + sin t * sin t = 1.
Proof. generalize (sin2_cos2 t); unfold Rsqr; lra. Qed.

Theorem rotate_x_orthogonal rx y z M N :
  let '(y', z', M', N') := k_rotate_x ROps rx y z M N in
  y'*y' + z'*z' = y*y + z*z /\ M'*M' + N'*N' = M*M + N*N.
Proof.
  kunfold. generalize (cs1 rx). intros H. split.
  - transitivity ((y*y+z*z)*(cos rx * cos rx + sin rx * sin rx)); [ring|rewrite H; ring].
  - transitivity ((M*M+N*N)*(cos rx * cos rx + sin rx * sin rx)); [ring|rewrite H; ring].
Qed.
Theorem rotate_y_orthogonal ry x z L N :
  let '(x', z', L', N') := k_rotate_y ROps ry x z L N in
  x'*x' + z'*z' = x*x + z*z /\ L'*L' + N'*N' = L*L + N*N.
Proof.
  kunfold. generalize (cs1 ry). intros H. split.
  - transitivity ((x*x+z*z)*(cos ry * cos ry + sin ry * sin ry)); [ring|rewrite H; ring].
  - transitivity ((L*L+N*N)*(cos ry * cos ry + sin ry * sin ry)); [ring|rewrite H; ring].
Qed.
Theorem rotate_z_orthogonal rz x y L M :
  let '(x', y', L', M') := k_rotate_z ROps rz x y L M in
  x'*x' + y'*y' = x*x + y*y /\ L'*L' + M'*M' = L*L + M*M.
Proof.
  kunfold. generalize (cs1 rz). intros H. split.
  - transitivity ((x*x+y*y)*(cos rz * cos rz + sin rz * sin rz)); [ring|rewrite H; ring].
  - transitivity ((L*L+M*M)*(cos rz * cos rz + sin rz * sin rz)); [ring|rewrite H; ring].
Qed.

Theorem rotate_x_inverse rx y z M N :
  let '(y', z', M', N') := k_rotate_x ROps rx y z M N in
  k_rotate_x ROps (- rx) y' z' M' N' = (y, z, M, N).
Proof.
  kunfold. rewrite cos_neg, sin_neg. generalize (cs1 rx); intros H.
  f_equal; [f_equal; [f_equal|]|].
  - transitivity (y*(cos rx * cos rx + sin rx * sin rx)); [ring|rewrite H; ring].
  - transitivity (z*(cos rx * cos rx + sin rx * sin rx)); [ring|rewrite H; ring].
  - transitivity (M*(cos rx * cos rx + sin rx * sin rx)); [ring|rewrite H; ring].
  - transitivity (N*(cos rx * cos rx + sin rx * sin rx)); [ring|rewrite H; ring].
Qed.
Theorem rotate_y_inverse ry x z L N :
  let '(x', z', L', N') := k_rotate_y ROps ry x z L N in
  k_rotate_y ROps (- ry) x' z' L' N' = (x, z, L, N).
Proof.
  kunfold. rewrite cos_neg, sin_neg. generalize (cs1 ry); intros H.
  f_equal; [f_equal; [f_equal|]|].
  - transitivity (x*(cos ry * cos ry + sin ry * sin ry)); [ring|rewrite H; ring].
  - transitivity (z*(cos ry * cos ry + sin ry * sin ry)); [ring|rewrite H; ring].
  - transitivity (L*(cos ry * cos ry + sin ry * sin ry)); [ring|rewrite H; ring].
  - transitivity (N*(cos ry * cos ry + sin ry * sin ry)); [ring|rewrite H; ring].
Qed.
Theorem rotate_z_inverse rz x y L M :
  let '(x', y', L', M') := k_rotate_z ROps rz x y L M in
  k_rotate_z ROps (- rz) x' y' L' M' = (x, y, L, M).
Proof.
  kunfold. rewrite cos_neg, sin_neg. generalize (cs1 rz); intros H.
  f_equal; [f_equal; [f_equal|]|].
  - transitivity (x*(cos rz * cos rz + sin rz * sin rz)); [ring|rewrite H; ring].
  - transitivity (y*(cos rz * cos rz + sin rz * sin rz)); [ring|rewrite H; ring].
  - transitivity (L*(cos rz * cos rz + sin rz * sin rz)); [ring|rewrite H; ring].
  - transitivity (M*(cos rz * cos rz + sin rz * sin rz)); [ring|rewrite H; ring].
Qed.

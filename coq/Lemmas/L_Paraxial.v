(** Theorems about the paraxial trace (C04): the model built on the regenerated kernel
    [k_surf_trace_paraxial] equals matrix optics for every surface list. *)
From Coq Require Import Reals Lra Lia ZArith List Bool Psatz.
From OV Require Import Ops RInst XR Gen.RealRays Gen.Paraxial Model.Paraxial Spec.S_ABCD.
Import ListNotations.
Local Open Scope R_scope.

(** ** abstraction of a model surface (extended reals) to an abstract surface *)
Definition curv (Rx : xR) : option R :=
  match Rx with Fin r => if Req_EM_T r 0 then None else Some (/ r) | PInf | NInf => Some 0 | NaN => None end.

(** well-formed axially symmetric surface: finite vertex, no decentre in y, radius non-zero
    (or infinite), finite non-zero index behind *)
Inductive wf_surf : psurf XOps -> asurf -> Prop :=
| wf_obj : forall x y z rx ry rz Rx n1 n2 rf st,
    wf_surf (mkPS (O:=XOps) x y z rx ry rz Rx n1 n2 rf st true) (mkAS 0 0 1 1 false true)
| wf_s : forall x z rx ry rz Rx c n1 n2 rf st,
    curv Rx = Some c -> n2 <> 0 ->
    wf_surf (mkPS (O:=XOps) (Fin x) (Fin 0) (Fin z) rx ry rz Rx (Fin n1) (Fin n2) rf st false)
            (mkAS z c n1 n2 rf false).

Definition astep (s : asurf) (st : R * R * R) : R * R * R :=
  let '(y, u, z) := st in
  let '(y', u') := mapply (surf_matrix s z) (y, u) in (y', u', next_z s z).

Lemma fin4 a b c d a' b' c' d' :
  a = a' -> b = b' -> c = c' -> d = d' -> (Fin a, Fin b, Fin c, Fin d) = (Fin a', Fin b', Fin c', Fin d').
Proof. intros; subst; reflexivity. Qed.

Lemma xdiv_fin a b : b <> 0 -> xdiv (Fin a) (Fin b) = Fin (a / b).
Proof. intros H; cbn. destruct (Req_EM_T b 0); [contradiction|reflexivity]. Qed.

(** one surface: the regenerated kernel applies the surface matrix *)
Lemma pstep_matrix ps s y u z x0 :
  wf_surf ps s ->
  exists x1, pstep ps (Fin y, Fin u, Fin z, Fin x0) =
  (let '(y', u', z') := astep s (y, u, z) in (Fin y', Fin u', Fin z', Fin x1)).
Proof.
  intros W. inversion W as [x y0 z0 rx ry rz Rx n1 n2 rf st|x z0 rx ry rz Rx c n1 n2 rf st Hc Hn]; subst.
  - exists x0. unfold pstep, astep, surf_matrix, next_z. cbn [p_obj a_obj]. rewrite mapply_mid. reflexivity.
  - unfold pstep. cbn [p_obj p_x p_y p_z p_rx p_ry p_rz p_refl p_R p_npre p_npost].
    unfold k_surf_trace_paraxial, k_geom_localize_px, k_geom_globalize_px, k_cs_localize_px,
      k_cs_globalize_px, k_translate, k_px_propagate. xops.
    cbn [xneg xadd xsub xmul].
    unfold astep, surf_matrix, next_z. cbn [a_obj a_refl a_c a_n1 a_n2 a_z].
    exists (x0 + - x + x).
    destruct rf.
    + (* mirror *)
      unfold curv in Hc. destruct Rx as [r| | |]; try discriminate.
      * destruct (Req_EM_T r 0) as [E|E]; [discriminate|]. injection Hc as <-.
        rewrite xdiv_fin by exact E. cbn [xneg xadd xsub xmul mapply mmul mirror transfer ma mb mc md fst snd].
        apply fin4; try (field; exact E); ring.
      * injection Hc as <-. cbn [xdiv xneg xadd xsub xmul mapply mmul mirror transfer ma mb mc md fst snd].
        apply fin4; ring.
      * injection Hc as <-. cbn [xdiv xneg xadd xsub xmul mapply mmul mirror transfer ma mb mc md fst snd].
        apply fin4; ring.
    + unfold curv in Hc. destruct Rx as [r| | |]; try discriminate.
      * destruct (Req_EM_T r 0) as [E|E]; [discriminate|]. injection Hc as <-.
        rewrite ?xdiv_fin by assumption. cbn [xneg xadd xsub xmul].
        rewrite ?xdiv_fin by assumption.
        cbn [xneg xadd xsub xmul mapply mmul refraction transfer ma mb mc md fst snd].
        apply fin4; try (field; split; assumption); ring.
      * injection Hc as <-. cbn [xdiv xneg xadd xsub xmul].
        destruct (Req_EM_T n2 0) as [E2|E2]; [contradiction|].
        cbn [xneg xadd xsub xmul mapply mmul refraction transfer ma mb mc md fst snd].
        apply fin4; try (field; assumption); ring.
      * injection Hc as <-. cbn [xdiv xneg xadd xsub xmul].
        destruct (Req_EM_T n2 0) as [E2|E2]; [contradiction|].
        cbn [xneg xadd xsub xmul mapply mmul refraction transfer ma mb mc md fst snd].
        apply fin4; try (field; assumption); ring.
Qed.

(** ** whole trace = abstract trace, for every surface list *)
Fixpoint atrace (ss : list asurf) (st : R * R * R) : list (R * R) :=
  match ss with
  | [] => []
  | s :: ss' => let st' := astep s st in let '(y, u, _) := st' in (y, u) :: atrace ss' st'
  end.

Definition finyu (p : R * R) : xR * xR := (Fin (fst p), Fin (snd p)).

Theorem ptrace_is_atrace pss ass :
  Forall2 wf_surf pss ass ->
  forall y u z x0,
    ptrace pss (Fin y, Fin u, Fin z, Fin x0) = map finyu (atrace ass (y, u, z)).
Proof.
  induction 1 as [|ps s pss' ass' W _ IH]; intros y u z x0; [reflexivity|].
  cbn [ptrace atrace map].
  destruct (pstep_matrix ps s y u z x0 W) as [x1 E]. rewrite E.
  destruct (astep s (y, u, z)) as [[y' u'] z'] eqn:Ea.
  cbn [map finyu fst snd]. f_equal. apply IH.
Qed.

(** ** ABCD: the record after each surface is the accumulated matrix applied to the launch *)
Lemma atrace_abcd_gen ss : forall acc y u z,
  atrace ss (fst (mapply acc (y, u)), snd (mapply acc (y, u)), z) =
  map (fun m => mapply m (y, u)) (sysmats ss z acc).
Proof.
  induction ss as [|s ss IH]; intros acc y u z; [reflexivity|].
  cbn [atrace sysmats map astep].
  rewrite <- surjective_pairing.
  rewrite <- mapply_mmul.
  destruct (mapply (mmul (surf_matrix s z) acc) (y, u)) as [y' u'] eqn:E.
  f_equal.
  specialize (IH (mmul (surf_matrix s z) acc) y u (next_z s z)).
  rewrite E in IH. cbn [fst snd] in IH. exact IH.
Qed.

Theorem atrace_abcd ss y u z :
  atrace ss (y, u, z) = map (fun m => mapply m (y, u)) (sysmats ss z mid).
Proof.
  generalize (atrace_abcd_gen ss mid y u z). rewrite mapply_mid. cbn [fst snd]. auto.
Qed.

(** linearity in launch height and slope *)
Fixpoint lin2 (a b : R) (l1 l2 : list (R * R)) : list (R * R) :=
  match l1, l2 with
  | p :: l1', q :: l2' => (a * fst p + b * fst q, a * snd p + b * snd q) :: lin2 a b l1' l2'
  | _, _ => []
  end.

Theorem atrace_linear ss : forall a b y1 u1 y2 u2 z,
  atrace ss (a * y1 + b * y2, a * u1 + b * u2, z) =
  lin2 a b (atrace ss (y1, u1, z)) (atrace ss (y2, u2, z)).
Proof.
  induction ss as [|s ss IH]; intros a b y1 u1 y2 u2 z; [reflexivity|].
  cbn [atrace astep lin2].
  generalize (mapply_linear (surf_matrix s z) a b (y1, u1) (y2, u2)). cbn [fst snd]. intros L. rewrite L.
  destruct (mapply (surf_matrix s z) (y1, u1)) as [p1 q1].
  destruct (mapply (surf_matrix s z) (y2, u2)) as [p2 q2].
  cbn [fst snd lin2]. f_equal. apply IH.
Qed.

(** ** Lagrange invariant *)
Definition W (p q : R * R) : R := fst q * snd p - fst p * snd q.   (* ybar*u - y*ubar *)

Lemma W_mapply m p q : W (mapply m p) (mapply m q) = mdet m * W p q.
Proof. destruct p, q. unfold W, mapply, mdet; simpl; ring. Qed.

Lemma mdet_surf s z :
  mdet (surf_matrix s z) =
  if a_obj s then 1 else if a_refl s then -1 else a_n1 s / a_n2 s.
Proof.
  unfold surf_matrix. destruct (a_obj s); [unfold mdet, mid; simpl; ring|].
  rewrite mdet_mmul. destruct (a_refl s); unfold mdet, mirror, refraction, transfer; simpl; ring.
Qed.

(** at every surface: the invariant formed from two rays is the launch invariant times the
    determinant of the accumulated matrix *)
Theorem lagrange_records ss y1 u1 y2 u2 z :
  Forall2 (fun r12 m => W (fst r12) (snd r12) = mdet m * W (y1, u1) (y2, u2))
          (combine (atrace ss (y1, u1, z)) (atrace ss (y2, u2, z))) (sysmats ss z mid).
Proof.
  rewrite !atrace_abcd.
  generalize (sysmats ss z mid). intros ms. induction ms as [|m ms IH]; [constructor|].
  cbn [map combine]. constructor; [|exact IH]. cbn [fst snd]. apply W_mapply.
Qed.

(** determinant of the accumulated matrices of a chained system: n_first/n_last up to the sign
    change at each mirror (index sign reversal) *)
Fixpoint chained (n : R) (ss : list asurf) : Prop :=
  match ss with
  | [] => True
  | s :: ss' => if a_obj s then chained n ss'
                else a_n1 s = n /\ a_n2 s <> 0 /\ n <> 0 /\
                     (if a_refl s then chained n ss' else chained (a_n2 s) ss')
  end.
Fixpoint last_index (n : R) (ss : list asurf) : R :=
  match ss with [] => n | s :: ss' => if a_obj s || a_refl s then last_index n ss' else last_index (a_n2 s) ss' end.
Fixpoint mirror_sign (ss : list asurf) : R :=
  match ss with [] => 1 | s :: ss' => if negb (a_obj s) && a_refl s then - mirror_sign ss' else mirror_sign ss' end.

Theorem mdet_sysmat ss : forall n z, chained n ss -> n <> 0 ->
  mdet (sysmat ss z) * last_index n ss = mirror_sign ss * n.
Proof.
  induction ss as [|s ss IH]; intros n z Hc Hn.
  - cbn. unfold mdet, mid; simpl; ring.
  - cbn [sysmat chained last_index mirror_sign] in *. rewrite mdet_mmul, mdet_surf.
    destruct (a_obj s) eqn:Eo; cbn [orb negb andb].
    + rewrite Rmult_1_r. apply IH; assumption.
    + destruct Hc as (H1 & H2 & H3 & Hc). destruct (a_refl s) eqn:Er.
      * specialize (IH n (next_z s z) Hc Hn). nra.
      * specialize (IH (a_n2 s) (next_z s z) Hc H2). rewrite H1.
        replace (mdet (sysmat ss (next_z s z)) * (n / a_n2 s) * last_index (a_n2 s) ss)
          with ((mdet (sysmat ss (next_z s z)) * last_index (a_n2 s) ss) * (n / a_n2 s)) by ring.
        rewrite IH. field; assumption.
Qed.

(** Lagrange invariant of the whole system: n_last * W_last = (+/-) n_first * W_first *)
Theorem lagrange_invariant ss n z y1 u1 y2 u2 :
  chained n ss -> n <> 0 ->
  last_index n ss * W (mapply (sysmat ss z) (y1, u1)) (mapply (sysmat ss z) (y2, u2)) =
  mirror_sign ss * n * W (y1, u1) (y2, u2).
Proof.
  intros Hc Hn. rewrite W_mapply. generalize (mdet_sysmat ss n z Hc Hn). intros E.
  replace (last_index n ss * (mdet (sysmat ss z) * W (y1, u1) (y2, u2)))
    with ((mdet (sysmat ss z) * last_index n ss) * W (y1, u1) (y2, u2)) by ring.
  rewrite E. ring.
Qed.

Lemma last_default {A} (l : list A) : forall (x d d' : A), last (x :: l) d = last (x :: l) d'.
Proof.
  induction l as [|b l IH]; intros x d d'; [reflexivity|].
  change (last (x :: b :: l) d) with (last (b :: l) d).
  change (last (x :: b :: l) d') with (last (b :: l) d'). apply IH.
Qed.
Lemma last_cons {A} (l : list A) (a d : A) : last (a :: l) d = last l a.
Proof. destruct l as [|b l]; [reflexivity|]. change (last (a :: b :: l) d) with (last (b :: l) d). apply last_default. Qed.

(** the last accumulated matrix is the system matrix *)
Lemma sysmats_last ss : forall z acc,
  last (sysmats ss z acc) acc = mmul (sysmat ss z) acc.
Proof.
  induction ss as [|s ss IH]; intros z acc.
  - cbn. unfold mmul, mid; destruct acc; simpl; f_equal; ring.
  - cbn [sysmats sysmat].
    rewrite last_cons.
    rewrite IH. unfold mmul; destruct acc; simpl; f_equal; ring.
Qed.

(** ** Non-vacuity: a thin biconvex singlet in air *)
Example singlet_wf :
  Forall2 wf_surf
    [mkPS (O:=XOps) (Fin 0) (Fin 0) NInf (Fin 0) (Fin 0) (Fin 0) PInf (Fin 1) (Fin 1) false false true;
     mkPS (O:=XOps) (Fin 0) (Fin 0) (Fin 0) (Fin 0) (Fin 0) (Fin 0) (Fin 50) (Fin 1) (Fin 1.5) false true false;
     mkPS (O:=XOps) (Fin 0) (Fin 0) (Fin 5) (Fin 0) (Fin 0) (Fin 0) (Fin (-50)) (Fin 1.5) (Fin 1) false false false;
     mkPS (O:=XOps) (Fin 0) (Fin 0) (Fin 50) (Fin 0) (Fin 0) (Fin 0) PInf (Fin 1) (Fin 1) false false false]
    [mkAS 0 0 1 1 false true; mkAS 0 (/ 50) 1 1.5 false false; mkAS 5 (/ (-50)) 1.5 1 false false;
     mkAS 50 0 1 1 false false].
Proof.
  repeat constructor; unfold curv; try (destruct (Req_EM_T _ _); [lra|reflexivity]); try lra; reflexivity.
Qed.

(** ** cardinal points from the system matrix *)
Lemma last_map {A B} (f : A -> B) (l : list A) (a : A) (d : B) :
  l <> [] -> last (map f l) d = f (last l a).
Proof.
  induction l as [|x l IH]; [congruence|]. intros _. destruct l as [|y l]; [reflexivity|].
  change (last (map f (x :: y :: l)) d) with (last (map f (y :: l)) d).
  change (last (x :: y :: l) a) with (last (y :: l) a). apply IH. discriminate.
Qed.

Lemma sysmats_nonempty s ss z acc : sysmats (s :: ss) z acc <> [].
Proof. cbn. discriminate. Qed.

(** back focal length and back focal distance from the system matrix [[A B][C D]] of the surfaces
    (transfer from one unit in front of the first surface): f2 = -1/C (before the mirror-parity sign),
    F2 = -A/C *)
Theorem focal_from_matrix pobj psrest aobj asrest z1 :
  Forall2 wf_surf (pobj :: psrest) (aobj :: asrest) ->
  a_obj aobj = true -> asrest <> [] ->
  pos (O:=XOps) (pobj :: psrest) 1 = Fin z1 ->
  let m := sysmat (aobj :: asrest) (z1 - 1) in
  mc m <> 0 ->
  f2_signed (pobj :: psrest) = Fin (- 1 / mc m) /\
  F2 (pobj :: psrest) = Fin (- ma m / mc m).
Proof.
  intros HW Hobj Hne Hpos m Hc.
  assert (Htr : tg (O:=XOps) (pobj :: psrest) (Fin 1) (Fin 0) (xsub (Fin z1) (Fin 1)) false 0
                = map finyu (map (fun mm => mapply mm (1, 0)) (sysmats (aobj :: asrest) (z1 - 1) mid))).
  { unfold tg. cbn [skipn]. cbn [xsub xneg xadd].
    replace (z1 + - (1)) with (z1 - 1) by ring.
    etransitivity; [exact (ptrace_is_atrace _ _ HW 1 0 (z1 - 1) 0)|]. rewrite atrace_abcd. reflexivity. }
  assert (Hlast : lastyu (O:=XOps) (map finyu (map (fun mm => mapply mm (1, 0)) (sysmats (aobj :: asrest) (z1 - 1) mid)))
                  = finyu (mapply m (1, 0))).
  { unfold lastyu. rewrite map_map.
    rewrite (last_map (fun x => finyu (mapply x (1, 0))) _ mid); [|apply sysmats_nonempty].
    rewrite sysmats_last. unfold m. f_equal. f_equal.
    unfold mmul, mid; destruct (sysmat _ _); simpl; f_equal; ring. }
  assert (Hfirst : firstyu (O:=XOps) (map finyu (map (fun mm => mapply mm (1, 0)) (sysmats (aobj :: asrest) (z1 - 1) mid)))
                   = (Fin 1, Fin 0)).
  { cbn [sysmats map firstyu hd]. unfold surf_matrix. rewrite Hobj.
    unfold finyu, mapply, mmul, mid; simpl. f_equal; f_equal; ring. }
  unfold f2_signed, F2. xops. rewrite Hpos.
  change (xsub (Fin z1) (Fin (IZR 1))) with (xsub (Fin z1) (Fin 1)).
  rewrite Htr, Hlast, Hfirst. unfold finyu, mapply. cbn [fst snd xneg xdiv].
  replace (mc m * 1 + md m * 0) with (mc m) by ring.
  replace (ma m * 1 + mb m * 0) with (ma m) by ring.
  destruct (Req_EM_T (mc m) 0) as [E|E]; [contradiction|].
  split; reflexivity.
Qed.

(** Jones matrices: the kernels regenerated from optiland/jones.py against the Jones-calculus
    specifications of Spec/S_C17.v (projectors onto the stated states, unitary retarders,
    rotation covariance). *)
From Coq Require Import Reals Lra Lia ZArith List String Psatz Nsatz.
From OV Require Import Ops RInst Cx Gen.Jones Spec.S_C17 Model.M_C17.
Import ListNotations.
Local Open Scope R_scope.
Local Notation cofR := (@Cx.cofR ROps).
Local Notation cI := (@Cx.cI ROps).
Local Notation cneg := (@Cx.cneg ROps).
Local Notation cmul := (@Cx.cmul ROps).
Local Notation cdiv := (@Cx.cdiv ROps).
Local Notation cexp := (@Cx.cexp ROps).
Local Notation c0 := (@Cx.c0 ROps).
Local Notation c1 := (@Cx.c1 ROps).
Local Notation cadd := (@Cx.cadd ROps).
Local Notation m3_apply := (@Cx.m3_apply ROps).
Local Notation m3_mul := (@Cx.m3_mul ROps).
Local Notation m3_flat := (@Cx.m3_flat ROps).

Lemma exp_eq1 x : x = 0 -> exp x = 1.
Proof. intros ->. apply exp_0. Qed.
Lemma cos_eq x y : x = y -> cos x = cos y.
Proof. intros ->. reflexivity. Qed.
Lemma sin_eq x y : x = y -> sin x = sin y.
Proof. intros ->. reflexivity. Qed.
Lemma cs1 t : cos t * cos t + sin t * sin t = 1.
Proof. generalize (sin2_cos2 t); unfold Rsqr; lra. Qed.

Ltac cx_unfold :=
  cbv beta iota zeta delta [Cx.cexp Cx.cdiv Cx.cmul Cx.cadd Cx.csub Cx.cneg Cx.cconj Cx.cscale Cx.cI Cx.c0 Cx.c1
    Cx.cofR Cx.cabs2 Ccis fst snd
    T add sub mul div neg sqrt_ abs_ sign_ ltb_ leb_ eqb_ isnan_ isinf_ ofZ lit
    inf_ nan_ pi_ cos_ sin_ tan_ exp_ acos_ asin_ atan2_ pow_ floor_ ROps] in *.

(** np.exp(1j * phi) *)
Lemma cis_R (phi : R) : cis (O:=ROps) phi = Ccis phi.
Proof.
  unfold cis. cx_unfold. f_equal.
  - rewrite (exp_eq1 (0 * phi - 1 * 0)) by ring. rewrite (cos_eq (0 * 0 + 1 * phi) phi) by ring. ring.
  - rewrite (exp_eq1 (0 * phi - 1 * 0)) by ring. rewrite (sin_eq (0 * 0 + 1 * phi) phi) by ring. ring.
Qed.
(** np.exp(-1j * d / 2)  and  np.exp(1j * d / 2)  as the translator renders them *)
Lemma cexp_mI (d : R) :
  cexp (cdiv (cmul (cneg cI) (cofR d)) (cofR (ofZ 2))) = Ccis (- (d / 2)).
Proof.
  cx_unfold. rewrite cos_neg, sin_neg. f_equal.
  - rewrite exp_eq1 by (field). rewrite (cos_eq _ (- (d / 2))) by field. rewrite cos_neg. ring.
  - rewrite exp_eq1 by (field). rewrite (sin_eq _ (- (d / 2))) by field. rewrite sin_neg. ring.
Qed.
Lemma cexp_pI (d : R) :
  cexp (cdiv (cmul cI (cofR d)) (cofR (ofZ 2))) = Ccis (d / 2).
Proof.
  cx_unfold. f_equal.
  - rewrite exp_eq1 by (field). rewrite (cos_eq _ (d / 2)) by field. ring.
  - rewrite exp_eq1 by (field). rewrite (sin_eq _ (d / 2)) by field. ring.
Qed.

Ltac m3_unfold :=
  cbv beta iota zeta delta [is_unitary is_hermitian is_idempotent retarder_spec diattenuator_spec rotated_element
    projector3 rot3 diag3 m3_adj m3_id m3_ofR Cx.m3_mul Cx.m3_apply m3_set m3_zero Cx.m3_flat m3_list cx_flat jvec3
    Z.mul Z.add Pos.mul Pos.add Pos.succ Pos.add_carry flat_map app fst snd
    Cx.cexp Cx.cdiv Cx.cmul Cx.cadd Cx.csub Cx.cneg Cx.cconj Cx.cscale Cx.cI Cx.c0 Cx.c1 Cx.cofR Cx.cabs2 Ccis
    T add sub mul div neg sqrt_ abs_ sign_ ltb_ leb_ eqb_ isnan_ isinf_ ofZ lit
    inf_ nan_ pi_ cos_ sin_ tan_ exp_ acos_ asin_ atan2_ pow_ floor_ ROps] in *.
(** split an equality of nested tuples / lists of reals into scalar goals *)
Ltac split_eq := repeat (match goal with
  | |- (_, _) = (_, _) => f_equal
  | |- _ :: _ = _ :: _ => f_equal
  | |- @eq (list _) [] [] => reflexivity
  end).

(** ** Linear retarder: J(d, theta) = R(theta) diag(e^{-id/2}, e^{+id/2}) R(-theta) *)
Theorem retarder_kernel (d theta x : R) :
  k_jones_retarder ROps d theta x = m3_flat (retarder_spec d theta).
Proof.
  cbv beta delta [k_jones_retarder] iota zeta.
  rewrite !cexp_mI, !cexp_pI.
  m3_unfold. cx_unfold. rewrite ?cos_neg, ?sin_neg, ?sin_2a.
  split_eq; ring.
Qed.

(** matrix algebra over C needed for the structural proofs *)
Ltac m3_destruct m :=
  let a := fresh "a" in let b := fresh "b" in let c := fresh "c" in let d := fresh "d" in
  let e := fresh "e" in let f := fresh "f" in let g := fresh "g" in let h := fresh "h" in let k := fresh "k" in
  destruct m as [[[[[[[[a b] c] d] e] f] g] h] k];
  destruct a, b, c, d, e, f, g, h, k.
Lemma m3_mul_assoc (A B D : Mat) : m3_mul (m3_mul A B) D = m3_mul A (m3_mul B D).
Proof. m3_destruct A. m3_destruct B. m3_destruct D. m3_unfold. cx_unfold. split_eq; ring. Qed.
Lemma m3_adj_mul (A B : Mat) : m3_adj (m3_mul A B) = m3_mul (m3_adj B) (m3_adj A).
Proof. m3_destruct A. m3_destruct B. m3_unfold. cx_unfold. split_eq; ring. Qed.
Lemma m3_mul_id_l (A : Mat) : m3_mul (@m3_id ROps) A = A.
Proof. m3_destruct A. m3_unfold. cx_unfold. split_eq; ring. Qed.
Lemma m3_apply_mul (A B : Mat) (v : CV3 ROps) : m3_apply (m3_mul A B) v = m3_apply A (m3_apply B v).
Proof.
  m3_destruct A. m3_destruct B. destruct v as [[[v1 v2] [v3 v4]] [v5 v6]].
  m3_unfold. cx_unfold. split_eq; ring.
Qed.
Lemma rot3_adj theta : m3_adj (rot3 theta) = rot3 (- theta).
Proof. m3_unfold. cx_unfold. rewrite cos_neg, sin_neg. split_eq; ring. Qed.
Lemma rot3_inv theta : m3_mul (rot3 (- theta)) (rot3 theta) = @m3_id ROps.
Proof.
  generalize (cs1 theta). intros Ht. m3_unfold. cx_unfold. rewrite cos_neg, sin_neg.
  split_eq; try ring; ring_simplify; ring_simplify in Ht; lra.
Qed.
Lemma rot3_inv' theta : m3_mul (rot3 theta) (rot3 (- theta)) = @m3_id ROps.
Proof. generalize (rot3_inv (- theta)). rewrite Ropp_involutive. auto. Qed.
Lemma diag3_unitary (a b : C) : cabs2 (O:=ROps) a = 1 -> cabs2 (O:=ROps) b = 1 -> is_unitary (diag3 a b c1).
Proof.
  destruct a as [ar ai], b as [br bi]. intros Ha Hb. m3_unfold. cx_unfold.
  split_eq; try ring; ring_simplify; ring_simplify in Ha; ring_simplify in Hb; lra.
Qed.

(** an element R(theta) diag(a, b, 1) R(-theta) with unimodular a, b is unitary *)
Lemma rotated_unitary (a b : C) theta :
  cabs2 (O:=ROps) a = 1 -> cabs2 (O:=ROps) b = 1 -> is_unitary (rotated_element a b theta).
Proof.
  intros Ha Hb. generalize (diag3_unitary a b Ha Hb). unfold is_unitary, rotated_element. intros HD.
  rewrite !m3_adj_mul, !rot3_adj, Ropp_involutive.
  rewrite !m3_mul_assoc.
  rewrite <- (m3_mul_assoc (rot3 (- theta)) (rot3 theta)). rewrite rot3_inv, m3_mul_id_l.
  rewrite <- (m3_mul_assoc (m3_adj (diag3 a b c1))). rewrite HD, m3_mul_id_l.
  apply rot3_inv'.
Qed.
Theorem retarder_unitary (d theta : R) : is_unitary (retarder_spec d theta).
Proof.
  unfold retarder_spec. apply rotated_unitary; cx_unfold; apply cs1.
Qed.
(** eigen-structure: the fast axis (cos t, sin t) gets phase -d/2, the slow axis +d/2:
    the phase difference between the axes is the stated retardance d *)
Theorem retarder_retardance (d theta : R) :
  m3_apply (retarder_spec d theta) (cofR (cos theta), cofR (sin theta), c0)
    = (cmul (Ccis (- (d / 2))) (cofR (cos theta)), cmul (Ccis (- (d / 2))) (cofR (sin theta)), c0) /\
  m3_apply (retarder_spec d theta) (cofR (- sin theta), cofR (cos theta), c0)
    = (cmul (Ccis (d / 2)) (cofR (- sin theta)), cmul (Ccis (d / 2)) (cofR (cos theta)), c0).
Proof.
  generalize (cs1 theta). intros Ht.
  m3_unfold. cx_unfold. rewrite ?cos_neg, ?sin_neg.
  set (c := cos theta) in *. set (s := sin theta) in *. clearbody c s.
  set (cd := cos (d / 2)). set (sd := sin (d / 2)). clearbody cd sd.
  split; split_eq; nsatz.
Qed.
(** rotation covariance: the element at theta is the rotation of the element at 0 *)
Theorem retarder_rotation_covariant (d theta x : R) :
  k_jones_retarder ROps d theta x
  = m3_flat (m3_mul (rot3 theta) (m3_mul (diag3 (Ccis (- (d / 2))) (Ccis (d / 2)) c1) (rot3 (- theta)))) /\
  k_jones_retarder ROps d 0 x = m3_flat (diag3 (Ccis (- (d / 2))) (Ccis (d / 2)) c1).
Proof.
  split.
  - rewrite retarder_kernel. reflexivity.
  - rewrite retarder_kernel. m3_unfold. cx_unfold. rewrite ?Ropp_0, ?cos_0, ?sin_0.
    split_eq; ring.
Qed.

(** ** Polarizers: each class is the orthogonal projector onto its stated state *)
Definition state_vec (name : string) : option (C * C) :=
  option_map (fun st => jones_vec (O:=ROps) (polstate_init st)) (named_state (O:=ROps) name).

Lemma projector_props (e : C * C) : unit2 e ->
  is_idempotent (projector3 e) /\ is_hermitian (projector3 e) /\
  m3_apply (projector3 e) (jvec3 e) = jvec3 e /\
  (forall f, herm2 e f = c0 -> m3_apply (projector3 e) (jvec3 f) = (c0, c0, c0)).
Proof.
  destruct e as [[a b] [c d]]. unfold unit2. cbn [fst snd]. intros Hu.
  m3_unfold. cx_unfold.
  repeat split.
  - split_eq; nsatz.
  - split_eq; ring.
  - split_eq; nsatz.
  - intros [[f1 f2] [f3 f4]]. unfold herm2. cx_unfold. intros Hf. injection Hf as H1 H2.
    split_eq; nsatz.
Qed.

Lemma sqrt2_sq : sqrt 2 * sqrt 2 = 2.
Proof. apply sqrt_sqrt; lra. Qed.
Lemma sqrt2_pos : 0 < sqrt 2.
Proof. apply sqrt_lt_R0; lra. Qed.

Ltac state_unfold :=
  unfold state_vec, named_state, polstate_init, jones_vec, sqrt2_2, pio2; cbn [String.eqb Ascii.eqb Bool.eqb option_map];
  rewrite ?cis_R; cx_unfold.

Lemma state_H : state_vec "H" = Some ((1, 0), (0, 0)).
Proof.
  state_unfold. replace (1 * 1 + 0 * 0) with 1 by ring. rewrite sqrt_1, cos_0, sin_0.
  do 2 f_equal; f_equal; field.
Qed.
Lemma state_V : state_vec "V" = Some ((0, 0), (1, 0)).
Proof.
  state_unfold. replace (0 * 0 + 1 * 1) with 1 by ring. rewrite sqrt_1, cos_0, sin_0.
  do 2 f_equal; f_equal; field.
Qed.
Lemma state_L45 : state_vec "L+45" = Some ((/ sqrt 2, 0), (/ sqrt 2, 0)).
Proof.
  state_unfold. replace (1 * 1 + 1 * 1) with 2 by ring. rewrite cos_0, sin_0.
  generalize sqrt2_pos; intros. do 2 f_equal; f_equal; field; lra.
Qed.
Lemma state_L135 : state_vec "L-45" = Some ((/ sqrt 2, 0), (- / sqrt 2, 0)).
Proof.
  state_unfold. replace (1 * 1 + -1 * -1) with 2 by ring. rewrite cos_0, sin_0.
  generalize sqrt2_pos; intros. do 2 f_equal; f_equal; field; lra.
Qed.
Lemma circ_mag : sqrt (sqrt 2 / 2 * (sqrt 2 / 2) + sqrt 2 / 2 * (sqrt 2 / 2)) = 1.
Proof.
  replace (sqrt 2 / 2 * (sqrt 2 / 2) + sqrt 2 / 2 * (sqrt 2 / 2)) with ((sqrt 2 * sqrt 2) / 2) by field.
  rewrite sqrt2_sq. replace (2 / 2) with 1 by field. apply sqrt_1.
Qed.
Lemma state_RCP : state_vec "RCP" = Some ((sqrt 2 / 2, 0), (0, - (sqrt 2 / 2))).
Proof.
  state_unfold. rewrite circ_mag, cos_0, sin_0, cos_neg, sin_neg, cos_PI2, sin_PI2.
  do 2 f_equal; f_equal; field.
Qed.
Lemma state_LCP : state_vec "LCP" = Some ((sqrt 2 / 2, 0), (0, sqrt 2 / 2)).
Proof.
  state_unfold. rewrite circ_mag, cos_0, sin_0, cos_PI2, sin_PI2.
  do 2 f_equal; f_equal; field.
Qed.

Lemma Rlit_half : Rlit 5 (-1) = / 2.
Proof. unfold Rlit. cbn. field. Qed.

Ltac pol_kernel :=
  m3_unfold; cx_unfold; rewrite ?Rlit_half;
  generalize sqrt2_sq sqrt2_pos; intros Hs2 Hs2p;
  split_eq; try (field_simplify; [try rewrite Hs2|lra..]); try field; try lra.

Definition is_projector_onto (k : list R) (e : C * C) : Prop :=
  unit2 e /\ k = m3_flat (projector3 e).

Theorem polarizer_H_kernel x : exists e, state_vec "H" = Some e /\ is_projector_onto (k_jones_pol_h ROps x) e.
Proof.
  eexists; split; [apply state_H|]. split; [unfold unit2; cx_unfold; ring|].
  cbv beta delta [k_jones_pol_h] iota zeta. m3_unfold. cx_unfold. split_eq; ring.
Qed.
Theorem polarizer_V_kernel x : exists e, state_vec "V" = Some e /\ is_projector_onto (k_jones_pol_v ROps x) e.
Proof.
  eexists; split; [apply state_V|]. split; [unfold unit2; cx_unfold; ring|].
  cbv beta delta [k_jones_pol_v] iota zeta. m3_unfold. cx_unfold. split_eq; ring.
Qed.
Theorem polarizer_L45_kernel x : exists e, state_vec "L+45" = Some e /\ is_projector_onto (k_jones_pol_l45 ROps x) e.
Proof.
  generalize sqrt2_sq sqrt2_pos; intros Hs2 Hs2p.
  assert (Hi : / sqrt 2 * / sqrt 2 = / 2) by (rewrite <- Rinv_mult, Hs2; reflexivity).
  eexists; split; [apply state_L45|]. split; [unfold unit2; cx_unfold; lra|].
  cbv beta delta [k_jones_pol_l45] iota zeta. m3_unfold. cx_unfold. rewrite ?Rlit_half.
  split_eq; ring_simplify; try lra; try (rewrite Hi; lra).
Qed.
Theorem polarizer_L135_kernel x : exists e, state_vec "L-45" = Some e /\ is_projector_onto (k_jones_pol_l135 ROps x) e.
Proof.
  generalize sqrt2_sq sqrt2_pos; intros Hs2 Hs2p.
  assert (Hi : / sqrt 2 * / sqrt 2 = / 2) by (rewrite <- Rinv_mult, Hs2; reflexivity).
  eexists; split; [apply state_L135|]. split; [unfold unit2; cx_unfold; lra|].
  cbv beta delta [k_jones_pol_l135] iota zeta. m3_unfold. cx_unfold. rewrite ?Rlit_half.
  split_eq; nra.
Qed.
Theorem polarizer_RCP_kernel x : exists e, state_vec "RCP" = Some e /\ is_projector_onto (k_jones_pol_rcp ROps x) e.
Proof.
  generalize sqrt2_sq sqrt2_pos; intros Hs2 Hs2p.
  eexists; split; [apply state_RCP|]. split; [unfold unit2; cx_unfold; nra|].
  cbv beta delta [k_jones_pol_rcp] iota zeta. m3_unfold. cx_unfold. rewrite ?Rlit_half.
  split_eq; nra.
Qed.
Theorem polarizer_LCP_kernel x : exists e, state_vec "LCP" = Some e /\ is_projector_onto (k_jones_pol_lcp ROps x) e.
Proof.
  generalize sqrt2_sq sqrt2_pos; intros Hs2 Hs2p.
  eexists; split; [apply state_LCP|]. split; [unfold unit2; cx_unfold; nra|].
  cbv beta delta [k_jones_pol_lcp] iota zeta. m3_unfold. cx_unfold. rewrite ?Rlit_half.
  split_eq; nra.
Qed.

(** every matrix of that form is an idempotent Hermitian projector fixing its state *)
Theorem projector_onto_props (k : list R) (e : C * C) : is_projector_onto k e ->
  exists P, k = m3_flat P /\ is_idempotent P /\ is_hermitian P /\ m3_apply P (jvec3 e) = jvec3 e /\
            (forall f, herm2 e f = c0 -> m3_apply P (jvec3 f) = (c0, c0, c0)).
Proof.
  intros [Hu Hk]. exists (projector3 e). split; [exact Hk|]. apply projector_props. exact Hu.
Qed.

(** ** Linear diattenuator: the diagonal agrees with R(theta) diag(t_max, t_min) R(-theta);
       the off-diagonal does not (see Findings/F_C17.v) *)
Definition nthR (l : list R) (i : nat) : R := List.nth i l 0%R.
Theorem diattenuator_diagonal_partial (t_min t_max theta x : R) :
  let k := k_jones_diattenuator ROps t_max theta t_min x in
  let m := m3_flat (diattenuator_spec t_min t_max theta) in
  nthR k 0 = nthR m 0 /\ nthR k 1 = nthR m 1 /\ nthR k 8 = nthR m 8 /\ nthR k 9 = nthR m 9 /\
  nthR k 16 = nthR m 16 /\ nthR k 17 = nthR m 17.
Proof.
  cbv beta delta [k_jones_diattenuator] iota zeta.
  m3_unfold. cx_unfold. rewrite ?cos_neg, ?sin_neg. unfold nthR. cbn [List.nth].
  repeat split; ring.
Qed.

(** C03: the pupil samplings of optiland/distribution.py (regenerated kernels k_dist_...): number of points,
    all points inside the unit disk, vignetting factors only shrink the pupil. *)
From Coq Require Import Reals Lra Lia ZArith List Bool Psatz.
From OV Require Import Ops OpsC03 RInst Gen.Distrib Spec.S_C03.
Import ListNotations.
Local Open Scope R_scope.

(** ** Lengths (any arithmetic) *)
Section Lengths.
  Context {O : Ops}.
  Notation T := (T O).

  Lemma seqZ_length a n : length (seqZ a n) = n.
  Proof. revert a; induction n; intros; cbn; [reflexivity|rewrite IHn; reflexivity]. Qed.

  Lemma zerosZ_length n : length (zerosZ (O := O) n) = Z.to_nat n.
  Proof. unfold zerosZ. apply repeat_length. Qed.

  Lemma linspace_length (a b : T) n : length (linspace_ a b n) = Z.to_nat n.
  Proof.
    unfold linspace_. destruct (Z.to_nat n) as [|[|m]]; [reflexivity|reflexivity|].
    rewrite app_length, map_length, seqZ_length. cbn. lia.
  Qed.

  Lemma zip2_length f (a b : list T) : length (zip2 f a b) = Nat.min (length a) (length b).
  Proof. unfold zip2. rewrite map_length, combine_length. reflexivity. Qed.

  (** l[:-1] *)
  Lemma slice_drop_last_length {A} (l : list A) : length (sliceZ l 0 (Some (-1)%Z)) = (length l - 1)%nat.
  Proof.
    unfold sliceZ. cbn [Z.ltb Z.compare]. cbn.
    rewrite firstn_length. lia.
  Qed.

  Theorem line_x_count n vx po :
    length (fst (k_dist_line_x O n vx po)) = Z.to_nat n /\ length (snd (k_dist_line_x O n vx po)) = Z.to_nat n.
  Proof.
    unfold k_dist_line_x. cbn [fst snd]. split; [|apply zerosZ_length].
    destruct po; rewrite map_length, linspace_length; reflexivity.
  Qed.

  Theorem line_y_count n vy po :
    length (fst (k_dist_line_y O n vy po)) = Z.to_nat n /\ length (snd (k_dist_line_y O n vy po)) = Z.to_nat n.
  Proof.
    unfold k_dist_line_y. cbn [fst snd]. split; [apply zerosZ_length|].
    destruct po; rewrite map_length, linspace_length; reflexivity.
  Qed.

  Theorem cross_count_thm n vx vy : (0 <= n)%Z ->
    Z.of_nat (length (fst (k_dist_cross O n vx vy))) = cross_count n /\
    Z.of_nat (length (snd (k_dist_cross O n vx vy))) = cross_count n.
  Proof.
    intros Hn. unfold k_dist_cross, cross_count. cbn [fst snd].
    rewrite !map_length, !app_length, !zerosZ_length, !linspace_length. lia.
  Qed.

  Theorem ring_count n vx vy :
    length (fst (k_dist_ring O n vx vy)) = Z.to_nat n /\ length (snd (k_dist_ring O n vx vy)) = Z.to_nat n.
  Proof.
    unfold k_dist_ring. cbn [fst snd].
    rewrite !map_length, slice_drop_last_length, linspace_length. lia.
  Qed.

  Theorem random_count vx vy (r th : list T) : length r = length th ->
    length (fst (k_dist_random O vx vy r th)) = length r /\ length (snd (k_dist_random O vx vy r th)) = length r.
  Proof.
    intros H. unfold k_dist_random. cbn [fst snd].
    rewrite !map_length, !zip2_length, !map_length. lia.
  Qed.
End Lengths.

Section Hexapolar.
  Context {O : Ops}.
  Notation T := (T O).

  (** one ring of the hexapolar loop *)
  Definition hex_step (r : list T) (acc : list T * list T) (i : Z) : list T * list T :=
    let '(x, y) := acc in
    let num_theta := (6 * (i + 1))%Z in
    let theta := sliceZ (linspace_ (ofZ 0) (mul (ofZ 2) pi_) (num_theta + 1)) 0 (Some (-1)%Z) in
    (x ++ map (fun v => mul (getZ r (i + 1)) v) (map (fun v => cos_ v) theta),
     y ++ map (fun v => mul (getZ r (i + 1)) v) (map (fun v => sin_ v) theta)).

  Lemma hexapolar_unfold n vx vy :
    k_dist_hexapolar O n vx vy =
    let r := linspace_ (ofZ 0) (ofZ 1) (n + 1) in
    let '(x, y) := fold_left (hex_step r) (rangeZ 0 n) (zerosZ 1, zerosZ 1) in
    (map (fun v => mul v (sub (ofZ 1) vx)) x, map (fun v => mul v (sub (ofZ 1) vy)) y).
  Proof.
    unfold k_dist_hexapolar. cbv zeta.
    match goal with |- (let '(a, b) := fold_left ?f _ _ in _) = (let '(c, d) := fold_left ?g _ _ in _) =>
      replace f with g; [reflexivity|] end.
    unfold hex_step. apply FunctionalExtensionality.functional_extensionality. intros [x y].
    apply FunctionalExtensionality.functional_extensionality. intros i. reflexivity.
  Qed.

  Lemma hex_fold_length r : forall k a x y, (0 <= a)%Z ->
    let res := fold_left (hex_step r) (seqZ a k) (x, y) in
    Z.of_nat (length (fst res)) = (Z.of_nat (length x) + 6 * Z.of_nat k * (a + 1) + 3 * Z.of_nat k * (Z.of_nat k - 1))%Z /\
    Z.of_nat (length (snd res)) = (Z.of_nat (length y) + 6 * Z.of_nat k * (a + 1) + 3 * Z.of_nat k * (Z.of_nat k - 1))%Z.
  Proof.
    induction k as [|k IH]; intros a x y Ha; cbn [seqZ fold_left].
    - cbn [fst snd]. lia.
    - unfold hex_step at 2. cbv zeta.
      match goal with |- context [fold_left _ _ (?x1, ?y1)] => specialize (IH (a + 1)%Z x1 y1 ltac:(lia)) end.
      cbv zeta in IH. destruct IH as [IHx IHy]. rewrite IHx, IHy.
      rewrite !app_length, !map_length, !slice_drop_last_length, !linspace_length.
      split; nia.
  Qed.

  (** hexapolar: 1 + 3 n (n+1) points for n rings *)
  Theorem hexapolar_count_thm n vx vy : (0 <= n)%Z ->
    Z.of_nat (length (fst (k_dist_hexapolar O n vx vy))) = hexapolar_count n /\
    Z.of_nat (length (snd (k_dist_hexapolar O n vx vy))) = hexapolar_count n.
  Proof.
    intros Hn. rewrite hexapolar_unfold. cbv zeta. unfold rangeZ.
    pose proof (hex_fold_length (linspace_ (ofZ 0) (ofZ 1) (n + 1)) (Z.to_nat (n - 0)) 0
                                (zerosZ 1) (zerosZ 1) ltac:(lia)) as H.
    cbv zeta in H. destruct (fold_left _ _ _) as [x y]. cbn [fst snd] in *.
    rewrite !map_length. destruct H as [Hx Hy]. rewrite Hx, Hy, !zerosZ_length.
    unfold hexapolar_count. replace (Z.of_nat (Z.to_nat (n - 0))) with n by lia. cbn. nia.
  Qed.
End Hexapolar.

Section GQ.
  Context {O : Ops}.
  Notation T := (T O).

  Lemma gq_cases n : (n < 1 \/ 6 < n \/ n = 1 \/ n = 2 \/ n = 3 \/ n = 4 \/ n = 5 \/ n = 6)%Z.
  Proof. lia. Qed.

  (** Gaussian quadrature: rings outside 1..6 are rejected *)
  Theorem gq_radius_defined n :
    is_none (k_dist_gq_radius O n) = negb (gq_rings_ok n) /\
    forall l, k_dist_gq_radius O n = Some l -> length l = Z.to_nat n.
  Proof.
    unfold k_dist_gq_radius, gq_rings_ok.
    destruct (gq_cases n) as [H|[H|[H|[H|[H|[H|[H|H]]]]]]]; try (subst n; cbn; split; [reflexivity|intros l E; inversion E; reflexivity]).
    - assert (E : existsb (Z.eqb n) [1;2;3;4;5;6]%Z = false).
      { cbn. repeat (rewrite (proj2 (Z.eqb_neq n _)) by lia). reflexivity. }
      rewrite E. cbn [negb is_none]. split; [|discriminate].
      assert ((1 <=? n)%Z = false) by (apply Z.leb_gt; lia). rewrite H0. reflexivity.
    - assert (E : existsb (Z.eqb n) [1;2;3;4;5;6]%Z = false).
      { cbn. repeat (rewrite (proj2 (Z.eqb_neq n _)) by lia). reflexivity. }
      rewrite E. cbn [negb is_none]. split; [|discriminate].
      assert ((n <=? 6)%Z = false) by (apply Z.leb_gt; lia). rewrite H0. rewrite andb_false_r. reflexivity.
  Qed.

  Lemma outer_flat_length (a b : list T) : length (outer_flat a b) = (length a * length b)%nat.
  Proof.
    unfold outer_flat. induction a as [|x a IH]; cbn; [reflexivity|].
    rewrite app_length, map_length, IH. reflexivity.
  Qed.

  (** n rings give 3 n points (n when symmetric); other ring numbers raise *)
  Theorem gq_count_thm n vx vy sym :
    is_none (k_dist_gq O n vx vy sym) = negb (gq_rings_ok n) /\
    forall xs ys, k_dist_gq O n vx vy sym = Some (xs, ys) ->
      Z.of_nat (length xs) = gq_count sym n /\ Z.of_nat (length ys) = gq_count sym n.
  Proof.
    destruct (gq_radius_defined n) as [Hnone Hlen].
    unfold k_dist_gq. destruct (k_dist_gq_radius O n) as [l|] eqn:E.
    - split; [exact Hnone|]. intros xs ys H. inversion H. subst xs ys. clear H.
      specialize (Hlen l eq_refl).
      assert (Hn : (1 <= n <= 6)%Z).
      { cbn in Hnone. unfold gq_rings_ok in Hnone. destruct (1 <=? n)%Z eqn:A, (n <=? 6)%Z eqn:B; cbn in Hnone; try discriminate.
        apply Z.leb_le in A. apply Z.leb_le in B. lia. }
      rewrite !map_length, !outer_flat_length, !map_length, Hlen.
      unfold gq_count. destruct sym; cbn [length]; lia.
    - split; [exact Hnone|]. discriminate.
  Qed.
End GQ.
